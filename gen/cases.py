"""Case generation per property: protocol lines over a generated universe.
Every random choice derives from one PRNG seeded by (seed, property)."""

import random
from universe import Adt
from universe import Universe, Sum, Adt, Seq, Str, Array, Tuple, Prim, Range, Phantom

HEADER_FIXED = 29
MAGIC_REV = int.from_bytes(b"epserde "[::-1], 'little')


def values_for(t, rng, n, budget=4):
    """n values of type t (deduplicated, boundary-biased); for sum types every variant appears"""
    out, seen = [], set()
    forced = []
    if any(getattr(x, 'heavy', False) for x in t.walk()):
        return values_for_light(t, rng, n, budget)
    if isinstance(t, Sum):
        forced = list(range(t.nvariants()))
    elif isinstance(t, Adt) and t.d.is_enum:
        forced = list(range(len(t.variants)))
        if len(forced) > 16:       # many variants: the ends and the byte boundary
            forced = [0, 1, 254, 255, 256, 257, 258, len(forced) - 1]
    for f in forced:
        v = t.gen(rng, budget, force=f)
        if v not in seen:
            seen.add(v); out.append(v)
    tries = 0
    while len(out) < n and tries < 4 * n:
        tries += 1
        v = t.gen(rng, budget)
        if v not in seen:
            seen.add(v); out.append(v)
    return out


def values_for_light(t, rng, n, budget):
    """values of a type that contains a heavy sequence (megabyte-sized items): the heavy sequences stay empty"""
    import universe
    saved = universe.Seq.gen
    def gen(self, rng_, budget_):
        return '[]' if getattr(self, 'heavy', False) else saved(self, rng_, budget_)
    universe.Seq.gen = gen
    try:
        out = []
        for _ in range(4 * n):
            v = t.gen(rng, budget)
            if v not in out: out.append(v)
            if len(out) >= n: break
        return out
    finally:
        universe.Seq.gen = saved


def big_values(u):
    """(type index, value, what) for the big families: an item above 1 MiB, two blocks above 64 KiB of which the second
    starts beyond byte 65536, a stream above 2 MiB"""
    out = []
    for i, t in enumerate(u.types):
        r = t.rust()
        if r == 'Vec<[u64; 131073]>':
            item = '[' + ''.join('%d,' % ((k * 0x9E3779B97F4A7C15 + 1) % (1 << 64)) for k in range(131073)) + ']'
            out.append((i, '[' + item + ',' + item.replace('1,', '3,', 1) + ',]', 'item-above-1MiB'))
        elif r == 'KP2<Vec<u64>, Vec<u8>>':
            a = '[' + ''.join('%d,' % (k * 2654435761 % (1 << 64)) for k in range(20000)) + ']'
            b = '[' + ''.join('%d,' % (k * 7 % 251) for k in range(70000)) + ']'
            out.append((i, '{' + a + ',' + b + ',}', 'two-blocks-above-64KiB'))
        elif r.startswith('Vec<' * 70 + 'u64'):
            v = '[1,2,3,]'
            for k in range(2, 71):
                v = '[' + v + (',[],]' if k % 9 == 0 else ',]')
            out.append((i, v, 'nested-70-levels'))
        elif r == 'Vec<u64>':
            out.append((i, '[' + ''.join('%d,' % (k * 2654435761 % (1 << 64) | 1) for k in range(300000)) + ']', 'stream-above-2MiB'))
    return out


def is_trivial(v):
    return v in ('()', '[]', '{}', '#0()', 's""', '0')


def max_unit(t):
    """largest alignment unit of a zero-copy block anywhere in the type"""
    m = 1
    for x in t.walk():
        try:
            if x.is_zc(): m = max(m, x.unit())
        except NotImplementedError:
            pass
    return m


def is_fragile(t):
    return any(x.fragile for x in t.walk())


class CaseSet:
    def __init__(self):
        self.lines = []     # protocol lines
        self.meta = []      # per line: dict(kind, type index, mut, val, ...)
        self.dist = {}

    def add(self, line, **meta):
        self.lines.append(line)
        self.meta.append(meta)
        k = meta.get('family', meta.get('kind', 'other'))
        self.dist[k] = self.dist.get(k, 0) + 1


def parse_schema(ans):
    """'schema ok <hex> f,o,s,a,tyhex;... csv=.. debug=..' -> (hex, rows, csv, debug) or None"""
    p = ans.split(' ')
    if len(p) < 4 or p[0] != 'schema' or p[1] != 'ok':
        return None
    rows = []
    for r in p[3].split(';'):
        if not r: continue
        f = r.split(',')
        rows.append({'field': f[0], 'offset': int(f[1]), 'size': int(f[2]), 'align': int(f[3]),
                     'ty': bytes.fromhex(f[4]).decode('utf-8', 'replace') if len(f) > 4 else ''})
    extra = {}
    for x in p[4:]:
        if '=' in x:
            k, v = x.split('=', 1); extra[k] = v
    return p[2], rows, extra


def pad_sweep(u, case):
    """every padding length 0..63 in front of a 64-aligned block and of a 32-aligned structure: the stress
    definition KD3 { s: String, v: Vec<KZ8 (align 64)>, z: KZ6 (align 32), t: u8 } with strings of every length"""
    for i, t in enumerate(u.types):
        if isinstance(t, Adt) and t.d.name.endswith('D3') and not t.d.module and t.d.name.startswith('K'):
            for n in range(64):
                v = '{s"%s",[{%d,%d,},{7,8,},],{%d,},%d,}' % ('41' * n, n, 1000 + n, n % 256, (n * 3) % 256)
                case(i, 0, '-', v, 'pad-sweep')
        # KD5<A> { s: String, a: A, t: u8 } with A a vector / boxed slice of zero-copy items: borrowed in ε-copy results
        if isinstance(t, Adt) and t.d.name == 'KD5' and not t.d.module and not isinstance(t.targs[0], Seq):
            # A a zero-copy value (a reference in the ε-copy result): every length of the string in front of it
            for n in range(32):
                for av in values_for(t.targs[0], random.Random(n), 1):
                    case(i, 0, '-', '{s"%s",%s,%d,}' % ('41' * n, av, n % 256), 'pad-sweep')
        if isinstance(t, Adt) and t.d.name == 'KD5' and not t.d.module and isinstance(t.targs[0], Seq):
            el = t.targs[0].t
            if isinstance(el, Adt) and el.d.name == 'KZ11':
                # gaps up to 16383 bytes in front of a 16384-aligned block: sampled, around the page size and the extremes
                for n in [0, 1, 2, 100, 4000, 4090, 4096, 4100, 8190, 8200, 12288, 16200, 16300]:
                    case(i, 0, '-', '{s"%s",[{%d,%d,},],%d,}' % ('41' * n, n % 65536, n, n % 256), 'pad-sweep-page')
                continue
            if (not isinstance(el, Adt) and not isinstance(el, Array)) or (isinstance(el, Adt) and el.d.name not in ('KZE2', 'KZ8', 'KZ6', 'KZ10', 'KZV', 'KZ11')):
                # any other item type (ranges, tuples, ...): generated items behind strings of every length 0..15
                for n in range(16):
                    items = ''.join(x + ',' for x in values_for(el, random.Random(n), 2))
                    case(i, 0, '-', '{s"%s",[%s],%d,}' % ('41' * n, items, n % 256), 'pad-sweep')
                continue
            inner = el.d.name if isinstance(el, Adt) else ('z0' if isinstance(el, Array) and not isinstance(el.t, Str) else 's0')
            item = {'KZE2': lambda n: '#0(),#1(%d,),#2(%d,),' % (n % 256, 1000 + n), 'KZ8': lambda n: '{%d,%d,},{7,8,},' % (n, 1000 + n),
                    'KZ6': lambda n: '{%d,},{9,},' % (n % 256), 'z0': lambda n: '[],[],[],', 's0': lambda n: '[],[],',
                    'KZ10': lambda n: '{{[%d,2,],},%d,},{{[3,4,],},5,},{{[6,7,],},8,},' % (n, n), 'KZV': lambda n: '{[],{},},{[],{},},'}[inner]
            for n in range(64 if inner in ('KZ8', 'KZ6') else 16):
                case(i, 0, '-', '{s"%s",[%s],%d,}' % ('41' * n, item(n), n % 256), 'pad-sweep')
        # KD6 { s: String, a: KZ9 (align 128), t: u8, b: KZ9, v: Vec<KZ9> }: every padding length 0..127, twice in a row
        if isinstance(t, Adt) and t.d.name == 'KD6' and not t.d.module:
            for n in range(128):
                case(i, 0, '-', '{s"%s",{%d,%d,},%d,{7,%d,},[{1,2,},{3,4,},],}' % ('41' * n, n % 256, 100000 + n, n % 256, n), 'pad-sweep')
        # KD4 { s: String, v: Vec<KZE2 (zero-copy enum, alignment from the 4-byte tag)>, t: u8 }
        if isinstance(t, Adt) and t.d.name.endswith('D4') and not t.d.module and t.d.name.startswith('K'):
            for n in range(16):
                v = '{s"%s",[#0(),#1(%d,),#2(%d,),],%d,}' % ('41' * n, n, 1000 + n, n)
                case(i, 0, '-', v, 'pad-sweep')


def long_cases(u, case, quick):
    """lengths that cross the byte boundaries of the length word (255/256/257, 65535/65536/65537; 2^22+1 in the
    thorough tier: the compiled model driver overflows its stack on a list of 2^24 bytes) for strings, zero-copy sequences
    and deep sequences"""
    lens = [255, 256, 257, 65535, 65536, 65537] + ([] if quick else [(1 << 22) + 1])
    want = {'String': lambda n: 's"%s"' % ('61' * n), 'Box<[u16]>': lambda n: '[' + ''.join('%d,' % (k & 0xffff) for k in range(n)) + ']',
            'Vec<u64>': lambda n: '[' + ''.join('%d,' % (k * 2654435761 % (1 << 64)) for k in range(n)) + ']',
            'Vec<String>': lambda n: '[' + ''.join('s"%02x",' % (0x61 + k % 26) for k in range(n)) + ']',
            'Vec<()>': lambda n: '[' + '(),' * n + ']'}
    for i, t in enumerate(u.types):
        f = want.get(t.rust())
        if f is None: continue
        for n in lens:
            if n > 70000 and t.rust() not in ('String', 'Vec<()>'): continue
            if n > 300 and t.rust() == 'Vec<String>': continue     # (the model's deep-sequence writer is quadratic)
            case(i, 0, '-', f(n), 'long')


def gen_cases(prop, u, seed, tier, probe=None):
    """probe(lines) -> answers of the implementation (used to aim mutations at tags and lengths)"""
    rng = random.Random('%s-%s' % (seed, prop))
    cs = CaseSet()
    quick = tier == 'quick'
    for i, t in enumerate(u.types):
        cs.add('type %d %s' % (i, t.term()), kind='type', ti=i)
    nvals = 10 if quick else 30

    def case(i, r, mut, val, family, **kw):
        cs.add('case %d %d %s %s' % (i, r, mut, val), kind='case', ti=i, r=r, mut=mut, val=val, family=family, **kw)

    if prop == 'C03':
        import valterm
        pad_sweep(u, case)
        plan = []
        for i, t in enumerate(u.types):
            for v in values_for(t, rng, 2 if quick else 5):
                plan.append((i, v))
        answers = probe(['schema %d %s' % (i, v) for i, v in plan])
        for (i, v), a in zip(plan, answers):
            ps = parse_schema(a)
            if ps is None: continue
            blocks = [(r['offset'], r['align']) for r in ps[1] if r['align'] > 0 and r['field'].startswith('ROOT')]
            for r in ([1, 2, 4, 8, 16, 32, 64] if quick else range(1, 128)):
                case(i, r, '-', v, 'placement', blocks=blocks)
        for i, t in enumerate(u.types):
            for v in values_for(t, rng, 6 if quick else 20):
                case(i, 0, '-', v, 'roundtrip')
                tv = valterm.parse(v)
                group = []
                for f in (1, 4, 16) if quick else (1, 2, 8, 64):
                    sv = valterm.show(valterm.scale(t, tv, f))
                    group.append(sv)
                if len(set(group)) > 1:
                    gid = len(cs.lines)
                    for f, sv in zip((1, 4, 16) if quick else (1, 2, 8, 64), group):
                        cs.add('alloc %d 0 %s' % (i, sv), kind='alloc', ti=i, val=sv, group=gid, factor=f, family='alloc-scaling')
                else:
                    cs.add('alloc %d 0 %s' % (i, v), kind='alloc', ti=i, val=v, group=None, factor=1, family='alloc-plain')
        # vectors of items that are written as zero bytes but rebuilt as non-zero-sized structures: more items than
        # bytes left in the stream; what is allocated must still not depend on the borrowed payloads that follow
        for i, t in enumerate(u.types):
            if not valterm.has_empty_items(t): continue
            for v in values_for(t, rng, 8):
                for n in (40, 300):
                    tv = valterm.inflate(t, valterm.parse(v), n)
                    group = [valterm.show(valterm.scale(t, tv, f)) for f in (1, 16, 256)]
                    if len(set(group)) > 1:
                        gid = len(cs.lines)
                        for f, sv in zip((1, 16, 256), group):
                            cs.add('alloc %d 0 %s' % (i, sv), kind='alloc', ti=i, val=sv, group=gid, factor=f, family='alloc-empty-items')
    elif prop in ('C01', 'C02'):
        pad_sweep(u, case)
        long_cases(u, case, quick)
        for (i, v, what) in big_values(u):
            case(i, 0, '-', v, 'big-' + what)
        for nz in (0, 3, (1 << 32) + 1, (1 << 63) - 1, 1 << 63, (1 << 63) + 1, (1 << 64) - 2, (1 << 64) - 1):
            cs.add('zstvec %d' % nz, kind='zstvec', n=nz, family='zero-sized-items-huge-length')
        for kind_, n in (('u8', 1 << 24), ('u8', (1 << 24) - 1), ('u8', (1 << 24) + 1), ('u64', 1 << 21), ('str', 1 << 24), ('str', (1 << 25) + 3),
                         ('strvec', (1 << 24) + 5), ('strvec', (1 << 25) + 3), ('strvec', 1 << 24), ('strvec', (1 << 20) + 1)):
            cs.add('bigfile %s n%d %s -' % (kind_, n, 'dfull' if prop == 'C01' else 'deps'), kind='bigfile', loader='dfull', prefix=None, family='payload-16MiB')
        if prop == 'C01':
            # the stored bytes come back through `load_full` from something that is not a regular file: a named pipe fed
            # in fragments by another thread (its metadata length is zero)
            for i, t in enumerate(u.types):
                if i % (5 if quick else 2): continue
                for v in values_for(t, rng, 1):
                    for pat in ['fifo-p7', 'fifo-all']:
                        cs.add('rchunk %d %s - %s' % (i, pat, v), kind='rchunk', ti=i, val=v, k=None, family='fifo-roundtrip')
        for i, t in enumerate(u.types):
            for v in values_for(t, rng, nvals):
                case(i, 0, '-', v, 'roundtrip')
            if prop == 'C02':
                # other placements that are still multiples of every unit (units are at most 64)
                for v in (values_for(t, rng, 2) if max_unit(t) <= 64 else []):
                    case(i, 64, '-', v, 'roundtrip-64')
    elif prop == 'C06':
        import json, os
        index = {t.rust(): i for i, t in enumerate(u.types)}
        cpath = os.path.join(os.path.dirname(os.path.dirname(os.path.abspath(__file__))), 'corpus', 'v1', 'corpus.jsonl')
        for line in open(cpath):
            e = json.loads(line)
            i = index.get(e['rust'])
            if i is None or u.types[i].term() != e['term']:
                cs.add('corpus-missing %s' % e['rust'].replace(' ', '_'), kind='corpus-missing', family='corpus-missing', entry=e['rust'])
                continue
            cs.add('case %d 0 - %s' % (i, e['val']), kind='case', ti=i, r=0, mut='-', val=e['val'], family='corpus-write',
                   stored=e['bytes'], mask=e['mask'])
            cs.add('fromhex %d 0 %s' % (i, e['bytes']), kind='fromhex', ti=i, val=e['val'], family='corpus-read', total=len(e['bytes']) // 2)
            cs.add('hash %d' % i, kind='hash', ti=i, family='corpus-hash', th=e['type_hash'], ah=e['align_hash'])
        for i, t in enumerate(u.types):
            for v in values_for(t, rng, nvals):
                case(i, 0, '-', v, 'roundtrip')
            cs.add('feed %d' % i, kind='feed', ti=i, family='feed')
            cs.add('hash %d' % i, kind='hash', ti=i, family='hash')
        for n in list(range(0, 40)) + [63, 64, 65, 127, 128, 129, 239, 240, 241, 255, 256, 1023, 1024, 1025, 2047, 2048, 2049, 3000]:
            b = bytes(rng.randrange(256) for _ in range(n))
            cs.add('xxh %s' % b.hex(), kind='xxh', family='xxh')
    elif prop == 'C07':
        # the iterator writer hands the writer the bytes of the vector (same count), for every zero-copy item type
        for k, t in enumerate(u.slice_elems):
            cs.add('stype %d %s' % (k, t.term()), kind='stype', ti=None)
        for k, t in enumerate(u.slice_elems):
            vt = Seq('vec', t)
            for v in dict.fromkeys(['[]'] + values_for(vt, rng, 4)):
                cs.add('ser3 %d %s' % (k, v), kind='ser3', sk=k, val=v, family='iter-count')
        def sweep_case(i, r, mut, v, family):
            case(i, r, mut, v, family)
            cs.add('schema %d %s' % (i, v), kind='schema', ti=i, val=v, family='schema-pad-sweep')
        pad_sweep(u, sweep_case)
        for i, t in enumerate(u.types):
            cs.add('layout %d' % i, kind='layout', ti=i, family='layout')
            for v in values_for(t, rng, nvals):
                case(i, 0, '-', v, 'roundtrip')
                cs.add('schema %d %s' % (i, v), kind='schema', ti=i, val=v, family='schema')
    elif prop == 'C10':
        # hash fields replaced by *meaningful* values: the hashes of other registered types (among them the alignment hash of
        # types without zero-copy parts, which is the digest of the empty input)
        hashes = [a.split(' ') for a in probe(['hash %d' % i for i in range(len(u.types))])]
        ths = [int(h[1]) for h in hashes if len(h) == 3 and h[0] == 'hash']
        ahs = sorted(set(int(h[2]) for h in hashes if len(h) == 3 and h[0] == 'hash'))
        for i, t in enumerate(u.types):
            vals = values_for(t, rng, 2)
            v = vals[-1]
            for ah in rng.sample(ahs, min(len(ahs), 4 if quick else 12)) + ahs[:1] + [0x2d06800538d394c2]:
                case(i, 0, 'setw:21:8:%d' % ah, v, 'hdr-align-hash-of-another-type')
            for th in rng.sample(ths, min(len(ths), 2 if quick else 8)):
                case(i, 0, 'setw:13:8:%d' % th, v, 'hdr-type-hash-of-another-type')
            case(i, 0, '-', v, 'baseline')
            bits = range(HEADER_FIXED * 8) if (not quick or i % 4 == 0) else sorted(rng.sample(range(HEADER_FIXED * 8), 48))
            for k in bits:
                case(i, 0, 'flip:%d' % k, v, 'hdr-flip')
            case(i, 0, 'setw:0:8:%d' % MAGIC_REV, v, 'hdr-magicrev')
            for m in [0, 1, 2, 3, 255, 256, 257, 32767, 32768, 65535, rng.randrange(2, 65536)]:
                case(i, 0, 'setw:10:2:%d' % m, v, 'hdr-minor')
            # two fields perturbed at once: a lower (accepted) minor version does not waive the hash checks; the first
            # failing check in the published order is the one reported
            for k in sorted(rng.sample(range(13 * 8, 29 * 8), 6 if quick else 24)):
                case(i, 0, 'setw:10:2:0+flip:%d' % k, v, 'hdr-minor0-and-hash-flip')
            k = rng.randrange(13 * 8, 29 * 8)
            case(i, 0, 'setw:10:2:2+flip:%d' % k, v, 'hdr-minor2-and-hash-flip')
            case(i, 0, 'setw:10:2:0+setw:12:1:4', v, 'hdr-minor0-and-usize')
            case(i, 0, 'setw:8:2:2+setw:10:2:7', v, 'hdr-major-and-minor')
            for m in [0, 2, 256, 65535]:
                case(i, 0, 'setw:8:2:%d' % m, v, 'hdr-major')
            for m in [0, 4, 7, 9, 16, 255]:
                case(i, 0, 'setw:12:1:%d' % m, v, 'hdr-usize')
            if i % 4 == 0:
                cs.add('quietminor %d %s' % (i, v), kind='quietminor', ti=i, val=v, family='minor0-stderr-unwritable')
            # the same on a buffer that is not aligned (the header is read by copying: what it reports does not depend on
            # where the bytes are; only a *valid* header may be followed by an alignment error)
            for r in (1, 8, 31):
                case(i, r, '-', v, 'baseline-misplaced')
                for k in sorted(rng.sample(range(HEADER_FIXED * 8), 10)):
                    case(i, r, 'flip:%d' % k, v, 'hdr-flip-misplaced')
                case(i, r, 'setw:0:8:%d' % MAGIC_REV, v, 'hdr-magicrev-misplaced')
                for m in [0, 2, 65535]:
                    case(i, r, 'setw:10:2:%d' % m, v, 'hdr-minor-misplaced')
    elif prop == 'C11':
        plan = []
        for i, t in enumerate(u.types):
            for v in values_for(t, rng, 3 if quick else 8):
                plan.append((i, v))
        answers = probe(['schema %d %s' % (i, v) for i, v in plan])
        for (i, v), a in zip(plan, answers):
            ps = parse_schema(a)
            if ps is None:
                continue
            n = len(ps[0]) // 2
            if n > (400 if quick else 20000):
                continue
            case(i, 0, '-', v, 'baseline')
            for k in range(n):
                case(i, 0, 'trunc:%d' % k, v, 'trunc', total=n)
            # the file-backed entry points that do not zero-extend: load_full and mmap of the truncated file
            # (the two copying loaders zero-extend up to the next multiple of 64 / 16: listed for the record)
            hx = ps[0]
            cuts = sorted(set([0, 1, 28, 29, 36, n // 2, n - 8, n - 1] + [rng.randrange(n) for _ in range(4 if quick else 16)]))
            cs.add('fload %d full %s' % (i, hx), kind='fload', ti=i, loader='full', cut=None, total=n, family='file-whole')
            for k in cuts:
                if not 0 <= k < n: continue
                for l in ('full', 'map', 'mem', 'mmap'):
                    lf = l if l in ('full', 'mem') else '%s:%d' % (l, (k + i) % 8)      # the mapping flags vary (all 8 combinations)
                    cs.add('fload %d %s %s' % (i, lf, hx[:2 * k] if k else '-'), kind='fload', ti=i, loader=l, cut=k, total=n, family='file-trunc-' + l)
        # big files, and the mapping flags: the last bytes of a file above 2 MiB are cut off, the mapping is asked for with and
        # without flags
        for (i, v, what) in big_values(u):
            if what != 'stream-above-2MiB': continue
            for cut in ([1, 8, 15, 16] if quick else [1, 2, 7, 8, 9, 15, 16, 17, 24, 1000, 4096]):
                for l in (['full', 'map:0', 'map:1'] if quick else ['full', 'map:0', 'map:1', 'map:7', 'mem', 'mmap:1']):
                    cs.add('floadc %d %s %d %s' % (i, l, cut, v), kind='fload', ti=i, loader=l.split(':')[0], cut=-cut, total=2400000, family='big-file-trunc-' + l.replace(':', '-flags'))
        # payloads of exactly one and two blocks of 16 MiB (and one item more), cut in the header, in the first and in the last
        # block, one byte before the end
        for kind_, n in (('u8', 1 << 24), ('u64', 1 << 22), ('str', 1 << 24), ('u8', (1 << 24) + 1)) + (() if quick else (('u8', 1 << 20), ('u64', 1 << 21), ('u8', 3 << 24))):
            for pre in ('64', '100', 'e1', 'e100', 'e%d' % (1 << 23), 'e%d' % ((1 << 24) - 1), str((1 << 23) + 5)):
                # (only *strict* prefixes: a cut beyond the payload of the smaller streams would leave the whole stream)
                if int(pre.lstrip('e')) >= n * (8 if kind_ == 'u64' else 1): continue
                for l in ('dfull', 'full', 'map:0', 'deps'):
                    cs.add('bigfile %s n%d %s %s' % (kind_, n, l, pre), kind='bigfile', loader=l.split(':')[0], prefix=pre, family='big-prefix-' + l.split(':')[0])
        # long vectors of deep-copy items (rebuilt item by item): cut right after the length word, after one item, in the
        # middle, one byte before the end
        for kind_, n in (('optu64', 70000), ('strs', 66000)) + (() if quick else (('optu64', 1 << 20), ('strs', 200000))):
            for pre in ('b8', 'b9', 'b24', 'b%d' % (n * 4), 'e1', 'e9', '-'):
                for l in ('dfull', 'full', 'map:0', 'deps'):
                    cs.add('bigfile %s n%d %s %s' % (kind_, n, l, pre), kind='bigfile', loader=l.split(':')[0], prefix=None if pre == '-' else pre, family='long-deep-vector-prefix-' + l.split(':')[0])
    elif prop == 'C12':
        plan = []
        for i, t in enumerate(u.types):
            if max_unit(t) > 128: continue      # (streams of 16 KiB and more: exercised by the over-aligned loads below only)
            for v in values_for(t, rng, 3 if quick else 8):
                plan.append((i, v))
        answers = probe(['schema %d %s' % (i, v) for i, v in plan])
        for (i, v), a in zip(plan, answers):
            ps = parse_schema(a)
            if ps is None:
                continue
            blocks = [(r['offset'], r['align']) for r in ps[1] if r['align'] > 0 and r['field'].startswith('ROOT')]
            maxu = max([u_ for _, u_ in blocks] + [1])
            rs = range(128) if (not quick or maxu > 1 and i % 2 == 0) else [0, 1, 2, 3, 4, 6, 8, 12, 16, 24, 32, 48, 64, 65, 96, 127]
            # "streams containing only byte-aligned data deserialize at any address": every zero-copy node of the type
            # has native alignment 1 (computed from the type, not from the unit the implementation reports)
            def native_align(x):
                try: return x.align()
                except Exception: return 1
            bytealigned = all(native_align(x) == 1 for x in u.types[i].walk() if x.is_zc())
            for r in rs:
                case(i, r, '-', v, 'placement', blocks=blocks, bytealigned=bytealigned)
        # units above the alignment of the loaders' regions (64 for the heap, a page for the mappings): a load either fails with
        # an alignment error or returns a structure none of whose references is misaligned, wherever the region happens to be
        for i, t in enumerate(u.types):
            if max_unit(t) <= 64 or (isinstance(t, Adt) and t.d.copy == 'zero'): continue
            for v in values_for(t, rng, 2):
                for rep in range(4 if quick else 16):
                    for l in ('mem', 'mmap', 'map'):
                        cs.add('loadu %d %s 0 %s' % (i, l, v), kind='loadu', ti=i, val=v, loader=l, family='load-overaligned-' + l)
    elif prop == 'C15':
        plan = []
        for i, t in enumerate(u.types):
            has_sum = any(isinstance(x, Sum) or (isinstance(x, Adt) and x.d.is_enum and x.d.copy != 'zero') for x in t.walk())
            if not has_sum:
                continue
            for v in values_for(t, rng, 5 if quick else 12, budget=3):
                plan.append((i, v))
        # the written tags map back through a reader too: one byte per call, `Interrupted` on every other call (so that
        # tag reads are interrupted), fragments of 3 bytes
        for (i, v) in plan[::(3 if quick else 1)]:
            for pat in ('onei', 'p3i', 'mixi', 'one'):
                cs.add('rchunk %d %s - %s' % (i, pat, v), kind='rchunk', ti=i, val=v, k=None, family='tags-through-interrupted-reader')
        answers = probe(['schema %d %s' % (i, v) for i, v in plan])
        enum_arity = {d.name: len(d.variants) for d in u.defs if d.is_enum}
        for (i, v), a in zip(plan, answers):
            ps = parse_schema(a)
            case(i, 0, '-', v, 'baseline')
            if ps is None or is_fragile(u.types[i]):
                continue
            rows = ps[1]
            for ri, r in enumerate(rows):
                leaf = r['field'].split('.')[-1]
                if leaf not in ('Tag', 'tag') or not r['field'].startswith('ROOT'):
                    continue
                # the parent row is the closest previous row whose range contains this one and whose name is the prefix
                parent = None
                pref = r['field'].rsplit('.', 1)[0]
                for q in reversed(rows[:ri]):
                    if q['field'] == pref and q['offset'] <= r['offset'] and r['offset'] + r['size'] <= q['offset'] + q['size']:
                        parent = q; break
                if parent is None:
                    continue
                ty = parent['ty']
                if leaf == 'Tag':
                    if ty.startswith('core::option::Option<'): nv = 2
                    elif ty.startswith('core::ops::range::Bound<'): nv = 3
                    elif ty.startswith('core::ops::control_flow::ControlFlow<'): nv = 2
                    else: continue
                    tags = range(256) if (not quick or rng.random() < 0.3) else [0, 1, 2, 3, 4, 7, 8, 127, 128, 254, 255]
                    for b in tags:
                        # only foreign tags: switching to another valid variant re-interprets the bytes that
                        # follow (lengths included), and a huge length makes the allocator abort the process
                        if b < nv: continue
                        case(i, 0, 'set:%d:%d' % (r['offset'], b), v, 'tag-byte', nv=nv, tag=b, off=r['offset'], last=(r['offset'] + 1 == len(ps[0]) // 2))
                else:
                    name = ty.split('::')[-1].split('<')[0] if '<' not in ty else ty.split('<')[0].split('::')[-1]
                    nv = enum_arity.get(name)
                    if nv is None:
                        continue
                    for w in sorted(set([0, 1, 2, 3, nv - 1, nv, nv + 1, 255, 256, 2**32, 2**32 + 1, 2**63, 2**64 - 1])):
                        if w < nv: continue
                        case(i, 0, 'setw:%d:8:%d' % (r['offset'], w), v, 'tag-word', nv=nv, tag=w, off=r['offset'], last=(r['offset'] + 8 == len(ps[0]) // 2))
    elif prop == 'C09':
        # the backing region must outlive the loaded structure: a structure whose destructor reads its borrowed data
        for l in ['full', 'mem', 'mmap', 'map']:
            for n in [0, 1, 7, 1000, 40000]:
                cs.add('dropcheck %s %d' % (l, n), kind='dropcheck', loader=l, n=n, family='drop-order')
        plan = []
        for i, t in enumerate(u.types):
            if is_fragile(t): continue
            for v in values_for(t, rng, 6 if quick else 10):
                plan.append((i, v))
        answers = probe(['schema %d %s' % (i, v) for i, v in plan])
        per_type = {}
        for (i, v), a in zip(plan, answers):
            ps = parse_schema(a)
            if ps is not None and 40 < len(ps[0]) // 2 < (3000 if max_unit(u.types[i]) <= 64 else 70000):
                per_type.setdefault(i, []).append((i, v, ps[0]))
        # per type the values with the longest streams (they own the most heap memory when rebuilt)
        streams = []
        for i in sorted(per_type):
            best = sorted(per_type[i], key=lambda x: -len(x[2]))
            streams += best[:2 if quick else 4]
        def owns_heap_in_sequence(t):
            # arrays / vectors / structures whose items own heap memory: a failure in a later item must release the earlier ones
            return any(isinstance(x, (Array, Seq)) and any(isinstance(y, (Str, Seq)) for y in x.t.walk()) for x in t.walk()) or \
                   (isinstance(t, Adt) and sum(1 for c in t.children() if any(isinstance(y, (Str, Seq)) for y in c.walk())) >= 2)
        reps = 12 if quick else 40
        for idx, (i, v, hx) in enumerate(streams):
            n = len(hx) // 2
            if quick and idx % 2 and not owns_heap_in_sequence(u.types[i]): continue
            variants = [('valid', hx)]
            # cut points: inside the header, and spread over the body so that a cut falls after some heap-owning parts
            # of the value have been built and inside a later one (partially built values must be released too)
            body0 = min(n, 37)
            spread = [body0 + (n - body0) * q // 12 for q in range(1, 12)]
            for k in sorted(set([1, 8, 12, 28, 36, n // 2, n - 9, n - 1] + spread)):
                if 0 < k < n: variants.append(('trunc%d' % k, hx[:2 * k]))
            variants.append(('magic', '00' + hx[2:]))
            variants.append(('typehash', hx[:26] + ('%02x' % (int(hx[26:28], 16) ^ 1)) + hx[28:]))
            j, _, other = streams[(idx + 1) % len(streams)]
            if j != i: variants.append(('foreign', other))
            variants.append(('garbage', bytes(rng.randrange(256) for _ in range(64)).hex()))
            if idx % 4 == 0:
                variants.append(('empty', 'EMPTY'))        # a file of length zero
            if idx % 5 == 0:
                variants.append(('unreadable', 'DIR'))     # a path that opens and has a length but cannot be read (a directory)
            # (also a deep-copy structure that merely carries `repr(align(N))`, N > 64: the region loaders compare
            # `align_of::<Self>()` with the alignment of their region before reading anything)
            over = max_unit(u.types[i]) > 64 or any(isinstance(x, Adt) and x.d.align_attr > 64 for x in u.types[i].walk())
            for name, data in variants:
                for l in ['full', 'mem', 'mmap', 'map']:
                    # (over-aligned types: whether the region loaders succeed depends on the address of the region)
                    op = 'leaku' if over and l != 'full' else 'leak'
                    cs.add('%s %d %s %d %s' % (op, i, l, reps, data), kind='leak', ti=i, val=v, loader=l, variant=name, reps=reps, family='leak-' + name.rstrip('0123456789') + ('-overaligned' if over else ''))
    elif prop == 'C04':
        n = len(u.types)
        vals = {}
        for i, t in enumerate(u.types):
            vs = values_for(t, rng, 2)
            vals[i] = vs[0] if vs else None
            cs.add('feed %d' % i, kind='feed', ti=i, family='feed')
            cs.add('hash %d' % i, kind='hash', ti=i, family='hash')
        # near-miss pairs, both directions
        for (a, b, kind) in u.mutant_pairs:
            for (x, y) in ((a, b), (b, a)):
                if vals.get(x) is None: continue
                cs.add('xdeser %d %d %s' % (x, y, vals[x]), kind='xdeser', ti=x, tj=y, val=vals[x], family='near-miss:' + kind)
                # the same with an older (accepted) and a newer (refused) minor version in the header
                if kind.startswith('known'): continue       # the recorded findings are identified by their xdeser line
                cs.add('xdeserm %d %d 0 %s' % (x, y, vals[x]), kind='xdeser', ti=x, tj=y, val=vals[x], minor=0, family='near-miss-minor0:' + kind)
                if (x + y) % 4 == 0:
                    cs.add('xdeserm %d %d 2 %s' % (x, y, vals[x]), kind='xdeser', ti=x, tj=y, val=vals[x], minor=2, family='near-miss-minor2')
        # arbitrary ordered pairs
        idx = list(range(n))
        near = set((a, b) for (a, b, _) in u.mutant_pairs) | set((b, a) for (a, b, _) in u.mutant_pairs)
        pairs = [(a, b) for a in idx for b in idx if a != b and (a, b) not in near]   # near-miss pairs are run above, under their own label
        if quick and len(pairs) > 6000:
            pairs = rng.sample(pairs, 6000)
        for (a, b) in pairs:
            if vals.get(a) is None: continue
            cs.add('xdeser %d %d %s' % (a, b, vals[a]), kind='xdeser', ti=a, tj=b, val=vals[a], family='pair')
        for (a, b) in pairs[:600]:
            if vals.get(a) is None: continue
            cs.add('xdeserm %d %d 0 %s' % (a, b, vals[a]), kind='xdeser', ti=a, tj=b, val=vals[a], minor=0, family='pair-minor0')
        for i in range(0, n, 3):
            if vals.get(i) is None: continue
            cs.add('xdeserm %d %d 0 %s' % (i, i, vals[i]), kind='xdeser', ti=i, tj=i, val=vals[i], minor=0, family='self-minor0')
    elif prop == 'C17':
        for i, t in enumerate(u.types):
            def owns_heap(x):
                n = type(x).__name__
                if n == 'Phantom': return False
                if n in ('Str', 'Seq', 'Sum'): return True     # strings, vectors / boxed slices, option / bound / control flow
                return any(owns_heap(c) for c in x.children())
            heap = owns_heap(t)
            cs.add('zcc %d' % i, kind='zcc', ti=i, family='consts', heap=heap)
    elif prop == 'C05':
        seen_defs = set()
        for i, t in enumerate(u.types):
            cs.add('dtype %d' % i, kind='dtype', ti=i, family='dtype')
            if not isinstance(t, Adt):
                continue
            d = t.d
            targs = '|'.join(x.term() for x in t.targs) or '-'
            cargs = '|'.join(str(int(c)) for c in t.cargs) or '-'
            cs.add('derive %d %s %s %s' % (i, d.defterm(), targs, cargs), kind='derive', ti=i, family='derive', ncp=len(d.cparams), const_first=d.const_first,
                   literal=d.literal_params(), ntp=len(d.tparams), zero=d.copy == 'zero',
                   self_eps=[x.deser_rust() == x.rust() for x in t.targs])
            if d.path() not in seen_defs:
                seen_defs.add(d.path())
                feats = ['enum' if d.is_enum else 'struct', 'copy-' + d.copy]
                feats += ['variant-' + st for _, st, _ in d.variants] if d.is_enum else ['struct-' + d.variants[0][1]]
                if d.tparams: feats.append('type-params')
                if d.cparams: feats.append('const-params')
                if any(p.get('default') is not None for p in d.tparams + d.cparams): feats.append('defaulted-params')
                if any(p['bounds'] for p in d.tparams): feats.append('bounds')
                if d.where: feats.append('where-clause')
                if d.reprs: feats.append('repr')
                kinds = set()
                def scan(te, top=True):
                    if te[0] == 'param': kinds.add('field-literal-param' if top else 'field-mentions-param')
                    elif te[0] == 'ph':
                        if te[1][0] == 'param': kinds.add('phantom-param')
                    elif te[0] in ('vec', 'bs', 'opt', 'bnd', 'arr', 'const_arr'): scan(te[1], False)
                    if te[0] == 'const_arr': kinds.add('array-of-const-length')
                    if te[0] == 'ty' and isinstance(te[1], Adt): kinds.add('nests-derived-type')
                for _, _, fs in d.variants:
                    for _, te in fs: scan(te)
                for f in feats + sorted(kinds):
                    cs.dist['grammar:' + f] = cs.dist.get('grammar:' + f, 0) + 1
            for v in values_for(t, rng, nvals):
                case(i, 0, '-', v, 'roundtrip-derived')
            for v in (values_for(t, rng, 2) if max_unit(t) <= 64 else []):
                case(i, 64, '-', v, 'roundtrip-derived-64')
    elif prop == 'C08':
        loaders = ['full', 'mem', 'mmap', 'map']
        for i, t in enumerate(u.types):
            vals = values_for(t, rng, 3 if quick else 8)
            for vi, v in enumerate(vals):
                for l in loaders:
                    fl = [0] if (quick and (i + vi) % 4) else range(8)
                    if l in ('full', 'mem'): fl = [0]
                    for f in fl:
                        cs.add('load %d %s %d %s' % (i, l, f, v), kind='load', ti=i, val=v, loader=l, flags=f, family='load-' + l)
        # the region belongs to the result for as long as the result lives: a structure whose destructor reads its borrowed data
        for l in ['full', 'mem', 'mmap', 'map']:
            for n in [0, 1, 7, 1000, 40000] + ([] if quick else [1 << 20]):
                cs.add('dropcheck %s %d' % (l, n), kind='dropcheck', loader=l, n=n, family='drop-order')
        # `load_full` of a path that is not a regular file: a named pipe fed in fragments by another thread (metadata length zero)
        for i, t in enumerate(u.types):
            if i % (4 if quick else 1): continue
            for v in values_for(t, rng, 1):
                for pat in ['fifo-one', 'fifo-mix']:
                    cs.add('rchunk %d %s - %s' % (i, pat, v), kind='rchunk', ti=i, val=v, k=None, family='load-full-named-pipe')
        # file lengths of every residue modulo 64: a string of every length 0..63 inside a deep structure
        si = [i for i, t in enumerate(u.types) if isinstance(t, Seq) and isinstance(t.t, Str)]
        if si:
            i = si[0]
            for n in list(range(64 if not quick else 32)) + list(range(3985, 4015)) + ([] if quick else list(range(8080, 8112))):
                v = '[s"%s",s"6869",]' % ('41' * n)
                for l in loaders:
                    cs.add('load %d %s 0 %s' % (i, l, v), kind='load', ti=i, val=v, loader=l, flags=0, family='residue-' + l)
        # big files (above 2 MiB; an item above 1 MiB), every loader, with and without mapping flags
        for (i, v, what) in big_values(u):
            if what == 'two-blocks-above-64KiB': continue
            for l, f in [('full', 0), ('mem', 0), ('mmap', 0), ('mmap', 1), ('map', 0), ('map', 1)] + ([] if quick else [('map', 7), ('mmap', 6)]):
                cs.add('load %d %s %d %s' % (i, l, f, v), kind='load', ti=i, val=v, loader=l, flags=f, family='big-load-' + l)
        # file lengths around powers of two up to 32 MiB (and payloads of exactly 16 MiB): the values are built by the
        # harness from the size; the model's answer does not depend on the size
        for k in ((16, 24) if quick else (12, 16, 20, 22, 24, 25)):
            for pm in ((-64, -17, -16, -15, -1, 0, 1, 16) if quick else (-64, -63, -17, -16, -15, -1, 0, 1, 15, 16, 17, 63)):
                L = (1 << k) + pm
                for l in (['full', 'mem', 'mmap:0', 'map:0'] if quick else ['full', 'mem', 'mmap:0', 'mmap:1', 'map:0', 'map:7']):
                    kind_ = 'str' if (pm + k) % 3 == 0 else 'u8'
                    cs.add('bigfile %s L%d %s -' % (kind_, L, l), kind='bigfile', loader=l.split(':')[0], prefix=None, family='file-length-2^%d' % k)
        for kind_, n in (('u8', 1 << 24), ('u64', 1 << 21), ('str', 1 << 24), ('u64', (1 << 22) + 1)):
            for l in ('full', 'mem', 'mmap:0', 'map:0'):
                cs.add('bigfile %s n%d %s -' % (kind_, n, l), kind='bigfile', loader=l.split(':')[0], prefix=None, family='payload-16MiB')
    elif prop == 'C18':
        for i, t in enumerate(u.types):
            for v in values_for(t, rng, nvals):
                case(i, 0, '-', v, 'plain')
                cs.add('schema %d %s' % (i, v), kind='schema', ti=i, val=v, family='schema')
        # the same in the middle of a stream: `serialize_on_field_write` on a position-tracking writer that has already written
        # k bytes, plain and through a `SchemaWriter` (the recording writer must start where the wrapped one is)
        for i, t in enumerate(u.types):
            for v in values_for(t, rng, 2):
                for k in ([0, 3, 8, 61] if quick else [0, 1, 2, 3, 4, 7, 8, 9, 16, 31, 61, 64, 100]):
                    cs.add('schemaat %d %d %s' % (i, k, v), kind='schema', ti=i, val=v, base=k, family='schema-at')
        # rows above 64 KiB, one starting beyond byte 65536; an item above 1 MiB
        for (i, v, what) in big_values(u):
            if what == 'stream-above-2MiB' and quick: continue
            cs.add('schema %d %s' % (i, v), kind='schema', ti=i, val=v, family='big-schema')
    elif prop == 'C13':
        for k_, t in enumerate(u.slice_elems):
            cs.add('stype %d %s' % (k_, t.term()), kind='stype', ti=None)
        plan = []
        for i, t in enumerate(u.types):
            for v in values_for(t, rng, 2 if quick else 5):
                plan.append((i, v))
        answers = probe(['schema %d %s' % (i, v) for i, v in plan])
        for (i, v), a in zip(plan, answers):
            ps = parse_schema(a)
            if ps is None: continue
            n = len(ps[0]) // 2
            if n > (300 if quick else 5000): continue
            ks = range(n + 2) if (not quick or i % 5 == 0) else sorted(set([0, 1, 7, 8, 28, 29, 36, 37, n - 9, n - 8, n - 1, n, n + 1] + rng.sample(range(n + 1), min(8, n + 1))))
            for k in ks:
                if k < 0: continue
                case_spec = 'k=%d,m=%s,int=%s,ff=0' % (k, rng.choice(['-', '1', '3', '8']), rng.choice(['-', '2', '5']))
                cs.add('wfail %d %s %s' % (i, case_spec, v), kind='wfail', ti=i, val=v, k=k, total=n, ff=False, family='fail-at-k')
                # a transient failure: the sink refuses one call after k bytes and accepts everything afterwards
                # (it obeys the Write contract); the serializer must stop at the first error all the same
                cs.add('wfail %d k=%d,once=1,ff=0 %s' % (i, k, v), kind='wfail', ti=i, val=v, k=k, total=n, ff=False, family='transient-fail-at-k')
                # the refusal reports another kind of error (only Interrupted may be retried): WouldBlock, TimedOut, BrokenPipe,
                # WriteZero, OutOfMemory, UnexpectedEof, ConnectionReset — once, or for good
                wk = 3 + (k + i) % 7
                cs.add('wfail %d k=%d,once=%d,wk=%d,m=%s,ff=0 %s' % (i, k, k % 2, wk, rng.choice(['-', '4']), v), kind='wfail', ti=i, val=v, k=k, total=n, ff=False, family='fail-kind%d-at-k' % wk)
                if k % 3 == 0:
                    # a sink that accepts no more bytes without reporting an error: write returns Ok(0) (write_all turns it into WriteZero)
                    cs.add('wfail %d k=%d,zero=1,ff=0 %s' % (i, k, v), kind='wfail', ti=i, val=v, k=k, total=n, ff=False, family='write-zero-at-k')
            cs.add('wfail %d k=-,m=1,int=2,ff=0 %s' % (i, v), kind='wfail', ti=i, val=v, k=None, total=n, ff=False, family='split-retry')
            cs.add('wfail %d k=-,m=5,int=3,ff=0 %s' % (i, v), kind='wfail', ti=i, val=v, k=None, total=n, ff=False, family='split-retry')
            cs.add('wfail %d k=-,ff=1 %s' % (i, v), kind='wfail', ti=i, val=v, k=None, total=n, ff=True, family='flush-fail')
            # the failing flush reports other kinds of error: Interrupted (which write_all retries, flush must not swallow),
            # WouldBlock, TimedOut
            for code in (2, 3, 4):
                cs.add('wfail %d k=-,ff=%d %s' % (i, code, v), kind='wfail', ti=i, val=v, k=None, total=n, ff=True, family='flush-fail-kind%d' % code)
            # the structure is not the first thing on the stream (`serialize_on_field_write` at position K > 0, header
            # included): the flush still fails, the caller must still be told
            for K in (1, 8, 24):
                cs.add('wfail %d k=-,ff=1,at=%d %s' % (i, K, v), kind='wfail', ti=i, val=v, k=None, total=n, ff=True, at=K, family='flush-fail-at-offset')
            cs.add('wfail %d k=-,ff=0,at=8 %s' % (i, v), kind='wfail', ti=i, val=v, k=None, total=n, ff=False, at=8, family='no-fail-at-offset')
            # the same sinks under serialize_with_schema: a failing flush, a failure after k bytes, no failure
            cs.add('wfail %d k=-,ff=1,sch=1 %s' % (i, v), kind='wfail', ti=i, val=v, k=None, total=n, ff=True, family='schema-flush-fail')
            cs.add('wfail %d k=-,ff=0,sch=1 %s' % (i, v), kind='wfail', ti=i, val=v, k=None, total=n, ff=False, family='schema-no-fail')
            for k in sorted(set([0, 8, 29, n // 2, max(n - 1, 0)])):
                cs.add('wfail %d k=%d,m=%s,ff=0,sch=1 %s' % (i, k, rng.choice(['-', '3']), v), kind='wfail', ti=i, val=v, k=k, total=n, ff=False, family='schema-fail-at-k')
            cs.add('wfail %d devfull %s' % (i, v), kind='wfail', ti=i, val=v, k=0, total=n, ff=False, devfull=True, family='dev-full')
            if i % 3 == 0:
                cs.add('wfail %d storefull %s' % (i, v), kind='wfail', ti=i, val=v, k=0, total=n, ff=False, devfull=True, family='store-dev-full-stderr-full')
        # payloads of a gigabyte and more (never touched: zero pages) to a counting sink: no failure, a transient refusal of
        # the first large write, a permanent refusal in the header, in the first and beyond the first gigabyte
        for n in (1 << 20, (1 << 30) + (1 << 21), (1 << 31) + 5) + (() if quick else ((1 << 32) + 1, (1 << 30) - 1, 1 << 30)):
            for sink in ('none', 'once', 'perm40', 'perm%d' % (1 << 19), 'perm%d' % ((1 << 30) + 100), 'perm%d' % (n + 63), 'perm%d' % (n + 64)):
                cs.add('bigser %d %s' % (n, sink), kind='bigser', n=n, sink=sink, family='gigabyte-payload-' + sink.rstrip('0123456789'))
        for k_, t in enumerate(u.slice_elems):
            vt = Seq('vec', t)
            for v in ['[]'] + values_for(vt, rng, 3 if quick else 8):
                for k in [0, 5, 29, 40, 60, 70, 80, 90, 100, 120, 150, 200, 100000]:
                    cs.add('wfails %d k=%d,m=%s %s' % (k_, k, rng.choice(['-', '2']), v), kind='wfails', sk=k_, val=v, k=k, family='slice-fail-at-k')
                cs.add('wfails %d k=-,ff=1 %s' % (k_, v), kind='wfails', sk=k_, val=v, k=None, family='slice-flush-fail')
                if t.is_zc():
                    for k in [0, 29, 45, 56, 60, 70, 90, 150]:
                        cs.add('iterretry %d k=%d %s' % (k_, k, v), kind='iterretry', sk=k_, val=v, k=k, family='iter-retry-after-failure')
    elif prop == 'C14':
        # one bulk read of more than 16 MiB in the middle of a stream (a string followed by aligned data), from memory and
        # through the buffered file reader
        for n in ((1 << 24) + 5, (1 << 25) + 3, 1 << 24, (1 << 24) - 3):
            for l in ('dfull', 'full'):
                cs.add('bigfile strvec n%d %s -' % (n, l), kind='bigfile', loader=l, prefix=None, family='bulk-read-above-16MiB')
        plan = []
        for i, t in enumerate(u.types):
            for v in values_for(t, rng, 2 if quick else 6):
                plan.append((i, v))
        answers = probe(['schema %d %s' % (i, v) for i, v in plan])
        for (i, v), a in zip(plan, answers):
            ps = parse_schema(a)
            if ps is None: continue
            n = len(ps[0]) // 2
            if n > (300 if quick else 5000): continue
            for pat in ['one', 'onei', 'p3', 'p7i', 'mix', 'mixb', 'r%d' % rng.randrange(1000), 'r%di' % rng.randrange(1000), 'all', 'p3bi']:
                cs.add('rchunk %d %s - %s' % (i, pat, v), kind='rchunk', ti=i, val=v, k=None, total=n, family='chunking')
            # a container layer under the reader: frames of 1, 5, 16, 31 bytes, each decoded with the library itself inside `read`
            for fr in (1, 5, 16, 31, 64):
                cs.add('rchunk %d frames%d - %s' % (i, fr, v), kind='rchunk', ti=i, val=v, k=None, total=n, family='framed-reentrant')
            # load_full of a named pipe fed in fragments by another thread (every 7th type in the quick tier)
            if n <= 200 and (not quick or i % 7 == 0):
                for pat in ['fifo-one', 'fifo-p7', 'fifo-mix', 'fifo-all']:
                    cs.add('rchunk %d %s - %s' % (i, pat, v), kind='rchunk', ti=i, val=v, k=None, total=n, family='fifo')
            ks = range(n) if (not quick or i % 5 == 0) else sorted(set([0, 1, 7, 8, 28, 29, 36, 37, max(n - 9, 0), max(n - 1, 0)] + rng.sample(range(n), min(6, n))))
            for k in ks:
                pat = rng.choice(['one', 'p3i', 'mix', 'r%d' % rng.randrange(100), 'p7b'])
                kk = ('eof%d' % k) if rng.random() < 0.3 else str(k)
                cs.add('rchunk %d %s %s %s' % (i, pat, kk, v), kind='rchunk', ti=i, val=v, k=k, total=n, family='fail-at-k')
                # the source fails once (a time-out) and delivers the rest afterwards
                cs.add('rchunk %d %s %d %s' % (i, rng.choice(['allt', 'p3t', 'onet', 'mixt']), k, v), kind='rchunk', ti=i, val=v, k=k, total=n, family='transient-fail-at-k')
        for (i, v, what) in big_values(u):
            if what == 'stream-above-2MiB' and quick: continue
            if what == 'nested-70-levels':
                for pat in ['one', 'p3i', 'mix', 'frames7']:
                    cs.add('rchunk %d %s - %s' % (i, pat, v), kind='rchunk', ti=i, val=v, k=None, total=0, family='deep-chunking')
                continue
            n = {'item-above-1MiB': 2 * 8 * 131073 + 8, 'two-blocks-above-64KiB': 230000, 'stream-above-2MiB': 2400000}[what]
            for pat in ['all', 'p4093', 'mix']:
                cs.add('rchunk %d %s - %s' % (i, pat, v), kind='rchunk', ti=i, val=v, k=None, total=n, family='big-chunking')
            for k in [100, 1 << 16, (1 << 20) + 50, n // 2, n - 9]:
                if k >= n: continue
                cs.add('rchunk %d %s %s %s' % (i, rng.choice(['all', 'p4093']), ('eof%d' % k) if k % 2 else str(k), v), kind='rchunk', ti=i, val=v, k=k, total=n, family='big-fail-at-k')
    elif prop == 'C16':
        for k, t in enumerate(u.slice_elems):
            cs.add('stype %d %s' % (k, t.term()), kind='stype', ti=None)
        for k, t in enumerate(u.slice_elems):
            vt = Seq('vec', t)
            vals = ['[]'] + values_for(vt, rng, 6 if quick else 20)
            for v in dict.fromkeys(vals):
                cs.add('ser3 %d %s' % (k, v), kind='ser3', sk=k, val=v, family='ser3-zero' if t.is_zc() else 'ser3-deep')
            if t.is_zc():
                for n in range(0, 7):
                    items = '[' + ''.join(t.gen(rng, 2) + ',' for _ in range(n)) + ']'
                    for a in range(0, 7):
                        cs.add('iter %d %s %d' % (k, items, a), kind='iter', sk=k, val=items, n=n, a=a, family='iter-small')
                for _ in range(4 if quick else 30):
                    n = rng.choice([9, 17, 40, 100]); a = rng.choice([0, n - 1, n + 1, 2 * n, 2**32, 2**63, 2**64 - 1, n])
                    items = '[' + ''.join(t.gen(rng, 2) + ',' for _ in range(n)) + ']'
                    cs.add('iter %d %s %d' % (k, items, a), kind='iter', sk=k, val=items, n=n, a=a, family='iter-large')
    elif prop == 'C19':
        import itertools
        def rb(n): return bytes(rng.randrange(256) for _ in range(n)).hex()
        alphabet = ['w:', 'w:' + rb(1), 'w:' + rb(3), 'w:' + rb(17), 'r:0', 'r:2', 'r:100', 'ss:0', 'ss:7', 'ss:40',
                    'se:0', 'se:-2', 'se:6', 'sc:-3', 'sc:5', 'p:0', 'p:33', 'f', 'se:-1000', 'sc:-1000']
        # the provided methods of Read / Write (read_to_end, read_exact, write_all): sequences of up to three of them around
        # writes and position changes, exhaustively
        prov = ['ra', 'rx:0', 'rx:1', 'rx:5', 'wa', 'wa:' + rb(2), 'w:' + rb(4), 'p:2', 'p:9', 'se:3', 'r:3']
        for L in range(1, 4):
            for combo in itertools.product(prov, repeat=L):
                if any(x[:2] in ('ra', 'rx', 'wa') for x in combo):
                    ops = ';'.join(('w:' + rb(5),) + combo)
                    cs.add('cursor 16 ' + ops, kind='cursor', family='provided-len%d' % L, val=ops)
        # `write_vectored` with no buffer at all and with one buffer, at, before and past the end
        wv = ['wv', 'wv:' + rb(3), 'wv:' + rb(2) + '|' + rb(3), 'wv:|' + rb(1) + '||' + rb(2), 'wv:|', 'rv', 'rv:2|3', 'rv:0|1|0|4', 'rv:0',
              'p:2', 'p:9', 'p:40', 'se:3', 'r:3', 'w:' + rb(2)]
        for L in range(1, 4):
            for combo in itertools.product(wv, repeat=L):
                if any(x[:2] in ('wv', 'rv') for x in combo):
                    for first in (('w:' + rb(5),), ()):
                        ops = ';'.join(first + combo)
                        cs.add('cursor %s %s' % ('16' if first else '32', ops), kind='cursor', family='vectored-len%d' % L, val=ops)
        maxlen = 3 if quick else 4
        alpha = alphabet[:14] if not quick else alphabet[:12]
        for L in range(1, maxlen + 1):
            for combo in itertools.product(alpha, repeat=L):
                cs.add('cursor 16 ' + ';'.join(combo), kind='cursor', family='exhaustive-len%d' % L, val=';'.join(combo))
        def rand_op():
            c = rng.random()
            if c < 0.35: return 'w:' + rb(rng.choice([0, 1, 2, 7, 8, 15, 16, 17, 31, 32, 33, 40, 64, 65, 100]))
            if c < 0.55: return 'r:%d' % rng.choice([0, 1, 3, 8, 16, 17, 50, 1000])
            if c < 0.65: return 'ss:%d' % rng.choice([0, 1, 15, 16, 17, 63, 64, 65, 200, 1000, rng.randrange(0, 3000)])
            if c < 0.75: return 'se:%d' % rng.choice([0, -1, -16, -17, 5, 64, -5000, rng.randrange(-300, 300)])
            if c < 0.87: return 'sc:%d' % rng.choice([0, -1, 1, -16, 16, 100, -5000, rng.randrange(-300, 300)])
            if c < 0.93: return 'p:%d' % rng.choice([0, 1, 16, 17, 64, 500, rng.randrange(0, 2000)])
            if c < 0.95: return 'ra'
            if c < 0.97: return 'rx:%d' % rng.choice([0, 1, 3, 16, 40, 300])
            if c < 0.985: return 'wa:' + rb(rng.choice([0, 0, 1, 8, 33]))
            if c < 0.995: return rng.choice(['wv', 'wv:' + rb(9), 'wv:' + rb(9) + '|' + rb(17) + '||' + rb(1), 'rv:3|0|40', 'rv:16|16|16', 'rv'])
            return 'f'
        # writes of tens of kilobytes (at, before and past the end; after lengths that are and are not whole units)
        for first in ('w:' + rb(5), 'w:' + rb(16), 'w:' + rb(33), 'wz:70000:3', ''):
            for mv in ('', 'se:100', 'se:-3', 'p:0', 'p:7', 'sc:65536', 'p:200000'):
                for big in ((65536, 100000) if quick else (65535, 65536, 100000, 262145)):
                    ops = ';'.join(x for x in (first, mv, 'wz:%d:%d' % (big, big % 7), 'se:-9', 'r:20', 'p:3', 'r:4') if x)
                    cs.add('cursor %s %s' % (rng.choice(['16', '32', '64', '16c100']), ops), kind='cursor', family='big-write', val=ops)
        for k in range(150 if quick else 1500):
            n = rng.choice([5, 10, 20, 50, 120]) if quick else rng.choice([10, 50, 200, 600])
            ops = ';'.join(rand_op() for _ in range(n))
            cs.add('cursor %s%s %s' % (rng.choice(['16', '32', '64']), rng.choice(['', '', 'd', 'c0', 'c1', 'c15', 'c16', 'c17', 'c100', 'c4097']), ops), kind='cursor', family='random-long', val=ops)
        # positions at and above 2^63 (legal, reachable only through set_position / seek; nothing is written there):
        # relative seeks whose base or result is huge, reads there, the overflow corners
        M63, I64MAX, U64MAX = 1 << 63, (1 << 63) - 1, (1 << 64) - 1
        huge = [
            'p:%d;sc:-1;r:4;sc:1;sc:1' % M63, 'sc:%d;sc:%d;sc:1;sc:2' % (I64MAX, I64MAX), 'w:0102;se:%d;se:%d;r:1' % (I64MAX, I64MAX),
            'p:%d;sc:1;sc:-1;r:3' % U64MAX, 'ss:%d;sc:-%d;r:2' % (M63, M63), 'p:%d;se:-1;sc:%d' % (M63 + 5, I64MAX),
            'w:0102030405;p:%d;sc:-%d;r:9' % (M63 + 2, M63), 'ss:%d;sc:%d;sc:%d' % (I64MAX, I64MAX, 2), 'p:%d;se:0;p:%d;sc:-%d' % (U64MAX, U64MAX, I64MAX),
            'ss:%d;r:1;sc:0;se:-1' % U64MAX,
        ]
        for a in ['16', '64']:
            for h in huge:
                cs.add('cursor %s %s' % (a, h), kind='cursor', family='huge-positions', val=h)
        # writes that would end above isize::MAX (positions from 2^63 on, reachable through set_position / seek): both cursors
        # panic with "capacity overflow" before anything is updated; the history stops there and the states are compared
        # (positions just below 2^63 are left out: there the allocation is attempted and its failure aborts the process)
        for a in ['16', '32', '64', '16c100']:
            for pos in (M63, M63 + 12345, U64MAX - 64, M63 + (1 << 40)):
                for first in ('w:0102030405', 'w:' + rb(37), ''):
                    for wr in ('w:07', 'w:', 'wa:0809', 'wa:', 'wv', 'wv:01|02', 'w:' + rb(33)):
                        for mv in ('p:%d' % pos, 'ss:%d' % pos):
                            ops = ';'.join(x for x in (first, mv, wr, 'se:0', 'r:1', 'p:0', 'ra') if x)
                            cs.add('cursor %s %s' % (a, ops), kind='cursor', family='write-beyond-isize-max', val=ops)
        # the cases the property singles out
        for a in ['16', '32', '64']:
            cs.add('cursor %s p:100;w:0102' % a, kind='cursor', family='gap', val='gap')
            cs.add('cursor %s w:01;ss:70;w:;r:1;ss:0;r:100' % a, kind='cursor', family='gap-empty-write', val='gap')
            cs.add('cursor %s w:0102030405;se:-6;se:-5;sc:-1;sc:100;w:07' % a, kind='cursor', family='seek-errors', val='seek')
    else:
        raise ValueError('no case generator for ' + prop)
    return cs
