"""Seeded generator of a type universe for epserde: built-in type constructors composed to a given
depth and fresh #[derive(Epserde)] definitions. Every type is rendered twice: as Rust source and
as a `Ty` term of the line protocol (the instantiated view the Lean model works on)."""

import random

INTS = ['u8', 'u16', 'u32', 'u64', 'u128', 'usize', 'i8', 'i16', 'i32', 'i64', 'i128', 'isize']
INT_SIZE = {'u8': 1, 'i8': 1, 'u16': 2, 'i16': 2, 'u32': 4, 'i32': 4, 'u64': 8, 'i64': 8,
            'usize': 8, 'isize': 8, 'u128': 16, 'i128': 16}
NZ_RUST = {k: 'core::num::NonZero' + k[0].upper() + k[1:] for k in INTS}


def hexs(s):
    return s.encode().hex()


class Ty:
    """Base class of instantiated types."""
    fragile = False   # a zero-copy block contains bytes whose validity the crate does not check
    known = None      # set on the witness types of a recorded finding: the properties whose checks exercise them

    def rust(self): raise NotImplementedError
    def term(self): raise NotImplementedError
    def is_zc(self): return False      # the ZeroCopy marker trait
    def is_deep(self): return False    # CopyType = Deep
    def size(self): raise NotImplementedError   # size_of (zero-copy types only)
    def align(self): raise NotImplementedError
    def unit(self): raise NotImplementedError   # max_size_of
    def children(self): return []
    def gen(self, rng, budget): raise NotImplementedError
    def has_unchecked(self): return False  # contains bool/char/NonZero/enum tag when stored in memory
    def deser_rust(self, lt="'_"): raise NotImplementedError  # Rust spelling of DeserType<'a>
    def deserializable(self): return True
    def depth(self): return 1 + max([c.depth() for c in self.children()] + [0])
    def walk(self):
        yield self
        for c in self.children():
            yield from c.walk()


def roundup(n, a):
    return (n + a - 1) // a * a


class Prim(Ty):
    def __init__(self, name):  # name: u8.. / nzu8.. / f32 f64 bool char unit
        self.name = name
    def rust(self):
        if self.name.startswith('nz'): return NZ_RUST[self.name[2:]]
        if self.name == 'unit': return '()'
        return self.name
    def term(self): return 'p:' + self.name
    def is_zc(self): return True
    def size(self):
        n = self.name
        if n.startswith('nz'): return INT_SIZE[n[2:]]
        if n in INT_SIZE: return INT_SIZE[n]
        return {'f32': 4, 'f64': 8, 'bool': 1, 'char': 4, 'unit': 0}[n]
    def align(self): return max(self.size(), 1)
    def unit(self): return max(self.size(), 1)
    def has_unchecked(self): return self.name in ('bool', 'char') or self.name.startswith('nz')
    def deser_rust(self, lt="'_"): return self.rust()
    def gen(self, rng, budget):
        n = self.name
        if n == 'unit': return '()'
        if n == 'bool': return str(rng.choice([0, 1]))
        if n == 'char':
            return str(rng.choice([0, 0x41, 0x7f, 0x80, 0x7ff, 0x800, 0xd7ff, 0xe000, 0xffff, 0x10000, 0x10ffff,
                                   rng.randrange(0, 0xd800), rng.randrange(0xe000, 0x110000)]))
        if n == 'f32':
            return str(rng.choice([0, 0x80000000, 0x3f800000, 0x7f800000, 0xff800000, 0x7fc00000, 0x7fc00001,
                                   0xffc12345, 0x7f800001, 1, rng.randrange(0, 2**32)]))
        if n == 'f64':
            return str(rng.choice([0, 1 << 63, 0x3ff0000000000000, 0x7ff0000000000000, 0xfff0000000000000,
                                   0x7ff8000000000000, 0x7ff8000000000001, 0xfff8dead0000beef, 1,
                                   rng.randrange(0, 2**64)]))
        nz = n.startswith('nz')
        k = n[2:] if nz else n
        bits = 8 * INT_SIZE[k]
        cands = [1, 2, (1 << bits) - 1, (1 << bits) - 2, 1 << (bits - 1), (1 << (bits - 1)) - 1, 0x7f, 0x80, 0xff,
                 rng.randrange(0, 1 << bits), rng.randrange(0, 1 << bits)]
        if not nz: cands += [0, 0]
        v = rng.choice(cands) % (1 << bits)
        if nz and v == 0: v = 1
        return str(v)


class Phantom(Ty):
    def __init__(self, t): self.t = t
    def rust(self): return 'core::marker::PhantomData<%s>' % self.t.rust()
    def term(self): return 'ph(%s)' % self.t.term()
    def is_zc(self): return True
    def size(self): return 0
    def align(self): return 1
    def unit(self): return 1
    def deser_rust(self, lt="'_"): return self.rust()
    def gen(self, rng, budget): return '()'
    # the parameter only contributes to the type hash; not a child for value purposes
    def children(self): return []


UTF8_SAMPLES = ['', 'a', 'hi', 'hello world', 'é', 'ß€', '日本語', '𝄞', 'a\x00b', '\x7f', 'x' * 7, 'y' * 8, 'z' * 9,
                'αβγδεζηθ', '🦀🦀', 'padding-test-15', 'sixteen-bytes-xx', 'q' * 17, 'w' * 31, 'e' * 33, 'r' * 64]


class Str(Ty):
    def __init__(self, boxed=False): self.boxed = boxed
    def rust(self): return 'Box<str>' if self.boxed else 'String'
    def term(self): return 'bstr' if self.boxed else 'str'
    def is_deep(self): return True
    def deser_rust(self, lt="'_"): return '&%s str' % lt if lt != "'_" else '&str'
    def gen(self, rng, budget):
        s = rng.choice(UTF8_SAMPLES)
        if rng.random() < 0.3:
            s = ''.join(rng.choice('ab é€𝄞\n') for _ in range(rng.choice([0, 1, 2, 3, 5, 8, 13])))
        return 's"%s"' % s.encode('utf-8').hex()


SEQ_LENS = [0, 0, 1, 1, 2, 3, 4, 5, 7, 8, 9]


class Seq(Ty):
    """vec / boxed slice"""
    def __init__(self, kind, t):
        self.kind, self.t = kind, t   # kind: vec | bs
        self.fragile = t.is_zc() and t.has_unchecked()
    def rust(self): return ('Vec<%s>' if self.kind == 'vec' else 'Box<[%s]>') % self.t.rust()
    def term(self): return '%s(%s)' % (self.kind, self.t.term())
    def is_deep(self): return True
    def children(self): return [self.t]
    def deser_rust(self, lt="'_"):
        if self.t.is_zc(): return '&[%s]' % self.t.rust()
        return ('Vec<%s>' if self.kind == 'vec' else 'Box<[%s]>') % self.t.deser_rust(lt)
    def gen(self, rng, budget):
        n = rng.choice(SEQ_LENS)
        if budget <= 1: n = min(n, 2)
        if self.t.is_zc() and rng.random() < 0.1: n = rng.choice([16, 17, 31, 40])
        return '[' + ''.join(self.t.gen(rng, budget - 1) + ',' for _ in range(n)) + ']'


class Array(Ty):
    def __init__(self, t, n):
        self.t, self.n = t, n
        self.fragile = t.is_zc() and t.has_unchecked()
    def rust(self): return '[%s; %d]' % (self.t.rust(), self.n)
    def term(self): return 'arr(%d,%s)' % (self.n, self.t.term())
    def is_zc(self): return self.t.is_zc()
    def is_deep(self): return self.t.is_deep()
    def size(self): return self.n * self.t.size()
    def align(self): return self.t.align()
    def unit(self): return self.t.unit()
    def children(self): return [self.t]
    def has_unchecked(self): return self.t.has_unchecked()
    def deser_rust(self, lt="'_"):
        if self.t.is_zc(): return '&[%s; %d]' % (self.t.rust(), self.n)
        return '[%s; %d]' % (self.t.deser_rust(lt), self.n)
    def gen(self, rng, budget):
        return '[' + ''.join(self.t.gen(rng, budget - 1) + ',' for _ in range(self.n)) + ']'


class Tuple(Ty):
    def __init__(self, t, n):
        self.t, self.n = t, n
        self.fragile = t.has_unchecked()
    def rust(self): return '(' + ''.join(self.t.rust() + ', ' for _ in range(self.n)) + ')'
    def term(self): return 'tup(%d,%s)' % (self.n, self.t.term())
    def is_zc(self): return True
    def size(self): return self.n * self.t.size()
    def align(self): return self.t.align()
    def unit(self): return self.t.unit()
    def children(self): return [self.t]
    def has_unchecked(self): return self.t.has_unchecked()
    def deser_rust(self, lt="'_"): return '&' + self.rust()
    def gen(self, rng, budget):
        return '[' + ''.join(self.t.gen(rng, budget - 1) + ',' for _ in range(self.n)) + ']'


class Sum(Ty):
    """option / bound / control flow"""
    def __init__(self, kind, ts):
        self.kind, self.ts = kind, ts
    def rust(self):
        if self.kind == 'opt': return 'Option<%s>' % self.ts[0].rust()
        if self.kind == 'bnd': return 'core::ops::Bound<%s>' % self.ts[0].rust()
        return 'core::ops::ControlFlow<%s, %s>' % (self.ts[0].rust(), self.ts[1].rust())
    def term(self): return '%s(%s)' % (self.kind, ','.join(t.term() for t in self.ts))
    def is_deep(self): return True
    def children(self): return list(self.ts)
    def deser_rust(self, lt="'_"):
        if self.kind == 'opt': return 'Option<%s>' % self.ts[0].deser_rust(lt)
        if self.kind == 'bnd': return 'core::ops::Bound<%s>' % self.ts[0].deser_rust(lt)
        return 'core::ops::ControlFlow<%s, %s>' % (self.ts[0].deser_rust(lt), self.ts[1].deser_rust(lt))
    def nvariants(self): return {'opt': 2, 'bnd': 3, 'cf': 2}[self.kind]
    def gen(self, rng, budget, force=None):
        i = rng.randrange(self.nvariants()) if force is None else force
        if self.kind == 'cf':
            return '#%d(%s,)' % (i, self.ts[i].gen(rng, budget - 1))
        if i == 0: return '#0()'
        return '#%d(%s,)' % (i, self.ts[0].gen(rng, budget - 1))


class Range(Ty):
    def __init__(self, kind, t):
        self.kind, self.t = kind, t   # r f i t ti
    def rust(self):
        n = {'r': 'Range', 'f': 'RangeFrom', 'i': 'RangeInclusive', 't': 'RangeTo', 'ti': 'RangeToInclusive'}[self.kind]
        return 'core::ops::%s<%s>' % (n, self.t.rust())
    def term(self): return 'rng(%s,%s)' % (self.kind, self.t.term())
    def is_zc(self): return self.kind in ('t', 'ti') and self.t.is_zc()
    def size(self): return self.t.size()
    def align(self): return self.t.align()
    def unit(self): return self.t.size()
    def children(self): return [self.t]
    def has_unchecked(self): return self.t.has_unchecked()
    def deser_rust(self, lt="'_"):
        n = {'r': 'Range', 'f': 'RangeFrom', 'i': 'RangeInclusive', 't': 'RangeTo', 'ti': 'RangeToInclusive'}[self.kind]
        return 'core::ops::%s<%s>' % (n, self.t.deser_rust(lt))
    def gen(self, rng, budget):
        k = 2 if self.kind in ('r', 'i') else 1
        return '{' + ''.join(self.t.gen(rng, budget - 1) + ',' for _ in range(k)) + '}'


class RangeFull(Ty):
    def rust(self): return 'core::ops::RangeFull'
    def term(self): return 'rfull'
    def is_zc(self): return True
    def size(self): return 0
    def align(self): return 1
    def unit(self): return 1
    def deser_rust(self, lt="'_"): return self.rust()
    def gen(self, rng, budget): return '{}'


# ----------------------------------------------------------------------------------------------
# derived types

class TExpr:
    """A type expression over the parameters of a definition.
    ('param', i) | ('const_arr', texpr, cidx) | ('ty', Ty) | ('vec'|'bs'|'opt'|'bnd'|'ph', texpr) | ('arr', texpr, n)"""


def te_rust(te, d):
    k = te[0]
    if k == 'param': return d.tparams[te[1]]['name']
    if k == 'ty': return te[1].rust()
    if k == 'vec': return 'Vec<%s>' % te_rust(te[1], d)
    if k == 'bs': return 'Box<[%s]>' % te_rust(te[1], d)
    if k == 'opt': return 'Option<%s>' % te_rust(te[1], d)
    if k == 'bnd': return 'core::ops::Bound<%s>' % te_rust(te[1], d)
    if k == 'ph': return 'core::marker::PhantomData<%s>' % te_rust(te[1], d)
    if k == 'arr': return '[%s; %d]' % (te_rust(te[1], d), te[2])
    if k == 'const_arr': return '[%s; %s]' % (te_rust(te[1], d), d.cparams[te[2]]['name'])
    raise ValueError(k)


def te_inst(te, targs, cargs):
    k = te[0]
    if k == 'param': return targs[te[1]]
    if k == 'ty': return te[1]
    if k == 'vec': return Seq('vec', te_inst(te[1], targs, cargs))
    if k == 'bs': return Seq('bs', te_inst(te[1], targs, cargs))
    if k == 'opt': return Sum('opt', [te_inst(te[1], targs, cargs)])
    if k == 'bnd': return Sum('bnd', [te_inst(te[1], targs, cargs)])
    if k == 'ph': return Phantom(te_inst(te[1], targs, cargs))
    if k == 'arr': return Array(te_inst(te[1], targs, cargs), te[2])
    if k == 'const_arr': return Array(te_inst(te[1], targs, cargs), cargs[te[2]])
    raise ValueError(k)


class Def:
    """An un-instantiated #[derive(Epserde)] definition."""
    def __init__(self, name, is_enum, copy, reprs, align_attr, tparams, cparams, variants, where=None):
        self.name = name
        self.is_enum = is_enum
        self.copy = copy            # 'zero' | 'deep' | 'none'
        self.reprs = reprs          # list of token strings, e.g. ['C'], ['C', 'align(8)']
        self.align_attr = align_attr
        self.tparams = tparams      # [{'name','bounds':[..],'default':str|None, 'role': 'eps'|'nested'|'phantom'|'zc'}]
        self.cparams = cparams      # [{'name','prim','default':int|None}]
        self.variants = variants    # [(vname, style 'named'|'tuple'|'unit', [(fname, texpr)])]
        self.where = where or []
        self.discr = {}     # variant name -> explicit discriminant (unit variants of deep-copy enums only)
        self.module = ''            # near-miss mutants live in a sub-module, under the same identifier
        self.const_first = False    # const parameters declared before the type parameters (legal since Rust 1.59)
        self.block = None           # twins: different definitions under one identifier in sibling blocks of one function
                                    # (`core::any::type_name` is the same for all of them)

    def path(self):
        if self.block is not None:
            return '/*b%d*/%s' % (self.block, self.name)
        return (self.module + '::' + self.name) if self.module else self.name

    def defterm(self):
        """the un-instantiated definition, as a term of the line protocol (Lean: `Def`)"""
        def te_term(te):
            k = te[0]
            if k == 'param': return 'P%d' % te[1]
            if k == 'ty': return 'T(%s)' % te[1].term()
            if k in ('vec', 'bs', 'opt', 'bnd', 'ph'): return '%s(%s)' % (k, te_term(te[1]))
            if k == 'arr': return 'arr(%d,%s)' % (te[2], te_term(te[1]))
            if k == 'const_arr': return 'carr(%d,%s)' % (te[2], te_term(te[1]))
            raise ValueError(k)
        kind = 'E' if self.is_enum else 'S'
        c = {'zero': 'Z', 'deep': 'D', 'none': 'N'}[self.copy]
        reprs = ''.join(hexs(r) + ';' for r in self.reprs)
        consts = ''.join('%s:%s;' % (hexs(cp['name']), cp['prim']) for cp in self.cparams)
        vs = ''
        for vname, style, fields in self.variants:
            fs = ''.join('%s:%s;' % (hexs(fn if style == 'named' else str(i)), te_term(te)) for i, (fn, te) in enumerate(fields))
            vs += hexs(vname) + '{' + fs + '};'
        return 'def(%s,%s,%s,%d,[%s],%d,[%s],[%s])' % (hexs(self.name), kind, c, self.align_attr, reprs, len(self.tparams), consts, vs)

    def literal_params(self):
        return sorted(set(te[1] for _, _, fields in self.variants for _, te in fields if te[0] == 'param'))

    def generics_decl(self, with_defaults=True):
        parts, cparts = [], []
        for p in self.tparams:
            s = p['name']
            if p['bounds']: s += ': ' + ' + '.join(p['bounds'])
            if with_defaults and p.get('default'): s += ' = ' + p['default']
            parts.append(s)
        for c in self.cparams:
            s = 'const %s: %s' % (c['name'], c['prim'])
            if with_defaults and c.get('default') is not None: s += ' = ' + const_lit(c['prim'], c['default'])
            cparts.append(s)
        parts = (cparts + parts) if self.const_first else (parts + cparts)
        return ('<' + ', '.join(parts) + '>') if parts else ''

    def generics_use(self):
        tp, cp = [p['name'] for p in self.tparams], [c['name'] for c in self.cparams]
        parts = (cp + tp) if self.const_first else (tp + cp)
        return ('<' + ', '.join(parts) + '>') if parts else ''

    def rust_def(self):
        out = []
        derives = ['Epserde']
        if self.copy == 'zero': derives += ['Clone', 'Copy']
        out.append('#[derive(%s)]' % ', '.join(derives))
        for r in self.reprs: out.append('#[repr(%s)]' % r)
        if self.copy == 'zero': out.append('#[zero_copy]')
        if self.copy == 'deep': out.append('#[deep_copy]')
        where = (' where ' + ', '.join(self.where)) if self.where else ''
        if not self.is_enum:
            vname, style, fields = self.variants[0]
            # every other structure is stamped out by a macro_rules! whose field types are `$t:ty` fragments: the derive
            # then sees each field type inside an invisible group, as it does for any macro-generated definition
            stamped = sum(self.name.encode()) % 2 == 1
            if style == 'named' and stamped:
                body = ' { ' + ''.join('%s: %s, ' % (fn, te_rust(te, self)) for fn, te in fields) + '}'
                return 'stamped! { [' + ' '.join(out) + ' pub struct %s%s%s]%s }' % (self.name, self.generics_decl(), where, body) + self.rust_impls()
            elif style == 'tuple' and stamped and fields:
                body = ' (' + ''.join('%s, ' % te_rust(te, self) for fn, te in fields) + ')'
                return 'stamped! { [' + ' '.join(out) + ' pub struct %s%s]%s [%s] }' % (self.name, self.generics_decl(), body, where) + self.rust_impls()
            elif style == 'named':
                body = ' { ' + ''.join('pub %s: %s, ' % (fn, te_rust(te, self)) for fn, te in fields) + '}'
                out.append('pub struct %s%s%s%s' % (self.name, self.generics_decl(), where, body))
            elif style == 'tuple':
                body = '(' + ''.join('pub %s, ' % te_rust(te, self) for fn, te in fields) + ')'
                out.append('pub struct %s%s%s%s;' % (self.name, self.generics_decl(), body, where))
            else:
                out.append('pub struct %s%s%s;' % (self.name, self.generics_decl(), where))
        else:
            vs = []
            for vname, style, fields in self.variants:
                if style == 'named':
                    vs.append('%s { %s}' % (vname, ''.join('%s: %s, ' % (fn, te_rust(te, self)) for fn, te in fields)))
                elif style == 'tuple':
                    vs.append('%s(%s)' % (vname, ''.join('%s, ' % te_rust(te, self) for fn, te in fields)))
                else:
                    vs.append(vname + (' = %d' % self.discr[vname] if vname in self.discr else ''))
            out.append('pub enum %s%s%s { %s }' % (self.name, self.generics_decl(), where, ', '.join(vs)))
        return '\n'.join(out) + self.rust_impls()

    def rust_impls(self):
        out = ['']
        # Show / FromTerm, generic over the parameters (one impl serves the type and its ε-copy form)
        tp = [p['name'] for p in self.tparams]
        cp = ['const %s: %s' % (c['name'], c['prim']) for c in self.cparams]
        def impl_generics(tr):
            parts = ['%s: %s' % (p['name'], ' + '.join(['epsh::' + tr] + p['bounds'])) for p in self.tparams] + cp
            return ('<' + ', '.join(parts) + '>') if parts else ''
        use = self.generics_use()
        # field types must implement the trait: add where clauses on the field types mentioning params
        def where_fields(tr):
            ws = []
            for vname, style, fields in self.variants:
                for fn, te in fields:
                    ws.append('%s: epsh::%s' % (te_rust(te, self), tr))
            ws = sorted(set(ws)) + [w for w in self.where if not w.endswith(': Sized')]
            return (' where ' + ', '.join(ws)) if ws else ''
        # Show
        if not self.is_enum:
            vname, style, fields = self.variants[0]
            acc = ['&self.%s' % (fn if style == 'named' else str(i)) for i, (fn, te) in enumerate(fields)]
            body = 'epsh::show::show_record(&[%s], o)' % ', '.join(acc)
        else:
            arms = []
            for vi, (vname, style, fields) in enumerate(self.variants):
                if style == 'named':
                    pat = '%s::%s { %s}' % (self.name, vname, ''.join(fn + ', ' for fn, te in fields))
                    names = [fn for fn, te in fields]
                elif style == 'tuple':
                    names = ['x%d' % i for i in range(len(fields))]
                    pat = '%s::%s(%s)' % (self.name, vname, ''.join(n + ', ' for n in names))
                else:
                    pat = '%s::%s' % (self.name, vname); names = []
                arms.append('%s => epsh::show::show_var(%d, &[%s], o),' % (pat, vi, ', '.join(names)))
            body = 'match self { %s }' % ' '.join(arms)
        out.append('impl%s epsh::Show for %s%s%s { fn show(&self, o: &mut String) { %s } }'
                   % (impl_generics('Show'), self.name, use, where_fields('Show'), body))
        # FromTerm
        def build(vname, style, fields, src):
            path = self.name if not self.is_enum else '%s::%s' % (self.name, vname)
            if style == 'named':
                return '%s { %s}' % (path, ''.join('%s: epsh::FromTerm::from_term(&%s[%d]), ' % (fn, src, i) for i, (fn, te) in enumerate(fields)))
            if style == 'tuple':
                return '%s(%s)' % (path, ''.join('epsh::FromTerm::from_term(&%s[%d]), ' % (src, i) for i, (fn, te) in enumerate(fields)))
            return path
        if not self.is_enum:
            vname, style, fields = self.variants[0]
            body = 'let r = epsh::show::record(t); let _ = r; %s' % build(vname, style, fields, 'r')
        else:
            arms = ['%d => %s,' % (vi, build(vn, st, fs, 'r')) for vi, (vn, st, fs) in enumerate(self.variants)]
            body = 'let (i, r) = epsh::show::variant(t); let _ = r; match i { %s _ => panic!("variant") }' % ' '.join(arms)
        out.append('impl%s epsh::FromTerm for %s%s%s { fn from_term(t: &epsh::Term) -> Self { %s } }'
                   % (impl_generics('FromTerm'), self.name, use, where_fields('FromTerm'), body))
        return '\n'.join(out)


def const_lit(prim, v):
    if prim == 'bool': return 'true' if v else 'false'
    if prim == 'char': return "'\\u{%x}'" % v
    if prim.startswith('i'):
        bits = 8 * INT_SIZE[prim]
        if v >= 1 << (bits - 1): v -= 1 << bits
        return '{ %d }' % v if v < 0 else str(v)
    return str(v)


class Adt(Ty):
    """An instantiated derived type."""
    def __init__(self, d, targs, cargs):
        self.d, self.targs, self.cargs = d, targs, cargs
        self.variants = []   # [(vname, [(fname, viaEps, Ty)])]
        for vname, style, fields in d.variants:
            fs = []
            for i, (fn, te) in enumerate(fields):
                name = fn if style == 'named' else str(i)
                fs.append((name, te[0] == 'param', te_inst(te, targs, cargs)))
            self.variants.append((vname, fs))
        self.fragile = self.d.copy == 'zero' and self.has_unchecked()

    def rust(self):
        tp, cp = [t.rust() for t in self.targs], [const_lit(c['prim'], v) for c, v in zip(self.d.cparams, self.cargs)]
        parts = (cp + tp) if self.d.const_first else (tp + cp)
        return self.d.path() + (('<' + ', '.join(parts) + '>') if parts else '')

    def term(self):
        d = self.d
        kind = 'E' if d.is_enum else 'S'
        c = {'zero': 'Z', 'deep': 'D', 'none': 'N'}[d.copy]
        reprs = ''.join(hexs(r) + ';' for r in d.reprs)
        consts = ''.join('%s:%s:%d;' % (hexs(cp['name']), cp['prim'], v) for cp, v in zip(d.cparams, self.cargs))
        vs = ''
        for vname, fs in self.variants:
            vs += hexs(vname) + '{' + ''.join('%s:%s:%s;' % (hexs(n), 'e' if e else 'f', t.term()) for n, e, t in fs) + '};'
        return 'adt(%s,%s,%s,%d,[%s],[%s],[%s])' % (hexs(d.name), kind, c, d.align_attr, reprs, consts, vs)

    def is_zc(self): return self.d.copy == 'zero'
    def is_deep(self): return self.d.copy != 'zero'
    def children(self): return [t for _, fs in self.variants for _, _, t in fs]
    def has_unchecked(self):
        return (self.d.is_enum and self.d.copy == 'zero') or any(t.has_unchecked() for t in self.children())

    def align(self):
        a = max([self.d.align_attr] + [t.align() for t in self.children()])
        if self.d.is_enum: a = max(a, 4)
        return a

    def size(self):
        a = self.align()
        def struct_end(fs):
            o = 0
            for _, _, t in fs:
                o = roundup(o, t.align()) + t.size()
            return o
        if not self.d.is_enum:
            return roundup(struct_end(self.variants[0][1]), a)
        ua = max([1] + [t.align() for t in self.children()])
        ms = 0
        for _, fs in self.variants:
            va = max([1] + [t.align() for _, _, t in fs])
            ms = max(ms, roundup(struct_end(fs), va))
        return roundup(roundup(4, ua) + ms, a)

    def unit(self):
        return max([self.align()] + [t.unit() for t in self.children()])

    def deser_rust(self, lt="'_"):
        if self.d.copy == 'zero': return '&' + self.rust()
        # parameters that are the literal type of some field are replaced by their own ε-copy type
        lit = set()
        for vname, style, fields in self.d.variants:
            for fn, te in fields:
                if te[0] == 'param': lit.add(te[1])
        parts = [(t.deser_rust(lt) if i in lit else t.rust()) for i, t in enumerate(self.targs)]
        cp = [const_lit(c['prim'], v) for c, v in zip(self.d.cparams, self.cargs)]
        parts = (cp + parts) if self.d.const_first else (parts + cp)
        return self.d.path() + (('<' + ', '.join(parts) + '>') if parts else '')

    def gen(self, rng, budget, force=None):
        if not self.d.is_enum:
            fs = self.variants[0][1]
            return '{' + ''.join(t.gen(rng, budget - 1) + ',' for _, _, t in fs) + '}'
        i = rng.randrange(len(self.variants)) if force is None else force
        fs = self.variants[i][1]
        return '#%d(' % i + ''.join(t.gen(rng, budget - 1) + ',' for _, _, t in fs) + ')'


# ----------------------------------------------------------------------------------------------
# random universe

class Universe:
    def __init__(self, seed, n_types=40, max_depth=3, n_defs=12, prefix=''):
        self.prefix = prefix
        # the corpus universe (prefix K) is frozen: its definitions are those of the golden corpus
        self.relaxed = prefix != 'K'
        self.rng = random.Random(seed)
        self.defs = []
        self.types = []     # instantiated top-level types to register
        self.n_types, self.max_depth, self.n_defs = n_types, max_depth, n_defs
        self.counter = 0
        self.slice_elems = []

    # --- random built-in types -------------------------------------------------------------
    def rand_prim(self, allow_unit=True, ints_only=False):
        r = self.rng
        if ints_only: return Prim(r.choice(INTS))
        c = r.random()
        if c < 0.55: return Prim(r.choice(INTS))
        if c < 0.65: return Prim('nz' + r.choice(INTS))
        if c < 0.75: return Prim(r.choice(['f32', 'f64']))
        if c < 0.85: return Prim('bool')
        if c < 0.93 or not allow_unit: return Prim('char')
        return Prim('unit')

    def zc_adts(self):
        return [d for d in self.defs if d.copy == 'zero' and not d.tparams and not d.cparams]

    def rand_zc(self, depth):
        """a type satisfying the ZeroCopy marker"""
        r = self.rng
        c = r.random()
        if depth <= 0 or c < 0.45: return self.rand_prim()
        if c < 0.6: return Array(self.rand_zc(depth - 1), r.choice([0, 1, 2, 3, 5]))
        if c < 0.7: return Tuple(self.rand_zc(depth - 1), r.choice([1, 2, 3, 4, 12]))
        if c < 0.75: return Range(r.choice(['t', 'ti']), self.rand_pow2_idx())
        if c < 0.78: return RangeFull()
        if c < 0.81: return Phantom(self.rand_any(1))
        z = [self.inst(d) for d in self.defs if d.copy == 'zero']
        z = [t for t in z if t is not None]
        if z: return r.choice(z)
        return self.rand_prim()

    def rand_pow2_idx(self):
        """index types of ranges: ZeroCopy, and with a power-of-two size so that the unit is a power of two
        (other index types are a known finding, exercised separately)"""
        r = self.rng
        c = r.random()
        if c < 0.8: return self.rand_prim(allow_unit=False)
        if c < 0.9: return Array(self.rand_prim(allow_unit=False, ints_only=True), r.choice([1, 2, 4]))
        return Tuple(self.rand_prim(allow_unit=False, ints_only=True), r.choice([1, 2, 4]))

    def rand_deep(self, depth):
        r = self.rng
        c = r.random()
        if depth <= 0: return Str(r.random() < 0.3)
        if c < 0.15: return Str(r.random() < 0.3)
        if c < 0.45: return Seq(r.choice(['vec', 'vec', 'bs']), self.rand_elem(depth - 1))
        if c < 0.55: return Array(self.rand_deep(depth - 1), r.choice([0, 1, 2, 3]))
        if c < 0.7: return Sum('opt', [self.rand_any(depth - 1)])
        if c < 0.78: return Sum('bnd', [self.rand_any(depth - 1)])
        if c < 0.86: return Sum('cf', [self.rand_any(depth - 1), self.rand_any(depth - 1)])
        z = [self.inst(d) for d in self.defs if d.copy != 'zero']
        z = [t for t in z if t is not None]
        if z: return r.choice(z)
        return Seq('vec', self.rand_elem(depth - 1))

    def rand_elem(self, depth):
        """element of a sequence: ZeroCopy or DeepCopy"""
        return self.rand_zc(depth) if self.rng.random() < 0.55 else self.rand_deep(depth)

    def rand_any(self, depth):
        """any serializable type (also the ranges that are neither)"""
        r = self.rng
        c = r.random()
        if c < 0.08: return Range(r.choice(['r', 'f', 'i', 't', 'ti']), self.rand_pow2_idx())
        if c < 0.5: return self.rand_zc(depth)
        return self.rand_deep(depth)

    # --- random definitions ------------------------------------------------------------------
    def fresh(self, prefix):
        self.counter += 1
        return '%s%s%d' % (self.prefix, prefix, self.counter)

    def rand_def(self):
        r = self.rng
        is_enum = r.random() < 0.4
        copy = r.choice(['zero', 'zero', 'deep', 'none', 'none'])
        name = self.fresh('E' if is_enum else 'S')
        reprs, align_attr = [], 1
        if copy == 'zero':
            reprs = ['C']
            if r.random() < 0.25:
                align_attr = r.choice([2, 4, 8, 16, 32, 64])
                reprs.append('align(%d)' % align_attr)
        elif r.random() < 0.15 and not is_enum:
            reprs = ['C']
        tparams, cparams = [], []
        field_exprs = []
        if copy == 'zero':
            # zero-copy: fields are ZeroCopy types; at most a ZeroCopy-bounded parameter, const array lengths
            if r.random() < 0.25:
                tparams.append({'name': 'A', 'bounds': ['ZeroCopy'], 'default': None, 'role': 'zc'})
            if r.random() < 0.3:
                cparams.append({'name': 'N', 'prim': 'usize', 'default': r.choice([None, 3])})
            if r.random() < 0.15:
                cparams.append({'name': 'K', 'prim': r.choice(['u8', 'u16', 'i32', 'bool', 'char', 'u64']), 'default': None})
            def zc_field():
                c = r.random()
                # (derive limitation, see DESIGN: an enum with a bounded parameter that is the literal type of a
                # field does not compile; the parameter is then only used inside arrays)
                if tparams and c < 0.3 and (not is_enum or self.relaxed): return ('param', 0)
                if tparams and c < 0.4: return ('arr', ('param', 0), r.choice([1, 2, 3]))
                if cparams and cparams[0]['name'] == 'N' and c < 0.55: return ('const_arr', ('ty', self.rand_prim(allow_unit=False)), 0)
                if c < 0.6: return ('ph', ('ty', self.rand_prim()))
                return ('ty', self.rand_zc(1))
            mk = zc_field
        else:
            n_tp = r.choice([0, 0, 1, 1, 2, 3])
            roles = []
            for i in range(n_tp):
                role = r.choice(['eps', 'eps', 'nested', 'phantom'])
                bounds = []
                if role == 'nested' and r.random() < 0.5: bounds = [r.choice(['ZeroCopy', 'DeepCopy'])]
                elif r.random() < 0.2: bounds = ['Sized']
                elif self.relaxed and role == 'eps' and r.random() < 0.35: bounds = r.choice([['epsh::Mark'], ['epsh::Mark', 'Sized'], ['Clone']])
                tparams.append({'name': 'ABCD'[i], 'bounds': bounds, 'default': None, 'role': role})
            # defaults only on a suffix of the parameters
            if tparams and r.random() < 0.3:
                tparams[-1]['default'] = 'usize' if tparams[-1]['role'] != 'nested' or not tparams[-1]['bounds'] or tparams[-1]['bounds'] == ['ZeroCopy'] else None
                if tparams[-1]['bounds'] == ['DeepCopy']: tparams[-1]['default'] = None
            if r.random() < 0.25:
                cparams.append({'name': 'N', 'prim': 'usize', 'default': r.choice([None, 2])})
            if r.random() < 0.15:
                cparams.append({'name': 'K', 'prim': r.choice(['u8', 'u16', 'i32', 'bool', 'char', 'u64'] + (['u128', 'i128'] if self.relaxed else [])), 'default': None})
            if tparams and any(p.get('default') for p in tparams):
                for c in cparams:
                    if c['default'] is None: c['default'] = 1 if c['prim'] != 'bool' and c['prim'] != 'char' else (1 if c['prim'] == 'bool' else 0x41)
            def deep_field():
                c = r.random()
                ps = [i for i, p in enumerate(tparams)]
                if ps and c < 0.45:
                    i = r.choice(ps)
                    role = tparams[i]['role']
                    if role == 'eps': return ('param', i)
                    if role == 'phantom': return ('ph', ('param', i))
                    b = tparams[i]['bounds']
                    k = r.choice(['vec', 'bs', 'opt', 'arr']) if b else r.choice(['opt', 'bnd'])
                    if k == 'arr': return ('arr', ('param', i), r.choice([1, 2]))
                    return (k, ('param', i))
                if cparams and cparams[0]['name'] == 'N' and c < 0.55:
                    return ('const_arr', ('ty', self.rand_prim(allow_unit=False)), 0)
                return ('ty', self.rand_any(1))
            mk = deep_field
        variants = []
        if not is_enum:
            style = r.choice(['named', 'named', 'tuple', 'unit'] if copy != 'zero' else ['named', 'named', 'tuple'])
            nf = 0 if style == 'unit' else r.choice([1, 2, 2, 3, 4])
            fields = [('f%d' % i, mk()) for i in range(nf)]
            variants.append((name, style, fields))
        else:
            nv = r.choice([1, 2, 3, 4])
            for vi in range(nv):
                style = r.choice(['named', 'tuple', 'unit'])
                nf = 0 if style == 'unit' else r.choice([1, 2, 3])
                fields = [('g%d' % i, mk()) for i in range(nf)]
                variants.append(('V%d' % vi, style, fields))
        # every type parameter must be used by some field (rustc rejects unused parameters)
        used = set()
        def scan(te):
            if te[0] == 'param': used.add(te[1])
            elif te[0] in ('vec', 'bs', 'opt', 'bnd', 'ph', 'arr', 'const_arr'): scan(te[1])
        used_c = set()
        for _, _, fs in variants:
            for _, te in fs:
                scan(te)
                if te[0] == 'const_arr': used_c.add(te[2])
        for i, p in enumerate(tparams):
            if i not in used:
                te = ('ph', ('param', i)) if p['role'] in ('phantom', 'nested') else ('param', i)
                if p['role'] == 'zc': te = ('param', i) if not is_enum else ('arr', ('param', i), 1)
                v = variants[r.randrange(len(variants))]
                if v[1] == 'unit':
                    variants[variants.index(v)] = (v[0], 'tuple', [('g0', te)])
                else:
                    v[2].append(('h%d' % i, te))
        # generic parameters with a default must be trailing
        allp = tparams + cparams
        last_nodef = max([i for i, p in enumerate(allp) if p.get('default') is None] + [-1])
        for p in allp[:last_nodef + 1]:
            p['default'] = None
        # a parameter that is the literal type of a field must not occur nested elsewhere: guaranteed by roles
        where = []
        if tparams and copy != 'zero' and r.random() < 0.2:
            where.append('%s: Sized' % tparams[0]['name'])
        elif tparams and copy != 'zero' and self.relaxed and r.random() < 0.3:
            # a trait bound in the where clause, on any parameter (all arguments and their ε-copy types are Clone)
            p = r.choice(tparams)
            where.append('%s: %s' % (p['name'], r.choice(['epsh::Mark', 'Clone', 'Clone + epsh::Mark'])))
            if r.random() < 0.5:
                # a second, separate predicate on the same parameter (and one on another parameter in between)
                if len(tparams) > 1:
                    q = [x for x in tparams if x is not p][0]
                    where.append('%s: epsh::Mark' % q['name'])
                where.append('%s: %s' % (p['name'], r.choice(['PartialEq', 'core::fmt::Debug'])))
        return Def(name, is_enum, copy, reprs, align_attr, tparams, cparams, variants, where)

    def inst(self, d, depth=1):
        """a random instantiation of a definition (None if impossible at this point)"""
        r = self.rng
        targs = []
        for p in d.tparams:
            role = p['role']
            if role == 'zc':
                if self.relaxed and r.random() < 0.4:
                    targs.append(r.choice([Array(self.rand_prim(allow_unit=False), 2), Tuple(self.rand_prim(allow_unit=False), 2)]))
                else:
                    targs.append(self.rand_prim(allow_unit=False))
            elif 'ZeroCopy' in p['bounds']:
                targs.append(self.rand_prim(allow_unit=False) if r.random() < 0.7 else Array(self.rand_prim(allow_unit=False), 2))
            elif 'DeepCopy' in p['bounds']:
                targs.append(r.choice([Str(), Seq('vec', self.rand_prim()), Sum('opt', [self.rand_prim()])]))
            elif role == 'phantom':
                targs.append(self.rand_prim() if r.random() < 0.6 else Seq('vec', self.rand_prim()))
            elif role == 'nested':
                # unbounded nested parameter: only under Option/Bound, anything serializable
                targs.append(self.rand_prim() if r.random() < 0.5 else Str())
            else:
                c = r.random()
                if c < 0.3: targs.append(self.rand_prim())
                elif c < 0.6: targs.append(Seq(r.choice(['vec', 'bs']), self.rand_prim(allow_unit=False)))
                elif c < 0.75: targs.append(Str())
                elif c < 0.85: targs.append(Seq('vec', Str()))
                else: targs.append(Sum('opt', [Seq('vec', self.rand_prim(allow_unit=False))]))
        cargs = []
        for c in d.cparams:
            if c['prim'] == 'usize': cargs.append(r.choice([0, 1, 2, 3]))
            elif c['prim'] == 'bool': cargs.append(r.choice([0, 1]))
            elif c['prim'] == 'char': cargs.append(r.choice([0x41, 0x20ac, 0x1f980]))
            else:
                bits = 8 * INT_SIZE[c['prim']]
                cargs.append(r.choice([0, 1, 0x53, (1 << bits) - 1, 1 << (bits - 1)]) % (1 << bits))
        return Adt(d, targs, cargs)

    def build(self):
        r = self.rng
        # definitions first (later ones may nest earlier ones)
        for _ in range(self.n_defs):
            self.defs.append(self.rand_def())
        # always-present core types, then random compositions
        core = [Prim('u8'), Prim('i64'), Prim('f64'), Prim('bool'), Prim('char'), Prim('unit'), Prim('nzu32'),
                Str(), Str(True), Seq('vec', Prim('u64')), Seq('bs', Prim('u16')), Seq('vec', Str()),
                Array(Prim('u32'), 3), Array(Str(), 2), Tuple(Prim('u16'), 3),
                Sum('opt', [Prim('u32')]), Sum('bnd', [Seq('vec', Prim('u32'))]),
                Sum('cf', [Prim('u8'), Str()]), Range('r', Prim('u32')), Range('i', Prim('i16')), RangeFull(),
                Phantom(Str()), Seq('vec', Prim('unit')), Array(Prim('u64'), 0), Seq('vec', Range('t', Prim('u32')))]
        self.types = list(core)
        for d in self.defs:
            self.types.append(self.inst(d))
        while len(self.types) < self.n_types:
            self.types.append(self.rand_any(self.max_depth))
        # drop duplicates by Rust spelling
        seen, out = set(), []
        for t in self.types:
            if t.rust() not in seen:
                seen.add(t.rust()); out.append(t)
        self.types = out
        # element types for the slice / iterator wrappers (C16): zero-copy and deep
        zdefs = [self.inst(d) for d in self.defs if d.copy == 'zero' and not d.is_enum]
        ddefs = [self.inst(d) for d in self.defs if d.copy != 'zero']
        elems = [Prim('u8'), Prim('u32'), Prim('i64'), Prim('u128'), Prim('bool'), Prim('unit'), Array(Prim('u16'), 3),
                 Tuple(Prim('u32'), 2), Range('t', Prim('u64')), Str(), Seq('vec', Prim('u32')), Sum('opt', [Prim('u64')]),
                 Seq('vec', Str())] + zdefs[:3] + ddefs[:3]
        seen, self.slice_elems = set(), []
        for t in elems:
            if t.rust() not in seen:
                seen.add(t.rust()); self.slice_elems.append(t)
        return self

    def rust_source(self):
        out = ['// generated by gen/universe.py — do not edit', '#![allow(unused, non_camel_case_types, non_snake_case, clippy::all)]',
               'use epsh::*;', 'use epserde::prelude::*;', '',
               'macro_rules! stamped {',
               '    ( [$($head:tt)*] { $($f:ident : $t:ty),* $(,)? } ) => { $($head)* { $(pub $f : $t),* } };',
               '    ( [$($head:tt)*] ( $($t:ty),* $(,)? ) [$($tail:tt)*] ) => { $($head)* ( $(pub $t),* ) $($tail)* ; };',
               '}', '']
        def block_of(t):
            bs = [x.d.block for x in t.walk() if isinstance(x, Adt) and x.d.block is not None]
            return bs[0] if bs else None
        blocks = sorted(set(d.block for d in self.defs if d.block is not None))
        twin_pos = {}
        out.append('/// types that cannot be named outside the block that defines them: (entry, names of the ε-copy type)')
        out.append('pub fn twins() -> Vec<(Entry, (String, String, String))> {')
        out.append('    let mut v = Vec::new();')
        for b in blocks:
            out.append('    {')
            for d in self.defs:
                if d.block == b: out.append('        ' + d.rust_def().replace('\n', ' '))
            for i, t in enumerate(self.types):
                if block_of(t) == b:
                    twin_pos[i] = len(twin_pos)
                    out.append('        v.push((%s::<%s>("%s"), (core::any::type_name::<DeserType<\'static, %s>>().to_string(), core::any::type_name::<%s>().to_string(), core::any::type_name::<%s>().to_string())));'
                               % ('entry_z' if t.is_zc() else 'entry', t.rust(), t.rust(), t.rust(), t.deser_rust(), t.rust()))
            out.append('    }')
        out.append('    v')
        out.append('}')
        out.append('')
        for d in self.defs:
            if d.block is not None:
                continue
            if d.module:
                out.append('pub mod %s { use super::*; %s }' % (d.module, d.rust_def().replace('\n', ' ')))
            else:
                out.append(d.rust_def())
            out.append('')
        out.append('pub fn registry() -> Vec<Entry> {')
        out.append('    let mut tw: Vec<Option<Entry>> = twins().into_iter().map(|x| Some(x.0)).collect();')
        out.append('    vec![')
        for i, t in enumerate(self.types):
            f = 'entry_z' if t.is_zc() else 'entry'
            if i in twin_pos:
                out.append('        tw[%d].take().unwrap(),' % twin_pos[i]); continue
            out.append('        %s::<%s>("%s"),' % (f, t.rust(), t.rust()))
        out.append('    ]')
        out.append('}')
        out.append('/// (actual, predicted) type names of the ε-copy type of every registered type')
        out.append('pub fn dtype_names() -> Vec<(String, String, String)> {')
        out.append('    let tw = twins();')
        out.append('    vec![')
        for i, t in enumerate(self.types):
            if i in twin_pos:
                out.append('        tw[%d].1.clone(),' % twin_pos[i]); continue
            out.append('        (core::any::type_name::<DeserType<\'static, %s>>().to_string(), core::any::type_name::<%s>().to_string(), core::any::type_name::<%s>().to_string()),'
                       % (t.rust(), t.deser_rust(), t.rust()))
        out.append('    ]')
        out.append('}')
        out.append('pub fn slice_registry() -> Vec<epsh::ops::SliceEntry> {')
        out.append('    vec![')
        for t in self.slice_elems:
            f = 'slice_entry_zero' if t.is_zc() else 'slice_entry_deep'
            out.append('        epsh::ops::%s::<%s>("%s"),' % (f, t.rust(), t.rust()))
        out.append('    ]')
        out.append('}')
        return '\n'.join(out) + '\n'


def stress_defs(prefix='K'):
    """Hand-written definitions that stress the layout-dependent parts of the format (alignment hash
    threading through arrays, tuples and nested structures; padding inside zero-copy structures;
    representation attributes), independent of any seed."""
    P = lambda n: ('ty', Prim(n))
    A = lambda te, n: ('arr', te, n)
    defs = []
    def zs(name, fields, reprs=('C',), align=1, style='named'):
        d = Def(prefix + name, False, 'zero', list(reprs), align, [], [], [(prefix + name, style, fields)])
        defs.append(d); return d
    z1 = zs('Z1', [('a', A(P('u8'), 3)), ('b', P('u32'))])
    z2 = zs('Z2', [('a', A(P('u16'), 2)), ('b', P('u64')), ('c', P('u8'))])
    z3 = zs('Z3', [('a', P('u8')), ('b', A(P('u32'), 2)), ('c', P('u16')), ('d', P('u128'))])
    z4 = zs('Z4', [('f0', A(P('u8'), 5)), ('f1', ('ty', Tuple(Prim('u16'), 2))), ('f2', P('u64'))], style='tuple')
    t1 = lambda: ('ty', Adt(z1, [], []))
    z5 = zs('Z5', [('x', t1()), ('y', A(t1(), 2)), ('z', P('u64')), ('w', A(A(P('u8'), 3), 3)), ('v', P('u16'))])
    z6 = zs('Z6', [('a', P('u8'))], reprs=('C', 'align(32)'), align=32)
    z7 = zs('Z7', [('a', ('ty', Range('t', Prim('u16')))), ('b', P('f64')), ('c', ('ty', Phantom(Str()))), ('d', P('bool')), ('e', P('char'))])
    e1 = Def(prefix + 'ZE1', True, 'zero', ['C'], 1, [], [],
             [('A', 'unit', []), ('B', 'tuple', [('g0', P('u8')), ('g1', P('u64'))]),
              ('C', 'named', [('x', A(P('u16'), 3)), ('y', P('u32'))])])
    defs.append(e1)
    d1 = Def(prefix + 'D1', False, 'none', [], 1, [], [],
             [(prefix + 'D1', 'named', [('a', ('ty', Adt(z2, [], []))), ('b', ('vec', t1())), ('c', ('opt', A(t1(), 2))),
                                        ('d', ('ty', Adt(z5, [], []))), ('e', ('ty', Adt(e1, [], [])))])])
    defs.append(d1)
    d2 = Def(prefix + 'D2', True, 'deep', [], 1, [], [],
             [('P', 'tuple', [('g0', A(P('u8'), 3)), ('g1', ('vec', ('ty', Adt(z3, [], []))))]),
              ('Q', 'named', [('m', ('ty', Adt(z4, [], []))), ('n', ('ty', Str()))]), ('R', 'unit', [])])
    defs.append(d2)
    # (appended later; the golden corpus only lists the definitions above) units of 32 and 64 behind a string, so
    # that every padding length up to 63 occurs in front of a block, in both readers
    z8 = zs('Z8', [('a', P('u16')), ('b', P('u64'))], reprs=('C', 'align(64)'), align=64)
    d3 = Def(prefix + 'D3', False, 'none', [], 1, [], [],
             [(prefix + 'D3', 'named', [('s', ('ty', Str())), ('v', ('vec', ('ty', Adt(z8, [], [])))), ('z', ('ty', Adt(z6, [], []))), ('t', P('u8'))])])
    defs.append(d3)
    # a zero-copy enum whose alignment comes from the tag only (payloads narrower than the 4-byte C tag), borrowed as a slice
    e2 = Def(prefix + 'ZE2', True, 'zero', ['C'], 1, [], [],
             [('A', 'unit', []), ('B', 'tuple', [('g0', P('u8'))]), ('C', 'named', [('x', P('u16'))])])
    defs.append(e2)
    d4 = Def(prefix + 'D4', False, 'none', [], 1, [], [],
             [(prefix + 'D4', 'named', [('s', ('ty', Str())), ('v', ('vec', ('ty', Adt(e2, [], [])))), ('t', P('u8'))])])
    defs.append(d4)
    # a generic wrapper whose second field is parameter-typed (hence ε-copied: borrowed), behind a string
    d5 = Def(prefix + 'D5', False, 'none', [], 1, [{'name': 'A', 'bounds': [], 'default': None, 'role': 'eps'}], [],
             [(prefix + 'D5', 'named', [('s', ('ty', Str())), ('a', ('param', 0)), ('t', P('u8'))])])
    defs.append(d5)
    # deep-copy items that serialize to zero bytes; a single-field deep newtype of a zero-copy array (its items record
    # one leaf row each, back to back); two const parameters (values are hashed before names); a 128-bit const parameter
    u0 = Def(prefix + 'U0', False, 'deep', [], 1, [], [], [(prefix + 'U0', 'unit', [])])
    defs.append(u0)
    n1 = Def(prefix + 'N1', False, 'deep', [], 1, [], [], [(prefix + 'N1', 'tuple', [('f0', A(P('u8'), 4))])])
    defs.append(n1)
    c2 = Def(prefix + 'C2', False, 'none', [], 1, [], [{'name': 'A', 'prim': 'u8', 'default': None}, {'name': 'B', 'prim': 'u16', 'default': None}],
             [(prefix + 'C2', 'named', [('x', ('ty', Str())), ('y', A(P('u16'), 2))])])
    defs.append(c2)
    c3 = Def(prefix + 'C3', False, 'none', [], 1, [], [{'name': 'W', 'prim': 'u128', 'default': None}],
             [(prefix + 'C3', 'named', [('x', P('u32'))])])
    defs.append(c3)
    # round 5: a 128-aligned zero-copy structure twice behind a string (full-copy has no alignment limit; ε-copy and the
    # loaders do: exercised only by the checks listed in Ty.known); items whose size is not a multiple of their unit
    # (RangeTo<[u16; 2]>: size 4 = unit 4, alignment 2; with a u16 after it: size 6, unit 4); long non-ASCII type names
    # of both byte parities; a deep-copy enum with explicit discriminants
    z9 = zs('Z9', [('a', P('u8')), ('b', P('u32'))], reprs=('C', 'align(128)'), align=128)
    d6 = Def(prefix + 'D6', False, 'none', [], 1, [], [],
             [(prefix + 'D6', 'named', [('s', ('ty', Str())), ('a', ('ty', Adt(z9, [], []))), ('t', P('u8')), ('b', ('ty', Adt(z9, [], []))), ('v', ('vec', ('ty', Adt(z9, [], []))))])])
    defs.append(d6)
    z10 = zs('Z10', [('a', ('ty', Range('t', Array(Prim('u16'), 2)))), ('b', P('u16'))])
    for nm in (prefix + '\u00e9' * 130, prefix + 'X' + '\u00e9' * 130):
        defs.append(Def(nm, False, 'none', [], 1, [], [], [(nm, 'named', [('x', P('u16')), ('s', ('ty', Str()))])]))
    x1 = Def(prefix + 'X1', True, 'none', [], 1, [], [], [('Low', 'unit', []), ('Mid', 'unit', []), ('High', 'unit', []), ('Last', 'unit', [])])
    x1.discr = {'Low': 1, 'High': 7}
    defs.append(x1)
    # a field-less zero-copy structure (zero-sized, unit 1) and a zero-sized one with unit 8
    zu = Def(prefix + 'ZU', False, 'zero', ['C'], 1, [], [], [(prefix + 'ZU', 'unit', [])])
    defs.append(zu)
    zs('ZV', [('a', A(P('u64'), 0)), ('b', ('ty', Adt(zu, [], [])))])
    # round 6: a unit far above a page (gaps longer than 4096 bytes); a generic deep struct with one parameter-typed field
    # (its ε-copy form holds a reference even when the argument is zero-sized: items of zero bytes that are not zero-sized)
    # and a two-parameter pair, for allocation measurements with payloads *after* such a vector
    zs('Z11', [('a', P('u16')), ('b', P('u64'))], reprs=('C', 'align(16384)'), align=16384)
    w1 = Def(prefix + 'W1', False, 'none', [], 1, [{'name': 'A', 'bounds': [], 'default': None, 'role': 'eps'}], [],
             [(prefix + 'W1', 'named', [('x', ('param', 0))])])
    defs.append(w1)
    p2 = Def(prefix + 'P2', False, 'none', [], 1, [{'name': 'A', 'bounds': [], 'default': None, 'role': 'eps'}, {'name': 'B', 'bounds': [], 'default': None, 'role': 'eps'}], [],
             [(prefix + 'P2', 'named', [('a', ('param', 0)), ('b', ('param', 1))])])
    defs.append(p2)
    # round 6: deep-copy enums with a primitive representation (the variant tag in the stream stays a usize index)
    for nm, rp in (('X2', 'u8'), ('X3', 'u16'), ('X4', 'i8')):
        x = Def(prefix + nm, True, 'none', [rp], 1, [], [],
                [('A', 'unit', []), ('B', 'tuple', [('g0', P('u16'))]), ('C', 'named', [('s', ('ty', Str())), ('n', P('u8'))]), ('D', 'unit', [])])
        defs.append(x)
    # an enum with more variants than a byte can number: the tag of a deep-copy enum is a usize index, the one of a zero-copy
    # enum its C representation; variants 255 .. 259 straddle the byte boundary, one of them carries a field
    # round 7: const parameters declared before the type parameters; raw identifiers as field names (hashed with their
    # `r#`); a deep structure around a byte-aligned zero-copy type whose unit is larger than its alignment
    cf = Def(prefix + 'CF1', False, 'none', [], 1, [{'name': 'T', 'bounds': [], 'default': None, 'role': 'eps'}],
             [{'name': 'N', 'prim': 'usize', 'default': None}, {'name': 'B', 'prim': 'bool', 'default': None}],
             [(prefix + 'CF1', 'named', [('rows', ('param', 0)), ('n', P('u8'))])])
    cf.const_first = True
    defs.append(cf)
    cfe = Def(prefix + 'CF2', True, 'none', [], 1, [{'name': 'T', 'bounds': [], 'default': None, 'role': 'eps'}],
              [{'name': 'N', 'prim': 'u8', 'default': None}], [('A', 'unit', []), ('B', 'tuple', [('g0', ('param', 0))])])
    cfe.const_first = True
    defs.append(cfe)
    cfz = Def(prefix + 'CF3', False, 'zero', ['C'], 1, [], [{'name': 'N', 'prim': 'usize', 'default': None}],
              [(prefix + 'CF3', 'named', [('a', ('const_arr', P('u16'), 0)), ('b', P('u8'))])])
    cfz.const_first = True
    defs.append(cfz)
    defs.append(Def(prefix + 'R1', False, 'none', [], 1, [], [], [(prefix + 'R1', 'named', [('r#type', P('u8')), ('r#loop', ('ty', Str())), ('plain', P('u16'))])]))
    defs.append(Def(prefix + 'R2', False, 'zero', ['C'], 1, [], [], [(prefix + 'R2', 'named', [('r#match', P('u32')), ('r#fn', P('u8'))])]))
    # round 9: deep-copy enums that are zero-sized in memory (one data-less variant) but written with their tag
    defs.append(Def(prefix + 'SV1', True, 'none', [], 1, [], [], [('A', 'unit', [])]))
    defs.append(Def(prefix + 'SV2', True, 'none', [], 1, [], [], [('Only', 'tuple', [('g0', P('unit'))])]))
    defs.append(Def(prefix + 'RC1', False, 'zero', ['align(16)', 'C'], 16, [], [], [(prefix + 'RC1', 'named', [('a', P('u8')), ('b', P('u32'))])]))
    defs.append(Def(prefix + 'RC2', False, 'zero', ['align(8)', 'C'], 8, [], [], [(prefix + 'RC2', 'tuple', [('f0', P('u16')), ('f1', P('u8'))])]))
    many = [('V%d' % k, 'unit', []) for k in range(260)]
    many[257] = ('V257', 'tuple', [('g0', P('u16'))])
    defs.append(Def(prefix + 'X5', True, 'none', [], 1, [], [], list(many)))
    many[257] = ('V257', 'unit', [])
    defs.append(Def(prefix + 'ZE3', True, 'zero', ['C'], 1, [], [], list(many)))
    return defs


def twin_defs(prefix='K'):
    """Different definitions under one identifier, in sibling blocks of one function: `core::any::type_name` cannot tell
    them apart, the hashes must."""
    P = lambda n: ('ty', Prim(n))
    out = []
    def mk(block, name, copy, reprs, align, fields):
        d = Def(prefix + name, False, copy, list(reprs), align, [], [], [(prefix + name, 'named', fields)])
        d.block = block
        out.append(d); return d
    mk(0, 'TW', 'none', [], 1, [('a', P('u32')), ('b', ('ty', Seq('vec', Prim('u16'))))])
    mk(1, 'TW', 'none', [], 1, [('a', P('u64')), ('b', ('ty', Str())), ('c', P('u8'))])
    mk(0, 'TZ', 'zero', ['C'], 1, [('a', P('u8')), ('b', P('u32'))])
    mk(1, 'TZ', 'zero', ['C'], 1, [('a', P('u32')), ('b', P('u8'))])
    mk(0, 'TA', 'zero', ['C'], 1, [('a', P('u8')), ('b', P('u16'))])
    mk(1, 'TA', 'zero', ['C', 'align(8)'], 8, [('a', P('u8')), ('b', P('u16'))])
    return out


SAME_SIZE = {'u8': ['i8'], 'i8': ['u8'], 'u16': ['i16'], 'i16': ['u16'], 'u32': ['i32', 'f32'], 'i32': ['u32'], 'f32': ['u32'],
             'u64': ['i64', 'usize', 'f64'], 'i64': ['u64'], 'usize': ['u64', 'isize'], 'isize': ['usize'], 'f64': ['u64'],
             'u128': ['i128'], 'i128': ['u128'], 'char': ['u32'], 'bool': ['u8']}


def near_miss_mutants(d, counter):
    """near-miss variants of a definition without type parameters: same identifier (in a sub-module), one
    structural difference each. Returns [(kind, Def)]."""
    import copy
    out = []
    def clone():
        m = copy.deepcopy(d)
        counter[0] += 1
        m.module = 'm%d' % counter[0]
        return m
    fields_all = [(vi, fi) for vi, (vn, st, fs) in enumerate(d.variants) for fi in range(len(fs))]
    named = [(vi, fi) for vi, fi in fields_all if d.variants[vi][1] == 'named']
    if named:
        vi, fi = named[0]
        m = clone(); fn, te = m.variants[vi][2][fi]; m.variants[vi][2][fi] = (fn + 'x', te); out.append(('field-renamed', m))
    for vi, (vn, st, fs) in enumerate(d.variants):
        if len(fs) >= 2 and st == 'named':
            m = clone(); f = m.variants[vi][2]; f[0], f[1] = f[1], f[0]; out.append(('fields-swapped', m)); break
    for vi, fi in fields_all:
        te = d.variants[vi][2][fi][1]
        if te[0] == 'ty' and isinstance(te[1], Prim) and te[1].name in SAME_SIZE:
            m = clone(); fn, _ = m.variants[vi][2][fi]
            m.variants[vi][2][fi] = (fn, ('ty', Prim(SAME_SIZE[te[1].name][0]))); out.append(('field-retyped-same-size', m)); break
    if d.copy == 'zero':
        m = clone(); m.copy = 'deep'; out.append(('copy-kind-toggled', m))
        if d.align_attr == 1:
            m = clone(); m.reprs = list(m.reprs) + ['align(16)']; m.align_attr = 16; out.append(('repr-align-added', m))
        else:
            # 64 is the largest alignment the loaders support (load_mem allocates at 64): halve instead of doubling there
            na = d.align_attr * 2 if d.align_attr < 64 else d.align_attr // 2
            m = clone(); m.reprs = ['C', 'align(%d)' % na]; m.align_attr = na; out.append(('repr-align-changed', m))
    if d.cparams:
        m = clone(); m.cparams[0]['name'] = m.cparams[0]['name'] + 'X'
        # rename the uses
        def ren(te):
            return te
        out.append(('const-renamed', m))
    if d.is_enum:
        m = clone(); vn, st, fs = m.variants[0]; m.variants[0] = (vn + 'x', st, fs); out.append(('variant-renamed', m))
        if len(d.variants) >= 2:
            m = clone(); m.variants[0], m.variants[1] = m.variants[1], m.variants[0]; out.append(('variants-reordered', m))
    return out
