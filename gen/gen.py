#!/usr/bin/env python3
"""Generate the type universe for a seed: harness/src/gen_types.rs and work/types.txt."""
import sys, os, argparse
sys.path.insert(0, os.path.dirname(__file__))
from universe import Universe
sys.path.insert(0, os.path.join(os.path.dirname(os.path.dirname(os.path.abspath(__file__))), 'vlib'))

def main():
    ap = argparse.ArgumentParser()
    ap.add_argument('--seed', type=int, default=1)
    ap.add_argument('--tier', default='quick')
    ap.add_argument('--rust-out', required=True)
    ap.add_argument('--types-out', required=True)
    a = ap.parse_args()
    import core
    u = core.build_universe(a.seed, a.tier)
    src = u.rust_source()
    old = open(a.rust_out).read() if os.path.exists(a.rust_out) else None
    if old != src:
        open(a.rust_out, 'w').write(src)
    with open(a.types_out, 'w') as f:
        for i, t in enumerate(u.types):
            f.write('type %d %s\n' % (i, t.term()))

if __name__ == '__main__':
    main()
