"""Value terms as trees, and scaling of the payloads that an ε-copy result borrows."""
from universe import Seq, Str, Array, Tuple, Sum, Adt, Range, Prim, Phantom


def parse(s):
    pos = [0]
    def term():
        c = s[pos[0]]
        if c == '(':
            pos[0] += 2; return ('unit',)
        if c == 's':
            j = s.index('"', pos[0] + 2)
            h = s[pos[0] + 2:j]; pos[0] = j + 1
            return ('str', h)
        if c in '[{':
            close = ']' if c == '[' else '}'
            pos[0] += 1
            xs = lst(close)
            return ('seq' if c == '[' else 'rec', xs)
        if c == '#':
            j = s.index('(', pos[0])
            i = int(s[pos[0] + 1:j]); pos[0] = j + 1
            return ('var', i, lst(')'))
        j = pos[0]
        while j < len(s) and s[j].isdigit(): j += 1
        n = s[pos[0]:j]; pos[0] = j
        return ('bits', n)
    def lst(close):
        xs = []
        while s[pos[0]] != close:
            xs.append(term())
            assert s[pos[0]] == ','
            pos[0] += 1
        pos[0] += 1
        return xs
    t = term()
    assert pos[0] == len(s), (s, pos[0])
    return t


def show(t):
    k = t[0]
    if k == 'unit': return '()'
    if k == 'str': return 's"%s"' % t[1]
    if k == 'bits': return t[1]
    if k == 'seq': return '[' + ''.join(show(x) + ',' for x in t[1]) + ']'
    if k == 'rec': return '{' + ''.join(show(x) + ',' for x in t[1]) + '}'
    if k == 'var': return '#%d(' % t[1] + ''.join(show(x) + ',' for x in t[2]) + ')'
    raise ValueError(k)


def scale(ty, v, f, eps=True):
    """repeat the payload of every sequence / string that the ε-copy result *borrows* f times;
    rebuilt (deep) sequences keep their length, fully copied fields are left alone"""
    if not eps:
        return v
    if isinstance(ty, Str):
        return ('str', v[1] * f)
    if isinstance(ty, Seq):
        if ty.t.is_zc():
            return ('seq', v[1] * f)
        return ('seq', [scale(ty.t, x, f) for x in v[1]])
    if isinstance(ty, Array):
        if ty.t.is_zc(): return v
        return ('seq', [scale(ty.t, x, f) for x in v[1]])
    if isinstance(ty, Sum):
        if ty.kind == 'cf':
            return ('var', v[1], [scale(ty.ts[v[1]], v[2][0], f)])
        if v[1] == 0: return v
        return ('var', v[1], [scale(ty.ts[0], v[2][0], f)])
    if isinstance(ty, Adt):
        if ty.d.copy == 'zero': return v
        if ty.d.is_enum:
            fs = ty.variants[v[1]][1]
            return ('var', v[1], [scale(t, x, f, eps=e) for (n, e, t), x in zip(fs, v[2])])
        fs = ty.variants[0][1]
        return ('rec', [scale(t, x, f, eps=e) for (n, e, t), x in zip(fs, v[1])])
    return v


def empty_ser(ty):
    """every value of ty is written as zero bytes (a deep-copy structure of zero-sized zero-copy fields, a zero-sized
    zero-copy type of alignment 1): a vector of such items can be longer than the stream that holds it"""
    if isinstance(ty, Adt) and ty.d.copy != 'zero' and not ty.d.is_enum:
        return all(empty_ser(t) for (n, e, t) in ty.variants[0][1])
    if ty.is_zc():
        try:
            return ty.size() == 0 and ty.align() == 1
        except Exception:
            return False
    return False


def inflate(ty, v, n):
    """make every rebuilt sequence of empty-serialized items n items long"""
    if isinstance(ty, Seq) and not ty.t.is_zc():
        if empty_ser(ty.t) and v[1]:
            return ('seq', [v[1][0]] * n)
        return ('seq', [inflate(ty.t, x, n) for x in v[1]])
    if isinstance(ty, Array) and not ty.t.is_zc():
        return ('seq', [inflate(ty.t, x, n) for x in v[1]])
    if isinstance(ty, Sum):
        if ty.kind == 'cf':
            return ('var', v[1], [inflate(ty.ts[v[1]], v[2][0], n)])
        if v[1] == 0: return v
        return ('var', v[1], [inflate(ty.ts[0], v[2][0], n)])
    if isinstance(ty, Adt) and ty.d.copy != 'zero':
        if ty.d.is_enum:
            fs = ty.variants[v[1]][1]
            return ('var', v[1], [inflate(t, x, n) if e else x for (n_, e, t), x in zip(fs, v[2])])
        fs = ty.variants[0][1]
        return ('rec', [inflate(t, x, n) if e else x for (n_, e, t), x in zip(fs, v[1])])
    return v


def has_empty_items(ty):
    return any(isinstance(x, Seq) and not x.t.is_zc() and empty_ser(x.t) for x in ty.walk())
