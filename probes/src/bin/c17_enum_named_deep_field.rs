// expect: rejected — a zero-copy enum whose struct-like variant holds a deep-copy structure (which is Copy)
use epserde::prelude::*;
#[derive(Epserde, Clone, Copy)]
struct D { x: u32 }
#[derive(Epserde, Clone, Copy)]
#[repr(C)]
#[zero_copy]
enum W { A, B { a: u8, d: D }, C(u16) }
fn main() {
    let v = W::B { a: 1, d: D { x: 2 } };
    let mut out: Vec<u8> = Vec::new();
    let _ = v.serialize(&mut out);
}
