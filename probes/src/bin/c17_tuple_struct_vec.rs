// expect: rejected — a tuple struct declared zero-copy with a string
use epserde::prelude::*;
#[derive(Epserde, Clone)]
#[repr(C)]
#[zero_copy]
struct W(u8, String);
fn main() {
    let v = W(1, String::new());
    let mut out: Vec<u8> = Vec::new();
    let _ = v.serialize(&mut out);
}
