// expect: rejected — a generic type declared zero-copy whose parameter is not bounded by ZeroCopy
use epserde::prelude::*;
#[derive(Epserde, Clone)]
#[repr(C)]
#[zero_copy]
struct W<A> { x: u32, a: A }
fn main() {
    let v = W { x: 1, a: vec![1u8] };
    let mut out: Vec<u8> = Vec::new();
    let _ = v.serialize(&mut out);
}
