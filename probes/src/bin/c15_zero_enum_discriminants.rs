// expect: runs — zero-copy (`repr(C)`) enums with explicit discriminants: negative, sparse, large, and with fields next to
// field-less variants. Every variant written must come back as the same variant, at top level, as a field of a deep-copy
// structure and inside a vector, in both modes. (The Lean model numbers the variants of a zero-copy enum by position: explicit
// discriminants are checked on the real code alone.)
use epserde::prelude::*;

#[derive(Epserde, Debug, Clone, Copy, PartialEq)]
#[repr(C)]
#[zero_copy]
enum Sign { Neg = -1, Zero = 0, Pos = 1 }
#[derive(Epserde, Debug, Clone, Copy, PartialEq)]
#[repr(C)]
#[zero_copy]
enum Sparse { A = 10, B = 20, C = 300, D = 0x7fff_ffff, E = -0x8000_0000 }
#[derive(Epserde, Debug, Clone, Copy, PartialEq)]
#[repr(C)]
#[zero_copy]
enum Down { Three = 3, Two = 2, One = 1, Zero = 0 }
#[derive(Epserde, Debug, Clone, Copy, PartialEq)]
#[repr(C)]
#[zero_copy]
enum Mixed { A, B(u16), C { x: u64 }, D }
#[derive(Epserde, Debug, Clone, PartialEq)]
struct Deep<A> { s: String, a: A, t: u8 }

macro_rules! roundtrip {
    ($T:ty, $v:expr) => {{
        let v: $T = $v;
        let mut ok = true;
        // top level
        let mut c = <AlignedCursor>::new();
        v.serialize(&mut c).unwrap();
        ok &= matches!(<$T>::deserialize_full(&mut std::io::Cursor::new(c.as_bytes())), Ok(x) if x == v);
        ok &= matches!(<$T>::deserialize_eps(c.as_bytes()), Ok(x) if *x == v);
        // a field of a deep-copy structure (type parameter: a reference in the ε-copy result), after strings of several lengths
        for n in [0usize, 1, 3, 8] {
            let d = Deep { s: "s".repeat(n), a: v, t: 4 };
            let mut c = <AlignedCursor>::new();
            d.serialize(&mut c).unwrap();
            ok &= matches!(<Deep<$T>>::deserialize_full(&mut std::io::Cursor::new(c.as_bytes())), Ok(x) if x == d);
            ok &= matches!(<Deep<$T>>::deserialize_eps(c.as_bytes()), Ok(x) if *x.a == v && x.t == 4);
        }
        // inside a vector and an array
        let w = vec![v, v];
        let mut c = <AlignedCursor>::new();
        w.serialize(&mut c).unwrap();
        ok &= matches!(<Vec<$T>>::deserialize_full(&mut std::io::Cursor::new(c.as_bytes())), Ok(x) if x == w);
        ok &= matches!(<Vec<$T>>::deserialize_eps(c.as_bytes()), Ok(x) if x == &w[..]);
        let o = Some(v);
        let mut c = <AlignedCursor>::new();
        o.serialize(&mut c).unwrap();
        ok &= matches!(<Option<$T>>::deserialize_full(&mut std::io::Cursor::new(c.as_bytes())), Ok(x) if x == o);
        ok &= matches!(<Option<$T>>::deserialize_eps(c.as_bytes()), Ok(Some(x)) if *x == v);
        if !ok { println!("variant {:?} of {} was not mapped back", v, stringify!($T)); }
        ok
    }};
}

fn main() {
    let mut ok = true;
    for v in [Sign::Neg, Sign::Zero, Sign::Pos] { ok &= roundtrip!(Sign, v); }
    for v in [Sparse::A, Sparse::B, Sparse::C, Sparse::D, Sparse::E] { ok &= roundtrip!(Sparse, v); }
    for v in [Down::Three, Down::Two, Down::One, Down::Zero] { ok &= roundtrip!(Down, v); }
    for v in [Mixed::A, Mixed::B(7), Mixed::C { x: 1 << 40 }, Mixed::D] { ok &= roundtrip!(Mixed, v); }
    println!("discriminants ok {}", ok);
    if !ok { std::process::exit(1); }
}
