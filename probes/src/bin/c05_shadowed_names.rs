// expect: runs — definitions whose own names, field names, parameter names and variant names coincide with the names the
// derived code uses itself (prelude types and variants, the identifiers of its own locals and generics), and raw identifiers
mod shadow {
    use epserde::prelude::*;
    #[derive(Epserde, Debug, PartialEq, Clone)]
    pub struct Vec<A> { pub backend: A, pub hasher: u8, pub offset_of: u16, pub tag: usize, pub r#type: u32, pub res: u8, pub buffer: u8, pub data: u8, pub len: u64 }
    #[derive(Epserde, Debug, PartialEq, Clone)]
    pub enum Result<T> { Ok, Err(u8), None, Some { x: T, r#match: u8 } }
    #[derive(Epserde, Debug, PartialEq, Clone)]
    pub struct String { pub s: std::string::String, pub o: core::option::Option<u8> }
    #[derive(Epserde, Debug, PartialEq, Clone)]
    pub struct Box<H, B, W, R>(pub H, pub B, pub W, pub R);
    #[derive(Epserde, Debug, PartialEq, Clone, Copy)]
    #[repr(C)]
    #[zero_copy]
    pub struct Option { pub backend: u8, pub _pad: [u8; 3], pub hasher: u32 }
    #[derive(Epserde, Debug, PartialEq, Clone, Copy)]
    #[repr(C)]
    #[zero_copy]
    pub enum Zero { Deep, Zero, Eps(u8) }
}
use epserde::prelude::*;
fn main() {
    let v = shadow::Vec { backend: vec![1u16, 2, 3], hasher: 1, offset_of: 2, tag: 3, r#type: 4, res: 5, buffer: 6, data: 7, len: 8 };
    let mut c = <AlignedCursor>::new();
    v.serialize(&mut c).unwrap();
    assert_eq!(<shadow::Vec<Vec<u16>>>::deserialize_full(&mut c.as_bytes()).unwrap(), v);
    let e: shadow::Vec<&[u16]> = <shadow::Vec<Vec<u16>>>::deserialize_eps(c.as_bytes()).unwrap();
    assert_eq!(e.backend, &[1u16, 2, 3][..]); assert_eq!((e.hasher, e.offset_of, e.tag, e.r#type, e.len), (1, 2, 3, 4, 8));
    for v in [shadow::Result::Ok, shadow::Result::Err(3), shadow::Result::None, shadow::Result::Some { x: "abc".to_string(), r#match: 9 }] {
        let mut c = <AlignedCursor>::new();
        v.serialize(&mut c).unwrap();
        assert_eq!(<shadow::Result<String>>::deserialize_full(&mut c.as_bytes()).unwrap(), v);
        let e: shadow::Result<&str> = <shadow::Result<String>>::deserialize_eps(c.as_bytes()).unwrap();
        match (&v, &e) {
            (shadow::Result::Ok, shadow::Result::Ok) | (shadow::Result::None, shadow::Result::None) => {}
            (shadow::Result::Err(a), shadow::Result::Err(b)) => assert_eq!(a, b),
            (shadow::Result::Some { x, r#match: m }, shadow::Result::Some { x: y, r#match: n }) => { assert_eq!(x.as_str(), *y); assert_eq!(m, n) }
            _ => panic!("variant"),
        }
    }
    let v = shadow::String { s: "héllo".to_string(), o: Some(4) };
    let mut c = <AlignedCursor>::new();
    v.serialize(&mut c).unwrap();
    assert_eq!(<shadow::String>::deserialize_full(&mut c.as_bytes()).unwrap(), v);
    assert_eq!(<shadow::String>::deserialize_eps(c.as_bytes()).unwrap(), v);
    let v = shadow::Box(vec![1u8], "w".to_string(), 7u32, vec![shadow::Option { backend: 1, _pad: [0; 3], hasher: 2 }]);
    let mut c = <AlignedCursor>::new();
    v.serialize(&mut c).unwrap();
    assert_eq!(<shadow::Box<Vec<u8>, String, u32, Vec<shadow::Option>>>::deserialize_full(&mut c.as_bytes()).unwrap(), v);
    let e: shadow::Box<&[u8], &str, u32, &[shadow::Option]> = <shadow::Box<Vec<u8>, String, u32, Vec<shadow::Option>>>::deserialize_eps(c.as_bytes()).unwrap();
    assert_eq!((e.0, e.1, e.2, e.3), (&v.0[..], v.1.as_str(), v.2, &v.3[..]));
    let v = vec![shadow::Zero::Deep, shadow::Zero::Zero, shadow::Zero::Eps(5)];
    let mut c = <AlignedCursor>::new();
    v.serialize(&mut c).unwrap();
    assert_eq!(<Vec<shadow::Zero>>::deserialize_full(&mut c.as_bytes()).unwrap(), v);
    assert_eq!(<Vec<shadow::Zero>>::deserialize_eps(c.as_bytes()).unwrap(), &v[..]);
    println!("ok");
}
