// expect: runs — zero-copy types whose alignment unit is larger than their native alignment: packed structures (the derive
// accepts `#[repr(C)] #[repr(packed)]` as two attributes), alone, as fields of zero-copy structures and enums, in arrays and
// tuples. The unit of every composite must be a power of two no smaller than its native alignment and than the unit of each
// of its fields; in a stream, after a string of every length 0..64, every block must start at a multiple of its unit after
// the smallest gap of zero bytes, the byte count returned must be the bytes written and both deserializers must consume
// exactly that many. (The Lean model has no packed layout: this is checked on the real code alone.)
use epserde::prelude::*;

#[derive(Epserde, Debug, Clone, Copy, PartialEq)]
#[repr(C)]
#[repr(packed)]
#[zero_copy]
struct P64 { t: u8, v: u64 }
#[derive(Epserde, Debug, Clone, Copy, PartialEq)]
#[repr(C)]
#[repr(packed)]
#[zero_copy]
struct P128 { t: u8, v: u128, w: u16 }
#[derive(Epserde, Debug, Clone, Copy, PartialEq)]
#[repr(C)]
#[repr(packed)]
#[zero_copy]
struct P16 { a: u8, b: u16 }
#[allow(dead_code)]
#[derive(Epserde, Debug, Clone, Copy, PartialEq)]
#[repr(C)]
#[zero_copy]
enum EN { Nothing, Small(u8), Big { p: P64 } }
#[allow(dead_code)]
#[derive(Epserde, Debug, Clone, Copy, PartialEq)]
#[repr(C)]
#[zero_copy]
enum ET { Nothing, Big(u16, P128) }
#[derive(Epserde, Debug, Clone, Copy, PartialEq)]
#[repr(C)]
#[zero_copy]
struct SO { a: u8, e: EN, z: P16 }
#[derive(Epserde, Debug, Clone, Copy, PartialEq)]
#[repr(C)]
#[zero_copy]
struct SP { a: u8, p: P64 }
#[derive(Epserde, Debug, Clone, PartialEq)]
struct Deep<A> { s: String, a: A, t: u8 }

fn unit<T: MaxSizeOf>() -> usize { T::max_size_of() }
fn pow2(n: usize) -> bool { n != 0 && n & (n - 1) == 0 }

fn check_units() -> bool {
    let mut ok = true;
    let mut rel = |what: &str, u: usize, align: usize, fields: &[usize]| {
        let good = pow2(u) && u >= align && fields.iter().all(|f| u >= *f);
        if !good { println!("unit {}: unit {} native alignment {} units of the fields {:?}", what, u, align, fields); }
        ok &= good;
    };
    rel("P64", unit::<P64>(), core::mem::align_of::<P64>(), &[unit::<u8>(), unit::<u64>()]);
    rel("P128", unit::<P128>(), core::mem::align_of::<P128>(), &[unit::<u8>(), unit::<u128>(), unit::<u16>()]);
    rel("P16", unit::<P16>(), core::mem::align_of::<P16>(), &[unit::<u8>(), unit::<u16>()]);
    rel("EN", unit::<EN>(), core::mem::align_of::<EN>(), &[unit::<u8>(), unit::<P64>()]);
    rel("ET", unit::<ET>(), core::mem::align_of::<ET>(), &[unit::<u16>(), unit::<P128>()]);
    rel("SO", unit::<SO>(), core::mem::align_of::<SO>(), &[unit::<u8>(), unit::<EN>(), unit::<P16>()]);
    rel("SP", unit::<SP>(), core::mem::align_of::<SP>(), &[unit::<u8>(), unit::<P64>()]);
    rel("[EN; 2]", unit::<[EN; 2]>(), core::mem::align_of::<[EN; 2]>(), &[unit::<EN>()]);
    rel("(ET, ET)", unit::<(ET, ET)>(), core::mem::align_of::<(ET, ET)>(), &[unit::<ET>()]);
    ok
}

/// `Deep { s, a, t }` with a string of every length in front of `a`: the block of `a` (a vector of items of type `T`, or a
/// single `T`) must start at a multiple of the unit of `T`, after the smallest all-zero gap
macro_rules! check_stream {
    ($what:expr, $T:ty, $item:expr) => {{
    let u = unit::<$T>();
    let sz = core::mem::size_of::<$T>();
    let mut ok = true;
    for n in 0..=64usize {
        let d = Deep { s: "x".repeat(n), a: vec![$item, $item, $item], t: 9 };
        let mut bytes = Vec::new();
        let count = d.serialize(&mut bytes).unwrap();
        ok &= count == bytes.len();
        let hdr = 37 + core::any::type_name::<Deep<Vec<$T>>>().len();
        let after_len = hdr + 8 + n + 8;                       // string length word, string, vector length word
        let start = after_len + (u - after_len % u) % u;
        let good = bytes.len() == start + 3 * sz + 1 && bytes[after_len..start].iter().all(|b| *b == 0) && start % u == 0;
        if !good { println!("stream {} n={}: {} bytes, block expected at {} (unit {}), gap {:?}", $what, n, bytes.len(), start, u, &bytes[after_len.min(bytes.len())..start.min(bytes.len())]); }
        ok &= good;
        let mut c = std::io::Cursor::new(&bytes);
        let full = <Deep<Vec<$T>>>::deserialize_full(&mut c);
        ok &= matches!(&full, Ok(x) if *x == d) && c.position() as usize == bytes.len();
        let mut al = epserde::utils::AlignedCursor::<maligned::A64>::new();
        std::io::Write::write_all(&mut al, &bytes).unwrap();
        match <Deep<Vec<$T>>>::deserialize_eps(al.as_bytes()) {
            Ok(e) => { ok &= e.a == &d.a[..] && e.s == d.s && e.t == 9; }
            Err(e) => { println!("stream {} n={}: eps {:?}", $what, n, e); ok = false; }
        }
        // a single $item behind the string (read through the reference path)
        let d1 = Deep { s: "y".repeat(n), a: $item, t: 7 };
        let mut b1 = Vec::new();
        let c1 = d1.serialize(&mut b1).unwrap();
        let h1 = 37 + core::any::type_name::<Deep<$T>>().len();
        let pos = h1 + 8 + n;
        let st = pos + (u - pos % u) % u;
        let good1 = c1 == b1.len() && b1.len() == st + sz + 1 && b1[pos..st].iter().all(|b| *b == 0);
        if !good1 { println!("stream-one {} n={}: {} bytes, $item expected at {} (unit {})", $what, n, b1.len(), st, u); }
        ok &= good1;
        ok &= matches!(<Deep<$T>>::deserialize_full(&mut std::io::Cursor::new(&b1)), Ok(x) if x == d1);
        let mut a1 = epserde::utils::AlignedCursor::<maligned::A64>::new();
        std::io::Write::write_all(&mut a1, &b1).unwrap();
        match <Deep<$T>>::deserialize_eps(a1.as_bytes()) {
            Ok(e) => { ok &= *e.a == $item && e.t == 7; }
            Err(e) => { println!("stream-one {} n={}: eps {:?}", $what, n, e); ok = false; }
        }
    }
    ok
}};
}

fn main() {
    let mut ok = check_units();
    println!("units ok {}", ok);
    ok &= check_stream!("P64", P64, P64 { t: 1, v: 0x1122334455667788 });
    ok &= check_stream!("P128", P128, P128 { t: 2, v: 1 << 100, w: 7 });
    ok &= check_stream!("P16", P16, P16 { a: 3, b: 0x1234 });
    ok &= check_stream!("EN::Big", EN, EN::Big { p: P64 { t: 1, v: 5 } });
    ok &= check_stream!("EN::Small", EN, EN::Small(3));
    ok &= check_stream!("ET::Big", ET, ET::Big(9, P128 { t: 2, v: 3, w: 4 }));
    ok &= check_stream!("SO", SO, SO { a: 1, e: EN::Big { p: P64 { t: 1, v: 5 } }, z: P16 { a: 1, b: 2 } });
    ok &= check_stream!("SP", SP, SP { a: 1, p: P64 { t: 1, v: 5 } });
    println!("streams ok {}", ok);
    if !ok { std::process::exit(1); }
}
