// expect: rejected — a generic zero-copy structure whose parameter is bounded by Copy + MaxSizeOf only, instantiated with a
// deep-copy type that is Copy, repr(C) and made of zero-copy fields (so that its IS_ZERO_COPY constant is true): only the
// ZeroCopy bound instantiated for every field type stands in the way
use epserde::prelude::*;
#[derive(Epserde, Clone, Copy, Debug)]
#[repr(C)]
struct DeepPod { a: u64, b: u16 }
impl MaxSizeOf for DeepPod { fn max_size_of() -> usize { 8 } }
#[derive(Epserde, Clone, Copy, Debug)]
#[repr(C)]
#[zero_copy]
struct Pair<T: Copy + MaxSizeOf + 'static> { a: T, b: u32 }
fn main() {
    let p = Pair { a: DeepPod { a: 1, b: 2 }, b: 3 };
    let mut out: Vec<u8> = Vec::new();
    let res = std::panic::catch_unwind(std::panic::AssertUnwindSafe(|| p.serialize(&mut out).is_ok()));
    let header = 37 + core::any::type_name::<Pair<DeepPod>>().len();
    println!("attempt generic-param-deep panicked={} extra={} allowed=0", res.is_err(), out.len() as isize - header as isize);
}
