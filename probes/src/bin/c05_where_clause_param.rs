// expect: runs — trait bounds written in a where clause, on a parameter that is the type of a field
use epserde::prelude::*;
#[derive(Epserde, Debug, PartialEq, Clone)]
struct S<T> where T: Clone { a: T, b: u8 }
#[derive(Epserde, Debug, PartialEq, Clone)]
enum E<T> where T: Clone { A(T), B }
#[derive(Epserde, Debug, PartialEq, Clone)]
struct M<T> where Vec<T>: Clone { a: Vec<T>, b: u8 }
fn main() {
    let v = S { a: vec![1u32, 2], b: 1 };
    let mut c = <AlignedCursor>::new();
    v.serialize(&mut c).unwrap();
    let e: S<&[u32]> = <S<Vec<u32>>>::deserialize_eps(c.as_bytes()).unwrap();
    assert_eq!(e.a, &v.a[..]);
    assert_eq!(<S<Vec<u32>>>::deserialize_full(&mut c.as_bytes()).unwrap(), v);
    let v = E::A(vec![1u32, 2]);
    let mut c = <AlignedCursor>::new();
    v.serialize(&mut c).unwrap();
    let e: E<&[u32]> = <E<Vec<u32>>>::deserialize_eps(c.as_bytes()).unwrap();
    match e { E::A(x) => assert_eq!(x, &[1u32, 2][..]), _ => panic!() }
    let v = M { a: vec![1u32, 2], b: 1 };
    let mut c = <AlignedCursor>::new();
    v.serialize(&mut c).unwrap();
    let e: M<u32> = <M<u32>>::deserialize_eps(c.as_bytes()).unwrap();
    assert_eq!(e, v);
    println!("ok");
}
