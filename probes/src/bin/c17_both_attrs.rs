// expect: rejected — declared both zero-copy and deep-copy
use epserde::prelude::*;
#[derive(Epserde, Clone, Copy)]
#[repr(C)]
#[zero_copy]
#[deep_copy]
struct W { x: u32, y: u8 }
fn main() {
    let v = W { x: 1, y: 2 };
    let mut out: Vec<u8> = Vec::new();
    let _ = v.serialize(&mut out);
}
