// expect: runs — the documented idiom `PhantomData<(T1, T2, …)>`: tuples of up to 12 *different* types have a type hash
// (they are not serializable themselves). Markers that differ in arity, in the order of two components or in one
// component must have different type hashes, and a structure tagged with one marker must not be readable as the same
// structure tagged with another (both modes). The Lean model has homogeneous tuples only: this is checked on the real
// code alone.
use epserde::prelude::*;
use std::marker::PhantomData;

#[derive(Epserde, Debug, Clone)]
struct Tagged<M> {
    v: Vec<u16>,
    n: u8,
    m: PhantomData<M>,
}

fn th<T: TypeHash>() -> u64 {
    use core::hash::Hasher;
    let mut h = xxhash_rust::xxh3::Xxh3::new();
    T::type_hash(&mut h);
    h.finish()
}

fn cross<A, B>(what: &str) -> bool
where
    Tagged<A>: Serialize + Deserialize,
    Tagged<B>: Serialize + Deserialize,
{
    let t: Tagged<A> = Tagged { v: vec![1, 2, 3], n: 9, m: PhantomData };
    let mut bytes = Vec::new();
    t.serialize(&mut bytes).unwrap();
    let full = <Tagged<B>>::deserialize_full(&mut std::io::Cursor::new(&bytes));
    let mut al = epserde::utils::AlignedCursor::<maligned::A64>::new();
    std::io::Write::write_all(&mut al, &bytes).unwrap();
    let eps = <Tagged<B>>::deserialize_eps(al.as_bytes());
    let ok_f = matches!(full, Err(epserde::deser::Error::WrongTypeHash { .. }));
    let ok_e = matches!(eps, Err(epserde::deser::Error::WrongTypeHash { .. }));
    if !(ok_f && ok_e) {
        println!("cross {}: full rejected={} eps rejected={}", what, ok_f, ok_e);
    }
    ok_f && ok_e
}

type E1 = u8; type E2 = u16; type E3 = u32; type E4 = u64; type E5 = i8; type E6 = i16;
type E7 = i32; type E8 = i64; type E9 = String; type E10 = Vec<u8>; type E11 = bool; type E12 = char;
type X = f64;

fn main() {
    let mut hs: Vec<(&str, u64)> = vec![];
    macro_rules! m { ($name:expr, $t:ty) => { hs.push(($name, th::<PhantomData<$t>>())); hs.push((concat!($name, "/bare"), th::<$t>())); }; }
    m!("a1", (E1,)); m!("a2", (E1, E2)); m!("a3", (E1, E2, E3)); m!("a4", (E1, E2, E3, E4)); m!("a5", (E1, E2, E3, E4, E5));
    m!("a6", (E1, E2, E3, E4, E5, E6)); m!("a7", (E1, E2, E3, E4, E5, E6, E7)); m!("a8", (E1, E2, E3, E4, E5, E6, E7, E8));
    m!("a9", (E1, E2, E3, E4, E5, E6, E7, E8, E9)); m!("a10", (E1, E2, E3, E4, E5, E6, E7, E8, E9, E10));
    m!("a11", (E1, E2, E3, E4, E5, E6, E7, E8, E9, E10, E11)); m!("a12", (E1, E2, E3, E4, E5, E6, E7, E8, E9, E10, E11, E12));
    // two components swapped
    m!("s2", (E2, E1)); m!("s3", (E1, E3, E2)); m!("s7", (E1, E2, E3, E4, E5, E7, E6));
    m!("s12", (E1, E2, E3, E4, E5, E6, E7, E8, E9, E10, E12, E11)); m!("s12first", (E2, E1, E3, E4, E5, E6, E7, E8, E9, E10, E11, E12));
    // one component replaced, at every position of the 12-tuple and of the 7-tuple
    m!("r12.1", (X, E2, E3, E4, E5, E6, E7, E8, E9, E10, E11, E12)); m!("r12.2", (E1, X, E3, E4, E5, E6, E7, E8, E9, E10, E11, E12));
    m!("r12.3", (E1, E2, X, E4, E5, E6, E7, E8, E9, E10, E11, E12)); m!("r12.4", (E1, E2, E3, X, E5, E6, E7, E8, E9, E10, E11, E12));
    m!("r12.5", (E1, E2, E3, E4, X, E6, E7, E8, E9, E10, E11, E12)); m!("r12.6", (E1, E2, E3, E4, E5, X, E7, E8, E9, E10, E11, E12));
    m!("r12.7", (E1, E2, E3, E4, E5, E6, X, E8, E9, E10, E11, E12)); m!("r12.8", (E1, E2, E3, E4, E5, E6, E7, X, E9, E10, E11, E12));
    m!("r12.9", (E1, E2, E3, E4, E5, E6, E7, E8, X, E10, E11, E12)); m!("r12.10", (E1, E2, E3, E4, E5, E6, E7, E8, E9, X, E11, E12));
    m!("r12.11", (E1, E2, E3, E4, E5, E6, E7, E8, E9, E10, X, E12)); m!("r12.12", (E1, E2, E3, E4, E5, E6, E7, E8, E9, E10, E11, X));
    m!("r7.1", (X, E2, E3, E4, E5, E6, E7)); m!("r7.2", (E1, X, E3, E4, E5, E6, E7)); m!("r7.3", (E1, E2, X, E4, E5, E6, E7));
    m!("r7.4", (E1, E2, E3, X, E5, E6, E7)); m!("r7.5", (E1, E2, E3, E4, X, E6, E7)); m!("r7.6", (E1, E2, E3, E4, E5, X, E7));
    m!("r7.7", (E1, E2, E3, E4, E5, E6, X));
    // nesting is not flattening
    m!("n1", ((E1, E2), E3)); m!("n2", (E1, (E2, E3))); m!("n3", ((E1,), E2, E3)); m!("n4", ((E1, E2, E3),));
    let mut bad = 0;
    for i in 0..hs.len() {
        for j in i + 1..hs.len() {
            if hs[i].1 == hs[j].1 {
                println!("same type hash: {} and {}", hs[i].0, hs[j].0);
                bad += 1;
            }
        }
    }
    println!("markers {} distinct {}", hs.len(), bad == 0);
    let mut ok = true;
    ok &= cross::<(E1, E2), (E2, E1)>("a2/s2");
    ok &= cross::<(E1, E2, E3), (E1, E2)>("a3/a2");
    ok &= cross::<(E1, E2, E3, E4, E5, E6, E7), (E1, E2, E3, E4, E5, E7, E6)>("a7/s7");
    ok &= cross::<(E1, E2, E3, E4, E5, E6, E7, E8, E9, E10, E11, E12), (E1, E2, E3, E4, E5, E6, E7, E8, E9, E10, E12, E11)>("a12/s12");
    ok &= cross::<(E1, E2, E3, E4, E5, E6, E7, E8, E9, E10, E11, E12), (E1, E2, E3, E4, E5, E6, E7, E8, E9, E10, E11, X)>("a12/r12.12");
    ok &= cross::<(E1, E2, E3, E4, E5, E6, E7, E8, E9, E10, E11, E12), (E1, E2, E3, E4, E5, E6, X, E8, E9, E10, E11, E12)>("a12/r12.7");
    ok &= cross::<(E1, E2, E3, E4, E5, E6, E7, E8, E9, E10, E11, E12), (E1, E2, E3, E4, E5, E6, E7, E8, E9, E10, E11)>("a12/a11");
    ok &= cross::<((E1, E2), E3), (E1, (E2, E3))>("n1/n2");
    ok &= cross::<(E1, E2, E3), ((E1, E2, E3),)>("a3/n4");
    ok &= cross::<((E1, E2), E3), ((E1,), E2, E3)>("n1/n3");
    // the same marker is accepted
    {
        let t: Tagged<(E1, E9)> = Tagged { v: vec![7], n: 1, m: PhantomData };
        let mut bytes = Vec::new();
        t.serialize(&mut bytes).unwrap();
        let back = <Tagged<(E1, E9)>>::deserialize_full(&mut std::io::Cursor::new(&bytes)).unwrap();
        ok &= back.v == vec![7] && back.n == 1;
    }
    println!("cross ok {}", ok);
    if bad != 0 || !ok {
        std::process::exit(1);
    }
}
