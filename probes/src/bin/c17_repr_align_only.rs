// expect: rejected — declared zero-copy with repr(align(8)) but no repr(C)
use epserde::prelude::*;
#[derive(Epserde, Clone, Copy)]
#[repr(align(8))]
#[zero_copy]
struct W { x: u32, y: u8 }
fn main() {
    let v = W { x: 1, y: 2 };
    let mut out: Vec<u8> = Vec::new();
    let _ = v.serialize(&mut out);
}
