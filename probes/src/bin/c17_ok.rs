// expect: runs — control: a correctly declared zero-copy type compiles and is written as raw memory
use epserde::prelude::*;
#[derive(Epserde, Clone, Copy)]
#[repr(C)]
#[zero_copy]
struct W { x: u32, y: u8, z: [u16; 2], t: (u8, u8) }
fn main() {
    let v = W { x: 0x01020304, y: 5, z: [6, 7], t: (8, 9) };
    let mut out: Vec<u8> = Vec::new();
    v.serialize(&mut out).unwrap();
    let header = 37 + core::any::type_name::<W>().len();
    assert!(out.len() >= header + core::mem::size_of::<W>());
    println!("attempt ok panicked=false extra={} allowed={}", out.len() - header, out.len() - header);
}
