// expect: rejected — a deep-copy field whose type also occurs inside an earlier field's PhantomData<[T; 2]>
use epserde::prelude::*;
use core::marker::PhantomData;
#[derive(Epserde, Clone, Copy)]
struct Inner { x: u32 }
impl MaxSizeOf for Inner { fn max_size_of() -> usize { 4 } }
#[derive(Epserde, Clone, Copy)]
#[repr(C)]
#[zero_copy]
struct W { marker: PhantomData<[Inner; 2]>, inner: Inner, tail: u8 }
fn main() {
    let v = W { marker: PhantomData, inner: Inner { x: 2 }, tail: 1 };
    let mut out: Vec<u8> = Vec::new();
    let r = std::panic::catch_unwind(std::panic::AssertUnwindSafe(|| v.serialize(&mut out).is_ok()));
    let header = 37 + core::any::type_name::<W>().len();
    println!("attempt phantom-array-then-elem panicked={} extra={} allowed=0", r.is_err(), out.len() as isize - header as isize);
}
