// expect: runs — every strict prefix of a few streams (cuts in the header, in length words, in alignment padding, inside
// and between blocks) through deserialize_eps and mmap of the truncated file: never a value. Built and run in the dev profile and
// again with --release (no debug assertions, no overflow checks): the bounds of the ε-copy reader must not depend on the profile.
use epserde::prelude::*;

#[derive(Epserde, Debug, Clone, Copy, PartialEq)]
#[repr(C)]
#[zero_copy]
struct Z { a: u8, b: u64 }
#[derive(Epserde, Debug, Clone, PartialEq)]
struct D { s: String, v: Vec<u64>, z: Z, w: Vec<Z>, t: u8, o: Option<Vec<u16>> }

fn sweep<T: Serialize + Deserialize>(what: &str, v: &T) -> bool {
    let mut c = <AlignedCursor<maligned::A64>>::new();
    v.serialize(&mut c).unwrap();
    let n = c.len();
    let bytes = c.as_bytes().to_vec();
    let mut ok = true;
    let path = std::env::temp_dir().join(format!("c11_prefix_sweep_{}_{}.bin", std::process::id(), what));
    for k in 0..n {
        // the prefix in a buffer of exactly k bytes, 64-aligned
        let mut al = <AlignedCursor<maligned::A64>>::with_capacity(k);
        std::io::Write::write_all(&mut al, &bytes[..k]).unwrap();
        let r = std::panic::catch_unwind(std::panic::AssertUnwindSafe(|| T::deserialize_eps(al.as_bytes()).is_ok()));
        if let Ok(true) = r {
            println!("prefix {} of {} bytes of {} became a value (deserialize_eps)", k, n, what);
            ok = false;
        }
        if k > 0 && (k % 3 == 0 || k + 16 > n) {
            std::fs::write(&path, &bytes[..k]).unwrap();
            let r = std::panic::catch_unwind(std::panic::AssertUnwindSafe(|| T::mmap(&path, Flags::empty()).is_ok()));
            if let Ok(true) = r {
                println!("prefix {} of {} bytes of {} became a value (mmap)", k, n, what);
                ok = false;
            }
        }
    }
    let _ = std::fs::remove_file(&path);
    ok
}

fn main() {
    std::panic::set_hook(Box::new(|_| {}));
    let mut ok = true;
    ok &= sweep("vec_u64", &vec![1u64, 2, 3, 4, 5]);
    ok &= sweep("vec_u128", &vec![1u128 << 100, 7]);
    ok &= sweep("string", &"hello world".to_string());
    ok &= sweep("vec_z", &vec![Z { a: 1, b: 2 }, Z { a: 3, b: 4 }]);
    ok &= sweep("deep", &D { s: "abc".into(), v: vec![1, 2, 3], z: Z { a: 9, b: 8 }, w: vec![Z { a: 1, b: 1 }], t: 7, o: Some(vec![1, 2, 3]) });
    ok &= sweep("nested", &vec![vec![1u32, 2], vec![], vec![3]]);
    ok &= sweep("option", &Some(vec![1u64, 2]));
    println!("prefixes ok {}", ok);
    if !ok { std::process::exit(1); }
}
