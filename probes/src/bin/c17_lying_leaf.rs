// expect: runs — a hand-written type marked zero-copy that reports IS_ZERO_COPY = false (it holds a
// reference), alone and inside every container that has a zero-copy path: each attempt must panic
// before any byte of the value (only the header and the enclosing container's own tag) is written
use epserde::deser::{DeserializeInner, ReadWithPos, SliceWithPos};
use epserde::prelude::*;
use epserde::ser::{SerializeInner, WriteWithNames};
#[derive(Clone, Copy, Debug)]
pub struct L(pub &'static u8);
impl CopyType for L { type Copy = Zero; }
impl MaxSizeOf for L { fn max_size_of() -> usize { 8 } }
impl TypeHash for L { fn type_hash(h: &mut impl core::hash::Hasher) { use core::hash::Hash; "L".hash(h); } }
impl AlignHash for L { fn align_hash(_h: &mut impl core::hash::Hasher, o: &mut usize) { *o += 8; } }
impl SerializeInner for L {
    type SerType = Self;
    const IS_ZERO_COPY: bool = false;
    const ZERO_COPY_MISMATCH: bool = false;
    fn _serialize_inner(&self, backend: &mut impl WriteWithNames) -> epserde::ser::Result<()> {
        epserde::ser::helpers::serialize_zero(backend, self)
    }
}
impl DeserializeInner for L {
    fn _deserialize_full_inner(backend: &mut impl ReadWithPos) -> epserde::deser::Result<Self> {
        epserde::deser::helpers::deserialize_full_zero::<Self>(backend)
    }
    type DeserType<'a> = &'a L;
    fn _deserialize_eps_inner<'a>(backend: &mut SliceWithPos<'a>) -> epserde::deser::Result<Self::DeserType<'a>> {
        epserde::deser::helpers::deserialize_eps_zero::<Self>(backend)
    }
}
#[derive(Epserde, Clone, Copy, Debug)]
#[repr(C)]
#[zero_copy]
struct Fake { p: L, x: u32 }
#[derive(Epserde, Clone, Copy, Debug)]
#[repr(C)]
#[zero_copy]
struct Outer { a: u8, f: [Fake; 2] }
#[derive(Epserde, Clone, Copy, Debug)]
#[repr(C)]
#[zero_copy]
enum FakeE { A, T(u8, L), N { p: L } }
#[derive(Epserde, Clone, Copy, Debug)]
#[repr(C)]
#[zero_copy]
enum FakeT { A, T(u8, L), U(u16) }
#[derive(Epserde, Clone, Copy, Debug)]
#[repr(C)]
#[zero_copy]
enum FakeN { A, N { x: u8, p: L }, M { y: u16 } }
#[derive(Epserde, Clone, Debug)]
struct Deep<T> { n: u8, t: T }

/// `allowed`: bytes of the enclosing containers that legitimately precede the value (tags, fields before it)
fn attempt<T: Serialize + SerializeInner>(what: &str, v: &T, allowed: usize) {
    let mut out: Vec<u8> = Vec::new();
    let r = std::panic::catch_unwind(std::panic::AssertUnwindSafe(|| v.serialize(&mut out).is_ok()));
    let header = 37 + core::any::type_name::<<T as SerializeInner>::SerType>().len();
    println!("attempt {} panicked={} extra={} allowed={}", what, r.is_err(), out.len() as isize - header as isize, allowed);
}
fn main() {
    std::panic::set_hook(Box::new(|_| {}));
    static B: u8 = 7;
    let l = L(&B);
    let f = Fake { p: l, x: 1 };
    attempt("leaf", &l, 0);
    attempt("struct", &f, 0);
    attempt("nested-struct", &Outer { a: 1, f: [f, f] }, 0);
    attempt("vec", &vec![f], 0);
    attempt("empty-vec", &Vec::<Fake>::new(), 0);
    attempt("boxed-slice", &vec![f].into_boxed_slice(), 0);
    attempt("array", &[f; 2], 0);
    attempt("tuple-of-leaf", &(l, l), 0);
    attempt("tuple-of-struct", &(f, f, f), 0);
    attempt("vec-of-tuple", &vec![(l, l)], 0);
    attempt("vec-of-range-to", &vec![..l], 0);
    attempt("range-to", &(..l), 0);
    attempt("vec-of-array", &vec![[f; 2]], 0);
    attempt("option", &Some(f), 1);
    attempt("deep-struct-field", &Deep { n: 3, t: f }, 1);
    attempt("deep-struct-vec-field", &Deep { n: 3, t: vec![f] }, 1);
    attempt("vec-of-vec", &vec![vec![f]], 8);
    attempt("slice-ref", &&[f, f][..], 0);
    // exact-size iterators: SerIter writes its items itself (a third place where the run-time check must stand)
    attempt("ser-iter", &SerIter::from([f, f].iter()), 0);
    attempt("ser-iter-of-leaf", &SerIter::from([l, l, l].iter()), 0);
    attempt("ser-iter-empty", &SerIter::from([f; 0].iter()), 0);
    attempt("deep-struct-ser-iter-field", &Deep { n: 3, t: SerIter::from([f].iter()) }, 1);
    attempt("ser-iter-of-tuple", &SerIter::from([(l, l)].iter()), 0);
    // from a destructor that runs while the thread is unwinding from another panic ("save the state on a crash")
    {
        struct SaveOnDrop(Fake);
        impl Drop for SaveOnDrop {
            fn drop(&mut self) {
                let mut out: Vec<u8> = Vec::new();
                let r = std::panic::catch_unwind(std::panic::AssertUnwindSafe(|| self.0.serialize(&mut out).is_ok()));
                let header = 37 + core::any::type_name::<Fake>().len();
                println!("attempt struct-while-unwinding panicked={} extra={} allowed=0", r.is_err(), out.len() as isize - header as isize);
            }
        }
        let _ = std::panic::catch_unwind(|| {
            let _g = SaveOnDrop(Fake { p: L(&B), x: 1 });
            panic!("crash");
        });
    }
    attempt("enum-tuple-variant", &FakeE::T(1, l), 0);
    attempt("enum-struct-variant", &FakeE::N { p: l }, 0);
    attempt("enum-unit-variant", &FakeE::A, 0);
    attempt("vec-of-enum", &vec![FakeE::T(1, l)], 0);
    attempt("enum-only-tuple-variant-lies", &FakeT::T(1, l), 0);
    attempt("enum-only-tuple-variant-lies-other-variant", &FakeT::U(7), 0);
    attempt("enum-only-struct-variant-lies", &FakeN::N { x: 1, p: l }, 0);
    attempt("vec-of-enum-only-tuple-variant-lies", &vec![FakeT::A], 0);
}
