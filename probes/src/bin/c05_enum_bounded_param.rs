// expect: runs — an enum with a bounded type parameter that is the type of variant fields
use epserde::prelude::*;
#[derive(Epserde, Debug, PartialEq, Clone)]
enum E<T: Clone> { A(T), B, C { x: T, y: u8 } }
fn main() {
    for v in [E::A(vec![1u32, 2]), E::B, E::C { x: vec![7u32], y: 3 }] {
        let mut c = <AlignedCursor>::new();
        v.serialize(&mut c).unwrap();
        let w = <E<Vec<u32>>>::deserialize_full(&mut c.as_bytes()).unwrap();
        assert_eq!(v, w);
        let e: E<&[u32]> = <E<Vec<u32>>>::deserialize_eps(c.as_bytes()).unwrap();
        match (&v, &e) {
            (E::A(a), E::A(b)) => assert_eq!(&a[..], *b),
            (E::B, E::B) => {}
            (E::C { x, y }, E::C { x: x2, y: y2 }) => { assert_eq!(&x[..], *x2); assert_eq!(y, y2); }
            _ => panic!("variant"),
        }
    }
    println!("ok");
}
