// expect: runs — a parameter passed on to another derived type, inside a tuple and nested vectors: fully copied
use epserde::prelude::*;
#[derive(Epserde, Debug, PartialEq, Clone)]
struct Inner<T> { x: T }
#[derive(Epserde, Debug, PartialEq, Clone)]
struct Outer<T> { i: Inner<T>, t: (u8, u8), o: Option<Vec<T>> }
#[derive(Epserde, Debug, PartialEq, Clone)]
struct Two<T, U> { a: T, b: Vec<U>, c: (U, U) }
fn main() {
    let v = Outer { i: Inner { x: vec![1u8] }, t: (1, 2), o: Some(vec![vec![3u8]]) };
    let mut c = <AlignedCursor>::new();
    v.serialize(&mut c).unwrap();
    let e: Outer<Vec<u8>> = <Outer<Vec<u8>>>::deserialize_eps(c.as_bytes()).unwrap();
    assert_eq!(e, v);
    let v = Two { a: vec![1u32], b: vec![2u16], c: (3u16, 4u16) };
    let mut c = <AlignedCursor>::new();
    v.serialize(&mut c).unwrap();
    let e: Two<&[u32], u16> = <Two<Vec<u32>, u16>>::deserialize_eps(c.as_bytes()).unwrap();
    assert_eq!(e.a, &v.a[..]); assert_eq!(e.b, v.b); assert_eq!(e.c, v.c);
    println!("ok");
}
