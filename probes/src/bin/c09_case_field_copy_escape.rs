// expect: rejected — a Copy field (a borrowed slice) copied out of the loaded structure
// (KNOWN FINDING: it compiles)
use epserde::prelude::*;
#[derive(Epserde, Debug)]
struct Data<A> { a: A, n: u32 }
fn main() -> anyhow::Result<()> {
    let c = <Data<Vec<u64>>>::mmap("x", Flags::empty())?;
    let a: &'static [u64] = c.a;
    drop(c);
    println!("{}", a.len()); // reads unmapped memory
    Ok(())
}
