// expect: runs — doc comments, visibilities, raw identifiers, several bounds, defaulted type and const parameters
use epserde::prelude::*;
/// doc comment
#[derive(Epserde, Debug, PartialEq, Clone)]
pub(crate) struct S<T: Clone + core::fmt::Debug, U = u8, const N: usize = 2> {
    /// field doc
    pub a: T,
    pub(crate) b: [U; N],
    r#type: u16,
    _p: core::marker::PhantomData<U>,
}
fn main() {
    let v: S<String> = S { a: "hi".to_string(), b: [1, 2], r#type: 7, _p: Default::default() };
    let mut c = <AlignedCursor>::new();
    v.serialize(&mut c).unwrap();
    let e: S<&str> = <S<String>>::deserialize_eps(c.as_bytes()).unwrap();
    assert_eq!(e.a, "hi"); assert_eq!(e.b, [1, 2]); assert_eq!(e.r#type, 7);
    let f = <S<String>>::deserialize_full(&mut c.as_bytes()).unwrap();
    assert_eq!(f, v);
    println!("ok");
}
