// expect: rejected — a deep-copy field preceded by a PhantomData marker of its own type (the type occurs as a component of an earlier field type)
use epserde::prelude::*;
use core::marker::PhantomData;
#[derive(Epserde, Clone, Copy)]
struct Inner { x: u32, o: Option<u32> }
impl MaxSizeOf for Inner { fn max_size_of() -> usize { 4 } }
#[derive(Epserde, Clone, Copy)]
#[repr(C)]
#[zero_copy]
struct W { marker: PhantomData<Inner>, id: u64, inner: Inner }
fn main() {
    let v = W { marker: PhantomData, id: 1, inner: Inner { x: 2, o: Some(3) } };
    let mut out: Vec<u8> = Vec::new();
    let r = std::panic::catch_unwind(std::panic::AssertUnwindSafe(|| v.serialize(&mut out).is_ok()));
    let header = 37 + core::any::type_name::<W>().len();
    println!("attempt phantom-then-deep panicked={} extra={} allowed=0", r.is_err(), out.len() as isize - header as isize);
}
