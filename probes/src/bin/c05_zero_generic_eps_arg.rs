// expect: runs — a generic zero-copy struct instantiated with a type whose ε-copy type is a reference
use epserde::prelude::*;
#[derive(Epserde, Debug, PartialEq, Clone, Copy)]
#[repr(C)]
#[zero_copy]
struct Z<A: ZeroCopy> { a: A, b: u8 }
#[derive(Epserde, Debug, PartialEq, Clone)]
#[deep_copy]
struct D<T> { z: T }
fn main() {
    let v = vec![Z { a: [1u16, 2], b: 1 }, Z { a: [3, 4], b: 5 }];
    let mut c = <AlignedCursor>::new();
    v.serialize(&mut c).unwrap();
    let w = <Vec<Z<[u16; 2]>>>::deserialize_full(&mut c.as_bytes()).unwrap();
    assert_eq!(v, w);
    let e: &[Z<[u16; 2]>] = <Vec<Z<[u16; 2]>>>::deserialize_eps(c.as_bytes()).unwrap();
    assert_eq!(&v[..], e);
    let d = D { z: Z { a: [9u16, 8], b: 7 } };
    let mut c = <AlignedCursor>::new();
    d.serialize(&mut c).unwrap();
    let e: D<&Z<[u16; 2]>> = <D<Z<[u16; 2]>>>::deserialize_eps(c.as_bytes()).unwrap();
    assert_eq!(*e.z, d.z);
    println!("ok");
}
