// expect: rejected — a reference obtained through AsRef must not outlive the case
use epserde::prelude::*;
fn main() -> anyhow::Result<()> {
    let c = <Vec<u32>>::load_mmap("x", Flags::empty())?;
    let r: &&[u32] = c.as_ref();
    drop(c);
    println!("{}", r.len());
    Ok(())
}
