// expect: runs — unit structs (zero and deep), tuple structs, all three variant styles
use epserde::prelude::*;
#[derive(Epserde, Debug, PartialEq, Clone, Copy)]
#[repr(C)]
#[zero_copy]
struct U;
#[derive(Epserde, Debug, PartialEq, Clone)]
struct D;
#[derive(Epserde, Debug, PartialEq, Clone)]
struct T3(u8, String, Vec<U>);
#[derive(Epserde, Debug, PartialEq, Clone)]
enum E { A, B(u8, String), C { x: Vec<u16>, y: U } }
fn main() {
    let v = T3(1, "a".into(), vec![U, U]);
    let mut c = <AlignedCursor>::new();
    v.serialize(&mut c).unwrap();
    assert_eq!(<T3>::deserialize_full(&mut c.as_bytes()).unwrap(), v);
    let e = <T3>::deserialize_eps(c.as_bytes()).unwrap();
    assert_eq!(e.0, 1); assert_eq!(e.1, "a"); assert_eq!(e.2.len(), 2);
    for x in [E::A, E::B(1, "x".into()), E::C { x: vec![1, 2], y: U }] {
        let mut c = <AlignedCursor>::new();
        x.serialize(&mut c).unwrap();
        assert_eq!(<E>::deserialize_full(&mut c.as_bytes()).unwrap(), x);
        assert_eq!(<E>::deserialize_eps(c.as_bytes()).unwrap(), x);
    }
    let mut c = <AlignedCursor>::new();
    D.serialize(&mut c).unwrap();
    assert_eq!(<D>::deserialize_eps(c.as_bytes()).unwrap(), D);
    println!("ok");
}
