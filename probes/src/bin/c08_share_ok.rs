// expect: runs — a loaded structure that is Send and Sync is moved to, and shared between, threads through its MemCase
use epserde::prelude::*;
fn share<T: Sync + Send>(_: &T) {}
fn main() {
    let v: Vec<u64> = (0..1000).collect();
    let path = std::env::temp_dir().join(format!("c08_share_ok_{}.bin", std::process::id()));
    v.store(&path).unwrap();
    let c = <Vec<u64>>::load_mem(&path).unwrap();
    share(&c);
    let total: u64 = std::thread::scope(|s| {
        let hs: Vec<_> = (0..4).map(|_| s.spawn(|| c.iter().sum::<u64>())).collect();
        hs.into_iter().map(|h| h.join().unwrap()).sum()
    });
    let moved = std::thread::spawn(move || c.iter().sum::<u64>()).join().unwrap();
    let _ = std::fs::remove_file(&path);
    assert_eq!(total, 4 * 499500);
    assert_eq!(moved, 499500);
    println!("ok");
}
