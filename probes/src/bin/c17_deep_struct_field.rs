// expect: rejected — a type declared zero-copy with a field of a deep-copy structure (which is Copy)
use epserde::prelude::*;
#[derive(Epserde, Clone, Copy)]
struct D { x: u32 }
#[derive(Epserde, Clone, Copy)]
#[repr(C)]
#[zero_copy]
struct W { x: u32, a: D }
fn main() {
    let v = W { x: 1, a: D { x: 2 } };
    let mut out: Vec<u8> = Vec::new();
    let _ = v.serialize(&mut out);
}
