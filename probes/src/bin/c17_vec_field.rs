// expect: rejected — a type declared zero-copy with a vector field
use epserde::prelude::*;
#[derive(Epserde, Clone)]
#[repr(C)]
#[zero_copy]
struct W { x: u32, a: Vec<u8> }
fn main() {
    let v: W = unsafe { core::mem::zeroed() };
    let mut out: Vec<u8> = Vec::new();
    let _ = v.serialize(&mut out);
}
