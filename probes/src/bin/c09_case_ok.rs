// expect: compiles — ordinary use of a MemCase
use epserde::prelude::*;
fn main() -> anyhow::Result<()> {
    let c = <Vec<u32>>::load_mem("x")?;
    let s: &[u32] = *c;
    println!("{}", s.len());
    let d = <Vec<u32>>::mmap("x", Flags::empty())?;
    println!("{}", d.as_ref().len());
    Ok(())
}
