// expect: runs — a field-typed parameter bounded by several separate where-predicates (with another parameter's in between), enum and struct
use epserde::prelude::*;
#[derive(Epserde, Debug, PartialEq, Clone)]
enum Split<T, U> where T: Clone, U: Clone, T: PartialEq { A(T), B { u: U }, C }
#[derive(Epserde, Debug, PartialEq, Clone)]
struct SplitS<T, U> where T: Clone, U: Clone, T: PartialEq, U: core::fmt::Debug { a: T, b: U }
#[derive(Epserde, Debug, PartialEq, Clone)]
enum Mixed<T: Clone> where T: PartialEq, T: core::fmt::Debug { A(T), B }
fn main() {
    for v in [Split::A(vec![1u32, 2]), Split::B { u: "x".to_string() }, Split::C] {
        let mut c = <AlignedCursor>::new();
        v.serialize(&mut c).unwrap();
        assert_eq!(<Split<Vec<u32>, String>>::deserialize_full(&mut c.as_bytes()).unwrap(), v);
        let e: Split<&[u32], &str> = <Split<Vec<u32>, String>>::deserialize_eps(c.as_bytes()).unwrap();
        match (&v, &e) {
            (Split::A(a), Split::A(b)) => assert_eq!(&a[..], *b),
            (Split::B { u }, Split::B { u: w }) => assert_eq!(u.as_str(), *w),
            (Split::C, Split::C) => {}
            _ => panic!("variant"),
        }
    }
    let v = SplitS { a: vec![1u8], b: 7u16 };
    let mut c = <AlignedCursor>::new();
    v.serialize(&mut c).unwrap();
    let e: SplitS<&[u8], u16> = <SplitS<Vec<u8>, u16>>::deserialize_eps(c.as_bytes()).unwrap();
    assert_eq!(e.a, &v.a[..]); assert_eq!(e.b, 7);
    let v = Mixed::A("s".to_string());
    let mut c = <AlignedCursor>::new();
    v.serialize(&mut c).unwrap();
    assert_eq!(<Mixed<String>>::deserialize_full(&mut c.as_bytes()).unwrap(), v);
    println!("ok");
}
