// expect: runs — a zero-copy enum with a bounded parameter as a variant field
use epserde::prelude::*;
#[derive(Epserde, Debug, PartialEq, Clone, Copy)]
#[repr(C)]
#[zero_copy]
enum Z<A: ZeroCopy> { X(A), Y }
fn main() {
    let v = vec![Z::X(1u16), Z::Y, Z::X(3)];
    let mut c = <AlignedCursor>::new();
    v.serialize(&mut c).unwrap();
    let e: &[Z<u16>] = <Vec<Z<u16>>>::deserialize_eps(c.as_bytes()).unwrap();
    assert_eq!(e[0], Z::X(1)); assert_eq!(e[1], Z::Y); assert_eq!(e[2], Z::X(3));
    println!("ok");
}
