// expect: compiles — the same helper used while its buffer is alive
#![forbid(unsafe_code)]
use epserde::deser::helpers::deserialize_eps_slice_zero;
use epserde::deser::SliceWithPos;
fn main() {
    let mut buf = epserde::utils::AlignedCursor::<maligned::A16>::new();
    std::io::Write::write_all(&mut buf, &2u64.to_ne_bytes()).unwrap();
    for k in 1u64..=2 { std::io::Write::write_all(&mut buf, &k.to_ne_bytes()).unwrap(); }
    let mut backend = SliceWithPos::new(buf.as_bytes());
    let s: &[u64] = deserialize_eps_slice_zero::<u64>(&mut backend).unwrap();
    assert_eq!(s, &[1, 2]);
}
