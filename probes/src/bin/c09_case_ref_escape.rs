// expect: rejected — a reference obtained through Deref must not outlive the case
use epserde::prelude::*;
fn main() -> anyhow::Result<()> {
    let r: &&[u32];
    {
        let c = <Vec<u32>>::load_mem("x")?;
        r = &*c;
    }
    println!("{}", r.len());
    Ok(())
}
