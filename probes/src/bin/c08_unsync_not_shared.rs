// expect: rejected — a structure that is Send but not Sync (it has interior mutability) must not become shareable between
// threads by being held in a MemCase: `MemCase<S>: Sync` requires `S: Sync`
use epserde::deser::MemCase;
use std::cell::Cell;
struct Tally(Cell<u64>);
fn share<T: Sync>(_: &T) {}
fn main() {
    let c = MemCase::encase(Tally(Cell::new(0)));
    share(&c);
    std::thread::scope(|s| {
        s.spawn(|| c.0.set(c.0.get() + 1));
        s.spawn(|| c.0.set(c.0.get() + 1));
    });
}
