// expect: rejected — a structure that is not Send (it holds an Rc) must not become sendable to another thread by being held
// in a MemCase: `MemCase<S>: Send` requires `S: Send`
use epserde::deser::MemCase;
use std::rc::Rc;
struct Local(Rc<u64>);
fn main() {
    let c = MemCase::encase(Local(Rc::new(7)));
    std::thread::spawn(move || println!("{}", c.0)).join().unwrap();
}
