// expect: rejected — the public ε-copy helper for slices of zero-copy items, called directly on a SliceWithPos over a local
// buffer: the slice it returns borrows from that buffer and must not outlive it
#![forbid(unsafe_code)]
use epserde::deser::helpers::deserialize_eps_slice_zero;
use epserde::deser::SliceWithPos;
fn dangling() -> &'static [u64] {
    let mut buf = epserde::utils::AlignedCursor::<maligned::A16>::new();
    std::io::Write::write_all(&mut buf, &4u64.to_ne_bytes()).unwrap();
    for k in 1u64..=4 { std::io::Write::write_all(&mut buf, &k.to_ne_bytes()).unwrap(); }
    let mut backend = SliceWithPos::new(buf.as_bytes());
    deserialize_eps_slice_zero::<u64>(&mut backend).unwrap()
}
fn main() {
    println!("{:?}", dangling());
}
