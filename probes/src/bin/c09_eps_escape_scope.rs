// expect: rejected — the ε-copy result must not outlive the buffer it borrows from
use epserde::prelude::*;
fn main() {
    let s: &[u32];
    {
        let bytes: Vec<u8> = std::fs::read("x").unwrap();
        s = <Vec<u32>>::deserialize_eps(&bytes).unwrap();
    }
    println!("{}", s.len());
}
