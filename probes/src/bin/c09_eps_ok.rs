// expect: compiles — ordinary use of an ε-copy result inside the scope of its buffer
use epserde::prelude::*;
fn main() {
    let v: Vec<u32> = vec![1, 2, 3];
    let mut buf = <AlignedCursor>::new();
    v.serialize(&mut buf).unwrap();
    let bytes = buf.as_bytes().to_vec();
    let s: &[u32] = <Vec<u32>>::deserialize_eps(&bytes).unwrap();
    println!("{}", s.len());
}
