// expect: rejected — a zero-copy structure with a field that is a deep-copy, non-repr(C) structure whose type merely *mentions*
// PhantomData among its arguments (`Tagged<PhantomData<u8>>`): it is not PhantomData, it must be checked like any other field
use epserde::prelude::*;
use core::marker::PhantomData;
#[derive(Epserde, Clone, Copy, Debug)]
struct Tagged<M> { lo: u8, hi: u64, mid: u16, m: M }
impl<M> MaxSizeOf for Tagged<M> { fn max_size_of() -> usize { 8 } }
#[derive(Epserde, Clone, Copy, Debug)]
#[repr(C)]
#[zero_copy]
struct Record { id: u32, tag: Tagged<PhantomData<u8>> }
fn main() {
    let r = Record { id: 1, tag: Tagged { lo: 1, hi: 2, mid: 3, m: PhantomData } };
    let mut out: Vec<u8> = Vec::new();
    let res = std::panic::catch_unwind(std::panic::AssertUnwindSafe(|| r.serialize(&mut out).is_ok()));
    let header = 37 + core::any::type_name::<Record>().len();
    println!("attempt phantom-argument-field panicked={} extra={} allowed=0", res.is_err(), out.len() as isize - header as isize);
}
