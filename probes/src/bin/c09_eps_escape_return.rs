// expect: rejected — returning an ε-copy result borrowed from a local buffer
use epserde::prelude::*;
fn load() -> &'static [u32] {
    let bytes: Vec<u8> = std::fs::read("x").unwrap();
    <Vec<u32>>::deserialize_eps(&bytes).unwrap()
}
fn main() {
    println!("{}", load().len());
}
