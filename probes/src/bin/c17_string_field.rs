// expect: rejected — a type declared zero-copy with a string field
use epserde::prelude::*;
#[derive(Epserde, Clone)]
#[repr(C)]
#[zero_copy]
struct W { x: u32, a: String }
fn main() {
    let v: W = unsafe { core::mem::zeroed() };
    let mut out: Vec<u8> = Vec::new();
    let _ = v.serialize(&mut out);
}
