// expect: rejected — a zero-copy enum whose tuple variant holds a deep-copy structure (which is Copy)
use epserde::prelude::*;
#[derive(Epserde, Clone, Copy)]
struct D { x: u32 }
#[derive(Epserde, Clone, Copy)]
#[repr(C)]
#[zero_copy]
enum W { A, B(u8, D), C { y: u16 } }
fn main() {
    let v = W::B(1, D { x: 2 });
    let mut out: Vec<u8> = Vec::new();
    let _ = v.serialize(&mut out);
}
