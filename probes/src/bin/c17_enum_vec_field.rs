// expect: rejected — an enum declared zero-copy with a vector in a variant
use epserde::prelude::*;
#[derive(Epserde, Clone)]
#[repr(C)]
#[zero_copy]
enum W { A, B(Vec<u8>) }
fn main() {
    let v = W::A;
    let mut out: Vec<u8> = Vec::new();
    let _ = v.serialize(&mut out);
}
