// expect: rejected — dropping the buffer while the ε-copy result is alive
use epserde::prelude::*;
fn main() {
    let bytes: Vec<u8> = std::fs::read("x").unwrap();
    let s = <Vec<String>>::deserialize_eps(&bytes).unwrap();
    drop(bytes);
    println!("{}", s.len());
}
