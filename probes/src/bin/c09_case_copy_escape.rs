// expect: rejected — the slice copied out of the case must not outlive the memory the case owns
// (KNOWN FINDING: it compiles; `load_mem<'a>` lets the caller choose the lifetime of the structure)
use epserde::prelude::*;
fn main() -> anyhow::Result<()> {
    let s: &'static [u32];
    {
        let c = <Vec<u32>>::load_mem("x")?;
        s = *c;
    }
    println!("{}", s.len()); // reads freed memory
    Ok(())
}
