fn main() {}
