//! Further per-type operations (schema, faulty writers/readers, loaders, ...).
use epserde::prelude::*;

pub struct Extra {}

impl Extra {
    pub fn new<T>() -> Self
    where
        T: 'static + Serialize + Deserialize,
    {
        Extra {}
    }
}

// ------------------------------------------------------------------------------------------------
// cursors (C19)

use epserde::utils::AlignedCursor;
use std::io::{Read, Seek, SeekFrom, Write};

#[derive(Clone, Debug)]
pub enum COp {
    Write(Vec<u8>),
    Read(usize),
    SeekStart(u64),
    SeekEnd(i64),
    SeekCur(i64),
    SetPos(u64),
    Flush,
}

pub fn parse_cops(s: &str) -> Option<Vec<COp>> {
    let mut v = vec![];
    for t in s.split(';') {
        if t.is_empty() {
            continue;
        }
        let (k, a) = match t.split_once(':') {
            Some((k, a)) => (k, a),
            None => (t, ""),
        };
        v.push(match k {
            "w" => COp::Write(crate::term::unhex(a)),
            "r" => COp::Read(a.parse().ok()?),
            "ss" => COp::SeekStart(a.parse().ok()?),
            "se" => COp::SeekEnd(a.parse().ok()?),
            "sc" => COp::SeekCur(a.parse().ok()?),
            "p" => COp::SetPos(a.parse().ok()?),
            "f" => COp::Flush,
            _ => return None,
        });
    }
    Some(v)
}

fn io_err(e: &std::io::Error) -> String {
    match e.kind() {
        std::io::ErrorKind::InvalidInput => "einv".into(),
        k => format!("e{:?}", k),
    }
}

trait Cur: Read + Write + Seek {
    fn set_pos(&mut self, p: u64);
    fn state(&mut self) -> (Vec<u8>, usize, u64, usize);
}
impl<T: maligned::Alignment> Cur for AlignedCursor<T> {
    fn set_pos(&mut self, p: u64) {
        self.set_position(p as usize)
    }
    fn state(&mut self) -> (Vec<u8>, usize, u64, usize) {
        let l = self.len();
        let p = self.position() as u64;
        let b = self.as_bytes();
        let ptr = if l == 0 { 0 } else { b.as_ptr() as usize % core::mem::align_of::<T>() };
        (b.to_vec(), l, p, ptr)
    }
}
impl Cur for std::io::Cursor<Vec<u8>> {
    fn set_pos(&mut self, p: u64) {
        self.set_position(p)
    }
    fn state(&mut self) -> (Vec<u8>, usize, u64, usize) {
        (self.get_ref().clone(), self.get_ref().len(), self.position(), 0)
    }
}

fn run_cur<C: Cur>(c: &mut C, ops: &[COp]) -> String {
    let mut outs: Vec<String> = vec![];
    for op in ops {
        let r = crate::catch(|| match op {
            COp::Write(b) => match c.write(b) {
                Ok(n) => format!("w{}", n),
                Err(e) => io_err(&e),
            },
            COp::Read(n) => {
                let mut buf = vec![0xEEu8; *n];
                match c.read(&mut buf) {
                    Ok(k) => format!("b{}", crate::term::hex(&buf[..k])),
                    Err(e) => io_err(&e),
                }
            }
            COp::SeekStart(n) => match c.seek(SeekFrom::Start(*n)) {
                Ok(p) => format!("p{}", p),
                Err(e) => io_err(&e),
            },
            COp::SeekEnd(i) => match c.seek(SeekFrom::End(*i)) {
                Ok(p) => format!("p{}", p),
                Err(e) => io_err(&e),
            },
            COp::SeekCur(i) => match c.seek(SeekFrom::Current(*i)) {
                Ok(p) => format!("p{}", p),
                Err(e) => io_err(&e),
            },
            COp::SetPos(p) => {
                c.set_pos(*p);
                "u".into()
            }
            COp::Flush => match c.flush() {
                Ok(()) => "u".into(),
                Err(e) => io_err(&e),
            },
        });
        match r {
            Some(s) => outs.push(s),
            None => {
                outs.push("panic".into());
                break;
            }
        }
    }
    let (b, l, p, ptr) = c.state();
    format!("{} | {} {} {} {}", outs.join(","), crate::term::hex(&b), l, p, if ptr == 0 { "ptrok" } else { "ptrbad" })
}

pub fn cursor_op(align: &str, ops: &str) -> String {
    let Some(ops) = parse_cops(ops) else { return "badops".into() };
    let a = match align {
        "16" => run_cur(&mut AlignedCursor::<maligned::A16>::new(), &ops),
        "32" => run_cur(&mut AlignedCursor::<maligned::A32>::new(), &ops),
        "64" => run_cur(&mut AlignedCursor::<maligned::A64>::new(), &ops),
        _ => return "badalign".into(),
    };
    let s = run_cur(&mut std::io::Cursor::new(Vec::<u8>::new()), &ops);
    format!("cursor {} || {}", a, s)
}

// ------------------------------------------------------------------------------------------------
// slices and exact-size iterators (C16)

use crate::{FromTerm, Term};

/// A generic structure holding a slice / iterator / vector in a type-parameter field.
#[derive(Epserde, Debug, Clone)]
pub struct Wrap<A> {
    pub a: A,
    pub tail: u16,
}

/// An iterator that announces a length of its own choosing.
pub struct Lying<'a, T> {
    it: core::slice::Iter<'a, T>,
    announced: usize,
}
impl<'a, T> Iterator for Lying<'a, T> {
    type Item = &'a T;
    fn next(&mut self) -> Option<&'a T> {
        self.it.next()
    }
    fn size_hint(&self) -> (usize, Option<usize>) {
        (self.announced, Some(self.announced))
    }
}
impl<'a, T> ExactSizeIterator for Lying<'a, T> {
    fn len(&self) -> usize {
        self.announced
    }
}

pub struct SliceEntry {
    pub rust_name: &'static str,
    pub vec_name: fn() -> String,
    pub wrap_name: fn() -> String,
    pub ser3: fn(&Term) -> String,
    pub iter: fn(&Term, usize) -> String,
}

fn ser_hex<T: Serialize>(v: &T) -> String {
    match crate::ser_generic(v) {
        Ok((n, b)) => {
            if n == b.len() {
                crate::term::hex(&b)
            } else {
                format!("count{}!={}", n, b.len())
            }
        }
        Err(e) => e.replace(' ', "_"),
    }
}

pub fn slice_entry_zero<T>(rust_name: &'static str) -> SliceEntry
where
    T: 'static + ZeroCopy + SerializeInner + TypeHash + AlignHash + FromTerm,
    Vec<T>: Serialize,
    for<'a> &'a [T]: Serialize,
    Wrap<Vec<T>>: Serialize,
    for<'a> Wrap<&'a [T]>: Serialize,
{
    SliceEntry {
        rust_name,
        vec_name: || core::any::type_name::<Vec<T>>().to_string(),
        wrap_name: || core::any::type_name::<Wrap<Vec<T>>>().to_string(),
        ser3: |t| {
            let Some(v) = crate::catch(|| Vec::<T>::from_term(t)) else { return "badterm".into() };
            let s: &[T] = &v;
            let vv = ser_hex(&v);
            let ss = ser_hex(&s);
            let ii = ser_hex(&SerIter::new(v.iter()));
            let wv = ser_hex(&Wrap { a: Vec::<T>::from_term(t), tail: 0xBEEF });
            let ws = ser_hex(&Wrap { a: s, tail: 0xBEEF });
            let wi = ser_hex(&Wrap { a: SerIter::new(v.iter()), tail: 0xBEEF });
            // the source must be intact afterwards
            let again = ser_hex(&v);
            format!("ser3 V:{} S:{} I:{} WV:{} WS:{} WI:{} intact={}", vv, ss, ii, wv, ws, wi, again == vv)
        },
        iter: |t, announced| {
            let Some(v) = crate::catch(|| Vec::<T>::from_term(t)) else { return "badterm".into() };
            let it = SerIter::new(Lying { it: v.iter(), announced });
            let mut out: Vec<u8> = Vec::new();
            match crate::catch(|| it.serialize(&mut out)) {
                None => "iter panic".into(),
                Some(Ok(n)) => format!("iter ok {} {}", n, crate::term::hex(&out)),
                Some(Err(ser::Error::IteratorLengthMismatch { actual, expected })) => {
                    format!("iter mismatch {} {} {}", actual, expected, crate::term::hex(&out))
                }
                Some(Err(e)) => format!("iter err {:?}", e),
            }
        },
    }
}

pub fn slice_entry_deep<T>(rust_name: &'static str) -> SliceEntry
where
    T: 'static + DeepCopy + SerializeInner + TypeHash + AlignHash + FromTerm,
    Vec<T>: Serialize,
    for<'a> &'a [T]: Serialize,
    Wrap<Vec<T>>: Serialize,
    for<'a> Wrap<&'a [T]>: Serialize,
{
    SliceEntry {
        rust_name,
        vec_name: || core::any::type_name::<Vec<T>>().to_string(),
        wrap_name: || core::any::type_name::<Wrap<Vec<T>>>().to_string(),
        ser3: |t| {
            let Some(v) = crate::catch(|| Vec::<T>::from_term(t)) else { return "badterm".into() };
            let s: &[T] = &v;
            let vv = ser_hex(&v);
            let ss = ser_hex(&s);
            let wv = ser_hex(&Wrap { a: Vec::<T>::from_term(t), tail: 0xBEEF });
            let ws = ser_hex(&Wrap { a: s, tail: 0xBEEF });
            let again = ser_hex(&v);
            format!("ser3 V:{} S:{} I:- WV:{} WS:{} WI:- intact={}", vv, ss, wv, ws, again == vv)
        },
        iter: |_, _| "iter -".into(),
    }
}
