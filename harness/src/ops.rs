//! Further per-type operations (schema, faulty writers/readers, loaders, ...).
use epserde::prelude::*;

pub struct Extra {}

impl Extra {
    pub fn new<T>() -> Self
    where
        T: 'static + Serialize + Deserialize,
    {
        Extra {}
    }
}
