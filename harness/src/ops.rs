//! Further per-type operations (schema, faulty writers/readers, loaders, ...).
use epserde::prelude::*;

pub struct Extra {}

impl Extra {
    pub fn new<T>() -> Self
    where
        T: 'static + Serialize + Deserialize,
    {
        Extra {}
    }
}

// ------------------------------------------------------------------------------------------------
// cursors (C19)

use epserde::utils::AlignedCursor;
use std::io::{Read, Seek, SeekFrom, Write};

#[derive(Clone, Debug)]
pub enum COp {
    Write(Vec<u8>),
    Read(usize),
    SeekStart(u64),
    SeekEnd(i64),
    SeekCur(i64),
    SetPos(u64),
    Flush,
    ReadToEnd,
    ReadExact(usize),
    WriteAll(Vec<u8>),
}

pub fn parse_cops(s: &str) -> Option<Vec<COp>> {
    let mut v = vec![];
    for t in s.split(';') {
        if t.is_empty() {
            continue;
        }
        let (k, a) = match t.split_once(':') {
            Some((k, a)) => (k, a),
            None => (t, ""),
        };
        v.push(match k {
            "w" => COp::Write(crate::term::unhex(a)),
            "r" => COp::Read(a.parse().ok()?),
            "ss" => COp::SeekStart(a.parse().ok()?),
            "se" => COp::SeekEnd(a.parse().ok()?),
            "sc" => COp::SeekCur(a.parse().ok()?),
            "p" => COp::SetPos(a.parse().ok()?),
            "f" => COp::Flush,
            "ra" => COp::ReadToEnd,
            "rx" => COp::ReadExact(a.parse().ok()?),
            "wa" => COp::WriteAll(crate::term::unhex(a)),
            _ => return None,
        });
    }
    Some(v)
}

fn io_err(e: &std::io::Error) -> String {
    match e.kind() {
        std::io::ErrorKind::InvalidInput => "einv".into(),
        k => format!("e{:?}", k),
    }
}

trait Cur: Read + Write + Seek {
    fn set_pos(&mut self, p: u64);
    fn state(&mut self) -> (Vec<u8>, usize, u64, usize);
}
impl<T: maligned::Alignment> Cur for AlignedCursor<T> {
    fn set_pos(&mut self, p: u64) {
        self.set_position(p as usize)
    }
    fn state(&mut self) -> (Vec<u8>, usize, u64, usize) {
        let l = self.len();
        let p = self.position() as u64;
        let b = self.as_bytes();
        let ptr = if l == 0 { 0 } else { b.as_ptr() as usize % core::mem::align_of::<T>() };
        (b.to_vec(), l, p, ptr)
    }
}
impl Cur for std::io::Cursor<Vec<u8>> {
    fn set_pos(&mut self, p: u64) {
        self.set_position(p)
    }
    fn state(&mut self) -> (Vec<u8>, usize, u64, usize) {
        (self.get_ref().clone(), self.get_ref().len(), self.position(), 0)
    }
}

fn run_cur<C: Cur>(c: &mut C, ops: &[COp]) -> String {
    let mut outs: Vec<String> = vec![];
    for op in ops {
        let r = crate::catch(|| match op {
            COp::Write(b) => match c.write(b) {
                Ok(n) => format!("w{}", n),
                Err(e) => io_err(&e),
            },
            COp::Read(n) => {
                let mut buf = vec![0xEEu8; *n];
                match c.read(&mut buf) {
                    Ok(k) => format!("b{}", crate::term::hex(&buf[..k])),
                    Err(e) => io_err(&e),
                }
            }
            COp::SeekStart(n) => match c.seek(SeekFrom::Start(*n)) {
                Ok(p) => format!("p{}", p),
                Err(e) => io_err(&e),
            },
            COp::SeekEnd(i) => match c.seek(SeekFrom::End(*i)) {
                Ok(p) => format!("p{}", p),
                Err(e) => io_err(&e),
            },
            COp::SeekCur(i) => match c.seek(SeekFrom::Current(*i)) {
                Ok(p) => format!("p{}", p),
                Err(e) => io_err(&e),
            },
            COp::SetPos(p) => {
                c.set_pos(*p);
                "u".into()
            }
            COp::Flush => match c.flush() {
                Ok(()) => "u".into(),
                Err(e) => io_err(&e),
            },
            COp::ReadToEnd => {
                let mut buf = vec![];
                match c.read_to_end(&mut buf) {
                    Ok(k) if k == buf.len() => format!("b{}", crate::term::hex(&buf)),
                    Ok(k) => format!("count{}of{}", k, buf.len()),
                    Err(e) => io_err(&e),
                }
            }
            COp::ReadExact(n) => {
                let mut buf = vec![0xEEu8; *n];
                match c.read_exact(&mut buf) {
                    Ok(()) => format!("b{}", crate::term::hex(&buf)),
                    Err(e) => io_err(&e),
                }
            }
            COp::WriteAll(b) => match c.write_all(b) {
                Ok(()) => "u".into(),
                Err(e) => io_err(&e),
            },
        });
        match r {
            Some(s) => outs.push(s),
            None => {
                outs.push("panic".into());
                break;
            }
        }
    }
    let (b, l, p, ptr) = c.state();
    format!("{} | {} {} {} {}", outs.join(","), crate::term::hex(&b), l, p, if ptr == 0 { "ptrok" } else { "ptrbad" })
}

/// observers that have no counterpart in the standard cursor must be consistent with the ones that have: `is_empty`,
/// `as_bytes_mut`, a clone, `into_parts`
fn observers_ok<T: maligned::Alignment>(c: &mut AlignedCursor<T>) -> bool {
    let l = c.len();
    let bytes = c.as_bytes().to_vec();
    let mut ok = c.is_empty() == (l == 0) && bytes.len() == l && c.as_bytes_mut().to_vec() == bytes;
    let mut k = c.clone();
    ok &= k.len() == l && k.position() == c.position() && k.as_bytes() == &bytes[..];
    // `clone_from` onto a cursor that holds more (non-zero) data: afterwards the destination behaves like the source,
    // in particular a write past the end zero-fills the gap
    {
        use std::io::Write;
        let mut dst = AlignedCursor::<T>::new();
        dst.write_all(&vec![0xFFu8; l + 3 * core::mem::size_of::<T>() + 5]).unwrap();
        dst.clone_from(c);
        ok &= dst.len() == l && dst.position() == c.position() && dst.as_bytes() == &bytes[..];
        dst.set_position(l + 2 * core::mem::size_of::<T>() + 1);
        dst.write_all(&[0x5A]).unwrap();
        let mut want = bytes.clone();
        want.extend(std::iter::repeat(0u8).take(2 * core::mem::size_of::<T>() + 1));
        want.push(0x5A);
        ok &= dst.as_bytes() == &want[..];
    }
    let (v, n) = k.into_parts();
    ok &= n == l && v.len() * core::mem::size_of::<T>() >= l;
    let raw = unsafe { core::slice::from_raw_parts(v.as_ptr() as *const u8, l.min(v.len() * core::mem::size_of::<T>())) };
    ok && raw == &bytes[..]
}

fn run_acur<T: maligned::Alignment>(init: &str, ops: &[COp]) -> String {
    // `c<n>`: with_capacity(n); `d`: default(); otherwise new()
    let mut c = match init.strip_prefix('c') {
        Some(n) => AlignedCursor::<T>::with_capacity(n.parse().unwrap_or(0)),
        None if init == "d" => AlignedCursor::<T>::default(),
        None => AlignedCursor::<T>::new(),
    };
    let r = run_cur(&mut c, ops);
    let obs = crate::catch(|| observers_ok(&mut c)).unwrap_or(false);
    if obs { r } else { format!("{} obsbad", r) }
}

pub fn cursor_op(align: &str, ops: &str) -> String {
    let Some(ops) = parse_cops(ops) else { return "badops".into() };
    let digits: String = align.chars().take_while(|c| c.is_ascii_digit()).collect();
    let init = &align[digits.len()..];
    let a = match digits.as_str() {
        "16" => run_acur::<maligned::A16>(init, &ops),
        "32" => run_acur::<maligned::A32>(init, &ops),
        "64" => run_acur::<maligned::A64>(init, &ops),
        _ => return "badalign".into(),
    };
    let s = run_cur(&mut std::io::Cursor::new(Vec::<u8>::new()), &ops);
    format!("cursor {} || {}", a, s)
}

// ------------------------------------------------------------------------------------------------
// slices and exact-size iterators (C16)

use crate::{FromTerm, Term};

/// A generic structure holding a slice / iterator / vector in a type-parameter field.
#[derive(Epserde, Debug, Clone)]
pub struct Wrap<A> {
    pub a: A,
    pub tail: u16,
}

macro_rules! stamped_struct {
    ( $(#[$m:meta])* $n:ident < $p:ident > { $($f:ident : $t:ty),* $(,)? } ) => { $(#[$m])* pub struct $n<$p> { $(pub $f : $t),* } };
}
stamped_struct! {
    /// The same structure as `Wrap`, stamped out by a `macro_rules!`: the derive sees the field types inside invisible groups.
    #[derive(Epserde, Debug, Clone)]
    WrapM<A> { a: A, tail: u16 }
}

/// A generic enum holding a slice / iterator / vector in a type-parameter field of a variant.
#[derive(Epserde, Debug, Clone)]
pub enum WrapE<A> {
    Held(u8, A),
    Empty,
}

thread_local! {
    /// what the destructor of the last dropped `Journal` computed from its entries
    pub static DROP_SUM: std::cell::Cell<Option<u64>> = const { std::cell::Cell::new(None) };
}

/// A structure whose destructor reads its (possibly borrowed) data: the backing memory of a loaded
/// `Journal<&[u64]>` must still be there when the structure is dropped.
#[derive(Epserde, Debug)]
pub struct Journal<A: AsRef<[u64]>> {
    pub entries: A,
    pub id: u32,
}
pub fn journal_sum(e: &[u64]) -> u64 {
    e.iter().fold(17u64, |a, b| a.wrapping_mul(31).wrapping_add(*b))
}
impl<A: AsRef<[u64]>> Drop for Journal<A> {
    fn drop(&mut self) {
        let s = journal_sum(self.entries.as_ref());
        DROP_SUM.with(|c| c.set(Some(s)));
    }
}

/// `dropcheck <loader> <n>`: store a journal of n entries, load it, drop the loaded case, and report whether the
/// destructor of the loaded structure still saw the stored entries.
pub fn dropcheck(loader: &str, n: usize) -> String {
    use std::sync::atomic::Ordering::SeqCst;
    let j = Journal { entries: (0..n as u64).map(|k| k.wrapping_mul(0x9E3779B97F4A7C15) | 1).collect::<Vec<u64>>(), id: 7 };
    let expected = journal_sum(&j.entries);
    let path = tmp_path("drop");
    if j.store(&path).is_err() {
        return "dropcheck store-err".into();
    }
    crate::alloc::POISON.store(1, SeqCst);
    DROP_SUM.with(|c| c.set(None));
    let loaded = crate::catch(|| -> Result<(), String> {
        match loader {
            "full" => drop(<Journal<Vec<u64>>>::load_full(&path).map_err(|e| e.to_string())?),
            "mem" => drop(<Journal<Vec<u64>>>::load_mem(&path).map_err(|e| e.to_string())?),
            #[cfg(feature = "mmap")]
            "mmap" => drop(<Journal<Vec<u64>>>::load_mmap(&path, Flags::empty()).map_err(|e| e.to_string())?),
            #[cfg(feature = "mmap")]
            "map" => drop(<Journal<Vec<u64>>>::mmap(&path, Flags::empty()).map_err(|e| e.to_string())?),
            _ => return Err("badloader".into()),
        }
        Ok(())
    });
    crate::alloc::POISON.store(0, SeqCst);
    let _ = std::fs::remove_file(&path);
    let got = DROP_SUM.with(|c| c.get());
    match (loaded, got) {
        (None, _) => "dropcheck panic".into(),
        (Some(Err(e)), _) => format!("dropcheck err {}", e.replace(' ', "_")),
        (Some(Ok(())), Some(s)) if s == expected => "dropcheck ok".into(),
        (Some(Ok(())), Some(s)) => format!("dropcheck stale expected={} seen={}", expected, s),
        (Some(Ok(())), None) => "dropcheck no-destructor".into(),
    }
}

/// An iterator that announces a length of its own choosing.
pub struct Lying<'a, T> {
    it: core::slice::Iter<'a, T>,
    announced: usize,
}
impl<'a, T> Iterator for Lying<'a, T> {
    type Item = &'a T;
    fn next(&mut self) -> Option<&'a T> {
        self.it.next()
    }
    fn size_hint(&self) -> (usize, Option<usize>) {
        (self.announced, Some(self.announced))
    }
}
impl<'a, T> ExactSizeIterator for Lying<'a, T> {
    fn len(&self) -> usize {
        self.announced
    }
}

pub struct SliceEntry {
    pub rust_name: &'static str,
    pub vec_name: fn() -> String,
    pub wrap_name: fn() -> String,
    pub wrape_name: fn() -> String,
    pub wrapm_name: fn() -> String,
    pub ser3: fn(&Term) -> String,
    pub iter: fn(&Term, usize) -> String,
    /// serialize the slice reference (and a structure holding it) through a faulty writer while the
    /// allocator protects the borrowed buffer
    pub wfails: fn(&Term, &str) -> String,
}

pub fn wfails_generic<T>(t: &Term, spec: &str) -> String
where
    T: 'static + FromTerm,
    for<'a> &'a [T]: Serialize,
    for<'a> Wrap<&'a [T]>: Serialize,
    Vec<T>: Serialize,
{
    use std::sync::atomic::Ordering::SeqCst;
    let Some(v) = crate::catch(|| Vec::<T>::from_term(t)) else { return "badterm".into() };
    let before = crate::ser_generic(&v);
    let protect = if v.capacity() > 0 && core::mem::size_of::<T>() > 0 { v.as_ptr() as usize } else { 0 };
    let f0 = crate::alloc::PROTECTED_FREES.load(SeqCst);
    crate::alloc::PROTECTED.store(protect, SeqCst);
    let s: &[T] = &v;
    let r1 = wfail_generic(&s, spec);
    let r2 = wfail_generic(&Wrap { a: s, tail: 0xBEEF }, spec);
    crate::alloc::PROTECTED.store(0, SeqCst);
    let frees = crate::alloc::PROTECTED_FREES.load(SeqCst) - f0;
    let after = crate::ser_generic(&v);
    format!("{} | {} frees={} intact={}", r1, r2, frees, before == after)
}

fn _unused() {}


fn ser_hex<T: Serialize>(v: &T) -> String {
    match crate::ser_generic(v) {
        Ok((n, b)) => {
            if n == b.len() {
                crate::term::hex(&b)
            } else {
                format!("count{}!={}", n, b.len())
            }
        }
        Err(e) => e.replace(' ', "_"),
    }
}

pub fn slice_entry_zero<T>(rust_name: &'static str) -> SliceEntry
where
    T: 'static + ZeroCopy + SerializeInner + TypeHash + AlignHash + FromTerm,
    Vec<T>: Serialize,
    for<'a> &'a [T]: Serialize,
    Wrap<Vec<T>>: Serialize,
    for<'a> Wrap<&'a [T]>: Serialize,
    WrapE<Vec<T>>: Serialize,
    for<'a> WrapE<&'a [T]>: Serialize,
    WrapM<Vec<T>>: Serialize,
    for<'a> WrapM<&'a [T]>: Serialize,
{
    SliceEntry {
        rust_name,
        vec_name: || core::any::type_name::<Vec<T>>().to_string(),
        wrap_name: || core::any::type_name::<Wrap<Vec<T>>>().to_string(),
        wrape_name: || core::any::type_name::<WrapE<Vec<T>>>().to_string(),
        wrapm_name: || core::any::type_name::<WrapM<Vec<T>>>().to_string(),
        ser3: |t| {
            let Some(v) = crate::catch(|| Vec::<T>::from_term(t)) else { return "badterm".into() };
            let s: &[T] = &v;
            let vv = ser_hex(&v);
            let ss = ser_hex(&s);
            let ii = ser_hex(&SerIter::new(v.iter()));
            let wv = ser_hex(&Wrap { a: Vec::<T>::from_term(t), tail: 0xBEEF });
            let ws = ser_hex(&Wrap { a: s, tail: 0xBEEF });
            let wi = ser_hex(&Wrap { a: SerIter::new(v.iter()), tail: 0xBEEF });
            let ev = ser_hex(&WrapE::Held(7, Vec::<T>::from_term(t)));
            let es = ser_hex(&WrapE::Held(7, s));
            let ei = ser_hex(&WrapE::Held(7, SerIter::new(v.iter())));
            let eu = ser_hex(&WrapE::<&[T]>::Empty);
            let euv = ser_hex(&WrapE::<Vec<T>>::Empty);
            // the source must be intact afterwards
            let mv = ser_hex(&WrapM { a: Vec::<T>::from_term(t), tail: 0xBEEF });
            let ms = ser_hex(&WrapM { a: s, tail: 0xBEEF });
            let mi = ser_hex(&WrapM { a: SerIter::new(v.iter()), tail: 0xBEEF });
            let again = ser_hex(&v);
            format!("ser3 V:{} S:{} I:{} WV:{} WS:{} WI:{} EV:{} ES:{} EI:{} EU:{} EUV:{} MV:{} MS:{} MI:{} intact={}", vv, ss, ii, wv, ws, wi, ev, es, ei, eu, euv, mv, ms, mi, again == vv)
        },
        wfails: wfails_generic::<T>,
        iter: |t, announced| {
            let Some(v) = crate::catch(|| Vec::<T>::from_term(t)) else { return "badterm".into() };
            let it = SerIter::new(Lying { it: v.iter(), announced });
            let mut out: Vec<u8> = Vec::new();
            match crate::catch(|| it.serialize(&mut out)) {
                None => "iter panic".into(),
                Some(Ok(n)) => format!("iter ok {} {}", n, crate::term::hex(&out)),
                Some(Err(ser::Error::IteratorLengthMismatch { actual, expected })) => {
                    format!("iter mismatch {} {} {}", actual, expected, crate::term::hex(&out))
                }
                Some(Err(e)) => format!("iter err {:?}", e),
            }
        },
    }
}

pub fn slice_entry_deep<T>(rust_name: &'static str) -> SliceEntry
where
    T: 'static + DeepCopy + SerializeInner + TypeHash + AlignHash + FromTerm,
    Vec<T>: Serialize,
    for<'a> &'a [T]: Serialize,
    Wrap<Vec<T>>: Serialize,
    for<'a> Wrap<&'a [T]>: Serialize,
    WrapE<Vec<T>>: Serialize,
    for<'a> WrapE<&'a [T]>: Serialize,
    WrapM<Vec<T>>: Serialize,
    for<'a> WrapM<&'a [T]>: Serialize,
{
    SliceEntry {
        rust_name,
        vec_name: || core::any::type_name::<Vec<T>>().to_string(),
        wrap_name: || core::any::type_name::<Wrap<Vec<T>>>().to_string(),
        wrape_name: || core::any::type_name::<WrapE<Vec<T>>>().to_string(),
        wrapm_name: || core::any::type_name::<WrapM<Vec<T>>>().to_string(),
        ser3: |t| {
            let Some(v) = crate::catch(|| Vec::<T>::from_term(t)) else { return "badterm".into() };
            let s: &[T] = &v;
            let vv = ser_hex(&v);
            let ss = ser_hex(&s);
            let wv = ser_hex(&Wrap { a: Vec::<T>::from_term(t), tail: 0xBEEF });
            let ws = ser_hex(&Wrap { a: s, tail: 0xBEEF });
            let ev = ser_hex(&WrapE::Held(7, Vec::<T>::from_term(t)));
            let es = ser_hex(&WrapE::Held(7, s));
            let eu = ser_hex(&WrapE::<&[T]>::Empty);
            let euv = ser_hex(&WrapE::<Vec<T>>::Empty);
            let mv = ser_hex(&WrapM { a: Vec::<T>::from_term(t), tail: 0xBEEF });
            let ms = ser_hex(&WrapM { a: s, tail: 0xBEEF });
            let again = ser_hex(&v);
            format!("ser3 V:{} S:{} I:- WV:{} WS:{} WI:- EV:{} ES:{} EI:- EU:{} EUV:{} MV:{} MS:{} MI:- intact={}", vv, ss, wv, ws, ev, es, eu, euv, mv, ms, again == vv)
        },
        wfails: wfails_generic::<T>,
        iter: |_, _| "iter -".into(),
    }
}

// ------------------------------------------------------------------------------------------------
// faulty writers (C13) and fragmenting / failing readers (C14)

/// A writer that accepts `budget` bytes in total and then fails, takes at most `cap` bytes per
/// call, returns `Interrupted` on every `int_every`-th call, and can fail on flush.
pub struct FaultyWriter {
    pub acc: Vec<u8>,
    pub budget: Option<usize>,
    pub cap: Option<usize>,
    pub int_every: Option<usize>,
    pub flush_fail: bool,
    /// the kind of error a failing flush reports
    pub flush_kind: std::io::ErrorKind,
    /// transient failure: the call that finds the budget exhausted fails once, later calls are accepted again
    pub once: bool,
    /// a full sink that reports no error: `write` returns `Ok(0)` once the budget is exhausted
    pub zero: bool,
    /// the kind of error a failing write reports (every kind but `Interrupted` is final for `write_all`)
    pub write_kind: std::io::ErrorKind,
    pub calls: usize,
}

impl std::io::Write for FaultyWriter {
    fn write(&mut self, buf: &[u8]) -> std::io::Result<usize> {
        self.calls += 1;
        // a serializer that keeps calling a sink that keeps refusing would never return: turn it into a panic
        if self.calls > 100_000 + 64 * self.acc.len() {
            panic!("runaway: the sink was called {} times", self.calls);
        }
        if let Some(j) = self.int_every {
            if self.calls % j == 0 {
                return Err(std::io::Error::new(std::io::ErrorKind::Interrupted, "interrupted"));
            }
        }
        let mut n = buf.len();
        if let Some(c) = self.cap {
            n = n.min(c.max(1));
        }
        if let Some(b) = self.budget {
            if self.acc.len() >= b {
                if self.zero && !buf.is_empty() {
                    return Ok(0);
                }
                if self.once {
                    self.budget = None;
                }
                return Err(std::io::Error::new(self.write_kind, "device full"));
            }
            n = n.min(b - self.acc.len());
        }
        self.acc.extend_from_slice(&buf[..n]);
        Ok(n)
    }
    fn flush(&mut self) -> std::io::Result<()> {
        if self.flush_fail {
            Err(std::io::Error::new(self.flush_kind, "flush failed"))
        } else {
            Ok(())
        }
    }
}

pub fn parse_wspec(spec: &str) -> FaultyWriter {
    let mut w = FaultyWriter { acc: vec![], budget: None, cap: None, int_every: None, flush_fail: false, flush_kind: std::io::ErrorKind::Other, once: false, zero: false, write_kind: std::io::ErrorKind::Other, calls: 0 };
    for kv in spec.split(',') {
        if let Some((k, v)) = kv.split_once('=') {
            match k {
                "k" => w.budget = v.parse().ok(),
                "m" => w.cap = v.parse().ok(),
                "int" => w.int_every = v.parse().ok(),
                "ff" => {
                    w.flush_fail = v != "0";
                    w.flush_kind = match v {
                        "2" => std::io::ErrorKind::Interrupted,
                        "3" => std::io::ErrorKind::WouldBlock,
                        "4" => std::io::ErrorKind::TimedOut,
                        _ => std::io::ErrorKind::Other,
                    };
                }
                "wk" => {
                    w.write_kind = match v {
                        "3" => std::io::ErrorKind::WouldBlock,
                        "4" => std::io::ErrorKind::TimedOut,
                        "5" => std::io::ErrorKind::BrokenPipe,
                        "6" => std::io::ErrorKind::WriteZero,
                        "7" => std::io::ErrorKind::OutOfMemory,
                        "8" => std::io::ErrorKind::UnexpectedEof,
                        "9" => std::io::ErrorKind::ConnectionReset,
                        _ => std::io::ErrorKind::Other,
                    };
                }
                "once" => w.once = v == "1",
                "zero" => w.zero = v == "1",
                _ => {}
            }
        }
    }
    w
}

pub fn wfail_generic<T: Serialize>(v: &T, spec: &str) -> String {
    if spec == "devfull" {
        let res = crate::catch(|| {
            let f = std::fs::OpenOptions::new().write(true).open("/dev/full").unwrap();
            let mut bw = std::io::BufWriter::new(f);
            v.serialize(&mut bw)
        });
        return match res {
            None => "wfail panic -".into(),
            Some(Ok(n)) => format!("wfail ok {} -", n),
            Some(Err(_)) => "wfail err -".into(),
        };
    }
    let mut w = parse_wspec(spec);
    // `sch=1`: the same sink under `serialize_with_schema` (the recording writer sits between the serializer and the sink)
    let with_schema = spec.split(',').any(|kv| kv == "sch=1");
    let res = crate::catch(|| {
        if with_schema {
            let r = v.serialize_with_schema(&mut w).map(|_| ());
            let n = w.acc.len();
            r.map(|_| n)
        } else {
            v.serialize(&mut w)
        }
    });
    let r = match res {
        None => "panic".to_string(),
        Some(Ok(n)) => format!("ok {}", n),
        Some(Err(ser::Error::WriteError)) => "err".to_string(),
        Some(Err(e)) => format!("other {:?}", e),
    };
    format!("wfail {} {}", r.replace(' ', ":"), crate::term::hex(&w.acc))
}

/// A reader over `data` that fragments reads according to a pattern, optionally returns
/// `Interrupted` on every other call, and fails (with an error, or end of file) at `fail_at`.
pub struct FaultyReader<'a> {
    pub data: &'a [u8],
    pub pos: usize,
    pub pattern: Vec<usize>,
    pub interrupts: bool,
    pub fail_at: Option<usize>,
    pub eof_at_fail: bool,
    pub calls: usize,
}

impl std::io::Read for FaultyReader<'_> {
    fn read(&mut self, buf: &mut [u8]) -> std::io::Result<usize> {
        self.calls += 1;
        if self.interrupts && self.calls % 2 == 0 {
            return Err(std::io::Error::new(std::io::ErrorKind::Interrupted, "interrupted"));
        }
        let limit = self.fail_at.unwrap_or(self.data.len()).min(self.data.len());
        if self.pos >= limit {
            if self.fail_at.is_some() && !self.eof_at_fail {
                return Err(std::io::Error::new(std::io::ErrorKind::Other, "device error"));
            }
            return Ok(0);
        }
        let step = self.pattern[self.calls % self.pattern.len()].max(1);
        let n = buf.len().min(step).min(limit - self.pos);
        buf[..n].copy_from_slice(&self.data[self.pos..self.pos + n]);
        self.pos += n;
        Ok(n)
    }
}

pub fn parse_pattern(p: &str) -> (Vec<usize>, bool, bool) {
    let interrupts = p.contains('i');
    let buffered = p.contains('b');
    let core: String = p.chars().filter(|c| *c != 'i' && *c != 'b').collect();
    let pat = match core.as_str() {
        "one" => vec![1],
        "p3" => vec![3],
        "p7" => vec![7],
        "mix" => vec![1, 2, 3, 5, 8, 13, 1, 1, 64],
        "all" => vec![usize::MAX],
        s if s.starts_with('r') => {
            let mut x: u64 = s[1..].parse().unwrap_or(1) * 2654435761 + 12345;
            (0..32)
                .map(|_| {
                    x = x.wrapping_mul(6364136223846793005).wrapping_add(1442695040888963407);
                    ((x >> 33) % 17 + 1) as usize
                })
                .collect()
        }
        _ => vec![1],
    };
    (pat, interrupts, buffered)
}

pub fn rchunk_generic<T>(bytes: &[u8], pattern: &str, fail_at: Option<usize>, eof: bool) -> String
where
    T: Deserialize + crate::Show,
{
    let (pat, interrupts, buffered) = parse_pattern(pattern);
    let mut r = FaultyReader { data: bytes, pos: 0, pattern: pat, interrupts, fail_at, eof_at_fail: eof, calls: 0 };
    let res = if buffered {
        let mut br = std::io::BufReader::with_capacity(5, &mut r);
        crate::catch(|| T::deserialize_full(&mut br))
    } else {
        crate::catch(|| T::deserialize_full(&mut r))
    };
    match res {
        None => "rchunk panic".into(),
        Some(Err(e)) => format!("rchunk {}", crate::err_string(&e)),
        Some(Ok(v)) => {
            let mut s = String::from("rchunk ok ");
            v.show(&mut s);
            s
        }
    }
}

// ------------------------------------------------------------------------------------------------
// file loaders (C08) and leaks on failing loads (C09)

pub fn tmp_path(tag: &str) -> std::path::PathBuf {
    let dir = std::path::Path::new("/verif/.cache/work/tmp");
    let _ = std::fs::create_dir_all(dir);
    dir.join(format!("epsh-{}-{}.bin", std::process::id(), tag))
}

fn anyhow_err(e: &anyhow::Error) -> String {
    match e.downcast_ref::<deser::Error>() {
        Some(d) => crate::err_string(d),
        None => "err io".to_string(),
    }
}

pub fn flags_of(bits: u32) -> Flags {
    Flags::from_bits_truncate(bits)
}

/// Show a loaded case: contents through Deref (offsets relative to the backing region), the region
/// (length, address modulo 4096, zero tail), and the same contents after moving / boxing the case
/// and reading it from other threads.
pub fn show_case<S: crate::Show + Send + Sync>(case: MemCase<S>, file_len: usize, scribble: Option<&std::path::Path>) -> String {
    let (start, len) = case.verif_backend_range().unwrap_or((0, 0));
    crate::BASE.with(|b| b.set((start, len)));
    let mut s0 = String::new();
    (*case).show(&mut s0);
    // the copying loaders own their region: overwriting the file afterwards (in place, same length) must not be seen
    let mut owned = true;
    if let Some(p) = scribble {
        use std::io::Write;
        if let Ok(mut f) = std::fs::OpenOptions::new().write(true).open(p) {
            let _ = f.write_all(&vec![0xFFu8; file_len]);
        }
        let mut again = String::new();
        (*case).show(&mut again);
        owned = again == s0;
    }
    let mut s1 = String::new();
    case.as_ref().show(&mut s1);
    // tail bytes of the region
    let tail_zero = if len >= file_len && start != 0 {
        let region = unsafe { core::slice::from_raw_parts(start as *const u8, len) };
        region[file_len..].iter().all(|b| *b == 0)
    } else {
        len >= file_len
    };
    let kind = case.verif_backend_kind();
    // move, box, read from other threads
    let moved = case;
    let boxed = Box::new(moved);
    let mut s2 = String::new();
    (**boxed).show(&mut s2);
    let base = (start, len);
    let mut ok_threads = true;
    std::thread::scope(|sc| {
        let hs: Vec<_> = (0..4)
            .map(|_| {
                let r = &boxed;
                sc.spawn(move || {
                    crate::BASE.with(|b| b.set(base));
                    let mut s = String::new();
                    (***r).show(&mut s);
                    s
                })
            })
            .collect();
        for h in hs {
            if h.join().map(|s| s != s0).unwrap_or(true) {
                ok_threads = false;
            }
        }
    });
    // send the case itself to another thread, read it there, drop it there
    let sent = std::thread::scope(|sc| {
        sc.spawn(move || {
            crate::BASE.with(|b| b.set(base));
            let mut s = String::new();
            (**boxed).show(&mut s);
            s
        })
        .join()
        .unwrap_or_default()
    });
    let stable = s1 == s0 && s2 == s0 && ok_threads && sent == s0 && owned;
    format!("ok {} region={} basemod={} tailzero={} moved={} kind={}", s0, len, start % 4096 % 64, tail_zero, stable, kind)
}

pub fn load_generic<T>(v: &T, loader: &str, flags: u32) -> String
where
    T: Serialize + Deserialize + crate::Show,
    for<'a> DeserType<'a, T>: crate::Show + Send + Sync,
{
    let path = tmp_path("load");
    let expected = match crate::ser_generic(v) {
        Ok((_, b)) => b,
        Err(e) => return format!("load ser-{}", e),
    };
    // the destination may exist already, and be longer than what is stored now: storing must replace it
    // (every other case pre-creates an 8 KiB file, or a 1-byte one)
    {
        use std::sync::atomic::{AtomicUsize, Ordering};
        static N: AtomicUsize = AtomicUsize::new(0);
        match N.fetch_add(1, Ordering::Relaxed) % 3 {
            0 => { let _ = std::fs::write(&path, vec![0xAAu8; 8192]); }
            1 => { let _ = std::fs::write(&path, [0xAAu8]); }
            _ => {}
        }
    }
    if let Err(e) = v.store(&path) {
        return format!("load store-err {:?}", e);
    }
    let on_disk = std::fs::read(&path).unwrap_or_default();
    let store_ok = on_disk.len() == expected.len();   // contents compared by the caller through the mask
    // every fourth load goes through a symbolic link to the stored file (what matters is the file, not the link)
    let real_path = path.clone();
    let link = tmp_path("link");
    let via_link = {
        use std::sync::atomic::{AtomicUsize, Ordering};
        static L: AtomicUsize = AtomicUsize::new(0);
        L.fetch_add(1, Ordering::Relaxed) % 4 == 3 && std::os::unix::fs::symlink(&real_path, &link).is_ok()
    };
    let path = if via_link { link.clone() } else { path };
    let file_len = on_disk.len();
    let r = match loader {
        "full" => match crate::catch(|| T::load_full(&path)) {
            None => "panic".to_string(),
            Some(Err(e)) => anyhow_err(&e),
            Some(Ok(x)) => {
                let mut s = String::from("ok ");
                x.show(&mut s);
                // an owned structure wrapped by `MemCase::encase` reads the same through Deref and AsRef, also after a move
                let shown = s[3..].to_string();
                let c = Box::new(MemCase::encase(x));
                let (mut s1, mut s2) = (String::new(), String::new());
                (**c).show(&mut s1);
                (*c).as_ref().show(&mut s2);
                let same = s1 == shown && s2 == shown;
                s.push_str(&format!(" region=0 basemod=0 tailzero=true moved={} kind=0", same));
                s
            }
        },
        "mem" => match crate::catch(|| T::load_mem(&path)) {
            None => "panic".to_string(),
            Some(Err(e)) => anyhow_err(&e),
            Some(Ok(c)) => show_case(c, file_len, Some(&real_path)),
        },
        #[cfg(feature = "mmap")]
        "mmap" => match crate::catch(|| T::load_mmap(&path, flags_of(flags))) {
            None => "panic".to_string(),
            Some(Err(e)) => anyhow_err(&e),
            Some(Ok(c)) => show_case(c, file_len, Some(&real_path)),
        },
        #[cfg(feature = "mmap")]
        "map" => match crate::catch(|| T::mmap(&path, flags_of(flags))) {
            None => "panic".to_string(),
            Some(Err(e)) => anyhow_err(&e),
            Some(Ok(c)) => show_case(c, file_len, None),
        },
        _ => "badloader".to_string(),
    };
    let _ = std::fs::remove_file(&real_path);
    if via_link {
        let _ = std::fs::remove_file(&link);
    }
    #[cfg(feature = "mmap")]
    let mflags = flags_of(flags).verif_mmap_flags();
    // without mmap the flags are not translated at all: echo the expected translation of the empty set
    #[cfg(not(feature = "mmap"))]
    let mflags = { let _ = flags; 0u32 };
    format!("load {} store={} file={} mflags={}", r, store_ok, crate::term::hex(&on_disk), mflags)
}

fn count_maps() -> usize {
    std::fs::read_to_string("/proc/self/maps").map(|s| s.lines().count()).unwrap_or(0)
}

/// Load `bytes` (a corrupted / truncated / foreign file) `reps` times with the given loader and report
/// the growth of live heap bytes and of the number of memory mappings.
/// One load of a file holding exactly `bytes` through a file-backed entry point: outcome and error kind.
// ------------------------------------------------------------------------------------------------
// very large files (tens of MiB): values built here from a size, the model's answer does not depend on the size

fn big_one<T>(v: &T, spec: &str, loader: &str, prefix: &str, same: impl Fn(&T, &T) -> bool, same_eps: impl Fn(&T, &DeserType<'_, T>) -> bool) -> String
where
    T: Serialize + Deserialize,
    for<'a> DeserType<'a, T>: Send + Sync,
{
    let _ = spec;
    let bytes = match crate::ser_generic(v) {
        Ok((n, b)) if n == b.len() => b,
        Ok(_) => return "bigfile count -".into(),
        Err(_) => return "bigfile ser-err -".into(),
    };
    let total = bytes.len();
    // prefix: `-` (the whole stream), `<k>` (the first k bytes), `e<k>` (all but the last k bytes)
    let keep = match prefix {
        "-" => total,
        p if p.starts_with('e') => total.saturating_sub(p[1..].parse().unwrap_or(0)),
        p => p.parse::<usize>().unwrap_or(total).min(total),
    };
    let (l, bits) = match loader.split_once(':') {
        Some((l, f)) => (l, f.parse::<u32>().unwrap_or(0)),
        None => (loader, 0),
    };
    let e = |e: anyhow::Error| anyhow_err(&e);
    let path = tmp_path("big");
    let r: Option<Result<bool, String>> = crate::catch(|| match l {
        "dfull" => T::deserialize_full(&mut std::io::Cursor::new(&bytes[..keep])).map(|x| same(v, &x)).map_err(|d| crate::err_string(&d)),
        "deps" => {
            let mut al = epserde::utils::AlignedCursor::<maligned::A64>::with_capacity(keep);
            std::io::Write::write_all(&mut al, &bytes[..keep]).unwrap();
            T::deserialize_eps(al.as_bytes()).map(|x| same_eps(v, &x)).map_err(|d| crate::err_string(&d))
        }
        _ => {
            std::fs::write(&path, &bytes[..keep]).unwrap();
            match l {
                "full" => T::load_full(&path).map(|x| same(v, &x)).map_err(e),
                "mem" => T::load_mem(&path).map(|c| same_eps(v, &*c) && c.verif_backend_range().map(|(a, n)| a % 64 == 0 && n >= keep).unwrap_or(false)).map_err(e),
                #[cfg(feature = "mmap")]
                "mmap" => T::load_mmap(&path, flags_of(bits)).map(|c| same_eps(v, &*c) && c.verif_backend_range().map(|(_, n)| n >= keep).unwrap_or(false)).map_err(e),
                #[cfg(feature = "mmap")]
                "map" => T::mmap(&path, flags_of(bits)).map(|c| same_eps(v, &*c) && c.verif_backend_range().map(|(_, n)| n == keep).unwrap_or(false)).map_err(e),
                _ => Err("err badloader".into()),
            }
        }
    });
    let _ = bits;
    let _ = std::fs::remove_file(&path);
    match r {
        None => "bigfile panic -".into(),
        Some(Ok(true)) => "bigfile ok -".into(),
        Some(Ok(false)) => "bigfile differs -".into(),
        Some(Err(s)) => {
            let t: Vec<&str> = s.split(' ').collect();
            format!("bigfile {} {}", t.first().unwrap_or(&"err"), t.get(1).unwrap_or(&"-"))
        }
    }
}

/// `bigfile <kind> <n|L> <loader[:flags]> <prefix>`: kind `u8` / `u64` / `str`; `n<N>`: N items; `L<len>`: as many items as
/// make the file `len` bytes long (rounded down to whole items)
pub fn bigfile(kind: &str, spec: &str, loader: &str, prefix: &str) -> String {
    let item = if kind == "u64" { 8 } else { 1 };
    let n = if let Some(l) = spec.strip_prefix('L') {
        let want: usize = l.parse().unwrap_or(0);
        let overhead = match kind {
            "u64" => crate::ser_generic(&Vec::<u64>::new()).map(|x| x.1.len()).unwrap_or(0) + 8,   // (the payload of u64 items is padded to 8: accounted below)
            "str" => crate::ser_generic(&String::new()).map(|x| x.1.len()).unwrap_or(0),
            _ => crate::ser_generic(&Vec::<u8>::new()).map(|x| x.1.len()).unwrap_or(0),
        };
        want.saturating_sub(overhead) / item
    } else {
        spec.trim_start_matches('n').parse::<usize>().unwrap_or(0)
    };
    match kind {
        "u8" => {
            let v: Vec<u8> = (0..n).map(|k| (k.wrapping_mul(7) % 251) as u8 | 1).collect();
            big_one(&v, spec, loader, prefix, |a, b| a == b, |a, b| &a[..] == *b)
        }
        "u64" => {
            let v: Vec<u64> = (0..n as u64).map(|k| k.wrapping_mul(0x9E3779B97F4A7C15) | 1).collect();
            big_one(&v, spec, loader, prefix, |a, b| a == b, |a, b| &a[..] == *b)
        }
        "str" => {
            let v: String = (0..n).map(|k| (b'a' + (k % 26) as u8) as char).collect();
            big_one(&v, spec, loader, prefix, |a, b| a == b, |a, b| a.as_str() == *b)
        }
        _ => "bigfile badkind -".into(),
    }
}

pub fn fload_generic<T>(bytes: &[u8], loader: &str) -> String
where
    T: Deserialize,
    for<'a> DeserType<'a, T>: Send + Sync,
{
    // `loader` may carry the mapping flags: `map:1`
    let (loader, bits) = match loader.split_once(':') {
        Some((l, f)) => (l, f.parse::<u32>().unwrap_or(0)),
        None => (loader, 0),
    };
    let path = tmp_path("fload");
    std::fs::write(&path, bytes).unwrap();
    let _ = bits;
    let run = |p: &std::path::Path| -> Result<(), String> {
        let e = |e: anyhow::Error| match e.downcast_ref::<epserde::deser::Error>() {
            Some(d) => crate::err_string(d),
            None => format!("err other {}", e.to_string().replace(' ', "_")),
        };
        match loader {
            "full" => T::load_full(p).map(|_| ()).map_err(e),
            "mem" => T::load_mem(p).map(|c| drop(c)).map_err(e),
            #[cfg(feature = "mmap")]
            "mmap" => T::load_mmap(p, flags_of(bits)).map(|c| drop(c)).map_err(e),
            #[cfg(feature = "mmap")]
            "map" => T::mmap(p, flags_of(bits)).map(|c| drop(c)).map_err(e),
            _ => Err("err badloader".into()),
        }
    };
    let r = crate::catch(|| run(&path));
    let _ = std::fs::remove_file(&path);
    match r {
        Some(Ok(())) => "fload ok".into(),
        Some(Err(s)) => format!("fload {}", s),
        None => "fload panic".into(),
    }
}

pub fn leak_generic<T>(bytes: &[u8], loader: &str, reps: usize) -> String
where
    T: Deserialize,
    for<'a> DeserType<'a, T>: Send + Sync,
{
    use std::sync::atomic::Ordering::SeqCst;
    let path = tmp_path("leak");
    // the marker `<dir>` stands for a path that can be opened and has a length, but cannot be read: a directory
    let is_dir = bytes == b"<dir>";
    if is_dir {
        std::fs::create_dir_all(&path).unwrap();
    } else {
        std::fs::write(&path, bytes).unwrap();
    }
    let run = |p: &std::path::Path| -> bool {
        match loader {
            "full" => T::load_full(p).is_ok(),
            "mem" => T::load_mem(p).map(|c| drop(c)).is_ok(),
            #[cfg(feature = "mmap")]
            "mmap" => T::load_mmap(p, Flags::empty()).map(|c| drop(c)).is_ok(),
            #[cfg(feature = "mmap")]
            "map" => T::mmap(p, Flags::empty()).map(|c| drop(c)).is_ok(),
            _ => false,
        }
    };
    // warm up (lazy statics, thread-local buffers), then measure
    let first = crate::catch(|| run(&path));
    let h0 = crate::alloc::LIVE_BYTES.load(SeqCst);
    let m0 = count_maps();
    let mut oks = 0;
    let mut panics = 0;
    for _ in 0..reps {
        match crate::catch(|| run(&path)) {
            Some(true) => oks += 1,
            Some(false) => {}
            None => panics += 1,
        }
    }
    let h1 = crate::alloc::LIVE_BYTES.load(SeqCst);
    let m1 = count_maps();
    let _ = if is_dir { std::fs::remove_dir(&path) } else { std::fs::remove_file(&path) };
    format!(
        "leak first={} oks={} panics={} heap={} maps={}",
        match first { Some(true) => "ok", Some(false) => "err", None => "panic" },
        oks, panics, h1 - h0, m1 as isize - m0 as isize
    )
}
