//! Further per-type operations (schema, faulty writers/readers, loaders, ...).
use epserde::prelude::*;

pub struct Extra {}

impl Extra {
    pub fn new<T>() -> Self
    where
        T: 'static + Serialize + Deserialize,
    {
        Extra {}
    }
}

// ------------------------------------------------------------------------------------------------
// cursors (C19)

use epserde::utils::AlignedCursor;
use std::io::{Read, Seek, SeekFrom, Write};

#[derive(Clone, Debug)]
pub enum COp {
    Write(Vec<u8>),
    Read(usize),
    SeekStart(u64),
    SeekEnd(i64),
    SeekCur(i64),
    SetPos(u64),
    Flush,
}

pub fn parse_cops(s: &str) -> Option<Vec<COp>> {
    let mut v = vec![];
    for t in s.split(';') {
        if t.is_empty() {
            continue;
        }
        let (k, a) = match t.split_once(':') {
            Some((k, a)) => (k, a),
            None => (t, ""),
        };
        v.push(match k {
            "w" => COp::Write(crate::term::unhex(a)),
            "r" => COp::Read(a.parse().ok()?),
            "ss" => COp::SeekStart(a.parse().ok()?),
            "se" => COp::SeekEnd(a.parse().ok()?),
            "sc" => COp::SeekCur(a.parse().ok()?),
            "p" => COp::SetPos(a.parse().ok()?),
            "f" => COp::Flush,
            _ => return None,
        });
    }
    Some(v)
}

fn io_err(e: &std::io::Error) -> String {
    match e.kind() {
        std::io::ErrorKind::InvalidInput => "einv".into(),
        k => format!("e{:?}", k),
    }
}

trait Cur: Read + Write + Seek {
    fn set_pos(&mut self, p: u64);
    fn state(&mut self) -> (Vec<u8>, usize, u64, usize);
}
impl<T: maligned::Alignment> Cur for AlignedCursor<T> {
    fn set_pos(&mut self, p: u64) {
        self.set_position(p as usize)
    }
    fn state(&mut self) -> (Vec<u8>, usize, u64, usize) {
        let l = self.len();
        let p = self.position() as u64;
        let b = self.as_bytes();
        let ptr = if l == 0 { 0 } else { b.as_ptr() as usize % core::mem::align_of::<T>() };
        (b.to_vec(), l, p, ptr)
    }
}
impl Cur for std::io::Cursor<Vec<u8>> {
    fn set_pos(&mut self, p: u64) {
        self.set_position(p)
    }
    fn state(&mut self) -> (Vec<u8>, usize, u64, usize) {
        (self.get_ref().clone(), self.get_ref().len(), self.position(), 0)
    }
}

fn run_cur<C: Cur>(c: &mut C, ops: &[COp]) -> String {
    let mut outs: Vec<String> = vec![];
    for op in ops {
        let r = crate::catch(|| match op {
            COp::Write(b) => match c.write(b) {
                Ok(n) => format!("w{}", n),
                Err(e) => io_err(&e),
            },
            COp::Read(n) => {
                let mut buf = vec![0xEEu8; *n];
                match c.read(&mut buf) {
                    Ok(k) => format!("b{}", crate::term::hex(&buf[..k])),
                    Err(e) => io_err(&e),
                }
            }
            COp::SeekStart(n) => match c.seek(SeekFrom::Start(*n)) {
                Ok(p) => format!("p{}", p),
                Err(e) => io_err(&e),
            },
            COp::SeekEnd(i) => match c.seek(SeekFrom::End(*i)) {
                Ok(p) => format!("p{}", p),
                Err(e) => io_err(&e),
            },
            COp::SeekCur(i) => match c.seek(SeekFrom::Current(*i)) {
                Ok(p) => format!("p{}", p),
                Err(e) => io_err(&e),
            },
            COp::SetPos(p) => {
                c.set_pos(*p);
                "u".into()
            }
            COp::Flush => match c.flush() {
                Ok(()) => "u".into(),
                Err(e) => io_err(&e),
            },
        });
        match r {
            Some(s) => outs.push(s),
            None => {
                outs.push("panic".into());
                break;
            }
        }
    }
    let (b, l, p, ptr) = c.state();
    format!("{} | {} {} {} {}", outs.join(","), crate::term::hex(&b), l, p, if ptr == 0 { "ptrok" } else { "ptrbad" })
}

pub fn cursor_op(align: &str, ops: &str) -> String {
    let Some(ops) = parse_cops(ops) else { return "badops".into() };
    let a = match align {
        "16" => run_cur(&mut AlignedCursor::<maligned::A16>::new(), &ops),
        "32" => run_cur(&mut AlignedCursor::<maligned::A32>::new(), &ops),
        "64" => run_cur(&mut AlignedCursor::<maligned::A64>::new(), &ops),
        _ => return "badalign".into(),
    };
    let s = run_cur(&mut std::io::Cursor::new(Vec::<u8>::new()), &ops);
    format!("cursor {} || {}", a, s)
}
