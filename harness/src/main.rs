#![recursion_limit = "1024"]
use epserde::prelude::*;
use epsh::term::{hex, parse, unhex};
use epsh::*;
use std::io::{BufRead, Write};

#[global_allocator]
static GLOBAL: epsh::alloc::Counting = epsh::alloc::Counting;

mod gen_types;

fn apply_mut(mu: &str, hl: usize, s: &[u8]) -> Option<Vec<u8>> {
    // `a+b`: one perturbation after the other
    let mut v = s.to_vec();
    for one in mu.split('+') {
        v = apply_mut1(one, hl, &v)?;
    }
    Some(v)
}

fn apply_mut1(mu: &str, hl: usize, s: &[u8]) -> Option<Vec<u8>> {
    let off = |t: &str| -> Option<usize> {
        if let Some(r) = t.strip_prefix("b+") {
            r.parse::<usize>().ok().map(|x| x + hl)
        } else if let Some(r) = t.strip_prefix("e-") {
            r.parse::<usize>().ok().map(|x| s.len().saturating_sub(x))
        } else {
            t.parse::<usize>().ok()
        }
    };
    let p: Vec<&str> = mu.split(':').collect();
    let mut v = s.to_vec();
    match p.as_slice() {
        ["-"] => {}
        ["trunc", k] => {
            let k = off(k)?;
            v.truncate(k);
        }
        ["flip", k] => {
            let k = off(k)?;
            if k / 8 < v.len() {
                v[k / 8] ^= 1 << (k % 8);
            }
        }
        ["set", o, b] => {
            let o = off(o)?;
            let b: usize = b.parse().ok()?;
            if o < v.len() {
                v[o] = b as u8;
            }
        }
        ["setw", o, w, x] => {
            let o = off(o)?;
            let w: usize = w.parse().ok()?;
            let x: u128 = x.parse().ok()?;
            if o + w <= v.len() {
                for i in 0..w {
                    v[o + i] = (x >> (8 * i)) as u8;
                }
            }
        }
        ["append", h] => v.extend(unhex(h)),
        _ => return None,
    }
    Some(v)
}

fn do_case(reg: &[Entry], i: usize, r: usize, mu: &str, val: &str) -> String {
    let Some(e) = reg.get(i) else { return "notype".into() };
    let Some(t) = parse(val) else { return "badval".into() };
    let (n, bytes) = match (e.ser)(&t) {
        Ok(x) => x,
        Err(s) => return format!("S {}", s),
    };
    let hl = 29 + 8 + (e.ser_type_name)().len();
    let Some(m) = apply_mut(mu, hl, &bytes) else { return "badmut".into() };
    let s_line = format!("S ok {} {}", n, hex(&bytes));
    let f_line = match e.full {
        Some(f) => format!("F {}", f(&m)),
        None => "F -".into(),
    };
    let e_line = match e.eps {
        Some(f) => format!("E {}", f(&m, r)),
        None => "E -".into(),
    };
    format!("{} | {} | {}", s_line, f_line, e_line)
}

fn main() {
    // values of types with megabyte-sized items are built on the stack by the (unoptimized) generated code
    std::thread::Builder::new().stack_size(1 << 30).spawn(real_main).unwrap().join().unwrap();
}

fn real_main() {
    if std::env::var_os("EPSH_SHOW_PANICS").is_none() {
        std::panic::set_hook(Box::new(|_| {}));
    }
    let reg = gen_types::registry();
    let sreg = gen_types::slice_registry();
    let dnames = gen_types::dtype_names();
    let args: Vec<String> = std::env::args().collect();
    if args.len() > 1 && args[1] == "names" {
        for (i, e) in reg.iter().enumerate() {
            println!("name {} {}", i, hex((e.ser_type_name)().as_bytes()));
        }
        for (i, e) in sreg.iter().enumerate() {
            println!("sname {} {} {} {} {}", i, hex((e.vec_name)().as_bytes()), hex((e.wrap_name)().as_bytes()), hex((e.wrape_name)().as_bytes()), hex((e.wrapm_name)().as_bytes()));
        }
        return;
    }
    let stdin = std::io::stdin();
    let stdout = std::io::stdout();
    let mut out = std::io::BufWriter::new(stdout.lock());
    for line in stdin.lock().lines() {
        let line = line.unwrap();
        let p: Vec<&str> = line.trim().split(' ').collect();
        let ans: Option<String> = match p.as_slice() {
            ["name", ..] => None,
            ["sname", ..] => None,
            ["stype", i, _] => Some(format!("stype {}", i)),
            ["ser3", i, val] => Some(match parse(val) {
                Some(t) => (sreg[i.parse::<usize>().unwrap()].ser3)(&t),
                None => "badval".into(),
            }),
            ["iterretry", i, spec, val] => Some(match parse(val) {
                Some(t) => (sreg[i.parse::<usize>().unwrap()].iter_retry)(&t, spec),
                None => "badval".into(),
            }),
            // sequences of zero-sized items longer than isize::MAX (they allocate nothing): written as header + length word
            ["zstvec", n] => Some({
                let n: usize = n.parse().unwrap();
                let r = epsh::catch(|| {
                    let v: Vec<()> = vec![(); n];
                    let mut bytes = Vec::new();
                    v.serialize(&mut bytes).map_err(|e| format!("ser {:?}", e))?;
                    let f = <Vec<()>>::deserialize_full(&mut std::io::Cursor::new(&bytes)).map_err(|e| format!("full {:?}", e))?;
                    let mut al = epserde::utils::AlignedCursor::<maligned::A16>::new();
                    std::io::Write::write_all(&mut al, &bytes).unwrap();
                    let e = <Vec<()>>::deserialize_eps(al.as_bytes()).map_err(|e| format!("eps {:?}", e))?;
                    let b: Box<[()]> = vec![(); n].into_boxed_slice();
                    let mut bb = Vec::new();
                    b.serialize(&mut bb).map_err(|e| format!("ser {:?}", e))?;
                    let fb = <Box<[()]>>::deserialize_full(&mut std::io::Cursor::new(&bb)).map_err(|e| format!("full-boxed {:?}", e))?;
                    Ok::<bool, String>(f.len() == n && e.len() == n && fb.len() == n)
                });
                match r { None => "zstvec panic".to_string(), Some(Ok(true)) => "zstvec ok".into(), Some(Ok(false)) => "zstvec differs".into(), Some(Err(s)) => format!("zstvec err {}", s.replace(' ', "_")) }
            }),
            // a file whose header carries minor version 0, read while the process's stderr is unwritable
            ["quietminor", i, val] => Some(match parse(val) {
                Some(t) => match (reg[i.parse::<usize>().unwrap()].ser)(&t) {
                    Ok((_, mut bytes)) => {
                        if bytes.len() >= 12 { bytes[10..12].copy_from_slice(&0u16.to_ne_bytes()); }
                        let e = &reg[i.parse::<usize>().unwrap()];
                        let (f_line, e_line) = unsafe {
                            let saved = libc::dup(2);
                            let full = libc::open(b"/dev/full\0".as_ptr() as *const libc::c_char, libc::O_WRONLY);
                            if full >= 0 { libc::dup2(full, 2); libc::close(full); }
                            let f_line = match e.full { Some(f) => format!("F {}", f(&bytes)), None => "F -".into() };
                            let e_line = match e.eps { Some(f) => format!("E {}", f(&bytes, 0)), None => "E -".into() };
                            if saved >= 0 { libc::dup2(saved, 2); libc::close(saved); }
                            (f_line, e_line)
                        };
                        format!("xdeser | {} | {}", f_line, e_line)
                    }
                    Err(s) => format!("xdeser ser-{}", s),
                },
                None => "badval".into(),
            }),
            ["iter", i, val, a] => Some(match parse(val) {
                Some(t) => (sreg[i.parse::<usize>().unwrap()].iter)(&t, a.parse().unwrap()),
                None => "badval".into(),
            }),
            ["type", i, _] => Some(format!("type {}", i)),
            ["case", i, r, mu, val] => Some(do_case(&reg, i.parse().unwrap(), r.parse().unwrap(), mu, val)),
            ["feed", i] => {
                let (a, b) = (reg[i.parse::<usize>().unwrap()].feed)();
                Some(format!("feed {} {}", hex(&a), hex(&b)))
            }
            ["hash", i] => {
                let (a, b) = (reg[i.parse::<usize>().unwrap()].hash)();
                Some(format!("hash {} {}", a, b))
            }
            ["layout", i] => Some(format!("layout {}", (reg[i.parse::<usize>().unwrap()].layout)())),
            ["schemaat", i, k, val] => Some(match parse(val) {
                Some(t) => format!("schema {}", (reg[i.parse::<usize>().unwrap()].schemaat)(&t, k.parse().unwrap())),
                None => "badval".into(),
            }),
            ["schema", i, val] => Some(match parse(val) {
                Some(t) => format!("schema {}", (reg[i.parse::<usize>().unwrap()].schema)(&t)),
                None => "badval".into(),
            }),
            ["zcc", i] => {
                let (z, m) = (reg[i.parse::<usize>().unwrap()].consts)();
                Some(format!("zcc {} {}", z, m))
            }
            ["dtype", i] => {
                let (a, e, _) = &dnames[i.parse::<usize>().unwrap()];
                Some(format!("dtype {} {}", if a == e { "same" } else { "differs" }, hex(a.as_bytes())))
            }
            ["derive", i, ..] => {
                let (a, _, t) = &dnames[i.parse::<usize>().unwrap()];
                Some(format!("derive {} {}", hex(a.as_bytes()), hex(t.as_bytes())))
            }
            ["xdeser", i, j, val] => Some(match parse(val) {
                Some(t) => match (reg[i.parse::<usize>().unwrap()].ser)(&t) {
                    Ok((_, bytes)) => {
                        let e = &reg[j.parse::<usize>().unwrap()];
                        let f_line = match e.full { Some(f) => format!("F {}", f(&bytes)), None => "F -".into() };
                        let e_line = match e.eps { Some(f) => format!("E {}", f(&bytes, 0)), None => "E -".into() };
                        format!("xdeser | {} | {}", f_line, e_line)
                    }
                    Err(s) => format!("xdeser ser-{}", s),
                },
                None => "badval".into(),
            }),
            // as xdeser, with the minor version in the header (bytes 10..12) replaced: every minor the reader accepts
            // must be checked as strictly as the current one
            ["xdeserm", i, j, minor, val] => Some(match parse(val) {
                Some(t) => match (reg[i.parse::<usize>().unwrap()].ser)(&t) {
                    Ok((_, mut bytes)) => {
                        let m: u16 = minor.parse().unwrap();
                        if bytes.len() >= 12 { bytes[10..12].copy_from_slice(&m.to_ne_bytes()); }
                        let e = &reg[j.parse::<usize>().unwrap()];
                        let f_line = match e.full { Some(f) => format!("F {}", f(&bytes)), None => "F -".into() };
                        let e_line = match e.eps { Some(f) => format!("E {}", f(&bytes, 0)), None => "E -".into() };
                        format!("xdeser | {} | {}", f_line, e_line)
                    }
                    Err(s) => format!("xdeser ser-{}", s),
                },
                None => "badval".into(),
            }),
            ["fromhex", i, r, h] => {
                let e = &reg[i.parse::<usize>().unwrap()];
                let bytes = unhex(h);
                let f_line = match e.full { Some(f) => format!("F {}", f(&bytes)), None => "F -".into() };
                let e_line = match e.eps { Some(f) => format!("E {}", f(&bytes, r.parse().unwrap())), None => "E -".into() };
                Some(format!("fromhex | {} | {}", f_line, e_line))
            }
            ["loadu", i, loader, flags, val] => {
                // the heap region of load_mem is 64-aligned: load 24 times, moving the heap by blocks of varying sizes (kept
                // alive) in between, so that it lands on 128-aligned and on other addresses; report a value with a misaligned
                // reference if there is one, otherwise the last value, otherwise the error
                thread_local! { static KEEP: std::cell::RefCell<Vec<Vec<u8>>> = const { std::cell::RefCell::new(Vec::new()) }; }
                Some(match (parse(val), reg[i.parse::<usize>().unwrap()].load) {
                    (Some(t), Some(f)) => {
                        let mut best: Option<String> = None;
                        for round in 0..(if *loader == "mem" { 24usize } else { 2 }) {
                            KEEP.with(|k| { let mut k = k.borrow_mut(); let n = k.len() + round; k.push(Vec::with_capacity(16 + 48 * (n * n % 23))); });
                            let a = f(&t, loader, flags.parse().unwrap());
                            let bad = a.contains("@!");
                            let ok = a.starts_with("load ok");
                            if bad { best = Some(a); break; }
                            if ok || best.is_none() { best = Some(a); }
                        }
                        best.unwrap()
                    }
                    _ => "badval".into(),
                })
            }
            ["load", i, loader, flags, val] => Some(match (parse(val), reg[i.parse::<usize>().unwrap()].load) {
                (Some(t), Some(f)) => f(&t, loader, flags.parse().unwrap()),
                _ => "badval".into(),
            }),
            ["leak" | "leaku", i, loader, reps, h] => Some(match reg[i.parse::<usize>().unwrap()].leak {
                Some(f) => f(&(if *h == "DIR" { b"<dir>".to_vec() } else if *h == "EMPTY" { Vec::new() } else { unhex(h) }), loader, reps.parse().unwrap()),
                None => "badval".into(),
            }),
            ["bigfile", kind, spec, loader, prefix] => Some(epsh::ops::bigfile(kind, spec, loader, prefix)),
            ["tracked"] => Some(format!("tracked {:?}", epsh::alloc::tracked_blocks())),
            ["bigser", n, sink] => Some(epsh::ops::bigser(n.parse().unwrap(), sink)),
            ["dropcheck", loader, n] => Some(epsh::ops::dropcheck(loader, n.parse().unwrap())),
            ["fload", i, loader, h] => Some(match reg[i.parse::<usize>().unwrap()].fload {
                Some(f) => f(&unhex(h), loader),
                None => "badval".into(),
            }),
            // the file is the serialization of the value without its last `cut` bytes (big files: no hex on the line)
            ["floadc", i, loader, cut, val] => Some(match parse(val) {
                Some(t) => {
                    let e = &reg[i.parse::<usize>().unwrap()];
                    match ((e.ser)(&t), e.fload) {
                        (Ok((_, bytes)), Some(f)) => {
                            let c: usize = cut.parse().unwrap();
                            f(&bytes[..bytes.len().saturating_sub(c)], loader)
                        }
                        _ => "badval".into(),
                    }
                }
                None => "badval".into(),
            }),
            ["alloc", i, r, val] => Some(match (parse(val), reg[i.parse::<usize>().unwrap()].alloc) {
                (Some(t), Some(f)) => f(&t, r.parse().unwrap()),
                _ => "badval".into(),
            }),
            ["wfails", i, spec, val] => Some(match parse(val) {
                Some(t) => (sreg[i.parse::<usize>().unwrap()].wfails)(&t, spec),
                None => "badval".into(),
            }),
            ["wfail", i, spec, val] => Some(match parse(val) {
                Some(t) => (reg[i.parse::<usize>().unwrap()].wfail)(&t, spec),
                None => "badval".into(),
            }),
            ["rchunk", i, pat, k, val] => {
                let e = &reg[i.parse::<usize>().unwrap()];
                Some(match (parse(val), e.rchunk) {
                    (Some(t), Some(f)) => match (e.ser)(&t) {
                        Ok((_, bytes)) => {
                            let (fail_at, eof) = if *k == "-" {
                                (None, false)
                            } else if let Some(x) = k.strip_prefix("eof") {
                                (x.parse().ok(), true)
                            } else {
                                (k.parse().ok(), false)
                            };
                            f(&bytes, pat, fail_at, eof)
                        }
                        Err(s) => format!("rchunk ser-{}", s),
                    },
                    _ => "badval".into(),
                })
            }
            ["cursor", a, ops] => Some(epsh::ops::cursor_op(a, ops)),
            ["xxh", h] => Some(format!("xxh {}", xxhash_rust::xxh3::xxh3_64(&unhex(h)))),
            [""] => None,
            _ => Some("bad-op".into()),
        };
        if let Some(a) = ans {
            writeln!(out, "{}", a).unwrap();
            // flushed per line: if the process aborts, everything answered so far has been delivered
            out.flush().unwrap();
        }
    }
    out.flush().unwrap();
}
