//! Value terms of the line protocol: `123`, `()`, `s"hex"`, `[v,v,]`, `#i(v,v,)`, `{v,v,}`.

#[derive(Debug, Clone, PartialEq)]
pub enum Term {
    Bits(u128),
    Unit,
    Str(Vec<u8>),
    Seq(Vec<Term>),
    Variant(usize, Vec<Term>),
    Record(Vec<Term>),
}

pub fn unhex(s: &str) -> Vec<u8> {
    let b = s.as_bytes();
    let d = |c: u8| -> u8 {
        match c {
            b'0'..=b'9' => c - b'0',
            b'a'..=b'f' => c - b'a' + 10,
            b'A'..=b'F' => c - b'A' + 10,
            _ => 0,
        }
    };
    b.chunks(2).filter(|c| c.len() == 2).map(|c| d(c[0]) * 16 + d(c[1])).collect()
}

pub fn hex(b: &[u8]) -> String {
    let mut s = String::with_capacity(b.len() * 2);
    for x in b {
        s.push_str(&format!("{:02x}", x));
    }
    s
}

struct P<'a> {
    s: &'a [u8],
    i: usize,
}

impl<'a> P<'a> {
    fn peek(&self) -> Option<u8> {
        self.s.get(self.i).copied()
    }
    fn eat(&mut self, c: u8) -> Option<()> {
        if self.peek()? == c {
            self.i += 1;
            Some(())
        } else {
            None
        }
    }
    fn nat(&mut self) -> Option<u128> {
        let st = self.i;
        let mut n: u128 = 0;
        while let Some(c) = self.peek() {
            if c.is_ascii_digit() {
                n = n.checked_mul(10)?.checked_add((c - b'0') as u128)?;
                self.i += 1;
            } else {
                break;
            }
        }
        if self.i == st {
            None
        } else {
            Some(n)
        }
    }
    fn list(&mut self, close: u8) -> Option<Vec<Term>> {
        let mut v = vec![];
        loop {
            if self.peek()? == close {
                self.i += 1;
                return Some(v);
            }
            v.push(self.term()?);
            self.eat(b',')?;
        }
    }
    fn term(&mut self) -> Option<Term> {
        match self.peek()? {
            b'(' => {
                self.i += 1;
                self.eat(b')')?;
                Some(Term::Unit)
            }
            b's' => {
                self.i += 1;
                self.eat(b'"')?;
                let st = self.i;
                while self.peek()? != b'"' {
                    self.i += 1;
                }
                let h = std::str::from_utf8(&self.s[st..self.i]).ok()?;
                self.i += 1;
                Some(Term::Str(unhex(h)))
            }
            b'[' => {
                self.i += 1;
                Some(Term::Seq(self.list(b']')?))
            }
            b'{' => {
                self.i += 1;
                Some(Term::Record(self.list(b'}')?))
            }
            b'#' => {
                self.i += 1;
                let i = self.nat()? as usize;
                self.eat(b'(')?;
                Some(Term::Variant(i, self.list(b')')?))
            }
            _ => Some(Term::Bits(self.nat()?)),
        }
    }
}

pub fn parse(s: &str) -> Option<Term> {
    let mut p = P { s: s.as_bytes(), i: 0 };
    let t = p.term()?;
    if p.i == s.len() {
        Some(t)
    } else {
        None
    }
}
