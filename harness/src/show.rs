//! `Show` (canonical printer, implemented on the ε-copy types themselves, so that the printed
//! line shows which parts of a result are borrowed and where they point) and `FromTerm`.

use crate::term::{hex, Term};
use crate::BASE;
use core::marker::PhantomData;
use core::num::*;
use core::ops::*;

pub trait Show {
    fn show(&self, o: &mut String);
}
pub trait FromTerm: Sized {
    fn from_term(t: &Term) -> Self;
}

fn bits(t: &Term) -> u128 {
    match t {
        Term::Bits(n) => *n,
        _ => panic!("expected bits"),
    }
}
pub fn seq(t: &Term) -> &Vec<Term> {
    match t {
        Term::Seq(v) => v,
        _ => panic!("expected seq"),
    }
}
pub fn record(t: &Term) -> &Vec<Term> {
    match t {
        Term::Record(v) => v,
        _ => panic!("expected record"),
    }
}
pub fn variant(t: &Term) -> (usize, &Vec<Term>) {
    match t {
        Term::Variant(i, v) => (*i, v),
        _ => panic!("expected variant"),
    }
}

/// Offset of a pointer into the current input buffer, or `-` if it does not point into it.
pub fn off_of(p: usize) -> String {
    let (b, l) = BASE.with(|b| b.get());
    if p >= b && p <= b + l {
        format!("{}", p - b)
    } else {
        "-".to_string()
    }
}

macro_rules! int_impl {
    ($($t:ty, $u:ty);*) => {$(
        impl Show for $t { fn show(&self, o: &mut String) { o.push_str(&format!("{}", *self as $u)); } }
        impl FromTerm for $t { fn from_term(t: &Term) -> Self { bits(t) as $u as $t } }
    )*};
}
int_impl!(u8,u8; u16,u16; u32,u32; u64,u64; u128,u128; usize,usize; i8,u8; i16,u16; i32,u32; i64,u64; i128,u128; isize,usize);

macro_rules! nz_impl {
    ($($t:ty, $b:ty, $u:ty);*) => {$(
        impl Show for $t { fn show(&self, o: &mut String) { o.push_str(&format!("{}", self.get() as $u)); } }
        impl FromTerm for $t { fn from_term(t: &Term) -> Self { <$t>::new(bits(t) as $u as $b).unwrap() } }
    )*};
}
nz_impl!(NonZeroU8,u8,u8; NonZeroU16,u16,u16; NonZeroU32,u32,u32; NonZeroU64,u64,u64; NonZeroU128,u128,u128; NonZeroUsize,usize,usize;
         NonZeroI8,i8,u8; NonZeroI16,i16,u16; NonZeroI32,i32,u32; NonZeroI64,i64,u64; NonZeroI128,i128,u128; NonZeroIsize,isize,usize);

impl Show for f32 { fn show(&self, o: &mut String) { o.push_str(&format!("{}", self.to_bits())); } }
impl FromTerm for f32 { fn from_term(t: &Term) -> Self { f32::from_bits(bits(t) as u32) } }
impl Show for f64 { fn show(&self, o: &mut String) { o.push_str(&format!("{}", self.to_bits())); } }
impl FromTerm for f64 { fn from_term(t: &Term) -> Self { f64::from_bits(bits(t) as u64) } }
impl Show for bool { fn show(&self, o: &mut String) { o.push_str(if *self { "1" } else { "0" }); } }
impl FromTerm for bool { fn from_term(t: &Term) -> Self { bits(t) != 0 } }
impl Show for char { fn show(&self, o: &mut String) { o.push_str(&format!("{}", *self as u32)); } }
impl FromTerm for char { fn from_term(t: &Term) -> Self { char::from_u32(bits(t) as u32).unwrap() } }
impl Show for () { fn show(&self, o: &mut String) { o.push_str("()"); } }
impl FromTerm for () { fn from_term(_: &Term) -> Self {} }
impl<T: ?Sized> Show for PhantomData<T> { fn show(&self, o: &mut String) { o.push_str("()"); } }
impl<T: ?Sized> FromTerm for PhantomData<T> { fn from_term(_: &Term) -> Self { PhantomData } }

fn show_str_owned(s: &str, o: &mut String) {
    o.push_str("s\"");
    o.push_str(&hex(s.as_bytes()));
    o.push('"');
}
impl Show for String { fn show(&self, o: &mut String) { show_str_owned(self, o) } }
impl Show for Box<str> { fn show(&self, o: &mut String) { show_str_owned(self, o) } }
impl FromTerm for String {
    fn from_term(t: &Term) -> Self {
        match t { Term::Str(b) => String::from_utf8(b.clone()).unwrap(), _ => panic!("expected str") }
    }
}
impl FromTerm for Box<str> { fn from_term(t: &Term) -> Self { String::from_term(t).into_boxed_str() } }
/// a borrowed string: offset into the input buffer, bytes (which need not be UTF-8)
impl Show for &str {
    fn show(&self, o: &mut String) {
        o.push_str("s@");
        o.push_str(&off_of(self.as_ptr() as usize));
        o.push('"');
        o.push_str(&hex(self.as_bytes()));
        o.push('"');
    }
}

fn show_items<'a, T: Show + 'a>(it: impl Iterator<Item = &'a T>, o: &mut String) {
    o.push('[');
    for x in it {
        x.show(o);
        o.push(',');
    }
    o.push(']');
}
impl<T: Show> Show for Vec<T> { fn show(&self, o: &mut String) { show_items(self.iter(), o) } }
impl<T: Show> Show for Box<[T]> { fn show(&self, o: &mut String) { show_items(self.iter(), o) } }
impl<T: Show, const N: usize> Show for [T; N] { fn show(&self, o: &mut String) { show_items(self.iter(), o) } }
impl<T: FromTerm> FromTerm for Vec<T> { fn from_term(t: &Term) -> Self { seq(t).iter().map(T::from_term).collect() } }
impl<T: FromTerm> FromTerm for Box<[T]> { fn from_term(t: &Term) -> Self { Vec::<T>::from_term(t).into_boxed_slice() } }
impl<T: FromTerm, const N: usize> FromTerm for [T; N] {
    fn from_term(t: &Term) -> Self {
        let v: Vec<T> = Vec::from_term(t);
        match v.try_into() { Ok(a) => a, Err(_) => panic!("array length") }
    }
}
/// a borrowed slice: offset into the input buffer, elements
/// `!` when the pointer is not a multiple of the native alignment of the data it points to
fn misaligned<T>(p: *const T) -> &'static str {
    if (p as usize) % core::mem::align_of::<T>() != 0 { "!" } else { "" }
}

impl<T: Show> Show for &[T] {
    fn show(&self, o: &mut String) {
        o.push('@');
        o.push_str(misaligned(self.as_ptr()));
        o.push_str(&off_of(self.as_ptr() as usize));
        show_items(self.iter(), o);
    }
}
/// a reference to zero-copy data: offset into the input buffer, value
impl<T: Show> Show for &T {
    fn show(&self, o: &mut String) {
        o.push_str("&@");
        o.push_str(misaligned(*self as *const T));
        o.push_str(&off_of(*self as *const T as usize));
        (**self).show(o);
    }
}

macro_rules! tuple_impl {
    ($n:expr; $($i:tt),*) => {
        impl<T: Show> Show for ($(tuple_impl!(@t $i T),)*) {
            fn show(&self, o: &mut String) { o.push('['); $( self.$i.show(o); o.push(','); )* o.push(']'); }
        }
        impl<T: FromTerm> FromTerm for ($(tuple_impl!(@t $i T),)*) {
            fn from_term(t: &Term) -> Self { let v = seq(t); assert_eq!(v.len(), $n); ($(T::from_term(&v[$i]),)*) }
        }
    };
    (@t $i:tt $T:ident) => { $T };
}
tuple_impl!(1; 0);
tuple_impl!(2; 0,1);
tuple_impl!(3; 0,1,2);
tuple_impl!(4; 0,1,2,3);
tuple_impl!(5; 0,1,2,3,4);
tuple_impl!(6; 0,1,2,3,4,5);
tuple_impl!(7; 0,1,2,3,4,5,6);
tuple_impl!(8; 0,1,2,3,4,5,6,7);
tuple_impl!(9; 0,1,2,3,4,5,6,7,8);
tuple_impl!(10; 0,1,2,3,4,5,6,7,8,9);
tuple_impl!(11; 0,1,2,3,4,5,6,7,8,9,10);
tuple_impl!(12; 0,1,2,3,4,5,6,7,8,9,10,11);

fn show_variant(i: usize, fs: &[&dyn Show], o: &mut String) {
    o.push_str(&format!("#{}(", i));
    for f in fs {
        f.show(o);
        o.push(',');
    }
    o.push(')');
}
pub fn show_record(fs: &[&dyn Show], o: &mut String) {
    o.push('{');
    for f in fs {
        f.show(o);
        o.push(',');
    }
    o.push('}');
}
pub fn show_var(i: usize, fs: &[&dyn Show], o: &mut String) {
    show_variant(i, fs, o)
}

impl<T: Show> Show for Option<T> {
    fn show(&self, o: &mut String) {
        match self { None => show_variant(0, &[], o), Some(x) => show_variant(1, &[x], o) }
    }
}
impl<T: FromTerm> FromTerm for Option<T> {
    fn from_term(t: &Term) -> Self {
        match variant(t) { (0, _) => None, (1, v) => Some(T::from_term(&v[0])), _ => panic!("option tag") }
    }
}
impl<T: Show> Show for Bound<T> {
    fn show(&self, o: &mut String) {
        match self {
            Bound::Unbounded => show_variant(0, &[], o),
            Bound::Included(x) => show_variant(1, &[x], o),
            Bound::Excluded(x) => show_variant(2, &[x], o),
        }
    }
}
impl<T: FromTerm> FromTerm for Bound<T> {
    fn from_term(t: &Term) -> Self {
        match variant(t) {
            (0, _) => Bound::Unbounded,
            (1, v) => Bound::Included(T::from_term(&v[0])),
            (2, v) => Bound::Excluded(T::from_term(&v[0])),
            _ => panic!("bound tag"),
        }
    }
}
impl<B: Show, C: Show> Show for ControlFlow<B, C> {
    fn show(&self, o: &mut String) {
        match self {
            ControlFlow::Break(x) => show_variant(0, &[x], o),
            ControlFlow::Continue(x) => show_variant(1, &[x], o),
        }
    }
}
impl<B: FromTerm, C: FromTerm> FromTerm for ControlFlow<B, C> {
    fn from_term(t: &Term) -> Self {
        match variant(t) {
            (0, v) => ControlFlow::Break(B::from_term(&v[0])),
            (1, v) => ControlFlow::Continue(C::from_term(&v[0])),
            _ => panic!("cf tag"),
        }
    }
}

impl<T: Show> Show for Range<T> { fn show(&self, o: &mut String) { show_record(&[&self.start, &self.end], o) } }
impl<T: FromTerm> FromTerm for Range<T> {
    fn from_term(t: &Term) -> Self { let r = record(t); T::from_term(&r[0])..T::from_term(&r[1]) }
}
impl<T: Show> Show for RangeFrom<T> { fn show(&self, o: &mut String) { show_record(&[&self.start], o) } }
impl<T: FromTerm> FromTerm for RangeFrom<T> {
    fn from_term(t: &Term) -> Self { let r = record(t); T::from_term(&r[0]).. }
}
impl<T: Show> Show for RangeInclusive<T> { fn show(&self, o: &mut String) { show_record(&[self.start(), self.end()], o) } }
impl<T: FromTerm> FromTerm for RangeInclusive<T> {
    fn from_term(t: &Term) -> Self { let r = record(t); T::from_term(&r[0])..=T::from_term(&r[1]) }
}
impl<T: Show> Show for RangeTo<T> { fn show(&self, o: &mut String) { show_record(&[&self.end], o) } }
impl<T: FromTerm> FromTerm for RangeTo<T> {
    fn from_term(t: &Term) -> Self { let r = record(t); ..T::from_term(&r[0]) }
}
impl<T: Show> Show for RangeToInclusive<T> { fn show(&self, o: &mut String) { show_record(&[&self.end], o) } }
impl<T: FromTerm> FromTerm for RangeToInclusive<T> {
    fn from_term(t: &Term) -> Self { let r = record(t); ..=T::from_term(&r[0]) }
}
impl Show for RangeFull { fn show(&self, o: &mut String) { o.push_str("{}"); } }
impl FromTerm for RangeFull { fn from_term(_: &Term) -> Self { .. } }
