//! Correspondence harness: runs the real `epserde` crate on the operations of the line protocol
//! and prints canonical answers, which `bin/check` compares with the answers of the Lean model.

#![recursion_limit = "1024"]
pub mod term;
pub mod show;
pub mod alloc;
pub mod ops;

pub use show::{FromTerm, Show};
pub use term::Term;

use epserde::prelude::*;
use std::cell::Cell;

thread_local! {
    /// Address and length of the buffer an ε-copy result borrows from.
    pub static BASE: Cell<(usize, usize)> = const { Cell::new((0, 0)) };
}

/// One registered type: closures running the real code for that type.
pub struct Entry {
    pub rust_name: &'static str,
    /// `core::any::type_name::<T::SerType>()`
    pub ser_type_name: fn() -> String,
    /// value term -> (returned count, bytes written)
    pub ser: fn(&Term) -> Result<(usize, Vec<u8>), String>,
    /// bytes -> canonical result of `deserialize_full`
    pub full: Option<fn(&[u8]) -> String>,
    /// bytes, base residue -> canonical result of `deserialize_eps`
    pub eps: Option<fn(&[u8], usize) -> String>,
    pub feed: fn() -> (Vec<u8>, Vec<u8>),
    pub hash: fn() -> (u64, u64),
    pub layout: fn() -> String,
    /// (`IS_ZERO_COPY`, `ZERO_COPY_MISMATCH`) of the type
    pub consts: fn() -> (bool, bool),
    /// value term -> schema rows and bytes of `serialize_with_schema`, `debug`/`to_csv` outcomes
    pub schema: fn(&Term) -> String,
    /// value term, number of bytes already written -> the same for `serialize_on_field_write` in the middle of a stream
    pub schemaat: fn(&Term, usize) -> String,
    /// value term, loader, flags -> stored file, loaded structure, backing region
    pub load: Option<fn(&Term, &str, u32) -> String>,
    /// bytes of a (corrupted) file, loader, repetitions -> growth of live heap bytes and mappings
    pub leak: Option<fn(&[u8], &str, usize) -> String>,
    /// bytes of a file, loader -> outcome of one load through the file-backed entry point
    pub fload: Option<fn(&[u8], &str) -> String>,
    /// value term, base residue -> allocator calls / bytes during deserialize_eps, and the result
    pub alloc: Option<fn(&Term, usize) -> String>,
    /// value term, writer spec -> result and bytes accepted by a faulty writer
    pub wfail: fn(&Term, &str) -> String,
    /// bytes, fragmentation pattern, failure position, eof-instead-of-error -> result of deserialize_full
    pub rchunk: Option<fn(&[u8], &str, Option<usize>, bool) -> String>,
    pub extra: ops::Extra,
}

pub fn err_string(e: &deser::Error) -> String {
    use deser::Error::*;
    match e {
        ReadError => "err read".into(),
        MagicCookieError(m) => format!("err magic {}", m),
        EndiannessError => "err endianness".into(),
        MajorVersionMismatch(v) => format!("err major {}", v),
        MinorVersionMismatch(v) => format!("err minor {}", v),
        UsizeSizeMismatch(n) => format!("err usize {}", n),
        WrongTypeHash { ser_type_hash, .. } => format!("err typehash {}", ser_type_hash),
        WrongAlignHash { ser_align_hash, .. } => format!("err alignhash {}", ser_align_hash),
        AlignmentError => "err alignment".into(),
        InvalidTag(t) => format!("err tag {}", t),
        FileOpenError(_) => "err fileopen".into(),
        #[allow(unreachable_patterns)]
        other => format!("err other {}", format!("{:?}", other).split(|c: char| !c.is_alphanumeric()).next().unwrap_or("")),
    }
}

pub fn catch<R>(f: impl FnOnce() -> R) -> Option<R> {
    std::panic::catch_unwind(std::panic::AssertUnwindSafe(f)).ok()
}

/// A hasher that records what is fed to it.
#[derive(Default)]
pub struct Rec(pub Vec<u8>);
impl core::hash::Hasher for Rec {
    fn finish(&self) -> u64 {
        0
    }
    fn write(&mut self, b: &[u8]) {
        self.0.extend_from_slice(b)
    }
}

/// A 128-aligned arena; `place(bytes, r)` returns a slice holding `bytes` whose address is `r` modulo 128.
pub struct Arena {
    buf: Vec<u8>,
}
impl Arena {
    /// the arena places a stream `r` bytes after an address that is a multiple of 3 * 32768 (so residue 0 is aligned for
    /// every alignment unit up to 32768 and for the unit 3 of the recorded finding KF-C07-1, whatever the address of the
    /// buffer is in this run, and residue r is r modulo 128 and modulo 3): the model's base is then exactly `r`
    pub const ALIGN: usize = 3 * 32768;
    pub fn new(len: usize) -> Self {
        Arena { buf: vec![0xAA; len + 2 * Self::ALIGN + 512] }
    }
    pub fn place(&mut self, bytes: &[u8], r: usize) -> &[u8] {
        let p = self.buf.as_ptr() as usize;
        let a = Self::ALIGN;
        let start = (a - p % a) % a + a + (r % 128);
        self.buf[start..start + bytes.len()].copy_from_slice(bytes);
        &self.buf[start..start + bytes.len()]
    }
}

pub fn ser_generic<T: Serialize>(v: &T) -> Result<(usize, Vec<u8>), String> {
    let mut out: Vec<u8> = Vec::new();
    match catch(|| v.serialize(&mut out)) {
        None => Err("panic".into()),
        Some(Err(e)) => Err(format!("err {:?}", e)),
        Some(Ok(n)) => Ok((n, out)),
    }
}

pub fn full_generic<T>(bytes: &[u8]) -> String
where
    T: Deserialize + Show,
{
    let mut cur = std::io::Cursor::new(bytes);
    match catch(|| T::deserialize_full(&mut cur)) {
        None => "panic".into(),
        Some(Err(e)) => err_string(&e),
        Some(Ok(v)) => {
            let mut s = String::from("ok ");
            v.show(&mut s);
            s.push_str(&format!(" {}", cur.position()));
            s
        }
    }
}

pub fn eps_generic<T>(bytes: &[u8], r: usize) -> String
where
    T: Deserialize + TypeHash + AlignHash,
    for<'a> DeserType<'a, T>: Show,
{
    let mut arena = Arena::new(bytes.len());
    let slice = arena.place(bytes, r);
    BASE.with(|b| b.set((slice.as_ptr() as usize, slice.len())));
    let res = catch(|| T::deserialize_eps(slice));
    let out = match res {
        None => "panic".into(),
        Some(Err(e)) => err_string(&e),
        Some(Ok(v)) => {
            let mut s = String::from("ok ");
            v.show(&mut s);
            // bytes consumed, observed through the public SliceWithPos
            let consumed = catch(|| {
                let mut sp = deser::SliceWithPos::new(slice);
                deser::check_header::<T>(&mut sp).ok()?;
                T::_deserialize_eps_inner(&mut sp).ok()?;
                Some(sp.pos)
            });
            match consumed {
                Some(Some(n)) => s.push_str(&format!(" {}", n)),
                _ => s.push_str(" ?"),
            }
            s
        }
    };
    out
}

pub fn schema_generic<T: Serialize>(v: &T) -> String {
    let mut out: Vec<u8> = Vec::new();
    match catch(|| v.serialize_with_schema(&mut out)) {
        None => "panic".into(),
        Some(Err(e)) => format!("err {:?}", e),
        Some(Ok(schema)) => {
            let mut s = format!("ok {} ", term::hex(&out));
            for r in schema.0.iter() {
                s.push_str(&format!("{},{},{},{},{};", r.field, r.offset, r.size, r.align, term::hex(r.ty.as_bytes())));
            }
            let csv = catch(|| schema.to_csv()).map(|c| c.lines().count());
            let dbg = catch(|| schema.debug(&out)).map(|c| c.lines().count());
            // a sink that hands its bytes on only when flushed: when the call returns, the whole stream must have arrived
            let mut cf = CommitOnFlush::default();
            let arrived = matches!(catch(|| v.serialize_with_schema(&mut cf).is_ok()), Some(true)) && cf.committed == out && cf.pending.is_empty();
            let mut cf2 = CommitOnFlush::default();
            let arrived2 = matches!(catch(|| v.serialize(&mut cf2).is_ok()), Some(true)) && cf2.committed == out && cf2.pending.is_empty();
            s.push_str(&format!(" csv={:?} debug={:?} flushed={}", csv, dbg, arrived && arrived2));
            s
        }
    }
}

/// A sink that buffers what it is given and hands it on only when flushed.
#[derive(Default)]
pub struct CommitOnFlush {
    pub pending: Vec<u8>,
    pub committed: Vec<u8>,
}
impl std::io::Write for CommitOnFlush {
    fn write(&mut self, buf: &[u8]) -> std::io::Result<usize> {
        self.pending.extend_from_slice(buf);
        Ok(buf.len())
    }
    fn flush(&mut self) -> std::io::Result<()> {
        self.committed.append(&mut self.pending);
        Ok(())
    }
}

/// `serialize_on_field_write` on a position-tracking writer that has already written `k` bytes, plain and through a
/// `SchemaWriter`: both streams (prefix included) must be the same, the rows carry absolute offsets
pub fn schemaat_generic<T: Serialize>(v: &T, k: usize) -> String {
    use epserde::ser::{SchemaWriter, WriteNoStd, WriterWithPos};
    let prefix = vec![0u8; k];
    let mut plain: Vec<u8> = Vec::new();
    let r0 = catch(|| {
        let mut w = WriterWithPos::new(&mut plain);
        w.write_all(&prefix).and_then(|_| v.serialize_on_field_write(&mut w))
    });
    let mut out: Vec<u8> = Vec::new();
    let r1 = catch(|| {
        let mut w = WriterWithPos::new(&mut out);
        w.write_all(&prefix)?;
        let mut sw = SchemaWriter::new(&mut w);
        v.serialize_on_field_write(&mut sw)?;
        Ok::<_, epserde::ser::Error>(sw.schema)
    });
    match (r0, r1) {
        (Some(Ok(())), Some(Ok(schema))) => {
            let mut s = format!("ok {} ", term::hex(&out));
            for r in schema.0.iter() {
                s.push_str(&format!("{},{},{},{},{};", r.field, r.offset, r.size, r.align, term::hex(r.ty.as_bytes())));
            }
            let csv = catch(|| schema.to_csv()).map(|c| c.lines().count());
            let dbg = catch(|| schema.debug(&out)).map(|c| c.lines().count());
            s.push_str(&format!(" csv={:?} debug={:?} same={}", csv, dbg, plain == out));
            s
        }
        (None, _) | (_, None) => "panic".into(),
        _ => "err".into(),
    }
}

pub fn alloc_generic<T>(bytes: &[u8], r: usize) -> String
where
    T: Deserialize + TypeHash + AlignHash,
    for<'a> DeserType<'a, T>: Show,
{
    let mut arena = Arena::new(bytes.len());
    let slice = arena.place(bytes, r);
    BASE.with(|b| b.set((slice.as_ptr() as usize, slice.len())));
    let before = alloc::snapshot();
    let res = catch(|| T::deserialize_eps(slice));
    let after = alloc::snapshot();
    let out = match res {
        None => "panic".to_string(),
        Some(Err(e)) => err_string(&e),
        Some(Ok(v)) => {
            let mut s = String::from("ok ");
            v.show(&mut s);
            s
        }
    };
    format!("alloc {} {} | E {}", after.0 - before.0, after.1 - before.1, out)
}

pub fn feed_generic<T: TypeHash + AlignHash>() -> (Vec<u8>, Vec<u8>) {
    let mut a = Rec::default();
    T::type_hash(&mut a);
    let mut b = Rec::default();
    let mut off = 0usize;
    T::align_hash(&mut b, &mut off);
    (a.0, b.0)
}

pub fn hash_generic<T: TypeHash + AlignHash>() -> (u64, u64) {
    use core::hash::Hasher;
    let mut a = xxh3();
    T::type_hash(&mut a);
    let mut b = xxh3();
    let mut off = 0usize;
    T::align_hash(&mut b, &mut off);
    (a.finish(), b.finish())
}

fn xxh3() -> xxhash_rust::xxh3::Xxh3 {
    xxhash_rust::xxh3::Xxh3::new()
}

/// Registry entry for a deserializable type.
pub fn entry<T>(rust_name: &'static str) -> Entry
where
    T: 'static + Serialize + SerializeInner + Deserialize + FromTerm + Show + TypeHash + AlignHash,
    for<'a> DeserType<'a, T>: Show + Send + Sync,
{
    Entry {
        rust_name,
        ser_type_name: || core::any::type_name::<<T as SerializeInner>::SerType>().to_string(),
        ser: |t| {
            let v = catch(|| T::from_term(t)).ok_or_else(|| "badterm".to_string())?;
            ser_generic(&v)
        },
        full: Some(full_generic::<T>),
        eps: Some(eps_generic::<T>),
        feed: feed_generic::<T>,
        hash: hash_generic::<T>,
        layout: || "deep".to_string(),
        consts: || (<T as SerializeInner>::IS_ZERO_COPY, <T as SerializeInner>::ZERO_COPY_MISMATCH),
        schema: |t| match catch(|| T::from_term(t)) {
            Some(v) => schema_generic(&v),
            None => "badterm".into(),
        },
        schemaat: |t, k| match catch(|| T::from_term(t)) {
            Some(v) => schemaat_generic(&v, k),
            None => "badterm".into(),
        },
        wfail: |t, spec| match catch(|| T::from_term(t)) {
            Some(v) => {
                let before = ser_generic(&v);
                let r = ops::wfail_generic(&v, spec);
                let after = ser_generic(&v);
                format!("{} intact={}", r, before == after)
            }
            None => "badterm".into(),
        },
        rchunk: Some(ops::rchunk_generic::<T>),
        load: Some(|t, loader, flags| match catch(|| T::from_term(t)) {
            Some(v) => ops::load_generic::<T>(&v, loader, flags),
            None => "badterm".into(),
        }),
        leak: Some(ops::leak_generic::<T>),
        fload: Some(ops::fload_generic::<T>),
        alloc: Some(|t, r| match catch(|| T::from_term(t)) {
            Some(v) => match ser_generic(&v) {
                Ok((_, bytes)) => alloc_generic::<T>(&bytes, r),
                Err(e) => format!("alloc ser-{}", e),
            },
            None => "badterm".into(),
        }),
        extra: ops::Extra::new::<T>(),
    }
}

/// Registry entry for a zero-copy type (adds the layout line).
pub fn entry_z<T>(rust_name: &'static str) -> Entry
where
    T: 'static + Serialize + SerializeInner + Deserialize + FromTerm + Show + TypeHash + AlignHash + ZeroCopy,
    for<'a> DeserType<'a, T>: Show + Send + Sync,
{
    let mut e = entry::<T>(rust_name);
    e.layout = || {
        format!(
            "{} {} {}",
            core::mem::size_of::<T>(),
            core::mem::align_of::<T>(),
            T::max_size_of()
        )
    };
    e
}

/// A marker every type implements: lets generated definitions carry a non-trivial trait bound on a
/// parameter (the derive macro copies such bounds onto the parameter's SerType / DeserType).
pub trait Mark {}
impl<T: ?Sized> Mark for T {}
