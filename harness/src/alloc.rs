//! A counting global allocator: bytes and calls requested, live bytes; it can also *protect* one
//! pointer, recording instead of performing a `dealloc` of it (which turns a double free into an
//! observation instead of an abort).

use std::alloc::{GlobalAlloc, Layout, System};
use std::sync::atomic::{AtomicIsize, AtomicUsize, Ordering::SeqCst};

pub struct Counting;

pub static ALLOC_CALLS: AtomicUsize = AtomicUsize::new(0);
pub static ALLOC_BYTES: AtomicUsize = AtomicUsize::new(0);
pub static LIVE_BYTES: AtomicIsize = AtomicIsize::new(0);
pub static PROTECTED: AtomicUsize = AtomicUsize::new(0);
pub static PROTECTED_FREES: AtomicUsize = AtomicUsize::new(0);
pub static ZERO_SIZED_ALLOCS: AtomicUsize = AtomicUsize::new(0);
/// non-zero: freed blocks are overwritten with 0xDD before they are returned to the system allocator
pub static POISON: AtomicUsize = AtomicUsize::new(0);

/// Blocks requested with an alignment of 64 or more are remembered (address, size, alignment) in a small table; a `dealloc`
/// of such a block with another layout is counted (the `GlobalAlloc` contract wants the same layout back).
pub static LAYOUT_MISMATCHES: AtomicUsize = AtomicUsize::new(0);
const SLOTS: usize = 256;
static TRACK_PTR: [AtomicUsize; SLOTS] = [const { AtomicUsize::new(0) }; SLOTS];
static TRACK_SIZE: [AtomicUsize; SLOTS] = [const { AtomicUsize::new(0) }; SLOTS];
static TRACK_ALIGN: [AtomicUsize; SLOTS] = [const { AtomicUsize::new(0) }; SLOTS];
static TRACKED: AtomicUsize = AtomicUsize::new(0);

fn track(p: *mut u8, l: Layout) {
    if p.is_null() || l.align() < 64 || l.size() == 0 {
        return;
    }
    for k in 0..SLOTS {
        if TRACK_PTR[k].compare_exchange(0, p as usize, SeqCst, SeqCst).is_ok() {
            TRACK_SIZE[k].store(l.size(), SeqCst);
            TRACK_ALIGN[k].store(l.align(), SeqCst);
            TRACKED.fetch_add(1, SeqCst);
            return;
        }
    }
}

fn untrack(p: *mut u8, l: Layout) {
    if TRACKED.load(SeqCst) == 0 {
        return;
    }
    for k in 0..SLOTS {
        if TRACK_PTR[k].load(SeqCst) == p as usize {
            if TRACK_SIZE[k].load(SeqCst) != l.size() || TRACK_ALIGN[k].load(SeqCst) != l.align() {
                LAYOUT_MISMATCHES.fetch_add(1, SeqCst);
            }
            TRACK_PTR[k].store(0, SeqCst);
            TRACKED.fetch_sub(1, SeqCst);
            return;
        }
    }
}

unsafe impl GlobalAlloc for Counting {
    unsafe fn alloc(&self, l: Layout) -> *mut u8 {
        ALLOC_CALLS.fetch_add(1, SeqCst);
        ALLOC_BYTES.fetch_add(l.size(), SeqCst);
        LIVE_BYTES.fetch_add(l.size() as isize, SeqCst);
        if l.size() == 0 {
            ZERO_SIZED_ALLOCS.fetch_add(1, SeqCst);
        }
        let p = System.alloc(l);
        track(p, l);
        p
    }
    unsafe fn alloc_zeroed(&self, l: Layout) -> *mut u8 {
        // (zero pages from the system: a vector of gigabytes of zeros is never touched)
        ALLOC_CALLS.fetch_add(1, SeqCst);
        ALLOC_BYTES.fetch_add(l.size(), SeqCst);
        LIVE_BYTES.fetch_add(l.size() as isize, SeqCst);
        if l.size() == 0 {
            ZERO_SIZED_ALLOCS.fetch_add(1, SeqCst);
        }
        let p = System.alloc_zeroed(l);
        track(p, l);
        p
    }
    unsafe fn dealloc(&self, p: *mut u8, l: Layout) {
        if p as usize == PROTECTED.load(SeqCst) && p as usize != 0 {
            PROTECTED_FREES.fetch_add(1, SeqCst);
            return;
        }
        LIVE_BYTES.fetch_sub(l.size() as isize, SeqCst);
        untrack(p, l);
        // poison what is freed: a read after free then sees 0xDD instead of the old contents
        if POISON.load(SeqCst) != 0 {
            core::ptr::write_bytes(p, 0xDD, l.size());
        }
        System.dealloc(p, l)
    }
    unsafe fn realloc(&self, p: *mut u8, l: Layout, new_size: usize) -> *mut u8 {
        ALLOC_CALLS.fetch_add(1, SeqCst);
        ALLOC_BYTES.fetch_add(new_size, SeqCst);
        LIVE_BYTES.fetch_add(new_size as isize - l.size() as isize, SeqCst);
        untrack(p, l);
        let q = System.realloc(p, l, new_size);
        if !q.is_null() {
            track(q, Layout::from_size_align_unchecked(new_size, l.align()));
        } else {
            track(p, l);
        }
        q
    }
}

/// the remembered blocks (size, alignment): for debugging the table itself
pub fn tracked_blocks() -> Vec<(usize, usize)> {
    (0..SLOTS).filter(|k| TRACK_PTR[*k].load(SeqCst) != 0).map(|k| (TRACK_SIZE[k].load(SeqCst), TRACK_ALIGN[k].load(SeqCst))).collect()
}

pub fn snapshot() -> (usize, usize, isize) {
    (ALLOC_CALLS.load(SeqCst), ALLOC_BYTES.load(SeqCst), LIVE_BYTES.load(SeqCst))
}
