//! A counting global allocator: bytes and calls requested, live bytes; it can also *protect* one
//! pointer, recording instead of performing a `dealloc` of it (which turns a double free into an
//! observation instead of an abort).

use std::alloc::{GlobalAlloc, Layout, System};
use std::sync::atomic::{AtomicIsize, AtomicUsize, Ordering::SeqCst};

pub struct Counting;

pub static ALLOC_CALLS: AtomicUsize = AtomicUsize::new(0);
pub static ALLOC_BYTES: AtomicUsize = AtomicUsize::new(0);
pub static LIVE_BYTES: AtomicIsize = AtomicIsize::new(0);
pub static PROTECTED: AtomicUsize = AtomicUsize::new(0);
pub static PROTECTED_FREES: AtomicUsize = AtomicUsize::new(0);
pub static ZERO_SIZED_ALLOCS: AtomicUsize = AtomicUsize::new(0);
/// non-zero: freed blocks are overwritten with 0xDD before they are returned to the system allocator
pub static POISON: AtomicUsize = AtomicUsize::new(0);

unsafe impl GlobalAlloc for Counting {
    unsafe fn alloc(&self, l: Layout) -> *mut u8 {
        ALLOC_CALLS.fetch_add(1, SeqCst);
        ALLOC_BYTES.fetch_add(l.size(), SeqCst);
        LIVE_BYTES.fetch_add(l.size() as isize, SeqCst);
        if l.size() == 0 {
            ZERO_SIZED_ALLOCS.fetch_add(1, SeqCst);
        }
        System.alloc(l)
    }
    unsafe fn dealloc(&self, p: *mut u8, l: Layout) {
        if p as usize == PROTECTED.load(SeqCst) && p as usize != 0 {
            PROTECTED_FREES.fetch_add(1, SeqCst);
            return;
        }
        LIVE_BYTES.fetch_sub(l.size() as isize, SeqCst);
        // poison what is freed: a read after free then sees 0xDD instead of the old contents
        if POISON.load(SeqCst) != 0 {
            core::ptr::write_bytes(p, 0xDD, l.size());
        }
        System.dealloc(p, l)
    }
    unsafe fn realloc(&self, p: *mut u8, l: Layout, new_size: usize) -> *mut u8 {
        ALLOC_CALLS.fetch_add(1, SeqCst);
        ALLOC_BYTES.fetch_add(new_size, SeqCst);
        LIVE_BYTES.fetch_add(new_size as isize - l.size() as isize, SeqCst);
        System.realloc(p, l, new_size)
    }
}

pub fn snapshot() -> (usize, usize, isize) {
    (ALLOC_CALLS.load(SeqCst), ALLOC_BYTES.load(SeqCst), LIVE_BYTES.load(SeqCst))
}
