/-
  Values (untyped, as trees), the typing judgement `wt`, the in-memory representation of
  zero-copy values (`toMem` / `fromMem`), and ε-copy results (`EVal`).
-/
import EpsModel.Ty
namespace Eps

/-- Values. Primitives are bit patterns (floats included, chars as scalar values, bools 0/1);
    `unit` is `()`, `PhantomData`; sequences are vectors, boxed slices, arrays and tuples;
    `variant i fs` is the `i`-th constructor of a sum type (Option: None = 0, Some = 1;
    Bound: Unbounded = 0, Included = 1, Excluded = 2; ControlFlow: Break = 0, Continue = 1;
    derived enums: declaration order); `record` is a struct or a range. -/
inductive Val where
  | bits (n : Nat)
  | unit
  | str (b : B)
  | seq (vs : List Val)
  | variant (i : Nat) (fs : List Val)
  | record (fs : List Val)
  deriving Repr, Inhabited

mutual
def Val.beq : Val → Val → Bool
  | .bits a, .bits b => a == b
  | .unit, .unit => true
  | .str a, .str b => a == b
  | .seq a, .seq b => Val.beqList a b
  | .variant i a, .variant j b => i == j && Val.beqList a b
  | .record a, .record b => Val.beqList a b
  | _, _ => false
def Val.beqList : List Val → List Val → Bool
  | [], [] => true
  | a :: as, b :: bs => Val.beq a b && Val.beqList as bs
  | _, _ => false
end

/-! ### UTF-8 validity (what `String::from_utf8` accepts) -/

def utf8Cont (b : UInt8) : Bool := 0x80 ≤ b && b ≤ 0xBF

/-- Valid UTF-8 per the Unicode standard (Table 3-7), as `core::str::from_utf8` checks it. -/
def validUtf8 : B → Bool
  | [] => true
  | b0 :: rest =>
    if b0 < 0x80 then validUtf8 rest
    else if 0xC2 ≤ b0 && b0 ≤ 0xDF then
      match rest with
      | b1 :: r => utf8Cont b1 && validUtf8 r
      | _ => false
    else if 0xE0 ≤ b0 && b0 ≤ 0xEF then
      match rest with
      | b1 :: b2 :: r =>
        (if b0 == 0xE0 then (0xA0 ≤ b1 && b1 ≤ 0xBF)
         else if b0 == 0xED then (0x80 ≤ b1 && b1 ≤ 0x9F)
         else utf8Cont b1) && utf8Cont b2 && validUtf8 r
      | _ => false
    else if 0xF0 ≤ b0 && b0 ≤ 0xF4 then
      match rest with
      | b1 :: b2 :: b3 :: r =>
        (if b0 == 0xF0 then (0x90 ≤ b1 && b1 ≤ 0xBF)
         else if b0 == 0xF4 then (0x80 ≤ b1 && b1 ≤ 0x8F)
         else utf8Cont b1) && utf8Cont b2 && utf8Cont b3 && validUtf8 r
      | _ => false
    else false

/-- A `char` is a Unicode scalar value. -/
def isScalar (n : Nat) : Bool := n < 0xD800 || (0xE000 ≤ n && n < 0x110000)

/-- Well-typed primitive bit patterns. -/
def Prim.wt (p : Prim) (n : Nat) : Bool :=
  match p with
  | .int k => n < 2 ^ (8 * k.size)
  | .nz k => n < 2 ^ (8 * k.size) && n != 0
  | .f32 => n < 2 ^ 32
  | .f64 => n < 2 ^ 64
  | .bool => n < 2
  | .char => isScalar n
  | .unit => false

mutual
/-- `wt T v`: the value `v` inhabits the type `T`. Sequences obey the invariant of `Vec`
    (at most `isize::MAX` bytes, hence fewer than 2^63 elements or bytes). -/
def Ty.wt : Ty → Val → Bool
  | .prim .unit, .unit => true
  | .prim p, .bits n => p.wt n
  | .phantom _, .unit => true
  | .string, .str b => validUtf8 b && b.length < 2^63
  | .boxStr, .str b => validUtf8 b && b.length < 2^63
  | .vec t, .seq vs => Ty.wtList t vs && vs.length < 2^63 && vs.length * t.sizeOf < 2^63
  | .boxSlice t, .seq vs => Ty.wtList t vs && vs.length < 2^63 && vs.length * t.sizeOf < 2^63
  | .sliceRef t, .seq vs => Ty.wtList t vs && vs.length < 2^63 && vs.length * t.sizeOf < 2^63
  | .serIter t, .seq vs => Ty.wtList t vs && vs.length < 2^63 && vs.length * t.sizeOf < 2^63
  | .array t n, .seq vs => Ty.wtList t vs && vs.length == n
  | .tuple t n, .seq vs => Ty.wtList t vs && vs.length == n
  | .option _, .variant 0 [] => true
  | .option t, .variant 1 [v] => t.wt v
  | .bound _, .variant 0 [] => true
  | .bound t, .variant 1 [v] => t.wt v
  | .bound t, .variant 2 [v] => t.wt v
  | .controlFlow b _, .variant 0 [v] => b.wt v
  | .controlFlow _ c, .variant 1 [v] => c.wt v
  | .range .range t, .record [a, b] => t.wt a && t.wt b
  | .range .incl t, .record [a, b] => t.wt a && t.wt b
  | .range .from t, .record [a] => t.wt a
  | .range .to t, .record [a] => t.wt a
  | .range .toIncl t, .record [a] => t.wt a
  | .rangeFull, .record [] => true
  | .adt m vs, .record fs => !m.isEnum && (match vs with
      | .cons _ fds .nil => Fields.wt fds fs
      | _ => false)
  | .adt m vs, .variant i fs => m.isEnum && Variants.wt vs i fs
  | _, _ => false
def Ty.wtList : Ty → List Val → Bool
  | _, [] => true
  | t, v :: vs => t.wt v && Ty.wtList t vs
def Fields.wt : Fields → List Val → Bool
  | .nil, [] => true
  | .cons _ _ t r, v :: vs => t.wt v && r.wt vs
  | _, _ => false
def Variants.wt : Variants → Nat → List Val → Bool
  | .nil, _, _ => false
  | .cons _ fs _, 0, vals => fs.wt vals
  | .cons _ _ r, i+1, vals => r.wt i vals
end

/-! ### In-memory representation of zero-copy values -/

mutual
/-- The bytes of a zero-copy value in memory (`size_of` bytes; interior padding, whose content the
    format does not define, is written as zero — comparisons with the implementation are masked
    at those positions, see `Ty.memMask`). -/
def Ty.toMem : Ty → Val → B
  | .prim p, .bits n => leBytes p.size n
  | .array t _, .seq vs => Ty.toMemList t vs
  | .tuple t _, .seq vs => Ty.toMemList t vs
  | .range .to t, .record [a] => t.toMem a
  | .range .toIncl t, .record [a] => t.toMem a
  | .adt m vs, .record fs =>
      (match vs with
       | .cons _ fds .nil =>
          let body := Fields.toMem fds fs 0
          body ++ zeros (Ty.sizeOf (.adt m vs) - body.length)
       | _ => [])
  | .adt m vs, .variant i fs =>
      let start := roundUp 4 (Variants.maxAlign vs)
      let body := leBytes 4 i ++ zeros (start - 4) ++ Variants.toMem vs i fs
      body ++ zeros (Ty.sizeOf (.adt m vs) - body.length)
  | _, _ => []
def Ty.toMemList : Ty → List Val → B
  | _, [] => []
  | t, v :: vs => t.toMem v ++ Ty.toMemList t vs
/-- Fields laid out from offset `o` (relative to the start of the struct). -/
def Fields.toMem : Fields → List Val → Nat → B
  | .cons _ _ t r, v :: vs, o =>
      let o' := roundUp o t.alignOf
      zeros (o' - o) ++ t.toMem v ++ r.toMem vs (o' + t.sizeOf)
  | _, _, _ => []
def Variants.toMem : Variants → Nat → List Val → B
  | .nil, _, _ => []
  | .cons _ fs _, 0, vals => fs.toMem vals 0
  | .cons _ _ r, i+1, vals => r.toMem i vals
end

mutual
/-- `true` at the positions of `toMem` that hold data, `false` at interior padding. -/
def Ty.memMask : Ty → Val → List Bool
  | .prim p, .bits _ => List.replicate p.size true
  | .array t _, .seq vs => Ty.memMaskList t vs
  | .tuple t _, .seq vs => Ty.memMaskList t vs
  | .range .to t, .record [a] => t.memMask a
  | .range .toIncl t, .record [a] => t.memMask a
  | .adt m vs, .record fs =>
      (match vs with
       | .cons _ fds .nil =>
          let body := Fields.memMask fds fs 0
          body ++ List.replicate (Ty.sizeOf (.adt m vs) - body.length) false
       | _ => [])
  | .adt m vs, .variant i fs =>
      let start := roundUp 4 (Variants.maxAlign vs)
      let body := List.replicate 4 true ++ List.replicate (start - 4) false ++ Variants.memMask vs i fs
      body ++ List.replicate (Ty.sizeOf (.adt m vs) - body.length) false
  | _, _ => []
def Ty.memMaskList : Ty → List Val → List Bool
  | _, [] => []
  | t, v :: vs => t.memMask v ++ Ty.memMaskList t vs
def Fields.memMask : Fields → List Val → Nat → List Bool
  | .cons _ _ t r, v :: vs, o =>
      let o' := roundUp o t.alignOf
      List.replicate (o' - o) false ++ t.memMask v ++ r.memMask vs (o' + t.sizeOf)
  | _, _, _ => []
def Variants.memMask : Variants → Nat → List Val → List Bool
  | .nil, _, _ => []
  | .cons _ fs _, 0, vals => fs.memMask vals 0
  | .cons _ _ r, i+1, vals => r.memMask i vals
end

mutual
/-- Read a zero-copy value back from `size_of` bytes of memory. No validity check is made, as the
    crate makes none (`bool`, `char`, NonZero and enum tags are reinterpreted as they are). -/
def Ty.fromMem : Ty → B → Val
  | .prim .unit, _ => .unit
  | .prim p, b => .bits (leVal (b.take p.size))
  | .phantom _, _ => .unit
  | .array t n, b => .seq (Ty.fromMemList t n b)
  | .tuple t n, b => .seq (Ty.fromMemList t n b)
  | .range .range t, b => .record [t.fromMem b, t.fromMem (b.drop t.sizeOf)]
  | .range .incl t, b => .record [t.fromMem b, t.fromMem (b.drop t.sizeOf)]
  | .range _ t, b => .record [t.fromMem b]
  | .rangeFull, _ => .record []
  | .adt m vs, b =>
      if m.isEnum then
        let i := leVal (b.take 4)
        .variant i (Variants.fromMem vs i (b.drop (roundUp 4 (Variants.maxAlign vs))))
      else
        (match vs with
         | .cons _ fds .nil => .record (Fields.fromMem fds b 0)
         | _ => .record [])
  | _, _ => .unit
def Ty.fromMemList : Ty → Nat → B → List Val
  | _, 0, _ => []
  | t, n+1, b => t.fromMem b :: Ty.fromMemList t n (b.drop t.sizeOf)
/-- `b` is the memory of the whole struct, `o` the running offset. -/
def Fields.fromMem : Fields → B → Nat → List Val
  | .nil, _, _ => []
  | .cons _ _ t r, b, o =>
      let o' := roundUp o t.alignOf
      t.fromMem (b.drop o') :: r.fromMem b (o' + t.sizeOf)
def Variants.fromMem : Variants → Nat → B → List Val
  | .nil, _, _ => []
  | .cons _ fs _, 0, b => fs.fromMem b 0
  | .cons _ _ r, i+1, b => r.fromMem i b
end

/-! ### ε-copy results -/

/-- Result of ε-copy deserialization: like `Val`, plus borrowed nodes, which carry the *offset
    into the input buffer* of the data they point to, and `full v` for the fields that the derived
    code reads with the full-copy method. -/
inductive EVal where
  | bits (n : Nat)
  | unit
  | seq (vs : List EVal)
  | variant (i : Nat) (fs : List EVal)
  | record (fs : List EVal)
  /-- a fully deserialized (owned) subtree -/
  | full (v : Val)
  /-- `&str` into the buffer -/
  | bStr (off : Nat) (b : B)
  /-- `&[T]` into the buffer -/
  | bSlice (off : Nat) (t : Ty) (vs : List Val)
  /-- `&T` into the buffer -/
  | bRef (off : Nat) (t : Ty) (v : Val)
  /-- `&T` for a zero-sized `T` produced without looking at the buffer (dangling) -/
  | zRef (t : Ty) (v : Val)

mutual
/-- Forget where the data lives: the value an ε-copy result describes. -/
def EVal.erase : EVal → Val
  | .bits n => .bits n
  | .unit => .unit
  | .seq vs => .seq (EVal.eraseList vs)
  | .variant i fs => .variant i (EVal.eraseList fs)
  | .record fs => .record (EVal.eraseList fs)
  | .full v => v
  | .bStr _ b => .str b
  | .bSlice _ _ vs => .seq vs
  | .bRef _ _ v => v
  | .zRef _ v => v
def EVal.eraseList : List EVal → List Val
  | [] => []
  | v :: vs => v.erase :: EVal.eraseList vs
end

/-- A borrowed node of an ε-copy result: offset into the input buffer, length in bytes, alignment
    unit that was checked. -/
structure Borrow where
  off : Nat
  len : Nat
  unit : Nat
  deriving Repr, DecidableEq

mutual
/-- All borrowed nodes of an ε-copy result, in order. -/
def EVal.borrows : EVal → List Borrow
  | .seq vs => EVal.borrowsList vs
  | .variant _ fs => EVal.borrowsList fs
  | .record fs => EVal.borrowsList fs
  | .bStr off b => [⟨off, b.length, 1⟩]
  | .bSlice off t vs => [⟨off, vs.length * t.sizeOf, t.maxSizeOf⟩]
  | .bRef off t _ => [⟨off, t.sizeOf, t.maxSizeOf⟩]
  | _ => []
def EVal.borrowsList : List EVal → List Borrow
  | [] => []
  | v :: vs => v.borrows ++ EVal.borrowsList vs
end

end Eps
