/-
  Padding rows of the schema cover zero bytes of the stream: for every well-typed value, every
  `PADDING` node of the forest recorded while the value is written lies at or after the position
  where the value starts, and the bytes written in its range are all zero.
-/
import EpsModel.Schema
import EpsModel.Lemmas.Read
import EpsModel.Lemmas.Mem
namespace Eps

/-- the `s` bytes of `bytes` from index `i` exist and are zero -/
def zeroAt (bytes : B) (i s : Nat) : Prop := ∀ k, k < s → bytes[i + k]? = some 0

mutual
/-- every padding node of the tree covers zero bytes of `bytes`, the stream written from position `base` -/
def Tree.padsZero (bytes : B) (base : Nat) : Tree → Prop
  | .node o s _ p kids => (p = true → base ≤ o ∧ zeroAt bytes (o - base) s) ∧ Tree.padsZeroL bytes base kids
def Tree.padsZeroL (bytes : B) (base : Nat) : List Tree → Prop
  | [] => True
  | t :: ts => Tree.padsZero bytes base t ∧ Tree.padsZeroL bytes base ts
end

theorem padsZeroL_append (bytes : B) (base : Nat) (x y : List Tree) :
    Tree.padsZeroL bytes base (x ++ y) ↔ Tree.padsZeroL bytes base x ∧ Tree.padsZeroL bytes base y := by
  induction x with
  | nil => simp [Tree.padsZeroL]
  | cons t ts ih => simp only [List.cons_append, Tree.padsZeroL, ih, and_assoc]

theorem lt_of_getElem?_some {l : B} {i : Nat} {x : UInt8} (h : l[i]? = some x) : i < l.length := by
  by_cases hi : i < l.length
  · exact hi
  · rw [List.getElem?_eq_none (by omega)] at h; cases h

theorem zeroAt_embed (sub pre post : B) (j s : Nat) (h : zeroAt sub j s) : zeroAt (pre ++ sub ++ post) (pre.length + j) s := by
  intro k hk
  have hs := h k hk
  have hlt := lt_of_getElem?_some hs
  rw [List.append_assoc, List.getElem?_append_right (by omega)]
  have : pre.length + j + k - pre.length = j + k := by omega
  rw [this, List.getElem?_append_left hlt]
  exact hs

mutual
/-- a forest that is fine for a sub-stream is fine for the stream that contains it -/
theorem Tree.embed (sub pre post : B) (p p' : Nat) (hp : p' = p + pre.length) :
    ∀ t : Tree, Tree.padsZero sub p' t → Tree.padsZero (pre ++ sub ++ post) p t
  | .node o s a pd kids, h => by
      simp only [Tree.padsZero] at h ⊢
      refine ⟨fun hpd => ?_, Tree.embedL sub pre post p p' hp kids h.2⟩
      obtain ⟨hle, hz⟩ := h.1 hpd
      refine ⟨by omega, ?_⟩
      have : o - p = pre.length + (o - p') := by omega
      rw [this]
      exact zeroAt_embed sub pre post _ s hz
theorem Tree.embedL (sub pre post : B) (p p' : Nat) (hp : p' = p + pre.length) :
    ∀ ts : List Tree, Tree.padsZeroL sub p' ts → Tree.padsZeroL (pre ++ sub ++ post) p ts
  | [], _ => by simp [Tree.padsZeroL]
  | t :: ts, h => by
      simp only [Tree.padsZeroL] at h ⊢
      exact ⟨Tree.embed sub pre post p p' hp t h.1, Tree.embedL sub pre post p p' hp ts h.2⟩
end

/-- embedding with nothing after -/
theorem Tree.embedL_pre (sub pre : B) (p : Nat) (ts : List Tree) (h : Tree.padsZeroL sub (p + pre.length) ts) :
    Tree.padsZeroL (pre ++ sub) p ts := by
  have := Tree.embedL sub pre [] p (p + pre.length) rfl ts h
  simpa using this

/-- embedding with nothing before -/
theorem Tree.embedL_post (sub post : B) (p : Nat) (ts : List Tree) (h : Tree.padsZeroL sub p ts) :
    Tree.padsZeroL (sub ++ post) p ts := by
  have := Tree.embedL sub [] post p p (by simp) ts h
  simpa using this

theorem leaf_pads (bytes : B) (base o s a : Nat) : Tree.padsZero bytes base (.node o s a false []) := by
  simp [Tree.padsZero, Tree.padsZeroL]

/-- `align` + `write_bytes`: the padding node covers the zeros written by `align` -/
theorem zeroTrees_pads (pre rest : B) (base pos size u : Nat) (hpos : pos = base + pre.length) :
    Tree.padsZeroL (pre ++ zeros (pad pos u) ++ rest) base (zeroTrees pos size u) := by
  simp only [zeroTrees, padTrees]
  rw [padsZeroL_append]
  refine ⟨?_, by simp [Tree.padsZeroL, leaf_pads]⟩
  split
  · simp only [Tree.padsZeroL, Tree.padsZero, and_true]
    intro _
    refine ⟨by omega, ?_⟩
    have : pos - base = pre.length + 0 := by omega
    rw [this]
    have hz : zeroAt (zeros (pad pos u)) 0 (pad pos u) := by
      intro k hk
      simp [zeros, List.getElem?_replicate, hk]
    exact zeroAt_embed (zeros (pad pos u)) pre rest 0 _ hz
  · simp [Tree.padsZeroL]

theorem zeroTrees_pads0 (rest : B) (pos size u : Nat) :
    Tree.padsZeroL (zeros (pad pos u) ++ rest) pos (zeroTrees pos size u) := by
  have := zeroTrees_pads [] rest pos pos size u (by simp)
  simpa using this

theorem treeW_pads (bytes : B) (base : Nat) (t : Ty) (v : Val) (pos : Nat) :
    Tree.padsZero bytes base (t.treeW v pos) ↔ Tree.padsZeroL bytes base (t.trees v pos) := by
  simp [Ty.treeW, Tree.padsZero]

theorem treesList_pads (t : Ty) (vs : List Val)
    (h : ∀ v ∈ vs, ∀ pos, Tree.padsZeroL (t.enc v pos) pos (t.trees v pos)) (pos : Nat) :
    Tree.padsZeroL (Ty.encList t vs pos) pos (Ty.treesList t vs pos) := by
  induction vs generalizing pos with
  | nil => simp [Ty.treesList, Tree.padsZeroL]
  | cons v vs ih =>
    simp only [Ty.treesList, Ty.encList, Tree.padsZeroL]
    refine ⟨?_, ?_⟩
    · rw [treeW_pads]
      exact Tree.embedL_post _ _ pos _ (h v (by simp) pos)
    · exact Tree.embedL_pre _ _ pos _ (ih (fun w hw => h w (by simp [hw])) _)

/-- a tag / length leaf of `w` bytes, then one written value -/
theorem tag_pads (tag : B) (t : Ty) (x : Val) (pos : Nat)
    (h : Tree.padsZeroL (t.enc x (pos + tag.length)) (pos + tag.length) (t.trees x (pos + tag.length))) :
    Tree.padsZeroL (tag ++ t.enc x (pos + tag.length)) pos [.node pos tag.length 0 false [], t.treeW x (pos + tag.length)] := by
  simp only [Tree.padsZeroL, and_true]
  refine ⟨leaf_pads _ _ _ _ _, ?_⟩
  rw [treeW_pads]
  exact Tree.embedL_pre _ _ pos _ h

/-! Unfolding of the derived-type clauses of `Ty.trees`. -/

theorem Ty.trees_adt_zero_record (m : AdtMeta) (vs : Variants) (fs : List Val) (pos : Nat) (h : m.zero = true) :
    Ty.trees (.adt m vs) (.record fs) pos
      = zeroTrees pos (Ty.toMem (.adt m vs) (.record fs)).length (Ty.maxSizeOf (.adt m vs)) := by
  cases vs with
  | nil => simp [Ty.trees, h]
  | cons n f r => cases r <;> simp [Ty.trees, h]

theorem Ty.trees_adt_zero_variant (m : AdtMeta) (vs : Variants) (i : Nat) (fs : List Val) (pos : Nat) (h : m.zero = true) :
    Ty.trees (.adt m vs) (.variant i fs) pos
      = zeroTrees pos (Ty.toMem (.adt m vs) (.variant i fs)).length (Ty.maxSizeOf (.adt m vs)) := by
  cases vs with
  | nil => simp [Ty.trees, h]
  | cons n f r => cases r <;> simp [Ty.trees, h]

theorem Ty.trees_adt_enum (m : AdtMeta) (vs : Variants) (i : Nat) (fs : List Val) (pos : Nat) (h : m.zero = false) :
    Ty.trees (.adt m vs) (.variant i fs) pos = .node pos 8 0 false [] :: Variants.trees vs i fs (pos + 8) := by
  simp [Ty.trees, h]

/-- a sequence: the length word, then a zero-copy block or the items one by one -/
theorem seq_pads (t : Ty) (vs : List Val) (pos : Nat)
    (h : ∀ v ∈ vs, ∀ p, Tree.padsZeroL (t.enc v p) p (t.trees v p)) :
    Tree.padsZeroL (Ty.encSeq t vs pos) pos (Ty.treesSeq t vs pos) := by
  simp only [Ty.encSeq, Ty.treesSeq]
  split
  · simp only [Tree.padsZeroL]
    refine ⟨leaf_pads _ _ _ _ _, ?_⟩
    exact zeroTrees_pads (leBytes 8 vs.length) _ pos (pos + 8) _ _ (by simp)
  · simp only [Tree.padsZeroL]
    refine ⟨leaf_pads _ _ _ _ _, ?_⟩
    have := treesList_pads t vs h (pos + 8)
    have h8 : (leBytes 8 vs.length).length = 8 := by simp
    exact Tree.embedL_pre _ (leBytes 8 vs.length) pos _ (by rw [h8]; exact this)

mutual
theorem Ty.pads : ∀ (t : Ty) (v : Val), t.wt v = true → ∀ pos, Tree.padsZeroL (t.enc v pos) pos (t.trees v pos)
  | .prim p, v, _, pos => by cases v <;> simp [Ty.trees, Tree.padsZeroL]
  | .phantom _, v, _, pos => by cases v <;> simp [Ty.trees, Tree.padsZeroL]
  | .string, v, hwt, pos => by
      cases v with
      | str b =>
        simp only [Ty.trees, Ty.enc, Tree.padsZeroL]
        refine ⟨leaf_pads _ _ _ _ _, ?_⟩
        have := zeroTrees_pads (leBytes 8 b.length) b pos (pos + 8) b.length 1 (by simp)
        simpa [pad, zeros] using this
      | _ => simp [Ty.wt] at hwt
  | .boxStr, v, hwt, pos => by
      cases v with
      | str b =>
        simp only [Ty.trees, Ty.enc, Tree.padsZeroL]
        refine ⟨leaf_pads _ _ _ _ _, ?_⟩
        have := zeroTrees_pads (leBytes 8 b.length) b pos (pos + 8) b.length 1 (by simp)
        simpa [pad, zeros] using this
      | _ => simp [Ty.wt] at hwt
  | .vec t, v, hwt, pos => by
      cases v with
      | seq vs =>
        simp only [Ty.wt, Bool.and_eq_true] at hwt
        simp only [Ty.trees, Ty.enc]
        exact seq_pads t vs pos (fun x hx p => Ty.pads t x (wtList_mem hwt.1.1 x hx) p)
      | _ => simp [Ty.wt] at hwt
  | .boxSlice t, v, hwt, pos => by
      cases v with
      | seq vs =>
        simp only [Ty.wt, Bool.and_eq_true] at hwt
        simp only [Ty.trees, Ty.enc]
        exact seq_pads t vs pos (fun x hx p => Ty.pads t x (wtList_mem hwt.1.1 x hx) p)
      | _ => simp [Ty.wt] at hwt
  | .sliceRef t, v, hwt, pos => by
      cases v with
      | seq vs =>
        simp only [Ty.wt, Bool.and_eq_true] at hwt
        simp only [Ty.trees, Ty.enc]
        exact seq_pads t vs pos (fun x hx p => Ty.pads t x (wtList_mem hwt.1.1 x hx) p)
      | _ => simp [Ty.wt] at hwt
  | .serIter t, v, hwt, pos => by
      cases v <;> simp [Ty.trees, Tree.padsZeroL]
  | .array t n, v, hwt, pos => by
      cases v with
      | seq vs =>
        simp only [Ty.wt, Bool.and_eq_true] at hwt
        simp only [Ty.trees, Ty.enc]
        split
        · exact zeroTrees_pads0 _ pos _ _
        · exact treesList_pads t vs (fun x hx p => Ty.pads t x (wtList_mem hwt.1 x hx) p) pos
      | _ => simp [Ty.wt] at hwt
  | .tuple t n, v, hwt, pos => by
      cases v with
      | seq vs => simp only [Ty.trees, Ty.enc]; exact zeroTrees_pads0 _ pos _ _
      | _ => simp [Ty.wt] at hwt
  | .option t, v, hwt, pos => by
      cases v with
      | variant i fs =>
        match i, fs, hwt with
        | 0, [], _ => simp [Ty.trees, Tree.padsZeroL, leaf_pads]
        | 1, [x], hwt =>
          simp only [Ty.wt] at hwt
          simp only [Ty.trees, Ty.enc]
          exact tag_pads [1] t x pos (Ty.pads t x hwt (pos + 1))
        | 0, _ :: _, hwt => simp [Ty.wt] at hwt
        | 1, [], hwt => simp [Ty.wt] at hwt
        | 1, _ :: _ :: _, hwt => simp [Ty.wt] at hwt
        | _ + 2, _, hwt => simp [Ty.wt] at hwt
      | _ => simp [Ty.wt] at hwt
  | .bound t, v, hwt, pos => by
      cases v with
      | variant i fs =>
        match i, fs, hwt with
        | 0, [], _ => simp [Ty.trees, Tree.padsZeroL, leaf_pads]
        | 1, [x], hwt =>
          simp only [Ty.wt] at hwt
          simp only [Ty.trees, Ty.enc]
          exact tag_pads [1] t x pos (Ty.pads t x hwt (pos + 1))
        | 2, [x], hwt =>
          simp only [Ty.wt] at hwt
          simp only [Ty.trees, Ty.enc]
          exact tag_pads [2] t x pos (Ty.pads t x hwt (pos + 1))
        | 0, _ :: _, hwt => simp [Ty.wt] at hwt
        | 1, [], hwt => simp [Ty.wt] at hwt
        | 1, _ :: _ :: _, hwt => simp [Ty.wt] at hwt
        | 2, [], hwt => simp [Ty.wt] at hwt
        | 2, _ :: _ :: _, hwt => simp [Ty.wt] at hwt
        | _ + 3, _, hwt => simp [Ty.wt] at hwt
      | _ => simp [Ty.wt] at hwt
  | .controlFlow b c, v, hwt, pos => by
      cases v with
      | variant i fs =>
        match i, fs, hwt with
        | 0, [x], hwt =>
          simp only [Ty.wt] at hwt
          simp only [Ty.trees, Ty.enc]
          exact tag_pads [0] b x pos (Ty.pads b x hwt (pos + 1))
        | 1, [x], hwt =>
          simp only [Ty.wt] at hwt
          simp only [Ty.trees, Ty.enc]
          exact tag_pads [1] c x pos (Ty.pads c x hwt (pos + 1))
        | 0, [], hwt => simp [Ty.wt] at hwt
        | 0, _ :: _ :: _, hwt => simp [Ty.wt] at hwt
        | 1, [], hwt => simp [Ty.wt] at hwt
        | 1, _ :: _ :: _, hwt => simp [Ty.wt] at hwt
        | _ + 2, _, hwt => simp [Ty.wt] at hwt
      | _ => simp [Ty.wt] at hwt
  | .range k t, v, hwt, pos => by
      cases v with
      | record fs =>
        cases k with
        | range =>
          match fs, hwt with
          | [a, b], hwt =>
            simp only [Ty.wt, Bool.and_eq_true] at hwt
            simp only [Ty.trees, Ty.enc, Tree.padsZeroL, and_true]
            refine ⟨?_, ?_⟩
            · rw [treeW_pads]; exact Tree.embedL_post _ _ pos _ (Ty.pads t a hwt.1 pos)
            · rw [treeW_pads]; exact Tree.embedL_pre _ _ pos _ (Ty.pads t b hwt.2 _)
          | [], hwt => simp [Ty.wt] at hwt
          | [_], hwt => simp [Ty.wt] at hwt
          | _ :: _ :: _ :: _, hwt => simp [Ty.wt] at hwt
        | incl =>
          match fs, hwt with
          | [a, b], hwt =>
            simp only [Ty.wt, Bool.and_eq_true] at hwt
            simp only [Ty.trees, Ty.enc, Tree.padsZeroL, and_true]
            refine ⟨?_, ?_, leaf_pads _ _ _ _ _⟩
            · rw [treeW_pads, List.append_assoc]; exact Tree.embedL_post _ _ pos _ (Ty.pads t a hwt.1 pos)
            · rw [treeW_pads]
              have := Tree.embedL (t.enc b (pos + (t.enc a pos).length)) (t.enc a pos) [0] pos (pos + (t.enc a pos).length) rfl _
                (Ty.pads t b hwt.2 _)
              exact this
          | [], hwt => simp [Ty.wt] at hwt
          | [_], hwt => simp [Ty.wt] at hwt
          | _ :: _ :: _ :: _, hwt => simp [Ty.wt] at hwt
        | «from» =>
          match fs, hwt with
          | [a], hwt =>
            simp only [Ty.wt] at hwt
            simp only [Ty.trees, Ty.enc, Tree.padsZeroL, and_true]
            rw [treeW_pads]; exact Ty.pads t a hwt pos
          | [], hwt => simp [Ty.wt] at hwt
          | _ :: _ :: _, hwt => simp [Ty.wt] at hwt
        | to =>
          match fs, hwt with
          | [a], hwt =>
            simp only [Ty.wt] at hwt
            simp only [Ty.trees, Ty.enc, Tree.padsZeroL, and_true]
            rw [treeW_pads]; exact Ty.pads t a hwt pos
          | [], hwt => simp [Ty.wt] at hwt
          | _ :: _ :: _, hwt => simp [Ty.wt] at hwt
        | toIncl =>
          match fs, hwt with
          | [a], hwt =>
            simp only [Ty.wt] at hwt
            simp only [Ty.trees, Ty.enc, Tree.padsZeroL, and_true]
            rw [treeW_pads]; exact Ty.pads t a hwt pos
          | [], hwt => simp [Ty.wt] at hwt
          | _ :: _ :: _, hwt => simp [Ty.wt] at hwt
      | _ => cases k <;> simp [Ty.wt] at hwt
  | .rangeFull, v, _, pos => by cases v <;> simp [Ty.trees, Tree.padsZeroL]
  | .adt m vs, v, hwt, pos => by
      by_cases hz : m.zero = true
      · cases v with
        | record fs =>
          rw [Ty.enc_adt_zero m vs fs pos hz, Ty.trees_adt_zero_record m vs fs pos hz]
          exact zeroTrees_pads0 _ pos _ _
        | variant i fs =>
          rw [Ty.enc_adt_zero_variant m vs i fs pos hz, Ty.trees_adt_zero_variant m vs i fs pos hz]
          exact zeroTrees_pads0 _ pos _ _
        | _ => simp [Ty.wt] at hwt
      · have hzf : m.zero = false := by simpa using hz
        cases v with
        | record fs =>
          match vs, hwt with
          | .cons vn fds .nil, hwt =>
            simp only [Ty.wt, Bool.and_eq_true] at hwt
            simp only [Ty.trees, Ty.enc, hzf, Bool.false_eq_true, if_false]
            exact Fields.pads fds fs hwt.2 pos
          | .nil, hwt => simp [Ty.wt] at hwt
          | .cons _ _ (.cons _ _ _), hwt => simp [Ty.wt] at hwt
        | variant i fs =>
          rw [Ty.wt_adt_variant, Bool.and_eq_true] at hwt
          rw [Ty.enc_adt_enum m vs i fs pos hzf, Ty.trees_adt_enum m vs i fs pos hzf]
          simp only [Tree.padsZeroL]
          refine ⟨leaf_pads _ _ _ _ _, ?_⟩
          have := Variants.pads vs i fs hwt.2 (pos + 8)
          have h8 : (leBytes 8 i).length = 8 := by simp
          have := Tree.embedL_pre (Variants.enc vs i fs (pos + 8)) (leBytes 8 i) pos _ (by rw [h8]; exact this)
          exact this
        | _ => simp [Ty.wt] at hwt
theorem Fields.pads : ∀ (f : Fields) (vs : List Val), f.wt vs = true → ∀ pos, Tree.padsZeroL (f.enc vs pos) pos (f.trees vs pos)
  | .nil, vs, _, pos => by cases vs <;> simp [Fields.trees, Tree.padsZeroL]
  | .cons _ _ t r, [], hwt, pos => by simp [Fields.wt] at hwt
  | .cons _ _ t r, v :: vs, hwt, pos => by
      simp only [Fields.wt, Bool.and_eq_true] at hwt
      simp only [Fields.trees, Fields.enc, Tree.padsZeroL]
      refine ⟨?_, ?_⟩
      · rw [treeW_pads]; exact Tree.embedL_post _ _ pos _ (Ty.pads t v hwt.1 pos)
      · exact Tree.embedL_pre _ _ pos _ (Fields.pads r vs hwt.2 _)
theorem Variants.pads : ∀ (vs : Variants) (i : Nat) (fs : List Val), vs.wt i fs = true → ∀ pos,
    Tree.padsZeroL (vs.enc i fs pos) pos (vs.trees i fs pos)
  | .nil, _, _, hwt, _ => by simp [Variants.wt] at hwt
  | .cons _ f _, 0, fs, hwt, pos => by
      simp only [Variants.wt] at hwt
      simp only [Variants.trees, Variants.enc]; exact Fields.pads f fs hwt pos
  | .cons _ _ r, i+1, fs, hwt, pos => by
      simp only [Variants.wt] at hwt
      simp only [Variants.trees, Variants.enc]; exact Variants.pads r i fs hwt pos
end

end Eps
