/-
  Framing of the ε-copy reader: on what the writer wrote, placed so that every block is on a
  multiple of its unit, it returns a result that describes the value, leaves the rest of the stream
  untouched, advances by exactly the bytes written, and borrows only at the writer's blocks.
-/
import EpsModel.Lemmas.FrameFull
namespace Eps

def Borrow.toBlock (b : Borrow) : Block := ⟨b.off, b.len, b.unit⟩

/-- Statement for one (type, value) pair. -/
def EpsOK (base : Nat) (t : Ty) (v : Val) : Prop :=
  ∀ pos rest, AlignedAll (.slice base) (t.blocks v pos) →
    ∃ e, t.decEps base (t.enc v pos ++ rest) pos = .ok (e, rest, pos + (t.enc v pos).length)
      ∧ e.erase = v ∧ ∀ b ∈ e.borrows, b.toBlock ∈ t.blocks v pos

theorem takeOrPanic_leBytes (w n : Nat) (rest : B) (pos : Nat) :
    takeOrPanic w (leBytes w n ++ rest) pos = .ok (leBytes w n, rest, pos + w) :=
  takeOrPanic_append' w _ rest pos (by simp)

theorem Prim.framedEps (p : Prim) (n : Nat) (h : p.wt n = true) (pos : Nat) (rest : B) :
    p.decEps (leBytes p.size n ++ rest) pos = .ok (.bits n, rest, pos + p.size) := by
  have hlt := Prim.wt_lt h
  have hr := takeOrPanic_leBytes p.size n rest pos
  have hv := leVal_leBytes p.size n hlt
  cases p with
  | int k => simp only [Prim.decEps]; rw [hr]; simp [hv]
  | nz k =>
    simp only [Prim.wt, Bool.and_eq_true, bne_iff_ne, ne_eq] at h
    simp only [Prim.size] at hr hv ⊢
    simp only [Prim.decEps]; rw [hr]; simp [hv, h.2]
  | f32 => simp only [Prim.decEps]; rw [hr]; simp [hv]
  | f64 => simp only [Prim.decEps]; rw [hr]; simp [hv]
  | bool =>
    simp only [Prim.wt, decide_eq_true_eq] at h
    simp only [Prim.size] at hr hv ⊢
    simp only [Prim.decEps]; rw [hr]
    have : n = 0 ∨ n = 1 := by omega
    rcases this with rfl | rfl <;> simp [hv]
  | char =>
    simp only [Prim.wt] at h
    simp only [Prim.size] at hr hv ⊢
    simp only [Prim.decEps]; rw [hr]; simp [hv, h]
  | unit => simp [Prim.wt] at h

theorem decEpsSliceZero_ok (base : Nat) (t : Ty) (vs : List Val) (pos : Nat) (rest : B)
    (hrt : ∀ v ∈ vs, MemRT t v) (hl : vs.length < 2^63) (hb : vs.length * t.sizeOf < 2^63)
    (ha : ModeOK (.slice base) (pos + 8 + pad (pos + 8) t.maxSizeOf) t.maxSizeOf) :
    decEpsSliceZero base t (leBytes 8 vs.length ++ zeros (pad (pos + 8) t.maxSizeOf) ++ Ty.toMemList t vs ++ rest) pos
      = .ok ((pos + 8 + pad (pos + 8) t.maxSizeOf, Ty.toMemList t vs, vs), rest,
             pos + (8 + pad (pos + 8) t.maxSizeOf + (Ty.toMemList t vs).length)) := by
  have hm := fromMemList_toMemList t vs hrt
  simp only [decEpsSliceZero, List.append_assoc]
  rw [readWord_leBytes 8 vs.length _ pos (by omega)]
  simp only [Res.bind_ok]
  have hnot : ¬ (vs.length * t.sizeOf ≥ 2^64) := by omega
  rw [if_neg hnot, alignRead_ok (.slice base) _ _ _ ha]
  simp only [Res.bind_ok]
  rw [takeOrPanic_append' _ (Ty.toMemList t vs) rest _ (hm []).2]
  simp only [Res.bind_ok]
  have := (hm []).1; simp only [List.append_nil] at this
  rw [this, (hm []).2]; simp [Nat.add_assoc]

theorem decEpsZero_ok (base : Nat) (t : Ty) (v : Val) (pos : Nat) (rest : B) (hrt : MemRT t v)
    (ha : ModeOK (.slice base) (pos + pad pos t.maxSizeOf) t.maxSizeOf) :
    ∃ e, decEpsZero base t (zeros (pad pos t.maxSizeOf) ++ t.toMem v ++ rest) pos
        = .ok (e, rest, pos + (pad pos t.maxSizeOf + (t.toMem v).length))
      ∧ e.erase = v ∧ ∀ b ∈ e.borrows, b.toBlock = ⟨pos + pad pos t.maxSizeOf, t.sizeOf, t.maxSizeOf⟩ := by
  simp only [decEpsZero, List.append_assoc]
  rw [alignRead_ok (.slice base) _ _ _ ha]
  simp only [Res.bind_ok]
  by_cases h0 : t.sizeOf = 0
  · have hnil : t.toMem v = [] := List.eq_nil_of_length_eq_zero (by rw [hrt.1, h0])
    have hv := hrt.2 []
    rw [hnil] at hv ⊢
    simp only [List.append_nil] at hv
    refine ⟨.zRef t (t.fromMem []), ?_, ?_, ?_⟩
    · simp [h0]
    · simp [EVal.erase, hv]
    · intro b hb; simp [EVal.borrows] at hb
  · have hne : (t.sizeOf == 0) = false := by simpa using h0
    refine ⟨.bRef (pos + pad pos t.maxSizeOf) t v, ?_, ?_, ?_⟩
    · simp only [hne, Bool.false_eq_true, if_false]
      rw [takeOrPanic_append' _ (t.toMem v) rest _ hrt.1]
      simp only [Res.bind_ok]
      have := hrt.2 []; simp only [List.append_nil] at this
      rw [this, hrt.1]; simp [Nat.add_assoc]
    · simp [EVal.erase]
    · intro b hb
      simp only [EVal.borrows, List.mem_singleton] at hb
      subst hb; rfl

/-- A loop of ε-copy reads over the elements the writer wrote one after the other. -/
theorem decMany_eps (base : Nat) (t : Ty) (vs : List Val) (h : ∀ v ∈ vs, EpsOK base t v)
    (pos : Nat) (rest : B) (ha : AlignedAll (.slice base) (Ty.blocksList t vs pos)) :
    ∃ es, decMany (t.decEps base) vs.length (Ty.encList t vs pos ++ rest) pos
        = .ok (es, rest, pos + (Ty.encList t vs pos).length)
      ∧ EVal.eraseList es = vs ∧ ∀ b ∈ EVal.borrowsList es, b.toBlock ∈ Ty.blocksList t vs pos := by
  induction vs generalizing pos with
  | nil => exact ⟨[], by simp [decMany, Ty.encList], rfl, by simp [EVal.borrowsList]⟩
  | cons v vs ih =>
    simp only [Ty.blocksList, AlignedAll_append] at ha
    obtain ⟨e, he, her, heb⟩ := h v (by simp) pos (Ty.encList t vs (pos + (t.enc v pos).length) ++ rest) ha.1
    obtain ⟨es, hes, hesr, hesb⟩ := ih (fun w hw => h w (by simp [hw])) _ ha.2
    refine ⟨e :: es, ?_, ?_, ?_⟩
    · simp only [List.length_cons, decMany, Ty.encList, List.append_assoc]
      rw [he]; simp only [Res.bind_ok]
      rw [hes]; simp [Nat.add_assoc]
    · simp [EVal.eraseList, her, hesr]
    · intro b hb
      simp only [EVal.borrowsList, List.mem_append] at hb
      simp only [Ty.blocksList, List.mem_append]
      rcases hb with hb | hb
      · exact Or.inl (heb b hb)
      · exact Or.inr (hesb b hb)

end Eps
