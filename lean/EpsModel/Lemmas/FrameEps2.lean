/-
  The ε-copy framing theorem, by mutual structural induction on the type universe.
-/
import EpsModel.Lemmas.FrameEps
namespace Eps

theorem Ty.decEps_adt_zero (base : Nat) (m : AdtMeta) (vs : Variants) (d : B) (pos : Nat) (h : m.zero = true) :
    Ty.decEps base (.adt m vs) d pos = decEpsZero base (.adt m vs) d pos := by
  cases vs with
  | nil => simp [Ty.decEps, h]
  | cons n f r => cases r <;> simp [Ty.decEps, h]

theorem Ty.decEps_adt_enum (base : Nat) (m : AdtMeta) (vs : Variants) (d : B) (pos : Nat)
    (h : m.zero = false) (he : m.isEnum = true) :
    Ty.decEps base (.adt m vs) d pos
      = (readWord 8 d pos).bind fun (tag, d, pos) => Variants.decEps base vs tag tag d pos := by
  cases vs with
  | nil => simp [Ty.decEps, h, he]
  | cons n f r => cases r <;> simp [Ty.decEps, h, he]

/-- sum types with a one-byte tag and one payload: shared step -/
theorem sum_step (base : Nat) (t : Ty) (x : Val) (tag : UInt8) (i : Nat) (pos : Nat) (rest : B)
    (ih : EpsOK base t x) (ha : AlignedAll (.slice base) (t.blocks x (pos + 1)))
    (k : EVal → RRes EVal)
    (hk : ∀ e d p, k e = .ok (.variant i [e], d, p) → True) :
    ∃ e, (t.decEps base (t.enc x (pos + 1) ++ rest) (pos + 1)).bind
          (fun (r : EVal × B × Nat) => (.ok (EVal.variant i [r.1], r.2.1, r.2.2) : RRes EVal))
        = .ok (e, rest, pos + (1 + (t.enc x (pos + 1)).length))
      ∧ e.erase = .variant i [x] ∧ ∀ b ∈ e.borrows, b.toBlock ∈ t.blocks x (pos + 1) := by
  obtain ⟨e, he, her, heb⟩ := ih (pos + 1) rest ha
  refine ⟨.variant i [e], ?_, ?_, ?_⟩
  · rw [he]; simp [Nat.add_assoc]
  · simp [EVal.erase, EVal.eraseList, her]
  · intro b hb
    simp only [EVal.borrows, EVal.borrowsList, List.append_nil] at hb
    exact heb b hb

mutual
theorem Ty.framedEps (base : Nat) : ∀ (t : Ty), t.wf = true → ∀ v, t.wt v = true → EpsOK base t v
  | .prim p, _ => by
      intro v hwt pos rest _
      cases v with
      | bits n =>
        have h : p.wt n = true := by simpa [Ty.wt] using hwt
        refine ⟨.bits n, ?_, rfl, by simp [EVal.borrows]⟩
        simp only [Ty.enc, Ty.decEps, leBytes_length]
        rw [Prim.framedEps p n h pos rest]; simp
      | unit =>
        cases p <;> simp [Ty.wt] at hwt
        exact ⟨.unit, by simp [Ty.enc, Ty.decEps, Prim.decEps], rfl, by simp [EVal.borrows]⟩
      | _ => cases p <;> simp [Ty.wt] at hwt
  | .phantom _, _ => by
      intro v hwt pos rest _
      cases v with
      | unit => exact ⟨.unit, by simp [Ty.enc, Ty.decEps], rfl, by simp [EVal.borrows]⟩
      | _ => simp [Ty.wt] at hwt
  | .string, _ => by
      intro v hwt pos rest ha
      cases v with
      | str b =>
        simp only [Ty.wt, Bool.and_eq_true, decide_eq_true_eq] at hwt
        have hrt : ∀ v ∈ b.map (fun x => Val.bits x.toNat), MemRT (.prim (.int .u8)) v := by
          intro v hv
          obtain ⟨x, _, rfl⟩ := List.mem_map.mp hv
          exact Ty.memRT (.prim (.int .u8)) (by simp [Ty.isZC]) (by simp [Ty.wf]) _ (by
            simp [Ty.wt, Prim.wt, IntK.size]; exact x.toNat_lt)
        refine ⟨.bStr (pos + 8) b, ?_, by simp [EVal.erase], ?_⟩
        · simp only [Ty.enc, Ty.decEps, decEpsSliceZero, List.append_assoc]
          rw [readWord_leBytes 8 b.length _ pos (by omega)]
          simp only [Res.bind_ok, Ty.sizeOf, Prim.size, IntK.size, Nat.mul_one, Ty.maxSizeOf]
          have hnot : ¬ (b.length ≥ 2^64) := by omega
          rw [if_neg hnot]
          have hpad : pad (pos + 8) (Nat.max 1 1) = 0 := by simp [pad]
          have := alignRead_ok (.slice base) (Nat.max 1 1) (pos + 8) (b ++ rest) (by simp [ModeOK, Nat.mod_one])
          rw [hpad] at this
          simp only [zeros, List.replicate, List.nil_append, Nat.add_zero] at this
          rw [this]
          simp only [Res.bind_ok]
          rw [takeOrPanic_append' b.length b rest _ rfl]
          simp [Nat.add_assoc]
        · intro x hx
          simp only [EVal.borrows, List.mem_singleton] at hx
          subst hx
          simp [Borrow.toBlock, Ty.blocks]
      | _ => simp [Ty.wt] at hwt
  | .boxStr, _ => by
      intro v hwt pos rest ha
      cases v with
      | str b =>
        simp only [Ty.wt, Bool.and_eq_true, decide_eq_true_eq] at hwt
        refine ⟨.bStr (pos + 8) b, ?_, by simp [EVal.erase], ?_⟩
        · simp only [Ty.enc, Ty.decEps, decEpsSliceZero, List.append_assoc]
          rw [readWord_leBytes 8 b.length _ pos (by omega)]
          simp only [Res.bind_ok, Ty.sizeOf, Prim.size, IntK.size, Nat.mul_one, Ty.maxSizeOf]
          have hnot : ¬ (b.length ≥ 2^64) := by omega
          rw [if_neg hnot]
          have hpad : pad (pos + 8) (Nat.max 1 1) = 0 := by simp [pad]
          have := alignRead_ok (.slice base) (Nat.max 1 1) (pos + 8) (b ++ rest) (by simp [ModeOK, Nat.mod_one])
          rw [hpad] at this
          simp only [zeros, List.replicate, List.nil_append, Nat.add_zero] at this
          rw [this]
          simp only [Res.bind_ok]
          rw [takeOrPanic_append' b.length b rest _ rfl]
          simp [Nat.add_assoc]
        · intro x hx
          simp only [EVal.borrows, List.mem_singleton] at hx
          subst hx
          simp [Borrow.toBlock, Ty.blocks]
      | _ => simp [Ty.wt] at hwt
  | .vec t, hw => by
      intro v hwt pos rest ha
      simp only [Ty.wf, Bool.and_eq_true] at hw
      cases v with
      | seq vs =>
        simp only [Ty.wt, Bool.and_eq_true, decide_eq_true_eq] at hwt
        simp only [Ty.enc, Ty.encSeq, Ty.decEps, Ty.blocks, Ty.blocksSeq] at ha ⊢
        by_cases hz : t.isZC = true
        · simp only [hz, if_true] at ha ⊢
          have hrt : ∀ v ∈ vs, MemRT t v := fun v hv => Ty.memRT t hz hw.1 v (wtList_mem hwt.1.1 v hv)
          refine ⟨.bSlice (pos + 8 + pad (pos + 8) t.maxSizeOf) t vs, ?_, by simp [EVal.erase], ?_⟩
          · rw [decEpsSliceZero_ok base t vs pos rest hrt hwt.1.2 hwt.2 (AlignedAll_single ha)]
            simp [Nat.add_assoc]
          · intro x hx
            simp only [EVal.borrows, List.mem_singleton] at hx
            subst hx
            simp [Borrow.toBlock, (fromMemList_toMemList t vs hrt []).2]
        · simp only [hz, if_false, Bool.false_eq_true, List.append_assoc] at ha ⊢
          rw [readWord_leBytes 8 vs.length _ pos (by omega)]
          simp only [Res.bind_ok]
          obtain ⟨es, hes, her, heb⟩ := decMany_eps base t vs
            (fun v hv => Ty.framedEps base t hw.1 v (wtList_mem hwt.1.1 v hv)) (pos + 8) rest ha
          refine ⟨.seq es, ?_, by simp [EVal.erase, her], ?_⟩
          · rw [hes]; simp [Nat.add_assoc]
          · intro b hb; simp only [EVal.borrows] at hb; exact heb b hb
      | _ => simp [Ty.wt] at hwt
  | .boxSlice t, hw => by
      intro v hwt pos rest ha
      simp only [Ty.wf, Bool.and_eq_true] at hw
      cases v with
      | seq vs =>
        simp only [Ty.wt, Bool.and_eq_true, decide_eq_true_eq] at hwt
        simp only [Ty.enc, Ty.encSeq, Ty.decEps, Ty.blocks, Ty.blocksSeq] at ha ⊢
        by_cases hz : t.isZC = true
        · simp only [hz, if_true] at ha ⊢
          have hrt : ∀ v ∈ vs, MemRT t v := fun v hv => Ty.memRT t hz hw.1 v (wtList_mem hwt.1.1 v hv)
          refine ⟨.bSlice (pos + 8 + pad (pos + 8) t.maxSizeOf) t vs, ?_, by simp [EVal.erase], ?_⟩
          · rw [decEpsSliceZero_ok base t vs pos rest hrt hwt.1.2 hwt.2 (AlignedAll_single ha)]
            simp [Nat.add_assoc]
          · intro x hx
            simp only [EVal.borrows, List.mem_singleton] at hx
            subst hx
            simp [Borrow.toBlock, (fromMemList_toMemList t vs hrt []).2]
        · simp only [hz, if_false, Bool.false_eq_true, List.append_assoc] at ha ⊢
          rw [readWord_leBytes 8 vs.length _ pos (by omega)]
          simp only [Res.bind_ok]
          obtain ⟨es, hes, her, heb⟩ := decMany_eps base t vs
            (fun v hv => Ty.framedEps base t hw.1 v (wtList_mem hwt.1.1 v hv)) (pos + 8) rest ha
          refine ⟨.seq es, ?_, by simp [EVal.erase, her], ?_⟩
          · rw [hes]; simp [Nat.add_assoc]
          · intro b hb; simp only [EVal.borrows] at hb; exact heb b hb
      | _ => simp [Ty.wt] at hwt
  | .array t n, hw => by
      intro v hwt pos rest ha
      have hw' := hw
      simp only [Ty.wf, Bool.and_eq_true] at hw
      cases v with
      | seq vs =>
        have hwt' := hwt
        simp only [Ty.wt, Bool.and_eq_true, beq_iff_eq] at hwt
        simp only [Ty.enc, Ty.decEps, Ty.blocks] at ha ⊢
        by_cases hz : t.isZC = true
        · simp only [hz, if_true] at ha ⊢
          have hrt : ∀ v ∈ vs, MemRT t v := fun v hv => Ty.memRT t hz hw.1 v (wtList_mem hwt.1 v hv)
          have hm := fromMemList_toMemList t vs hrt
          refine ⟨.bRef (pos + pad pos t.maxSizeOf) (.array t n) (.seq vs), ?_, by simp [EVal.erase], ?_⟩
          · simp only [List.append_assoc]
            rw [alignRead_ok (.slice base) _ _ _ (AlignedAll_single ha)]
            simp only [Res.bind_ok]
            rw [takeOrPanic_append' _ (Ty.toMemList t vs) rest _ (by rw [(hm []).2, hwt.2])]
            simp only [Res.bind_ok]
            have := (hm []).1; simp only [List.append_nil] at this
            rw [← hwt.2, this]; simp [Nat.add_assoc, (hm []).2]
          · intro x hx
            simp only [EVal.borrows, List.mem_singleton] at hx
            subst hx
            simp [Borrow.toBlock, Ty.sizeOf, Ty.maxSizeOf, (hm []).2, hwt.2]
        · simp only [hz, if_false, Bool.false_eq_true] at ha ⊢
          obtain ⟨es, hes, her, heb⟩ := decMany_eps base t vs
            (fun v hv => Ty.framedEps base t hw.1 v (wtList_mem hwt.1 v hv)) pos rest ha
          refine ⟨.seq es, ?_, by simp [EVal.erase, her], ?_⟩
          · rw [← hwt.2, hes]; simp
          · intro b hb; simp only [EVal.borrows] at hb; exact heb b hb
      | _ => simp [Ty.wt] at hwt
  | .tuple t n, hw => by
      intro v hwt pos rest ha
      cases v with
      | seq vs =>
        simp only [Ty.enc, Ty.decEps, Ty.blocks] at ha ⊢
        have hz : (Ty.tuple t n).isZC = true := by
          simp only [Ty.wf, Bool.and_eq_true] at hw
          simp [Ty.isZC, hw.1.1.2, hw.1.2, hw.2]
        have hrt := Ty.memRT (.tuple t n) hz hw (.seq vs) hwt
        obtain ⟨e, he, her, heb⟩ := decEpsZero_ok base (.tuple t n) (.seq vs) pos rest hrt (by
          have := AlignedAll_single ha; simpa [Ty.maxSizeOf] using this)
        simp only [Ty.maxSizeOf, Ty.toMem] at he
        refine ⟨e, ?_, her, ?_⟩
        · rw [he]; simp
        · intro b hb
          have := heb b hb
          rw [this]
          have hl := hrt.1
          simp only [Ty.toMem] at hl
          simp [Ty.maxSizeOf, hl]
      | _ => simp [Ty.wt] at hwt
  | .option t, hw => by
      intro v hwt pos rest ha
      simp only [Ty.wf] at hw
      cases v with
      | variant i fs =>
        match i, fs, hwt, ha with
        | 0, [], _, _ =>
          refine ⟨.variant 0 [], ?_, by simp [EVal.erase, EVal.eraseList], by simp [EVal.borrows, EVal.borrowsList]⟩
          simp only [Ty.enc, Ty.decEps, List.cons_append, List.nil_append]
          rw [readWord_byte]; simp
        | 1, [x], hwt, ha =>
          simp only [Ty.wt] at hwt
          simp only [Ty.blocks] at ha
          obtain ⟨e, he, her, heb⟩ := Ty.framedEps base t hw x hwt (pos + 1) rest ha
          refine ⟨.variant 1 [e], ?_, by simp [EVal.erase, EVal.eraseList, her], ?_⟩
          · simp only [Ty.enc, Ty.decEps, List.cons_append]
            rw [readWord_byte]
            simp only [Res.bind_ok, UInt8.toNat_one]
            rw [he]; simp [Nat.add_assoc, Nat.add_comm]
          · intro b hb
            simp only [EVal.borrows, EVal.borrowsList, List.append_nil] at hb
            simp only [Ty.blocks]; exact heb b hb
        | 0, _ :: _, hwt, _ => simp [Ty.wt] at hwt
        | 1, [], hwt, _ => simp [Ty.wt] at hwt
        | 1, _ :: _ :: _, hwt, _ => simp [Ty.wt] at hwt
        | _ + 2, _, hwt, _ => simp [Ty.wt] at hwt
      | _ => simp [Ty.wt] at hwt
  | .bound t, hw => by
      intro v hwt pos rest ha
      simp only [Ty.wf] at hw
      cases v with
      | variant i fs =>
        match i, fs, hwt, ha with
        | 0, [], _, _ =>
          refine ⟨.variant 0 [], ?_, by simp [EVal.erase, EVal.eraseList], by simp [EVal.borrows, EVal.borrowsList]⟩
          simp only [Ty.enc, Ty.decEps, List.cons_append, List.nil_append]
          rw [readWord_byte]; simp
        | 1, [x], hwt, ha =>
          simp only [Ty.wt] at hwt
          simp only [Ty.blocks] at ha
          obtain ⟨e, he, her, heb⟩ := Ty.framedEps base t hw x hwt (pos + 1) rest ha
          refine ⟨.variant 1 [e], ?_, by simp [EVal.erase, EVal.eraseList, her], ?_⟩
          · simp only [Ty.enc, Ty.decEps, List.cons_append]
            rw [readWord_byte]
            simp only [Res.bind_ok, UInt8.toNat_one]
            rw [he]; simp [Nat.add_assoc, Nat.add_comm]
          · intro b hb
            simp only [EVal.borrows, EVal.borrowsList, List.append_nil] at hb
            simp only [Ty.blocks]; exact heb b hb
        | 2, [x], hwt, ha =>
          simp only [Ty.wt] at hwt
          simp only [Ty.blocks] at ha
          obtain ⟨e, he, her, heb⟩ := Ty.framedEps base t hw x hwt (pos + 1) rest ha
          refine ⟨.variant 2 [e], ?_, by simp [EVal.erase, EVal.eraseList, her], ?_⟩
          · simp only [Ty.enc, Ty.decEps, List.cons_append]
            rw [readWord_byte]
            simp only [Res.bind_ok, UInt8.toNat_ofNat]
            rw [he]; simp [Nat.add_assoc, Nat.add_comm]
          · intro b hb
            simp only [EVal.borrows, EVal.borrowsList, List.append_nil] at hb
            simp only [Ty.blocks]; exact heb b hb
        | 0, _ :: _, hwt, _ => simp [Ty.wt] at hwt
        | 1, [], hwt, _ => simp [Ty.wt] at hwt
        | 1, _ :: _ :: _, hwt, _ => simp [Ty.wt] at hwt
        | 2, [], hwt, _ => simp [Ty.wt] at hwt
        | 2, _ :: _ :: _, hwt, _ => simp [Ty.wt] at hwt
        | _ + 3, _, hwt, _ => simp [Ty.wt] at hwt
      | _ => simp [Ty.wt] at hwt
  | .controlFlow b c, hw => by
      intro v hwt pos rest ha
      simp only [Ty.wf, Bool.and_eq_true] at hw
      cases v with
      | variant i fs =>
        match i, fs, hwt, ha with
        | 0, [x], hwt, ha =>
          simp only [Ty.wt] at hwt
          simp only [Ty.blocks] at ha
          obtain ⟨e, he, her, heb⟩ := Ty.framedEps base b hw.1 x hwt (pos + 1) rest ha
          refine ⟨.variant 0 [e], ?_, by simp [EVal.erase, EVal.eraseList, her], ?_⟩
          · simp only [Ty.enc, Ty.decEps, List.cons_append]
            rw [readWord_byte]
            simp only [Res.bind_ok, UInt8.toNat_zero]
            rw [he]; simp [Nat.add_assoc, Nat.add_comm]
          · intro b hb
            simp only [EVal.borrows, EVal.borrowsList, List.append_nil] at hb
            simp only [Ty.blocks]; exact heb b hb
        | 1, [x], hwt, ha =>
          simp only [Ty.wt] at hwt
          simp only [Ty.blocks] at ha
          obtain ⟨e, he, her, heb⟩ := Ty.framedEps base c hw.2 x hwt (pos + 1) rest ha
          refine ⟨.variant 1 [e], ?_, by simp [EVal.erase, EVal.eraseList, her], ?_⟩
          · simp only [Ty.enc, Ty.decEps, List.cons_append]
            rw [readWord_byte]
            simp only [Res.bind_ok, UInt8.toNat_one]
            rw [he]; simp [Nat.add_assoc, Nat.add_comm]
          · intro b hb
            simp only [EVal.borrows, EVal.borrowsList, List.append_nil] at hb
            simp only [Ty.blocks]; exact heb b hb
        | 0, [], hwt, _ => simp [Ty.wt] at hwt
        | 0, _ :: _ :: _, hwt, _ => simp [Ty.wt] at hwt
        | 1, [], hwt, _ => simp [Ty.wt] at hwt
        | 1, _ :: _ :: _, hwt, _ => simp [Ty.wt] at hwt
        | _ + 2, _, hwt, _ => simp [Ty.wt] at hwt
      | _ => simp [Ty.wt] at hwt
  | .range k t, hw => by
      intro v hwt pos rest ha
      simp only [Ty.wf, Bool.and_eq_true] at hw
      have ih := Ty.framedEps base t hw.1.1.1
      cases v with
      | record fs =>
        cases k with
        | range =>
          match fs, hwt, ha with
          | [a, b], hwt, ha =>
            simp only [Ty.wt, Bool.and_eq_true] at hwt
            simp only [Ty.blocks, AlignedAll_append] at ha
            obtain ⟨e1, h1, r1, b1⟩ := ih a hwt.1 pos (t.enc b (pos + (t.enc a pos).length) ++ rest) ha.1
            obtain ⟨e2, h2, r2, b2⟩ := ih b hwt.2 _ rest ha.2
            refine ⟨.record [e1, e2], ?_, by simp [EVal.erase, EVal.eraseList, r1, r2], ?_⟩
            · simp only [Ty.enc, Ty.decEps, List.append_assoc]
              rw [h1]; simp only [Res.bind_ok]
              rw [h2]; simp [Nat.add_assoc]
            · intro x hx
              simp only [EVal.borrows, EVal.borrowsList, List.append_nil, List.mem_append] at hx
              simp only [Ty.blocks, List.mem_append]
              rcases hx with hx | hx
              · exact Or.inl (b1 x hx)
              · exact Or.inr (b2 x hx)
          | [], hwt, _ => simp [Ty.wt] at hwt
          | [_], hwt, _ => simp [Ty.wt] at hwt
          | _ :: _ :: _ :: _, hwt, _ => simp [Ty.wt] at hwt
        | incl =>
          match fs, hwt, ha with
          | [a, b], hwt, ha =>
            simp only [Ty.wt, Bool.and_eq_true] at hwt
            simp only [Ty.blocks, AlignedAll_append] at ha
            obtain ⟨e1, h1, r1, b1⟩ := ih a hwt.1 pos (t.enc b (pos + (t.enc a pos).length) ++ ([0] ++ rest)) ha.1
            obtain ⟨e2, h2, r2, b2⟩ := ih b hwt.2 _ ([0] ++ rest) ha.2
            refine ⟨.record [e1, e2], ?_, by simp [EVal.erase, EVal.eraseList, r1, r2], ?_⟩
            · simp only [Ty.enc, Ty.decEps, List.append_assoc]
              rw [h1]; simp only [Res.bind_ok]
              rw [h2]; simp only [Res.bind_ok, List.cons_append, List.nil_append]
              rw [readWord_byte]; simp [Nat.add_assoc]
            · intro x hx
              simp only [EVal.borrows, EVal.borrowsList, List.append_nil, List.mem_append] at hx
              simp only [Ty.blocks, List.mem_append]
              rcases hx with hx | hx
              · exact Or.inl (b1 x hx)
              · exact Or.inr (b2 x hx)
          | [], hwt, _ => simp [Ty.wt] at hwt
          | [_], hwt, _ => simp [Ty.wt] at hwt
          | _ :: _ :: _ :: _, hwt, _ => simp [Ty.wt] at hwt
        | «from» =>
          match fs, hwt, ha with
          | [a], hwt, ha =>
            simp only [Ty.wt] at hwt
            simp only [Ty.blocks] at ha
            obtain ⟨e1, h1, r1, b1⟩ := ih a hwt pos rest ha
            refine ⟨.record [e1], ?_, by simp [EVal.erase, EVal.eraseList, r1], ?_⟩
            · simp only [Ty.enc, Ty.decEps]; rw [h1]; simp
            · intro x hx
              simp only [EVal.borrows, EVal.borrowsList, List.append_nil] at hx
              simp only [Ty.blocks]; exact b1 x hx
          | [], hwt, _ => simp [Ty.wt] at hwt
          | _ :: _ :: _, hwt, _ => simp [Ty.wt] at hwt
        | to =>
          match fs, hwt, ha with
          | [a], hwt, ha =>
            simp only [Ty.wt] at hwt
            simp only [Ty.blocks] at ha
            obtain ⟨e1, h1, r1, b1⟩ := ih a hwt pos rest ha
            refine ⟨.record [e1], ?_, by simp [EVal.erase, EVal.eraseList, r1], ?_⟩
            · simp only [Ty.enc, Ty.decEps]; rw [h1]; simp
            · intro x hx
              simp only [EVal.borrows, EVal.borrowsList, List.append_nil] at hx
              simp only [Ty.blocks]; exact b1 x hx
          | [], hwt, _ => simp [Ty.wt] at hwt
          | _ :: _ :: _, hwt, _ => simp [Ty.wt] at hwt
        | toIncl =>
          match fs, hwt, ha with
          | [a], hwt, ha =>
            simp only [Ty.wt] at hwt
            simp only [Ty.blocks] at ha
            obtain ⟨e1, h1, r1, b1⟩ := ih a hwt pos rest ha
            refine ⟨.record [e1], ?_, by simp [EVal.erase, EVal.eraseList, r1], ?_⟩
            · simp only [Ty.enc, Ty.decEps]; rw [h1]; simp
            · intro x hx
              simp only [EVal.borrows, EVal.borrowsList, List.append_nil] at hx
              simp only [Ty.blocks]; exact b1 x hx
          | [], hwt, _ => simp [Ty.wt] at hwt
          | _ :: _ :: _, hwt, _ => simp [Ty.wt] at hwt
      | _ => cases k <;> simp [Ty.wt] at hwt
  | .rangeFull, _ => by
      intro v hwt pos rest _
      cases v with
      | record fs =>
        cases fs with
        | nil => exact ⟨.record [], by simp [Ty.enc, Ty.decEps], by simp [EVal.erase, EVal.eraseList], by simp [EVal.borrows, EVal.borrowsList]⟩
        | cons _ _ => simp [Ty.wt] at hwt
      | _ => simp [Ty.wt] at hwt
  | .adt mt vs, hw => by
      intro v hwt pos rest ha
      have hw' := hw
      simp only [Ty.wf, Bool.and_eq_true] at hw
      by_cases hz : mt.zero = true
      · simp only [hz, if_true, Bool.and_eq_true, Bool.not_eq_true'] at hw
        have hzc : (Ty.adt mt vs).isZC = true := by simp [Ty.isZC, hz, hw.1.2.1]
        cases v with
        | record fs =>
          rw [Ty.blocks_adt_zero mt vs fs pos hz] at ha ⊢
          rw [Ty.enc_adt_zero mt vs fs pos hz, Ty.decEps_adt_zero base mt vs _ pos hz]
          have hrt := Ty.memRT (.adt mt vs) hzc hw' (.record fs) hwt
          obtain ⟨e, he, her, heb⟩ := decEpsZero_ok base (.adt mt vs) (.record fs) pos rest hrt (AlignedAll_single ha)
          refine ⟨e, ?_, her, ?_⟩
          · rw [he]; simp
          · intro b hb; rw [heb b hb, hrt.1]; simp
        | variant i fs =>
          rw [Ty.blocks_adt_zero_variant mt vs i fs pos hz] at ha ⊢
          rw [Ty.enc_adt_zero_variant mt vs i fs pos hz, Ty.decEps_adt_zero base mt vs _ pos hz]
          have hrt := Ty.memRT (.adt mt vs) hzc hw' (.variant i fs) hwt
          obtain ⟨e, he, her, heb⟩ := decEpsZero_ok base (.adt mt vs) (.variant i fs) pos rest hrt (AlignedAll_single ha)
          refine ⟨e, ?_, her, ?_⟩
          · rw [he]; simp
          · intro b hb; rw [heb b hb, hrt.1]; simp
        | _ => simp [Ty.wt] at hwt
      · simp only [hz, if_false, Bool.false_eq_true] at hw
        have hzf : mt.zero = false := by simpa using hz
        cases v with
        | record fs =>
          match vs, hw, hwt, ha with
          | .cons vn fds .nil, hw, hwt, ha =>
            simp only [Ty.wt, Bool.and_eq_true, Bool.not_eq_true'] at hwt
            simp only [Variants.wf, Bool.and_true, Bool.and_eq_true] at hw
            simp only [Ty.blocks, hzf, Bool.false_eq_true, if_false] at ha
            obtain ⟨es, hes, her, heb⟩ := Fields.framedEps base fds hw.1.1.1.2 fs hwt.2 pos rest ha
            refine ⟨.record es, ?_, by simp [EVal.erase, her], ?_⟩
            · simp only [Ty.enc, Ty.decEps, hzf, hwt.1, if_false, Bool.false_eq_true]
              rw [hes]; simp
            · intro b hb
              simp only [EVal.borrows] at hb
              simp only [Ty.blocks, hzf, Bool.false_eq_true, if_false]
              exact heb b hb
          | .nil, _, hwt, _ => simp [Ty.wt] at hwt
          | .cons _ _ (.cons _ _ _), _, hwt, _ => simp [Ty.wt] at hwt
        | variant i fs =>
          simp only [Ty.wt, Bool.and_eq_true] at hwt
          simp only [Bool.and_eq_true, decide_eq_true_eq] at hw
          have hlen : vs.length < 2^64 := hw.1.1.2
          have hi : i < vs.length := Variants.wt_lt vs i fs hwt.2
          rw [Ty.blocks_adt_enum mt vs i fs pos hzf] at ha ⊢
          obtain ⟨e, he, her, heb⟩ := Variants.framedEps base vs hw.1.1.1.2 i fs hwt.2 i (pos + 8) rest ha
          refine ⟨e, ?_, her, heb⟩
          rw [Ty.enc_adt_enum mt vs i fs pos hzf, Ty.decEps_adt_enum base mt vs _ pos hzf hwt.1, List.append_assoc]
          rw [readWord_leBytes 8 i _ pos (by omega)]
          simp only [Res.bind_ok]
          rw [he]; simp [Nat.add_assoc]
        | _ => simp [Ty.wt] at hwt
  | .sliceRef _, hw => by simp [Ty.wf] at hw
  | .serIter _, hw => by simp [Ty.wf] at hw
theorem Fields.framedEps (base : Nat) : ∀ (f : Fields), f.wf = true → ∀ vs, f.wt vs = true →
    ∀ pos rest, AlignedAll (.slice base) (f.blocks vs pos) →
      ∃ es, f.decEps base (f.enc vs pos ++ rest) pos = .ok (es, rest, pos + (f.enc vs pos).length)
        ∧ EVal.eraseList es = vs ∧ ∀ b ∈ EVal.borrowsList es, b.toBlock ∈ f.blocks vs pos
  | .nil, _ => by
      intro vs hwt pos rest _
      cases vs <;> simp [Fields.wt] at hwt
      exact ⟨[], by simp [Fields.enc, Fields.decEps], rfl, by simp [EVal.borrowsList]⟩
  | .cons nm viaEps t r, hw => by
      intro vs hwt pos rest ha
      simp only [Fields.wf, Bool.and_eq_true] at hw
      cases vs with
      | nil => simp [Fields.wt] at hwt
      | cons v vs =>
        simp only [Fields.wt, Bool.and_eq_true] at hwt
        simp only [Fields.blocks, AlignedAll_append] at ha
        obtain ⟨es, hes, her, heb⟩ := Fields.framedEps base r hw.2 vs hwt.2 (pos + (t.enc v pos).length) rest ha.2
        cases viaEps with
        | true =>
          obtain ⟨e, he, her1, heb1⟩ := Ty.framedEps base t hw.1 v hwt.1 pos (r.enc vs (pos + (t.enc v pos).length) ++ rest) ha.1
          refine ⟨e :: es, ?_, by simp [EVal.eraseList, her1, her], ?_⟩
          · simp only [Fields.enc, Fields.decEps, List.append_assoc, if_true]
            rw [he]; simp only [Res.bind_ok]
            rw [hes]; simp [Nat.add_assoc]
          · intro b hb
            simp only [EVal.borrowsList, List.mem_append] at hb
            simp only [Fields.blocks, List.mem_append]
            rcases hb with hb | hb
            · exact Or.inl (heb1 b hb)
            · exact Or.inr (heb b hb)
        | false =>
          have hf := Ty.framedFull (.slice base) t hw.1 v hwt.1 pos (r.enc vs (pos + (t.enc v pos).length) ++ rest) ha.1
          refine ⟨.full v :: es, ?_, by simp [EVal.eraseList, EVal.erase, her], ?_⟩
          · simp only [Fields.enc, Fields.decEps, List.append_assoc, Bool.false_eq_true, if_false]
            rw [hf]; simp only [Res.bind_ok]
            rw [hes]; simp [Nat.add_assoc]
          · intro b hb
            simp only [EVal.borrowsList, EVal.borrows, List.nil_append] at hb
            simp only [Fields.blocks, List.mem_append]
            exact Or.inr (heb b hb)
theorem Variants.framedEps (base : Nat) : ∀ (vs : Variants), vs.wf = true → ∀ i vals, vs.wt i vals = true →
    ∀ orig pos rest, AlignedAll (.slice base) (vs.blocks i vals pos) →
      ∃ e, vs.decEps base orig i (vs.enc i vals pos ++ rest) pos = .ok (e, rest, pos + (vs.enc i vals pos).length)
        ∧ e.erase = .variant orig vals ∧ ∀ b ∈ e.borrows, b.toBlock ∈ vs.blocks i vals pos
  | .nil, _ => by
      intro i vals hwt; simp [Variants.wt] at hwt
  | .cons nm fs r, hw => by
      intro i vals hwt orig pos rest ha
      simp only [Variants.wf, Bool.and_eq_true] at hw
      cases i with
      | zero =>
        simp only [Variants.wt] at hwt
        simp only [Variants.blocks] at ha
        obtain ⟨es, hes, her, heb⟩ := Fields.framedEps base fs hw.1 vals hwt pos rest ha
        refine ⟨.variant orig es, ?_, by simp [EVal.erase, her], ?_⟩
        · simp only [Variants.enc, Variants.decEps]
          rw [hes]; simp
        · intro b hb
          simp only [EVal.borrows] at hb
          simp only [Variants.blocks]; exact heb b hb
      | succ i =>
        simp only [Variants.wt] at hwt
        simp only [Variants.blocks] at ha
        simp only [Variants.enc, Variants.decEps, Variants.blocks]
        exact Variants.framedEps base r hw.2 i vals hwt orig pos rest ha
end

end Eps
