/-
  The other direction of placement: if some block of the written value is *not* on a multiple of
  its unit, the slice-based full-copy reader and the ε-copy reader return `AlignmentError`
  (raised at the first such block); they never return a value.
-/
import EpsModel.Lemmas.FrameEps2
namespace Eps

theorem not_all_append {m : Mode} {a b : List Block} (h : ¬ AlignedAll m (a ++ b)) :
    ¬ AlignedAll m a ∨ (AlignedAll m a ∧ ¬ AlignedAll m b) := by
  by_cases ha : AlignedAll m a
  · right; exact ⟨ha, fun hb => h (AlignedAll_append.mpr ⟨ha, hb⟩)⟩
  · left; exact ha

theorem not_all_single {m : Mode} {b : Block} (h : ¬ AlignedAll m [b]) : ¬ ModeOK m b.off b.unit := by
  intro hm; apply h; intro x hx; simp at hx; subst hx; exact hm

theorem alignRead_bad (base u pos : Nat) (rest : B) (h : ¬ ModeOK (.slice base) (pos + pad pos u) u) :
    alignRead (.slice base) u (zeros (pad pos u) ++ rest) pos = .err .alignment := by
  simp only [ModeOK] at h
  simp [alignRead, takeOrPanic_append' (pad pos u) (zeros (pad pos u)) rest pos (by simp), h]

/-- statement for the slice-based full-copy reader -/
def MisF (base : Nat) (t : Ty) (v : Val) : Prop :=
  ∀ pos rest, ¬ AlignedAll (.slice base) (t.blocks v pos) →
    t.decFull (.slice base) (t.enc v pos ++ rest) pos = .err .alignment

/-- statement for the ε-copy reader -/
def MisE (base : Nat) (t : Ty) (v : Val) : Prop :=
  ∀ pos rest, ¬ AlignedAll (.slice base) (t.blocks v pos) →
    t.decEps base (t.enc v pos ++ rest) pos = .err .alignment

theorem decMany_misF (base : Nat) (t : Ty) (vs : List Val)
    (hp : ∀ v ∈ vs, FrF (.slice base) t v) (hn : ∀ v ∈ vs, MisF base t v)
    (pos : Nat) (rest : B) (ha : ¬ AlignedAll (.slice base) (Ty.blocksList t vs pos)) :
    decMany (t.decFull (.slice base)) vs.length (Ty.encList t vs pos ++ rest) pos = .err .alignment := by
  induction vs generalizing pos with
  | nil => exact absurd (AlignedAll_nil _) (by simpa [Ty.blocksList] using ha)
  | cons v vs ih =>
    simp only [Ty.blocksList] at ha
    simp only [List.length_cons, decMany, Ty.encList, List.append_assoc]
    rcases not_all_append ha with h1 | ⟨h1, h2⟩
    · rw [hn v (by simp) pos _ h1]; rfl
    · rw [hp v (by simp) pos _ h1]
      simp only [Res.bind_ok]
      rw [ih (fun w hw => hp w (by simp [hw])) (fun w hw => hn w (by simp [hw])) _ h2]; rfl

theorem decMany_misE (base : Nat) (t : Ty) (vs : List Val)
    (hp : ∀ v ∈ vs, EpsOK base t v) (hn : ∀ v ∈ vs, MisE base t v)
    (pos : Nat) (rest : B) (ha : ¬ AlignedAll (.slice base) (Ty.blocksList t vs pos)) :
    decMany (t.decEps base) vs.length (Ty.encList t vs pos ++ rest) pos = .err .alignment := by
  induction vs generalizing pos with
  | nil => exact absurd (AlignedAll_nil _) (by simpa [Ty.blocksList] using ha)
  | cons v vs ih =>
    simp only [Ty.blocksList] at ha
    simp only [List.length_cons, decMany, Ty.encList, List.append_assoc]
    rcases not_all_append ha with h1 | ⟨h1, h2⟩
    · rw [hn v (by simp) pos _ h1]; rfl
    · obtain ⟨e, he, _, _⟩ := hp v (by simp) pos (Ty.encList t vs (pos + (t.enc v pos).length) ++ rest) h1
      rw [he]
      simp only [Res.bind_ok]
      rw [ih (fun w hw => hp w (by simp [hw])) (fun w hw => hn w (by simp [hw])) _ h2]; rfl

/-- a sequence of zero-copy elements, full reader on a slice -/
theorem vecZero_misF (base : Nat) (t : Ty) (vs : List Val) (pos : Nat) (rest : B) (hl : vs.length < 2^63)
    (ha : ¬ ModeOK (.slice base) (pos + 8 + pad (pos + 8) t.maxSizeOf) t.maxSizeOf) :
    decFullVecZero (.slice base) t (leBytes 8 vs.length ++ zeros (pad (pos + 8) t.maxSizeOf) ++ Ty.toMemList t vs ++ rest) pos
      = .err .alignment := by
  simp only [decFullVecZero, List.append_assoc]
  rw [readWord_leBytes 8 vs.length _ pos (by omega)]
  simp only [Res.bind_ok]
  rw [alignRead_bad base _ _ _ ha]; rfl

theorem vecZero_misE (base : Nat) (t : Ty) (vs : List Val) (pos : Nat) (rest : B) (hl : vs.length < 2^63)
    (hb : vs.length * t.sizeOf < 2^63)
    (ha : ¬ ModeOK (.slice base) (pos + 8 + pad (pos + 8) t.maxSizeOf) t.maxSizeOf) :
    decEpsSliceZero base t (leBytes 8 vs.length ++ zeros (pad (pos + 8) t.maxSizeOf) ++ Ty.toMemList t vs ++ rest) pos
      = .err .alignment := by
  simp only [decEpsSliceZero, List.append_assoc]
  rw [readWord_leBytes 8 vs.length _ pos (by omega)]
  simp only [Res.bind_ok]
  have hnot : ¬ (vs.length * t.sizeOf ≥ 2^64) := by omega
  rw [if_neg hnot, alignRead_bad base _ _ _ ha]; rfl

theorem zero_misF (base : Nat) (t : Ty) (mem : B) (pos : Nat) (rest : B)
    (ha : ¬ ModeOK (.slice base) (pos + pad pos t.maxSizeOf) t.maxSizeOf) :
    decFullZero (.slice base) t (zeros (pad pos t.maxSizeOf) ++ mem ++ rest) pos = .err .alignment := by
  simp only [decFullZero, List.append_assoc]
  rw [alignRead_bad base _ _ _ ha]; rfl

theorem zero_misE (base : Nat) (t : Ty) (mem : B) (pos : Nat) (rest : B)
    (ha : ¬ ModeOK (.slice base) (pos + pad pos t.maxSizeOf) t.maxSizeOf) :
    decEpsZero base t (zeros (pad pos t.maxSizeOf) ++ mem ++ rest) pos = .err .alignment := by
  simp only [decEpsZero, List.append_assoc]
  rw [alignRead_bad base _ _ _ ha]; rfl

end Eps
