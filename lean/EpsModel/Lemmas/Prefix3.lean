/-
  The truncation theorem by mutual structural induction on the type universe, for the three readers.
-/
import EpsModel.Lemmas.Prefix2
namespace Eps

/-- one-byte tag followed by a payload -/
theorem tag_prefix_full (tag : UInt8) (payload : B) (p : B) (pos : Nat) (h : SPre p (tag :: payload))
    (k : Nat × B × Nat → RRes Val)
    (hk : ∀ q, SPre q payload → k (tag.toNat, q, pos + 1) = .err .readError) :
    (readWord 1 p pos).bind k = .err .readError := by
  rcases spre_cons h with rfl | ⟨q, rfl, hq⟩
  · rw [readWord_short 1 [] pos (by simp)]; rfl
  · rw [readWord_byte]; simp only [Res.bind_ok]; exact hk q hq

theorem tag_prefix_notok {α : Type} (tag : UInt8) (payload : B) (p : B) (pos : Nat) (h : SPre p (tag :: payload))
    (k : Nat × B × Nat → RRes α)
    (hk : ∀ q, SPre q payload → NotOk (k (tag.toNat, q, pos + 1))) :
    NotOk ((readWord 1 p pos).bind k) := by
  rcases spre_cons h with rfl | ⟨q, rfl, hq⟩
  · rw [readWord_short 1 [] pos (by simp)]; exact NotOk.err _
  · rw [readWord_byte]; simp only [Res.bind_ok]; exact hk q hq

mutual
theorem Ty.trunc (base : Nat) : ∀ (t : Ty), t.wf = true → ∀ v, t.wt v = true → PF t v ∧ PS base t v ∧ PE base t v
  | .prim p, _ => by
      intro v hwt
      cases v with
      | bits n =>
        refine ⟨?_, ?_, ?_⟩ <;> intro pos q h <;> simp only [Ty.enc] at h
        · simp only [Ty.decFull]; exact Prim.prefix_full p n q pos h
        · simp only [Ty.decFull]; rw [Prim.prefix_full p n q pos h]; exact NotOk.err _
        · simp only [Ty.decEps]; rw [Prim.prefix_eps p n q pos h]; exact NotOk.panic
      | unit =>
        cases p <;> simp [Ty.wt] at hwt
        refine ⟨?_, ?_, ?_⟩ <;> intro pos q h <;> exact spre_nil_absurd (by simpa [Ty.enc] using h)
      | _ => cases p <;> simp [Ty.wt] at hwt
  | .phantom _, _ => by
      intro v hwt
      cases v with
      | unit => refine ⟨?_, ?_, ?_⟩ <;> intro pos q h <;> exact spre_nil_absurd (by simpa [Ty.enc] using h)
      | _ => simp [Ty.wt] at hwt
  | .string, _ => by
      intro v hwt
      cases v with
      | str b =>
        simp only [Ty.wt, Bool.and_eq_true, decide_eq_true_eq] at hwt
        refine ⟨?_, ?_, ?_⟩ <;> intro pos q h <;> simp only [Ty.enc] at h
        · simp only [Ty.decFull, decFullStr]
          rcases spre_append h with h1 | ⟨q', rfl, hq'⟩
          · rw [readWord_short 8 q pos (by simpa using h1.length_lt)]; rfl
          · rw [readWord_leBytes 8 b.length q' pos (by omega)]; simp only [Res.bind_ok]
            have hnot : ¬ (b.length > isizeMax) := by unfold isizeMax; omega
            rw [if_neg hnot, readExact_short _ q' _ hq'.length_lt]; rfl
        · simp only [Ty.decFull, decFullStr]
          rcases spre_append h with h1 | ⟨q', rfl, hq'⟩
          · rw [readWord_short 8 q pos (by simpa using h1.length_lt)]; exact NotOk.err _
          · rw [readWord_leBytes 8 b.length q' pos (by omega)]; simp only [Res.bind_ok]
            have hnot : ¬ (b.length > isizeMax) := by unfold isizeMax; omega
            rw [if_neg hnot, readExact_short _ q' _ hq'.length_lt]; exact NotOk.err _
        · simp only [Ty.decEps]
          apply NotOk.bind
          have hz : zeros (pad (pos + 8) (Ty.prim (.int .u8)).maxSizeOf) = [] := by simp [Ty.maxSizeOf, Prim.size, IntK.size, pad, zeros]
          exact vecZero_prefix_eps base (.prim (.int .u8)) b.length b hwt.2 (by simp [Ty.sizeOf, Prim.size, IntK.size])
            (by simp [Ty.sizeOf, Prim.size, IntK.size]; omega) pos q (by rw [hz]; simpa using h)
      | _ => simp [Ty.wt] at hwt
  | .boxStr, _ => by
      intro v hwt
      cases v with
      | str b =>
        simp only [Ty.wt, Bool.and_eq_true, decide_eq_true_eq] at hwt
        refine ⟨?_, ?_, ?_⟩ <;> intro pos q h <;> simp only [Ty.enc] at h
        · simp only [Ty.decFull, decFullStr]
          rcases spre_append h with h1 | ⟨q', rfl, hq'⟩
          · rw [readWord_short 8 q pos (by simpa using h1.length_lt)]; rfl
          · rw [readWord_leBytes 8 b.length q' pos (by omega)]; simp only [Res.bind_ok]
            have hnot : ¬ (b.length > isizeMax) := by unfold isizeMax; omega
            rw [if_neg hnot, readExact_short _ q' _ hq'.length_lt]; rfl
        · simp only [Ty.decFull, decFullStr]
          rcases spre_append h with h1 | ⟨q', rfl, hq'⟩
          · rw [readWord_short 8 q pos (by simpa using h1.length_lt)]; exact NotOk.err _
          · rw [readWord_leBytes 8 b.length q' pos (by omega)]; simp only [Res.bind_ok]
            have hnot : ¬ (b.length > isizeMax) := by unfold isizeMax; omega
            rw [if_neg hnot, readExact_short _ q' _ hq'.length_lt]; exact NotOk.err _
        · simp only [Ty.decEps]
          apply NotOk.bind
          have hz : zeros (pad (pos + 8) (Ty.prim (.int .u8)).maxSizeOf) = [] := by simp [Ty.maxSizeOf, Prim.size, IntK.size, pad, zeros]
          exact vecZero_prefix_eps base (.prim (.int .u8)) b.length b hwt.2 (by simp [Ty.sizeOf, Prim.size, IntK.size])
            (by simp [Ty.sizeOf, Prim.size, IntK.size]; omega) pos q (by rw [hz]; simpa using h)
      | _ => simp [Ty.wt] at hwt
  | .vec t, hw => by
      intro v hwt
      simp only [Ty.wf, Bool.and_eq_true] at hw
      cases v with
      | seq vs =>
        simp only [Ty.wt, Bool.and_eq_true, decide_eq_true_eq] at hwt
        have hwl := wtList_mem hwt.1.1
        have ih := fun v hv => Ty.trunc base t hw.1 v (hwl v hv)
        refine ⟨?_, ?_, ?_⟩ <;> intro pos q h <;> simp only [Ty.enc, Ty.encSeq] at h
        · simp only [Ty.decFull]
          by_cases hz : t.isZC = true
          · simp only [hz, if_true] at h ⊢
            have hm := (fromMemList_toMemList t vs (fun v hv => Ty.memRT t hz hw.1 v (hwl v hv)) []).2
            rw [vecZero_prefix_full t vs.length _ hwt.1.2 hm hwt.2 pos q h]; rfl
          · simp only [hz, if_false, Bool.false_eq_true] at h ⊢
            rcases spre_append h with h1 | ⟨q', rfl, hq'⟩
            · rw [readWord_short 8 q pos (by simpa using h1.length_lt)]; rfl
            · rw [readWord_leBytes 8 vs.length q' pos (by omega)]; simp only [Res.bind_ok]
              rw [decMany_prefix_full t vs (fun v hv => Ty.framedFull .reader t hw.1 v (hwl v hv)) (fun v hv => (ih v hv).1) _ q' hq']; rfl
        · simp only [Ty.decFull]
          by_cases hz : t.isZC = true
          · simp only [hz, if_true] at h ⊢
            have hm := (fromMemList_toMemList t vs (fun v hv => Ty.memRT t hz hw.1 v (hwl v hv)) []).2
            exact NotOk.bind _ (vecZero_prefix_slice base t vs.length _ hwt.1.2 hm hwt.2 pos q h)
          · simp only [hz, if_false, Bool.false_eq_true] at h ⊢
            rcases spre_append h with h1 | ⟨q', rfl, hq'⟩
            · rw [readWord_short 8 q pos (by simpa using h1.length_lt)]; exact NotOk.err _
            · rw [readWord_leBytes 8 vs.length q' pos (by omega)]; simp only [Res.bind_ok]
              exact NotOk.bind _ (decMany_prefix_slice base t hw.1 vs hwl (fun v hv => (ih v hv).2.1) _ q' hq')
        · simp only [Ty.decEps]
          by_cases hz : t.isZC = true
          · simp only [hz, if_true] at h ⊢
            have hm := (fromMemList_toMemList t vs (fun v hv => Ty.memRT t hz hw.1 v (hwl v hv)) []).2
            exact NotOk.bind _ (vecZero_prefix_eps base t vs.length _ hwt.1.2 hm hwt.2 pos q h)
          · simp only [hz, if_false, Bool.false_eq_true] at h ⊢
            rcases spre_append h with h1 | ⟨q', rfl, hq'⟩
            · rw [readWord_short 8 q pos (by simpa using h1.length_lt)]; exact NotOk.err _
            · rw [readWord_leBytes 8 vs.length q' pos (by omega)]; simp only [Res.bind_ok]
              exact NotOk.bind _ (decMany_prefix_eps base t hw.1 vs hwl (fun v hv => (ih v hv).2.2) _ q' hq')
      | _ => simp [Ty.wt] at hwt
  | .boxSlice t, hw => by
      intro v hwt
      simp only [Ty.wf, Bool.and_eq_true] at hw
      cases v with
      | seq vs =>
        simp only [Ty.wt, Bool.and_eq_true, decide_eq_true_eq] at hwt
        have hwl := wtList_mem hwt.1.1
        have ih := fun v hv => Ty.trunc base t hw.1 v (hwl v hv)
        refine ⟨?_, ?_, ?_⟩ <;> intro pos q h <;> simp only [Ty.enc, Ty.encSeq] at h
        · simp only [Ty.decFull]
          by_cases hz : t.isZC = true
          · simp only [hz, if_true] at h ⊢
            have hm := (fromMemList_toMemList t vs (fun v hv => Ty.memRT t hz hw.1 v (hwl v hv)) []).2
            rw [vecZero_prefix_full t vs.length _ hwt.1.2 hm hwt.2 pos q h]; rfl
          · simp only [hz, if_false, Bool.false_eq_true] at h ⊢
            rcases spre_append h with h1 | ⟨q', rfl, hq'⟩
            · rw [readWord_short 8 q pos (by simpa using h1.length_lt)]; rfl
            · rw [readWord_leBytes 8 vs.length q' pos (by omega)]; simp only [Res.bind_ok]
              rw [decMany_prefix_full t vs (fun v hv => Ty.framedFull .reader t hw.1 v (hwl v hv)) (fun v hv => (ih v hv).1) _ q' hq']; rfl
        · simp only [Ty.decFull]
          by_cases hz : t.isZC = true
          · simp only [hz, if_true] at h ⊢
            have hm := (fromMemList_toMemList t vs (fun v hv => Ty.memRT t hz hw.1 v (hwl v hv)) []).2
            exact NotOk.bind _ (vecZero_prefix_slice base t vs.length _ hwt.1.2 hm hwt.2 pos q h)
          · simp only [hz, if_false, Bool.false_eq_true] at h ⊢
            rcases spre_append h with h1 | ⟨q', rfl, hq'⟩
            · rw [readWord_short 8 q pos (by simpa using h1.length_lt)]; exact NotOk.err _
            · rw [readWord_leBytes 8 vs.length q' pos (by omega)]; simp only [Res.bind_ok]
              exact NotOk.bind _ (decMany_prefix_slice base t hw.1 vs hwl (fun v hv => (ih v hv).2.1) _ q' hq')
        · simp only [Ty.decEps]
          by_cases hz : t.isZC = true
          · simp only [hz, if_true] at h ⊢
            have hm := (fromMemList_toMemList t vs (fun v hv => Ty.memRT t hz hw.1 v (hwl v hv)) []).2
            exact NotOk.bind _ (vecZero_prefix_eps base t vs.length _ hwt.1.2 hm hwt.2 pos q h)
          · simp only [hz, if_false, Bool.false_eq_true] at h ⊢
            rcases spre_append h with h1 | ⟨q', rfl, hq'⟩
            · rw [readWord_short 8 q pos (by simpa using h1.length_lt)]; exact NotOk.err _
            · rw [readWord_leBytes 8 vs.length q' pos (by omega)]; simp only [Res.bind_ok]
              exact NotOk.bind _ (decMany_prefix_eps base t hw.1 vs hwl (fun v hv => (ih v hv).2.2) _ q' hq')
      | _ => simp [Ty.wt] at hwt
  | .array t n, hw => by
      intro v hwt
      simp only [Ty.wf, Bool.and_eq_true] at hw
      cases v with
      | seq vs =>
        simp only [Ty.wt, Bool.and_eq_true, beq_iff_eq] at hwt
        have hwl := wtList_mem hwt.1
        have ih := fun v hv => Ty.trunc base t hw.1 v (hwl v hv)
        refine ⟨?_, ?_, ?_⟩ <;> intro pos q h <;> simp only [Ty.enc] at h
        · simp only [Ty.decFull]
          by_cases hz : t.isZC = true
          · simp only [hz, if_true] at h ⊢
            have hm := (fromMemList_toMemList t vs (fun v hv => Ty.memRT t hz hw.1 v (hwl v hv)) []).2
            exact zero_prefix_full (.array t n) (Ty.toMemList t vs) (by rw [hm, hwt.2]; rfl) pos q (by simpa [Ty.maxSizeOf] using h)
          · simp only [hz, if_false, Bool.false_eq_true] at h ⊢
            rw [← hwt.2, decMany_prefix_full t vs (fun v hv => Ty.framedFull .reader t hw.1 v (hwl v hv)) (fun v hv => (ih v hv).1) _ q h]; rfl
        · simp only [Ty.decFull]
          by_cases hz : t.isZC = true
          · simp only [hz, if_true] at h ⊢
            have hm := (fromMemList_toMemList t vs (fun v hv => Ty.memRT t hz hw.1 v (hwl v hv)) []).2
            exact zero_prefix_slice base (.array t n) (Ty.toMemList t vs) (by rw [hm, hwt.2]; rfl) pos q (by simpa [Ty.maxSizeOf] using h)
          · simp only [hz, if_false, Bool.false_eq_true] at h ⊢
            rw [← hwt.2]
            exact NotOk.bind _ (decMany_prefix_slice base t hw.1 vs hwl (fun v hv => (ih v hv).2.1) _ q h)
        · simp only [Ty.decEps]
          by_cases hz : t.isZC = true
          · simp only [hz, if_true] at h ⊢
            have hm := (fromMemList_toMemList t vs (fun v hv => Ty.memRT t hz hw.1 v (hwl v hv)) []).2
            rcases spre_append h with h1 | ⟨q', rfl, hq'⟩
            · rw [alignRead_slice_short _ _ _ _ (by simpa using h1.length_lt)]; exact NotOk.panic
            · rcases alignRead_slice_full base t.maxSizeOf pos q' with h2 | h2 <;> rw [h2]
              · simp only [Res.bind_ok]
                rw [takeOrPanic_short _ q' _ (by rw [← hwt.2, ← hm]; exact hq'.length_lt)]; exact NotOk.panic
              · exact NotOk.err _
          · simp only [hz, if_false, Bool.false_eq_true] at h ⊢
            rw [← hwt.2]
            exact NotOk.bind _ (decMany_prefix_eps base t hw.1 vs hwl (fun v hv => (ih v hv).2.2) _ q h)
      | _ => simp [Ty.wt] at hwt
  | .tuple t n, hw => by
      intro v hwt
      cases v with
      | seq vs =>
        have hz : (Ty.tuple t n).isZC = true := by
          simp only [Ty.wf, Bool.and_eq_true] at hw
          simp [Ty.isZC, hw.1.1.2, hw.1.2, hw.2]
        have hrt := Ty.memRT (.tuple t n) hz hw (.seq vs) hwt
        have hm : (Ty.toMemList t vs).length = (Ty.tuple t n).sizeOf := by
          have := hrt.1; simpa [Ty.toMem] using this
        refine ⟨?_, ?_, ?_⟩ <;> intro pos q h <;> simp only [Ty.enc] at h
        · simp only [Ty.decFull]
          exact zero_prefix_full (.tuple t n) _ hm pos q (by simpa [Ty.maxSizeOf] using h)
        · simp only [Ty.decFull]
          exact zero_prefix_slice base (.tuple t n) _ hm pos q (by simpa [Ty.maxSizeOf] using h)
        · simp only [Ty.decEps]
          exact zero_prefix_eps base (.tuple t n) _ hm pos q (by simpa [Ty.maxSizeOf] using h)
      | _ => simp [Ty.wt] at hwt
  | .option t, hw => by
      intro v hwt
      simp only [Ty.wf] at hw
      cases v with
      | variant i fs =>
        match i, fs, hwt with
        | 0, [], _ =>
          refine ⟨?_, ?_, ?_⟩ <;> intro pos q h <;> simp only [Ty.enc] at h <;>
            (have hq : q = [] := by
              have := h.length_lt; simp at this; exact this
             subst hq)
          · simp only [Ty.decFull]; rw [readWord_short 1 [] pos (by simp)]; rfl
          · simp only [Ty.decFull]; rw [readWord_short 1 [] pos (by simp)]; exact NotOk.err _
          · simp only [Ty.decEps]; rw [readWord_short 1 [] pos (by simp)]; exact NotOk.err _
        | 1, [x], hwt =>
          simp only [Ty.wt] at hwt
          have ih := Ty.trunc base t hw x hwt
          refine ⟨?_, ?_, ?_⟩ <;> intro pos q h <;> simp only [Ty.enc] at h
          · simp only [Ty.decFull]
            apply tag_prefix_full 1 _ q pos h
            intro q' hq'; simp only [UInt8.toNat_one]; rw [ih.1 (pos + 1) q' hq']; rfl
          · simp only [Ty.decFull]
            apply tag_prefix_notok 1 _ q pos h
            intro q' hq'; simp only [UInt8.toNat_one]; exact NotOk.bind _ (ih.2.1 (pos + 1) q' hq')
          · simp only [Ty.decEps]
            apply tag_prefix_notok 1 _ q pos h
            intro q' hq'; simp only [UInt8.toNat_one]; exact NotOk.bind _ (ih.2.2 (pos + 1) q' hq')
        | 0, _ :: _, hwt => simp [Ty.wt] at hwt
        | 1, [], hwt => simp [Ty.wt] at hwt
        | 1, _ :: _ :: _, hwt => simp [Ty.wt] at hwt
        | _ + 2, _, hwt => simp [Ty.wt] at hwt
      | _ => simp [Ty.wt] at hwt
  | .bound t, hw => by
      intro v hwt
      simp only [Ty.wf] at hw
      cases v with
      | variant i fs =>
        match i, fs, hwt with
        | 0, [], _ =>
          refine ⟨?_, ?_, ?_⟩ <;> intro pos q h <;> simp only [Ty.enc] at h <;>
            (have hq : q = [] := by
              have := h.length_lt; simp at this; exact this
             subst hq)
          · simp only [Ty.decFull]; rw [readWord_short 1 [] pos (by simp)]; rfl
          · simp only [Ty.decFull]; rw [readWord_short 1 [] pos (by simp)]; exact NotOk.err _
          · simp only [Ty.decEps]; rw [readWord_short 1 [] pos (by simp)]; exact NotOk.err _
        | 1, [x], hwt =>
          simp only [Ty.wt] at hwt
          have ih := Ty.trunc base t hw x hwt
          refine ⟨?_, ?_, ?_⟩ <;> intro pos q h <;> simp only [Ty.enc] at h
          · simp only [Ty.decFull]
            apply tag_prefix_full 1 _ q pos h
            intro q' hq'; simp only [UInt8.toNat_one]; rw [ih.1 (pos + 1) q' hq']; rfl
          · simp only [Ty.decFull]
            apply tag_prefix_notok 1 _ q pos h
            intro q' hq'; simp only [UInt8.toNat_one]; exact NotOk.bind _ (ih.2.1 (pos + 1) q' hq')
          · simp only [Ty.decEps]
            apply tag_prefix_notok 1 _ q pos h
            intro q' hq'; simp only [UInt8.toNat_one]; exact NotOk.bind _ (ih.2.2 (pos + 1) q' hq')
        | 2, [x], hwt =>
          simp only [Ty.wt] at hwt
          have ih := Ty.trunc base t hw x hwt
          refine ⟨?_, ?_, ?_⟩ <;> intro pos q h <;> simp only [Ty.enc] at h
          · simp only [Ty.decFull]
            apply tag_prefix_full 2 _ q pos h
            intro q' hq'; simp only [UInt8.toNat_ofNat]; rw [ih.1 (pos + 1) q' hq']; rfl
          · simp only [Ty.decFull]
            apply tag_prefix_notok 2 _ q pos h
            intro q' hq'; simp only [UInt8.toNat_ofNat]; exact NotOk.bind _ (ih.2.1 (pos + 1) q' hq')
          · simp only [Ty.decEps]
            apply tag_prefix_notok 2 _ q pos h
            intro q' hq'; simp only [UInt8.toNat_ofNat]; exact NotOk.bind _ (ih.2.2 (pos + 1) q' hq')
        | 0, _ :: _, hwt => simp [Ty.wt] at hwt
        | 1, [], hwt => simp [Ty.wt] at hwt
        | 1, _ :: _ :: _, hwt => simp [Ty.wt] at hwt
        | 2, [], hwt => simp [Ty.wt] at hwt
        | 2, _ :: _ :: _, hwt => simp [Ty.wt] at hwt
        | _ + 3, _, hwt => simp [Ty.wt] at hwt
      | _ => simp [Ty.wt] at hwt
  | .controlFlow b c, hw => by
      intro v hwt
      simp only [Ty.wf, Bool.and_eq_true] at hw
      cases v with
      | variant i fs =>
        match i, fs, hwt with
        | 0, [x], hwt =>
          simp only [Ty.wt] at hwt
          have ih := Ty.trunc base b hw.1 x hwt
          refine ⟨?_, ?_, ?_⟩ <;> intro pos q h <;> simp only [Ty.enc] at h
          · simp only [Ty.decFull]
            apply tag_prefix_full 0 _ q pos h
            intro q' hq'; simp only [UInt8.toNat_zero]; rw [ih.1 (pos + 1) q' hq']; rfl
          · simp only [Ty.decFull]
            apply tag_prefix_notok 0 _ q pos h
            intro q' hq'; simp only [UInt8.toNat_zero]; exact NotOk.bind _ (ih.2.1 (pos + 1) q' hq')
          · simp only [Ty.decEps]
            apply tag_prefix_notok 0 _ q pos h
            intro q' hq'; simp only [UInt8.toNat_zero]; exact NotOk.bind _ (ih.2.2 (pos + 1) q' hq')
        | 1, [x], hwt =>
          simp only [Ty.wt] at hwt
          have ih := Ty.trunc base c hw.2 x hwt
          refine ⟨?_, ?_, ?_⟩ <;> intro pos q h <;> simp only [Ty.enc] at h
          · simp only [Ty.decFull]
            apply tag_prefix_full 1 _ q pos h
            intro q' hq'; simp only [UInt8.toNat_one]; rw [ih.1 (pos + 1) q' hq']; rfl
          · simp only [Ty.decFull]
            apply tag_prefix_notok 1 _ q pos h
            intro q' hq'; simp only [UInt8.toNat_one]; exact NotOk.bind _ (ih.2.1 (pos + 1) q' hq')
          · simp only [Ty.decEps]
            apply tag_prefix_notok 1 _ q pos h
            intro q' hq'; simp only [UInt8.toNat_one]; exact NotOk.bind _ (ih.2.2 (pos + 1) q' hq')
        | 0, [], hwt => simp [Ty.wt] at hwt
        | 0, _ :: _ :: _, hwt => simp [Ty.wt] at hwt
        | 1, [], hwt => simp [Ty.wt] at hwt
        | 1, _ :: _ :: _, hwt => simp [Ty.wt] at hwt
        | _ + 2, _, hwt => simp [Ty.wt] at hwt
      | _ => simp [Ty.wt] at hwt
  | .range k t, hw => by
      intro v hwt
      simp only [Ty.wf, Bool.and_eq_true] at hw
      have hwt' := hw.1.1.1
      have ih := Ty.trunc base t hwt'
      have ihf := Ty.framedFull .reader t hwt'
      cases v with
      | record fs =>
        cases k with
        | range =>
          match fs, hwt with
          | [a, b], hwt =>
            simp only [Ty.wt, Bool.and_eq_true] at hwt
            refine ⟨?_, ?_, ?_⟩ <;> intro pos q h <;> simp only [Ty.enc] at h
            · simp only [Ty.decFull]
              rcases spre_append h with h1 | ⟨q', rfl, hq'⟩
              · rw [(ih a hwt.1).1 pos q h1]; rfl
              · rw [ihf a hwt.1 pos q' (AlignedAll_reader _)]; simp only [Res.bind_ok]
                rw [(ih b hwt.2).1 _ q' hq']; rfl
            · simp only [Ty.decFull]
              rcases spre_append h with h1 | ⟨q', rfl, hq'⟩
              · exact NotOk.bind _ ((ih a hwt.1).2.1 pos q h1)
              · rcases full_dicho base t hwt' a hwt.1 pos q' with h2 | h2 <;> rw [h2]
                · simp only [Res.bind_ok]; exact NotOk.bind _ ((ih b hwt.2).2.1 _ q' hq')
                · exact NotOk.err _
            · simp only [Ty.decEps]
              rcases spre_append h with h1 | ⟨q', rfl, hq'⟩
              · exact NotOk.bind _ ((ih a hwt.1).2.2 pos q h1)
              · rcases eps_dicho base t hwt' a hwt.1 pos q' with ⟨e, h2⟩ | h2 <;> rw [h2]
                · simp only [Res.bind_ok]; exact NotOk.bind _ ((ih b hwt.2).2.2 _ q' hq')
                · exact NotOk.err _
          | [], hwt => simp [Ty.wt] at hwt
          | [_], hwt => simp [Ty.wt] at hwt
          | _ :: _ :: _ :: _, hwt => simp [Ty.wt] at hwt
        | incl =>
          match fs, hwt with
          | [a, b], hwt =>
            simp only [Ty.wt, Bool.and_eq_true] at hwt
            refine ⟨?_, ?_, ?_⟩ <;> intro pos q h <;> simp only [Ty.enc, List.append_assoc] at h
            · simp only [Ty.decFull]
              rcases spre_append h with h1 | ⟨q', rfl, hq'⟩
              · rw [(ih a hwt.1).1 pos q h1]; rfl
              · rw [ihf a hwt.1 pos q' (AlignedAll_reader _)]; simp only [Res.bind_ok]
                rcases spre_append hq' with h1 | ⟨q'', rfl, hq''⟩
                · rw [(ih b hwt.2).1 _ q' h1]; rfl
                · rw [ihf b hwt.2 _ q'' (AlignedAll_reader _)]; simp only [Res.bind_ok]
                  have : q'' = [] := by have := hq''.length_lt; simp at this; exact this
                  subst this
                  rw [readWord_short 1 [] _ (by simp)]; rfl
            · simp only [Ty.decFull]
              rcases spre_append h with h1 | ⟨q', rfl, hq'⟩
              · exact NotOk.bind _ ((ih a hwt.1).2.1 pos q h1)
              · rcases full_dicho base t hwt' a hwt.1 pos q' with h2 | h2 <;> rw [h2]
                · simp only [Res.bind_ok]
                  rcases spre_append hq' with h1 | ⟨q'', rfl, hq''⟩
                  · exact NotOk.bind _ ((ih b hwt.2).2.1 _ q' h1)
                  · rcases full_dicho base t hwt' b hwt.2 (pos + (t.enc a pos).length) q'' with h3 | h3 <;> rw [h3]
                    · simp only [Res.bind_ok]
                      have : q'' = [] := by have := hq''.length_lt; simp at this; exact this
                      subst this
                      rw [readWord_short 1 [] _ (by simp)]; exact NotOk.err _
                    · exact NotOk.err _
                · exact NotOk.err _
            · simp only [Ty.decEps]
              rcases spre_append h with h1 | ⟨q', rfl, hq'⟩
              · exact NotOk.bind _ ((ih a hwt.1).2.2 pos q h1)
              · rcases eps_dicho base t hwt' a hwt.1 pos q' with ⟨e, h2⟩ | h2 <;> rw [h2]
                · simp only [Res.bind_ok]
                  rcases spre_append hq' with h1 | ⟨q'', rfl, hq''⟩
                  · exact NotOk.bind _ ((ih b hwt.2).2.2 _ q' h1)
                  · rcases eps_dicho base t hwt' b hwt.2 (pos + (t.enc a pos).length) q'' with ⟨e', h3⟩ | h3 <;> rw [h3]
                    · simp only [Res.bind_ok]
                      have : q'' = [] := by have := hq''.length_lt; simp at this; exact this
                      subst this
                      rw [readWord_short 1 [] _ (by simp)]; exact NotOk.err _
                    · exact NotOk.err _
                · exact NotOk.err _
          | [], hwt => simp [Ty.wt] at hwt
          | [_], hwt => simp [Ty.wt] at hwt
          | _ :: _ :: _ :: _, hwt => simp [Ty.wt] at hwt
        | «from» =>
          match fs, hwt with
          | [a], hwt =>
            simp only [Ty.wt] at hwt
            refine ⟨?_, ?_, ?_⟩ <;> intro pos q h <;> simp only [Ty.enc] at h
            · simp only [Ty.decFull]; rw [(ih a hwt).1 pos q h]; rfl
            · simp only [Ty.decFull]; exact NotOk.bind _ ((ih a hwt).2.1 pos q h)
            · simp only [Ty.decEps]; exact NotOk.bind _ ((ih a hwt).2.2 pos q h)
          | [], hwt => simp [Ty.wt] at hwt
          | _ :: _ :: _, hwt => simp [Ty.wt] at hwt
        | to =>
          match fs, hwt with
          | [a], hwt =>
            simp only [Ty.wt] at hwt
            refine ⟨?_, ?_, ?_⟩ <;> intro pos q h <;> simp only [Ty.enc] at h
            · simp only [Ty.decFull]; rw [(ih a hwt).1 pos q h]; rfl
            · simp only [Ty.decFull]; exact NotOk.bind _ ((ih a hwt).2.1 pos q h)
            · simp only [Ty.decEps]; exact NotOk.bind _ ((ih a hwt).2.2 pos q h)
          | [], hwt => simp [Ty.wt] at hwt
          | _ :: _ :: _, hwt => simp [Ty.wt] at hwt
        | toIncl =>
          match fs, hwt with
          | [a], hwt =>
            simp only [Ty.wt] at hwt
            refine ⟨?_, ?_, ?_⟩ <;> intro pos q h <;> simp only [Ty.enc] at h
            · simp only [Ty.decFull]; rw [(ih a hwt).1 pos q h]; rfl
            · simp only [Ty.decFull]; exact NotOk.bind _ ((ih a hwt).2.1 pos q h)
            · simp only [Ty.decEps]; exact NotOk.bind _ ((ih a hwt).2.2 pos q h)
          | [], hwt => simp [Ty.wt] at hwt
          | _ :: _ :: _, hwt => simp [Ty.wt] at hwt
      | _ => cases k <;> simp [Ty.wt] at hwt
  | .rangeFull, _ => by
      intro v hwt
      cases v with
      | record fs =>
        cases fs with
        | nil => refine ⟨?_, ?_, ?_⟩ <;> intro pos q h <;> exact spre_nil_absurd (by simpa [Ty.enc] using h)
        | cons _ _ => simp [Ty.wt] at hwt
      | _ => simp [Ty.wt] at hwt
  | .adt mt vs, hw => by
      intro v hwt
      have hw' := hw
      simp only [Ty.wf, Bool.and_eq_true] at hw
      by_cases hz : mt.zero = true
      · simp only [hz, if_true, Bool.and_eq_true, Bool.not_eq_true'] at hw
        have hzc : (Ty.adt mt vs).isZC = true := by simp [Ty.isZC, hz, hw.1.2.1]
        cases v with
        | record fs =>
          have hrt := Ty.memRT (.adt mt vs) hzc hw' (.record fs) hwt
          refine ⟨?_, ?_, ?_⟩ <;> intro pos q h <;> rw [Ty.enc_adt_zero mt vs fs pos hz] at h
          · rw [Ty.decFull_adt_zero _ mt vs _ pos hz]; exact zero_prefix_full (.adt mt vs) _ hrt.1 pos q h
          · rw [Ty.decFull_adt_zero _ mt vs _ pos hz]; exact zero_prefix_slice base (.adt mt vs) _ hrt.1 pos q h
          · rw [Ty.decEps_adt_zero base mt vs _ pos hz]; exact zero_prefix_eps base (.adt mt vs) _ hrt.1 pos q h
        | variant i fs =>
          have hrt := Ty.memRT (.adt mt vs) hzc hw' (.variant i fs) hwt
          refine ⟨?_, ?_, ?_⟩ <;> intro pos q h <;> rw [Ty.enc_adt_zero_variant mt vs i fs pos hz] at h
          · rw [Ty.decFull_adt_zero _ mt vs _ pos hz]; exact zero_prefix_full (.adt mt vs) _ hrt.1 pos q h
          · rw [Ty.decFull_adt_zero _ mt vs _ pos hz]; exact zero_prefix_slice base (.adt mt vs) _ hrt.1 pos q h
          · rw [Ty.decEps_adt_zero base mt vs _ pos hz]; exact zero_prefix_eps base (.adt mt vs) _ hrt.1 pos q h
        | _ => simp [Ty.wt] at hwt
      · simp only [hz, if_false, Bool.false_eq_true] at hw
        have hzf : mt.zero = false := by simpa using hz
        cases v with
        | record fs =>
          match vs, hw, hwt with
          | .cons vn fds .nil, hw, hwt =>
            simp only [Ty.wt, Bool.and_eq_true, Bool.not_eq_true'] at hwt
            simp only [Variants.wf, Bool.and_true, Bool.and_eq_true] at hw
            have ih := Fields.trunc base fds hw.1.1.1.2 fs hwt.2
            refine ⟨?_, ?_, ?_⟩ <;> intro pos q h <;>
              simp only [Ty.enc, hzf, Bool.false_eq_true, if_false] at h
            · simp only [Ty.decFull, hzf, hwt.1, if_false, Bool.false_eq_true]; rw [ih.1 pos q h]; rfl
            · simp only [Ty.decFull, hzf, hwt.1, if_false, Bool.false_eq_true]; exact NotOk.bind _ (ih.2.1 pos q h)
            · simp only [Ty.decEps, hzf, hwt.1, if_false, Bool.false_eq_true]; exact NotOk.bind _ (ih.2.2 pos q h)
          | .nil, _, hwt => simp [Ty.wt] at hwt
          | .cons _ _ (.cons _ _ _), _, hwt => simp [Ty.wt] at hwt
        | variant i fs =>
          simp only [Ty.wt, Bool.and_eq_true] at hwt
          simp only [Bool.and_eq_true, decide_eq_true_eq] at hw
          have hlen : vs.length < 2^64 := hw.1.1.2
          have hi : i < vs.length := Variants.wt_lt vs i fs hwt.2
          have ih := Variants.trunc base vs hw.1.1.1.2 i fs hwt.2
          refine ⟨?_, ?_, ?_⟩ <;> intro pos q h <;> rw [Ty.enc_adt_enum mt vs i fs pos hzf] at h
          · rw [Ty.decFull_adt_enum _ mt vs _ pos hzf hwt.1]
            rcases spre_append h with h1 | ⟨q', rfl, hq'⟩
            · rw [readWord_short 8 q pos (by simpa using h1.length_lt)]; rfl
            · rw [readWord_leBytes 8 i q' pos (by omega)]; simp only [Res.bind_ok]
              exact ih.1 i (pos + 8) q' hq'
          · rw [Ty.decFull_adt_enum _ mt vs _ pos hzf hwt.1]
            rcases spre_append h with h1 | ⟨q', rfl, hq'⟩
            · rw [readWord_short 8 q pos (by simpa using h1.length_lt)]; exact NotOk.err _
            · rw [readWord_leBytes 8 i q' pos (by omega)]; simp only [Res.bind_ok]
              exact ih.2.1 i (pos + 8) q' hq'
          · rw [Ty.decEps_adt_enum base mt vs _ pos hzf hwt.1]
            rcases spre_append h with h1 | ⟨q', rfl, hq'⟩
            · rw [readWord_short 8 q pos (by simpa using h1.length_lt)]; exact NotOk.err _
            · rw [readWord_leBytes 8 i q' pos (by omega)]; simp only [Res.bind_ok]
              exact ih.2.2 i (pos + 8) q' hq'
        | _ => simp [Ty.wt] at hwt
  | .sliceRef _, hw => by simp [Ty.wf] at hw
  | .serIter _, hw => by simp [Ty.wf] at hw
theorem Fields.trunc (base : Nat) : ∀ (f : Fields), f.wf = true → ∀ vs, f.wt vs = true →
    (∀ pos p, SPre p (f.enc vs pos) → f.decFull .reader p pos = .err .readError) ∧
    (∀ pos p, SPre p (f.enc vs pos) → NotOk (f.decFull (.slice base) p pos)) ∧
    (∀ pos p, SPre p (f.enc vs pos) → NotOk (f.decEps base p pos))
  | .nil, _ => by
      intro vs hwt
      cases vs <;> simp [Fields.wt] at hwt
      refine ⟨?_, ?_, ?_⟩ <;> intro pos q h <;> exact spre_nil_absurd (by simpa [Fields.enc] using h)
  | .cons nm viaEps t r, hw => by
      intro vs hwt
      simp only [Fields.wf, Bool.and_eq_true] at hw
      cases vs with
      | nil => simp [Fields.wt] at hwt
      | cons v vs =>
        simp only [Fields.wt, Bool.and_eq_true] at hwt
        have iht := Ty.trunc base t hw.1 v hwt.1
        have ihr := Fields.trunc base r hw.2 vs hwt.2
        refine ⟨?_, ?_, ?_⟩ <;> intro pos q h <;> simp only [Fields.enc] at h
        · simp only [Fields.decFull]
          rcases spre_append h with h1 | ⟨q', rfl, hq'⟩
          · rw [iht.1 pos q h1]; rfl
          · rw [Ty.framedFull .reader t hw.1 v hwt.1 pos q' (AlignedAll_reader _)]; simp only [Res.bind_ok]
            rw [ihr.1 _ q' hq']; rfl
        · simp only [Fields.decFull]
          rcases spre_append h with h1 | ⟨q', rfl, hq'⟩
          · exact NotOk.bind _ (iht.2.1 pos q h1)
          · rcases full_dicho base t hw.1 v hwt.1 pos q' with h2 | h2 <;> rw [h2]
            · simp only [Res.bind_ok]; exact NotOk.bind _ (ihr.2.1 _ q' hq')
            · exact NotOk.err _
        · simp only [Fields.decEps]
          cases viaEps with
          | true =>
            simp only [if_true]
            rcases spre_append h with h1 | ⟨q', rfl, hq'⟩
            · exact NotOk.bind _ (iht.2.2 pos q h1)
            · rcases eps_dicho base t hw.1 v hwt.1 pos q' with ⟨e, h2⟩ | h2 <;> rw [h2]
              · simp only [Res.bind_ok]; exact NotOk.bind _ (ihr.2.2 _ q' hq')
              · exact NotOk.err _
          | false =>
            simp only [Bool.false_eq_true, if_false]
            rcases spre_append h with h1 | ⟨q', rfl, hq'⟩
            · exact NotOk.bind _ (NotOk.bind _ (iht.2.1 pos q h1))
            · rcases full_dicho base t hw.1 v hwt.1 pos q' with h2 | h2 <;> rw [h2]
              · simp only [Res.bind_ok]; exact NotOk.bind _ (ihr.2.2 _ q' hq')
              · exact NotOk.err _
theorem Variants.trunc (base : Nat) : ∀ (vs : Variants), vs.wf = true → ∀ i vals, vs.wt i vals = true →
    (∀ orig pos p, SPre p (vs.enc i vals pos) → vs.decFull .reader orig i p pos = .err .readError) ∧
    (∀ orig pos p, SPre p (vs.enc i vals pos) → NotOk (vs.decFull (.slice base) orig i p pos)) ∧
    (∀ orig pos p, SPre p (vs.enc i vals pos) → NotOk (vs.decEps base orig i p pos))
  | .nil, _ => by
      intro i vals hwt; simp [Variants.wt] at hwt
  | .cons nm fs r, hw => by
      intro i vals hwt
      simp only [Variants.wf, Bool.and_eq_true] at hw
      cases i with
      | zero =>
        simp only [Variants.wt] at hwt
        have ih := Fields.trunc base fs hw.1 vals hwt
        refine ⟨?_, ?_, ?_⟩ <;> intro orig pos q h <;> simp only [Variants.enc] at h
        · simp only [Variants.decFull]; rw [ih.1 pos q h]; rfl
        · simp only [Variants.decFull]; exact NotOk.bind _ (ih.2.1 pos q h)
        · simp only [Variants.decEps]; exact NotOk.bind _ (ih.2.2 pos q h)
      | succ i =>
        simp only [Variants.wt] at hwt
        have ih := Variants.trunc base r hw.2 i vals hwt
        refine ⟨?_, ?_, ?_⟩ <;> intro orig pos q h <;> simp only [Variants.enc] at h
        · simp only [Variants.decFull]; exact ih.1 orig pos q h
        · simp only [Variants.decFull]; exact ih.2.1 orig pos q h
        · simp only [Variants.decEps]; exact ih.2.2 orig pos q h
end

end Eps
