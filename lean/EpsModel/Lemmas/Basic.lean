/-
  Helper lemmas: little-endian words, padding arithmetic, primitive reader steps.
-/
import EpsModel.Codec
namespace Eps

@[simp] theorem leBytes_length (w n : Nat) : (leBytes w n).length = w := by
  induction w generalizing n with
  | zero => simp [leBytes]
  | succ w ih => simp [leBytes, ih]

theorem leVal_leBytes (w n : Nat) (h : n < 2 ^ (8 * w)) : leVal (leBytes w n) = n := by
  induction w generalizing n with
  | zero => simp at h; simp [leBytes, leVal, h]
  | succ w ih =>
    have h2 : n / 256 < 2 ^ (8 * w) := by
      have : 2 ^ (8 * (w + 1)) = 256 * 2 ^ (8 * w) := by
        rw [Nat.mul_add, Nat.pow_add]; simp [Nat.mul_comm]
      rw [this] at h
      exact Nat.div_lt_of_lt_mul h
    simp only [leBytes, leVal, ih _ h2]
    have : (UInt8.ofNat (n % 256)).toNat = n % 256 := by
      simp [UInt8.toNat_ofNat']
    rw [this]; omega

theorem leVal_append_leBytes (w n : Nat) (rest : B) (h : n < 2 ^ (8 * w)) :
    leVal ((leBytes w n ++ rest).take w) = n := by
  have : (leBytes w n ++ rest).take w = leBytes w n := by
    rw [List.take_append_of_le_length (by simp)]
    exact List.take_of_length_le (by simp)
  rw [this, leVal_leBytes w n h]

@[simp] theorem zeros_length (n : Nat) : (zeros n).length = n := by simp [zeros]

/-! ### Padding -/

theorem padNat_lt {pos u : Nat} (hu : 0 < u) : padNat pos u < u := Nat.mod_lt _ hu

theorem padNat_spec {pos u : Nat} (hu : 0 < u) : (pos + padNat pos u) % u = 0 := by
  unfold padNat
  have h1 : pos % u < u := Nat.mod_lt _ hu
  by_cases h0 : pos % u = 0
  · simp [h0]
  · have : (u - pos % u) % u = u - pos % u := Nat.mod_eq_of_lt (by omega)
    rw [this, Nat.add_mod]
    have : pos % u + (u - pos % u) % u = u := by
      rw [Nat.mod_eq_of_lt (by omega : u - pos % u < u)]; omega
    rw [this]; simp

theorem padNat_min {pos u g : Nat} (hu : 0 < u) (hg : (pos + g) % u = 0) : padNat pos u ≤ g := by
  unfold padNat
  have h1 : pos % u < u := Nat.mod_lt _ hu
  by_cases h0 : pos % u = 0
  · simp [h0]
  · rw [Nat.mod_eq_of_lt (by omega : u - pos % u < u)]
    -- (pos % u + g) % u = 0 and pos % u ≠ 0 imply g ≥ u - pos % u
    have h2 : (pos % u + g) % u = 0 := by
      rw [Nat.add_mod] at hg; rw [Nat.add_mod, Nat.mod_mod]; exact hg
    by_cases hlt : g < u - pos % u
    · have : pos % u + g < u := by omega
      rw [Nat.mod_eq_of_lt this] at h2; omega
    · omega

/-- On powers of two (up to 2^64) the bit formula computes the distance to the next multiple. -/
theorem pad_eq_padNat (pos k : Nat) (hk : k ≤ 64) : pad pos (2 ^ k) = padNat pos (2 ^ k) := by
  unfold pad padNat
  rw [Nat.and_two_pow_sub_one_eq_mod]
  have hd : 2 ^ k ∣ 2 ^ 64 := Nat.pow_dvd_pow 2 hk
  have hpos : 0 < 2 ^ k := Nat.two_pow_pos k
  obtain ⟨c, hc⟩ := hd
  have hM : 0 < 2 ^ 64 := Nat.two_pow_pos 64
  rw [Nat.mod_mod_of_dvd _ ⟨c, hc⟩]
  -- (M - pos % M) % m = (m - pos % m) % m  for m ∣ M
  have h1 : pos % 2 ^ 64 % 2 ^ k = pos % 2 ^ k := Nat.mod_mod_of_dvd _ ⟨c, hc⟩
  have h2 : pos % 2 ^ 64 < 2 ^ 64 := Nat.mod_lt _ hM
  generalize hq : pos % 2 ^ 64 = q at *
  generalize hm : 2 ^ k = m at *
  generalize hMM : 2 ^ 64 = M at *
  -- q < M = m * c
  subst hc
  have hqr := Nat.div_add_mod q m
  have hr : q % m < m := Nat.mod_lt _ hpos
  have hqc : q / m < c := by
    apply Nat.div_lt_of_lt_mul; exact h2
  rw [← h1]
  -- m * c - q = m * (c - q / m - 1) + (m - q % m)  when q % m > 0 ; = m * (c - q / m) when q % m = 0
  by_cases h0 : q % m = 0
  · have : m * c - q = m * (c - q / m) := by
      rw [Nat.mul_sub]; omega
    rw [this, h0]; simp
  · have : m * c - q = (m - q % m) + m * (c - q / m - 1) := by
      have : m * (c - q / m - 1) = m * c - m * (q / m) - m := by
        rw [Nat.mul_sub, Nat.mul_sub]; simp
      rw [this]
      have hle : m * (q / m) + m ≤ m * c := by
        have : m * (q / m + 1) ≤ m * c := Nat.mul_le_mul_left m hqc
        rw [Nat.mul_add] at this; simpa using this
      omega
    rw [this, Nat.add_mul_mod_self_left]

end Eps

namespace Eps

theorem leVal_lt (b : B) : leVal b < 2 ^ (8 * b.length) := by
  induction b with
  | nil => simp [leVal]
  | cons x xs ih =>
    simp only [leVal, List.length_cons]
    have hx : x.toNat < 256 := x.toNat_lt
    have : 2 ^ (8 * (xs.length + 1)) = 256 * 2 ^ (8 * xs.length) := by
      rw [Nat.mul_add, Nat.pow_add]; simp [Nat.mul_comm]
    rw [this]
    have h1 : leVal xs + 1 ≤ 2 ^ (8 * xs.length) := ih
    have h2 : 256 * (leVal xs + 1) ≤ 256 * 2 ^ (8 * xs.length) := Nat.mul_le_mul_left 256 h1
    omega

theorem leBytes_leVal (b : B) : leBytes b.length (leVal b) = b := by
  induction b with
  | nil => simp [leBytes]
  | cons x xs ih =>
    simp only [List.length_cons, leBytes, leVal]
    have hx : x.toNat < 256 := x.toNat_lt
    have h1 : (x.toNat + 256 * leVal xs) % 256 = x.toNat := by omega
    have h2 : (x.toNat + 256 * leVal xs) / 256 = leVal xs := by omega
    rw [h1, h2, ih]
    simp

end Eps
