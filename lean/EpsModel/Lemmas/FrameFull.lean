/-
  Framing of the full-copy reader: reading what the writer wrote returns the value, leaves the
  rest of the stream untouched and advances by exactly the number of bytes written — for both
  implementations of `ReadWithPos` (on a slice: provided every block is placed on its unit).
-/
import EpsModel.Lemmas.Read
namespace Eps

/-- Framing statement for one (type, value) pair. -/
def FrF (m : Mode) (t : Ty) (v : Val) : Prop :=
  ∀ pos rest, AlignedAll m (t.blocks v pos) →
    t.decFull m (t.enc v pos ++ rest) pos = .ok (v, rest, pos + (t.enc v pos).length)

theorem AlignedAll_single {m : Mode} {b : Block} (h : AlignedAll m [b]) : ModeOK m b.off b.unit :=
  h b (by simp)

theorem Prim.framed (p : Prim) (n : Nat) (h : p.wt n = true) (pos : Nat) (rest : B) :
    p.decFull (leBytes p.size n ++ rest) pos = .ok (.bits n, rest, pos + p.size) := by
  have hlt := Prim.wt_lt h
  have hr := readWord_leBytes p.size n rest pos hlt
  cases p with
  | int k => simp only [Prim.decFull]; rw [hr]; rfl
  | nz k =>
    simp only [Prim.wt, Bool.and_eq_true, bne_iff_ne, ne_eq] at h
    simp only [Prim.size] at hr ⊢
    simp only [Prim.decFull]; rw [hr]; simp [h.2]
  | f32 => simp only [Prim.decFull]; rw [hr]; rfl
  | f64 => simp only [Prim.decFull]; rw [hr]; rfl
  | bool =>
    simp only [Prim.wt, decide_eq_true_eq] at h
    simp only [Prim.size] at hr ⊢
    simp only [Prim.decFull]; rw [hr]
    have : n = 0 ∨ n = 1 := by omega
    rcases this with rfl | rfl <;> simp
  | char =>
    simp only [Prim.wt] at h
    simp only [Prim.size] at hr ⊢
    simp only [Prim.decFull]; rw [hr]; simp [h]
  | unit => simp [Prim.wt] at h

theorem decFullStr_ok (b rest : B) (pos : Nat) (hu : validUtf8 b = true) (hl : b.length < 2^63) :
    decFullStr (leBytes 8 b.length ++ b ++ rest) pos = .ok (.str b, rest, pos + (8 + b.length)) := by
  simp only [decFullStr, List.append_assoc]
  rw [readWord_leBytes 8 b.length _ pos (by omega)]
  simp only [Res.bind_ok]
  have hnot : ¬ (b.length > isizeMax) := by unfold isizeMax; omega
  rw [if_neg hnot, readExact_append]
  simp [hu, Nat.add_assoc]

theorem decFullVecZero_ok (m : Mode) (t : Ty) (vs : List Val) (pos : Nat) (rest : B)
    (hrt : ∀ v ∈ vs, MemRT t v) (hl : vs.length < 2^63) (hb : vs.length * t.sizeOf < 2^63)
    (ha : ModeOK m (pos + 8 + pad (pos + 8) t.maxSizeOf) t.maxSizeOf) :
    decFullVecZero m t (leBytes 8 vs.length ++ zeros (pad (pos + 8) t.maxSizeOf) ++ Ty.toMemList t vs ++ rest) pos
      = .ok (vs, rest, pos + (8 + pad (pos + 8) t.maxSizeOf + (Ty.toMemList t vs).length)) := by
  have hm := fromMemList_toMemList t vs hrt
  simp only [decFullVecZero, List.append_assoc]
  rw [readWord_leBytes 8 vs.length _ pos (by omega)]
  simp only [Res.bind_ok]
  rw [alignRead_ok m _ _ _ ha]
  simp only [Res.bind_ok]
  have hnot : ¬ (vs.length * t.sizeOf > isizeMax) := by unfold isizeMax; omega
  rw [if_neg hnot, readExact_append' _ (Ty.toMemList t vs) rest _ (hm []).2]
  simp only [Res.bind_ok]
  have := (hm []).1; simp only [List.append_nil] at this
  rw [this, (hm []).2]; simp [Nat.add_assoc]

theorem decFullZero_ok (m : Mode) (t : Ty) (v : Val) (pos : Nat) (rest : B) (hrt : MemRT t v)
    (ha : ModeOK m (pos + pad pos t.maxSizeOf) t.maxSizeOf) :
    decFullZero m t (zeros (pad pos t.maxSizeOf) ++ t.toMem v ++ rest) pos
      = .ok (v, rest, pos + (pad pos t.maxSizeOf + (t.toMem v).length)) := by
  simp only [decFullZero, List.append_assoc]
  rw [alignRead_ok m _ _ _ ha]
  simp only [Res.bind_ok]
  rw [readExact_append' _ (t.toMem v) rest _ hrt.1]
  simp only [Res.bind_ok]
  have := hrt.2 []; simp only [List.append_nil] at this
  rw [this, hrt.1]; simp [Nat.add_assoc]

mutual
theorem Ty.framedFull (m : Mode) : ∀ (t : Ty), t.wf = true → ∀ v, t.wt v = true → FrF m t v
  | .prim p, _ => by
      intro v hwt pos rest _
      cases v with
      | bits n =>
        have h : p.wt n = true := by simpa [Ty.wt] using hwt
        simp only [Ty.enc, Ty.decFull, leBytes_length]
        exact Prim.framed p n h pos rest
      | unit =>
        cases p <;> simp [Ty.wt] at hwt
        simp [Ty.enc, Ty.decFull, Prim.decFull]
      | _ => cases p <;> simp [Ty.wt] at hwt
  | .phantom _, _ => by
      intro v hwt pos rest _
      cases v with
      | unit => simp [Ty.enc, Ty.decFull]
      | _ => simp [Ty.wt] at hwt
  | .string, _ => by
      intro v hwt pos rest _
      cases v with
      | str b =>
        simp only [Ty.wt, Bool.and_eq_true, decide_eq_true_eq] at hwt
        simp only [Ty.enc, Ty.decFull]
        rw [decFullStr_ok b rest pos hwt.1 hwt.2]; simp
      | _ => simp [Ty.wt] at hwt
  | .boxStr, _ => by
      intro v hwt pos rest _
      cases v with
      | str b =>
        simp only [Ty.wt, Bool.and_eq_true, decide_eq_true_eq] at hwt
        simp only [Ty.enc, Ty.decFull]
        rw [decFullStr_ok b rest pos hwt.1 hwt.2]; simp
      | _ => simp [Ty.wt] at hwt
  | .vec t, hw => by
      intro v hwt pos rest ha
      simp only [Ty.wf, Bool.and_eq_true] at hw
      cases v with
      | seq vs =>
        simp only [Ty.wt, Bool.and_eq_true, decide_eq_true_eq] at hwt
        simp only [Ty.enc, Ty.encSeq, Ty.decFull, Ty.blocks, Ty.blocksSeq] at ha ⊢
        by_cases hz : t.isZC = true
        · simp only [hz, if_true] at ha ⊢
          have hrt : ∀ v ∈ vs, MemRT t v := fun v hv => Ty.memRT t hz hw.1 v (wtList_mem hwt.1.1 v hv)
          rw [decFullVecZero_ok m t vs pos rest hrt hwt.1.2 hwt.2 (AlignedAll_single ha)]
          simp [Nat.add_assoc]
        · simp only [hz, if_false, Bool.false_eq_true, List.append_assoc] at ha ⊢
          rw [readWord_leBytes 8 vs.length _ pos (by omega)]
          simp only [Res.bind_ok]
          rw [decMany_encList m t vs (fun v hv => Ty.framedFull m t hw.1 v (wtList_mem hwt.1.1 v hv)) _ rest ha]
          simp [Nat.add_assoc]
      | _ => simp [Ty.wt] at hwt
  | .boxSlice t, hw => by
      intro v hwt pos rest ha
      simp only [Ty.wf, Bool.and_eq_true] at hw
      cases v with
      | seq vs =>
        simp only [Ty.wt, Bool.and_eq_true, decide_eq_true_eq] at hwt
        simp only [Ty.enc, Ty.encSeq, Ty.decFull, Ty.blocks, Ty.blocksSeq] at ha ⊢
        by_cases hz : t.isZC = true
        · simp only [hz, if_true] at ha ⊢
          have hrt : ∀ v ∈ vs, MemRT t v := fun v hv => Ty.memRT t hz hw.1 v (wtList_mem hwt.1.1 v hv)
          rw [decFullVecZero_ok m t vs pos rest hrt hwt.1.2 hwt.2 (AlignedAll_single ha)]
          simp [Nat.add_assoc]
        · simp only [hz, if_false, Bool.false_eq_true, List.append_assoc] at ha ⊢
          rw [readWord_leBytes 8 vs.length _ pos (by omega)]
          simp only [Res.bind_ok]
          rw [decMany_encList m t vs (fun v hv => Ty.framedFull m t hw.1 v (wtList_mem hwt.1.1 v hv)) _ rest ha]
          simp [Nat.add_assoc]
      | _ => simp [Ty.wt] at hwt
  | .array t n, hw => by
      intro v hwt pos rest ha
      have hw' := hw
      simp only [Ty.wf, Bool.and_eq_true] at hw
      cases v with
      | seq vs =>
        have hwt' := hwt
        simp only [Ty.wt, Bool.and_eq_true, beq_iff_eq] at hwt
        simp only [Ty.enc, Ty.decFull, Ty.blocks] at ha ⊢
        by_cases hz : t.isZC = true
        · simp only [hz, if_true] at ha ⊢
          have hrt := Ty.memRT (.array t n) (by simpa [Ty.isZC] using hz) hw' (.seq vs) hwt'
          have := decFullZero_ok m (.array t n) (.seq vs) pos rest hrt (by
            have := AlignedAll_single ha; simpa [Ty.maxSizeOf] using this)
          simp only [Ty.maxSizeOf, Ty.toMem] at this
          rw [this]; simp
        · simp only [hz, if_false, Bool.false_eq_true] at ha ⊢
          rw [← hwt.2, decMany_encList m t vs (fun v hv => Ty.framedFull m t hw.1 v (wtList_mem hwt.1 v hv)) _ rest ha]
          simp
      | _ => simp [Ty.wt] at hwt
  | .tuple t n, hw => by
      intro v hwt pos rest ha
      cases v with
      | seq vs =>
        simp only [Ty.enc, Ty.decFull, Ty.blocks] at ha ⊢
        have hz : (Ty.tuple t n).isZC = true := by
          simp only [Ty.wf, Bool.and_eq_true] at hw
          simp [Ty.isZC, hw.1.1.2, hw.1.2, hw.2]
        have hrt := Ty.memRT (.tuple t n) hz hw (.seq vs) hwt
        have := decFullZero_ok m (.tuple t n) (.seq vs) pos rest hrt (by
          have := AlignedAll_single ha; simpa [Ty.maxSizeOf] using this)
        simp only [Ty.maxSizeOf, Ty.toMem] at this
        rw [this]; simp
      | _ => simp [Ty.wt] at hwt
  | .option t, hw => by
      intro v hwt pos rest ha
      simp only [Ty.wf] at hw
      cases v with
      | variant i fs =>
        match i, fs, hwt, ha with
        | 0, [], _, _ =>
          simp only [Ty.enc, Ty.decFull, List.cons_append, List.nil_append]
          rw [readWord_byte]; simp
        | 1, [x], hwt, ha =>
          simp only [Ty.wt] at hwt
          simp only [Ty.blocks] at ha
          simp only [Ty.enc, Ty.decFull, List.cons_append]
          rw [readWord_byte]
          simp only [Res.bind_ok, UInt8.toNat_one]
          rw [Ty.framedFull m t hw x hwt (pos + 1) rest ha]
          simp [Nat.add_assoc, Nat.add_comm]
        | 0, _ :: _, hwt, _ => simp [Ty.wt] at hwt
        | 1, [], hwt, _ => simp [Ty.wt] at hwt
        | 1, _ :: _ :: _, hwt, _ => simp [Ty.wt] at hwt
        | _ + 2, _, hwt, _ => simp [Ty.wt] at hwt
      | _ => simp [Ty.wt] at hwt
  | .bound t, hw => by
      intro v hwt pos rest ha
      simp only [Ty.wf] at hw
      cases v with
      | variant i fs =>
        match i, fs, hwt, ha with
        | 0, [], _, _ =>
          simp only [Ty.enc, Ty.decFull, List.cons_append, List.nil_append]
          rw [readWord_byte]; simp
        | 1, [x], hwt, ha =>
          simp only [Ty.wt] at hwt
          simp only [Ty.blocks] at ha
          simp only [Ty.enc, Ty.decFull, List.cons_append]
          rw [readWord_byte]
          simp only [Res.bind_ok, UInt8.toNat_one]
          rw [Ty.framedFull m t hw x hwt (pos + 1) rest ha]
          simp [Nat.add_assoc, Nat.add_comm]
        | 2, [x], hwt, ha =>
          simp only [Ty.wt] at hwt
          simp only [Ty.blocks] at ha
          simp only [Ty.enc, Ty.decFull, List.cons_append]
          rw [readWord_byte]
          simp only [Res.bind_ok, UInt8.toNat_ofNat]
          rw [Ty.framedFull m t hw x hwt (pos + 1) rest ha]
          simp [Nat.add_assoc, Nat.add_comm]
        | 0, _ :: _, hwt, _ => simp [Ty.wt] at hwt
        | 1, [], hwt, _ => simp [Ty.wt] at hwt
        | 1, _ :: _ :: _, hwt, _ => simp [Ty.wt] at hwt
        | 2, [], hwt, _ => simp [Ty.wt] at hwt
        | 2, _ :: _ :: _, hwt, _ => simp [Ty.wt] at hwt
        | _ + 3, _, hwt, _ => simp [Ty.wt] at hwt
      | _ => simp [Ty.wt] at hwt
  | .controlFlow b c, hw => by
      intro v hwt pos rest ha
      simp only [Ty.wf, Bool.and_eq_true] at hw
      cases v with
      | variant i fs =>
        match i, fs, hwt, ha with
        | 0, [x], hwt, ha =>
          simp only [Ty.wt] at hwt
          simp only [Ty.blocks] at ha
          simp only [Ty.enc, Ty.decFull, List.cons_append]
          rw [readWord_byte]
          simp only [Res.bind_ok, UInt8.toNat_zero]
          rw [Ty.framedFull m b hw.1 x hwt (pos + 1) rest ha]
          simp [Nat.add_assoc, Nat.add_comm]
        | 1, [x], hwt, ha =>
          simp only [Ty.wt] at hwt
          simp only [Ty.blocks] at ha
          simp only [Ty.enc, Ty.decFull, List.cons_append]
          rw [readWord_byte]
          simp only [Res.bind_ok, UInt8.toNat_one]
          rw [Ty.framedFull m c hw.2 x hwt (pos + 1) rest ha]
          simp [Nat.add_assoc, Nat.add_comm]
        | 0, [], hwt, _ => simp [Ty.wt] at hwt
        | 0, _ :: _ :: _, hwt, _ => simp [Ty.wt] at hwt
        | 1, [], hwt, _ => simp [Ty.wt] at hwt
        | 1, _ :: _ :: _, hwt, _ => simp [Ty.wt] at hwt
        | _ + 2, _, hwt, _ => simp [Ty.wt] at hwt
      | _ => simp [Ty.wt] at hwt
  | .range k t, hw => by
      intro v hwt pos rest ha
      simp only [Ty.wf, Bool.and_eq_true] at hw
      have ih := Ty.framedFull m t hw.1.1.1
      cases v with
      | record fs =>
        cases k with
        | range =>
          match fs, hwt, ha with
          | [a, b], hwt, ha =>
            simp only [Ty.wt, Bool.and_eq_true] at hwt
            simp only [Ty.blocks, AlignedAll_append] at ha
            simp only [Ty.enc, Ty.decFull, List.append_assoc]
            rw [ih a hwt.1 pos _ ha.1]; simp only [Res.bind_ok]
            rw [ih b hwt.2 _ rest ha.2]; simp [Nat.add_assoc]
          | [], hwt, _ => simp [Ty.wt] at hwt
          | [_], hwt, _ => simp [Ty.wt] at hwt
          | _ :: _ :: _ :: _, hwt, _ => simp [Ty.wt] at hwt
        | incl =>
          match fs, hwt, ha with
          | [a, b], hwt, ha =>
            simp only [Ty.wt, Bool.and_eq_true] at hwt
            simp only [Ty.blocks, AlignedAll_append] at ha
            simp only [Ty.enc, Ty.decFull, List.append_assoc]
            rw [ih a hwt.1 pos _ ha.1]; simp only [Res.bind_ok]
            rw [ih b hwt.2 _ _ ha.2]; simp only [Res.bind_ok, List.cons_append, List.nil_append]
            rw [readWord_byte]; simp [Nat.add_assoc]
          | [], hwt, _ => simp [Ty.wt] at hwt
          | [_], hwt, _ => simp [Ty.wt] at hwt
          | _ :: _ :: _ :: _, hwt, _ => simp [Ty.wt] at hwt
        | «from» =>
          match fs, hwt, ha with
          | [a], hwt, ha =>
            simp only [Ty.wt] at hwt
            simp only [Ty.blocks] at ha
            simp only [Ty.enc, Ty.decFull]
            rw [ih a hwt pos rest ha]; simp
          | [], hwt, _ => simp [Ty.wt] at hwt
          | _ :: _ :: _, hwt, _ => simp [Ty.wt] at hwt
        | to =>
          match fs, hwt, ha with
          | [a], hwt, ha =>
            simp only [Ty.wt] at hwt
            simp only [Ty.blocks] at ha
            simp only [Ty.enc, Ty.decFull]
            rw [ih a hwt pos rest ha]; simp
          | [], hwt, _ => simp [Ty.wt] at hwt
          | _ :: _ :: _, hwt, _ => simp [Ty.wt] at hwt
        | toIncl =>
          match fs, hwt, ha with
          | [a], hwt, ha =>
            simp only [Ty.wt] at hwt
            simp only [Ty.blocks] at ha
            simp only [Ty.enc, Ty.decFull]
            rw [ih a hwt pos rest ha]; simp
          | [], hwt, _ => simp [Ty.wt] at hwt
          | _ :: _ :: _, hwt, _ => simp [Ty.wt] at hwt
      | _ => cases k <;> simp [Ty.wt] at hwt
  | .rangeFull, _ => by
      intro v hwt pos rest _
      cases v with
      | record fs =>
        cases fs with
        | nil => simp [Ty.enc, Ty.decFull]
        | cons _ _ => simp [Ty.wt] at hwt
      | _ => simp [Ty.wt] at hwt
  | .adt mt vs, hw => by
      intro v hwt pos rest ha
      have hw' := hw
      simp only [Ty.wf, Bool.and_eq_true] at hw
      by_cases hz : mt.zero = true
      · -- zero-copy structure: one block
        simp only [hz, if_true, Bool.and_eq_true] at hw
        have hzc : (Ty.adt mt vs).isZC = true := by simp [Ty.isZC, hz, hw.1.2.1]
        cases v with
        | record fs =>
          rw [Ty.blocks_adt_zero mt vs fs pos hz] at ha
          rw [Ty.enc_adt_zero mt vs fs pos hz, Ty.decFull_adt_zero m mt vs _ pos hz]
          have hrt := Ty.memRT (.adt mt vs) hzc hw' (.record fs) hwt
          rw [decFullZero_ok m (.adt mt vs) (.record fs) pos rest hrt (AlignedAll_single ha)]
          simp
        | variant i fs =>
          rw [Ty.blocks_adt_zero_variant mt vs i fs pos hz] at ha
          rw [Ty.enc_adt_zero_variant mt vs i fs pos hz, Ty.decFull_adt_zero m mt vs _ pos hz]
          have hrt := Ty.memRT (.adt mt vs) hzc hw' (.variant i fs) hwt
          rw [decFullZero_ok m (.adt mt vs) (.variant i fs) pos rest hrt (AlignedAll_single ha)]
          simp
        | _ => simp [Ty.wt] at hwt
      · simp only [hz, if_false, Bool.false_eq_true] at hw
        have hzf : mt.zero = false := by simpa using hz
        cases v with
        | record fs =>
          match vs, hw, hwt, ha with
          | .cons vn fds .nil, hw, hwt, ha =>
            simp only [Ty.wt, Bool.and_eq_true, Bool.not_eq_true'] at hwt
            simp only [Variants.wf, Bool.and_true, Bool.and_eq_true] at hw
            simp only [Ty.enc, Ty.decFull, Ty.blocks, hzf, hwt.1, if_false, Bool.false_eq_true] at ha ⊢
            rw [Fields.framedFull m fds hw.1.1.1.2 fs hwt.2 pos rest ha]; simp
          | .nil, _, hwt, _ => simp [Ty.wt] at hwt
          | .cons _ _ (.cons _ _ _), _, hwt, _ => simp [Ty.wt] at hwt
        | variant i fs =>
          simp only [Ty.wt, Bool.and_eq_true] at hwt
          simp only [Bool.and_eq_true, decide_eq_true_eq] at hw
          have hlen : vs.length < 2^64 := hw.1.1.2
          have hi : i < vs.length := Variants.wt_lt vs i fs hwt.2
          rw [Ty.blocks_adt_enum mt vs i fs pos hzf] at ha
          rw [Ty.enc_adt_enum mt vs i fs pos hzf, Ty.decFull_adt_enum m mt vs _ pos hzf hwt.1, List.append_assoc]
          rw [readWord_leBytes 8 i _ pos (by omega)]
          simp only [Res.bind_ok]
          rw [Variants.framedFull m vs hw.1.1.1.2 i fs hwt.2 i (pos + 8) rest ha]
          simp [Nat.add_assoc]
        | _ => simp [Ty.wt] at hwt
  | .sliceRef _, hw => by simp [Ty.wf] at hw
  | .serIter _, hw => by simp [Ty.wf] at hw
theorem Fields.framedFull (m : Mode) : ∀ (f : Fields), f.wf = true → ∀ vs, f.wt vs = true →
    ∀ pos rest, AlignedAll m (f.blocks vs pos) →
      f.decFull m (f.enc vs pos ++ rest) pos = .ok (vs, rest, pos + (f.enc vs pos).length)
  | .nil, _ => by
      intro vs hwt pos rest _
      cases vs <;> simp [Fields.wt] at hwt
      simp [Fields.enc, Fields.decFull]
  | .cons nm e t r, hw => by
      intro vs hwt pos rest ha
      simp only [Fields.wf, Bool.and_eq_true] at hw
      cases vs with
      | nil => simp [Fields.wt] at hwt
      | cons v vs =>
        simp only [Fields.wt, Bool.and_eq_true] at hwt
        simp only [Fields.blocks, AlignedAll_append] at ha
        simp only [Fields.enc, Fields.decFull, List.append_assoc]
        rw [Ty.framedFull m t hw.1 v hwt.1 pos _ ha.1]
        simp only [Res.bind_ok]
        rw [Fields.framedFull m r hw.2 vs hwt.2 _ rest ha.2]
        simp [Nat.add_assoc]
theorem Variants.framedFull (m : Mode) : ∀ (vs : Variants), vs.wf = true → ∀ i vals, vs.wt i vals = true →
    ∀ orig pos rest, AlignedAll m (vs.blocks i vals pos) →
      vs.decFull m orig i (vs.enc i vals pos ++ rest) pos = .ok (.variant orig vals, rest, pos + (vs.enc i vals pos).length)
  | .nil, _ => by
      intro i vals hwt; simp [Variants.wt] at hwt
  | .cons nm fs r, hw => by
      intro i vals hwt orig pos rest ha
      simp only [Variants.wf, Bool.and_eq_true] at hw
      cases i with
      | zero =>
        simp only [Variants.wt] at hwt
        simp only [Variants.blocks] at ha
        simp only [Variants.enc, Variants.decFull]
        rw [Fields.framedFull m fs hw.1 vals hwt pos rest ha]; simp
      | succ i =>
        simp only [Variants.wt] at hwt
        simp only [Variants.blocks] at ha
        simp only [Variants.enc, Variants.decFull]
        exact Variants.framedFull m r hw.2 i vals hwt orig pos rest ha
end

end Eps
