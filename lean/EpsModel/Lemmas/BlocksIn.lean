/-
  Every block of a serialized value lies inside the bytes written for that value.
-/
import EpsModel.Lemmas.BlocksL
namespace Eps

def BlocksIn (bs : List Block) (lo hi : Nat) : Prop := ∀ b ∈ bs, lo ≤ b.off ∧ b.off + b.len ≤ hi

theorem BlocksIn.nil (lo hi : Nat) : BlocksIn [] lo hi := fun _ h => by simp at h

theorem BlocksIn.append {a b : List Block} {lo hi : Nat} (ha : BlocksIn a lo hi) (hb : BlocksIn b lo hi) :
    BlocksIn (a ++ b) lo hi := by
  intro x hx
  rcases List.mem_append.mp hx with h | h
  · exact ha x h
  · exact hb x h

theorem BlocksIn.mono {bs : List Block} {lo hi lo' hi' : Nat} (h : BlocksIn bs lo hi) (h1 : lo' ≤ lo) (h2 : hi ≤ hi') :
    BlocksIn bs lo' hi' := fun b hb => ⟨by have := (h b hb).1; omega, by have := (h b hb).2; omega⟩

theorem BlocksIn.single {off len u lo hi : Nat} (h1 : lo ≤ off) (h2 : off + len ≤ hi) : BlocksIn [⟨off, len, u⟩] lo hi := by
  intro b hb; simp at hb; subst hb; exact ⟨h1, h2⟩

theorem blocksList_in (t : Ty) (vs : List Val)
    (h : ∀ v ∈ vs, ∀ pos, BlocksIn (t.blocks v pos) pos (pos + (t.enc v pos).length)) (pos : Nat) :
    BlocksIn (Ty.blocksList t vs pos) pos (pos + (Ty.encList t vs pos).length) := by
  induction vs generalizing pos with
  | nil => simp [Ty.blocksList, BlocksIn.nil]
  | cons v vs ih =>
    simp only [Ty.blocksList, Ty.encList, List.length_append]
    apply BlocksIn.append
    · exact (h v (by simp) pos).mono (Nat.le_refl _) (by omega)
    · exact (ih (fun w hw => h w (by simp [hw])) _).mono (by omega) (by omega)

mutual
theorem Ty.blocks_in : ∀ (t : Ty) (v : Val) (pos : Nat), BlocksIn (t.blocks v pos) pos (pos + (t.enc v pos).length)
  | .prim _, v, pos => by cases v <;> simp [Ty.blocks, BlocksIn.nil]
  | .phantom _, v, pos => by cases v <;> simp [Ty.blocks, BlocksIn.nil]
  | .rangeFull, v, pos => by cases v <;> simp [Ty.blocks, BlocksIn.nil]
  | .string, v, pos => by
      cases v <;> simp only [Ty.blocks, Ty.enc] <;> first
        | exact BlocksIn.nil _ _
        | exact BlocksIn.single (by omega) (by simp; omega)
  | .boxStr, v, pos => by
      cases v <;> simp only [Ty.blocks, Ty.enc] <;> first
        | exact BlocksIn.nil _ _
        | exact BlocksIn.single (by omega) (by simp; omega)
  | .vec t, v, pos => by
      cases v <;> simp only [Ty.blocks, Ty.enc] <;> first
        | exact BlocksIn.nil _ _
        | exact Ty.blocksSeq_in t _ pos
  | .boxSlice t, v, pos => by
      cases v <;> simp only [Ty.blocks, Ty.enc] <;> first
        | exact BlocksIn.nil _ _
        | exact Ty.blocksSeq_in t _ pos
  | .sliceRef t, v, pos => by
      cases v <;> simp only [Ty.blocks, Ty.enc] <;> first
        | exact BlocksIn.nil _ _
        | exact Ty.blocksSeq_in t _ pos
  | .serIter t, v, pos => by
      cases v <;> simp only [Ty.blocks, Ty.enc] <;> first
        | exact BlocksIn.nil _ _
        | exact Ty.blocksSeq_in t _ pos
  | .array t n, v, pos => by
      cases v with
      | seq vs =>
        simp only [Ty.blocks, Ty.enc]
        by_cases hz : t.isZC = true
        · simp only [hz, if_true]; exact BlocksIn.single (by omega) (by simp; omega)
        · simp only [hz, if_false, Bool.false_eq_true]
          exact blocksList_in t vs (fun v _ => Ty.blocks_in t v) pos
      | _ => simp only [Ty.blocks]; exact BlocksIn.nil _ _
  | .tuple t n, v, pos => by
      cases v with
      | seq vs => simp only [Ty.blocks, Ty.enc]; exact BlocksIn.single (by omega) (by simp; omega)
      | _ => simp only [Ty.blocks]; exact BlocksIn.nil _ _
  | .option t, v, pos => by
      cases v with
      | variant i fs =>
        match i, fs with
        | 1, [x] =>
          simp only [Ty.blocks, Ty.enc, List.length_cons]
          exact (Ty.blocks_in t x (pos + 1)).mono (by omega) (by omega)
        | 0, _ => simp only [Ty.blocks]; exact BlocksIn.nil _ _
        | 1, [] => simp only [Ty.blocks]; exact BlocksIn.nil _ _
        | 1, _ :: _ :: _ => simp only [Ty.blocks]; exact BlocksIn.nil _ _
        | _ + 2, _ => simp only [Ty.blocks]; exact BlocksIn.nil _ _
      | _ => simp only [Ty.blocks]; exact BlocksIn.nil _ _
  | .bound t, v, pos => by
      cases v with
      | variant i fs =>
        match i, fs with
        | 1, [x] =>
          simp only [Ty.blocks, Ty.enc, List.length_cons]
          exact (Ty.blocks_in t x (pos + 1)).mono (by omega) (by omega)
        | 2, [x] =>
          simp only [Ty.blocks, Ty.enc, List.length_cons]
          exact (Ty.blocks_in t x (pos + 1)).mono (by omega) (by omega)
        | 0, _ => simp only [Ty.blocks]; exact BlocksIn.nil _ _
        | 1, [] => simp only [Ty.blocks]; exact BlocksIn.nil _ _
        | 1, _ :: _ :: _ => simp only [Ty.blocks]; exact BlocksIn.nil _ _
        | 2, [] => simp only [Ty.blocks]; exact BlocksIn.nil _ _
        | 2, _ :: _ :: _ => simp only [Ty.blocks]; exact BlocksIn.nil _ _
        | _ + 3, _ => simp only [Ty.blocks]; exact BlocksIn.nil _ _
      | _ => simp only [Ty.blocks]; exact BlocksIn.nil _ _
  | .controlFlow b c, v, pos => by
      cases v with
      | variant i fs =>
        match i, fs with
        | 0, [x] =>
          simp only [Ty.blocks, Ty.enc, List.length_cons]
          exact (Ty.blocks_in b x (pos + 1)).mono (by omega) (by omega)
        | 1, [x] =>
          simp only [Ty.blocks, Ty.enc, List.length_cons]
          exact (Ty.blocks_in c x (pos + 1)).mono (by omega) (by omega)
        | 0, [] => simp only [Ty.blocks]; exact BlocksIn.nil _ _
        | 0, _ :: _ :: _ => simp only [Ty.blocks]; exact BlocksIn.nil _ _
        | 1, [] => simp only [Ty.blocks]; exact BlocksIn.nil _ _
        | 1, _ :: _ :: _ => simp only [Ty.blocks]; exact BlocksIn.nil _ _
        | _ + 2, _ => simp only [Ty.blocks]; exact BlocksIn.nil _ _
      | _ => simp only [Ty.blocks]; exact BlocksIn.nil _ _
  | .range k t, v, pos => by
      cases v with
      | record fs =>
        cases k with
        | range =>
          match fs with
          | [a, b] =>
            simp only [Ty.blocks, Ty.enc, List.length_append]
            exact BlocksIn.append ((Ty.blocks_in t a pos).mono (Nat.le_refl _) (by omega))
              ((Ty.blocks_in t b _).mono (by omega) (by omega))
          | [] => simp only [Ty.blocks]; exact BlocksIn.nil _ _
          | [_] => simp only [Ty.blocks]; exact BlocksIn.nil _ _
          | _ :: _ :: _ :: _ => simp only [Ty.blocks]; exact BlocksIn.nil _ _
        | incl =>
          match fs with
          | [a, b] =>
            simp only [Ty.blocks, Ty.enc, List.length_append]
            exact BlocksIn.append ((Ty.blocks_in t a pos).mono (Nat.le_refl _) (by omega))
              ((Ty.blocks_in t b _).mono (by omega) (by omega))
          | [] => simp only [Ty.blocks]; exact BlocksIn.nil _ _
          | [_] => simp only [Ty.blocks]; exact BlocksIn.nil _ _
          | _ :: _ :: _ :: _ => simp only [Ty.blocks]; exact BlocksIn.nil _ _
        | «from» =>
          match fs with
          | [a] => simp only [Ty.blocks, Ty.enc]; exact Ty.blocks_in t a pos
          | [] => simp only [Ty.blocks]; exact BlocksIn.nil _ _
          | _ :: _ :: _ => simp only [Ty.blocks]; exact BlocksIn.nil _ _
        | to =>
          match fs with
          | [a] => simp only [Ty.blocks, Ty.enc]; exact Ty.blocks_in t a pos
          | [] => simp only [Ty.blocks]; exact BlocksIn.nil _ _
          | _ :: _ :: _ => simp only [Ty.blocks]; exact BlocksIn.nil _ _
        | toIncl =>
          match fs with
          | [a] => simp only [Ty.blocks, Ty.enc]; exact Ty.blocks_in t a pos
          | [] => simp only [Ty.blocks]; exact BlocksIn.nil _ _
          | _ :: _ :: _ => simp only [Ty.blocks]; exact BlocksIn.nil _ _
      | _ => cases k <;> (simp only [Ty.blocks]; exact BlocksIn.nil _ _)
  | .adt m vs, v, pos => by
      by_cases hz : m.zero = true
      · cases v with
        | record fs =>
          rw [Ty.blocks_adt_zero m vs fs pos hz, Ty.enc_adt_zero m vs fs pos hz]
          exact BlocksIn.single (by omega) (by simp; omega)
        | variant i fs =>
          simp only [Ty.blocks, Ty.enc, hz, if_true]
          exact BlocksIn.single (by omega) (by simp; omega)
        | _ => simp only [Ty.blocks]; exact BlocksIn.nil _ _
      · have hzf : m.zero = false := by simpa using hz
        cases v with
        | record fs =>
          match vs with
          | .cons vn fds .nil =>
            simp only [Ty.blocks, Ty.enc, hzf, Bool.false_eq_true, if_false]
            exact Fields.blocks_in fds fs pos
          | .nil => simp only [Ty.blocks, hzf, Bool.false_eq_true, if_false]; exact BlocksIn.nil _ _
          | .cons _ _ (.cons _ _ _) => simp only [Ty.blocks, hzf, Bool.false_eq_true, if_false]; exact BlocksIn.nil _ _
        | variant i fs =>
          rw [Ty.blocks_adt_enum m vs i fs pos hzf, Ty.enc_adt_enum m vs i fs pos hzf]
          simp only [List.length_append, leBytes_length]
          exact (Variants.blocks_in vs i fs (pos + 8)).mono (by omega) (by omega)
        | _ => simp only [Ty.blocks]; exact BlocksIn.nil _ _
theorem Ty.blocksSeq_in : ∀ (t : Ty) (vs : List Val) (pos : Nat),
    BlocksIn (Ty.blocksSeq t vs pos) pos (pos + (Ty.encSeq t vs pos).length)
  | t, vs, pos => by
      simp only [Ty.blocksSeq, Ty.encSeq]
      by_cases hz : t.isZC = true
      · simp only [hz, if_true]; exact BlocksIn.single (by omega) (by simp; omega)
      · simp only [hz, if_false, Bool.false_eq_true, List.length_append, leBytes_length]
        exact (blocksList_in t vs (fun v _ => Ty.blocks_in t v) (pos + 8)).mono (by omega) (by omega)
theorem Fields.blocks_in : ∀ (f : Fields) (vs : List Val) (pos : Nat), BlocksIn (f.blocks vs pos) pos (pos + (f.enc vs pos).length)
  | .nil, vs, pos => by simp [Fields.blocks, BlocksIn.nil]
  | .cons _ _ t r, vs, pos => by
      cases vs with
      | nil => simp [Fields.blocks, BlocksIn.nil]
      | cons v vs =>
        simp only [Fields.blocks, Fields.enc, List.length_append]
        exact BlocksIn.append ((Ty.blocks_in t v pos).mono (Nat.le_refl _) (by omega))
          ((Fields.blocks_in r vs _).mono (by omega) (by omega))
theorem Variants.blocks_in : ∀ (vs : Variants) (i : Nat) (vals : List Val) (pos : Nat),
    BlocksIn (vs.blocks i vals pos) pos (pos + (vs.enc i vals pos).length)
  | .nil, _, _, _ => by simp [Variants.blocks, BlocksIn.nil]
  | .cons _ fs r, 0, vals, pos => by simp only [Variants.blocks, Variants.enc]; exact Fields.blocks_in fs vals pos
  | .cons _ fs r, i+1, vals, pos => by simp only [Variants.blocks, Variants.enc]; exact Variants.blocks_in r i vals pos
end

end Eps
