/-
  Reader steps on well-formed input: what `read_exact`, fixed-width words, `align` and loops
  return when the stream starts with what the writer wrote.
-/
import EpsModel.Blocks
import EpsModel.Lemmas.Mem
namespace Eps

@[simp] theorem Res.bind_ok (a : α) (f : α → Res β) : (Res.ok a).bind f = f a := rfl
@[simp] theorem Res.bind_err (e : Err) (f : α → Res β) : (Res.err e : Res α).bind f = .err e := rfl
@[simp] theorem Res.bind_panic (f : α → Res β) : (Res.panic : Res α).bind f = .panic := rfl

theorem readExact_append (a rest : B) (pos : Nat) :
    readExact a.length (a ++ rest) pos = .ok (a, rest, pos + a.length) := by
  simp [readExact]

theorem readExact_append' (n : Nat) (a rest : B) (pos : Nat) (h : a.length = n) :
    readExact n (a ++ rest) pos = .ok (a, rest, pos + n) := by
  subst h; exact readExact_append a rest pos

theorem takeOrPanic_append' (n : Nat) (a rest : B) (pos : Nat) (h : a.length = n) :
    takeOrPanic n (a ++ rest) pos = .ok (a, rest, pos + n) := by
  subst h; simp [takeOrPanic]

theorem readWord_leBytes (w n : Nat) (rest : B) (pos : Nat) (h : n < 2 ^ (8 * w)) :
    readWord w (leBytes w n ++ rest) pos = .ok (n, rest, pos + w) := by
  have := readExact_append' w (leBytes w n) rest pos (by simp)
  simp [readWord, this, leVal_leBytes w n h]

theorem readWord_byte (b : UInt8) (rest : B) (pos : Nat) :
    readWord 1 (b :: rest) pos = .ok (b.toNat, rest, pos + 1) := by
  simp [readWord, readExact, leVal]

theorem alignRead_ok (m : Mode) (u pos : Nat) (rest : B) (h : ModeOK m (pos + pad pos u) u) :
    alignRead m u (zeros (pad pos u) ++ rest) pos = .ok ((), rest, pos + pad pos u) := by
  cases m with
  | reader =>
    simp [alignRead, readExact_append' (pad pos u) (zeros (pad pos u)) rest pos (by simp)]
  | slice base =>
    simp only [ModeOK] at h
    simp [alignRead, takeOrPanic_append' (pad pos u) (zeros (pad pos u)) rest pos (by simp), h]

/-! Unfolding of the derived-type clauses (the definitions split on the shape of the variant list). -/

theorem Ty.enc_adt_zero (m : AdtMeta) (vs : Variants) (fs : List Val) (pos : Nat) (h : m.zero = true) :
    Ty.enc (.adt m vs) (.record fs) pos
      = zeros (pad pos (Ty.maxSizeOf (.adt m vs))) ++ Ty.toMem (.adt m vs) (.record fs) := by
  cases vs with
  | nil => simp [Ty.enc, h]
  | cons n f r => cases r <;> simp [Ty.enc, h]

theorem Ty.blocks_adt_zero (m : AdtMeta) (vs : Variants) (fs : List Val) (pos : Nat) (h : m.zero = true) :
    Ty.blocks (.adt m vs) (.record fs) pos
      = [⟨pos + pad pos (Ty.maxSizeOf (.adt m vs)), (Ty.toMem (.adt m vs) (.record fs)).length, Ty.maxSizeOf (.adt m vs)⟩] := by
  cases vs with
  | nil => simp [Ty.blocks, h]
  | cons n f r => cases r <;> simp [Ty.blocks, h]

theorem Ty.decFull_adt_zero (md : Mode) (m : AdtMeta) (vs : Variants) (d : B) (pos : Nat) (h : m.zero = true) :
    Ty.decFull md (.adt m vs) d pos = decFullZero md (.adt m vs) d pos := by
  cases vs with
  | nil => simp [Ty.decFull, h]
  | cons n f r => cases r <;> simp [Ty.decFull, h]

theorem Ty.enc_adt_zero_variant (m : AdtMeta) (vs : Variants) (i : Nat) (fs : List Val) (pos : Nat) (h : m.zero = true) :
    Ty.enc (.adt m vs) (.variant i fs) pos
      = zeros (pad pos (Ty.maxSizeOf (.adt m vs))) ++ Ty.toMem (.adt m vs) (.variant i fs) := by
  cases vs with
  | nil => simp [Ty.enc, h]
  | cons n f r => cases r <;> simp [Ty.enc, h]

theorem Ty.blocks_adt_zero_variant (m : AdtMeta) (vs : Variants) (i : Nat) (fs : List Val) (pos : Nat) (h : m.zero = true) :
    Ty.blocks (.adt m vs) (.variant i fs) pos
      = [⟨pos + pad pos (Ty.maxSizeOf (.adt m vs)), (Ty.toMem (.adt m vs) (.variant i fs)).length, Ty.maxSizeOf (.adt m vs)⟩] := by
  cases vs with
  | nil => simp [Ty.blocks, h]
  | cons n f r => cases r <;> simp [Ty.blocks, h]

theorem Ty.enc_adt_enum (m : AdtMeta) (vs : Variants) (i : Nat) (fs : List Val) (pos : Nat) (h : m.zero = false) :
    Ty.enc (.adt m vs) (.variant i fs) pos = leBytes 8 i ++ Variants.enc vs i fs (pos + 8) := by
  simp [Ty.enc, h]

theorem Ty.blocks_adt_enum (m : AdtMeta) (vs : Variants) (i : Nat) (fs : List Val) (pos : Nat) (h : m.zero = false) :
    Ty.blocks (.adt m vs) (.variant i fs) pos = Variants.blocks vs i fs (pos + 8) := by
  simp [Ty.blocks, h]

theorem Ty.decFull_adt_enum (md : Mode) (m : AdtMeta) (vs : Variants) (d : B) (pos : Nat)
    (h : m.zero = false) (he : m.isEnum = true) :
    Ty.decFull md (.adt m vs) d pos
      = (readWord 8 d pos).bind fun (tag, d, pos) => Variants.decFull md vs tag tag d pos := by
  cases vs with
  | nil => simp [Ty.decFull, h, he]
  | cons n f r => cases r <;> simp [Ty.decFull, h, he]

/-- A loop over the elements the writer wrote one after the other. -/
theorem decMany_encList (m : Mode) (t : Ty) (vs : List Val)
    (h : ∀ v ∈ vs, ∀ pos rest, AlignedAll m (t.blocks v pos) →
        t.decFull m (t.enc v pos ++ rest) pos = .ok (v, rest, pos + (t.enc v pos).length))
    (pos : Nat) (rest : B) (ha : AlignedAll m (Ty.blocksList t vs pos)) :
    decMany (t.decFull m) vs.length (Ty.encList t vs pos ++ rest) pos
      = .ok (vs, rest, pos + (Ty.encList t vs pos).length) := by
  induction vs generalizing pos with
  | nil => simp [decMany, Ty.encList]
  | cons v vs ih =>
    simp only [Ty.blocksList, AlignedAll_append] at ha
    simp only [List.length_cons, decMany, Ty.encList, List.append_assoc]
    rw [h v (by simp) pos _ ha.1]
    simp only [Res.bind_ok]
    rw [ih (fun w hw => h w (by simp [hw])) _ ha.2]
    simp [Nat.add_assoc]

end Eps
