/-
  `vecify` (slice references / iterator wrappers replaced by vectors, anywhere in a type) changes
  no layout table, no byte written and no alignment-hash feed.
-/
import EpsModel.Iter
import EpsModel.Lemmas.Basic
namespace Eps

mutual
theorem Ty.alignOf_vecify : ∀ t : Ty, t.vecify.alignOf = t.alignOf
  | .prim _ | .string | .boxStr | .rangeFull => by simp [Ty.vecify]
  | .phantom _ | .vec _ | .boxSlice _ | .sliceRef _ | .serIter _ | .option _ | .bound _ | .controlFlow _ _ => by
      simp [Ty.vecify, Ty.alignOf]
  | .array t _ => by simp only [Ty.vecify, Ty.alignOf]; exact Ty.alignOf_vecify t
  | .tuple t _ => by simp only [Ty.vecify, Ty.alignOf]; exact Ty.alignOf_vecify t
  | .range _ t => by simp only [Ty.vecify, Ty.alignOf]; exact Ty.alignOf_vecify t
  | .adt m vs => by simp only [Ty.vecify, Ty.alignOf]; rw [Variants.maxAlign_vecify vs]
theorem Fields.maxAlign_vecify : ∀ f : Fields, f.vecify.maxAlign = f.maxAlign
  | .nil => by simp [Fields.vecify]
  | .cons _ _ t r => by simp only [Fields.vecify, Fields.maxAlign]; rw [Ty.alignOf_vecify t, Fields.maxAlign_vecify r]
theorem Variants.maxAlign_vecify : ∀ v : Variants, v.vecify.maxAlign = v.maxAlign
  | .nil => by simp [Variants.vecify]
  | .cons _ fs r => by simp only [Variants.vecify, Variants.maxAlign]; rw [Fields.maxAlign_vecify fs, Variants.maxAlign_vecify r]
end

mutual
theorem Ty.sizeOf_vecify : ∀ t : Ty, t.vecify.sizeOf = t.sizeOf
  | .prim _ | .string | .boxStr | .rangeFull => by simp [Ty.vecify]
  | .phantom _ | .vec _ | .boxSlice _ | .sliceRef _ | .serIter _ | .option _ | .bound _ | .controlFlow _ _ => by
      simp [Ty.vecify, Ty.sizeOf]
  | .array t _ => by simp only [Ty.vecify, Ty.sizeOf]; rw [Ty.sizeOf_vecify t]
  | .tuple t _ => by simp only [Ty.vecify, Ty.sizeOf]; rw [Ty.sizeOf_vecify t]
  | .range k t => by
      cases k <;> simp only [Ty.vecify, Ty.sizeOf] <;> simp only [Ty.sizeOf_vecify t, Ty.alignOf_vecify t]
  | .adt m vs => by
      have ha := Ty.alignOf_vecify (.adt m vs)
      simp only [Ty.vecify] at ha
      cases vs with
      | nil => simp only [Ty.vecify, Variants.vecify, Ty.sizeOf] at ha ⊢
      | cons n f r =>
        cases r with
        | nil =>
          simp only [Ty.vecify, Variants.vecify, Ty.sizeOf] at ha ⊢
          rw [ha]
          simp only [Variants.maxAlign, Variants.maxSize, Fields.maxAlign_vecify, Fields.endOffset_vecify]
        | cons n' f' r' =>
          simp only [Ty.vecify, Variants.vecify, Ty.sizeOf] at ha ⊢
          rw [ha]
          simp only [Variants.maxAlign, Variants.maxSize, Fields.maxAlign_vecify, Fields.endOffset_vecify,
            Variants.maxAlign_vecify, Variants.maxSize_vecify]
theorem Fields.endOffset_vecify : ∀ (f : Fields) (o : Nat), f.vecify.endOffset o = f.endOffset o
  | .nil, _ => by simp [Fields.vecify]
  | .cons _ _ t r, o => by
      simp only [Fields.vecify, Fields.endOffset]
      rw [Ty.alignOf_vecify t, Ty.sizeOf_vecify t, Fields.endOffset_vecify r]
theorem Variants.maxSize_vecify : ∀ v : Variants, v.vecify.maxSize = v.maxSize
  | .nil => by simp [Variants.vecify]
  | .cons _ fs r => by
      simp only [Variants.vecify, Variants.maxSize]
      rw [Fields.endOffset_vecify fs 0, Fields.maxAlign_vecify fs, Variants.maxSize_vecify r]
end

end Eps
