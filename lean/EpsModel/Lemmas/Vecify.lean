/-
  `vecify` (slice references / iterator wrappers replaced by vectors, anywhere in a type) changes
  no layout table, no byte written and no alignment-hash feed.
-/
import EpsModel.Iter
import EpsModel.Lemmas.Basic
import EpsModel.Hash
namespace Eps

mutual
theorem Ty.alignOf_vecify : ∀ t : Ty, t.vecify.alignOf = t.alignOf
  | .prim _ | .string | .boxStr | .rangeFull => by simp [Ty.vecify]
  | .phantom _ | .vec _ | .boxSlice _ | .sliceRef _ | .serIter _ | .option _ | .bound _ | .controlFlow _ _ => by
      simp [Ty.vecify, Ty.alignOf]
  | .array t _ => by simp only [Ty.vecify, Ty.alignOf]; exact Ty.alignOf_vecify t
  | .tuple t _ => by simp only [Ty.vecify, Ty.alignOf]; exact Ty.alignOf_vecify t
  | .range _ t => by simp only [Ty.vecify, Ty.alignOf]; exact Ty.alignOf_vecify t
  | .adt m vs => by simp only [Ty.vecify, Ty.alignOf]; rw [Variants.maxAlign_vecify vs]
theorem Fields.maxAlign_vecify : ∀ f : Fields, f.vecify.maxAlign = f.maxAlign
  | .nil => by simp [Fields.vecify]
  | .cons _ _ t r => by simp only [Fields.vecify, Fields.maxAlign]; rw [Ty.alignOf_vecify t, Fields.maxAlign_vecify r]
theorem Variants.maxAlign_vecify : ∀ v : Variants, v.vecify.maxAlign = v.maxAlign
  | .nil => by simp [Variants.vecify]
  | .cons _ fs r => by simp only [Variants.vecify, Variants.maxAlign]; rw [Fields.maxAlign_vecify fs, Variants.maxAlign_vecify r]
end

mutual
theorem Ty.sizeOf_vecify : ∀ t : Ty, t.vecify.sizeOf = t.sizeOf
  | .prim _ | .string | .boxStr | .rangeFull => by simp [Ty.vecify]
  | .phantom _ | .vec _ | .boxSlice _ | .sliceRef _ | .serIter _ | .option _ | .bound _ | .controlFlow _ _ => by
      simp [Ty.vecify, Ty.sizeOf]
  | .array t _ => by simp only [Ty.vecify, Ty.sizeOf]; rw [Ty.sizeOf_vecify t]
  | .tuple t _ => by simp only [Ty.vecify, Ty.sizeOf]; rw [Ty.sizeOf_vecify t]
  | .range k t => by
      cases k <;> simp only [Ty.vecify, Ty.sizeOf] <;> simp only [Ty.sizeOf_vecify t, Ty.alignOf_vecify t]
  | .adt m vs => by
      have ha := Ty.alignOf_vecify (.adt m vs)
      simp only [Ty.vecify] at ha
      cases vs with
      | nil => simp only [Ty.vecify, Variants.vecify, Ty.sizeOf] at ha ⊢
      | cons n f r =>
        cases r with
        | nil =>
          simp only [Ty.vecify, Variants.vecify, Ty.sizeOf] at ha ⊢
          rw [ha]
          simp only [Variants.maxAlign, Variants.maxSize, Fields.maxAlign_vecify, Fields.endOffset_vecify]
        | cons n' f' r' =>
          simp only [Ty.vecify, Variants.vecify, Ty.sizeOf] at ha ⊢
          rw [ha]
          simp only [Variants.maxAlign, Variants.maxSize, Fields.maxAlign_vecify, Fields.endOffset_vecify,
            Variants.maxAlign_vecify, Variants.maxSize_vecify]
theorem Fields.endOffset_vecify : ∀ (f : Fields) (o : Nat), f.vecify.endOffset o = f.endOffset o
  | .nil, _ => by simp [Fields.vecify]
  | .cons _ _ t r, o => by
      simp only [Fields.vecify, Fields.endOffset]
      rw [Ty.alignOf_vecify t, Ty.sizeOf_vecify t, Fields.endOffset_vecify r]
theorem Variants.maxSize_vecify : ∀ v : Variants, v.vecify.maxSize = v.maxSize
  | .nil => by simp [Variants.vecify]
  | .cons _ fs r => by
      simp only [Variants.vecify, Variants.maxSize]
      rw [Fields.endOffset_vecify fs 0, Fields.maxAlign_vecify fs, Variants.maxSize_vecify r]
end


mutual
theorem Ty.isZC_vecify : ∀ t : Ty, t.vecify.isZC = t.isZC
  | .prim _ | .string | .boxStr | .rangeFull => by simp [Ty.vecify]
  | .phantom _ | .vec _ | .boxSlice _ | .sliceRef _ | .serIter _ | .option _ | .bound _ | .controlFlow _ _ => by
      simp [Ty.vecify, Ty.isZC]
  | .array t _ => by simp only [Ty.vecify, Ty.isZC]; exact Ty.isZC_vecify t
  | .tuple t _ => by simp only [Ty.vecify, Ty.isZC]; rw [Ty.isZC_vecify t]
  | .range k t => by cases k <;> simp only [Ty.vecify, Ty.isZC] <;> exact Ty.isZC_vecify t
  | .adt m vs => by simp only [Ty.vecify, Ty.isZC]; rw [Variants.allZC_vecify vs]
theorem Fields.allZC_vecify : ∀ f : Fields, f.vecify.allZC = f.allZC
  | .nil => by simp [Fields.vecify]
  | .cons _ _ t r => by simp only [Fields.vecify, Fields.allZC]; rw [Ty.isZC_vecify t, Fields.allZC_vecify r]
theorem Variants.allZC_vecify : ∀ v : Variants, v.vecify.allZC = v.allZC
  | .nil => by simp [Variants.vecify]
  | .cons _ fs r => by simp only [Variants.vecify, Variants.allZC]; rw [Fields.allZC_vecify fs, Variants.allZC_vecify r]
end

mutual
theorem Ty.maxSizeOf_vecify : ∀ t : Ty, t.vecify.maxSizeOf = t.maxSizeOf
  | .prim _ | .string | .boxStr | .rangeFull => by simp [Ty.vecify]
  | .phantom _ | .vec _ | .boxSlice _ | .sliceRef _ | .serIter _ | .option _ | .bound _ | .controlFlow _ _ => by
      simp [Ty.vecify, Ty.maxSizeOf]
  | .array t _ => by simp only [Ty.vecify, Ty.maxSizeOf]; exact Ty.maxSizeOf_vecify t
  | .tuple t _ => by simp only [Ty.vecify, Ty.maxSizeOf]; exact Ty.maxSizeOf_vecify t
  | .range k t => by
      have := Ty.sizeOf_vecify (.range k t)
      simp only [Ty.vecify] at this
      simp only [Ty.vecify, Ty.maxSizeOf]; exact this
  | .adt m vs => by
      have := Ty.alignOf_vecify (.adt m vs)
      simp only [Ty.vecify] at this
      simp only [Ty.vecify, Ty.maxSizeOf]; rw [this, Variants.maxUnit_vecify vs]
theorem Fields.maxUnit_vecify : ∀ f : Fields, f.vecify.maxUnit = f.maxUnit
  | .nil => by simp [Fields.vecify]
  | .cons _ _ t r => by simp only [Fields.vecify, Fields.maxUnit]; rw [Ty.maxSizeOf_vecify t, Fields.maxUnit_vecify r]
theorem Variants.maxUnit_vecify : ∀ v : Variants, v.vecify.maxUnit = v.maxUnit
  | .nil => by simp [Variants.vecify]
  | .cons _ fs r => by simp only [Variants.vecify, Variants.maxUnit]; rw [Fields.maxUnit_vecify fs, Variants.maxUnit_vecify r]
end

mutual
theorem Ty.toMem_vecify : ∀ (t : Ty) (v : Val), t.vecify.toMem v = t.toMem v
  | .prim _, v | .string, v | .boxStr, v | .rangeFull, v => by simp [Ty.vecify]
  | .phantom _, v | .vec _, v | .boxSlice _, v | .sliceRef _, v | .serIter _, v | .option _, v | .bound _, v | .controlFlow _ _, v => by
      cases v <;> simp [Ty.vecify, Ty.toMem]
  | .array t _, v => by cases v <;> simp [Ty.vecify, Ty.toMem, Ty.toMemList_vecify t]
  | .tuple t _, v => by cases v <;> simp [Ty.vecify, Ty.toMem, Ty.toMemList_vecify t]
  | .range k t, v => by
      cases k <;> cases v <;> simp only [Ty.vecify, Ty.toMem]
      all_goals
        rename_i fs
        match fs with
        | [a] => simp only [Ty.toMem, Ty.toMem_vecify t a]
        | [] => simp [Ty.toMem]
        | _ :: _ :: _ => simp [Ty.toMem]
  | .adt m vs, v => by
      have hs := Ty.sizeOf_vecify (.adt m vs)
      simp only [Ty.vecify] at hs
      cases v with
      | record fs =>
        cases vs with
        | nil => simp [Ty.vecify, Variants.vecify, Ty.toMem]
        | cons n f r =>
          cases r with
          | nil =>
            simp only [Ty.vecify, Variants.vecify] at hs ⊢
            simp only [Ty.toMem, hs, Fields.toMem_vecify f fs 0]
          | cons n' f' r' => simp [Ty.vecify, Variants.vecify, Ty.toMem]
      | variant i fs =>
        simp only [Ty.vecify, Ty.toMem, hs, Variants.maxAlign_vecify, Variants.toMem_vecify vs i fs]
      | _ => simp [Ty.vecify, Ty.toMem]
theorem Ty.toMemList_vecify : ∀ (t : Ty) (vs : List Val), Ty.toMemList t.vecify vs = Ty.toMemList t vs
  | _, [] => by simp [Ty.toMemList]
  | t, v :: vs => by simp only [Ty.toMemList]; rw [Ty.toMem_vecify t v, Ty.toMemList_vecify t vs]
theorem Fields.toMem_vecify : ∀ (f : Fields) (vs : List Val) (o : Nat), f.vecify.toMem vs o = f.toMem vs o
  | .nil, vs, o => by simp [Fields.vecify, Fields.toMem]
  | .cons _ _ t r, [], o => by simp [Fields.vecify, Fields.toMem]
  | .cons _ _ t r, v :: vs, o => by
      simp only [Fields.vecify, Fields.toMem]
      rw [Ty.alignOf_vecify t, Ty.sizeOf_vecify t, Ty.toMem_vecify t v, Fields.toMem_vecify r vs]
theorem Variants.toMem_vecify : ∀ (vs : Variants) (i : Nat) (fs : List Val), vs.vecify.toMem i fs = vs.toMem i fs
  | .nil, _, _ => by simp [Variants.vecify, Variants.toMem]
  | .cons _ f _, 0, fs => by simp only [Variants.vecify, Variants.toMem]; exact Fields.toMem_vecify f fs 0
  | .cons _ _ r, i+1, fs => by simp only [Variants.vecify, Variants.toMem]; exact Variants.toMem_vecify r i fs
end


mutual
/-- **No byte changes**: a value serialized at a type in which slice references / iterator wrappers
    occur anywhere (under vectors, options, arrays, as fields of derived structures and enums, at any
    depth) is written exactly as at the type with vectors in their place. -/
theorem Ty.enc_vecify : ∀ (t : Ty) (v : Val) (pos : Nat), t.vecify.enc v pos = t.enc v pos
  | .prim _, v, pos | .string, v, pos | .boxStr, v, pos | .rangeFull, v, pos => by simp [Ty.vecify]
  | .phantom _, v, pos => by cases v <;> simp [Ty.vecify, Ty.enc]
  | .vec t, v, pos => by cases v <;> simp [Ty.vecify, Ty.enc, Ty.encSeq_vecify t]
  | .boxSlice t, v, pos => by cases v <;> simp [Ty.vecify, Ty.enc, Ty.encSeq_vecify t]
  | .sliceRef t, v, pos => by cases v <;> simp [Ty.vecify, Ty.enc, Ty.encSeq_vecify t]
  | .serIter t, v, pos => by cases v <;> simp [Ty.vecify, Ty.enc, Ty.encSeq_vecify t]
  | .array t n, v, pos => by
      cases v <;> simp [Ty.vecify, Ty.enc, Ty.isZC_vecify t, Ty.maxSizeOf_vecify t, Ty.toMemList_vecify t, Ty.encList_vecify t]
  | .tuple t n, v, pos => by
      cases v <;> simp [Ty.vecify, Ty.enc, Ty.maxSizeOf_vecify t, Ty.toMemList_vecify t]
  | .option t, v, pos => by
      cases v with
      | variant i fs =>
        match i, fs with
        | 0, [] => simp [Ty.vecify, Ty.enc]
        | 1, [x] => simp [Ty.vecify, Ty.enc, Ty.enc_vecify t x]
        | 0, _ :: _ => simp [Ty.vecify, Ty.enc]
        | 1, [] => simp [Ty.vecify, Ty.enc]
        | 1, _ :: _ :: _ => simp [Ty.vecify, Ty.enc]
        | _+2, _ => simp [Ty.vecify, Ty.enc]
      | _ => simp [Ty.vecify, Ty.enc]
  | .bound t, v, pos => by
      cases v with
      | variant i fs =>
        match i, fs with
        | 0, [] => simp [Ty.vecify, Ty.enc]
        | 1, [x] => simp [Ty.vecify, Ty.enc, Ty.enc_vecify t x]
        | 2, [x] => simp [Ty.vecify, Ty.enc, Ty.enc_vecify t x]
        | 0, _ :: _ => simp [Ty.vecify, Ty.enc]
        | 1, [] => simp [Ty.vecify, Ty.enc]
        | 1, _ :: _ :: _ => simp [Ty.vecify, Ty.enc]
        | 2, [] => simp [Ty.vecify, Ty.enc]
        | 2, _ :: _ :: _ => simp [Ty.vecify, Ty.enc]
        | _+3, _ => simp [Ty.vecify, Ty.enc]
      | _ => simp [Ty.vecify, Ty.enc]
  | .controlFlow b c, v, pos => by
      cases v with
      | variant i fs =>
        match i, fs with
        | 0, [x] => simp [Ty.vecify, Ty.enc, Ty.enc_vecify b x]
        | 1, [x] => simp [Ty.vecify, Ty.enc, Ty.enc_vecify c x]
        | 0, [] => simp [Ty.vecify, Ty.enc]
        | 0, _ :: _ :: _ => simp [Ty.vecify, Ty.enc]
        | 1, [] => simp [Ty.vecify, Ty.enc]
        | 1, _ :: _ :: _ => simp [Ty.vecify, Ty.enc]
        | _+2, _ => simp [Ty.vecify, Ty.enc]
      | _ => simp [Ty.vecify, Ty.enc]
  | .range k t, v, pos => by
      cases v with
      | record fs =>
        cases k <;>
        (match fs with
         | [] => simp [Ty.vecify, Ty.enc]
         | [a] => simp [Ty.vecify, Ty.enc, Ty.enc_vecify t a]
         | [a, b] => simp [Ty.vecify, Ty.enc, Ty.enc_vecify t a, Ty.enc_vecify t b]
         | _ :: _ :: _ :: _ => simp [Ty.vecify, Ty.enc])
      | _ => cases k <;> simp [Ty.vecify, Ty.enc]
  | .adt m vs, v, pos => by
      have hm := Ty.maxSizeOf_vecify (.adt m vs)
      have ht := Ty.toMem_vecify (.adt m vs) v
      simp only [Ty.vecify] at hm ht
      cases v with
      | record fs =>
        cases vs with
        | nil => simp only [Ty.vecify, Variants.vecify, Ty.enc] at hm ht ⊢; (try rw [hm, ht])
        | cons n f r =>
          cases r with
          | nil =>
            simp only [Ty.vecify, Variants.vecify, Ty.enc] at hm ht ⊢
            rw [hm, ht, Fields.enc_vecify f fs pos]
          | cons n' f' r' =>
            simp only [Ty.vecify, Variants.vecify, Ty.enc] at hm ht ⊢; rw [hm, ht]
      | variant i fs =>
        simp only [Ty.vecify, Ty.enc] at hm ht ⊢
        rw [hm, ht, Variants.enc_vecify vs i fs (pos + 8)]
      | _ => simp [Ty.vecify, Ty.enc]
theorem Ty.encSeq_vecify : ∀ (t : Ty) (vs : List Val) (pos : Nat), Ty.encSeq t.vecify vs pos = Ty.encSeq t vs pos
  | t, vs, pos => by
      simp only [Ty.encSeq, Ty.isZC_vecify t, Ty.maxSizeOf_vecify t, Ty.toMemList_vecify t, Ty.encList_vecify t]
theorem Ty.encList_vecify : ∀ (t : Ty) (vs : List Val) (pos : Nat), Ty.encList t.vecify vs pos = Ty.encList t vs pos
  | _, [], _ => by simp [Ty.encList]
  | t, v :: vs, pos => by
      simp only [Ty.encList]
      rw [Ty.enc_vecify t v pos, Ty.encList_vecify t vs]
theorem Fields.enc_vecify : ∀ (f : Fields) (vs : List Val) (pos : Nat), f.vecify.enc vs pos = f.enc vs pos
  | .nil, vs, pos => by simp [Fields.vecify, Fields.enc]
  | .cons _ _ t r, [], pos => by simp [Fields.vecify, Fields.enc]
  | .cons _ _ t r, v :: vs, pos => by
      simp only [Fields.vecify, Fields.enc]
      rw [Ty.enc_vecify t v pos, Fields.enc_vecify r vs]
theorem Variants.enc_vecify : ∀ (vs : Variants) (i : Nat) (fs : List Val) (pos : Nat), vs.vecify.enc i fs pos = vs.enc i fs pos
  | .nil, _, _, _ => by simp [Variants.vecify, Variants.enc]
  | .cons _ f _, 0, fs, pos => by simp only [Variants.vecify, Variants.enc]; exact Fields.enc_vecify f fs pos
  | .cons _ _ r, i+1, fs, pos => by simp only [Variants.vecify, Variants.enc]; exact Variants.enc_vecify r i fs pos
end


theorem alignFeedRep_vecify_of (t : Ty) (h : ∀ off, t.vecify.alignFeed off = t.alignFeed off) :
    ∀ (n off : Nat), Ty.alignFeedRep t.vecify n off = Ty.alignFeedRep t n off
  | 0, _ => by simp [Ty.alignFeedRep]
  | n+1, off => by simp only [Ty.alignFeedRep, h off, alignFeedRep_vecify_of t h n]

mutual
theorem Ty.alignFeed_vecify : ∀ (t : Ty) (off : Nat), t.vecify.alignFeed off = t.alignFeed off
  | .prim _, off | .string, off | .boxStr, off | .rangeFull, off => by simp [Ty.vecify]
  | .phantom _, off | .bound _, off => by simp [Ty.vecify, Ty.alignFeed]
  | .vec t, off | .boxSlice t, off | .sliceRef t, off | .serIter t, off | .option t, off => by
      simp only [Ty.vecify, Ty.alignFeed, Ty.alignFeed_vecify t 0]
  | .array t n, off => by
      simp only [Ty.vecify, Ty.alignFeed, Ty.alignFeed_vecify t off, Ty.sizeOf_vecify t]
  | .tuple t n, off => by simp only [Ty.vecify, Ty.alignFeed]; exact alignFeedRep_vecify_of t (Ty.alignFeed_vecify t) n off
  | .controlFlow b c, off => by
      simp only [Ty.vecify, Ty.alignFeed, Ty.alignFeed_vecify b 0, Ty.alignFeed_vecify c 0]
  | .range _ t, off => by
      simp only [Ty.vecify, Ty.alignFeed, Ty.alignOf_vecify t, Ty.sizeOf_vecify t]
  | .adt m vs, off => by
      have hs := Ty.sizeOf_vecify (.adt m vs)
      simp only [Ty.vecify] at hs
      cases vs with
      | nil => simp only [Ty.vecify, Variants.vecify, Ty.alignFeed] at hs ⊢; (try simp only [hs, Variants.alignFeedZero, Variants.alignFeedDeep])
      | cons n f r =>
        cases r with
        | nil =>
          simp only [Ty.vecify, Variants.vecify, Ty.alignFeed] at hs ⊢
          simp only [hs, Variants.alignFeedZero, Variants.alignFeedDeep, Fields.alignFeed_vecify, Fields.alignFeedDeep_vecify]
        | cons n' f' r' =>
          have h1 := Variants.alignFeedZero_vecify (.cons n f (.cons n' f' r')) off off
          have h2 := Variants.alignFeedDeep_vecify (.cons n f (.cons n' f' r')) off
          simp only [Variants.vecify] at h1 h2
          simp only [Ty.vecify, Variants.vecify, Ty.alignFeed] at hs ⊢
          simp only [hs, h1, h2]
theorem Fields.alignFeed_vecify : ∀ (f : Fields) (off : Nat), f.vecify.alignFeed off = f.alignFeed off
  | .nil, _ => by simp [Fields.vecify, Fields.alignFeed]
  | .cons _ _ t r, off => by
      simp only [Fields.vecify, Fields.alignFeed, Ty.alignFeed_vecify t off, Fields.alignFeed_vecify r]
theorem Fields.alignFeedDeep_vecify : ∀ (f : Fields), f.vecify.alignFeedDeep = f.alignFeedDeep
  | .nil => by simp [Fields.vecify, Fields.alignFeedDeep]
  | .cons _ _ t r => by
      simp only [Fields.vecify, Fields.alignFeedDeep, Ty.alignFeed_vecify t 0, Fields.alignFeedDeep_vecify r]
theorem Variants.alignFeedZero_vecify : ∀ (v : Variants) (old cur : Nat), v.vecify.alignFeedZero old cur = v.alignFeedZero old cur
  | .nil, _, _ => by simp [Variants.vecify, Variants.alignFeedZero]
  | .cons _ fs r, old, _ => by
      simp only [Variants.vecify, Variants.alignFeedZero, Fields.alignFeed_vecify fs old, Variants.alignFeedZero_vecify r]
theorem Variants.alignFeedDeep_vecify : ∀ (v : Variants) (cur : Nat), v.vecify.alignFeedDeep cur = v.alignFeedDeep cur
  | .nil, _ => by simp [Variants.vecify, Variants.alignFeedDeep]
  | .cons _ fs r, _ => by
      simp only [Variants.vecify, Variants.alignFeedDeep, Fields.alignFeed_vecify fs 0, Variants.alignFeedDeep_vecify r]
end

end Eps
