/-
  Strict prefixes: helper lemmas for truncated streams.
-/
import EpsModel.Lemmas.Misaligned2
namespace Eps

/-- `p` is a strict prefix of `s`. -/
def SPre (p s : B) : Prop := ∃ q, q ≠ [] ∧ s = p ++ q

theorem SPre.length_lt {p s : B} (h : SPre p s) : p.length < s.length := by
  obtain ⟨q, hq, rfl⟩ := h
  have : 0 < q.length := List.length_pos_iff.mpr hq
  simp; omega

theorem spre_nil_absurd {p : B} {α : Prop} (h : SPre p []) : α := by
  have := h.length_lt; simp at this

theorem spre_append {p a b : B} (h : SPre p (a ++ b)) : SPre p a ∨ ∃ q, p = a ++ q ∧ SPre q b := by
  obtain ⟨q', hq', heq⟩ := h
  rcases List.append_eq_append_iff.mp heq with ⟨a', ha, hb⟩ | ⟨c', hp, hb⟩
  · -- p = a ++ a', b = a' ++ q'
    right; exact ⟨a', ha, q', hq', hb⟩
  · -- a = p ++ c', q' = c' ++ b
    by_cases hc : c' = []
    · subst hc
      simp only [List.append_nil] at hp
      simp only [List.nil_append] at hb
      right; exact ⟨[], by simp [hp], q', hq', by simp [hb]⟩
    · left; exact ⟨c', hc, hp⟩

theorem spre_cons {p : B} {x : UInt8} {b : B} (h : SPre p (x :: b)) : p = [] ∨ ∃ q, p = x :: q ∧ SPre q b := by
  have h' : SPre p ([x] ++ b) := h
  rcases spre_append h' with h1 | ⟨q, hq, hs⟩
  · left
    have := h1.length_lt
    simp at this
    exact this
  · right; exact ⟨q, by simpa using hq, hs⟩

/-- the result is not a value -/
def NotOk (r : Res α) : Prop := ∀ x, r ≠ .ok x

theorem NotOk.err (e : Err) : NotOk (.err e : Res α) := fun _ h => by cases h
theorem NotOk.panic : NotOk (.panic : Res α) := fun _ h => by cases h
theorem NotOk.bind {r : Res α} (f : α → Res β) (h : NotOk r) : NotOk (r.bind f) := by
  cases r with
  | ok a => exact absurd rfl (h a)
  | err e => exact NotOk.err e
  | panic => exact NotOk.panic
theorem NotOk.bind_of {r : Res α} {f : α → Res β} (h : ∀ a, r = .ok a → NotOk (f a)) : NotOk (r.bind f) := by
  cases r with
  | ok a => exact h a rfl
  | err e => exact NotOk.err e
  | panic => exact NotOk.panic

theorem readExact_short (n : Nat) (p : B) (pos : Nat) (h : p.length < n) : readExact n p pos = .err .readError := by
  simp [readExact]; omega

theorem readWord_short (w : Nat) (p : B) (pos : Nat) (h : p.length < w) : readWord w p pos = .err .readError := by
  simp [readWord, readExact_short w p pos h]

theorem takeOrPanic_short (n : Nat) (p : B) (pos : Nat) (h : p.length < n) : takeOrPanic n p pos = .panic := by
  simp [takeOrPanic]; omega

/-- `align` of the generic reader on a truncated padding -/
theorem alignRead_reader_short (u pos : Nat) (p : B) (h : p.length < pad pos u) :
    alignRead .reader u p pos = .err .readError := by
  simp [alignRead, readExact_short _ p pos h]

theorem alignRead_slice_short (base u pos : Nat) (p : B) (h : p.length < pad pos u) :
    alignRead (.slice base) u p pos = .panic := by
  simp [alignRead, takeOrPanic_short _ p pos h]

/-- `align` on a slice that holds the whole padding: a value or an alignment error, never more -/
theorem alignRead_slice_full (base u pos : Nat) (rest : B) :
    alignRead (.slice base) u (zeros (pad pos u) ++ rest) pos = .ok ((), rest, pos + pad pos u) ∨
    alignRead (.slice base) u (zeros (pad pos u) ++ rest) pos = .err .alignment := by
  by_cases h : ModeOK (.slice base) (pos + pad pos u) u
  · left; exact alignRead_ok _ _ _ _ h
  · right; exact alignRead_bad _ _ _ _ h

theorem Prim.prefix_full (p : Prim) (n : Nat) (q : B) (pos : Nat) (h : SPre q (leBytes p.size n)) :
    p.decFull q pos = .err .readError := by
  have hl := h.length_lt
  simp only [leBytes_length] at hl
  have hr := readWord_short p.size q pos hl
  cases p with
  | int k => simp only [Prim.decFull]; rw [hr]; rfl
  | nz k => simp only [Prim.size] at hr; simp only [Prim.decFull]; rw [hr]; rfl
  | f32 => simp only [Prim.decFull]; rw [hr]; rfl
  | f64 => simp only [Prim.decFull]; rw [hr]; rfl
  | bool => simp only [Prim.size] at hr; simp only [Prim.decFull]; rw [hr]; rfl
  | char => simp only [Prim.size] at hr; simp only [Prim.decFull]; rw [hr]; rfl
  | unit => simp [Prim.size] at hl

theorem Prim.prefix_eps (p : Prim) (n : Nat) (q : B) (pos : Nat) (h : SPre q (leBytes p.size n)) :
    p.decEps q pos = .panic := by
  have hl := h.length_lt
  simp only [leBytes_length] at hl
  have hr := takeOrPanic_short p.size q pos hl
  cases p with
  | int k => simp only [Prim.decEps]; rw [hr]; rfl
  | nz k => simp only [Prim.size] at hr; simp only [Prim.decEps]; rw [hr]; rfl
  | f32 => simp only [Prim.decEps]; rw [hr]; rfl
  | f64 => simp only [Prim.decEps]; rw [hr]; rfl
  | bool => simp only [Prim.size] at hr; simp only [Prim.decEps]; rw [hr]; rfl
  | char => simp only [Prim.size] at hr; simp only [Prim.decEps]; rw [hr]; rfl
  | unit => simp [Prim.size] at hl

/-- On complete data the ε-copy reader returns the framed value or an alignment error. -/
theorem eps_dicho (base : Nat) (t : Ty) (hw : t.wf = true) (v : Val) (hv : t.wt v = true) (pos : Nat) (rest : B) :
    (∃ e, t.decEps base (t.enc v pos ++ rest) pos = .ok (e, rest, pos + (t.enc v pos).length)) ∨
    t.decEps base (t.enc v pos ++ rest) pos = .err .alignment := by
  by_cases ha : AlignedAll (.slice base) (t.blocks v pos)
  · obtain ⟨e, he, _, _⟩ := Ty.framedEps base t hw v hv pos rest ha
    exact Or.inl ⟨e, he⟩
  · exact Or.inr ((Ty.mis base t hw v hv).2 pos rest ha)

theorem full_dicho (base : Nat) (t : Ty) (hw : t.wf = true) (v : Val) (hv : t.wt v = true) (pos : Nat) (rest : B) :
    t.decFull (.slice base) (t.enc v pos ++ rest) pos = .ok (v, rest, pos + (t.enc v pos).length) ∨
    t.decFull (.slice base) (t.enc v pos ++ rest) pos = .err .alignment := by
  by_cases ha : AlignedAll (.slice base) (t.blocks v pos)
  · exact Or.inl (Ty.framedFull (.slice base) t hw v hv pos rest ha)
  · exact Or.inr ((Ty.mis base t hw v hv).1 pos rest ha)

end Eps
