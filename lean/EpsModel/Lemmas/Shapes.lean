/-
  The shape of ε-copy results, kind by kind (the documented substitution): what is borrowed, and
  from which offset.
-/
import EpsModel.Lemmas.FrameEps2
namespace Eps

/-- `Vec<T>` / `Box<[T]>` of zero-copy elements ↦ a borrowed slice at the writer's block. -/
theorem eps_vec_zero_shape (base : Nat) (t : Ty) (vs : List Val) (pos : Nat) (rest : B)
    (hz : t.isZC = true) (hw : t.wf = true) (hwt : (Ty.vec t).wt (.seq vs) = true)
    (ha : ModeOK (.slice base) (pos + 8 + pad (pos + 8) t.maxSizeOf) t.maxSizeOf) :
    (Ty.vec t).decEps base ((Ty.vec t).enc (.seq vs) pos ++ rest) pos
      = .ok (.bSlice (pos + 8 + pad (pos + 8) t.maxSizeOf) t vs, rest, pos + ((Ty.vec t).enc (.seq vs) pos).length) := by
  simp only [Ty.wt, Bool.and_eq_true, decide_eq_true_eq] at hwt
  have hrt : ∀ v ∈ vs, MemRT t v := fun v hv => Ty.memRT t hz hw v (wtList_mem hwt.1.1 v hv)
  simp only [Ty.enc, Ty.encSeq, Ty.decEps, hz, if_true]
  rw [decEpsSliceZero_ok base t vs pos rest hrt hwt.1.2 hwt.2 ha]
  simp [Nat.add_assoc]

/-- `String` / `Box<str>` ↦ a borrowed `&str` right after the length. -/
theorem eps_string_shape (base : Nat) (b rest : B) (pos : Nat) (hl : b.length < 2^63) :
    Ty.string.decEps base (Ty.string.enc (.str b) pos ++ rest) pos
      = .ok (.bStr (pos + 8) b, rest, pos + (8 + b.length)) := by
  simp only [Ty.enc, Ty.decEps, decEpsSliceZero, List.append_assoc]
  rw [readWord_leBytes 8 b.length _ pos (by omega)]
  simp only [Res.bind_ok, Ty.sizeOf, Prim.size, IntK.size, Nat.mul_one, Ty.maxSizeOf]
  have hnot : ¬ (b.length ≥ 2^64) := by omega
  rw [if_neg hnot]
  have hpad : pad (pos + 8) (Nat.max 1 1) = 0 := by simp [pad]
  have := alignRead_ok (.slice base) (Nat.max 1 1) (pos + 8) (b ++ rest) (by simp [ModeOK, Nat.mod_one])
  rw [hpad] at this
  simp only [zeros, List.replicate, List.nil_append, Nat.add_zero] at this
  rw [this]
  simp only [Res.bind_ok]
  rw [takeOrPanic_append' b.length b rest _ rfl]
  simp [Nat.add_assoc]

/-- a zero-copy structure ↦ a reference to it at the writer's block (size > 0) -/
theorem eps_struct_zero_shape (base : Nat) (m : AdtMeta) (vs : Variants) (fs : List Val) (pos : Nat) (rest : B)
    (hz : m.zero = true) (hw : (Ty.adt m vs).wf = true) (hwt : (Ty.adt m vs).wt (.record fs) = true)
    (hs : (Ty.adt m vs).sizeOf ≠ 0)
    (ha : ModeOK (.slice base) (pos + pad pos (Ty.adt m vs).maxSizeOf) (Ty.adt m vs).maxSizeOf) :
    (Ty.adt m vs).decEps base ((Ty.adt m vs).enc (.record fs) pos ++ rest) pos
      = .ok (.bRef (pos + pad pos (Ty.adt m vs).maxSizeOf) (.adt m vs) (.record fs), rest,
             pos + ((Ty.adt m vs).enc (.record fs) pos).length) := by
  have hw' := hw
  simp only [Ty.wf, Bool.and_eq_true, hz, if_true, Bool.not_eq_true'] at hw
  have hzc : (Ty.adt m vs).isZC = true := by simp [Ty.isZC, hz, hw.1.2.1]
  have hrt := Ty.memRT (.adt m vs) hzc hw' (.record fs) hwt
  rw [Ty.enc_adt_zero m vs fs pos hz, Ty.decEps_adt_zero base m vs _ pos hz]
  simp only [decEpsZero, List.append_assoc]
  rw [alignRead_ok (.slice base) _ _ _ ha]
  simp only [Res.bind_ok]
  have hne : ((Ty.adt m vs).sizeOf == 0) = false := by simpa using hs
  simp only [hne, Bool.false_eq_true, if_false]
  rw [takeOrPanic_append' _ ((Ty.adt m vs).toMem (.record fs)) rest _ hrt.1]
  simp only [Res.bind_ok]
  have := hrt.2 []; simp only [List.append_nil] at this
  rw [this]; simp [Nat.add_assoc, hrt.1]

/-- primitives stay values -/
theorem eps_prim_shape (base : Nat) (p : Prim) (n : Nat) (h : p.wt n = true) (pos : Nat) (rest : B) :
    (Ty.prim p).decEps base ((Ty.prim p).enc (.bits n) pos ++ rest) pos = .ok (.bits n, rest, pos + p.size) := by
  simp only [Ty.enc, Ty.decEps]
  rw [Prim.framedEps p n h pos rest]; simp

end Eps
