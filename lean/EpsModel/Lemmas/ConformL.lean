/-
  Whatever the input bytes, a value returned by the ε-copy reader has the shape of the ε-copy type.
-/
import EpsModel.Conform
import EpsModel.Lemmas.FrameEps2
namespace Eps

theorem Res.bind_eq_ok {r : Res α} {f : α → Res β} {b : β} (h : r.bind f = .ok b) : ∃ a, r = .ok a ∧ f a = .ok b := by
  cases r with
  | ok a => exact ⟨a, rfl, h⟩
  | err e => cases h
  | panic => cases h

theorem decMany_all {α : Type} (rd : B → Nat → RRes α) (P : α → Prop)
    (hrd : ∀ d pos a d' p', rd d pos = .ok (a, d', p') → P a) :
    ∀ (n : Nat) (d : B) (pos : Nat) (as : List α) (d' : B) (p' : Nat),
      decMany rd n d pos = .ok (as, d', p') → ∀ x ∈ as, P x
  | 0, d, pos, as, d', p', h => by
      simp [decMany] at h; obtain ⟨rfl, _, _⟩ := h; simp
  | n+1, d, pos, as, d', p', h => by
      simp only [decMany] at h
      obtain ⟨⟨a, d1, p1⟩, h1, h2⟩ := Res.bind_eq_ok h
      obtain ⟨⟨as', d2, p2⟩, h3, h4⟩ := Res.bind_eq_ok h2
      simp at h4; obtain ⟨rfl, _, _⟩ := h4
      intro x hx
      rcases List.mem_cons.mp hx with rfl | hx
      · exact hrd _ _ _ _ _ h1
      · exact decMany_all rd P hrd n d1 p1 as' d2 p2 h3 x hx

theorem decEpsZero_shape (base : Nat) (t : Ty) (d : B) (pos : Nat) (e : EVal) (d' : B) (p' : Nat)
    (h : decEpsZero base t d pos = .ok (e, d', p')) : (∃ off v, e = .bRef off t v) ∨ (∃ v, e = .zRef t v) := by
  simp only [decEpsZero] at h
  obtain ⟨⟨_, d1, p1⟩, _, h2⟩ := Res.bind_eq_ok h
  simp only [] at h2
  split at h2
  · simp at h2; exact Or.inr ⟨_, h2.1.symm⟩
  · obtain ⟨⟨b, d2, p2⟩, _, h4⟩ := Res.bind_eq_ok h2
    simp at h4; exact Or.inl ⟨_, _, h4.1.symm⟩

theorem decEpsSliceZero_shape (base : Nat) (t : Ty) (d : B) (pos : Nat) (r : Nat × B × List Val) (d' : B) (p' : Nat)
    (_h : decEpsSliceZero base t d pos = .ok (r, d', p')) : True := trivial

mutual
theorem Ty.decEps_conforms (base : Nat) : ∀ (t : Ty) (d : B) (pos : Nat) (e : EVal) (d' : B) (p' : Nat),
    t.decEps base d pos = .ok (e, d', p') → t.Conforms e
  | .prim p, d, pos, e, d', p', h => by
      simp only [Ty.decEps] at h
      obtain ⟨⟨v, d1, p1⟩, _, h2⟩ := Res.bind_eq_ok h
      simp at h2
      simp only [Ty.Conforms]
      cases v <;> simp at h2 <;> first | exact Or.inl ⟨_, h2.1.symm⟩ | exact Or.inr h2.1.symm
  | .phantom _, d, pos, e, d', p', h => by
      simp [Ty.decEps] at h; simp [Ty.Conforms, h.1]
  | .string, d, pos, e, d', p', h => by
      simp only [Ty.decEps] at h
      obtain ⟨⟨⟨off, b, _⟩, d1, p1⟩, _, h2⟩ := Res.bind_eq_ok h
      simp at h2; exact ⟨off, b, h2.1.symm⟩
  | .boxStr, d, pos, e, d', p', h => by
      simp only [Ty.decEps] at h
      obtain ⟨⟨⟨off, b, _⟩, d1, p1⟩, _, h2⟩ := Res.bind_eq_ok h
      simp at h2; exact ⟨off, b, h2.1.symm⟩
  | .vec t, d, pos, e, d', p', h => by
      simp only [Ty.decEps] at h
      simp only [Ty.Conforms]
      by_cases hz : t.isZC = true
      · simp only [hz, if_true] at h
        obtain ⟨⟨⟨off, _, vs⟩, d1, p1⟩, _, h2⟩ := Res.bind_eq_ok h
        simp at h2; exact Or.inl ⟨hz, off, vs, h2.1.symm⟩
      · simp only [hz, if_false, Bool.false_eq_true] at h
        obtain ⟨⟨len, d1, p1⟩, _, h2⟩ := Res.bind_eq_ok h
        obtain ⟨⟨es, d2, p2⟩, h3, h4⟩ := Res.bind_eq_ok h2
        simp at h4
        refine Or.inr ⟨by simpa using hz, es, h4.1.symm, ?_⟩
        exact decMany_all (Ty.decEps base t) t.Conforms (fun d pos a d' p' ha => Ty.decEps_conforms base t d pos a d' p' ha) _ _ _ _ _ _ h3
  | .boxSlice t, d, pos, e, d', p', h => by
      simp only [Ty.decEps] at h
      simp only [Ty.Conforms]
      by_cases hz : t.isZC = true
      · simp only [hz, if_true] at h
        obtain ⟨⟨⟨off, _, vs⟩, d1, p1⟩, _, h2⟩ := Res.bind_eq_ok h
        simp at h2; exact Or.inl ⟨hz, off, vs, h2.1.symm⟩
      · simp only [hz, if_false, Bool.false_eq_true] at h
        obtain ⟨⟨len, d1, p1⟩, _, h2⟩ := Res.bind_eq_ok h
        obtain ⟨⟨es, d2, p2⟩, h3, h4⟩ := Res.bind_eq_ok h2
        simp at h4
        refine Or.inr ⟨by simpa using hz, es, h4.1.symm, ?_⟩
        exact decMany_all (Ty.decEps base t) t.Conforms (fun d pos a d' p' ha => Ty.decEps_conforms base t d pos a d' p' ha) _ _ _ _ _ _ h3
  | .array t n, d, pos, e, d', p', h => by
      simp only [Ty.decEps] at h
      simp only [Ty.Conforms]
      by_cases hz : t.isZC = true
      · simp only [hz, if_true] at h
        obtain ⟨⟨_, d1, p1⟩, _, h2⟩ := Res.bind_eq_ok h
        obtain ⟨⟨b, d2, p2⟩, _, h4⟩ := Res.bind_eq_ok h2
        simp at h4; exact Or.inl ⟨hz, _, _, h4.1.symm⟩
      · simp only [hz, if_false, Bool.false_eq_true] at h
        obtain ⟨⟨es, d2, p2⟩, h3, h4⟩ := Res.bind_eq_ok h
        simp at h4
        refine Or.inr ⟨by simpa using hz, es, h4.1.symm, ?_⟩
        exact decMany_all (Ty.decEps base t) t.Conforms (fun d pos a d' p' ha => Ty.decEps_conforms base t d pos a d' p' ha) _ _ _ _ _ _ h3
  | .tuple t n, d, pos, e, d', p', h => by
      simp only [Ty.decEps] at h
      simp only [Ty.Conforms]
      exact decEpsZero_shape base _ d pos e d' p' h
  | .option t, d, pos, e, d', p', h => by
      simp only [Ty.decEps] at h
      obtain ⟨⟨tag, d1, p1⟩, _, h2⟩ := Res.bind_eq_ok h
      simp only [Ty.Conforms]
      match tag, h2 with
      | 0, h2 => simp at h2; exact Or.inl h2.1.symm
      | 1, h2 =>
        obtain ⟨⟨x, d2, p2⟩, h3, h4⟩ := Res.bind_eq_ok h2
        simp at h4
        exact Or.inr ⟨x, h4.1.symm, Ty.decEps_conforms base t _ _ _ _ _ h3⟩
      | _ + 2, h2 => simp at h2
  | .bound t, d, pos, e, d', p', h => by
      simp only [Ty.decEps] at h
      obtain ⟨⟨tag, d1, p1⟩, _, h2⟩ := Res.bind_eq_ok h
      simp only [Ty.Conforms]
      match tag, h2 with
      | 0, h2 => simp at h2; exact Or.inl h2.1.symm
      | 1, h2 =>
        obtain ⟨⟨x, d2, p2⟩, h3, h4⟩ := Res.bind_eq_ok h2
        simp at h4
        exact Or.inr (Or.inl ⟨x, h4.1.symm, Ty.decEps_conforms base t _ _ _ _ _ h3⟩)
      | 2, h2 =>
        obtain ⟨⟨x, d2, p2⟩, h3, h4⟩ := Res.bind_eq_ok h2
        simp at h4
        exact Or.inr (Or.inr ⟨x, h4.1.symm, Ty.decEps_conforms base t _ _ _ _ _ h3⟩)
      | _ + 3, h2 => simp at h2
  | .controlFlow b c, d, pos, e, d', p', h => by
      simp only [Ty.decEps] at h
      obtain ⟨⟨tag, d1, p1⟩, _, h2⟩ := Res.bind_eq_ok h
      simp only [Ty.Conforms]
      match tag, h2 with
      | 0, h2 =>
        obtain ⟨⟨x, d2, p2⟩, h3, h4⟩ := Res.bind_eq_ok h2
        simp at h4
        exact Or.inl ⟨x, h4.1.symm, Ty.decEps_conforms base b _ _ _ _ _ h3⟩
      | 1, h2 =>
        obtain ⟨⟨x, d2, p2⟩, h3, h4⟩ := Res.bind_eq_ok h2
        simp at h4
        exact Or.inr ⟨x, h4.1.symm, Ty.decEps_conforms base c _ _ _ _ _ h3⟩
      | _ + 2, h2 => simp at h2
  | .range k t, d, pos, e, d', p', h => by
      simp only [Ty.Conforms]
      cases k with
      | range =>
        simp only [Ty.decEps] at h
        obtain ⟨⟨a, d1, p1⟩, h1, h2⟩ := Res.bind_eq_ok h
        obtain ⟨⟨b, d2, p2⟩, h3, h4⟩ := Res.bind_eq_ok h2
        simp at h4
        exact Or.inl ⟨a, b, h4.1.symm, Ty.decEps_conforms base t _ _ _ _ _ h1, Ty.decEps_conforms base t _ _ _ _ _ h3⟩
      | incl =>
        simp only [Ty.decEps] at h
        obtain ⟨⟨a, d1, p1⟩, h1, h2⟩ := Res.bind_eq_ok h
        obtain ⟨⟨b, d2, p2⟩, h3, h4⟩ := Res.bind_eq_ok h2
        obtain ⟨⟨ex, d3, p3⟩, _, h6⟩ := Res.bind_eq_ok h4
        simp only [] at h6
        split at h6
        · cases h6
        · simp at h6
          exact Or.inl ⟨a, b, h6.1.symm, Ty.decEps_conforms base t _ _ _ _ _ h1, Ty.decEps_conforms base t _ _ _ _ _ h3⟩
      | «from» =>
        simp only [Ty.decEps] at h
        obtain ⟨⟨a, d1, p1⟩, h1, h2⟩ := Res.bind_eq_ok h
        simp at h2
        exact Or.inr ⟨a, h2.1.symm, Ty.decEps_conforms base t _ _ _ _ _ h1⟩
      | to =>
        simp only [Ty.decEps] at h
        obtain ⟨⟨a, d1, p1⟩, h1, h2⟩ := Res.bind_eq_ok h
        simp at h2
        exact Or.inr ⟨a, h2.1.symm, Ty.decEps_conforms base t _ _ _ _ _ h1⟩
      | toIncl =>
        simp only [Ty.decEps] at h
        obtain ⟨⟨a, d1, p1⟩, h1, h2⟩ := Res.bind_eq_ok h
        simp at h2
        exact Or.inr ⟨a, h2.1.symm, Ty.decEps_conforms base t _ _ _ _ _ h1⟩
  | .rangeFull, d, pos, e, d', p', h => by
      simp [Ty.decEps] at h; simp [Ty.Conforms, h.1]
  | .adt m vs, d, pos, e, d', p', h => by
      by_cases hz : m.zero = true
      · rw [Ty.decEps_adt_zero base m vs d pos hz] at h
        have := decEpsZero_shape base _ d pos e d' p' h
        cases vs with
        | nil => simpa [Ty.Conforms, hz] using this
        | cons n f r => cases r <;> simpa [Ty.Conforms, hz] using this
      · have hzf : m.zero = false := by simpa using hz
        by_cases he : m.isEnum = true
        · rw [Ty.decEps_adt_enum base m vs d pos hzf he] at h
          obtain ⟨⟨tag, d1, p1⟩, _, h2⟩ := Res.bind_eq_ok h
          obtain ⟨es, hes, hc⟩ := Variants.decEps_conforms base vs tag tag d1 p1 e d' p' h2
          cases vs with
          | nil => simp [Ty.Conforms, hzf, he]; exact ⟨tag, es, hes, hc⟩
          | cons n f r => cases r <;> (simp [Ty.Conforms, hzf, he]; exact ⟨tag, es, hes, hc⟩)
        · have hef : m.isEnum = false := by simpa using he
          match vs, h with
          | .cons vn fds .nil, h =>
            simp only [Ty.decEps, hzf, hef, Bool.false_eq_true, if_false] at h
            obtain ⟨⟨es, d1, p1⟩, h1, h2⟩ := Res.bind_eq_ok h
            simp at h2
            simp only [Ty.Conforms, hzf, hef, Bool.false_eq_true, if_false]
            exact ⟨es, h2.1.symm, Fields.decEps_conforms base fds _ _ _ _ _ h1⟩
          | .nil, h => simp [Ty.decEps, hzf, hef] at h
          | .cons _ _ (.cons _ _ _), h => simp [Ty.decEps, hzf, hef] at h
  | .sliceRef _, d, pos, e, d', p', h => by simp [Ty.decEps] at h
  | .serIter _, d, pos, e, d', p', h => by simp [Ty.decEps] at h
theorem Fields.decEps_conforms (base : Nat) : ∀ (f : Fields) (d : B) (pos : Nat) (es : List EVal) (d' : B) (p' : Nat),
    f.decEps base d pos = .ok (es, d', p') → f.Conforms es
  | .nil, d, pos, es, d', p', h => by
      simp [Fields.decEps] at h; simp [Fields.Conforms, h.1]
  | .cons nm viaEps t r, d, pos, es, d', p', h => by
      simp only [Fields.decEps] at h
      obtain ⟨⟨e, d1, p1⟩, h1, h2⟩ := Res.bind_eq_ok h
      obtain ⟨⟨rest, d2, p2⟩, h3, h4⟩ := Res.bind_eq_ok h2
      simp at h4
      simp only [Fields.Conforms]
      refine ⟨e, rest, h4.1.symm, ?_, Fields.decEps_conforms base r _ _ _ _ _ h3⟩
      cases viaEps with
      | true => simp only [if_true] at h1 ⊢; exact Ty.decEps_conforms base t _ _ _ _ _ h1
      | false =>
        simp only [Bool.false_eq_true, if_false] at h1 ⊢
        obtain ⟨⟨v, d3, p3⟩, _, h6⟩ := Res.bind_eq_ok h1
        simp at h6; exact ⟨v, h6.1.symm⟩
theorem Variants.decEps_conforms (base : Nat) : ∀ (vs : Variants) (orig i : Nat) (d : B) (pos : Nat) (e : EVal) (d' : B) (p' : Nat),
    vs.decEps base orig i d pos = .ok (e, d', p') → ∃ es, e = .variant orig es ∧ vs.Conforms i es
  | .nil, orig, i, d, pos, e, d', p', h => by simp [Variants.decEps] at h
  | .cons nm fs r, orig, 0, d, pos, e, d', p', h => by
      simp only [Variants.decEps] at h
      obtain ⟨⟨es, d1, p1⟩, h1, h2⟩ := Res.bind_eq_ok h
      simp at h2
      exact ⟨es, h2.1.symm, by simp only [Variants.Conforms]; exact Fields.decEps_conforms base fs _ _ _ _ _ h1⟩
  | .cons nm fs r, orig, i+1, d, pos, e, d', p', h => by
      simp only [Variants.decEps] at h
      obtain ⟨es, hes, hc⟩ := Variants.decEps_conforms base r orig i d pos e d' p' h
      exact ⟨es, hes, by simp only [Variants.Conforms]; exact hc⟩
end

end Eps
