/-
  What the ε-copy reader allocates is a function of the type and of the deep-copy skeleton of the
  value it returns, on arbitrary bytes: `epsAllocs e = t.allocOf e.erase` for every result `e` of
  `t.decEps`, by induction on the type.
-/
import EpsModel.Alloc
import EpsModel.Lemmas.Agree
namespace Eps
open Eps.C03

/-! ### Unfolding lemmas for `Ty.allocOf` -/

theorem Ty.allocOf_prim (p : Prim) (v : Val) : (Ty.prim p).allocOf v = 0 := by cases v <;> simp [Ty.allocOf]
theorem Ty.allocOf_phantom (t : Ty) (v : Val) : (Ty.phantom t).allocOf v = 0 := by cases v <;> simp [Ty.allocOf]
theorem Ty.allocOf_string (v : Val) : Ty.string.allocOf v = 0 := by cases v <;> simp [Ty.allocOf]
theorem Ty.allocOf_boxStr (v : Val) : Ty.boxStr.allocOf v = 0 := by cases v <;> simp [Ty.allocOf]
theorem Ty.allocOf_tuple (t : Ty) (n : Nat) (v : Val) : (Ty.tuple t n).allocOf v = 0 := by cases v <;> simp [Ty.allocOf]
theorem Ty.allocOf_rangeFull (v : Val) : Ty.rangeFull.allocOf v = 0 := by cases v <;> simp [Ty.allocOf]
theorem Ty.allocOf_vec_zero (t : Ty) (v : Val) (h : t.isZC = true) : (Ty.vec t).allocOf v = 0 := by
  cases v <;> simp [Ty.allocOf, h]
theorem Ty.allocOf_boxSlice_zero (t : Ty) (v : Val) (h : t.isZC = true) : (Ty.boxSlice t).allocOf v = 0 := by
  cases v <;> simp [Ty.allocOf, h]
theorem Ty.allocOf_array_zero (t : Ty) (n : Nat) (v : Val) (h : t.isZC = true) : (Ty.array t n).allocOf v = 0 := by
  cases v <;> simp [Ty.allocOf, h]
theorem Ty.allocOf_adt_zero (m : AdtMeta) (vs : Variants) (v : Val) (h : m.zero = true) : (Ty.adt m vs).allocOf v = 0 := by
  cases vs with
  | nil => cases v <;> simp [Ty.allocOf, h]
  | cons n f r => cases r <;> cases v <;> simp [Ty.allocOf, h]
theorem Ty.allocOf_adt_enum (m : AdtMeta) (vs : Variants) (i : Nat) (fs : List Val) (h : m.zero = false) (he : m.isEnum = true) :
    (Ty.adt m vs).allocOf (.variant i fs) = Variants.allocOf vs i fs := by
  cases vs with
  | nil => simp [Ty.allocOf, h, he]
  | cons n f r => cases r <;> simp [Ty.allocOf, h, he]
theorem Ty.allocOf_adt_struct (m : AdtMeta) (n : B) (fds : Fields) (fs : List Val) (h : m.zero = false) (he : m.isEnum = false) :
    (Ty.adt m (.cons n fds .nil)).allocOf (.record fs) = Fields.allocOf fds fs := by
  simp [Ty.allocOf, h, he]

theorem eraseList_isEmpty (es : List EVal) : (EVal.eraseList es).isEmpty = es.isEmpty := by
  cases es <;> simp [EVal.eraseList]

theorem decEpsZero_alloc {base : Nat} {t : Ty} {d : B} {pos : Nat} {e : EVal} {d' : B} {p' : Nat}
    (h : decEpsZero base t d pos = .ok (e, d', p')) : epsAllocs e = 0 := by
  simp only [decEpsZero] at h
  obtain ⟨⟨_, d1, p1⟩, _, h2⟩ := Res.bind_eq_ok h
  simp only [] at h2
  split at h2
  · simp at h2; obtain ⟨rfl, _, _⟩ := h2; simp [epsAllocs]
  · obtain ⟨⟨b, d2, p2⟩, _, h4⟩ := Res.bind_eq_ok h2
    simp at h4; obtain ⟨rfl, _, _⟩ := h4; simp [epsAllocs]

theorem decMany_alloc {base : Nat} (t : Ty)
    (ih : ∀ (d : B) (pos : Nat) (e : EVal) (d' : B) (p' : Nat), Ty.decEps base t d pos = .ok (e, d', p') →
      epsAllocs e = t.allocOf e.erase) :
    ∀ (n : Nat) (d : B) (pos : Nat) (es : List EVal) (d' : B) (p' : Nat),
      decMany (Ty.decEps base t) n d pos = .ok (es, d', p') →
      epsAllocsList es = Ty.allocOfList t (EVal.eraseList es)
  | 0, d, pos, es, d', p', h => by
      simp [decMany] at h; obtain ⟨rfl, rfl, rfl⟩ := h
      simp [epsAllocsList, EVal.eraseList, Ty.allocOfList]
  | n+1, d, pos, es, d', p', h => by
      simp only [decMany] at h
      obtain ⟨⟨a, d1, p1⟩, h1, h2⟩ := Res.bind_eq_ok h
      obtain ⟨⟨as', d2, p2⟩, h3, h4⟩ := Res.bind_eq_ok h2
      simp at h4; obtain ⟨rfl, rfl, rfl⟩ := h4
      simp only [epsAllocsList, EVal.eraseList, Ty.allocOfList]
      rw [ih d pos a d1 p1 h1, decMany_alloc t ih n d1 p1 as' d2 p2 h3]

mutual
/-- **The allocations of the ε-copy reader are determined by the type and the deep-copy skeleton**, on arbitrary
    bytes, at any base address and position. -/
theorem Ty.eps_alloc (base : Nat) : ∀ (t : Ty) (d : B) (pos : Nat) (e : EVal) (d' : B) (p' : Nat),
    t.decEps base d pos = .ok (e, d', p') → epsAllocs e = t.allocOf e.erase
  | .prim p, d, pos, e, d', p', h => by
      simp only [Ty.decEps] at h
      obtain ⟨⟨v, d1, p1⟩, _, h2⟩ := Res.bind_eq_ok h
      simp at h2; obtain ⟨rfl, _, _⟩ := h2
      rw [Ty.allocOf_prim]; cases v <;> simp [epsAllocs]
  | .phantom _, d, pos, e, d', p', h => by
      simp [Ty.decEps] at h; obtain ⟨rfl, _, _⟩ := h
      rw [Ty.allocOf_phantom]; simp [epsAllocs]
  | .string, d, pos, e, d', p', h => by
      simp only [Ty.decEps] at h
      obtain ⟨⟨⟨off, b, vs⟩, d1, p1⟩, _, h2⟩ := Res.bind_eq_ok h
      simp at h2; obtain ⟨rfl, _, _⟩ := h2
      rw [Ty.allocOf_string]; simp [epsAllocs]
  | .boxStr, d, pos, e, d', p', h => by
      simp only [Ty.decEps] at h
      obtain ⟨⟨⟨off, b, vs⟩, d1, p1⟩, _, h2⟩ := Res.bind_eq_ok h
      simp at h2; obtain ⟨rfl, _, _⟩ := h2
      rw [Ty.allocOf_boxStr]; simp [epsAllocs]
  | .vec t, d, pos, e, d', p', h => by
      simp only [Ty.decEps] at h
      split at h
      · rename_i hz
        obtain ⟨⟨⟨off, b, vs⟩, d1, p1⟩, _, h2⟩ := Res.bind_eq_ok h
        simp at h2; obtain ⟨rfl, _, _⟩ := h2
        rw [Ty.allocOf_vec_zero _ _ hz]; simp [epsAllocs]
      · rename_i hz
        obtain ⟨⟨len, d1, p1⟩, _, h2⟩ := Res.bind_eq_ok h
        obtain ⟨⟨es, d2, p2⟩, h3, h4⟩ := Res.bind_eq_ok h2
        simp at h4; obtain ⟨rfl, _, _⟩ := h4
        have := decMany_alloc t (Ty.eps_alloc base t) len d1 p1 es d2 p2 h3
        simp [epsAllocs, Ty.allocOf, hz, EVal.erase, eraseList_isEmpty, this]
  | .boxSlice t, d, pos, e, d', p', h => by
      simp only [Ty.decEps] at h
      split at h
      · rename_i hz
        obtain ⟨⟨⟨off, b, vs⟩, d1, p1⟩, _, h2⟩ := Res.bind_eq_ok h
        simp at h2; obtain ⟨rfl, _, _⟩ := h2
        rw [Ty.allocOf_boxSlice_zero _ _ hz]; simp [epsAllocs]
      · rename_i hz
        obtain ⟨⟨len, d1, p1⟩, _, h2⟩ := Res.bind_eq_ok h
        obtain ⟨⟨es, d2, p2⟩, h3, h4⟩ := Res.bind_eq_ok h2
        simp at h4; obtain ⟨rfl, _, _⟩ := h4
        have := decMany_alloc t (Ty.eps_alloc base t) len d1 p1 es d2 p2 h3
        simp [epsAllocs, Ty.allocOf, hz, EVal.erase, eraseList_isEmpty, this]
  | .array t n, d, pos, e, d', p', h => by
      simp only [Ty.decEps] at h
      split at h
      · rename_i hz
        obtain ⟨⟨_, d1, p1⟩, _, h2⟩ := Res.bind_eq_ok h
        obtain ⟨⟨b, d2, p2⟩, _, h4⟩ := Res.bind_eq_ok h2
        simp at h4; obtain ⟨rfl, _, _⟩ := h4
        rw [Ty.allocOf_array_zero _ _ _ hz]; simp [epsAllocs]
      · rename_i hz
        obtain ⟨⟨es, d2, p2⟩, h3, h4⟩ := Res.bind_eq_ok h
        simp at h4; obtain ⟨rfl, _, _⟩ := h4
        have := decMany_alloc t (Ty.eps_alloc base t) n d pos es d2 p2 h3
        simp [epsAllocs, Ty.allocOf, hz, EVal.erase, eraseList_isEmpty, this]
  | .tuple t n, d, pos, e, d', p', h => by
      simp only [Ty.decEps] at h
      rw [decEpsZero_alloc h, Ty.allocOf_tuple]
  | .option t, d, pos, e, d', p', h => by
      simp only [Ty.decEps] at h
      obtain ⟨⟨tag, d1, p1⟩, _, h2⟩ := Res.bind_eq_ok h
      match tag, h2 with
      | 0, h2 => simp at h2; obtain ⟨rfl, _, _⟩ := h2; simp [epsAllocs, epsAllocsList, Ty.allocOf, EVal.erase, EVal.eraseList]
      | 1, h2 =>
        obtain ⟨⟨x, d2, p2⟩, h3, h4⟩ := Res.bind_eq_ok h2
        simp at h4; obtain ⟨rfl, _, _⟩ := h4
        simp [epsAllocs, epsAllocsList, Ty.allocOf, EVal.erase, EVal.eraseList, Ty.eps_alloc base t d1 p1 x d2 p2 h3]
      | _+2, h2 => simp at h2
  | .bound t, d, pos, e, d', p', h => by
      simp only [Ty.decEps] at h
      obtain ⟨⟨tag, d1, p1⟩, _, h2⟩ := Res.bind_eq_ok h
      match tag, h2 with
      | 0, h2 => simp at h2; obtain ⟨rfl, _, _⟩ := h2; simp [epsAllocs, epsAllocsList, Ty.allocOf, EVal.erase, EVal.eraseList]
      | 1, h2 =>
        obtain ⟨⟨x, d2, p2⟩, h3, h4⟩ := Res.bind_eq_ok h2
        simp at h4; obtain ⟨rfl, _, _⟩ := h4
        simp [epsAllocs, epsAllocsList, Ty.allocOf, EVal.erase, EVal.eraseList, Ty.eps_alloc base t d1 p1 x d2 p2 h3]
      | 2, h2 =>
        obtain ⟨⟨x, d2, p2⟩, h3, h4⟩ := Res.bind_eq_ok h2
        simp at h4; obtain ⟨rfl, _, _⟩ := h4
        simp [epsAllocs, epsAllocsList, Ty.allocOf, EVal.erase, EVal.eraseList, Ty.eps_alloc base t d1 p1 x d2 p2 h3]
      | _+3, h2 => simp at h2
  | .controlFlow bt ct, d, pos, e, d', p', h => by
      simp only [Ty.decEps] at h
      obtain ⟨⟨tag, d1, p1⟩, _, h2⟩ := Res.bind_eq_ok h
      match tag, h2 with
      | 0, h2 =>
        obtain ⟨⟨x, d2, p2⟩, h3, h4⟩ := Res.bind_eq_ok h2
        simp at h4; obtain ⟨rfl, _, _⟩ := h4
        simp [epsAllocs, epsAllocsList, Ty.allocOf, EVal.erase, EVal.eraseList, Ty.eps_alloc base bt d1 p1 x d2 p2 h3]
      | 1, h2 =>
        obtain ⟨⟨x, d2, p2⟩, h3, h4⟩ := Res.bind_eq_ok h2
        simp at h4; obtain ⟨rfl, _, _⟩ := h4
        simp [epsAllocs, epsAllocsList, Ty.allocOf, EVal.erase, EVal.eraseList, Ty.eps_alloc base ct d1 p1 x d2 p2 h3]
      | _+2, h2 => simp at h2
  | .range .range t, d, pos, e, d', p', h => by
      simp only [Ty.decEps] at h
      obtain ⟨⟨a, d1, p1⟩, h1, h2⟩ := Res.bind_eq_ok h
      obtain ⟨⟨b, d2, p2⟩, h3, h4⟩ := Res.bind_eq_ok h2
      simp at h4; obtain ⟨rfl, _, _⟩ := h4
      simp [epsAllocs, epsAllocsList, Ty.allocOf, EVal.erase, EVal.eraseList,
        Ty.eps_alloc base t d pos a d1 p1 h1, Ty.eps_alloc base t d1 p1 b d2 p2 h3]
  | .range .incl t, d, pos, e, d', p', h => by
      simp only [Ty.decEps] at h
      obtain ⟨⟨a, d1, p1⟩, h1, h2⟩ := Res.bind_eq_ok h
      simp only [] at h2
      obtain ⟨⟨b, d2, p2⟩, h3, h4⟩ := Res.bind_eq_ok h2
      simp only [] at h4
      obtain ⟨⟨ex, d3, p3⟩, _, h6⟩ := Res.bind_eq_ok h4
      simp only [] at h6
      split at h6
      · cases h6
      · simp at h6; obtain ⟨rfl, _, _⟩ := h6
        simp [epsAllocs, epsAllocsList, Ty.allocOf, EVal.erase, EVal.eraseList,
          Ty.eps_alloc base t d pos a d1 p1 h1, Ty.eps_alloc base t d1 p1 b d2 p2 h3]
  | .range .from t, d, pos, e, d', p', h => by
      simp only [Ty.decEps] at h
      obtain ⟨⟨a, d1, p1⟩, h1, h2⟩ := Res.bind_eq_ok h
      simp at h2; obtain ⟨rfl, _, _⟩ := h2
      simp [epsAllocs, epsAllocsList, Ty.allocOf, EVal.erase, EVal.eraseList, Ty.eps_alloc base t d pos a d1 p1 h1]
  | .range .to t, d, pos, e, d', p', h => by
      simp only [Ty.decEps] at h
      obtain ⟨⟨a, d1, p1⟩, h1, h2⟩ := Res.bind_eq_ok h
      simp at h2; obtain ⟨rfl, _, _⟩ := h2
      simp [epsAllocs, epsAllocsList, Ty.allocOf, EVal.erase, EVal.eraseList, Ty.eps_alloc base t d pos a d1 p1 h1]
  | .range .toIncl t, d, pos, e, d', p', h => by
      simp only [Ty.decEps] at h
      obtain ⟨⟨a, d1, p1⟩, h1, h2⟩ := Res.bind_eq_ok h
      simp at h2; obtain ⟨rfl, _, _⟩ := h2
      simp [epsAllocs, epsAllocsList, Ty.allocOf, EVal.erase, EVal.eraseList, Ty.eps_alloc base t d pos a d1 p1 h1]
  | .rangeFull, d, pos, e, d', p', h => by
      simp [Ty.decEps] at h; obtain ⟨rfl, _, _⟩ := h
      rw [Ty.allocOf_rangeFull]; simp [epsAllocs, epsAllocsList]
  | .adt mt vs, d, pos, e, d', p', h => by
      by_cases hz : mt.zero = true
      · rw [Ty.decEps_adt_zero base mt vs d pos hz] at h
        rw [decEpsZero_alloc h, Ty.allocOf_adt_zero _ _ _ hz]
      · have hzf : mt.zero = false := by simpa using hz
        by_cases he : mt.isEnum = true
        · rw [Ty.decEps_adt_enum base mt vs d pos hzf he] at h
          obtain ⟨⟨tag, d1, p1⟩, _, h2⟩ := Res.bind_eq_ok h
          obtain ⟨vals, rfl, hv⟩ := Variants.eps_alloc base vs tag tag d1 p1 e d' p' h2
          simp only [EVal.erase, Ty.allocOf_adt_enum _ _ _ _ hzf he, epsAllocs, hv]
        · have hef : mt.isEnum = false := by simpa using he
          match vs, h with
          | .cons _ fds .nil, h =>
            simp only [Ty.decEps, hzf, hef, Bool.false_eq_true, if_false] at h
            obtain ⟨⟨es, d1, p1⟩, h1, h2⟩ := Res.bind_eq_ok h
            simp at h2; obtain ⟨rfl, _, _⟩ := h2
            simp only [EVal.erase, Ty.allocOf_adt_struct _ _ _ _ hzf hef, epsAllocs, Fields.eps_alloc base fds d pos es d1 p1 h1]
          | .nil, h => simp [Ty.decEps, hzf, hef] at h
          | .cons _ _ (.cons _ _ _), h => simp [Ty.decEps, hzf, hef] at h
  | .sliceRef _, d, pos, e, d', p', h => by simp [Ty.decEps] at h
  | .serIter _, d, pos, e, d', p', h => by simp [Ty.decEps] at h
theorem Fields.eps_alloc (base : Nat) : ∀ (f : Fields) (d : B) (pos : Nat) (es : List EVal) (d' : B) (p' : Nat),
    f.decEps base d pos = .ok (es, d', p') → epsAllocsList es = f.allocOf (EVal.eraseList es)
  | .nil, d, pos, es, d', p', h => by
      simp [Fields.decEps] at h; obtain ⟨rfl, _, _⟩ := h
      simp [epsAllocsList, EVal.eraseList, Fields.allocOf]
  | .cons _ viaEps t r, d, pos, es, d', p', h => by
      simp only [Fields.decEps] at h
      obtain ⟨⟨x, d1, p1⟩, h1, h2⟩ := Res.bind_eq_ok h
      obtain ⟨⟨xs, d2, p2⟩, h3, h4⟩ := Res.bind_eq_ok h2
      simp at h4; obtain ⟨rfl, _, _⟩ := h4
      have hr := Fields.eps_alloc base r d1 p1 xs d2 p2 h3
      cases viaEps with
      | true =>
        simp only [if_true] at h1
        simp [epsAllocsList, EVal.eraseList, Fields.allocOf, hr, Ty.eps_alloc base t d pos x d1 p1 h1]
      | false =>
        simp only [Bool.false_eq_true, if_false] at h1
        obtain ⟨⟨v, d0, p0⟩, _, h6⟩ := Res.bind_eq_ok h1
        simp at h6; obtain ⟨rfl, _, _⟩ := h6
        simp [epsAllocsList, epsAllocs, EVal.eraseList, EVal.erase, Fields.allocOf, hr]
theorem Variants.eps_alloc (base : Nat) : ∀ (vs : Variants) (orig i : Nat) (d : B) (pos : Nat) (e : EVal) (d' : B) (p' : Nat),
    vs.decEps base orig i d pos = .ok (e, d', p') →
    ∃ vals, e = .variant orig vals ∧ epsAllocsList vals = vs.allocOf i (EVal.eraseList vals)
  | .nil, orig, i, d, pos, e, d', p', h => by simp [Variants.decEps] at h
  | .cons _ fs _, orig, 0, d, pos, e, d', p', h => by
      simp only [Variants.decEps] at h
      obtain ⟨⟨es, d1, p1⟩, h1, h2⟩ := Res.bind_eq_ok h
      simp at h2; obtain ⟨rfl, _, _⟩ := h2
      exact ⟨es, rfl, by simp [Variants.allocOf, Fields.eps_alloc base fs d pos es d1 p1 h1]⟩
  | .cons _ _ r, orig, i+1, d, pos, e, d', p', h => by
      simp only [Variants.decEps] at h
      obtain ⟨vals, he, hv⟩ := Variants.eps_alloc base r orig i d pos e d' p' h
      exact ⟨vals, he, by simp [Variants.allocOf, hv]⟩
end

end Eps

namespace Eps
open Eps.C03

/-! ### The allocations depend on the deep-copy skeleton only -/

theorem Ty.skelList_isEmpty (t : Ty) (vs : List Val) : (Ty.skelList t vs).isEmpty = vs.isEmpty := by
  cases vs <;> simp [Ty.skelList]

theorem Ty.allocOf_sliceRef (t : Ty) (v : Val) : (Ty.sliceRef t).allocOf v = 0 := by cases v <;> simp [Ty.allocOf]
theorem Ty.allocOf_serIter (t : Ty) (v : Val) : (Ty.serIter t).allocOf v = 0 := by cases v <;> simp [Ty.allocOf]

mutual
theorem Ty.allocOf_skel : ∀ (t : Ty) (v : Val), t.allocOf (t.skel v) = t.allocOf v
  | .prim p, v => by rw [Ty.allocOf_prim, Ty.allocOf_prim]
  | .phantom t, v => by rw [Ty.allocOf_phantom, Ty.allocOf_phantom]
  | .string, v => by rw [Ty.allocOf_string, Ty.allocOf_string]
  | .boxStr, v => by rw [Ty.allocOf_boxStr, Ty.allocOf_boxStr]
  | .tuple t n, v => by rw [Ty.allocOf_tuple, Ty.allocOf_tuple]
  | .rangeFull, v => by rw [Ty.allocOf_rangeFull, Ty.allocOf_rangeFull]
  | .sliceRef t, v => by rw [Ty.allocOf_sliceRef, Ty.allocOf_sliceRef]
  | .serIter t, v => by rw [Ty.allocOf_serIter, Ty.allocOf_serIter]
  | .vec t, v => by
      by_cases hz : t.isZC = true
      · rw [Ty.allocOf_vec_zero _ _ hz, Ty.allocOf_vec_zero _ _ hz]
      · cases v <;> simp [Ty.skel, Ty.allocOf, hz, Ty.skelList_isEmpty, Ty.allocOfList_skel t]
  | .boxSlice t, v => by
      by_cases hz : t.isZC = true
      · rw [Ty.allocOf_boxSlice_zero _ _ hz, Ty.allocOf_boxSlice_zero _ _ hz]
      · cases v <;> simp [Ty.skel, Ty.allocOf, hz, Ty.skelList_isEmpty, Ty.allocOfList_skel t]
  | .array t n, v => by
      by_cases hz : t.isZC = true
      · rw [Ty.allocOf_array_zero _ _ _ hz, Ty.allocOf_array_zero _ _ _ hz]
      · cases v <;> simp [Ty.skel, Ty.allocOf, hz, Ty.skelList_isEmpty, Ty.allocOfList_skel t]
  | .option t, v => by
      match v with
      | .variant i [x] => simp [Ty.skel, Ty.allocOf, Ty.allocOf_skel t x]
      | .variant i [] => simp [Ty.skel, Ty.allocOf]
      | .variant i (_ :: _ :: _) => simp [Ty.skel, Ty.allocOf]
      | .bits _ => simp [Ty.skel, Ty.allocOf]
      | .unit => simp [Ty.skel, Ty.allocOf]
      | .str _ => simp [Ty.skel, Ty.allocOf]
      | .seq _ => simp [Ty.skel, Ty.allocOf]
      | .record _ => simp [Ty.skel, Ty.allocOf]
  | .bound t, v => by
      match v with
      | .variant i [x] => simp [Ty.skel, Ty.allocOf, Ty.allocOf_skel t x]
      | .variant i [] => simp [Ty.skel, Ty.allocOf]
      | .variant i (_ :: _ :: _) => simp [Ty.skel, Ty.allocOf]
      | .bits _ => simp [Ty.skel, Ty.allocOf]
      | .unit => simp [Ty.skel, Ty.allocOf]
      | .str _ => simp [Ty.skel, Ty.allocOf]
      | .seq _ => simp [Ty.skel, Ty.allocOf]
      | .record _ => simp [Ty.skel, Ty.allocOf]
  | .controlFlow b c, v => by
      match v with
      | .variant 0 [x] => simp [Ty.skel, Ty.allocOf, Ty.allocOf_skel b x]
      | .variant (i+1) [x] => simp [Ty.skel, Ty.allocOf, Ty.allocOf_skel c x]
      | .variant i [] => simp [Ty.skel, Ty.allocOf]
      | .variant i (_ :: _ :: _) => simp [Ty.skel, Ty.allocOf]
      | .bits _ => simp [Ty.skel, Ty.allocOf]
      | .unit => simp [Ty.skel, Ty.allocOf]
      | .str _ => simp [Ty.skel, Ty.allocOf]
      | .seq _ => simp [Ty.skel, Ty.allocOf]
      | .record _ => simp [Ty.skel, Ty.allocOf]
  | .range k t, v => by
      match v with
      | .record [a, b] => simp [Ty.skel, Ty.allocOf, Ty.allocOf_skel t a, Ty.allocOf_skel t b]
      | .record [a] => simp [Ty.skel, Ty.allocOf, Ty.allocOf_skel t a]
      | .record [] => simp [Ty.skel, Ty.allocOf]
      | .record (_ :: _ :: _ :: _) => simp [Ty.skel, Ty.allocOf]
      | .bits _ => simp [Ty.skel, Ty.allocOf]
      | .unit => simp [Ty.skel, Ty.allocOf]
      | .str _ => simp [Ty.skel, Ty.allocOf]
      | .seq _ => simp [Ty.skel, Ty.allocOf]
      | .variant _ _ => simp [Ty.skel, Ty.allocOf]
  | .adt m vs, v => by
      by_cases hz : m.zero = true
      · rw [Ty.allocOf_adt_zero _ _ _ hz, Ty.allocOf_adt_zero _ _ _ hz]
      · have hzf : m.zero = false := by simpa using hz
        by_cases he : m.isEnum = true
        · match vs, v with
          | vs, .variant i fs =>
            have hs : (Ty.adt m vs).skel (.variant i fs) = .variant i (Variants.skel vs i fs) := by
              cases vs with
              | nil => simp [Ty.skel, hzf, he]
              | cons n f r => cases r <;> simp [Ty.skel, hzf, he]
            rw [hs, Ty.allocOf_adt_enum _ _ _ _ hzf he, Ty.allocOf_adt_enum _ _ _ _ hzf he, Variants.allocOf_skel vs i fs]
          | .nil, .bits _ => simp [Ty.skel, Ty.allocOf, hzf, he]
          | .nil, .unit => simp [Ty.skel, Ty.allocOf, hzf, he]
          | .nil, .str _ => simp [Ty.skel, Ty.allocOf, hzf, he]
          | .nil, .seq _ => simp [Ty.skel, Ty.allocOf, hzf, he]
          | .nil, .record _ => simp [Ty.skel, Ty.allocOf, hzf, he]
          | .cons _ _ .nil, .bits _ => simp [Ty.skel, Ty.allocOf, hzf, he]
          | .cons _ _ .nil, .unit => simp [Ty.skel, Ty.allocOf, hzf, he]
          | .cons _ _ .nil, .str _ => simp [Ty.skel, Ty.allocOf, hzf, he]
          | .cons _ _ .nil, .seq _ => simp [Ty.skel, Ty.allocOf, hzf, he]
          | .cons _ _ .nil, .record _ => simp [Ty.skel, Ty.allocOf, hzf, he]
          | .cons _ _ (.cons _ _ _), .bits _ => simp [Ty.skel, Ty.allocOf, hzf, he]
          | .cons _ _ (.cons _ _ _), .unit => simp [Ty.skel, Ty.allocOf, hzf, he]
          | .cons _ _ (.cons _ _ _), .str _ => simp [Ty.skel, Ty.allocOf, hzf, he]
          | .cons _ _ (.cons _ _ _), .seq _ => simp [Ty.skel, Ty.allocOf, hzf, he]
          | .cons _ _ (.cons _ _ _), .record _ => simp [Ty.skel, Ty.allocOf, hzf, he]
        · have hef : m.isEnum = false := by simpa using he
          match vs, v with
          | .cons _ fds .nil, .record fs =>
            simp only [Ty.skel, hzf, hef, Bool.false_eq_true, if_false]
            rw [Ty.allocOf_adt_struct _ _ _ _ hzf hef, Ty.allocOf_adt_struct _ _ _ _ hzf hef, Fields.allocOf_skel fds fs]
          | .cons _ _ .nil, .bits _ => simp [Ty.skel, Ty.allocOf, hzf, hef]
          | .cons _ _ .nil, .unit => simp [Ty.skel, Ty.allocOf, hzf, hef]
          | .cons _ _ .nil, .str _ => simp [Ty.skel, Ty.allocOf, hzf, hef]
          | .cons _ _ .nil, .seq _ => simp [Ty.skel, Ty.allocOf, hzf, hef]
          | .cons _ _ .nil, .variant _ _ => simp [Ty.skel, Ty.allocOf, hzf, hef]
          | .nil, v => cases v <;> simp [Ty.skel, Ty.allocOf, hzf, hef]
          | .cons _ _ (.cons _ _ _), v => cases v <;> simp [Ty.skel, Ty.allocOf, hzf, hef]
theorem Ty.allocOfList_skel : ∀ (t : Ty) (vs : List Val), Ty.allocOfList t (Ty.skelList t vs) = Ty.allocOfList t vs
  | _, [] => by simp [Ty.skelList]
  | t, v :: vs => by simp [Ty.skelList, Ty.allocOfList, Ty.allocOf_skel t v, Ty.allocOfList_skel t vs]
theorem Fields.allocOf_skel : ∀ (f : Fields) (vs : List Val), f.allocOf (f.skel vs) = f.allocOf vs
  | .nil, vs => by simp [Fields.skel, Fields.allocOf]
  | .cons _ viaEps t r, [] => by simp [Fields.skel, Fields.allocOf]
  | .cons _ viaEps t r, v :: vs => by
      cases viaEps <;> simp [Fields.skel, Fields.allocOf, Ty.allocOf_skel t v, Fields.allocOf_skel r vs]
theorem Variants.allocOf_skel : ∀ (vs : Variants) (i : Nat) (vals : List Val), vs.allocOf i (vs.skel i vals) = vs.allocOf i vals
  | .nil, _, _ => by simp [Variants.allocOf]
  | .cons _ fs _, 0, vals => by simp [Variants.skel, Variants.allocOf, Fields.allocOf_skel fs vals]
  | .cons _ _ r, i+1, vals => by simp [Variants.skel, Variants.allocOf, Variants.allocOf_skel r i vals]
end

/-- Values with the same deep-copy skeleton cost the ε-copy reader the same allocations. -/
theorem Ty.allocOf_of_skel_eq (t : Ty) (v w : Val) (h : t.skel v = t.skel w) : t.allocOf v = t.allocOf w := by
  rw [← Ty.allocOf_skel t v, ← Ty.allocOf_skel t w, h]

end Eps
