/-
  The item loop `decMany` stops at the first item that fails (used by C15: a foreign tag in any item of an array of sums).
-/
import EpsModel.Lemmas.Read
namespace Eps

/-- The item loop reports the error of the first item that fails, whatever comes after it. -/
theorem decMany_err_after {α : Type} (rd : B → Nat → RRes α) (e : Err) :
    ∀ (vs : List α) (k : Nat) (d : B) (pos : Nat) (d' : B) (pos' : Nat),
      decMany rd vs.length d pos = .ok (vs, d', pos') → rd d' pos' = .err e →
      decMany rd (vs.length + (k + 1)) d pos = .err e
  | [], k, d, pos, d', pos', hok, herr => by
      simp only [decMany, List.length_nil] at hok
      cases hok
      simp only [List.length_nil, decMany, herr, Res.bind_err]
  | v :: vs, k, d, pos, d', pos', hok, herr => by
      simp only [List.length_cons, decMany] at hok
      have hlen : (v :: vs).length + (k + 1) = (vs.length + (k + 1)) + 1 := by simp only [List.length_cons]; omega
      rw [hlen, decMany]
      cases h1 : rd d pos with
      | err e' => rw [h1] at hok; cases hok
      | panic => rw [h1] at hok; cases hok
      | ok a =>
        obtain ⟨v1, d1, p1⟩ := a
        rw [h1] at hok
        simp only [Res.bind_ok] at hok ⊢
        cases h2 : decMany rd vs.length d1 p1 with
        | err e' => rw [h2] at hok; cases hok
        | panic => rw [h2] at hok; cases hok
        | ok b =>
          obtain ⟨ws, d2, p2⟩ := b
          rw [h2] at hok
          simp only [Res.bind_ok, Res.ok.injEq, Prod.mk.injEq, List.cons.injEq] at hok
          obtain ⟨⟨_, hws⟩, hd, hp⟩ := hok
          rw [hws, hd, hp] at h2
          rw [decMany_err_after rd e vs k d1 p1 d' pos' h2 herr]
          rfl

theorem eraseList_length : ∀ (es : List EVal), (EVal.eraseList es).length = es.length
  | [] => rfl
  | e :: es => by simp [EVal.eraseList, eraseList_length es]


end Eps
