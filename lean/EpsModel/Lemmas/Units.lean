/-
  Alignment units: for every zero-copy type of the well-formed universe, `align_of` and
  `max_size_of` are powers of two, the unit is at least the native alignment and at least the unit
  of every field.
-/
import EpsModel.Wf
import EpsModel.Lemmas.Mem
namespace Eps

/-- a power of two not exceeding 2^63 -/
def IsP2 (n : Nat) : Prop := ∃ k, k ≤ 63 ∧ n = 2 ^ k

theorem IsP2.pos {n : Nat} (h : IsP2 n) : 0 < n := by
  obtain ⟨k, _, rfl⟩ := h; exact Nat.two_pow_pos k

theorem IsP2.one : IsP2 1 := ⟨0, by omega, rfl⟩

theorem IsP2.max {a b : Nat} (ha : IsP2 a) (hb : IsP2 b) : IsP2 (max a b) := by
  obtain ⟨i, hi, rfl⟩ := ha
  obtain ⟨j, hj, rfl⟩ := hb
  by_cases h : i ≤ j
  · have : 2 ^ i ≤ 2 ^ j := Nat.pow_le_pow_right (by omega) h
    exact ⟨j, hj, by omega⟩
  · have : 2 ^ j ≤ 2 ^ i := Nat.pow_le_pow_right (by omega) (by omega)
    exact ⟨i, hi, by omega⟩

theorem IsP2.max0 {a b : Nat} (ha : IsP2 a) (hb : b = 0 ∨ IsP2 b) : IsP2 (Nat.max a b) := by
  rcases hb with rfl | hb
  · simpa using ha
  · exact IsP2.max ha hb

theorem Prim.align_p2 (p : Prim) : IsP2 p.align := by
  cases p with
  | int k => cases k <;> first | exact ⟨0, by omega, rfl⟩ | exact ⟨1, by omega, rfl⟩ | exact ⟨2, by omega, rfl⟩ | exact ⟨3, by omega, rfl⟩ | exact ⟨4, by omega, rfl⟩
  | nz k => cases k <;> first | exact ⟨0, by omega, rfl⟩ | exact ⟨1, by omega, rfl⟩ | exact ⟨2, by omega, rfl⟩ | exact ⟨3, by omega, rfl⟩ | exact ⟨4, by omega, rfl⟩
  | f32 => exact ⟨2, by omega, rfl⟩
  | f64 => exact ⟨3, by omega, rfl⟩
  | bool => exact ⟨0, by omega, rfl⟩
  | char => exact ⟨2, by omega, rfl⟩
  | unit => exact ⟨0, by omega, rfl⟩

mutual
/-- `align_of` is a power of two; the unit is a power of two and at least `align_of`. -/
theorem Ty.units (t : Ty) : t.isZC = true → t.wf = true → IsP2 t.alignOf ∧ IsP2 t.maxSizeOf ∧ t.alignOf ≤ t.maxSizeOf :=
  match t with
  | .prim p => fun _ _ => by
      have := Prim.align_p2 p
      simp only [Ty.alignOf, Ty.maxSizeOf]
      exact ⟨this, this, Nat.le_refl _⟩
  | .phantom _ => fun _ _ => by simp only [Ty.alignOf, Ty.maxSizeOf]; exact ⟨IsP2.one, IsP2.one, Nat.le_refl _⟩
  | .array t n => fun hz hw => by
      simp only [Ty.isZC] at hz
      simp only [Ty.wf, Bool.and_eq_true] at hw
      simpa [Ty.alignOf, Ty.maxSizeOf] using Ty.units t hz hw.1
  | .tuple t n => fun hz hw => by
      simp only [Ty.isZC, Bool.and_eq_true] at hz
      simp only [Ty.wf, Bool.and_eq_true] at hw
      simpa [Ty.alignOf, Ty.maxSizeOf] using Ty.units t hz.1.1 hw.1.1.1
  | .range k t => fun hz hw => by
      simp only [Ty.wf, Bool.and_eq_true, decide_eq_true_eq] at hw
      have ih := Ty.units t hw.1.1.2 hw.1.1.1
      have hp := pow2b_spec hw.1.2
      cases k <;> simp [Ty.isZC] at hz
      all_goals
        simp only [Ty.alignOf, Ty.maxSizeOf, Ty.sizeOf]
        exact ⟨ih.1, hp, hw.2⟩
  | .rangeFull => fun _ _ => by simp only [Ty.alignOf, Ty.maxSizeOf]; exact ⟨IsP2.one, IsP2.one, Nat.le_refl _⟩
  | .adt m vs => fun hz hw => by
      simp only [Ty.isZC, Bool.and_eq_true] at hz
      simp only [Ty.wf, Bool.and_eq_true, hz.1, if_true] at hw
      have hv := Variants.units vs hz.2 hw.1.1.1.2
      have ha : IsP2 (Ty.alignOf (.adt m vs)) := by
        simp only [Ty.alignOf]
        split
        · exact IsP2.max (IsP2.max (pow2b_spec hw.1.1.1.1) ⟨2, by omega, rfl⟩) hv.1
        · exact IsP2.max (pow2b_spec hw.1.1.1.1) hv.1
      refine ⟨ha, ?_, ?_⟩
      · simp only [Ty.maxSizeOf]
        exact IsP2.max0 ha hv.2
      · simp only [Ty.maxSizeOf]; omega
  | .string | .boxStr | .vec _ | .boxSlice _ | .option _ | .bound _ | .controlFlow _ _
  | .sliceRef _ | .serIter _ => fun h _ => by simp [Ty.isZC] at h
theorem Fields.units (f : Fields) : f.allZC = true → f.wf = true → IsP2 f.maxAlign ∧ (f.maxUnit = 0 ∨ IsP2 f.maxUnit) :=
  match f with
  | .nil => fun _ _ => by exact ⟨by simp only [Fields.maxAlign]; exact IsP2.one, Or.inl (by simp [Fields.maxUnit])⟩
  | .cons _ _ t r => fun hz hw => by
      simp only [Fields.allZC, Bool.and_eq_true] at hz
      simp only [Fields.wf, Bool.and_eq_true] at hw
      have h1 := Ty.units t hz.1 hw.1
      have h2 := Fields.units r hz.2 hw.2
      simp only [Fields.maxAlign, Fields.maxUnit]
      exact ⟨IsP2.max h1.1 h2.1, Or.inr (IsP2.max0 h1.2.1 h2.2)⟩
theorem Variants.units (v : Variants) : v.allZC = true → v.wf = true → IsP2 v.maxAlign ∧ (v.maxUnit = 0 ∨ IsP2 v.maxUnit) :=
  match v with
  | .nil => fun _ _ => by exact ⟨by simp only [Variants.maxAlign]; exact IsP2.one, Or.inl (by simp [Variants.maxUnit])⟩
  | .cons _ fs r => fun hz hw => by
      simp only [Variants.allZC, Bool.and_eq_true] at hz
      simp only [Variants.wf, Bool.and_eq_true] at hw
      have h1 := Fields.units fs hz.1 hw.1
      have h2 := Variants.units r hz.2 hw.2
      simp only [Variants.maxAlign, Variants.maxUnit]
      refine ⟨IsP2.max h1.1 h2.1, ?_⟩
      rcases h1.2 with h0 | hp
      · rw [h0]; simpa using h2.2
      · exact Or.inr (IsP2.max0 hp h2.2)
end

/-- The unit of a zero-copy structure is at least the unit of each of its fields. -/
theorem Fields.unit_le : ∀ (f : Fields) (n : B) (e : Bool) (t : Ty), Fields.mem n e t f → t.maxSizeOf ≤ f.maxUnit
  | .nil, _, _, _, h => by cases h
  | .cons n' e' t' r, n, e, t, h => by
      simp only [Fields.maxUnit]
      cases h with
      | head => omega
      | tail _ _ _ _ h' => have := Fields.unit_le r n e t h'; omega

end Eps
