/-
  Every zero-copy block the writer emits starts at a stream offset that is a multiple of its unit.
-/
import EpsModel.Blocks
import EpsModel.Lemmas.Units
import EpsModel.Lemmas.Read
namespace Eps

theorem pad_aligned {pos u : Nat} (hu : IsP2 u) : (pos + pad pos u) % u = 0 := by
  obtain ⟨k, hk, rfl⟩ := hu
  rw [pad_eq_padNat pos k (by omega)]
  exact padNat_spec (Nat.two_pow_pos k)

/-- all blocks of a list are aligned in the stream -/
def BlocksOK (bs : List Block) : Prop := ∀ b ∈ bs, b.off % b.unit = 0

theorem BlocksOK_append {a b : List Block} : BlocksOK (a ++ b) ↔ BlocksOK a ∧ BlocksOK b := by
  simp [BlocksOK, List.mem_append, or_imp, forall_and]

theorem BlocksOK_nil : BlocksOK [] := fun _ h => by simp at h

theorem BlocksOK_single {off len u : Nat} (h : off % u = 0) : BlocksOK [⟨off, len, u⟩] := by
  intro b hb; simp at hb; subst hb; exact h

theorem blocksList_ok (t : Ty) (vs : List Val) (h : ∀ v ∈ vs, ∀ pos, BlocksOK (t.blocks v pos)) (pos : Nat) :
    BlocksOK (Ty.blocksList t vs pos) := by
  induction vs generalizing pos with
  | nil => simp [Ty.blocksList, BlocksOK_nil]
  | cons v vs ih =>
    simp only [Ty.blocksList, BlocksOK_append]
    exact ⟨h v (by simp) pos, ih (fun w hw => h w (by simp [hw])) _⟩

theorem blocksSeq_ok (t : Ty) (vs : List Val) (hw : t.wf = true)
    (h : ∀ v ∈ vs, ∀ pos, BlocksOK (t.blocks v pos)) (pos : Nat) :
    BlocksOK (Ty.blocksSeq t vs pos) := by
  simp only [Ty.blocksSeq]
  by_cases hz : t.isZC = true
  · simp only [hz, if_true]
    have := pad_aligned (pos := pos + 8) (Ty.units t hz hw).2.1
    exact BlocksOK_single this
  · simp only [hz, if_false, Bool.false_eq_true]
    exact blocksList_ok t vs h _

mutual
theorem Ty.blocks_ok : ∀ (t : Ty), t.wf = true → ∀ v pos, BlocksOK (t.blocks v pos)
  | .prim _, _ => by intro v pos; cases v <;> simp [Ty.blocks, BlocksOK_nil]
  | .phantom _, _ => by intro v pos; cases v <;> simp [Ty.blocks, BlocksOK_nil]
  | .string, _ => by
      intro v pos; cases v <;> simp only [Ty.blocks] <;> first | exact BlocksOK_nil | exact BlocksOK_single (Nat.mod_one _)
  | .boxStr, _ => by
      intro v pos; cases v <;> simp only [Ty.blocks] <;> first | exact BlocksOK_nil | exact BlocksOK_single (Nat.mod_one _)
  | .vec t, hw => by
      intro v pos
      simp only [Ty.wf, Bool.and_eq_true] at hw
      cases v <;> simp only [Ty.blocks] <;> first | exact BlocksOK_nil | exact blocksSeq_ok t _ hw.1 (fun v _ => Ty.blocks_ok t hw.1 v) pos
  | .boxSlice t, hw => by
      intro v pos
      simp only [Ty.wf, Bool.and_eq_true] at hw
      cases v <;> simp only [Ty.blocks] <;> first | exact BlocksOK_nil | exact blocksSeq_ok t _ hw.1 (fun v _ => Ty.blocks_ok t hw.1 v) pos
  | .sliceRef _, hw => by simp [Ty.wf] at hw
  | .serIter _, hw => by simp [Ty.wf] at hw
  | .array t n, hw => by
      intro v pos
      simp only [Ty.wf, Bool.and_eq_true] at hw
      cases v with
      | seq vs =>
        simp only [Ty.blocks]
        by_cases hz : t.isZC = true
        · simp only [hz, if_true]
          exact BlocksOK_single (pad_aligned (Ty.units t hz hw.1).2.1)
        · simp only [hz, if_false, Bool.false_eq_true]
          exact blocksList_ok t vs (fun v _ => Ty.blocks_ok t hw.1 v) pos
      | _ => simp only [Ty.blocks]; exact BlocksOK_nil
  | .tuple t n, hw => by
      intro v pos
      simp only [Ty.wf, Bool.and_eq_true] at hw
      cases v with
      | seq vs =>
        simp only [Ty.blocks]
        exact BlocksOK_single (pad_aligned (Ty.units t hw.1.1.2 hw.1.1.1).2.1)
      | _ => simp only [Ty.blocks]; exact BlocksOK_nil
  | .option t, hw => by
      intro v pos
      simp only [Ty.wf] at hw
      cases v with
      | variant i fs =>
        match i, fs with
        | 1, [x] => simp only [Ty.blocks]; exact Ty.blocks_ok t hw x _
        | 0, _ => simp only [Ty.blocks]; exact BlocksOK_nil
        | 1, [] => simp only [Ty.blocks]; exact BlocksOK_nil
        | 1, _ :: _ :: _ => simp only [Ty.blocks]; exact BlocksOK_nil
        | _ + 2, _ => simp only [Ty.blocks]; exact BlocksOK_nil
      | _ => simp only [Ty.blocks]; exact BlocksOK_nil
  | .bound t, hw => by
      intro v pos
      simp only [Ty.wf] at hw
      cases v with
      | variant i fs =>
        match i, fs with
        | 1, [x] => simp only [Ty.blocks]; exact Ty.blocks_ok t hw x _
        | 2, [x] => simp only [Ty.blocks]; exact Ty.blocks_ok t hw x _
        | 0, _ => simp only [Ty.blocks]; exact BlocksOK_nil
        | 1, [] => simp only [Ty.blocks]; exact BlocksOK_nil
        | 1, _ :: _ :: _ => simp only [Ty.blocks]; exact BlocksOK_nil
        | 2, [] => simp only [Ty.blocks]; exact BlocksOK_nil
        | 2, _ :: _ :: _ => simp only [Ty.blocks]; exact BlocksOK_nil
        | _ + 3, _ => simp only [Ty.blocks]; exact BlocksOK_nil
      | _ => simp only [Ty.blocks]; exact BlocksOK_nil
  | .controlFlow b c, hw => by
      intro v pos
      simp only [Ty.wf, Bool.and_eq_true] at hw
      cases v with
      | variant i fs =>
        match i, fs with
        | 0, [x] => simp only [Ty.blocks]; exact Ty.blocks_ok b hw.1 x _
        | 1, [x] => simp only [Ty.blocks]; exact Ty.blocks_ok c hw.2 x _
        | 0, [] => simp only [Ty.blocks]; exact BlocksOK_nil
        | 0, _ :: _ :: _ => simp only [Ty.blocks]; exact BlocksOK_nil
        | 1, [] => simp only [Ty.blocks]; exact BlocksOK_nil
        | 1, _ :: _ :: _ => simp only [Ty.blocks]; exact BlocksOK_nil
        | _ + 2, _ => simp only [Ty.blocks]; exact BlocksOK_nil
      | _ => simp only [Ty.blocks]; exact BlocksOK_nil
  | .range k t, hw => by
      intro v pos
      simp only [Ty.wf, Bool.and_eq_true] at hw
      have ih := Ty.blocks_ok t hw.1.1.1
      cases v with
      | record fs =>
        cases k with
        | range =>
          match fs with
          | [a, b] => simp only [Ty.blocks, BlocksOK_append]; exact ⟨ih a _, ih b _⟩
          | [] => simp only [Ty.blocks]; exact BlocksOK_nil
          | [_] => simp only [Ty.blocks]; exact BlocksOK_nil
          | _ :: _ :: _ :: _ => simp only [Ty.blocks]; exact BlocksOK_nil
        | incl =>
          match fs with
          | [a, b] => simp only [Ty.blocks, BlocksOK_append]; exact ⟨ih a _, ih b _⟩
          | [] => simp only [Ty.blocks]; exact BlocksOK_nil
          | [_] => simp only [Ty.blocks]; exact BlocksOK_nil
          | _ :: _ :: _ :: _ => simp only [Ty.blocks]; exact BlocksOK_nil
        | «from» =>
          match fs with
          | [a] => simp only [Ty.blocks]; exact ih a _
          | [] => simp only [Ty.blocks]; exact BlocksOK_nil
          | _ :: _ :: _ => simp only [Ty.blocks]; exact BlocksOK_nil
        | to =>
          match fs with
          | [a] => simp only [Ty.blocks]; exact ih a _
          | [] => simp only [Ty.blocks]; exact BlocksOK_nil
          | _ :: _ :: _ => simp only [Ty.blocks]; exact BlocksOK_nil
        | toIncl =>
          match fs with
          | [a] => simp only [Ty.blocks]; exact ih a _
          | [] => simp only [Ty.blocks]; exact BlocksOK_nil
          | _ :: _ :: _ => simp only [Ty.blocks]; exact BlocksOK_nil
      | _ => cases k <;> (simp only [Ty.blocks]; exact BlocksOK_nil)
  | .rangeFull, _ => by intro v pos; cases v <;> simp [Ty.blocks, BlocksOK_nil]
  | .adt m vs, hw => by
      intro v pos
      have hw' := hw
      simp only [Ty.wf, Bool.and_eq_true] at hw
      by_cases hz : m.zero = true
      · simp only [hz, if_true, Bool.and_eq_true, Bool.not_eq_true'] at hw
        have hzc : (Ty.adt m vs).isZC = true := by simp [Ty.isZC, hz, hw.1.2.1]
        have hal := pad_aligned (pos := pos) (Ty.units (.adt m vs) hzc hw').2.1
        cases v with
        | record fs => rw [Ty.blocks_adt_zero m vs fs pos hz]; exact BlocksOK_single hal
        | variant i fs => simp only [Ty.blocks, hz, if_true]; exact BlocksOK_single hal
        | _ => simp only [Ty.blocks]; exact BlocksOK_nil
      · have hzf : m.zero = false := by simpa using hz
        cases v with
        | record fs =>
          match vs, hw with
          | .cons vn fds .nil, hw =>
            simp only [Variants.wf, Bool.and_true] at hw
            simp only [Ty.blocks, hzf, Bool.false_eq_true, if_false]
            exact Fields.blocks_ok fds hw.1.1.1.2 fs pos
          | .nil, _ => simp only [Ty.blocks, hzf, Bool.false_eq_true, if_false]; exact BlocksOK_nil
          | .cons _ _ (.cons _ _ _), _ => simp only [Ty.blocks, hzf, Bool.false_eq_true, if_false]; exact BlocksOK_nil
        | variant i fs =>
          rw [Ty.blocks_adt_enum m vs i fs pos hzf]
          exact Variants.blocks_ok vs hw.1.1.1.2 i fs _
        | _ => simp only [Ty.blocks]; exact BlocksOK_nil
theorem Fields.blocks_ok : ∀ (f : Fields), f.wf = true → ∀ vs pos, BlocksOK (f.blocks vs pos)
  | .nil, _ => by intro vs pos; simp [Fields.blocks, BlocksOK_nil]
  | .cons _ _ t r, hw => by
      intro vs pos
      simp only [Fields.wf, Bool.and_eq_true] at hw
      cases vs with
      | nil => simp [Fields.blocks, BlocksOK_nil]
      | cons v vs =>
        simp only [Fields.blocks, BlocksOK_append]
        exact ⟨Ty.blocks_ok t hw.1 v pos, Fields.blocks_ok r hw.2 vs _⟩
theorem Variants.blocks_ok : ∀ (vs : Variants), vs.wf = true → ∀ i vals pos, BlocksOK (vs.blocks i vals pos)
  | .nil, _ => by intro i vals pos; simp [Variants.blocks, BlocksOK_nil]
  | .cons _ fs r, hw => by
      intro i vals pos
      simp only [Variants.wf, Bool.and_eq_true] at hw
      cases i with
      | zero => simp only [Variants.blocks]; exact Fields.blocks_ok fs hw.1 vals pos
      | succ i => simp only [Variants.blocks]; exact Variants.blocks_ok r hw.2 i vals pos
end

end Eps
