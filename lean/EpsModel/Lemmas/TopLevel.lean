/-
  Top-level entry points on the serialized stream.
-/
import EpsModel.Lemmas.FrameEps2
import EpsModel.Lemmas.BlocksL
import EpsModel.Lemmas.HeaderL
namespace Eps

theorem Ty.header_length (H : B → Nat) (T : Ty) (name : B) : (T.header H name).length = 37 + name.length := by
  unfold Ty.header; exact wHeader_length _ _ _

/-- `deserialize_full(serialize(v) ++ rest) = Ok(v)`, consuming exactly the serialized bytes. -/
theorem Ty.deFull_ser_append (H : B → Nat) (hH : ∀ b, H b < 2^64) (T : Ty) (name : B) (v : Val) (rest : B)
    (hT : T.wf = true) (hv : T.wt v = true) (hname : validUtf8 name = true) (hlen : name.length < 2^63) :
    T.deFull H (T.ser H name v ++ rest) = .ok (v, (T.ser H name v).length) := by
  unfold Ty.deFull Ty.ser Ty.header
  simp only [List.append_assoc]
  have h1 : T.typeHash H < 2^64 := hH _
  have h2 : T.alignHash H < 2^64 := hH _
  rw [checkHeader_wHeader _ _ name _ h1 h2 hname hlen]
  simp only [Res.bind_ok]
  rw [Ty.framedFull .reader T hT v hv (wHeader (T.typeHash H) (T.alignHash H) name).length rest (AlignedAll_reader _)]
  simp

/-- A base address that is a multiple of the unit of every block aligns every block. -/
theorem aligned_of_base (base : Nat) (T : Ty) (hT : T.wf = true) (v : Val) (pos : Nat)
    (hb : ∀ b ∈ T.blocks v pos, base % b.unit = 0) : AlignedAll (.slice base) (T.blocks v pos) := by
  intro b hbm
  have h1 := hb b hbm
  have h2 := Ty.blocks_ok T hT v pos b hbm
  simp only [ModeOK]
  rw [Nat.add_mod, h1, h2]; simp

/-- `deserialize_eps(serialize(v) ++ rest)` when every block lands on its unit. -/
theorem Ty.deEps_ser_append (H : B → Nat) (hH : ∀ b, H b < 2^64) (T : Ty) (name : B) (v : Val) (base : Nat) (rest : B)
    (hT : T.wf = true) (hv : T.wt v = true) (hname : validUtf8 name = true) (hlen : name.length < 2^63)
    (ha : AlignedAll (.slice base) (T.blocks v (T.header H name).length)) :
    ∃ e, T.deEps H base (T.ser H name v ++ rest) = .ok (e, (T.ser H name v).length) ∧ e.erase = v
      ∧ ∀ b ∈ e.borrows, b.toBlock ∈ T.blocks v (T.header H name).length := by
  obtain ⟨e, he, her, heb⟩ := Ty.framedEps base T hT v hv (T.header H name).length rest ha
  refine ⟨e, ?_, her, heb⟩
  unfold Ty.deEps Ty.ser
  simp only [List.append_assoc]
  have h1 : T.typeHash H < 2^64 := hH _
  have h2 : T.alignHash H < 2^64 := hH _
  unfold Ty.header at he ⊢
  rw [checkHeader_wHeader _ _ name _ h1 h2 hname hlen]
  simp only [Res.bind_ok]
  rw [he]; simp

end Eps
