/-
  The header written by `write_header` is accepted by `check_header` for the same hash words.
-/
import EpsModel.Header
import EpsModel.Lemmas.FrameFull
namespace Eps

theorem magicBytes_length : magicBytes.length = 8 := by decide
theorem leVal_magicBytes : leVal magicBytes = magic := rfl

theorem wHeader_length (th ah : Nat) (name : B) : (wHeader th ah name).length = 37 + name.length := by
  simp [wHeader, magicBytes_length]; omega

theorem readWord_magic (rest : B) (pos : Nat) :
    readWord 8 (magicBytes ++ rest) pos = .ok (magic, rest, pos + 8) := by
  have := readExact_append' 8 magicBytes rest pos magicBytes_length
  simp [readWord, this, leVal_magicBytes]

theorem checkHeader_wHeader (th ah : Nat) (name rest : B) (hth : th < 2^64) (hah : ah < 2^64)
    (hu : validUtf8 name = true) (hl : name.length < 2^63) :
    checkHeader th ah (wHeader th ah name ++ rest) 0 = .ok ((), rest, (wHeader th ah name).length) := by
  simp only [checkHeader, wHeader, List.append_assoc]
  rw [readWord_magic]
  simp only [Res.bind_ok, bne_self_eq_false, Bool.false_eq_true, if_false]
  rw [readWord_leBytes 2 versionMajor _ _ (by decide)]
  simp only [Res.bind_ok, bne_self_eq_false, Bool.false_eq_true, if_false]
  rw [readWord_leBytes 2 versionMinor _ _ (by decide)]
  simp only [Res.bind_ok, Nat.lt_irrefl, if_false, gt_iff_lt]
  rw [readWord_leBytes 1 usizeSize _ _ (by decide)]
  simp only [Res.bind_ok, bne_self_eq_false, Bool.false_eq_true, if_false]
  rw [readWord_leBytes 8 th _ _ (by omega)]
  simp only [Res.bind_ok]
  rw [readWord_leBytes 8 ah _ _ (by omega)]
  simp only [Res.bind_ok]
  have := decFullStr_ok name rest (0 + 8 + 2 + 2 + 1 + 8 + 8) hu hl
  simp only [List.append_assoc] at this
  rw [this]
  simp [magicBytes_length]; omega

end Eps
