/-
  Truncated streams: reading a strict prefix of what the writer wrote never yields a value.
  Generic reader: always `ReadError`. Slice-based full reader and ε-copy reader: an error or a
  bounds-check panic.
-/
import EpsModel.Lemmas.Prefix
namespace Eps

def PF (t : Ty) (v : Val) : Prop :=
  ∀ pos p, SPre p (t.enc v pos) → t.decFull .reader p pos = .err .readError
def PS (base : Nat) (t : Ty) (v : Val) : Prop :=
  ∀ pos p, SPre p (t.enc v pos) → NotOk (t.decFull (.slice base) p pos)
def PE (base : Nat) (t : Ty) (v : Val) : Prop :=
  ∀ pos p, SPre p (t.enc v pos) → NotOk (t.decEps base p pos)

/-! ### a zero-copy block: padding then memory -/

theorem zero_prefix_full (t : Ty) (mem : B) (hm : mem.length = t.sizeOf) (pos : Nat) (p : B)
    (h : SPre p (zeros (pad pos t.maxSizeOf) ++ mem)) : decFullZero .reader t p pos = .err .readError := by
  simp only [decFullZero]
  rcases spre_append h with h1 | ⟨q, rfl, hq⟩
  · rw [alignRead_reader_short _ _ _ (by simpa using h1.length_lt)]; rfl
  · rw [alignRead_ok .reader _ _ _ trivial]
    simp only [Res.bind_ok]
    rw [readExact_short _ q _ (by rw [← hm]; exact hq.length_lt)]; rfl

theorem zero_prefix_slice (base : Nat) (t : Ty) (mem : B) (hm : mem.length = t.sizeOf) (pos : Nat) (p : B)
    (h : SPre p (zeros (pad pos t.maxSizeOf) ++ mem)) : NotOk (decFullZero (.slice base) t p pos) := by
  simp only [decFullZero]
  rcases spre_append h with h1 | ⟨q, rfl, hq⟩
  · rw [alignRead_slice_short _ _ _ _ (by simpa using h1.length_lt)]; exact NotOk.panic
  · rcases alignRead_slice_full base t.maxSizeOf pos q with h2 | h2 <;> rw [h2]
    · simp only [Res.bind_ok]
      rw [readExact_short _ q _ (by rw [← hm]; exact hq.length_lt)]; exact NotOk.err _
    · exact NotOk.err _

theorem zero_prefix_eps (base : Nat) (t : Ty) (mem : B) (hm : mem.length = t.sizeOf) (pos : Nat) (p : B)
    (h : SPre p (zeros (pad pos t.maxSizeOf) ++ mem)) : NotOk (decEpsZero base t p pos) := by
  simp only [decEpsZero]
  rcases spre_append h with h1 | ⟨q, rfl, hq⟩
  · rw [alignRead_slice_short _ _ _ _ (by simpa using h1.length_lt)]; exact NotOk.panic
  · have hlt := hq.length_lt
    rcases alignRead_slice_full base t.maxSizeOf pos q with h2 | h2 <;> rw [h2]
    · simp only [Res.bind_ok]
      have hne : (t.sizeOf == 0) = false := by
        have : t.sizeOf ≠ 0 := by omega
        simpa using this
      simp only [hne, Bool.false_eq_true, if_false]
      rw [takeOrPanic_short _ q _ (by omega)]; exact NotOk.panic
    · exact NotOk.err _

/-! ### a sequence of zero-copy elements: length, padding, memory -/

theorem vecZero_prefix_full (t : Ty) (n : Nat) (mem : B) (hn : n < 2^63) (hm : mem.length = n * t.sizeOf)
    (hb : n * t.sizeOf < 2^63) (pos : Nat) (p : B)
    (h : SPre p (leBytes 8 n ++ zeros (pad (pos + 8) t.maxSizeOf) ++ mem)) :
    decFullVecZero .reader t p pos = .err .readError := by
  simp only [decFullVecZero]
  rw [List.append_assoc] at h
  rcases spre_append h with h1 | ⟨q, rfl, hq⟩
  · rw [readWord_short 8 p pos (by simpa using h1.length_lt)]; rfl
  · rw [readWord_leBytes 8 n q pos (by omega)]
    simp only [Res.bind_ok]
    rcases spre_append hq with h1 | ⟨q', rfl, hq'⟩
    · rw [alignRead_reader_short _ _ _ (by simpa using h1.length_lt)]; rfl
    · rw [alignRead_ok .reader _ _ _ trivial]
      simp only [Res.bind_ok]
      have hnot : ¬ (n * t.sizeOf > isizeMax) := by unfold isizeMax; omega
      rw [if_neg hnot, readExact_short _ q' _ (by rw [← hm]; exact hq'.length_lt)]; rfl

theorem vecZero_prefix_slice (base : Nat) (t : Ty) (n : Nat) (mem : B) (hn : n < 2^63) (hm : mem.length = n * t.sizeOf)
    (hb : n * t.sizeOf < 2^63) (pos : Nat) (p : B)
    (h : SPre p (leBytes 8 n ++ zeros (pad (pos + 8) t.maxSizeOf) ++ mem)) :
    NotOk (decFullVecZero (.slice base) t p pos) := by
  simp only [decFullVecZero]
  rw [List.append_assoc] at h
  rcases spre_append h with h1 | ⟨q, rfl, hq⟩
  · rw [readWord_short 8 p pos (by simpa using h1.length_lt)]; exact NotOk.err _
  · rw [readWord_leBytes 8 n q pos (by omega)]
    simp only [Res.bind_ok]
    rcases spre_append hq with h1 | ⟨q', rfl, hq'⟩
    · rw [alignRead_slice_short _ _ _ _ (by simpa using h1.length_lt)]; exact NotOk.panic
    · rcases alignRead_slice_full base t.maxSizeOf (pos + 8) q' with h2 | h2 <;> rw [h2]
      · simp only [Res.bind_ok]
        have hnot : ¬ (n * t.sizeOf > isizeMax) := by unfold isizeMax; omega
        rw [if_neg hnot, readExact_short _ q' _ (by rw [← hm]; exact hq'.length_lt)]; exact NotOk.err _
      · exact NotOk.err _

theorem vecZero_prefix_eps (base : Nat) (t : Ty) (n : Nat) (mem : B) (hn : n < 2^63) (hm : mem.length = n * t.sizeOf)
    (hb : n * t.sizeOf < 2^63) (pos : Nat) (p : B)
    (h : SPre p (leBytes 8 n ++ zeros (pad (pos + 8) t.maxSizeOf) ++ mem)) :
    NotOk (decEpsSliceZero base t p pos) := by
  simp only [decEpsSliceZero]
  rw [List.append_assoc] at h
  rcases spre_append h with h1 | ⟨q, rfl, hq⟩
  · rw [readWord_short 8 p pos (by simpa using h1.length_lt)]; exact NotOk.err _
  · rw [readWord_leBytes 8 n q pos (by omega)]
    simp only [Res.bind_ok]
    have hnot : ¬ (n * t.sizeOf ≥ 2^64) := by omega
    rw [if_neg hnot]
    rcases spre_append hq with h1 | ⟨q', rfl, hq'⟩
    · rw [alignRead_slice_short _ _ _ _ (by simpa using h1.length_lt)]; exact NotOk.panic
    · rcases alignRead_slice_full base t.maxSizeOf (pos + 8) q' with h2 | h2 <;> rw [h2]
      · simp only [Res.bind_ok]
        rw [takeOrPanic_short _ q' _ (by rw [← hm]; exact hq'.length_lt)]; exact NotOk.panic
      · exact NotOk.err _

/-! ### loops -/

theorem decMany_prefix_full (t : Ty) (vs : List Val)
    (hf : ∀ v ∈ vs, FrF .reader t v) (hp : ∀ v ∈ vs, PF t v) (pos : Nat) (p : B)
    (h : SPre p (Ty.encList t vs pos)) :
    decMany (t.decFull .reader) vs.length p pos = .err .readError := by
  induction vs generalizing pos p with
  | nil => exact spre_nil_absurd (by simpa [Ty.encList] using h)
  | cons v vs ih =>
    simp only [Ty.encList] at h
    simp only [List.length_cons, decMany]
    rcases spre_append h with h1 | ⟨q, rfl, hq⟩
    · rw [hp v (by simp) pos p h1]; rfl
    · rw [hf v (by simp) pos q (AlignedAll_reader _)]
      simp only [Res.bind_ok]
      rw [ih (fun w hw => hf w (by simp [hw])) (fun w hw => hp w (by simp [hw])) _ q hq]; rfl

theorem decMany_prefix_slice (base : Nat) (t : Ty) (hw : t.wf = true) (vs : List Val)
    (hwt : ∀ v ∈ vs, t.wt v = true) (hp : ∀ v ∈ vs, PS base t v) (pos : Nat) (p : B)
    (h : SPre p (Ty.encList t vs pos)) :
    NotOk (decMany (t.decFull (.slice base)) vs.length p pos) := by
  induction vs generalizing pos p with
  | nil => exact spre_nil_absurd (by simpa [Ty.encList] using h)
  | cons v vs ih =>
    simp only [Ty.encList] at h
    simp only [List.length_cons, decMany]
    rcases spre_append h with h1 | ⟨q, rfl, hq⟩
    · exact NotOk.bind _ (hp v (by simp) pos p h1)
    · rcases full_dicho base t hw v (hwt v (by simp)) pos q with h2 | h2 <;> rw [h2]
      · simp only [Res.bind_ok]
        exact NotOk.bind _ (ih (fun w hw' => hwt w (by simp [hw'])) (fun w hw' => hp w (by simp [hw'])) _ q hq)
      · exact NotOk.err _

theorem decMany_prefix_eps (base : Nat) (t : Ty) (hw : t.wf = true) (vs : List Val)
    (hwt : ∀ v ∈ vs, t.wt v = true) (hp : ∀ v ∈ vs, PE base t v) (pos : Nat) (p : B)
    (h : SPre p (Ty.encList t vs pos)) :
    NotOk (decMany (t.decEps base) vs.length p pos) := by
  induction vs generalizing pos p with
  | nil => exact spre_nil_absurd (by simpa [Ty.encList] using h)
  | cons v vs ih =>
    simp only [Ty.encList] at h
    simp only [List.length_cons, decMany]
    rcases spre_append h with h1 | ⟨q, rfl, hq⟩
    · exact NotOk.bind _ (hp v (by simp) pos p h1)
    · rcases eps_dicho base t hw v (hwt v (by simp)) pos q with ⟨e, h2⟩ | h2 <;> rw [h2]
      · simp only [Res.bind_ok]
        exact NotOk.bind _ (ih (fun w hw' => hwt w (by simp [hw'])) (fun w hw' => hp w (by simp [hw'])) _ q hq)
      · exact NotOk.err _

end Eps
