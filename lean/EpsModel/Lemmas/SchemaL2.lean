/-
  The schema forest of every well-typed value tiles the bytes written, node by node.
-/
import EpsModel.Lemmas.SchemaL
import EpsModel.Lemmas.FrameFull
namespace Eps

theorem treesList_ok (t : Ty) (vs : List Val)
    (h : ∀ v ∈ vs, ∀ pos, TreesOK (t.trees v pos) pos (t.enc v pos).length) (pos : Nat) :
    ForestOK (Ty.treesList t vs pos) pos (Ty.encList t vs pos).length := by
  induction vs generalizing pos with
  | nil => simpa [Ty.treesList, Ty.encList] using ForestOK.nil pos
  | cons v vs ih =>
    simp only [Ty.treesList, Ty.encList, List.length_append]
    have hw := treeW_ok t v pos (h v (by simp) pos)
    have hos := treeW_off_size t v pos
    have := cons_ok (t.treeW v pos) _ pos _ hos.1 hw (by rw [hos.2]; exact ih (fun w hw' => h w (by simp [hw'])) _)
    rwa [hos.2] at this

/-- a tag/len leaf followed by one written value -/
theorem tag_then (w : Nat) (t : Ty) (x : Val) (pos : Nat) (h : TreesOK (t.trees x (pos + w)) (pos + w) (t.enc x (pos + w)).length) :
    ForestOK [.node pos w 0 false [], t.treeW x (pos + w)] pos (w + (t.enc x (pos + w)).length) := by
  have hw := treeW_ok t x (pos + w) h
  have hos := treeW_off_size t x (pos + w)
  have h2 : ForestOK [t.treeW x (pos + w)] (pos + w) ((t.enc x (pos + w)).length + 0) := by
    have := cons_ok (t.treeW x (pos + w)) [] (pos + w) 0 hos.1 hw (ForestOK.nil _)
    rwa [hos.2] at this
  have := cons_ok (.node pos w 0 false []) _ pos _ rfl (leaf_ok pos w) (by simpa [Tree.size] using h2)
  simpa [Tree.size] using this

mutual
theorem Ty.trees_ok : ∀ (t : Ty), t.wf = true → ∀ v, t.wt v = true → ∀ pos, TreesOK (t.trees v pos) pos (t.enc v pos).length
  | .prim p, _ => by
      intro v _ pos; cases v <;> simp only [Ty.trees] <;> exact TreesOK.nil _ _
  | .phantom _, _ => by
      intro v _ pos; cases v <;> simp only [Ty.trees] <;> exact TreesOK.nil _ _
  | .string, _ => by
      intro v hwt pos
      cases v with
      | str b =>
        simp only [Ty.trees, Ty.enc, List.length_append, leBytes_length]
        have hz := zeroTrees_ok (pos + 8) b.length 1 IsP2.one
        have hp : pad (pos + 8) 1 = 0 := by simp [pad]
        rw [hp, Nat.zero_add] at hz
        have := cons_ok (.node pos 8 0 false []) _ pos _ rfl (leaf_ok pos 8) (by simpa [Tree.size] using hz)
        exact ForestOK.toTrees (by simpa [Tree.size] using this)
      | _ => simp [Ty.wt] at hwt
  | .boxStr, _ => by
      intro v hwt pos
      cases v with
      | str b =>
        simp only [Ty.trees, Ty.enc, List.length_append, leBytes_length]
        have hz := zeroTrees_ok (pos + 8) b.length 1 IsP2.one
        have hp : pad (pos + 8) 1 = 0 := by simp [pad]
        rw [hp, Nat.zero_add] at hz
        have := cons_ok (.node pos 8 0 false []) _ pos _ rfl (leaf_ok pos 8) (by simpa [Tree.size] using hz)
        exact ForestOK.toTrees (by simpa [Tree.size] using this)
      | _ => simp [Ty.wt] at hwt
  | .vec t, hw => by
      intro v hwt pos
      simp only [Ty.wf, Bool.and_eq_true] at hw
      cases v with
      | seq vs =>
        simp only [Ty.wt, Bool.and_eq_true, decide_eq_true_eq] at hwt
        simp only [Ty.trees, Ty.treesSeq, Ty.enc, Ty.encSeq]
        by_cases hz : t.isZC = true
        · simp only [hz, if_true, List.length_append, leBytes_length, zeros_length]
          have h1 := zeroTrees_ok (pos + 8) (Ty.toMemList t vs).length t.maxSizeOf (Ty.units t hz hw.1).2.1
          have := cons_ok (.node pos 8 0 false []) _ pos _ rfl (leaf_ok pos 8) (by simpa [Tree.size] using h1)
          exact ForestOK.toTrees (by simpa [Tree.size, Nat.add_assoc] using this)
        · simp only [hz, if_false, Bool.false_eq_true, List.length_append, leBytes_length]
          have h1 := treesList_ok t vs (fun v hv => Ty.trees_ok t hw.1 v (wtList_mem hwt.1.1 v hv)) (pos + 8)
          have := cons_ok (.node pos 8 0 false []) _ pos _ rfl (leaf_ok pos 8) (by simpa [Tree.size] using h1)
          exact ForestOK.toTrees (by simpa [Tree.size] using this)
      | _ => simp [Ty.wt] at hwt
  | .boxSlice t, hw => by
      intro v hwt pos
      simp only [Ty.wf, Bool.and_eq_true] at hw
      cases v with
      | seq vs =>
        simp only [Ty.wt, Bool.and_eq_true, decide_eq_true_eq] at hwt
        simp only [Ty.trees, Ty.treesSeq, Ty.enc, Ty.encSeq]
        by_cases hz : t.isZC = true
        · simp only [hz, if_true, List.length_append, leBytes_length, zeros_length]
          have h1 := zeroTrees_ok (pos + 8) (Ty.toMemList t vs).length t.maxSizeOf (Ty.units t hz hw.1).2.1
          have := cons_ok (.node pos 8 0 false []) _ pos _ rfl (leaf_ok pos 8) (by simpa [Tree.size] using h1)
          exact ForestOK.toTrees (by simpa [Tree.size, Nat.add_assoc] using this)
        · simp only [hz, if_false, Bool.false_eq_true, List.length_append, leBytes_length]
          have h1 := treesList_ok t vs (fun v hv => Ty.trees_ok t hw.1 v (wtList_mem hwt.1.1 v hv)) (pos + 8)
          have := cons_ok (.node pos 8 0 false []) _ pos _ rfl (leaf_ok pos 8) (by simpa [Tree.size] using h1)
          exact ForestOK.toTrees (by simpa [Tree.size] using this)
      | _ => simp [Ty.wt] at hwt
  | .array t n, hw => by
      intro v hwt pos
      simp only [Ty.wf, Bool.and_eq_true] at hw
      cases v with
      | seq vs =>
        simp only [Ty.wt, Bool.and_eq_true, beq_iff_eq] at hwt
        simp only [Ty.trees, Ty.enc]
        by_cases hz : t.isZC = true
        · simp only [hz, if_true, List.length_append, zeros_length]
          exact (zeroTrees_ok pos (Ty.toMemList t vs).length t.maxSizeOf (Ty.units t hz hw.1).2.1).toTrees
        · simp only [hz, if_false, Bool.false_eq_true]
          exact (treesList_ok t vs (fun v hv => Ty.trees_ok t hw.1 v (wtList_mem hwt.1 v hv)) pos).toTrees
      | _ => simp [Ty.wt] at hwt
  | .tuple t n, hw => by
      intro v hwt pos
      simp only [Ty.wf, Bool.and_eq_true] at hw
      cases v with
      | seq vs =>
        simp only [Ty.trees, Ty.enc, List.length_append, zeros_length]
        exact (zeroTrees_ok pos (Ty.toMemList t vs).length t.maxSizeOf (Ty.units t hw.1.1.2 hw.1.1.1).2.1).toTrees
      | _ => simp [Ty.wt] at hwt
  | .option t, hw => by
      intro v hwt pos
      simp only [Ty.wf] at hw
      cases v with
      | variant i fs =>
        match i, fs, hwt with
        | 0, [], _ =>
          simp only [Ty.trees, Ty.enc]
          have := cons_ok (.node pos 1 0 false []) [] pos 0 rfl (leaf_ok pos 1) (ForestOK.nil _)
          exact ForestOK.toTrees (by simpa [Tree.size] using this)
        | 1, [x], hwt =>
          simp only [Ty.wt] at hwt
          simp only [Ty.trees, Ty.enc, List.length_cons]
          have := tag_then 1 t x pos (Ty.trees_ok t hw x hwt (pos + 1))
          exact ForestOK.toTrees (by simpa [Nat.add_comm] using this)
        | 0, _ :: _, hwt => simp [Ty.wt] at hwt
        | 1, [], hwt => simp [Ty.wt] at hwt
        | 1, _ :: _ :: _, hwt => simp [Ty.wt] at hwt
        | _ + 2, _, hwt => simp [Ty.wt] at hwt
      | _ => simp [Ty.wt] at hwt
  | .bound t, hw => by
      intro v hwt pos
      simp only [Ty.wf] at hw
      cases v with
      | variant i fs =>
        match i, fs, hwt with
        | 0, [], _ =>
          simp only [Ty.trees, Ty.enc]
          have := cons_ok (.node pos 1 0 false []) [] pos 0 rfl (leaf_ok pos 1) (ForestOK.nil _)
          exact ForestOK.toTrees (by simpa [Tree.size] using this)
        | 1, [x], hwt =>
          simp only [Ty.wt] at hwt
          simp only [Ty.trees, Ty.enc, List.length_cons]
          have := tag_then 1 t x pos (Ty.trees_ok t hw x hwt (pos + 1))
          exact ForestOK.toTrees (by simpa [Nat.add_comm] using this)
        | 2, [x], hwt =>
          simp only [Ty.wt] at hwt
          simp only [Ty.trees, Ty.enc, List.length_cons]
          have := tag_then 1 t x pos (Ty.trees_ok t hw x hwt (pos + 1))
          exact ForestOK.toTrees (by simpa [Nat.add_comm] using this)
        | 0, _ :: _, hwt => simp [Ty.wt] at hwt
        | 1, [], hwt => simp [Ty.wt] at hwt
        | 1, _ :: _ :: _, hwt => simp [Ty.wt] at hwt
        | 2, [], hwt => simp [Ty.wt] at hwt
        | 2, _ :: _ :: _, hwt => simp [Ty.wt] at hwt
        | _ + 3, _, hwt => simp [Ty.wt] at hwt
      | _ => simp [Ty.wt] at hwt
  | .controlFlow b c, hw => by
      intro v hwt pos
      simp only [Ty.wf, Bool.and_eq_true] at hw
      cases v with
      | variant i fs =>
        match i, fs, hwt with
        | 0, [x], hwt =>
          simp only [Ty.wt] at hwt
          simp only [Ty.trees, Ty.enc, List.length_cons]
          have := tag_then 1 b x pos (Ty.trees_ok b hw.1 x hwt (pos + 1))
          exact ForestOK.toTrees (by simpa [Nat.add_comm] using this)
        | 1, [x], hwt =>
          simp only [Ty.wt] at hwt
          simp only [Ty.trees, Ty.enc, List.length_cons]
          have := tag_then 1 c x pos (Ty.trees_ok c hw.2 x hwt (pos + 1))
          exact ForestOK.toTrees (by simpa [Nat.add_comm] using this)
        | 0, [], hwt => simp [Ty.wt] at hwt
        | 0, _ :: _ :: _, hwt => simp [Ty.wt] at hwt
        | 1, [], hwt => simp [Ty.wt] at hwt
        | 1, _ :: _ :: _, hwt => simp [Ty.wt] at hwt
        | _ + 2, _, hwt => simp [Ty.wt] at hwt
      | _ => simp [Ty.wt] at hwt
  | .range k t, hw => by
      intro v hwt pos
      simp only [Ty.wf, Bool.and_eq_true] at hw
      have ih := Ty.trees_ok t hw.1.1.1
      have one : ∀ (a : Val) (p : Nat), t.wt a = true → ForestOK [t.treeW a p] p (t.enc a p).length := by
        intro a p ha
        have hos := treeW_off_size t a p
        have := cons_ok (t.treeW a p) [] p 0 hos.1 (treeW_ok t a p (ih a ha p)) (ForestOK.nil _)
        simpa [hos.2] using this
      cases v with
      | record fs =>
        cases k with
        | range =>
          match fs, hwt with
          | [a, b], hwt =>
            simp only [Ty.wt, Bool.and_eq_true] at hwt
            simp only [Ty.trees, Ty.enc, List.length_append]
            exact (append_ok [t.treeW a pos] [t.treeW b (pos + (t.enc a pos).length)] pos _ _ (one a pos hwt.1) (one b _ hwt.2)).toTrees
          | [], hwt => simp [Ty.wt] at hwt
          | [_], hwt => simp [Ty.wt] at hwt
          | _ :: _ :: _ :: _, hwt => simp [Ty.wt] at hwt
        | incl =>
          match fs, hwt with
          | [a, b], hwt =>
            simp only [Ty.wt, Bool.and_eq_true] at hwt
            simp only [Ty.trees, Ty.enc, List.length_append, List.length_cons, List.length_nil]
            have h12 := append_ok [t.treeW a pos] [t.treeW b (pos + (t.enc a pos).length)] pos _ _ (one a pos hwt.1) (one b _ hwt.2)
            have h3 : ForestOK [Tree.node (pos + (t.enc a pos).length + (t.enc b (pos + (t.enc a pos).length)).length) 1 0 false []]
                (pos + ((t.enc a pos).length + (t.enc b (pos + (t.enc a pos).length)).length)) (1 + 0) := by
              have := cons_ok (.node (pos + (t.enc a pos).length + (t.enc b (pos + (t.enc a pos).length)).length) 1 0 false []) []
                (pos + ((t.enc a pos).length + (t.enc b (pos + (t.enc a pos).length)).length)) 0 (by simp [Tree.off, Nat.add_assoc]) (leaf_ok _ 1) (ForestOK.nil _)
              simpa [Tree.size] using this
            have := append_ok _ _ pos _ _ h12 h3
            exact ForestOK.toTrees (by simpa using this)
          | [], hwt => simp [Ty.wt] at hwt
          | [_], hwt => simp [Ty.wt] at hwt
          | _ :: _ :: _ :: _, hwt => simp [Ty.wt] at hwt
        | «from» =>
          match fs, hwt with
          | [a], hwt =>
            simp only [Ty.wt] at hwt
            simp only [Ty.trees, Ty.enc]
            exact (one a pos hwt).toTrees
          | [], hwt => simp [Ty.wt] at hwt
          | _ :: _ :: _, hwt => simp [Ty.wt] at hwt
        | to =>
          match fs, hwt with
          | [a], hwt =>
            simp only [Ty.wt] at hwt
            simp only [Ty.trees, Ty.enc]
            exact (one a pos hwt).toTrees
          | [], hwt => simp [Ty.wt] at hwt
          | _ :: _ :: _, hwt => simp [Ty.wt] at hwt
        | toIncl =>
          match fs, hwt with
          | [a], hwt =>
            simp only [Ty.wt] at hwt
            simp only [Ty.trees, Ty.enc]
            exact (one a pos hwt).toTrees
          | [], hwt => simp [Ty.wt] at hwt
          | _ :: _ :: _, hwt => simp [Ty.wt] at hwt
      | _ => cases k <;> simp [Ty.wt] at hwt
  | .rangeFull, _ => by
      intro v _ pos; cases v <;> simp only [Ty.trees] <;> exact TreesOK.nil _ _
  | .adt mt vs, hw => by
      intro v hwt pos
      have hw' := hw
      simp only [Ty.wf, Bool.and_eq_true] at hw
      by_cases hz : mt.zero = true
      · simp only [hz, if_true, Bool.and_eq_true, Bool.not_eq_true'] at hw
        have hzc : (Ty.adt mt vs).isZC = true := by simp [Ty.isZC, hz, hw.1.2.1]
        have hu := (Ty.units (.adt mt vs) hzc hw').2.1
        cases v with
        | record fs =>
          rw [Ty.enc_adt_zero mt vs fs pos hz]
          have : Ty.trees (.adt mt vs) (.record fs) pos
              = zeroTrees pos (Ty.toMem (.adt mt vs) (.record fs)).length (Ty.maxSizeOf (.adt mt vs)) := by
            cases vs with
            | nil => simp [Ty.trees, hz]
            | cons n f r => cases r <;> simp [Ty.trees, hz]
          rw [this, List.length_append, zeros_length]
          exact (zeroTrees_ok pos _ _ hu).toTrees
        | variant i fs =>
          rw [Ty.enc_adt_zero_variant mt vs i fs pos hz]
          have : Ty.trees (.adt mt vs) (.variant i fs) pos
              = zeroTrees pos (Ty.toMem (.adt mt vs) (.variant i fs)).length (Ty.maxSizeOf (.adt mt vs)) := by
            cases vs with
            | nil => simp [Ty.trees, hz]
            | cons n f r => cases r <;> simp [Ty.trees, hz]
          rw [this, List.length_append, zeros_length]
          exact (zeroTrees_ok pos _ _ hu).toTrees
        | _ => simp [Ty.wt] at hwt
      · simp only [hz, if_false, Bool.false_eq_true] at hw
        have hzf : mt.zero = false := by simpa using hz
        cases v with
        | record fs =>
          match vs, hw, hwt with
          | .cons vn fds .nil, hw, hwt =>
            simp only [Ty.wt, Bool.and_eq_true, Bool.not_eq_true'] at hwt
            simp only [Variants.wf, Bool.and_true, Bool.and_eq_true] at hw
            simp only [Ty.trees, Ty.enc, hzf, Bool.false_eq_true, if_false]
            exact (Fields.trees_ok fds hw.1.1.1.2 fs hwt.2 pos).toTrees
          | .nil, _, hwt => simp [Ty.wt] at hwt
          | .cons _ _ (.cons _ _ _), _, hwt => simp [Ty.wt] at hwt
        | variant i fs =>
          simp only [Ty.wt, Bool.and_eq_true] at hwt
          simp only [Bool.and_eq_true, decide_eq_true_eq] at hw
          rw [Ty.enc_adt_enum mt vs i fs pos hzf]
          have : Ty.trees (.adt mt vs) (.variant i fs) pos = .node pos 8 0 false [] :: Variants.trees vs i fs (pos + 8) := by
            simp [Ty.trees, hzf]
          rw [this, List.length_append, leBytes_length]
          have h1 := Variants.trees_ok vs hw.1.1.1.2 i fs hwt.2 (pos + 8)
          have := cons_ok (.node pos 8 0 false []) _ pos _ rfl (leaf_ok pos 8) (by simpa [Tree.size] using h1)
          exact ForestOK.toTrees (by simpa [Tree.size] using this)
        | _ => simp [Ty.wt] at hwt
  | .sliceRef _, hw => by simp [Ty.wf] at hw
  | .serIter _, hw => by simp [Ty.wf] at hw
theorem Fields.trees_ok : ∀ (f : Fields), f.wf = true → ∀ vs, f.wt vs = true → ∀ pos,
    ForestOK (f.trees vs pos) pos (f.enc vs pos).length
  | .nil, _ => by
      intro vs hwt pos
      cases vs <;> simp [Fields.wt] at hwt
      simpa [Fields.trees, Fields.enc] using ForestOK.nil pos
  | .cons nm e t r, hw => by
      intro vs hwt pos
      simp only [Fields.wf, Bool.and_eq_true] at hw
      cases vs with
      | nil => simp [Fields.wt] at hwt
      | cons v vs =>
        simp only [Fields.wt, Bool.and_eq_true] at hwt
        simp only [Fields.trees, Fields.enc, List.length_append]
        have hw1 := treeW_ok t v pos (Ty.trees_ok t hw.1 v hwt.1 pos)
        have hos := treeW_off_size t v pos
        have := cons_ok (t.treeW v pos) _ pos _ hos.1 hw1 (by rw [hos.2]; exact Fields.trees_ok r hw.2 vs hwt.2 _)
        rwa [hos.2] at this
theorem Variants.trees_ok : ∀ (vs : Variants), vs.wf = true → ∀ i vals, vs.wt i vals = true → ∀ pos,
    ForestOK (vs.trees i vals pos) pos (vs.enc i vals pos).length
  | .nil, _ => by intro i vals hwt; simp [Variants.wt] at hwt
  | .cons nm fs r, hw => by
      intro i vals hwt pos
      simp only [Variants.wf, Bool.and_eq_true] at hw
      cases i with
      | zero =>
        simp only [Variants.wt] at hwt
        simp only [Variants.trees, Variants.enc]
        exact Fields.trees_ok fs hw.1 vals hwt pos
      | succ i =>
        simp only [Variants.wt] at hwt
        simp only [Variants.trees, Variants.enc]
        exact Variants.trees_ok r hw.2 i vals hwt pos
end

end Eps
