/-
  Agreement of the readers on *arbitrary* input bytes.

  1. `Ty.decFull_mode`: whatever the bytes, if the full-copy methods run on a `SliceWithPos` (as the
     derived ε-copy code does for the fields that are not parameter-typed) return a value, the same
     methods on a generic reader return the same value, rest and position: the slice reader only
     adds failure cases (address check, bounds-check panic).
-/
import EpsModel.Lemmas.ConformL
import EpsModel.Header
namespace Eps

/-- `r ⊑ r'`: whenever `r` is a value, `r'` is the same value. -/
def Res.le (r r' : Res α) : Prop := ∀ x, r = .ok x → r' = .ok x

theorem Res.le_refl (r : Res α) : Res.le r r := fun _ h => h

theorem Res.le_bind {r r' : Res α} {f f' : α → Res β} (h : Res.le r r') (hf : ∀ a, Res.le (f a) (f' a)) :
    Res.le (r.bind f) (r'.bind f') := by
  intro x hx
  obtain ⟨a, ha, hfa⟩ := Res.bind_eq_ok hx
  rw [h a ha]
  exact hf a x hfa

theorem alignRead_mode (base u : Nat) (d : B) (pos : Nat) :
    Res.le (alignRead (.slice base) u d pos) (alignRead .reader u d pos) := by
  intro x hx
  simp only [alignRead] at hx ⊢
  obtain ⟨⟨b, d1, p1⟩, h1, h2⟩ := Res.bind_eq_ok hx
  simp only [takeOrPanic] at h1
  split at h1
  · rename_i hle
    cases h1
    simp only [readExact, hle, if_true, Res.bind_ok]
    simp only [] at h2
    split at h2
    · cases h2
    · exact h2
  · cases h1

theorem decMany_le {α : Type} (rd rd' : B → Nat → RRes α) (h : ∀ d pos, Res.le (rd d pos) (rd' d pos)) :
    ∀ (n : Nat) (d : B) (pos : Nat), Res.le (decMany rd n d pos) (decMany rd' n d pos)
  | 0, d, pos => by simp only [decMany]; exact Res.le_refl _
  | n+1, d, pos => by
      simp only [decMany]
      exact Res.le_bind (h d pos) (fun ⟨v, d1, p1⟩ => Res.le_bind (decMany_le rd rd' h n d1 p1) (fun _ => Res.le_refl _))

theorem decFullVecZero_mode (base : Nat) (t : Ty) (d : B) (pos : Nat) :
    Res.le (decFullVecZero (.slice base) t d pos) (decFullVecZero .reader t d pos) := by
  simp only [decFullVecZero]
  exact Res.le_bind (Res.le_refl _) (fun ⟨len, d1, p1⟩ => Res.le_bind (alignRead_mode base _ d1 p1) (fun _ => Res.le_refl _))

theorem decFullZero_mode (base : Nat) (t : Ty) (d : B) (pos : Nat) :
    Res.le (decFullZero (.slice base) t d pos) (decFullZero .reader t d pos) := by
  simp only [decFullZero]
  exact Res.le_bind (alignRead_mode base _ d pos) (fun _ => Res.le_refl _)

mutual
/-- The slice reader only adds failures to the generic reader. -/
theorem Ty.decFull_mode (base : Nat) : ∀ (t : Ty) (d : B) (pos : Nat),
    Res.le (Ty.decFull (.slice base) t d pos) (Ty.decFull .reader t d pos)
  | .prim _, d, pos => by simp only [Ty.decFull]; exact Res.le_refl _
  | .phantom _, d, pos => by simp only [Ty.decFull]; exact Res.le_refl _
  | .string, d, pos => by simp only [Ty.decFull]; exact Res.le_refl _
  | .boxStr, d, pos => by simp only [Ty.decFull]; exact Res.le_refl _
  | .vec t, d, pos => by
      simp only [Ty.decFull]
      split
      · exact Res.le_bind (decFullVecZero_mode base t d pos) (fun _ => Res.le_refl _)
      · exact Res.le_bind (Res.le_refl _) (fun ⟨len, d1, p1⟩ =>
          Res.le_bind (decMany_le _ _ (Ty.decFull_mode base t) len d1 p1) (fun _ => Res.le_refl _))
  | .boxSlice t, d, pos => by
      simp only [Ty.decFull]
      split
      · exact Res.le_bind (decFullVecZero_mode base t d pos) (fun _ => Res.le_refl _)
      · exact Res.le_bind (Res.le_refl _) (fun ⟨len, d1, p1⟩ =>
          Res.le_bind (decMany_le _ _ (Ty.decFull_mode base t) len d1 p1) (fun _ => Res.le_refl _))
  | .array t n, d, pos => by
      simp only [Ty.decFull]
      split
      · exact decFullZero_mode base _ d pos
      · exact Res.le_bind (decMany_le _ _ (Ty.decFull_mode base t) n d pos) (fun _ => Res.le_refl _)
  | .tuple t n, d, pos => by simp only [Ty.decFull]; exact decFullZero_mode base _ d pos
  | .option t, d, pos => by
      simp only [Ty.decFull]
      refine Res.le_bind (Res.le_refl _) (fun ⟨tag, d1, p1⟩ => ?_)
      match tag with
      | 0 => exact Res.le_refl _
      | 1 => exact Res.le_bind (Ty.decFull_mode base t d1 p1) (fun _ => Res.le_refl _)
      | _+2 => exact Res.le_refl _
  | .bound t, d, pos => by
      simp only [Ty.decFull]
      refine Res.le_bind (Res.le_refl _) (fun ⟨tag, d1, p1⟩ => ?_)
      match tag with
      | 0 => exact Res.le_refl _
      | 1 => exact Res.le_bind (Ty.decFull_mode base t d1 p1) (fun _ => Res.le_refl _)
      | 2 => exact Res.le_bind (Ty.decFull_mode base t d1 p1) (fun _ => Res.le_refl _)
      | _+3 => exact Res.le_refl _
  | .controlFlow b c, d, pos => by
      simp only [Ty.decFull]
      refine Res.le_bind (Res.le_refl _) (fun ⟨tag, d1, p1⟩ => ?_)
      match tag with
      | 0 => exact Res.le_bind (Ty.decFull_mode base b d1 p1) (fun _ => Res.le_refl _)
      | 1 => exact Res.le_bind (Ty.decFull_mode base c d1 p1) (fun _ => Res.le_refl _)
      | _+2 => exact Res.le_refl _
  | .range .range t, d, pos => by
      simp only [Ty.decFull]
      exact Res.le_bind (Ty.decFull_mode base t d pos) (fun ⟨_, d1, p1⟩ => Res.le_bind (Ty.decFull_mode base t d1 p1) (fun _ => Res.le_refl _))
  | .range .incl t, d, pos => by
      simp only [Ty.decFull]
      exact Res.le_bind (Ty.decFull_mode base t d pos) (fun ⟨_, d1, p1⟩ => Res.le_bind (Ty.decFull_mode base t d1 p1) (fun _ => Res.le_refl _))
  | .range .from t, d, pos => by
      simp only [Ty.decFull]; exact Res.le_bind (Ty.decFull_mode base t d pos) (fun _ => Res.le_refl _)
  | .range .to t, d, pos => by
      simp only [Ty.decFull]; exact Res.le_bind (Ty.decFull_mode base t d pos) (fun _ => Res.le_refl _)
  | .range .toIncl t, d, pos => by
      simp only [Ty.decFull]; exact Res.le_bind (Ty.decFull_mode base t d pos) (fun _ => Res.le_refl _)
  | .rangeFull, d, pos => by simp only [Ty.decFull]; exact Res.le_refl _
  | .adt mt vs, d, pos => by
      by_cases hz : mt.zero = true
      · rw [Ty.decFull_adt_zero _ mt vs d pos hz, Ty.decFull_adt_zero _ mt vs d pos hz]
        exact decFullZero_mode base _ d pos
      · have hzf : mt.zero = false := by simpa using hz
        by_cases he : mt.isEnum = true
        · rw [Ty.decFull_adt_enum _ mt vs d pos hzf he, Ty.decFull_adt_enum _ mt vs d pos hzf he]
          exact Res.le_bind (Res.le_refl _) (fun ⟨tag, d1, p1⟩ => Variants.decFull_mode base vs tag tag d1 p1)
        · have hef : mt.isEnum = false := by simpa using he
          match vs with
          | .cons _ fds .nil =>
            simp only [Ty.decFull, hzf, hef, Bool.false_eq_true, if_false]
            exact Res.le_bind (Fields.decFull_mode base fds d pos) (fun _ => Res.le_refl _)
          | .nil => simp only [Ty.decFull, hzf, hef, Bool.false_eq_true, if_false]; exact Res.le_refl _
          | .cons _ _ (.cons _ _ _) => simp only [Ty.decFull, hzf, hef, Bool.false_eq_true, if_false]; exact Res.le_refl _
  | .sliceRef _, d, pos => by simp only [Ty.decFull]; exact Res.le_refl _
  | .serIter _, d, pos => by simp only [Ty.decFull]; exact Res.le_refl _
theorem Fields.decFull_mode (base : Nat) : ∀ (f : Fields) (d : B) (pos : Nat),
    Res.le (Fields.decFull (.slice base) f d pos) (Fields.decFull .reader f d pos)
  | .nil, d, pos => by simp only [Fields.decFull]; exact Res.le_refl _
  | .cons _ _ t r, d, pos => by
      simp only [Fields.decFull]
      exact Res.le_bind (Ty.decFull_mode base t d pos) (fun ⟨_, d1, p1⟩ => Res.le_bind (Fields.decFull_mode base r d1 p1) (fun _ => Res.le_refl _))
theorem Variants.decFull_mode (base : Nat) : ∀ (vs : Variants) (orig i : Nat) (d : B) (pos : Nat),
    Res.le (Variants.decFull (.slice base) vs orig i d pos) (Variants.decFull .reader vs orig i d pos)
  | .nil, orig, i, d, pos => by simp only [Variants.decFull]; exact Res.le_refl _
  | .cons _ fs _, orig, 0, d, pos => by
      simp only [Variants.decFull]
      exact Res.le_bind (Fields.decFull_mode base fs d pos) (fun _ => Res.le_refl _)
  | .cons _ _ r, orig, i+1, d, pos => by
      simp only [Variants.decFull]; exact Variants.decFull_mode base r orig i d pos
end

/-! 2. `Ty.eps_full`: whatever the bytes, if the ε-copy reader returns a result whose borrowed
       strings are valid UTF-8 (the ε-copy reader does not validate them: it transmutes the bytes;
       the full-copy reader panics on invalid UTF-8), the full-copy reader over a generic reader
       returns the value that result describes, the same rest and the same position. -/

mutual
/-- every borrowed `&str` of the result holds valid UTF-8 -/
def EVal.strsValid : EVal → Prop
  | .bStr _ b => validUtf8 b = true
  | .seq vs => EVal.strsValidList vs
  | .variant _ vs => EVal.strsValidList vs
  | .record vs => EVal.strsValidList vs
  | _ => True
def EVal.strsValidList : List EVal → Prop
  | [] => True
  | e :: es => e.strsValid ∧ EVal.strsValidList es
end

theorem takeOrPanic_ok {n : Nat} {d : B} {pos : Nat} {b d' : B} {p' : Nat} (h : takeOrPanic n d pos = .ok (b, d', p')) :
    n ≤ d.length ∧ b = d.take n ∧ d' = d.drop n ∧ p' = pos + n := by
  simp only [takeOrPanic] at h
  split at h
  · rename_i hle; cases h; exact ⟨hle, rfl, rfl, rfl⟩
  · cases h

theorem readExact_of_le {n : Nat} {d : B} {pos : Nat} (h : n ≤ d.length) :
    readExact n d pos = .ok (d.take n, d.drop n, pos + n) := by
  simp [readExact, h]

theorem readWord_ok {w : Nat} {d : B} {pos : Nat} {n : Nat} {d' : B} {p' : Nat} (h : readWord w d pos = .ok (n, d', p')) :
    w ≤ d.length ∧ n = leVal (d.take w) ∧ d' = d.drop w ∧ p' = pos + w := by
  simp only [readWord, readExact] at h
  split at h
  · rename_i hle; simp at h; exact ⟨hle, h.1.symm, h.2.1.symm, h.2.2.symm⟩
  · simp at h

theorem alignRead_slice_ok {base u : Nat} {d : B} {pos : Nat} {d' : B} {p' : Nat}
    (h : alignRead (.slice base) u d pos = .ok ((), d', p')) :
    alignRead .reader u d pos = .ok ((), d', p') ∧ d'.length ≤ d.length :=  by
  have := alignRead_mode base u d pos _ h
  refine ⟨this, ?_⟩
  simp only [alignRead] at h
  obtain ⟨⟨b, d1, p1⟩, h1, h2⟩ := Res.bind_eq_ok h
  obtain ⟨_, _, rfl, rfl⟩ := takeOrPanic_ok h1
  simp only [] at h2
  split at h2
  · cases h2
  · cases h2; simp

/-- `deserialize_eps_slice_zero` versus `deserialize_full_vec_zero`. -/
theorem sliceZero_agree (base : Nat) (t : Ty) (d : B) (pos : Nat) (off : Nat) (b : B) (vs : List Val) (d' : B) (p' : Nat)
    (hd : d.length ≤ isizeMax) (h : decEpsSliceZero base t d pos = .ok ((off, b, vs), d', p')) :
    decFullVecZero .reader t d pos = .ok (vs, d', p') ∧ d'.length ≤ d.length ∧
    ∃ len d1, readWord 8 d pos = .ok (len, d1, pos + 8) ∧ b.length = len * t.sizeOf ∧ vs = Ty.fromMemList t len b := by
  simp only [decEpsSliceZero] at h
  obtain ⟨⟨len, d1, p1⟩, h1, h2⟩ := Res.bind_eq_ok h
  obtain ⟨hw, _, hd1, hp1⟩ := readWord_ok h1
  simp only [] at h2
  split at h2
  · cases h2
  · obtain ⟨⟨_, d2, p2⟩, h3, h4⟩ := Res.bind_eq_ok h2
    obtain ⟨h3r, h3l⟩ := alignRead_slice_ok h3
    simp only [] at h4
    obtain ⟨⟨b', d3, p3⟩, h5, h6⟩ := Res.bind_eq_ok h4
    obtain ⟨hle, hb, hd3, hp3⟩ := takeOrPanic_ok h5
    simp at h6
    obtain ⟨⟨rfl, rfl, rfl⟩, rfl, rfl⟩ := h6
    have hd1l : d1.length ≤ d.length := by rw [hd1]; simp
    have hnot : ¬ (len * t.sizeOf > isizeMax) := by omega
    refine ⟨?_, ?_, len, d1, by rw [h1, hp1], ?_, by rw [hb]⟩
    · simp only [decFullVecZero, h1, Res.bind_ok, h3r]
      rw [if_neg hnot, readExact_of_le hle]
      simp [hb, hd3, hp3]
    · rw [hd3]; simp; omega
    · rw [hb]; simp [hle]

theorem pad_one (pos : Nat) : pad pos 1 = 0 := by simp [pad]

/-- strings: the ε-copy reader borrows the bytes as they are, the full-copy reader validates them. -/
theorem str_agree (base : Nat) (d : B) (pos : Nat) (off : Nat) (b : B) (vs : List Val) (d' : B) (p' : Nat)
    (hd : d.length ≤ isizeMax) (h : decEpsSliceZero base (.prim (.int .u8)) d pos = .ok ((off, b, vs), d', p'))
    (hu : validUtf8 b = true) :
    decFullStr d pos = .ok (.str b, d', p') ∧ d'.length ≤ d.length := by
  simp only [decEpsSliceZero] at h
  obtain ⟨⟨len, d1, p1⟩, h1, h2⟩ := Res.bind_eq_ok h
  obtain ⟨hw, _, hd1, hp1⟩ := readWord_ok h1
  have hd1l : d1.length ≤ d.length := by rw [hd1]; simp
  simp only [] at h2
  split at h2
  · cases h2
  · obtain ⟨⟨_, d2, p2⟩, h3, h4⟩ := Res.bind_eq_ok h2
    simp only [alignRead, Ty.maxSizeOf, Prim.size, IntK.size, Nat.max_self, pad_one] at h3
    obtain ⟨⟨b0, d20, p20⟩, h30, h31⟩ := Res.bind_eq_ok h3
    obtain ⟨_, _, hd20, hp20⟩ := takeOrPanic_ok h30
    simp only [] at h31
    split at h31
    · cases h31
    · simp at h31
      obtain ⟨rfl, rfl⟩ := h31
      simp only [] at h4
      obtain ⟨⟨b', d3, p3⟩, h5, h6⟩ := Res.bind_eq_ok h4
      obtain ⟨hle, hb, hd3, hp3⟩ := takeOrPanic_ok h5
      simp at h6
      obtain ⟨⟨rfl, rfl, rfl⟩, rfl, rfl⟩ := h6
      simp only [Ty.sizeOf, Prim.size, IntK.size, Nat.mul_one] at hle hb hd3 hp3
      simp only [List.drop_zero, Nat.add_zero] at hd20 hp20
      subst hd20; subst hp20
      have hnot : ¬ (len > isizeMax) := by omega
      refine ⟨?_, by rw [hd3]; simp; omega⟩
      simp only [decFullStr, h1, Res.bind_ok]
      rw [if_neg hnot, readExact_of_le hle]
      simp only [Res.bind_ok]
      rw [← hb, hu]
      simp [hd3, hp3]

/-- `deserialize_eps_zero` versus `deserialize_full_zero`. -/
theorem zero_agree (base : Nat) (t : Ty) (d : B) (pos : Nat) (e : EVal) (d' : B) (p' : Nat)
    (h : decEpsZero base t d pos = .ok (e, d', p')) :
    decFullZero .reader t d pos = .ok (e.erase, d', p') ∧ d'.length ≤ d.length := by
  simp only [decEpsZero] at h
  obtain ⟨⟨_, d1, p1⟩, h1, h2⟩ := Res.bind_eq_ok h
  obtain ⟨h1r, h1l⟩ := alignRead_slice_ok h1
  simp only [] at h2
  split at h2
  · rename_i hz
    have hz' : t.sizeOf = 0 := by simpa using hz
    simp at h2
    obtain ⟨rfl, rfl, rfl⟩ := h2
    refine ⟨?_, h1l⟩
    simp only [decFullZero, h1r, Res.bind_ok, hz', readExact, Nat.zero_le, if_true, List.take_zero, List.drop_zero, Nat.add_zero, EVal.erase]
  · obtain ⟨⟨b, d2, p2⟩, h3, h4⟩ := Res.bind_eq_ok h2
    obtain ⟨hle, hb, hd2, hp2⟩ := takeOrPanic_ok h3
    simp at h4
    obtain ⟨rfl, rfl, rfl⟩ := h4
    refine ⟨?_, by rw [hd2]; simp; omega⟩
    simp only [decFullZero, h1r, Res.bind_ok]
    rw [readExact_of_le hle]
    simp [EVal.erase, hb, hd2, hp2]

theorem prim_agree (p : Prim) (d : B) (pos : Nat) (v : Val) (d' : B) (p' : Nat) (h : p.decEps d pos = .ok (v, d', p')) :
    p.decFull d pos = .ok (v, d', p') ∧ d'.length ≤ d.length ∧ (v = .unit ∨ ∃ n, v = .bits n) := by
  cases p with
  | unit =>
    simp [Prim.decEps] at h; obtain ⟨rfl, rfl, rfl⟩ := h
    simp [Prim.decFull]
  | bool =>
    simp only [Prim.decEps] at h
    obtain ⟨⟨b, d1, p1⟩, h1, h2⟩ := Res.bind_eq_ok h
    obtain ⟨hle, hb, hd1, hp1⟩ := takeOrPanic_ok h1
    simp at h2; obtain ⟨rfl, rfl, rfl⟩ := h2
    simp only [Prim.decFull, readWord, readExact_of_le hle, Res.bind_ok]
    refine ⟨by simp [hb, hd1, hp1], by rw [hd1]; simp, Or.inr ⟨_, rfl⟩⟩
  | char =>
    simp only [Prim.decEps] at h
    obtain ⟨⟨b, d1, p1⟩, h1, h2⟩ := Res.bind_eq_ok h
    obtain ⟨hle, hb, hd1, hp1⟩ := takeOrPanic_ok h1
    simp only [] at h2
    split at h2
    · rename_i hs
      simp at h2; obtain ⟨rfl, rfl, rfl⟩ := h2
      simp only [Prim.decFull, readWord, readExact_of_le hle, Res.bind_ok]
      rw [hb] at hs
      refine ⟨by simp [hb, hd1, hp1, hs], by rw [hd1]; simp, Or.inr ⟨_, rfl⟩⟩
    · cases h2
  | nz k =>
    simp only [Prim.decEps] at h
    obtain ⟨⟨b, d1, p1⟩, h1, h2⟩ := Res.bind_eq_ok h
    obtain ⟨hle, hb, hd1, hp1⟩ := takeOrPanic_ok h1
    simp only [] at h2
    split at h2
    · cases h2
    · rename_i hs
      simp at h2; obtain ⟨rfl, rfl, rfl⟩ := h2
      simp only [Prim.decFull, readWord, readExact_of_le hle, Res.bind_ok]
      rw [hb] at hs
      refine ⟨by simp [hb, hd1, hp1, hs], by rw [hd1]; simp, Or.inr ⟨_, rfl⟩⟩
  | int k =>
    simp only [Prim.decEps] at h
    obtain ⟨⟨b, d1, p1⟩, h1, h2⟩ := Res.bind_eq_ok h
    obtain ⟨hle, hb, hd1, hp1⟩ := takeOrPanic_ok h1
    simp at h2; obtain ⟨rfl, rfl, rfl⟩ := h2
    simp only [Prim.decFull, readWord, readExact_of_le hle, Res.bind_ok]
    refine ⟨by simp [hb, hd1, hp1], by rw [hd1]; simp, Or.inr ⟨_, rfl⟩⟩
  | f32 =>
    simp only [Prim.decEps] at h
    obtain ⟨⟨b, d1, p1⟩, h1, h2⟩ := Res.bind_eq_ok h
    obtain ⟨hle, hb, hd1, hp1⟩ := takeOrPanic_ok h1
    simp at h2; obtain ⟨rfl, rfl, rfl⟩ := h2
    simp only [Prim.decFull, readWord, readExact_of_le hle, Res.bind_ok]
    refine ⟨by simp [hb, hd1, hp1], by rw [hd1]; simp, Or.inr ⟨_, rfl⟩⟩
  | f64 =>
    simp only [Prim.decEps] at h
    obtain ⟨⟨b, d1, p1⟩, h1, h2⟩ := Res.bind_eq_ok h
    obtain ⟨hle, hb, hd1, hp1⟩ := takeOrPanic_ok h1
    simp at h2; obtain ⟨rfl, rfl, rfl⟩ := h2
    simp only [Prim.decFull, readWord, readExact_of_le hle, Res.bind_ok]
    refine ⟨by simp [hb, hd1, hp1], by rw [hd1]; simp, Or.inr ⟨_, rfl⟩⟩


/-! Readers never give back more bytes than they received. -/

/-- `r`, if it is a value, leaves at most the bytes of `d`. -/
def Shr {α : Type} (d : B) (r : RRes α) : Prop := ∀ a d' p', r = .ok (a, d', p') → d'.length ≤ d.length

theorem Shr.bind {α β : Type} {d : B} {r : RRes α} {f : α × B × Nat → RRes β} (h : Shr d r)
    (hf : ∀ a d1 p1, d1.length ≤ d.length → Shr d1 (f (a, d1, p1))) : Shr d (r.bind f) := by
  intro b d' p' hb
  obtain ⟨⟨a, d1, p1⟩, h1, h2⟩ := Res.bind_eq_ok hb
  have l1 := h a d1 p1 h1
  have l2 := hf a d1 p1 l1 b d' p' h2
  omega

theorem Shr.ok {α : Type} (d : B) (a : α) (p : Nat) : Shr d (.ok (a, d, p)) := by
  intro _ _ _ h; cases h; exact Nat.le_refl _

theorem Shr.err {α : Type} (d : B) (e : Err) : Shr d (.err e : RRes α) := by intro _ _ _ h; cases h
theorem Shr.panic {α : Type} (d : B) : Shr d (.panic : RRes α) := by intro _ _ _ h; cases h

theorem Shr.readExact (n : Nat) (d : B) (pos : Nat) : Shr d (readExact n d pos) := by
  intro a d' p' h
  simp only [Eps.readExact] at h
  split at h
  · cases h; simp
  · cases h

theorem Shr.takeOrPanic (n : Nat) (d : B) (pos : Nat) : Shr d (takeOrPanic n d pos) := by
  intro a d' p' h
  obtain ⟨_, _, rfl, _⟩ := takeOrPanic_ok h
  simp

theorem Shr.readWord (w : Nat) (d : B) (pos : Nat) : Shr d (readWord w d pos) := by
  simp only [Eps.readWord]
  exact Shr.bind (Shr.readExact w d pos) (fun _ d1 p1 _ => Shr.ok d1 _ _)

theorem Shr.alignRead (m : Mode) (u : Nat) (d : B) (pos : Nat) : Shr d (alignRead m u d pos) := by
  cases m with
  | reader =>
    simp only [Eps.alignRead]
    exact Shr.bind (Shr.readExact _ d pos) (fun _ d1 p1 _ => Shr.ok d1 _ _)
  | slice base =>
    simp only [Eps.alignRead]
    refine Shr.bind (Shr.takeOrPanic _ d pos) (fun _ d1 p1 _ => ?_)
    simp only []
    split
    · exact Shr.err _ _
    · exact Shr.ok d1 _ _

theorem Shr.decMany {α : Type} (rd : B → Nat → RRes α) (h : ∀ d pos, Shr d (rd d pos)) :
    ∀ (n : Nat) (d : B) (pos : Nat), Shr d (decMany rd n d pos)
  | 0, d, pos => by simp only [Eps.decMany]; exact Shr.ok d _ _
  | n+1, d, pos => by
      simp only [Eps.decMany]
      exact Shr.bind (h d pos) (fun _ d1 p1 _ => Shr.bind (Shr.decMany rd h n d1 p1) (fun _ d2 p2 _ => Shr.ok d2 _ _))

theorem Shr.decFullVecZero (m : Mode) (t : Ty) (d : B) (pos : Nat) : Shr d (decFullVecZero m t d pos) := by
  simp only [Eps.decFullVecZero]
  refine Shr.bind (Shr.readWord 8 d pos) (fun len d1 p1 _ => Shr.bind (Shr.alignRead m _ d1 p1) (fun _ d2 p2 _ => ?_))
  simp only []
  split
  · exact Shr.panic _
  · exact Shr.bind (Shr.readExact _ d2 p2) (fun _ d3 p3 _ => Shr.ok d3 _ _)

theorem Shr.decFullZero (m : Mode) (t : Ty) (d : B) (pos : Nat) : Shr d (decFullZero m t d pos) := by
  simp only [Eps.decFullZero]
  exact Shr.bind (Shr.alignRead m _ d pos) (fun _ d1 p1 _ => Shr.bind (Shr.readExact _ d1 p1) (fun _ d2 p2 _ => Shr.ok d2 _ _))

theorem Shr.decFullStr (d : B) (pos : Nat) : Shr d (decFullStr d pos) := by
  simp only [Eps.decFullStr]
  refine Shr.bind (Shr.readWord 8 d pos) (fun len d1 p1 _ => ?_)
  simp only []
  split
  · exact Shr.panic _
  · refine Shr.bind (Shr.readExact _ d1 p1) (fun b d2 p2 _ => ?_)
    simp only []
    split
    · exact Shr.ok d2 _ _
    · exact Shr.panic _

theorem Shr.primFull (p : Prim) (d : B) (pos : Nat) : Shr d (p.decFull d pos) := by
  cases p with
  | unit => simp only [Prim.decFull]; exact Shr.ok d _ _
  | bool => simp only [Prim.decFull]; exact Shr.bind (Shr.readWord _ d pos) (fun _ d1 p1 _ => Shr.ok d1 _ _)
  | char =>
    simp only [Prim.decFull]
    refine Shr.bind (Shr.readWord _ d pos) (fun n d1 p1 _ => ?_)
    simp only []; split
    · exact Shr.ok d1 _ _
    · exact Shr.panic _
  | nz k =>
    simp only [Prim.decFull]
    refine Shr.bind (Shr.readWord _ d pos) (fun n d1 p1 _ => ?_)
    simp only []; split
    · exact Shr.panic _
    · exact Shr.ok d1 _ _
  | int k => simp only [Prim.decFull]; exact Shr.bind (Shr.readWord _ d pos) (fun _ d1 p1 _ => Shr.ok d1 _ _)
  | f32 => simp only [Prim.decFull]; exact Shr.bind (Shr.readWord _ d pos) (fun _ d1 p1 _ => Shr.ok d1 _ _)
  | f64 => simp only [Prim.decFull]; exact Shr.bind (Shr.readWord _ d pos) (fun _ d1 p1 _ => Shr.ok d1 _ _)

mutual
theorem Ty.decFull_shr (m : Mode) : ∀ (t : Ty) (d : B) (pos : Nat), Shr d (Ty.decFull m t d pos)
  | .prim p, d, pos => by simp only [Ty.decFull]; exact Shr.primFull p d pos
  | .phantom _, d, pos => by simp only [Ty.decFull]; exact Shr.ok d _ _
  | .string, d, pos => by simp only [Ty.decFull]; exact Shr.decFullStr d pos
  | .boxStr, d, pos => by simp only [Ty.decFull]; exact Shr.decFullStr d pos
  | .vec t, d, pos => by
      simp only [Ty.decFull]
      split
      · exact Shr.bind (Shr.decFullVecZero m t d pos) (fun _ d1 p1 _ => Shr.ok d1 _ _)
      · exact Shr.bind (Shr.readWord 8 d pos) (fun len d1 p1 _ =>
          Shr.bind (Shr.decMany _ (Ty.decFull_shr m t) len d1 p1) (fun _ d2 p2 _ => Shr.ok d2 _ _))
  | .boxSlice t, d, pos => by
      simp only [Ty.decFull]
      split
      · exact Shr.bind (Shr.decFullVecZero m t d pos) (fun _ d1 p1 _ => Shr.ok d1 _ _)
      · exact Shr.bind (Shr.readWord 8 d pos) (fun len d1 p1 _ =>
          Shr.bind (Shr.decMany _ (Ty.decFull_shr m t) len d1 p1) (fun _ d2 p2 _ => Shr.ok d2 _ _))
  | .array t n, d, pos => by
      simp only [Ty.decFull]
      split
      · exact Shr.decFullZero m _ d pos
      · exact Shr.bind (Shr.decMany _ (Ty.decFull_shr m t) n d pos) (fun _ d2 p2 _ => Shr.ok d2 _ _)
  | .tuple t n, d, pos => by simp only [Ty.decFull]; exact Shr.decFullZero m _ d pos
  | .option t, d, pos => by
      simp only [Ty.decFull]
      refine Shr.bind (Shr.readWord 1 d pos) (fun tag d1 p1 _ => ?_)
      match tag with
      | 0 => exact Shr.ok d1 _ _
      | 1 => exact Shr.bind (Ty.decFull_shr m t d1 p1) (fun _ d2 p2 _ => Shr.ok d2 _ _)
      | _+2 => exact Shr.err _ _
  | .bound t, d, pos => by
      simp only [Ty.decFull]
      refine Shr.bind (Shr.readWord 1 d pos) (fun tag d1 p1 _ => ?_)
      match tag with
      | 0 => exact Shr.ok d1 _ _
      | 1 => exact Shr.bind (Ty.decFull_shr m t d1 p1) (fun _ d2 p2 _ => Shr.ok d2 _ _)
      | 2 => exact Shr.bind (Ty.decFull_shr m t d1 p1) (fun _ d2 p2 _ => Shr.ok d2 _ _)
      | _+3 => exact Shr.err _ _
  | .controlFlow b c, d, pos => by
      simp only [Ty.decFull]
      refine Shr.bind (Shr.readWord 1 d pos) (fun tag d1 p1 _ => ?_)
      match tag with
      | 0 => exact Shr.bind (Ty.decFull_shr m b d1 p1) (fun _ d2 p2 _ => Shr.ok d2 _ _)
      | 1 => exact Shr.bind (Ty.decFull_shr m c d1 p1) (fun _ d2 p2 _ => Shr.ok d2 _ _)
      | _+2 => exact Shr.err _ _
  | .range .range t, d, pos => by
      simp only [Ty.decFull]
      exact Shr.bind (Ty.decFull_shr m t d pos) (fun _ d1 p1 _ => Shr.bind (Ty.decFull_shr m t d1 p1) (fun _ d2 p2 _ => Shr.ok d2 _ _))
  | .range .incl t, d, pos => by
      simp only [Ty.decFull]
      refine Shr.bind (Ty.decFull_shr m t d pos) (fun _ d1 p1 _ => Shr.bind (Ty.decFull_shr m t d1 p1) (fun _ d2 p2 _ =>
        Shr.bind (Shr.readWord 1 d2 p2) (fun ex d3 p3 _ => ?_)))
      simp only []
      split
      · exact Shr.panic _
      · exact Shr.ok d3 _ _
  | .range .from t, d, pos => by
      simp only [Ty.decFull]; exact Shr.bind (Ty.decFull_shr m t d pos) (fun _ d1 p1 _ => Shr.ok d1 _ _)
  | .range .to t, d, pos => by
      simp only [Ty.decFull]; exact Shr.bind (Ty.decFull_shr m t d pos) (fun _ d1 p1 _ => Shr.ok d1 _ _)
  | .range .toIncl t, d, pos => by
      simp only [Ty.decFull]; exact Shr.bind (Ty.decFull_shr m t d pos) (fun _ d1 p1 _ => Shr.ok d1 _ _)
  | .rangeFull, d, pos => by simp only [Ty.decFull]; exact Shr.ok d _ _
  | .adt mt vs, d, pos => by
      by_cases hz : mt.zero = true
      · rw [Ty.decFull_adt_zero _ mt vs d pos hz]; exact Shr.decFullZero m _ d pos
      · have hzf : mt.zero = false := by simpa using hz
        by_cases he : mt.isEnum = true
        · rw [Ty.decFull_adt_enum _ mt vs d pos hzf he]
          exact Shr.bind (Shr.readWord 8 d pos) (fun tag d1 p1 _ => Variants.decFull_shr m vs tag tag d1 p1)
        · have hef : mt.isEnum = false := by simpa using he
          match vs with
          | .cons _ fds .nil =>
            simp only [Ty.decFull, hzf, hef, Bool.false_eq_true, if_false]
            exact Shr.bind (Fields.decFull_shr m fds d pos) (fun _ d1 p1 _ => Shr.ok d1 _ _)
          | .nil => simp only [Ty.decFull, hzf, hef, Bool.false_eq_true, if_false]; exact Shr.panic _
          | .cons _ _ (.cons _ _ _) => simp only [Ty.decFull, hzf, hef, Bool.false_eq_true, if_false]; exact Shr.panic _
  | .sliceRef _, d, pos => by simp only [Ty.decFull]; exact Shr.panic _
  | .serIter _, d, pos => by simp only [Ty.decFull]; exact Shr.panic _
theorem Fields.decFull_shr (m : Mode) : ∀ (f : Fields) (d : B) (pos : Nat), Shr d (Fields.decFull m f d pos)
  | .nil, d, pos => by simp only [Fields.decFull]; exact Shr.ok d _ _
  | .cons _ _ t r, d, pos => by
      simp only [Fields.decFull]
      exact Shr.bind (Ty.decFull_shr m t d pos) (fun _ d1 p1 _ => Shr.bind (Fields.decFull_shr m r d1 p1) (fun _ d2 p2 _ => Shr.ok d2 _ _))
theorem Variants.decFull_shr (m : Mode) : ∀ (vs : Variants) (orig i : Nat) (d : B) (pos : Nat), Shr d (Variants.decFull m vs orig i d pos)
  | .nil, orig, i, d, pos => by simp only [Variants.decFull]; exact Shr.err _ _
  | .cons _ fs _, orig, 0, d, pos => by
      simp only [Variants.decFull]
      exact Shr.bind (Fields.decFull_shr m fs d pos) (fun _ d1 p1 _ => Shr.ok d1 _ _)
  | .cons _ _ r, orig, i+1, d, pos => by
      simp only [Variants.decFull]; exact Variants.decFull_shr m r orig i d pos
end

theorem Ty.decFull_len (m : Mode) (t : Ty) (d : B) (pos : Nat) (v : Val) (d' : B) (p' : Nat)
    (h : Ty.decFull m t d pos = .ok (v, d', p')) : d'.length ≤ d.length := Ty.decFull_shr m t d pos v d' p' h

theorem decMany_agree {base : Nat} (t : Ty)
    (ih : ∀ (d : B) (pos : Nat) (e : EVal) (d' : B) (p' : Nat), d.length ≤ isizeMax → Ty.decEps base t d pos = .ok (e, d', p') →
      e.strsValid → Ty.decFull .reader t d pos = .ok (e.erase, d', p') ∧ d'.length ≤ d.length) :
    ∀ (n : Nat) (d : B) (pos : Nat) (es : List EVal) (d' : B) (p' : Nat), d.length ≤ isizeMax →
      decMany (Ty.decEps base t) n d pos = .ok (es, d', p') → EVal.strsValidList es →
      decMany (Ty.decFull .reader t) n d pos = .ok (EVal.eraseList es, d', p') ∧ d'.length ≤ d.length
  | 0, d, pos, es, d', p', _, h, _ => by
      simp [decMany] at h; obtain ⟨rfl, rfl, rfl⟩ := h
      simp [decMany, EVal.eraseList]
  | n+1, d, pos, es, d', p', hd, h, hs => by
      simp only [decMany] at h
      obtain ⟨⟨a, d1, p1⟩, h1, h2⟩ := Res.bind_eq_ok h
      obtain ⟨⟨as', d2, p2⟩, h3, h4⟩ := Res.bind_eq_ok h2
      simp at h4; obtain ⟨rfl, rfl, rfl⟩ := h4
      simp only [EVal.strsValidList] at hs
      obtain ⟨r1, l1⟩ := ih d pos a d1 p1 hd h1 hs.1
      obtain ⟨r2, l2⟩ := decMany_agree t ih n d1 p1 as' d2 p2 (by omega) h3 hs.2
      refine ⟨?_, by omega⟩
      simp only [decMany, r1, Res.bind_ok, r2, EVal.eraseList]

mutual
/-- **ε-copy and full copy agree on arbitrary bytes**: if the ε-copy reader returns a result (whose
    borrowed strings are valid UTF-8), the full-copy reader returns the value it describes. -/
theorem Ty.eps_full (base : Nat) : ∀ (t : Ty) (d : B) (pos : Nat) (e : EVal) (d' : B) (p' : Nat),
    d.length ≤ isizeMax → t.decEps base d pos = .ok (e, d', p') → e.strsValid →
    t.decFull .reader d pos = .ok (e.erase, d', p') ∧ d'.length ≤ d.length
  | .prim p, d, pos, e, d', p', _, h, _ => by
      simp only [Ty.decEps] at h
      obtain ⟨⟨v, d1, p1⟩, h1, h2⟩ := Res.bind_eq_ok h
      obtain ⟨r, l, hv⟩ := prim_agree p d pos v d1 p1 h1
      simp at h2; obtain ⟨rfl, rfl, rfl⟩ := h2
      refine ⟨?_, l⟩
      simp only [Ty.decFull, r]
      rcases hv with rfl | ⟨n, rfl⟩ <;> simp [EVal.erase]
  | .phantom _, d, pos, e, d', p', _, h, _ => by
      simp [Ty.decEps] at h; obtain ⟨rfl, rfl, rfl⟩ := h
      simp [Ty.decFull, EVal.erase]
  | .string, d, pos, e, d', p', hd, h, hs => by
      simp only [Ty.decEps] at h
      obtain ⟨⟨⟨off, b, vs⟩, d1, p1⟩, h1, h2⟩ := Res.bind_eq_ok h
      simp at h2; obtain ⟨rfl, rfl, rfl⟩ := h2
      simp only [EVal.strsValid] at hs
      obtain ⟨r, l⟩ := str_agree base d pos off b vs d1 p1 hd h1 hs
      exact ⟨by simp only [Ty.decFull, r, EVal.erase], l⟩
  | .boxStr, d, pos, e, d', p', hd, h, hs => by
      simp only [Ty.decEps] at h
      obtain ⟨⟨⟨off, b, vs⟩, d1, p1⟩, h1, h2⟩ := Res.bind_eq_ok h
      simp at h2; obtain ⟨rfl, rfl, rfl⟩ := h2
      simp only [EVal.strsValid] at hs
      obtain ⟨r, l⟩ := str_agree base d pos off b vs d1 p1 hd h1 hs
      exact ⟨by simp only [Ty.decFull, r, EVal.erase], l⟩
  | .vec t, d, pos, e, d', p', hd, h, hs => by
      simp only [Ty.decEps] at h
      simp only [Ty.decFull]
      split at h
      · rename_i hz
        obtain ⟨⟨⟨off, b, vs⟩, d1, p1⟩, h1, h2⟩ := Res.bind_eq_ok h
        simp at h2; obtain ⟨rfl, rfl, rfl⟩ := h2
        obtain ⟨r, l, _⟩ := sliceZero_agree base t d pos off b vs d1 p1 hd h1
        exact ⟨by simp only [hz, if_true, r, Res.bind_ok, EVal.erase], l⟩
      · rename_i hz
        obtain ⟨⟨len, d1, p1⟩, h1, h2⟩ := Res.bind_eq_ok h
        obtain ⟨_, _, hd1, _⟩ := readWord_ok h1
        obtain ⟨⟨es, d2, p2⟩, h3, h4⟩ := Res.bind_eq_ok h2
        simp at h4; obtain ⟨rfl, rfl, rfl⟩ := h4
        simp only [EVal.strsValid] at hs
        have hd1l : d1.length ≤ d.length := by rw [hd1]; simp
        obtain ⟨r, l⟩ := decMany_agree t (Ty.eps_full base t) len d1 p1 es d2 p2 (by omega) h3 hs
        exact ⟨by simp only [hz, if_false, Bool.false_eq_true, h1, Res.bind_ok, r, EVal.erase], by omega⟩
  | .boxSlice t, d, pos, e, d', p', hd, h, hs => by
      simp only [Ty.decEps] at h
      simp only [Ty.decFull]
      split at h
      · rename_i hz
        obtain ⟨⟨⟨off, b, vs⟩, d1, p1⟩, h1, h2⟩ := Res.bind_eq_ok h
        simp at h2; obtain ⟨rfl, rfl, rfl⟩ := h2
        obtain ⟨r, l, _⟩ := sliceZero_agree base t d pos off b vs d1 p1 hd h1
        exact ⟨by simp only [hz, if_true, r, Res.bind_ok, EVal.erase], l⟩
      · rename_i hz
        obtain ⟨⟨len, d1, p1⟩, h1, h2⟩ := Res.bind_eq_ok h
        obtain ⟨_, _, hd1, _⟩ := readWord_ok h1
        obtain ⟨⟨es, d2, p2⟩, h3, h4⟩ := Res.bind_eq_ok h2
        simp at h4; obtain ⟨rfl, rfl, rfl⟩ := h4
        simp only [EVal.strsValid] at hs
        have hd1l : d1.length ≤ d.length := by rw [hd1]; simp
        obtain ⟨r, l⟩ := decMany_agree t (Ty.eps_full base t) len d1 p1 es d2 p2 (by omega) h3 hs
        exact ⟨by simp only [hz, if_false, Bool.false_eq_true, h1, Res.bind_ok, r, EVal.erase], by omega⟩
  | .array t n, d, pos, e, d', p', hd, h, hs => by
      simp only [Ty.decEps] at h
      simp only [Ty.decFull]
      split at h
      · rename_i hz
        obtain ⟨⟨_, d1, p1⟩, h1, h2⟩ := Res.bind_eq_ok h
        obtain ⟨h1r, h1l⟩ := alignRead_slice_ok h1
        obtain ⟨⟨b, d2, p2⟩, h3, h4⟩ := Res.bind_eq_ok h2
        obtain ⟨hle, hb, hd2, hp2⟩ := takeOrPanic_ok h3
        simp at h4; obtain ⟨rfl, rfl, rfl⟩ := h4
        refine ⟨?_, by rw [hd2]; simp; omega⟩
        simp only [hz, if_true, decFullZero, Ty.maxSizeOf, h1r, Res.bind_ok, Ty.sizeOf]
        rw [readExact_of_le hle]
        simp [EVal.erase, Ty.fromMem, hb, hd2, hp2]
      · rename_i hz
        obtain ⟨⟨es, d2, p2⟩, h3, h4⟩ := Res.bind_eq_ok h
        simp at h4; obtain ⟨rfl, rfl, rfl⟩ := h4
        simp only [EVal.strsValid] at hs
        obtain ⟨r, l⟩ := decMany_agree t (Ty.eps_full base t) n d pos es d2 p2 hd h3 hs
        exact ⟨by simp only [hz, if_false, Bool.false_eq_true, r, Res.bind_ok, EVal.erase], l⟩
  | .tuple t n, d, pos, e, d', p', _, h, _ => by
      simp only [Ty.decEps] at h
      simp only [Ty.decFull]
      exact zero_agree base _ d pos e d' p' h
  | .option t, d, pos, e, d', p', hd, h, hs => by
      simp only [Ty.decEps] at h
      obtain ⟨⟨tag, d1, p1⟩, h1, h2⟩ := Res.bind_eq_ok h
      obtain ⟨_, _, hd1, _⟩ := readWord_ok h1
      have hd1l : d1.length ≤ d.length := by rw [hd1]; simp
      simp only [Ty.decFull, h1, Res.bind_ok]
      match tag, h2 with
      | 0, h2 => simp at h2; obtain ⟨rfl, rfl, rfl⟩ := h2; exact ⟨by simp [EVal.erase, EVal.eraseList], hd1l⟩
      | 1, h2 =>
        obtain ⟨⟨x, d2, p2⟩, h3, h4⟩ := Res.bind_eq_ok h2
        simp at h4; obtain ⟨rfl, rfl, rfl⟩ := h4
        simp only [EVal.strsValid, EVal.strsValidList] at hs
        obtain ⟨r, l⟩ := Ty.eps_full base t d1 p1 x d2 p2 (by omega) h3 hs.1
        exact ⟨by simp [r, EVal.erase, EVal.eraseList], by omega⟩
      | _+2, h2 => simp at h2
  | .bound t, d, pos, e, d', p', hd, h, hs => by
      simp only [Ty.decEps] at h
      obtain ⟨⟨tag, d1, p1⟩, h1, h2⟩ := Res.bind_eq_ok h
      obtain ⟨_, _, hd1, _⟩ := readWord_ok h1
      have hd1l : d1.length ≤ d.length := by rw [hd1]; simp
      simp only [Ty.decFull, h1, Res.bind_ok]
      match tag, h2 with
      | 0, h2 => simp at h2; obtain ⟨rfl, rfl, rfl⟩ := h2; exact ⟨by simp [EVal.erase, EVal.eraseList], hd1l⟩
      | 1, h2 =>
        obtain ⟨⟨x, d2, p2⟩, h3, h4⟩ := Res.bind_eq_ok h2
        simp at h4; obtain ⟨rfl, rfl, rfl⟩ := h4
        simp only [EVal.strsValid, EVal.strsValidList] at hs
        obtain ⟨r, l⟩ := Ty.eps_full base t d1 p1 x d2 p2 (by omega) h3 hs.1
        exact ⟨by simp [r, EVal.erase, EVal.eraseList], by omega⟩
      | 2, h2 =>
        obtain ⟨⟨x, d2, p2⟩, h3, h4⟩ := Res.bind_eq_ok h2
        simp at h4; obtain ⟨rfl, rfl, rfl⟩ := h4
        simp only [EVal.strsValid, EVal.strsValidList] at hs
        obtain ⟨r, l⟩ := Ty.eps_full base t d1 p1 x d2 p2 (by omega) h3 hs.1
        exact ⟨by simp [r, EVal.erase, EVal.eraseList], by omega⟩
      | _+3, h2 => simp at h2
  | .controlFlow bt ct, d, pos, e, d', p', hd, h, hs => by
      simp only [Ty.decEps] at h
      obtain ⟨⟨tag, d1, p1⟩, h1, h2⟩ := Res.bind_eq_ok h
      obtain ⟨_, _, hd1, _⟩ := readWord_ok h1
      have hd1l : d1.length ≤ d.length := by rw [hd1]; simp
      simp only [Ty.decFull, h1, Res.bind_ok]
      match tag, h2 with
      | 0, h2 =>
        obtain ⟨⟨x, d2, p2⟩, h3, h4⟩ := Res.bind_eq_ok h2
        simp at h4; obtain ⟨rfl, rfl, rfl⟩ := h4
        simp only [EVal.strsValid, EVal.strsValidList] at hs
        obtain ⟨r, l⟩ := Ty.eps_full base bt d1 p1 x d2 p2 (by omega) h3 hs.1
        exact ⟨by simp [r, EVal.erase, EVal.eraseList], by omega⟩
      | 1, h2 =>
        obtain ⟨⟨x, d2, p2⟩, h3, h4⟩ := Res.bind_eq_ok h2
        simp at h4; obtain ⟨rfl, rfl, rfl⟩ := h4
        simp only [EVal.strsValid, EVal.strsValidList] at hs
        obtain ⟨r, l⟩ := Ty.eps_full base ct d1 p1 x d2 p2 (by omega) h3 hs.1
        exact ⟨by simp [r, EVal.erase, EVal.eraseList], by omega⟩
      | _+2, h2 => simp at h2
  | .range .range t, d, pos, e, d', p', hd, h, hs => by
      simp only [Ty.decEps] at h
      obtain ⟨⟨a, d1, p1⟩, h1, h2⟩ := Res.bind_eq_ok h
      obtain ⟨⟨b, d2, p2⟩, h3, h4⟩ := Res.bind_eq_ok h2
      simp at h4; obtain ⟨rfl, rfl, rfl⟩ := h4
      simp only [EVal.strsValid, EVal.strsValidList] at hs
      obtain ⟨r1, l1⟩ := Ty.eps_full base t d pos a d1 p1 hd h1 hs.1
      obtain ⟨r2, l2⟩ := Ty.eps_full base t d1 p1 b d2 p2 (by omega) h3 hs.2.1
      exact ⟨by simp [Ty.decFull, r1, r2, EVal.erase, EVal.eraseList], by omega⟩
  | .range .incl t, d, pos, e, d', p', hd, h, hs => by
      simp only [Ty.decEps] at h
      obtain ⟨⟨a, d1, p1⟩, h1, h2⟩ := Res.bind_eq_ok h
      simp only [] at h2
      obtain ⟨⟨b, d2, p2⟩, h3, h4⟩ := Res.bind_eq_ok h2
      simp only [] at h4
      obtain ⟨⟨ex, d3, p3⟩, h5, h6⟩ := Res.bind_eq_ok h4
      obtain ⟨_, _, hd3, _⟩ := readWord_ok h5
      simp only [] at h6
      split at h6
      · cases h6
      · rename_i hex
        simp at h6; obtain ⟨rfl, rfl, rfl⟩ := h6
        simp only [EVal.strsValid, EVal.strsValidList] at hs
        obtain ⟨r1, l1⟩ := Ty.eps_full base t d pos a d1 p1 hd h1 hs.1
        obtain ⟨r2, l2⟩ := Ty.eps_full base t d1 p1 b d2 p2 (by omega) h3 hs.2.1
        have : d3.length ≤ d2.length := by rw [hd3]; simp
        have hex0 : ex = 0 := by simpa using hex
        exact ⟨by simp [Ty.decFull, r1, r2, h5, hex0, EVal.erase, EVal.eraseList], by omega⟩
  | .range .from t, d, pos, e, d', p', hd, h, hs => by
      simp only [Ty.decEps] at h
      obtain ⟨⟨a, d1, p1⟩, h1, h2⟩ := Res.bind_eq_ok h
      simp at h2; obtain ⟨rfl, rfl, rfl⟩ := h2
      simp only [EVal.strsValid, EVal.strsValidList] at hs
      obtain ⟨r1, l1⟩ := Ty.eps_full base t d pos a d1 p1 hd h1 hs.1
      exact ⟨by simp [Ty.decFull, r1, EVal.erase, EVal.eraseList], l1⟩
  | .range .to t, d, pos, e, d', p', hd, h, hs => by
      simp only [Ty.decEps] at h
      obtain ⟨⟨a, d1, p1⟩, h1, h2⟩ := Res.bind_eq_ok h
      simp at h2; obtain ⟨rfl, rfl, rfl⟩ := h2
      simp only [EVal.strsValid, EVal.strsValidList] at hs
      obtain ⟨r1, l1⟩ := Ty.eps_full base t d pos a d1 p1 hd h1 hs.1
      exact ⟨by simp [Ty.decFull, r1, EVal.erase, EVal.eraseList], l1⟩
  | .range .toIncl t, d, pos, e, d', p', hd, h, hs => by
      simp only [Ty.decEps] at h
      obtain ⟨⟨a, d1, p1⟩, h1, h2⟩ := Res.bind_eq_ok h
      simp at h2; obtain ⟨rfl, rfl, rfl⟩ := h2
      simp only [EVal.strsValid, EVal.strsValidList] at hs
      obtain ⟨r1, l1⟩ := Ty.eps_full base t d pos a d1 p1 hd h1 hs.1
      exact ⟨by simp [Ty.decFull, r1, EVal.erase, EVal.eraseList], l1⟩
  | .rangeFull, d, pos, e, d', p', _, h, _ => by
      simp [Ty.decEps] at h; obtain ⟨rfl, rfl, rfl⟩ := h
      simp [Ty.decFull, EVal.erase, EVal.eraseList]
  | .adt mt vs, d, pos, e, d', p', hd, h, hs => by
      by_cases hz : mt.zero = true
      · rw [Ty.decEps_adt_zero base mt vs d pos hz] at h
        rw [Ty.decFull_adt_zero _ mt vs d pos hz]
        exact zero_agree base _ d pos e d' p' h
      · have hzf : mt.zero = false := by simpa using hz
        by_cases he : mt.isEnum = true
        · rw [Ty.decEps_adt_enum base mt vs d pos hzf he] at h
          rw [Ty.decFull_adt_enum _ mt vs d pos hzf he]
          obtain ⟨⟨tag, d1, p1⟩, h1, h2⟩ := Res.bind_eq_ok h
          obtain ⟨_, _, hd1, _⟩ := readWord_ok h1
          have hd1l : d1.length ≤ d.length := by rw [hd1]; simp
          obtain ⟨r, l⟩ := Variants.eps_full base vs tag tag d1 p1 e d' p' (by omega) h2 hs
          exact ⟨by simp only [h1, Res.bind_ok, r], by omega⟩
        · have hef : mt.isEnum = false := by simpa using he
          match vs, h with
          | .cons _ fds .nil, h =>
            simp only [Ty.decEps, hzf, hef, Bool.false_eq_true, if_false] at h
            obtain ⟨⟨es, d1, p1⟩, h1, h2⟩ := Res.bind_eq_ok h
            simp at h2; obtain ⟨rfl, rfl, rfl⟩ := h2
            simp only [EVal.strsValid] at hs
            obtain ⟨r, l⟩ := Fields.eps_full base fds d pos es d1 p1 hd h1 hs
            exact ⟨by simp only [Ty.decFull, hzf, hef, Bool.false_eq_true, if_false, r, Res.bind_ok, EVal.erase], l⟩
          | .nil, h => simp [Ty.decEps, hzf, hef] at h
          | .cons _ _ (.cons _ _ _), h => simp [Ty.decEps, hzf, hef] at h
  | .sliceRef _, d, pos, e, d', p', _, h, _ => by simp [Ty.decEps] at h
  | .serIter _, d, pos, e, d', p', _, h, _ => by simp [Ty.decEps] at h
theorem Fields.eps_full (base : Nat) : ∀ (f : Fields) (d : B) (pos : Nat) (es : List EVal) (d' : B) (p' : Nat),
    d.length ≤ isizeMax → f.decEps base d pos = .ok (es, d', p') → EVal.strsValidList es →
    f.decFull .reader d pos = .ok (EVal.eraseList es, d', p') ∧ d'.length ≤ d.length
  | .nil, d, pos, es, d', p', _, h, _ => by
      simp [Fields.decEps] at h; obtain ⟨rfl, rfl, rfl⟩ := h
      simp [Fields.decFull, EVal.eraseList]
  | .cons _ viaEps t r, d, pos, es, d', p', hd, h, hs => by
      simp only [Fields.decEps] at h
      obtain ⟨⟨x, d1, p1⟩, h1, h2⟩ := Res.bind_eq_ok h
      obtain ⟨⟨xs, d2, p2⟩, h3, h4⟩ := Res.bind_eq_ok h2
      simp at h4; obtain ⟨rfl, rfl, rfl⟩ := h4
      simp only [EVal.strsValidList] at hs
      have key : Ty.decFull .reader t d pos = .ok (x.erase, d1, p1) ∧ d1.length ≤ d.length := by
        cases viaEps with
        | true => simp only [if_true] at h1; exact Ty.eps_full base t d pos x d1 p1 hd h1 hs.1
        | false =>
          simp only [Bool.false_eq_true, if_false] at h1
          obtain ⟨⟨v, d0, p0⟩, h5, h6⟩ := Res.bind_eq_ok h1
          simp at h6; obtain ⟨rfl, rfl, rfl⟩ := h6
          refine ⟨by simpa [EVal.erase] using Ty.decFull_mode base t d pos _ h5, ?_⟩
          exact Ty.decFull_len (.slice base) t d pos v d0 p0 h5
      obtain ⟨r2, l2⟩ := Fields.eps_full base r d1 p1 xs d2 p2 (by omega) h3 hs.2
      exact ⟨by simp only [Fields.decFull, key.1, Res.bind_ok, r2, EVal.eraseList], by omega⟩
theorem Variants.eps_full (base : Nat) : ∀ (vs : Variants) (orig i : Nat) (d : B) (pos : Nat) (e : EVal) (d' : B) (p' : Nat),
    d.length ≤ isizeMax → vs.decEps base orig i d pos = .ok (e, d', p') → e.strsValid →
    vs.decFull .reader orig i d pos = .ok (e.erase, d', p') ∧ d'.length ≤ d.length
  | .nil, orig, i, d, pos, e, d', p', _, h, _ => by simp [Variants.decEps] at h
  | .cons _ fs _, orig, 0, d, pos, e, d', p', hd, h, hs => by
      simp only [Variants.decEps] at h
      obtain ⟨⟨es, d1, p1⟩, h1, h2⟩ := Res.bind_eq_ok h
      simp at h2; obtain ⟨rfl, rfl, rfl⟩ := h2
      simp only [EVal.strsValid] at hs
      obtain ⟨r, l⟩ := Fields.eps_full base fs d pos es d1 p1 hd h1 hs
      exact ⟨by simp only [Variants.decFull, r, Res.bind_ok, EVal.erase], l⟩
  | .cons _ _ r, orig, i+1, d, pos, e, d', p', hd, h, hs => by
      simp only [Variants.decEps] at h
      simp only [Variants.decFull]
      exact Variants.eps_full base r orig i d pos e d' p' hd h hs
end


theorem Shr.checkHeader (th ah : Nat) (d : B) (pos : Nat) : Shr d (checkHeader th ah d pos) := by
  simp only [Eps.checkHeader]
  refine Shr.bind (Shr.readWord 8 d pos) (fun m d1 p1 _ => ?_)
  simp only []
  split
  · split
    · exact Shr.err _ _
    · exact Shr.err _ _
  · refine Shr.bind (Shr.readWord 2 d1 p1) (fun major d2 p2 _ => ?_)
    simp only []
    split
    · exact Shr.err _ _
    · refine Shr.bind (Shr.readWord 2 d2 p2) (fun minor d3 p3 _ => ?_)
      simp only []
      split
      · exact Shr.err _ _
      · refine Shr.bind (Shr.readWord 1 d3 p3) (fun us d4 p4 _ => ?_)
        simp only []
        split
        · exact Shr.err _ _
        · refine Shr.bind (Shr.readWord 8 d4 p4) (fun sth d5 p5 _ => Shr.bind (Shr.readWord 8 d5 p5) (fun sah d6 p6 _ =>
            Shr.bind (Shr.decFullStr d6 p6) (fun _ d7 p7 _ => ?_)))
          simp only []
          split
          · exact Shr.err _ _
          · split
            · exact Shr.err _ _
            · exact Shr.ok d7 _ _

end Eps
