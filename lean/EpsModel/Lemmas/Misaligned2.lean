/-
  Misplaced blocks yield `AlignmentError`: mutual structural induction on the type universe, for
  the slice-based full-copy reader and the ε-copy reader together.
-/
import EpsModel.Lemmas.Misaligned
namespace Eps

theorem no_blocks_absurd {m : Mode} {bs : List Block} {α : Prop} (h : bs = []) (ha : ¬ AlignedAll m bs) : α := by
  subst h; exact absurd (AlignedAll_nil m) ha

theorem unit1_absurd {base off len : Nat} {α : Prop} (ha : ¬ AlignedAll (.slice base) [⟨off, len, 1⟩]) : α := by
  exfalso; apply ha; intro b hb; simp at hb; subst hb; simp [ModeOK, Nat.mod_one]

mutual
theorem Ty.mis (base : Nat) : ∀ (t : Ty), t.wf = true → ∀ v, t.wt v = true → MisF base t v ∧ MisE base t v
  | .prim p, _ => by
      intro v _
      constructor <;> intro pos rest ha <;> cases v <;> exact no_blocks_absurd (by simp [Ty.blocks]) ha
  | .phantom _, _ => by
      intro v _
      constructor <;> intro pos rest ha <;> cases v <;> exact no_blocks_absurd (by simp [Ty.blocks]) ha
  | .string, _ => by
      intro v _
      constructor <;> intro pos rest ha <;> cases v with
        | str b => simp only [Ty.blocks] at ha; exact unit1_absurd ha
        | _ => exact no_blocks_absurd (by simp [Ty.blocks]) ha
  | .boxStr, _ => by
      intro v _
      constructor <;> intro pos rest ha <;> cases v with
        | str b => simp only [Ty.blocks] at ha; exact unit1_absurd ha
        | _ => exact no_blocks_absurd (by simp [Ty.blocks]) ha
  | .vec t, hw => by
      intro v hwt
      simp only [Ty.wf, Bool.and_eq_true] at hw
      cases v with
      | seq vs =>
        simp only [Ty.wt, Bool.and_eq_true, decide_eq_true_eq] at hwt
        have ihp := fun v hv => Ty.framedFull (.slice base) t hw.1 v (wtList_mem hwt.1.1 v hv)
        have ihe := fun v hv => Ty.framedEps base t hw.1 v (wtList_mem hwt.1.1 v hv)
        have ihn := fun v hv => Ty.mis base t hw.1 v (wtList_mem hwt.1.1 v hv)
        constructor <;> intro pos rest ha
        · simp only [Ty.enc, Ty.encSeq, Ty.decFull, Ty.blocks, Ty.blocksSeq] at ha ⊢
          by_cases hz : t.isZC = true
          · simp only [hz, if_true] at ha ⊢
            rw [vecZero_misF base t vs pos rest hwt.1.2 (not_all_single ha)]; rfl
          · simp only [hz, if_false, Bool.false_eq_true, List.append_assoc] at ha ⊢
            rw [readWord_leBytes 8 vs.length _ pos (by omega)]
            simp only [Res.bind_ok]
            rw [decMany_misF base t vs ihp (fun v hv => (ihn v hv).1) _ rest ha]; rfl
        · simp only [Ty.enc, Ty.encSeq, Ty.decEps, Ty.blocks, Ty.blocksSeq] at ha ⊢
          by_cases hz : t.isZC = true
          · simp only [hz, if_true] at ha ⊢
            rw [vecZero_misE base t vs pos rest hwt.1.2 hwt.2 (not_all_single ha)]; rfl
          · simp only [hz, if_false, Bool.false_eq_true, List.append_assoc] at ha ⊢
            rw [readWord_leBytes 8 vs.length _ pos (by omega)]
            simp only [Res.bind_ok]
            rw [decMany_misE base t vs ihe (fun v hv => (ihn v hv).2) _ rest ha]; rfl
      | _ => simp [Ty.wt] at hwt
  | .boxSlice t, hw => by
      intro v hwt
      simp only [Ty.wf, Bool.and_eq_true] at hw
      cases v with
      | seq vs =>
        simp only [Ty.wt, Bool.and_eq_true, decide_eq_true_eq] at hwt
        have ihp := fun v hv => Ty.framedFull (.slice base) t hw.1 v (wtList_mem hwt.1.1 v hv)
        have ihe := fun v hv => Ty.framedEps base t hw.1 v (wtList_mem hwt.1.1 v hv)
        have ihn := fun v hv => Ty.mis base t hw.1 v (wtList_mem hwt.1.1 v hv)
        constructor <;> intro pos rest ha
        · simp only [Ty.enc, Ty.encSeq, Ty.decFull, Ty.blocks, Ty.blocksSeq] at ha ⊢
          by_cases hz : t.isZC = true
          · simp only [hz, if_true] at ha ⊢
            rw [vecZero_misF base t vs pos rest hwt.1.2 (not_all_single ha)]; rfl
          · simp only [hz, if_false, Bool.false_eq_true, List.append_assoc] at ha ⊢
            rw [readWord_leBytes 8 vs.length _ pos (by omega)]
            simp only [Res.bind_ok]
            rw [decMany_misF base t vs ihp (fun v hv => (ihn v hv).1) _ rest ha]; rfl
        · simp only [Ty.enc, Ty.encSeq, Ty.decEps, Ty.blocks, Ty.blocksSeq] at ha ⊢
          by_cases hz : t.isZC = true
          · simp only [hz, if_true] at ha ⊢
            rw [vecZero_misE base t vs pos rest hwt.1.2 hwt.2 (not_all_single ha)]; rfl
          · simp only [hz, if_false, Bool.false_eq_true, List.append_assoc] at ha ⊢
            rw [readWord_leBytes 8 vs.length _ pos (by omega)]
            simp only [Res.bind_ok]
            rw [decMany_misE base t vs ihe (fun v hv => (ihn v hv).2) _ rest ha]; rfl
      | _ => simp [Ty.wt] at hwt
  | .array t n, hw => by
      intro v hwt
      simp only [Ty.wf, Bool.and_eq_true] at hw
      cases v with
      | seq vs =>
        simp only [Ty.wt, Bool.and_eq_true, beq_iff_eq] at hwt
        have ihp := fun v hv => Ty.framedFull (.slice base) t hw.1 v (wtList_mem hwt.1 v hv)
        have ihe := fun v hv => Ty.framedEps base t hw.1 v (wtList_mem hwt.1 v hv)
        have ihn := fun v hv => Ty.mis base t hw.1 v (wtList_mem hwt.1 v hv)
        constructor <;> intro pos rest ha
        · simp only [Ty.enc, Ty.decFull, Ty.blocks] at ha ⊢
          by_cases hz : t.isZC = true
          · simp only [hz, if_true] at ha ⊢
            have := zero_misF base (.array t n) (Ty.toMemList t vs) pos rest (by
              have := not_all_single ha; simpa [Ty.maxSizeOf] using this)
            simp only [Ty.maxSizeOf] at this
            exact this
          · simp only [hz, if_false, Bool.false_eq_true] at ha ⊢
            rw [← hwt.2, decMany_misF base t vs ihp (fun v hv => (ihn v hv).1) _ rest ha]; rfl
        · simp only [Ty.enc, Ty.decEps, Ty.blocks] at ha ⊢
          by_cases hz : t.isZC = true
          · simp only [hz, if_true, List.append_assoc] at ha ⊢
            rw [alignRead_bad base _ _ _ (not_all_single ha)]; rfl
          · simp only [hz, if_false, Bool.false_eq_true] at ha ⊢
            rw [← hwt.2, decMany_misE base t vs ihe (fun v hv => (ihn v hv).2) _ rest ha]; rfl
      | _ => simp [Ty.wt] at hwt
  | .tuple t n, _ => by
      intro v hwt
      cases v with
      | seq vs =>
        constructor <;> intro pos rest ha
        · simp only [Ty.enc, Ty.decFull, Ty.blocks] at ha ⊢
          have := zero_misF base (.tuple t n) (Ty.toMemList t vs) pos rest (by
            have := not_all_single ha; simpa [Ty.maxSizeOf] using this)
          simp only [Ty.maxSizeOf] at this
          exact this
        · simp only [Ty.enc, Ty.decEps, Ty.blocks] at ha ⊢
          have := zero_misE base (.tuple t n) (Ty.toMemList t vs) pos rest (by
            have := not_all_single ha; simpa [Ty.maxSizeOf] using this)
          simp only [Ty.maxSizeOf] at this
          exact this
      | _ => simp [Ty.wt] at hwt
  | .option t, hw => by
      intro v hwt
      simp only [Ty.wf] at hw
      cases v with
      | variant i fs =>
        match i, fs, hwt with
        | 0, [], _ => constructor <;> intro pos rest ha <;> exact no_blocks_absurd (by simp [Ty.blocks]) ha
        | 1, [x], hwt =>
          simp only [Ty.wt] at hwt
          have ih := Ty.mis base t hw x hwt
          constructor <;> intro pos rest ha <;> simp only [Ty.blocks] at ha
          · simp only [Ty.enc, Ty.decFull, List.cons_append]
            rw [readWord_byte]; simp only [Res.bind_ok, UInt8.toNat_one]
            rw [ih.1 (pos + 1) rest ha]; rfl
          · simp only [Ty.enc, Ty.decEps, List.cons_append]
            rw [readWord_byte]; simp only [Res.bind_ok, UInt8.toNat_one]
            rw [ih.2 (pos + 1) rest ha]; rfl
        | 0, _ :: _, hwt => simp [Ty.wt] at hwt
        | 1, [], hwt => simp [Ty.wt] at hwt
        | 1, _ :: _ :: _, hwt => simp [Ty.wt] at hwt
        | _ + 2, _, hwt => simp [Ty.wt] at hwt
      | _ => simp [Ty.wt] at hwt
  | .bound t, hw => by
      intro v hwt
      simp only [Ty.wf] at hw
      cases v with
      | variant i fs =>
        match i, fs, hwt with
        | 0, [], _ => constructor <;> intro pos rest ha <;> exact no_blocks_absurd (by simp [Ty.blocks]) ha
        | 1, [x], hwt =>
          simp only [Ty.wt] at hwt
          have ih := Ty.mis base t hw x hwt
          constructor <;> intro pos rest ha <;> simp only [Ty.blocks] at ha
          · simp only [Ty.enc, Ty.decFull, List.cons_append]
            rw [readWord_byte]; simp only [Res.bind_ok, UInt8.toNat_one]
            rw [ih.1 (pos + 1) rest ha]; rfl
          · simp only [Ty.enc, Ty.decEps, List.cons_append]
            rw [readWord_byte]; simp only [Res.bind_ok, UInt8.toNat_one]
            rw [ih.2 (pos + 1) rest ha]; rfl
        | 2, [x], hwt =>
          simp only [Ty.wt] at hwt
          have ih := Ty.mis base t hw x hwt
          constructor <;> intro pos rest ha <;> simp only [Ty.blocks] at ha
          · simp only [Ty.enc, Ty.decFull, List.cons_append]
            rw [readWord_byte]; simp only [Res.bind_ok, UInt8.toNat_ofNat]
            rw [ih.1 (pos + 1) rest ha]; rfl
          · simp only [Ty.enc, Ty.decEps, List.cons_append]
            rw [readWord_byte]; simp only [Res.bind_ok, UInt8.toNat_ofNat]
            rw [ih.2 (pos + 1) rest ha]; rfl
        | 0, _ :: _, hwt => simp [Ty.wt] at hwt
        | 1, [], hwt => simp [Ty.wt] at hwt
        | 1, _ :: _ :: _, hwt => simp [Ty.wt] at hwt
        | 2, [], hwt => simp [Ty.wt] at hwt
        | 2, _ :: _ :: _, hwt => simp [Ty.wt] at hwt
        | _ + 3, _, hwt => simp [Ty.wt] at hwt
      | _ => simp [Ty.wt] at hwt
  | .controlFlow b c, hw => by
      intro v hwt
      simp only [Ty.wf, Bool.and_eq_true] at hw
      cases v with
      | variant i fs =>
        match i, fs, hwt with
        | 0, [x], hwt =>
          simp only [Ty.wt] at hwt
          have ih := Ty.mis base b hw.1 x hwt
          constructor <;> intro pos rest ha <;> simp only [Ty.blocks] at ha
          · simp only [Ty.enc, Ty.decFull, List.cons_append]
            rw [readWord_byte]; simp only [Res.bind_ok, UInt8.toNat_zero]
            rw [ih.1 (pos + 1) rest ha]; rfl
          · simp only [Ty.enc, Ty.decEps, List.cons_append]
            rw [readWord_byte]; simp only [Res.bind_ok, UInt8.toNat_zero]
            rw [ih.2 (pos + 1) rest ha]; rfl
        | 1, [x], hwt =>
          simp only [Ty.wt] at hwt
          have ih := Ty.mis base c hw.2 x hwt
          constructor <;> intro pos rest ha <;> simp only [Ty.blocks] at ha
          · simp only [Ty.enc, Ty.decFull, List.cons_append]
            rw [readWord_byte]; simp only [Res.bind_ok, UInt8.toNat_one]
            rw [ih.1 (pos + 1) rest ha]; rfl
          · simp only [Ty.enc, Ty.decEps, List.cons_append]
            rw [readWord_byte]; simp only [Res.bind_ok, UInt8.toNat_one]
            rw [ih.2 (pos + 1) rest ha]; rfl
        | 0, [], hwt => simp [Ty.wt] at hwt
        | 0, _ :: _ :: _, hwt => simp [Ty.wt] at hwt
        | 1, [], hwt => simp [Ty.wt] at hwt
        | 1, _ :: _ :: _, hwt => simp [Ty.wt] at hwt
        | _ + 2, _, hwt => simp [Ty.wt] at hwt
      | _ => simp [Ty.wt] at hwt
  | .range k t, hw => by
      intro v hwt
      simp only [Ty.wf, Bool.and_eq_true] at hw
      have ihp := Ty.framedFull (.slice base) t hw.1.1.1
      have ihe := Ty.framedEps base t hw.1.1.1
      have ihn := Ty.mis base t hw.1.1.1
      cases v with
      | record fs =>
        cases k with
        | range =>
          match fs, hwt with
          | [a, b], hwt =>
            simp only [Ty.wt, Bool.and_eq_true] at hwt
            constructor <;> intro pos rest ha <;> simp only [Ty.blocks] at ha
            · simp only [Ty.enc, Ty.decFull, List.append_assoc]
              rcases not_all_append ha with h1 | ⟨h1, h2⟩
              · rw [(ihn a hwt.1).1 pos _ h1]; rfl
              · rw [ihp a hwt.1 pos _ h1]; simp only [Res.bind_ok]
                rw [(ihn b hwt.2).1 _ rest h2]; rfl
            · simp only [Ty.enc, Ty.decEps, List.append_assoc]
              rcases not_all_append ha with h1 | ⟨h1, h2⟩
              · rw [(ihn a hwt.1).2 pos _ h1]; rfl
              · obtain ⟨e, he, _, _⟩ := ihe a hwt.1 pos (t.enc b (pos + (t.enc a pos).length) ++ rest) h1
                rw [he]; simp only [Res.bind_ok]
                rw [(ihn b hwt.2).2 _ rest h2]; rfl
          | [], hwt => simp [Ty.wt] at hwt
          | [_], hwt => simp [Ty.wt] at hwt
          | _ :: _ :: _ :: _, hwt => simp [Ty.wt] at hwt
        | incl =>
          match fs, hwt with
          | [a, b], hwt =>
            simp only [Ty.wt, Bool.and_eq_true] at hwt
            constructor <;> intro pos rest ha <;> simp only [Ty.blocks] at ha
            · simp only [Ty.enc, Ty.decFull, List.append_assoc]
              rcases not_all_append ha with h1 | ⟨h1, h2⟩
              · rw [(ihn a hwt.1).1 pos _ h1]; rfl
              · rw [ihp a hwt.1 pos _ h1]; simp only [Res.bind_ok]
                rw [(ihn b hwt.2).1 _ _ h2]; rfl
            · simp only [Ty.enc, Ty.decEps, List.append_assoc]
              rcases not_all_append ha with h1 | ⟨h1, h2⟩
              · rw [(ihn a hwt.1).2 pos _ h1]; rfl
              · obtain ⟨e, he, _, _⟩ := ihe a hwt.1 pos (t.enc b (pos + (t.enc a pos).length) ++ ([0] ++ rest)) h1
                rw [he]; simp only [Res.bind_ok]
                rw [(ihn b hwt.2).2 _ _ h2]; rfl
          | [], hwt => simp [Ty.wt] at hwt
          | [_], hwt => simp [Ty.wt] at hwt
          | _ :: _ :: _ :: _, hwt => simp [Ty.wt] at hwt
        | «from» =>
          match fs, hwt with
          | [a], hwt =>
            simp only [Ty.wt] at hwt
            constructor <;> intro pos rest ha <;> simp only [Ty.blocks] at ha
            · simp only [Ty.enc, Ty.decFull]; rw [(ihn a hwt).1 pos rest ha]; rfl
            · simp only [Ty.enc, Ty.decEps]; rw [(ihn a hwt).2 pos rest ha]; rfl
          | [], hwt => simp [Ty.wt] at hwt
          | _ :: _ :: _, hwt => simp [Ty.wt] at hwt
        | to =>
          match fs, hwt with
          | [a], hwt =>
            simp only [Ty.wt] at hwt
            constructor <;> intro pos rest ha <;> simp only [Ty.blocks] at ha
            · simp only [Ty.enc, Ty.decFull]; rw [(ihn a hwt).1 pos rest ha]; rfl
            · simp only [Ty.enc, Ty.decEps]; rw [(ihn a hwt).2 pos rest ha]; rfl
          | [], hwt => simp [Ty.wt] at hwt
          | _ :: _ :: _, hwt => simp [Ty.wt] at hwt
        | toIncl =>
          match fs, hwt with
          | [a], hwt =>
            simp only [Ty.wt] at hwt
            constructor <;> intro pos rest ha <;> simp only [Ty.blocks] at ha
            · simp only [Ty.enc, Ty.decFull]; rw [(ihn a hwt).1 pos rest ha]; rfl
            · simp only [Ty.enc, Ty.decEps]; rw [(ihn a hwt).2 pos rest ha]; rfl
          | [], hwt => simp [Ty.wt] at hwt
          | _ :: _ :: _, hwt => simp [Ty.wt] at hwt
      | _ => cases k <;> simp [Ty.wt] at hwt
  | .rangeFull, _ => by
      intro v _
      constructor <;> intro pos rest ha <;> cases v <;> exact no_blocks_absurd (by simp [Ty.blocks]) ha
  | .adt mt vs, hw => by
      intro v hwt
      simp only [Ty.wf, Bool.and_eq_true] at hw
      by_cases hz : mt.zero = true
      · simp only [hz, if_true, Bool.and_eq_true, Bool.not_eq_true'] at hw
        cases v with
        | record fs =>
          constructor <;> intro pos rest ha <;> rw [Ty.blocks_adt_zero mt vs fs pos hz] at ha
          · rw [Ty.enc_adt_zero mt vs fs pos hz, Ty.decFull_adt_zero _ mt vs _ pos hz]
            exact zero_misF base (.adt mt vs) _ pos rest (not_all_single ha)
          · rw [Ty.enc_adt_zero mt vs fs pos hz, Ty.decEps_adt_zero base mt vs _ pos hz]
            exact zero_misE base (.adt mt vs) _ pos rest (not_all_single ha)
        | variant i fs =>
          constructor <;> intro pos rest ha <;> rw [Ty.blocks_adt_zero_variant mt vs i fs pos hz] at ha
          · rw [Ty.enc_adt_zero_variant mt vs i fs pos hz, Ty.decFull_adt_zero _ mt vs _ pos hz]
            exact zero_misF base (.adt mt vs) _ pos rest (not_all_single ha)
          · rw [Ty.enc_adt_zero_variant mt vs i fs pos hz, Ty.decEps_adt_zero base mt vs _ pos hz]
            exact zero_misE base (.adt mt vs) _ pos rest (not_all_single ha)
        | _ => simp [Ty.wt] at hwt
      · simp only [hz, if_false, Bool.false_eq_true] at hw
        have hzf : mt.zero = false := by simpa using hz
        cases v with
        | record fs =>
          match vs, hw, hwt with
          | .cons vn fds .nil, hw, hwt =>
            simp only [Ty.wt, Bool.and_eq_true, Bool.not_eq_true'] at hwt
            simp only [Variants.wf, Bool.and_true, Bool.and_eq_true] at hw
            have ih := Fields.mis base fds hw.1.1.1.2 fs hwt.2
            constructor <;> intro pos rest ha <;> simp only [Ty.blocks, hzf, Bool.false_eq_true, if_false] at ha
            · simp only [Ty.enc, Ty.decFull, hzf, hwt.1, if_false, Bool.false_eq_true]
              rw [ih.1 pos rest ha]; rfl
            · simp only [Ty.enc, Ty.decEps, hzf, hwt.1, if_false, Bool.false_eq_true]
              rw [ih.2 pos rest ha]; rfl
          | .nil, _, hwt => simp [Ty.wt] at hwt
          | .cons _ _ (.cons _ _ _), _, hwt => simp [Ty.wt] at hwt
        | variant i fs =>
          simp only [Ty.wt, Bool.and_eq_true] at hwt
          simp only [Bool.and_eq_true, decide_eq_true_eq] at hw
          have hlen : vs.length < 2^64 := hw.1.1.2
          have hi : i < vs.length := Variants.wt_lt vs i fs hwt.2
          have ih := Variants.mis base vs hw.1.1.1.2 i fs hwt.2
          constructor <;> intro pos rest ha <;> rw [Ty.blocks_adt_enum mt vs i fs pos hzf] at ha
          · rw [Ty.enc_adt_enum mt vs i fs pos hzf, Ty.decFull_adt_enum _ mt vs _ pos hzf hwt.1, List.append_assoc]
            rw [readWord_leBytes 8 i _ pos (by omega)]
            simp only [Res.bind_ok]
            exact ih.1 i (pos + 8) rest ha
          · rw [Ty.enc_adt_enum mt vs i fs pos hzf, Ty.decEps_adt_enum base mt vs _ pos hzf hwt.1, List.append_assoc]
            rw [readWord_leBytes 8 i _ pos (by omega)]
            simp only [Res.bind_ok]
            exact ih.2 i (pos + 8) rest ha
        | _ => simp [Ty.wt] at hwt
  | .sliceRef _, hw => by simp [Ty.wf] at hw
  | .serIter _, hw => by simp [Ty.wf] at hw
theorem Fields.mis (base : Nat) : ∀ (f : Fields), f.wf = true → ∀ vs, f.wt vs = true →
    (∀ pos rest, ¬ AlignedAll (.slice base) (f.blocks vs pos) →
      f.decFull (.slice base) (f.enc vs pos ++ rest) pos = .err .alignment) ∧
    (∀ pos rest, ¬ AlignedAll (.slice base) (f.blocks vs pos) →
      f.decEps base (f.enc vs pos ++ rest) pos = .err .alignment)
  | .nil, _ => by
      intro vs _
      constructor <;> intro pos rest ha <;> cases vs <;> exact no_blocks_absurd (by simp [Fields.blocks]) ha
  | .cons nm viaEps t r, hw => by
      intro vs hwt
      simp only [Fields.wf, Bool.and_eq_true] at hw
      cases vs with
      | nil => simp [Fields.wt] at hwt
      | cons v vs =>
        simp only [Fields.wt, Bool.and_eq_true] at hwt
        have iht := Ty.mis base t hw.1 v hwt.1
        have ihr := Fields.mis base r hw.2 vs hwt.2
        have ihp := Ty.framedFull (.slice base) t hw.1 v hwt.1
        have ihe := Ty.framedEps base t hw.1 v hwt.1
        constructor <;> intro pos rest ha <;> simp only [Fields.blocks] at ha
        · simp only [Fields.enc, Fields.decFull, List.append_assoc]
          rcases not_all_append ha with h1 | ⟨h1, h2⟩
          · rw [iht.1 pos _ h1]; rfl
          · rw [ihp pos _ h1]; simp only [Res.bind_ok]
            rw [ihr.1 _ rest h2]; rfl
        · simp only [Fields.enc, Fields.decEps, List.append_assoc]
          cases viaEps with
          | true =>
            simp only [if_true]
            rcases not_all_append ha with h1 | ⟨h1, h2⟩
            · rw [iht.2 pos _ h1]; rfl
            · obtain ⟨e, he, _, _⟩ := ihe pos (r.enc vs (pos + (t.enc v pos).length) ++ rest) h1
              rw [he]; simp only [Res.bind_ok]
              rw [ihr.2 _ rest h2]; rfl
          | false =>
            simp only [Bool.false_eq_true, if_false]
            rcases not_all_append ha with h1 | ⟨h1, h2⟩
            · rw [iht.1 pos _ h1]; rfl
            · rw [ihp pos _ h1]; simp only [Res.bind_ok]
              rw [ihr.2 _ rest h2]; rfl
theorem Variants.mis (base : Nat) : ∀ (vs : Variants), vs.wf = true → ∀ i vals, vs.wt i vals = true →
    (∀ orig pos rest, ¬ AlignedAll (.slice base) (vs.blocks i vals pos) →
      vs.decFull (.slice base) orig i (vs.enc i vals pos ++ rest) pos = .err .alignment) ∧
    (∀ orig pos rest, ¬ AlignedAll (.slice base) (vs.blocks i vals pos) →
      vs.decEps base orig i (vs.enc i vals pos ++ rest) pos = .err .alignment)
  | .nil, _ => by
      intro i vals hwt; simp [Variants.wt] at hwt
  | .cons nm fs r, hw => by
      intro i vals hwt
      simp only [Variants.wf, Bool.and_eq_true] at hw
      cases i with
      | zero =>
        simp only [Variants.wt] at hwt
        have ih := Fields.mis base fs hw.1 vals hwt
        constructor <;> intro orig pos rest ha <;> simp only [Variants.blocks] at ha
        · simp only [Variants.enc, Variants.decFull]; rw [ih.1 pos rest ha]; rfl
        · simp only [Variants.enc, Variants.decEps]; rw [ih.2 pos rest ha]; rfl
      | succ i =>
        simp only [Variants.wt] at hwt
        have ih := Variants.mis base r hw.2 i vals hwt
        constructor <;> intro orig pos rest ha <;> simp only [Variants.blocks] at ha
        · simp only [Variants.enc, Variants.decFull]; exact ih.1 orig pos rest ha
        · simp only [Variants.enc, Variants.decEps]; exact ih.2 orig pos rest ha
end

end Eps
