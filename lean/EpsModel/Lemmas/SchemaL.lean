/-
  Tiling and alignment of the schema forest.
-/
import EpsModel.Schema
import EpsModel.Lemmas.BlocksL
namespace Eps

/-- siblings are contiguous from `p`; returns where they end -/
def contig : List Tree → Nat → Option Nat
  | [], p => some p
  | t :: ts, p => if t.off = p then contig ts (p + t.size) else none

mutual
/-- a node's children, if any, tile it exactly; recursively -/
def Tree.tiled : Tree → Bool
  | .node o s _ _ kids => (kids.isEmpty || contig kids o == some (o + s)) && Tree.tiledList kids
def Tree.tiledList : List Tree → Bool
  | [] => true
  | t :: ts => t.tiled && Tree.tiledList ts
end

mutual
/-- every recorded alignment divides the offset of its row (0 = not applicable) -/
def Tree.alignedAll : Tree → Bool
  | .node o _ a _ kids => (a == 0 || o % a == 0) && Tree.alignedList kids
def Tree.alignedList : List Tree → Bool
  | [] => true
  | t :: ts => t.alignedAll && Tree.alignedList ts
end

theorem contig_append (a b : List Tree) (p : Nat) :
    contig (a ++ b) p = (contig a p).bind (fun q => contig b q) := by
  induction a generalizing p with
  | nil => simp [contig]
  | cons t ts ih =>
    simp only [List.cons_append, contig]
    split
    · exact ih _
    · simp

theorem tiledList_append (a b : List Tree) : Tree.tiledList (a ++ b) = (Tree.tiledList a && Tree.tiledList b) := by
  induction a with
  | nil => simp [Tree.tiledList]
  | cons t ts ih => simp [Tree.tiledList, ih, Bool.and_assoc]

theorem alignedList_append (a b : List Tree) : Tree.alignedList (a ++ b) = (Tree.alignedList a && Tree.alignedList b) := by
  induction a with
  | nil => simp [Tree.alignedList]
  | cons t ts ih => simp [Tree.alignedList, ih, Bool.and_assoc]

/-- a forest starting at `p` covers exactly `len` bytes, every node is tiled by its children, every
    recorded alignment divides its offset -/
structure ForestOK (f : List Tree) (p len : Nat) : Prop where
  cover : contig f p = some (p + len)
  tiled : Tree.tiledList f = true
  aligned : Tree.alignedList f = true

/-- same, but a value that writes its bytes directly records nothing (a leaf) -/
structure TreesOK (f : List Tree) (p len : Nat) : Prop where
  cover : f = [] ∨ contig f p = some (p + len)
  tiled : Tree.tiledList f = true
  aligned : Tree.alignedList f = true

theorem ForestOK.toTrees {f : List Tree} {p len : Nat} (h : ForestOK f p len) : TreesOK f p len :=
  ⟨Or.inr h.cover, h.tiled, h.aligned⟩

theorem TreesOK.nil (p len : Nat) : TreesOK [] p len := ⟨Or.inl rfl, rfl, rfl⟩
theorem ForestOK.nil (p : Nat) : ForestOK [] p 0 := ⟨by simp [contig], rfl, rfl⟩

theorem padTrees_contig (pos u : Nat) : contig (padTrees pos u) pos = some (pos + pad pos u) := by
  unfold padTrees
  split
  · simp [contig, Tree.off, Tree.size]
  · rename_i h
    have : pad pos u = 0 := by simpa using h
    simp [contig, this]

theorem zeroTrees_ok (pos size u : Nat) (hu : IsP2 u) : ForestOK (zeroTrees pos size u) pos (pad pos u + size) := by
  refine ⟨?_, ?_, ?_⟩
  · unfold zeroTrees
    rw [contig_append, padTrees_contig]
    simp [contig, Tree.off, Tree.size, Nat.add_assoc]
  · unfold zeroTrees padTrees
    split <;> simp [Tree.tiledList, Tree.tiled]
  · have ha := pad_aligned (pos := pos) hu
    unfold zeroTrees padTrees
    split <;> simp [Tree.alignedList, Tree.alignedAll, ha, Nat.mod_one]

theorem leaf_ok (o s : Nat) : Tree.tiled (.node o s 0 false []) = true ∧ Tree.alignedAll (.node o s 0 false []) = true := by
  simp [Tree.tiled, Tree.alignedAll, Tree.tiledList, Tree.alignedList]

/-- a `write` node over what the value records -/
theorem treeW_ok (t : Ty) (v : Val) (pos : Nat) (h : TreesOK (t.trees v pos) pos (t.enc v pos).length) :
    Tree.tiled (t.treeW v pos) = true ∧ Tree.alignedAll (t.treeW v pos) = true := by
  simp only [Ty.treeW, Tree.tiled, Tree.alignedAll, h.tiled, h.aligned, Bool.and_true, beq_self_eq_true, Bool.true_or]
  rcases h.cover with h0 | h1
  · simp [h0]
  · simp [h1]

theorem treeW_off_size (t : Ty) (v : Val) (pos : Nat) :
    (t.treeW v pos).off = pos ∧ (t.treeW v pos).size = (t.enc v pos).length := by
  simp [Ty.treeW, Tree.off, Tree.size]

/-- a node at `p` followed by a forest that is OK from the end of the node -/
theorem cons_ok (n : Tree) (rest : List Tree) (p len : Nat) (hoff : n.off = p)
    (hn : n.tiled = true ∧ n.alignedAll = true)
    (hr : ForestOK rest (p + n.size) len) : ForestOK (n :: rest) p (n.size + len) := by
  refine ⟨?_, by simp [Tree.tiledList, hn.1, hr.tiled], by simp [Tree.alignedList, hn.2, hr.aligned]⟩
  simp only [contig, hoff, if_true]
  rw [hr.cover]; simp [Nat.add_assoc]

theorem append_ok (a b : List Tree) (p la lb : Nat) (ha : ForestOK a p la) (hb : ForestOK b (p + la) lb) :
    ForestOK (a ++ b) p (la + lb) := by
  refine ⟨?_, by rw [tiledList_append, ha.tiled, hb.tiled]; rfl, by rw [alignedList_append, ha.aligned, hb.aligned]; rfl⟩
  rw [contig_append, ha.cover]
  simp only [Option.bind]
  rw [hb.cover]; simp [Nat.add_assoc]

end Eps

namespace Eps
theorem contig_ge : ∀ (ts : List Tree) (p q : Nat), contig ts p = some q → p ≤ q
  | [], p, q, h => by simp [contig] at h; omega
  | t :: ts, p, q, h => by
      simp only [contig] at h
      split at h
      · have := contig_ge ts (p + t.size) q h; omega
      · cases h
end Eps
