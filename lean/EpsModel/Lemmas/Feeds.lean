/-
  Properties of the hash feeds: `str` hashing is a prefix-free code on names without 0xff (all valid
  UTF-8), one-hole contexts decompose the type feed.
-/
import EpsModel.Hash
import EpsModel.Lemmas.Basic
namespace Eps

/-- the byte 0xff does not occur (true of every valid UTF-8 string, hence of every Rust identifier) -/
def NoFF (a : B) : Prop := ∀ x ∈ a, x ≠ (0xff : UInt8)

theorem hStr_inj : ∀ (a b x y : B), NoFF a → NoFF b → hStr a ++ x = hStr b ++ y → a = b ∧ x = y
  | [], [], x, y, _, _, h => by simp [hStr] at h; exact ⟨rfl, h⟩
  | [], b :: bs, x, y, _, hb, h => by
      simp [hStr] at h
      exact absurd h.1.symm (hb b (by simp))
  | a :: as, [], x, y, ha, _, h => by
      simp [hStr] at h
      exact absurd h.1 (ha a (by simp))
  | a :: as, b :: bs, x, y, ha, hb, h => by
      simp only [hStr, List.cons_append, List.append_assoc, List.cons.injEq] at h
      have ih := hStr_inj as bs x y (fun z hz => ha z (by simp [hz])) (fun z hz => hb z (by simp [hz]))
        (by simpa [hStr] using h.2)
      exact ⟨by rw [h.1, ih.1], ih.2⟩

/-- `"ZeroCopy"` / `"DeepCopy"` -/
def copyTag (m : AdtMeta) : B :=
  if m.zero then [0x5a, 0x65, 0x72, 0x6f, 0x43, 0x6f, 0x70, 0x79] else [0x44, 0x65, 0x65, 0x70, 0x43, 0x6f, 0x70, 0x79]

/-- what follows the type name in the feed of a derived type -/
def adtBody (m : AdtMeta) (vs : Variants) : B :=
  if m.isEnum then Variants.typeFeed vs
  else match vs with
    | .cons _ fds .nil => fds.namesFeed ++ Fields.typesFeed fds
    | _ => []

theorem Ty.typeFeed_adt (m : AdtMeta) (vs : Variants) :
    (Ty.adt m vs).typeFeed = hStr (copyTag m) ++ constValsFeed m.consts ++ constNamesFeed m.consts ++ hStr m.name ++ adtBody m vs := by
  cases vs with
  | nil => simp [Ty.typeFeed, adtBody, copyTag]
  | cons n f r => cases r <;> simp [Ty.typeFeed, adtBody, copyTag]

/-- One-hole contexts through which the type feed flows. -/
inductive Ctx where
  | hole
  | vec (c : Ctx) | boxSlice (c : Ctx) | option (c : Ctx) | bound (c : Ctx) | phantom (c : Ctx)
  | array (n : Nat) (c : Ctx)
  | range (k : RangeK) (c : Ctx)
  | cfL (c : Ctx) (r : Ty) | cfR (l : Ty) (c : Ctx)
  /-- a field of a derived struct: the fields before it, its name and ε flag, the fields after it -/
  | field (m : AdtMeta) (vn : B) (before : List (B × Bool × Ty)) (name : B) (e : Bool) (c : Ctx) (after : Fields)

def consFields : List (B × Bool × Ty) → Fields → Fields
  | [], r => r
  | (n, e, t) :: l, r => .cons n e t (consFields l r)

/-- fill the hole -/
def Ctx.plug : Ctx → Ty → Ty
  | .hole, t => t
  | .vec c, t => .vec (c.plug t)
  | .boxSlice c, t => .boxSlice (c.plug t)
  | .option c, t => .option (c.plug t)
  | .bound c, t => .bound (c.plug t)
  | .phantom c, t => .phantom (c.plug t)
  | .array n c, t => .array (c.plug t) n
  | .range k c, t => .range k (c.plug t)
  | .cfL c r, t => .controlFlow (c.plug t) r
  | .cfR l c, t => .controlFlow l (c.plug t)
  | .field m vn before name e c after, t =>
      .adt { m with isEnum := false } (.cons vn (consFields before (.cons name e (c.plug t) after)) .nil)

theorem namesFeed_consFields (l : List (B × Bool × Ty)) (r : Fields) :
    (consFields l r).namesFeed = (consFields l .nil).namesFeed ++ r.namesFeed := by
  induction l with
  | nil => simp [consFields, Fields.namesFeed]
  | cons x l ih => obtain ⟨n, e, t⟩ := x; simp [consFields, Fields.namesFeed, ih]

theorem typesFeed_consFields (l : List (B × Bool × Ty)) (r : Fields) :
    (consFields l r).typesFeed = (consFields l .nil).typesFeed ++ r.typesFeed := by
  induction l with
  | nil => simp [consFields, Fields.typesFeed]
  | cons x l ih => obtain ⟨n, e, t⟩ := x; simp [consFields, Fields.typesFeed, ih]

/-- **Context decomposition**: the feed of a type with a hole is a fixed prefix, the feed of what
    fills the hole, a fixed suffix. -/
theorem typeFeed_plug (c : Ctx) : ∃ pre post : B, ∀ t : Ty, (c.plug t).typeFeed = pre ++ t.typeFeed ++ post := by
  induction c with
  | hole => exact ⟨[], [], fun t => by simp [Ctx.plug]⟩
  | vec c ih => obtain ⟨p, q, h⟩ := ih; exact ⟨hStr ([0x56, 0x65, 0x63] : B) ++ p, q, fun t => by simp [Ctx.plug, Ty.typeFeed, h]⟩
  | boxSlice c ih => obtain ⟨p, q, h⟩ := ih; exact ⟨hStr ([0x42, 0x6f, 0x78, 0x3c, 0x5b, 0x5d, 0x3e] : B) ++ p, q, fun t => by simp [Ctx.plug, Ty.typeFeed, h]⟩
  | option c ih => obtain ⟨p, q, h⟩ := ih; exact ⟨hStr ([0x4f, 0x70, 0x74, 0x69, 0x6f, 0x6e] : B) ++ p, q, fun t => by simp [Ctx.plug, Ty.typeFeed, h]⟩
  | bound c ih => obtain ⟨p, q, h⟩ := ih; exact ⟨hStr ([0x63, 0x6f, 0x72, 0x65, 0x3a, 0x3a, 0x6f, 0x70, 0x73, 0x3a, 0x3a, 0x42, 0x6f, 0x75, 0x6e, 0x64] : B) ++ p, q, fun t => by simp [Ctx.plug, Ty.typeFeed, h]⟩
  | phantom c ih => obtain ⟨p, q, h⟩ := ih; exact ⟨hStr ([0x50, 0x68, 0x61, 0x6e, 0x74, 0x6f, 0x6d, 0x44, 0x61, 0x74, 0x61] : B) ++ p, q, fun t => by simp [Ctx.plug, Ty.typeFeed, h]⟩
  | array n c ih => obtain ⟨p, q, h⟩ := ih; exact ⟨hStr ([0x5b, 0x5d] : B) ++ (leBytes 8 n ++ p), q, fun t => by simp [Ctx.plug, Ty.typeFeed, h]⟩
  | range k c ih => obtain ⟨p, q, h⟩ := ih; exact ⟨hStr k.tyName ++ p, q, fun t => by simp [Ctx.plug, Ty.typeFeed, h]⟩
  | cfL c r ih => obtain ⟨p, q, h⟩ := ih; exact ⟨hStr ([0x63, 0x6f, 0x72, 0x65, 0x3a, 0x3a, 0x6f, 0x70, 0x73, 0x3a, 0x3a, 0x43, 0x6f, 0x6e, 0x74, 0x72, 0x6f, 0x6c, 0x46, 0x6c, 0x6f, 0x77] : B) ++ p, q ++ r.typeFeed, fun t => by simp [Ctx.plug, Ty.typeFeed, h]⟩
  | cfR l c ih => obtain ⟨p, q, h⟩ := ih; exact ⟨hStr ([0x63, 0x6f, 0x72, 0x65, 0x3a, 0x3a, 0x6f, 0x70, 0x73, 0x3a, 0x3a, 0x43, 0x6f, 0x6e, 0x74, 0x72, 0x6f, 0x6c, 0x46, 0x6c, 0x6f, 0x77] : B) ++ (l.typeFeed ++ p), q, fun t => by simp [Ctx.plug, Ty.typeFeed, h]⟩
  | field m vn before name e c after ih =>
    obtain ⟨p, q, h⟩ := ih
    refine ⟨hStr (if m.zero then ([0x5a, 0x65, 0x72, 0x6f, 0x43, 0x6f, 0x70, 0x79] : B) else ([0x44, 0x65, 0x65, 0x70, 0x43, 0x6f, 0x70, 0x79] : B)) ++
            constValsFeed m.consts ++ constNamesFeed m.consts ++ hStr m.name ++
            ((consFields before .nil).namesFeed ++ (hStr name ++ after.namesFeed)) ++
            (consFields before .nil).typesFeed ++ p,
            q ++ after.typesFeed, fun t => ?_⟩
    simp only [Ctx.plug, Ty.typeFeed, Bool.false_eq_true, if_false]
    rw [namesFeed_consFields, typesFeed_consFields]
    simp only [Fields.namesFeed, Fields.typesFeed, h, List.append_assoc]

end Eps
