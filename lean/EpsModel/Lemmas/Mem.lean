/-
  Zero-copy memory round trip: `fromMem T (toMem T v ++ rest) = v` and `|toMem T v| = sizeOf T`
  for every zero-copy type in the well-formed universe.
-/
import EpsModel.Wf
import EpsModel.Lemmas.Basic
namespace Eps

theorem roundUp_ge (n a : Nat) (ha : 0 < a) : n ≤ roundUp n a := by
  unfold roundUp
  have h := Nat.div_add_mod (n + (a - 1)) a
  have hlt := Nat.mod_lt (n + (a - 1)) ha
  have : a * ((n + (a - 1)) / a) = (n + (a - 1)) / a * a := Nat.mul_comm _ _
  omega

mutual
theorem Ty.alignOf_pos : ∀ t : Ty, 0 < t.alignOf
  | .prim p => by simp [Ty.alignOf, Prim.align]; omega
  | .phantom _ => by simp [Ty.alignOf]
  | .string => by simp [Ty.alignOf]
  | .boxStr => by simp [Ty.alignOf]
  | .vec _ => by simp [Ty.alignOf]
  | .boxSlice _ => by simp [Ty.alignOf]
  | .array t _ => by simp only [Ty.alignOf]; exact Ty.alignOf_pos t
  | .tuple t _ => by simp only [Ty.alignOf]; exact Ty.alignOf_pos t
  | .option _ => by simp [Ty.alignOf]
  | .bound _ => by simp [Ty.alignOf]
  | .controlFlow _ _ => by simp [Ty.alignOf]
  | .range _ t => by simp only [Ty.alignOf]; exact Ty.alignOf_pos t
  | .rangeFull => by simp [Ty.alignOf]
  | .adt m vs => by
      have := Variants.maxAlign_pos vs
      simp only [Ty.alignOf]; split <;> omega
  | .sliceRef _ => by simp [Ty.alignOf]
  | .serIter _ => by simp [Ty.alignOf]
theorem Fields.maxAlign_pos : ∀ f : Fields, 0 < f.maxAlign
  | .nil => by simp [Fields.maxAlign]
  | .cons _ _ t r => by
      have := Ty.alignOf_pos t
      simp only [Fields.maxAlign]; omega
theorem Variants.maxAlign_pos : ∀ v : Variants, 0 < v.maxAlign
  | .nil => by simp [Variants.maxAlign]
  | .cons _ fs r => by
      have := Fields.maxAlign_pos fs
      simp only [Variants.maxAlign]; omega
end

theorem Fields.endOffset_ge : ∀ (f : Fields) (o : Nat), o ≤ f.endOffset o
  | .nil, o => by simp [Fields.endOffset]
  | .cons _ _ t r, o => by
      have h1 := roundUp_ge o t.alignOf (Ty.alignOf_pos t)
      have h2 := Fields.endOffset_ge r (roundUp o t.alignOf + t.sizeOf)
      simp only [Fields.endOffset]; omega

theorem Variants.wt_lt : ∀ (vs : Variants) (i : Nat) (vals : List Val), vs.wt i vals = true → i < vs.length
  | .nil, _, _, h => by simp [Variants.wt] at h
  | .cons _ _ _, 0, _, _ => by simp [Variants.length]
  | .cons _ _ r, i+1, vals, h => by
      simp only [Variants.wt] at h
      have := Variants.wt_lt r i vals h
      simp only [Variants.length]; omega

theorem Prim.wt_lt {p : Prim} {n : Nat} (h : p.wt n = true) : n < 2 ^ (8 * p.size) := by
  cases p with
  | int k => simpa [Prim.wt, Prim.size] using h
  | nz k => simp [Prim.wt, Prim.size] at h ⊢; exact h.1
  | f32 => simpa [Prim.wt, Prim.size] using h
  | f64 => simpa [Prim.wt, Prim.size] using h
  | bool => simp [Prim.wt, Prim.size] at h ⊢; omega
  | char =>
    simp [Prim.wt, Prim.size, isScalar] at h ⊢
    omega
  | unit => simp [Prim.wt] at h

/-- Statement of the memory round trip for one (type, value) pair. -/
def MemRT (t : Ty) (v : Val) : Prop :=
  (t.toMem v).length = t.sizeOf ∧ ∀ rest, t.fromMem (t.toMem v ++ rest) = v

theorem fromMemList_toMemList (t : Ty) (vs : List Val) (h : ∀ v ∈ vs, MemRT t v) (rest : B) :
    Ty.fromMemList t vs.length (Ty.toMemList t vs ++ rest) = vs ∧
    (Ty.toMemList t vs).length = vs.length * t.sizeOf := by
  induction vs with
  | nil => simp [Ty.fromMemList, Ty.toMemList]
  | cons v vs ih =>
    have hv := h v (by simp)
    have ih' := ih (fun w hw => h w (by simp [hw]))
    simp only [Ty.toMemList, List.length_cons, Ty.fromMemList, List.append_assoc]
    refine ⟨?_, ?_⟩
    · rw [hv.2]
      have : (t.toMem v ++ (Ty.toMemList t vs ++ rest)).drop t.sizeOf = Ty.toMemList t vs ++ rest := by
        rw [← hv.1]; simp
      rw [this, ih'.1]
    · rw [List.length_append, hv.1, ih'.2, Nat.add_mul]; omega

theorem wtList_mem {t : Ty} {vs : List Val} (h : Ty.wtList t vs = true) : ∀ v ∈ vs, t.wt v = true := by
  induction vs with
  | nil => simp
  | cons v vs ih =>
    simp only [Ty.wtList, Bool.and_eq_true] at h
    intro x hx
    rcases List.mem_cons.mp hx with rfl | hx
    · exact h.1
    · exact ih h.2 x hx

/-! Unfolding lemmas for enums (the equation compiler splits `adt` clauses on the variants). -/

theorem Ty.sizeOf_adt_enum (m : AdtMeta) (vs : Variants) (he : m.isEnum = true) :
    Ty.sizeOf (.adt m vs) = roundUp (roundUp 4 (Variants.maxAlign vs) + Variants.maxSize vs) (Ty.alignOf (.adt m vs)) := by
  cases vs with
  | nil => simp [Ty.sizeOf, he]
  | cons n f r => cases r <;> simp [Ty.sizeOf, he]

theorem Ty.toMem_adt_variant (m : AdtMeta) (vs : Variants) (i : Nat) (fs : List Val) :
    Ty.toMem (.adt m vs) (.variant i fs) =
      (leBytes 4 i ++ zeros (roundUp 4 (Variants.maxAlign vs) - 4) ++ Variants.toMem vs i fs) ++
        zeros (Ty.sizeOf (.adt m vs) - (leBytes 4 i ++ zeros (roundUp 4 (Variants.maxAlign vs) - 4) ++ Variants.toMem vs i fs).length) := by
  cases vs with
  | nil => simp [Ty.toMem]
  | cons n f r => cases r <;> simp [Ty.toMem]

theorem Ty.fromMem_adt_enum (m : AdtMeta) (vs : Variants) (b : B) (he : m.isEnum = true) :
    Ty.fromMem (.adt m vs) b =
      .variant (leVal (b.take 4)) (Variants.fromMem vs (leVal (b.take 4)) (b.drop (roundUp 4 (Variants.maxAlign vs)))) := by
  cases vs with
  | nil => simp [Ty.fromMem, he]
  | cons n f r => cases r <;> simp [Ty.fromMem, he]

theorem Ty.wt_adt_record_notEnum (m : AdtMeta) (vs : Variants) (fs : List Val) (h : Ty.wt (.adt m vs) (.record fs) = true) :
    m.isEnum = false := by
  cases vs with
  | nil => simp [Ty.wt] at h
  | cons n f r => cases r <;> simp [Ty.wt] at h <;> simp [h]

theorem Ty.wt_adt_variant (m : AdtMeta) (vs : Variants) (i : Nat) (fs : List Val) :
    Ty.wt (.adt m vs) (.variant i fs) = (m.isEnum && Variants.wt vs i fs) := by
  cases vs with
  | nil => simp [Ty.wt]
  | cons n f r => cases r <;> simp [Ty.wt]

mutual
theorem Ty.memRT : ∀ (t : Ty), t.isZC = true → t.wf = true → ∀ v, t.wt v = true → MemRT t v
  | .prim p, _, _ => by
      intro v hwt
      cases v with
      | bits n =>
        have hlt := Prim.wt_lt (by simpa [Ty.wt] using hwt : p.wt n = true)
        cases p <;> first
          | (simp [Ty.wt, Prim.wt] at hwt; done)
          | (refine ⟨by simp [Ty.toMem, Ty.sizeOf], fun rest => ?_⟩
             simp only [Ty.toMem, Ty.fromMem]
             rw [leVal_append_leBytes _ _ _ hlt])
      | unit =>
        cases p <;> simp [Ty.wt] at hwt
        exact ⟨by simp [Ty.toMem, Ty.sizeOf, Prim.size], fun rest => by simp [Ty.fromMem]⟩
      | str _ => cases p <;> simp [Ty.wt] at hwt
      | seq _ => cases p <;> simp [Ty.wt] at hwt
      | variant _ _ => cases p <;> simp [Ty.wt] at hwt
      | record _ => cases p <;> simp [Ty.wt] at hwt
  | .phantom _, _, _ => by
      intro v hwt
      cases v <;> simp [Ty.wt] at hwt
      exact ⟨by simp [Ty.toMem, Ty.sizeOf], fun rest => by simp [Ty.fromMem]⟩
  | .array t n, hz, hw => by
      intro v hwt
      simp only [Ty.isZC] at hz
      simp only [Ty.wf, Bool.and_eq_true] at hw
      cases v <;> simp [Ty.wt] at hwt
      rename_i vs
      have hl : ∀ v ∈ vs, MemRT t v := fun v hv => Ty.memRT t hz hw.1 v (wtList_mem hwt.1 v hv)
      have := fun rest => fromMemList_toMemList t vs hl rest
      refine ⟨?_, fun rest => ?_⟩
      · simp only [Ty.toMem, Ty.sizeOf]; rw [(this []).2, hwt.2]
      · simp only [Ty.toMem, Ty.fromMem]; rw [← hwt.2, (this rest).1]
  | .tuple t n, hz, hw => by
      intro v hwt
      simp only [Ty.isZC, Bool.and_eq_true] at hz
      simp only [Ty.wf, Bool.and_eq_true] at hw
      cases v <;> simp [Ty.wt] at hwt
      rename_i vs
      have hl : ∀ v ∈ vs, MemRT t v := fun v hv => Ty.memRT t hz.1.1 hw.1.1.1 v (wtList_mem hwt.1 v hv)
      have := fun rest => fromMemList_toMemList t vs hl rest
      refine ⟨?_, fun rest => ?_⟩
      · simp only [Ty.toMem, Ty.sizeOf]; rw [(this []).2, hwt.2]
      · simp only [Ty.toMem, Ty.fromMem]; rw [← hwt.2, (this rest).1]
  | .range k t, hz, hw => by
      intro v hwt
      simp only [Ty.wf, Bool.and_eq_true] at hw
      cases k <;> simp [Ty.isZC] at hz
      all_goals
        cases v with
        | record fs =>
          match fs, hwt with
          | [a], hwt =>
            simp only [Ty.wt] at hwt
            have := Ty.memRT t hz hw.1.1.1 a hwt
            exact ⟨by simp only [Ty.toMem, Ty.sizeOf]; exact this.1, fun rest => by simp only [Ty.toMem, Ty.fromMem]; rw [this.2]⟩
          | [], hwt => simp [Ty.wt] at hwt
          | _ :: _ :: _, hwt => simp [Ty.wt] at hwt
        | _ => simp [Ty.wt] at hwt
  | .rangeFull, _, _ => by
      intro v hwt
      cases v with
      | record fs =>
        cases fs with
        | nil => exact ⟨by simp [Ty.toMem, Ty.sizeOf], fun rest => by simp [Ty.fromMem]⟩
        | cons _ _ => simp [Ty.wt] at hwt
      | _ => simp [Ty.wt] at hwt
  | .adt m vs, hz, hw => by
      intro v hwt
      simp only [Ty.isZC, Bool.and_eq_true] at hz
      simp only [Ty.wf, Bool.and_eq_true, hz.1, if_true, decide_eq_true_eq] at hw
      cases v with
      | record fs =>
        have hne : m.isEnum = false := Ty.wt_adt_record_notEnum m vs fs hwt
        match vs, hz, hw, hwt with
        | .cons vn fds .nil, hz, hw, hwt =>
          simp only [Variants.allZC, Bool.and_true] at hz
          simp only [Variants.wf, Bool.and_true] at hw
          simp only [Ty.wt, hne, Bool.not_false, Bool.true_and] at hwt
          have hf := Fields.memRT fds hz.2 hw.1.1.1.2 fs 0 hwt
          have hpos : 0 < Ty.alignOf (.adt m (.cons vn fds .nil)) := Ty.alignOf_pos _
          have hge := roundUp_ge (fds.endOffset 0) _ hpos
          refine ⟨?_, fun rest => ?_⟩
          · simp only [Ty.toMem, Ty.sizeOf, hne, Bool.false_eq_true, if_false, List.length_append, zeros_length]
            rw [hf.1]; omega
          · simp only [Ty.toMem, Ty.fromMem, hne, Bool.false_eq_true, if_false, List.append_assoc]
            have := hf.2 [] (zeros (Ty.sizeOf (.adt m (.cons vn fds .nil)) - (Fields.toMem fds fs 0).length) ++ rest) rfl
            simp only [List.nil_append] at this
            rw [this]
        | .nil, _, hw, _ => simp [hne, Variants.length] at hw
        | .cons _ _ (.cons _ _ _), _, hw, _ => simp [hne, Variants.length] at hw
      | variant i fs =>
        rw [Ty.wt_adt_variant, Bool.and_eq_true] at hwt
        have he : m.isEnum = true := hwt.1
        replace hwt := hwt.2
        have hv := Variants.memRT vs hz.2 hw.1.1.1.2 i fs hwt
        have hi : i < vs.length := Variants.wt_lt vs i fs hwt
        have hi32 : i < 2 ^ (8 * 4) := by have := hw.1.2.2; omega
        have hua : 0 < Variants.maxAlign vs := Variants.maxAlign_pos vs
        have hstart := roundUp_ge 4 (Variants.maxAlign vs) hua
        have hpos : 0 < Ty.alignOf (.adt m vs) := Ty.alignOf_pos _
        have hge := roundUp_ge (roundUp 4 (Variants.maxAlign vs) + Variants.maxSize vs) _ hpos
        have hbody : (leBytes 4 i ++ zeros (roundUp 4 (Variants.maxAlign vs) - 4) ++ Variants.toMem vs i fs).length
            = roundUp 4 (Variants.maxAlign vs) + (Variants.toMem vs i fs).length := by
          simp only [List.length_append, leBytes_length, zeros_length]; omega
        have hsz := Ty.sizeOf_adt_enum m vs he
        refine ⟨?_, fun rest => ?_⟩
        · rw [Ty.toMem_adt_variant, List.length_append, zeros_length, hbody, hsz]
          have := hv.1
          omega
        · rw [Ty.toMem_adt_variant, Ty.fromMem_adt_enum m vs _ he]
          have htag : leVal (List.take 4 (leBytes 4 i ++ zeros (roundUp 4 (Variants.maxAlign vs) - 4) ++ Variants.toMem vs i fs ++
              zeros (Ty.sizeOf (.adt m vs) - (leBytes 4 i ++ zeros (roundUp 4 (Variants.maxAlign vs) - 4) ++ Variants.toMem vs i fs).length) ++ rest)) = i := by
            simp only [List.append_assoc]
            exact leVal_append_leBytes 4 i _ hi32
          rw [htag]
          have hdrop : List.drop (roundUp 4 (Variants.maxAlign vs)) (leBytes 4 i ++ zeros (roundUp 4 (Variants.maxAlign vs) - 4) ++ Variants.toMem vs i fs ++
              zeros (Ty.sizeOf (.adt m vs) - (leBytes 4 i ++ zeros (roundUp 4 (Variants.maxAlign vs) - 4) ++ Variants.toMem vs i fs).length) ++ rest)
              = Variants.toMem vs i fs ++ (zeros (Ty.sizeOf (.adt m vs) - (leBytes 4 i ++ zeros (roundUp 4 (Variants.maxAlign vs) - 4) ++ Variants.toMem vs i fs).length) ++ rest) := by
            have hl : (leBytes 4 i ++ zeros (roundUp 4 (Variants.maxAlign vs) - 4)).length = roundUp 4 (Variants.maxAlign vs) := by
              simp only [List.length_append, leBytes_length, zeros_length]; omega
            simp only [List.append_assoc]
            rw [← List.append_assoc (leBytes 4 i), List.drop_append_of_le_length (by omega), List.drop_of_length_le (by omega)]
            simp
          rw [hdrop, hv.2]
      | _ => simp [Ty.wt] at hwt
  | .string, h, _ | .boxStr, h, _ | .vec _, h, _ | .boxSlice _, h, _
  | .option _, h, _ | .bound _, h, _ | .controlFlow _ _, h, _
  | .sliceRef _, h, _ | .serIter _, h, _ => by simp [Ty.isZC] at h
theorem Fields.memRT : ∀ (f : Fields), f.allZC = true → f.wf = true → ∀ (vs : List Val) (o : Nat), f.wt vs = true →
    (f.toMem vs o).length = f.endOffset o - o ∧
    ∀ (pre rest : B), pre.length = o → f.fromMem (pre ++ f.toMem vs o ++ rest) o = vs
  | .nil, _, _ => by
      intro vs o hwt
      cases vs <;> simp [Fields.wt] at hwt
      simp [Fields.toMem, Fields.endOffset, Fields.fromMem]
  | .cons nm e t r, hz, hw => by
      intro vs o hwt
      simp only [Fields.allZC, Bool.and_eq_true] at hz
      simp only [Fields.wf, Bool.and_eq_true] at hw
      cases vs with
      | nil => simp [Fields.wt] at hwt
      | cons v vs =>
        simp only [Fields.wt, Bool.and_eq_true] at hwt
        have hv := Ty.memRT t hz.1 hw.1 v hwt.1
        have hge := roundUp_ge o t.alignOf (Ty.alignOf_pos t)
        have hr := Fields.memRT r hz.2 hw.2 vs (roundUp o t.alignOf + t.sizeOf) hwt.2
        have hmono : roundUp o t.alignOf + t.sizeOf ≤ r.endOffset (roundUp o t.alignOf + t.sizeOf) := Fields.endOffset_ge r _
        refine ⟨?_, fun pre rest hpre => ?_⟩
        · simp only [Fields.toMem, Fields.endOffset, List.length_append, zeros_length, hv.1, hr.1]
          omega
        · simp only [Fields.toMem, Fields.fromMem, List.append_assoc]
          congr 1
          · have : (pre ++ (zeros (roundUp o t.alignOf - o) ++ (t.toMem v ++ (r.toMem vs (roundUp o t.alignOf + t.sizeOf) ++ rest)))).drop (roundUp o t.alignOf)
                = t.toMem v ++ (r.toMem vs (roundUp o t.alignOf + t.sizeOf) ++ rest) := by
              rw [← List.append_assoc]
              rw [List.drop_append_of_le_length (by simp; omega)]
              rw [List.drop_of_length_le (by simp; omega)]
              simp
            rw [this, hv.2]
          · have := hr.2 (pre ++ zeros (roundUp o t.alignOf - o) ++ t.toMem v) rest (by simp [hv.1]; omega)
            simp only [List.append_assoc] at this
            exact this
theorem Variants.memRT : ∀ (vs : Variants), vs.allZC = true → vs.wf = true → ∀ (i : Nat) (fs : List Val), vs.wt i fs = true →
    (vs.toMem i fs).length ≤ vs.maxSize ∧ ∀ rest, vs.fromMem i (vs.toMem i fs ++ rest) = fs
  | .nil, _, _ => by
      intro i fs hwt
      simp [Variants.wt] at hwt
  | .cons vn f r, hz, hw => by
      intro i fs hwt
      simp only [Variants.allZC, Bool.and_eq_true] at hz
      simp only [Variants.wf, Bool.and_eq_true] at hw
      cases i with
      | zero =>
        simp only [Variants.wt] at hwt
        have hf := Fields.memRT f hz.1 hw.1 fs 0 hwt
        have hge := roundUp_ge (f.endOffset 0) f.maxAlign (Fields.maxAlign_pos f)
        refine ⟨?_, fun rest => ?_⟩
        · simp only [Variants.toMem, Variants.maxSize]; rw [hf.1]; omega
        · simp only [Variants.toMem, Variants.fromMem]
          have := hf.2 [] rest rfl
          simpa using this
      | succ i =>
        simp only [Variants.wt] at hwt
        have hr := Variants.memRT r hz.2 hw.2 i fs hwt
        refine ⟨?_, fun rest => ?_⟩
        · simp only [Variants.toMem, Variants.maxSize]; have := hr.1; omega
        · simp only [Variants.toMem, Variants.fromMem]; exact hr.2 rest
end

end Eps
