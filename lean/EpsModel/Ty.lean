/-
  The type universe: every type the crate can (de)serialize, as an inductive type, with the
  per-type tables that mirror one trait each (CopyType, ZeroCopy, MaxSizeOf, size_of/align_of).
-/
import EpsModel.Basic
namespace Eps

/-- Integer kinds. -/
inductive IntK where
  | u8 | u16 | u32 | u64 | u128 | usize | i8 | i16 | i32 | i64 | i128 | isize
  deriving DecidableEq, Repr, Inhabited

def IntK.size : IntK → Nat
  | .u8 | .i8 => 1
  | .u16 | .i16 => 2
  | .u32 | .i32 => 4
  | .u64 | .i64 | .usize | .isize => 8
  | .u128 | .i128 => 16

/-- Primitive types: integers, NonZero integers, floats (as bit patterns), bool, char, unit. -/
inductive Prim where
  | int (k : IntK)
  | nz (k : IntK)
  | f32 | f64 | bool | char | unit
  deriving DecidableEq, Repr, Inhabited

/-- `core::mem::size_of` of a primitive (x86_64). -/
def Prim.size : Prim → Nat
  | .int k | .nz k => k.size
  | .f32 => 4 | .f64 => 8 | .bool => 1 | .char => 4 | .unit => 0

/-- `core::mem::align_of` of a primitive (x86_64: every primitive is aligned to its size,
    `u128` included since rustc 1.77; `()` has alignment 1). -/
def Prim.align (p : Prim) : Nat := max p.size 1

/-- The five range types with an index type. -/
inductive RangeK where
  | range | from | incl | to | toIncl
  deriving DecidableEq, Repr, Inhabited

/-- What the derive macro sees of a struct/enum definition besides its fields, after
    instantiation of the generic parameters. Names are byte strings. -/
structure AdtMeta where
  name : B
  isEnum : Bool
  /-- `#[zero_copy]` -/
  zero : Bool
  /-- `#[deep_copy]` -/
  deepAttr : Bool
  /-- token strings of every `repr(...)` attribute, in order -/
  reprs : List B
  /-- `N` of a `repr(align(N))` attribute, 1 if there is none (layout only) -/
  alignAttr : Nat
  /-- const generic parameters: identifier, type, value (as a bit pattern) -/
  consts : List (B × Prim × Nat)
  deriving DecidableEq, Repr, Inhabited

mutual
/-- The type universe. -/
inductive Ty where
  | prim (p : Prim)
  | phantom (t : Ty)
  | string
  | boxStr
  | vec (t : Ty)
  | boxSlice (t : Ty)
  | array (t : Ty) (n : Nat)
  | tuple (t : Ty) (n : Nat)
  | option (t : Ty)
  | bound (t : Ty)
  | controlFlow (b c : Ty)
  | range (k : RangeK) (t : Ty)
  | rangeFull
  /-- an instantiated `#[derive(Epserde)]` struct (one variant) or enum -/
  | adt (m : AdtMeta) (vs : Variants)
  /-- `&[T]`: serialization only, interchangeable with `Vec<T>` -/
  | sliceRef (t : Ty)
  /-- `SerIter<T, _>`: serialization only, interchangeable with `Vec<T>` -/
  | serIter (t : Ty)
/-- Fields of a struct or of an enum variant: name (tuple fields are named "0", "1", …),
    `viaEps` = the generated ε-copy reader calls `_deserialize_eps_inner` for this field
    (its declared type is literally a type parameter), instantiated type. -/
inductive Fields where
  | nil
  | cons (name : B) (viaEps : Bool) (t : Ty) (rest : Fields)
/-- Variants of an enum (a struct has exactly one, whose name is unused). -/
inductive Variants where
  | nil
  | cons (name : B) (fs : Fields) (rest : Variants)
end

mutual
def Ty.beq : Ty → Ty → Bool
  | .prim p, .prim q => p == q
  | .phantom a, .phantom b => Ty.beq a b
  | .string, .string => true
  | .boxStr, .boxStr => true
  | .vec a, .vec b => Ty.beq a b
  | .boxSlice a, .boxSlice b => Ty.beq a b
  | .array a n, .array b m => n == m && Ty.beq a b
  | .tuple a n, .tuple b m => n == m && Ty.beq a b
  | .option a, .option b => Ty.beq a b
  | .bound a, .bound b => Ty.beq a b
  | .controlFlow a c, .controlFlow b d => Ty.beq a b && Ty.beq c d
  | .range k a, .range l b => k == l && Ty.beq a b
  | .rangeFull, .rangeFull => true
  | .adt m vs, .adt m' vs' => m == m' && Variants.beq vs vs'
  | .sliceRef a, .sliceRef b => Ty.beq a b
  | .serIter a, .serIter b => Ty.beq a b
  | _, _ => false
def Fields.beq : Fields → Fields → Bool
  | .nil, .nil => true
  | .cons n e t r, .cons n' e' t' r' => n == n' && e == e' && Ty.beq t t' && Fields.beq r r'
  | _, _ => false
def Variants.beq : Variants → Variants → Bool
  | .nil, .nil => true
  | .cons n f r, .cons n' f' r' => n == n' && Fields.beq f f' && Variants.beq r r'
  | _, _ => false
end

/-- membership of a field in a field list -/
inductive Fields.mem (n : B) (e : Bool) (t : Ty) : Fields → Prop where
  | head (r : Fields) : Fields.mem n e t (.cons n e t r)
  | tail (n' : B) (e' : Bool) (t' : Ty) (r : Fields) : Fields.mem n e t r → Fields.mem n e t (.cons n' e' t' r)

def Fields.length : Fields → Nat
  | .nil => 0
  | .cons _ _ _ r => r.length + 1

def Variants.length : Variants → Nat
  | .nil => 0
  | .cons _ _ r => r.length + 1

/-- The fields of variant `i`. -/
def Variants.get? : Variants → Nat → Option Fields
  | .nil, _ => none
  | .cons _ fs _, 0 => some fs
  | .cons _ _ r, i+1 => r.get? i

/-- `CopyType::Copy`. -/
inductive CopyKind where
  | zero | deep | neither
  deriving DecidableEq, Repr

def Ty.copyKind : Ty → CopyKind
  | .prim _ => .zero
  | .phantom _ => .zero
  | .string | .boxStr => .deep
  | .vec _ | .boxSlice _ => .deep
  | .array t _ => t.copyKind
  | .tuple _ _ => .zero
  | .option _ | .bound _ | .controlFlow _ _ => .deep
  | .range _ _ => .zero
  | .rangeFull => .zero
  | .adt m _ => if m.zero then .zero else .deep
  | .sliceRef _ => .deep
  | .serIter _ => .deep

mutual
/-- The `ZeroCopy` marker trait: `CopyType<Copy = Zero> + Copy + MaxSizeOf + 'static`.
    `Range`, `RangeFrom` and `RangeInclusive` are not `Copy`, hence never `ZeroCopy`. -/
def Ty.isZC : Ty → Bool
  | .prim _ => true
  | .phantom _ => true
  | .array t _ => t.isZC
  | .tuple t n => t.isZC && decide (1 ≤ n) && decide (n ≤ 12)
  | .range .to t | .range .toIncl t => t.isZC
  | .rangeFull => true
  | .adt m vs => m.zero && Variants.allZC vs
  | _ => false
def Fields.allZC : Fields → Bool
  | .nil => true
  | .cons _ _ t r => t.isZC && r.allZC
def Variants.allZC : Variants → Bool
  | .nil => true
  | .cons _ fs r => fs.allZC && r.allZC
end

def Ty.isDeep (t : Ty) : Bool := t.copyKind == .deep

def roundUp (n a : Nat) : Nat := (n + (a - 1)) / a * a

mutual
/-- `core::mem::align_of` for zero-copy types (modelled: rustc layout on x86_64). -/
def Ty.alignOf : Ty → Nat
  | .prim p => p.align
  | .phantom _ => 1
  | .array t _ => t.alignOf
  | .tuple t _ => t.alignOf
  | .range _ t => t.alignOf
  | .rangeFull => 1
  | .adt m vs => if m.isEnum then max (max m.alignAttr 4) (Variants.maxAlign vs)
                 else max m.alignAttr (Variants.maxAlign vs)
  | _ => 1
def Fields.maxAlign : Fields → Nat
  | .nil => 1
  | .cons _ _ t r => max t.alignOf r.maxAlign
def Variants.maxAlign : Variants → Nat
  | .nil => 1
  | .cons _ fs r => max fs.maxAlign r.maxAlign
end

mutual
/-- `core::mem::size_of` for zero-copy types (modelled: primitives, arrays, homogeneous tuples,
    `repr(C)` structs incl. `align(N)`, `repr(C)` enums as tag (`c_int`) followed by the union of the
    variants' `repr(C)` structs). -/
def Ty.sizeOf : Ty → Nat
  | .prim p => p.size
  | .phantom _ => 0
  | .array t n => n * t.sizeOf
  | .tuple t n => n * t.sizeOf
  | .range .range t => 2 * t.sizeOf
  | .range .incl t => roundUp (2 * t.sizeOf + 1) t.alignOf
  | .range _ t => t.sizeOf
  | .rangeFull => 0
  | .adt m vs =>
      let a := Ty.alignOf (.adt m vs)
      if m.isEnum then
        -- payload union starts at the tag size rounded to the union's alignment
        let ua := Variants.maxAlign vs
        roundUp (roundUp 4 ua + Variants.maxSize vs) a
      else
        match vs with
        | .cons _ fs .nil => roundUp (fs.endOffset 0) a
        | _ => 0
  | _ => 0
/-- End offset of the fields laid out in order (`repr(C)`) starting at offset `o`. -/
def Fields.endOffset : Fields → Nat → Nat
  | .nil, o => o
  | .cons _ _ t r, o => r.endOffset (roundUp o t.alignOf + t.sizeOf)
/-- Size of the largest variant struct (each rounded to its own alignment). -/
def Variants.maxSize : Variants → Nat
  | .nil => 0
  | .cons _ fs r => max (roundUp (fs.endOffset 0) fs.maxAlign) r.maxSize
end

mutual
/-- `MaxSizeOf::max_size_of`: the alignment unit of a zero-copy type. -/
def Ty.maxSizeOf : Ty → Nat
  | .prim p => max p.size 1
  | .phantom _ => 1
  | .array t _ => t.maxSizeOf
  | .tuple t _ => t.maxSizeOf
  | .range k t => Ty.sizeOf (.range k t)
  | .rangeFull => 1
  | .adt m vs => max (Ty.alignOf (.adt m vs)) (Variants.maxUnit vs)
  | _ => 1
def Fields.maxUnit : Fields → Nat
  | .nil => 0
  | .cons _ _ t r => max t.maxSizeOf r.maxUnit
def Variants.maxUnit : Variants → Nat
  | .nil => 0
  | .cons _ fs r => max fs.maxUnit r.maxUnit
end

end Eps
