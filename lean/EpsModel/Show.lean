/-
  Canonical text forms shared with the Rust harness: printers for values, ε-copy results, errors;
  parsers for type terms and value terms. Not used by any theorem.
-/
import EpsModel.Header
import EpsModel.Derive
namespace Eps

def hexDigit (n : Nat) : Char := "0123456789abcdef".toList.getD n '?'
def hexByte (b : UInt8) : String := String.ofList [hexDigit (b.toNat / 16), hexDigit (b.toNat % 16)]
def hexOf (b : B) : String := String.join (b.map hexByte)

def unhexDigit (c : Char) : Nat :=
  if '0' ≤ c ∧ c ≤ '9' then c.toNat - '0'.toNat
  else if 'a' ≤ c ∧ c ≤ 'f' then c.toNat - 'a'.toNat + 10
  else if 'A' ≤ c ∧ c ≤ 'F' then c.toNat - 'A'.toNat + 10
  else 0
def unhex : List Char → B
  | a :: b :: r => UInt8.ofNat (unhexDigit a * 16 + unhexDigit b) :: unhex r
  | _ => []

mutual
partial def showVal : Val → String
  | .bits n => toString n
  | .unit => "()"
  | .str b => "s\"" ++ hexOf b ++ "\""
  | .seq vs => "[" ++ showVals vs ++ "]"
  | .variant i fs => "#" ++ toString i ++ "(" ++ showVals fs ++ ")"
  | .record fs => "{" ++ showVals fs ++ "}"
partial def showVals (vs : List Val) : String :=
  String.join (vs.map fun v => showVal v ++ ",")      -- linear (a right-nested `++` copies the tail at every item)
end

mutual
partial def showEVal : EVal → String
  | .bits n => toString n
  | .unit => "()"
  | .seq vs => "[" ++ showEVals vs ++ "]"
  | .variant i fs => "#" ++ toString i ++ "(" ++ showEVals fs ++ ")"
  | .record fs => "{" ++ showEVals fs ++ "}"
  | .full v => showVal v
  | .bStr off b => "s@" ++ toString off ++ "\"" ++ hexOf b ++ "\""
  | .bSlice off _ vs => "@" ++ toString off ++ "[" ++ showVals vs ++ "]"
  | .bRef off _ v => "&@" ++ toString off ++ showVal v
  | .zRef _ v => "&@-" ++ showVal v
partial def showEVals (vs : List EVal) : String :=
  String.join (vs.map fun v => showEVal v ++ ",")
end

def showErr : Err → String
  | .readError => "err read"
  | .magic m => "err magic " ++ toString m
  | .endianness => "err endianness"
  | .major v => "err major " ++ toString v
  | .minor v => "err minor " ++ toString v
  | .usizeSize n => "err usize " ++ toString n
  | .wrongTypeHash s => "err typehash " ++ toString s
  | .wrongAlignHash s => "err alignhash " ++ toString s
  | .alignment => "err alignment"
  | .invalidTag t => "err tag " ++ toString t

def showRes (f : α → String) : Res α → String
  | .ok a => "ok " ++ f a
  | .err e => showErr e
  | .panic => "panic"

/-! ### Parsers (recursive descent over `List Char`) -/

abbrev P (α : Type) := List Char → Option (α × List Char)

def pNat : P Nat := fun cs =>
  let ds := cs.takeWhile Char.isDigit
  if ds.isEmpty then none else some (ds.foldl (fun a c => a * 10 + (c.toNat - '0'.toNat)) 0, cs.drop ds.length)

def pChar (c : Char) : P Unit := fun cs =>
  match cs with
  | d :: r => if c == d then some ((), r) else none
  | [] => none

def pHex : P B := fun cs =>
  let ds := cs.takeWhile (fun c => c.isDigit || ('a' ≤ c && c ≤ 'f'))
  some (unhex ds, cs.drop ds.length)

def pIdent : P String := fun cs =>
  let ds := cs.takeWhile (fun c => c.isAlphanum || c == '_')
  some (String.ofList ds, cs.drop ds.length)

mutual
partial def pVal : P Val := fun cs =>
  match cs with
  | '(' :: ')' :: r => some (.unit, r)
  | 's' :: '"' :: r =>
      match pHex r with
      | some (b, '"' :: r) => some (.str b, r)
      | _ => none
  | '[' :: r => (pVals ']' r).map fun (vs, r) => (.seq vs, r)
  | '{' :: r => (pVals '}' r).map fun (vs, r) => (.record vs, r)
  | '#' :: r =>
      match pNat r with
      | some (i, '(' :: r) => (pVals ')' r).map fun (vs, r) => (.variant i vs, r)
      | _ => none
  | _ => (pNat cs).map fun (n, r) => (.bits n, r)
partial def pVals (close : Char) : P (List Val) := fun cs =>
  match cs with
  | c :: r =>
      if c == close then some ([], r)
      else match pVal cs with
        | some (v, ',' :: r) => (pVals close r).map fun (vs, r) => (v :: vs, r)
        | _ => none
  | [] => none
end

def intKOf : String → Option IntK
  | "u8" => some .u8 | "u16" => some .u16 | "u32" => some .u32 | "u64" => some .u64
  | "u128" => some .u128 | "usize" => some .usize
  | "i8" => some .i8 | "i16" => some .i16 | "i32" => some .i32 | "i64" => some .i64
  | "i128" => some .i128 | "isize" => some .isize
  | _ => none

def primOf (s : String) : Option Prim :=
  match s with
  | "f32" => some .f32 | "f64" => some .f64 | "bool" => some .bool | "char" => some .char
  | "unit" => some .unit
  | s => if s.startsWith "nz" then (intKOf (s.drop 2).toString).map Prim.nz else (intKOf s).map Prim.int

def rangeKOf : String → Option RangeK
  | "r" => some .range | "f" => some .from | "i" => some .incl | "t" => some .to | "ti" => some .toIncl
  | _ => none

/-- a `;`-separated list closed by `close` (elements parsed by `p`) -/
partial def pList (p : P α) (close : Char) : P (List α) := fun cs =>
  match cs with
  | c :: r =>
      if c == close then some ([], r)
      else match p cs with
        | some (v, ';' :: r) => (pList p close r).map fun (vs, r) => (v :: vs, r)
        | _ => none
  | [] => none

def fieldsOfList : List (B × Bool × Ty) → Fields
  | [] => .nil
  | (n, e, t) :: r => .cons n e t (fieldsOfList r)
def variantsOfList : List (B × Fields) → Variants
  | [] => .nil
  | (n, f) :: r => .cons n f (variantsOfList r)

partial def pTy : P Ty := fun cs =>
  match pIdent cs with
  | none => none
  | some (kw, r) =>
    let un (k : Ty → Ty) : Option (Ty × List Char) :=
      match r with
      | '(' :: r => match pTy r with
        | some (t, ')' :: r) => some (k t, r)
        | _ => none
      | _ => none
    let cnt (k : Ty → Nat → Ty) : Option (Ty × List Char) :=
      match r with
      | '(' :: r => match pNat r with
        | some (n, ',' :: r) => match pTy r with
          | some (t, ')' :: r) => some (k t n, r)
          | _ => none
        | _ => none
      | _ => none
    match kw with
    | "p" => match r with
      | ':' :: r => match pIdent r with
        | some (nm, r) => (primOf nm).map fun p => (.prim p, r)
        | none => none
      | _ => none
    | "ph" => un .phantom
    | "str" => some (.string, r)
    | "bstr" => some (.boxStr, r)
    | "vec" => un .vec
    | "bs" => un .boxSlice
    | "sl" => un .sliceRef
    | "it" => un .serIter
    | "opt" => un .option
    | "bnd" => un .bound
    | "arr" => cnt .array
    | "tup" => cnt .tuple
    | "rfull" => some (.rangeFull, r)
    | "cf" => match r with
      | '(' :: r => match pTy r with
        | some (a, ',' :: r) => match pTy r with
          | some (b, ')' :: r) => some (.controlFlow a b, r)
          | _ => none
        | _ => none
      | _ => none
    | "rng" => match r with
      | '(' :: r => match pIdent r with
        | some (k, ',' :: r) => match rangeKOf k, pTy r with
          | some k, some (t, ')' :: r) => some (.range k t, r)
          | _, _ => none
        | _ => none
      | _ => none
    | "adt" =>
      -- adt(<namehex>,<E|S>,<Z|D|N>,<align>,[reprhex;...],[cnamehex:prim:val;...],[<vnamehex>{<fnamehex>:<e|f>:<ty>;...};...])
      match r with
      | '(' :: r => match pHex r with
        | some (name, ',' :: k :: ',' :: c :: ',' :: r) => match pNat r with
          | some (al, ',' :: '[' :: r) => match pList pHex ']' r with
            | some (reprs, ',' :: '[' :: r) =>
              let pConst : P (B × Prim × Nat) := fun cs => match pHex cs with
                | some (n, ':' :: r) => match pIdent r with
                  | some (pn, ':' :: r) => match primOf pn, pNat r with
                    | some p, some (v, r) => some ((n, p, v), r)
                    | _, _ => none
                  | _ => none
                | _ => none
              match pList pConst ']' r with
              | some (consts, ',' :: '[' :: r) =>
                let pField : P (B × Bool × Ty) := fun cs => match pHex cs with
                  | some (n, ':' :: e :: ':' :: r) => (pTy r).map fun (t, r) => ((n, e == 'e', t), r)
                  | _ => none
                let pVariant : P (B × Fields) := fun cs => match pHex cs with
                  | some (n, '{' :: r) => (pList pField '}' r).map fun (fs, r) => ((n, fieldsOfList fs), r)
                  | _ => none
                match pList pVariant ']' r with
                | some (vs, ')' :: r) =>
                  some (.adt { name := name, isEnum := k == 'E', zero := c == 'Z', deepAttr := c == 'D',
                               reprs := reprs, alignAttr := al, consts := consts } (variantsOfList vs), r)
                | _ => none
              | _ => none
            | _ => none
          | _ => none
        | _ => none
      | _ => none
    | _ => none


/-! ### definition-level terms (C05) -/

partial def pTyExpr : P TyExpr := fun cs =>
  match cs with
  | 'P' :: r => (pNat r).map fun (i, r) => (.param i, r)
  | 'T' :: '(' :: r => match pTy r with
    | some (t, ')' :: r) => some (.ty t, r)
    | _ => none
  | _ =>
    match pIdent cs with
    | some (kw, '(' :: r) =>
      let un (k : TyExpr → TyExpr) : Option (TyExpr × List Char) := match pTyExpr r with
        | some (e, ')' :: r) => some (k e, r)
        | _ => none
      let cnt (k : TyExpr → Nat → TyExpr) : Option (TyExpr × List Char) := match pNat r with
        | some (n, ',' :: r) => match pTyExpr r with
          | some (e, ')' :: r) => some (k e n, r)
          | _ => none
        | _ => none
      match kw with
      | "vec" => un .vec | "bs" => un .boxSlice | "opt" => un .option | "bnd" => un .bound | "ph" => un .phantom
      | "arr" => cnt .array | "carr" => cnt .constArray
      | _ => none
    | _ => none

def pDef : P Def := fun cs =>
  match cs with
  | 'd' :: 'e' :: 'f' :: '(' :: r => match pHex r with
    | some (name, ',' :: k :: ',' :: c :: ',' :: r) => match pNat r with
      | some (al, ',' :: '[' :: r) => match pList pHex ']' r with
        | some (reprs, ',' :: r) => match pNat r with
          | some (ntp, ',' :: '[' :: r) =>
            let pConst : P (B × Prim) := fun cs => match pHex cs with
              | some (n, ':' :: r) => match pIdent r with
                | some (pn, r) => (primOf pn).map fun p => ((n, p), r)
                | none => none
              | _ => none
            match pList pConst ']' r with
            | some (consts, ',' :: '[' :: r) =>
              let pField : P FieldDef := fun cs => match pHex cs with
                | some (n, ':' :: r) => (pTyExpr r).map fun (e, r) => (⟨n, e⟩, r)
                | _ => none
              let pVariant : P VariantDef := fun cs => match pHex cs with
                | some (n, '{' :: r) => (pList pField '}' r).map fun (fs, r) => (⟨n, fs⟩, r)
                | _ => none
              match pList pVariant ']' r with
              | some (vs, ')' :: r) =>
                some ({ name := name, isEnum := k == 'E', zero := c == 'Z', deepAttr := c == 'D', reprs := reprs,
                        alignAttr := al, nTypeParams := ntp, constParams := consts, variants := vs }, r)
              | _ => none
            | _ => none
          | _ => none
        | _ => none
      | _ => none
    | _ => none
  | _ => none

end Eps
