/-
  Basic definitions shared by the whole model: bytes, little-endian words, the three-valued
  result of readers, the padding formula of `epserde::pad_align_to`.
  Model files import nothing outside core so that the protocol driver links as a `lean_exe`.
-/
namespace Eps

/-- Byte strings. -/
abbrev B := List UInt8

/-- Model of `deser::Error` (payloads as natural numbers; the two hash errors carry the words
    read from the stream, which is what the checks compare). -/
inductive Err where
  | readError
  | magic (m : Nat)
  | endianness
  | major (v : Nat)
  | minor (v : Nat)
  | usizeSize (n : Nat)
  | wrongTypeHash (ser : Nat)
  | wrongAlignHash (ser : Nat)
  | alignment
  | invalidTag (t : Nat)
  deriving DecidableEq, Repr, Inhabited

/-- Result of a reader: the ε-copy path deliberately relies on bounds-check panics, so a panic is
    an outcome of its own. -/
inductive Res (α : Type) where
  | ok (a : α)
  | err (e : Err)
  | panic
  deriving Repr, DecidableEq

namespace Res
def bind (r : Res α) (f : α → Res β) : Res β :=
  match r with
  | .ok a => f a
  | .err e => .err e
  | .panic => .panic
def map (f : α → β) (r : Res α) : Res β := r.bind (fun a => .ok (f a))
def isOk : Res α → Bool
  | .ok _ => true
  | _ => false
end Res

/-- `w` little-endian bytes of `n` (the low `8*w` bits). -/
def leBytes : (w : Nat) → (n : Nat) → B
  | 0, _ => []
  | w+1, n => UInt8.ofNat (n % 256) :: leBytes w (n / 256)

/-- Value of a little-endian byte string. -/
def leVal : B → Nat
  | [] => 0
  | b :: bs => b.toNat + 256 * leVal bs

def zeros (n : Nat) : B := List.replicate n 0

/-- The crate's padding formula `value.wrapping_neg() & (align_to - 1)` on 64-bit words, written on
    `Nat` (`pos` is reduced modulo 2^64 as a `usize` would be). -/
def pad (pos u : Nat) : Nat := ((2^64 - pos % 2^64) % 2^64) &&& (u - 1)

/-- The declarative meaning of padding: distance to the next multiple of `u`. -/
def padNat (pos u : Nat) : Nat := (u - pos % u) % u

end Eps
