/-
  A port of XXH3-64 (seed 0, default secret, all length classes), so that the model is a complete
  independent reference encoder, header hashes included. Arithmetic on `Nat` modulo 2^64.
  Validated against `xxhash_rust::xxh3` by the correspondence check (`xxh` op).
-/
import EpsModel.Basic
namespace Eps.XXH3

def M : Nat := 2^64
def secret : Array UInt8 := #[
    0xb8, 0xfe, 0x6c, 0x39, 0x23, 0xa4, 0x4b, 0xbe, 0x7c, 0x01, 0x81, 0x2c, 0xf7, 0x21, 0xad, 0x1c,
    0xde, 0xd4, 0x6d, 0xe9, 0x83, 0x90, 0x97, 0xdb, 0x72, 0x40, 0xa4, 0xa4, 0xb7, 0xb3, 0x67, 0x1f,
    0xcb, 0x79, 0xe6, 0x4e, 0xcc, 0xc0, 0xe5, 0x78, 0x82, 0x5a, 0xd0, 0x7d, 0xcc, 0xff, 0x72, 0x21,
    0xb8, 0x08, 0x46, 0x74, 0xf7, 0x43, 0x24, 0x8e, 0xe0, 0x35, 0x90, 0xe6, 0x81, 0x3a, 0x26, 0x4c,
    0x3c, 0x28, 0x52, 0xbb, 0x91, 0xc3, 0x00, 0xcb, 0x88, 0xd0, 0x65, 0x8b, 0x1b, 0x53, 0x2e, 0xa3,
    0x71, 0x64, 0x48, 0x97, 0xa2, 0x0d, 0xf9, 0x4e, 0x38, 0x19, 0xef, 0x46, 0xa9, 0xde, 0xac, 0xd8,
    0xa8, 0xfa, 0x76, 0x3f, 0xe3, 0x9c, 0x34, 0x3f, 0xf9, 0xdc, 0xbb, 0xc7, 0xc7, 0x0b, 0x4f, 0x1d,
    0x8a, 0x51, 0xe0, 0x4b, 0xcd, 0xb4, 0x59, 0x31, 0xc8, 0x9f, 0x7e, 0xc9, 0xd9, 0x78, 0x73, 0x64,
    0xea, 0xc5, 0xac, 0x83, 0x34, 0xd3, 0xeb, 0xc3, 0xc5, 0x81, 0xa0, 0xff, 0xfa, 0x13, 0x63, 0xeb,
    0x17, 0x0d, 0xdd, 0x51, 0xb7, 0xf0, 0xda, 0x49, 0xd3, 0x16, 0x55, 0x26, 0x29, 0xd4, 0x68, 0x9e,
    0x2b, 0x16, 0xbe, 0x58, 0x7d, 0x47, 0xa1, 0xfc, 0x8f, 0xf8, 0xb8, 0xd1, 0x7a, 0xd0, 0x31, 0xce,
    0x45, 0xcb, 0x3a, 0x8f, 0x95, 0x16, 0x04, 0x28, 0xaf, 0xd7, 0xfb, 0xca, 0xbb, 0x4b, 0x40, 0x7e]

def P32_1 : Nat := 0x9E3779B1
def P32_2 : Nat := 0x85EBCA77
def P32_3 : Nat := 0xC2B2AE3D
def P64_1 : Nat := 0x9E3779B185EBCA87
def P64_2 : Nat := 0xC2B2AE3D27D4EB4F
def P64_3 : Nat := 0x165667B19E3779F9
def P64_4 : Nat := 0x85EBCA77C2B2AE63
def P64_5 : Nat := 0x27D4EB2F165667C5
def PMX1 : Nat := 0x165667919E3779F9
def PMX2 : Nat := 0x9FB21C651E98DF25

/-- little-endian read of `w` bytes at offset `o` of an array. -/
def rd (a : Array UInt8) (o w : Nat) : Nat :=
  (List.range w).foldr (fun i acc => (a.getD (o + i) 0).toNat + 256 * acc) 0

def sec64 (o : Nat) : Nat := rd secret o 8
def sec32 (o : Nat) : Nat := rd secret o 4

def rotl (x r : Nat) : Nat := ((x <<< r) % M) ||| (x >>> (64 - r))
def bswap (w x : Nat) : Nat := leVal ((leBytes w x).reverse)
def mulFold (a b : Nat) : Nat := let p := a * b; (p % M) ^^^ (p / M)

def xxh64Avalanche (h : Nat) : Nat :=
  let h := h ^^^ (h >>> 33)
  let h := h * P64_2 % M
  let h := h ^^^ (h >>> 29)
  let h := h * P64_3 % M
  h ^^^ (h >>> 32)

def avalanche (h : Nat) : Nat :=
  let h := h ^^^ (h >>> 37)
  let h := h * PMX1 % M
  h ^^^ (h >>> 32)

def rrmxmx (h len : Nat) : Nat :=
  let h := h ^^^ (rotl h 49 ^^^ rotl h 24)
  let h := h * PMX2 % M
  let h := h ^^^ ((h >>> 35) + len)
  let h := h * PMX2 % M
  h ^^^ (h >>> 28)

def mix16 (inp : Array UInt8) (io so : Nat) : Nat :=
  mulFold (rd inp io 8 ^^^ sec64 so) (rd inp (io + 8) 8 ^^^ sec64 (so + 8))

def accumulate512 (acc : Array Nat) (inp : Array UInt8) (io so : Nat) : Array Nat := Id.run do
  let mut acc := acc
  for i in [0:8] do
    let dv := rd inp (io + 8 * i) 8
    let dk := dv ^^^ sec64 (so + 8 * i)
    let j := i ^^^ 1
    acc := acc.set! j ((acc[j]! + dv) % M)
    acc := acc.set! i ((acc[i]! + (dk % 2^32) * (dk >>> 32)) % M)
  return acc

def scramble (acc : Array Nat) (so : Nat) : Array Nat := Id.run do
  let mut acc := acc
  for i in [0:8] do
    let a := acc[i]!
    let a := a ^^^ (a >>> 47)
    let a := a ^^^ sec64 (so + 8 * i)
    acc := acc.set! i (a * P32_1 % M)
  return acc

def hashLong (inp : Array UInt8) : Nat := Id.run do
  let len := inp.size
  let mut acc : Array Nat := #[P32_3, P64_1, P64_2, P64_3, P64_4, P32_2, P64_5, P32_1]
  let blockLen := 1024
  let nbBlocks := (len - 1) / blockLen
  for n in [0:nbBlocks] do
    for i in [0:16] do
      acc := accumulate512 acc inp (n * blockLen + i * 64) (i * 8)
    acc := scramble acc (192 - 64)
  let nbStripes := ((len - 1) - blockLen * nbBlocks) / 64
  for i in [0:nbStripes] do
    acc := accumulate512 acc inp (nbBlocks * blockLen + i * 64) (i * 8)
  acc := accumulate512 acc inp (len - 64) (192 - 64 - 7)
  let mut result := len * P64_1 % M
  for i in [0:4] do
    result := (result + mulFold (acc[2*i]! ^^^ sec64 (11 + 16 * i)) (acc[2*i+1]! ^^^ sec64 (11 + 16 * i + 8))) % M
  return avalanche result

/-- XXH3-64 with seed 0 and the default secret. -/
def xxh3 (b : B) : Nat :=
  let inp := b.toArray
  let len := inp.size
  if len == 0 then xxh64Avalanche (sec64 56 ^^^ sec64 64)
  else if len ≤ 3 then
    let c1 := (inp.getD 0 0).toNat
    let c2 := (inp.getD (len / 2) 0).toNat
    let c3 := (inp.getD (len - 1) 0).toNat
    let combined := (c1 <<< 16) ||| (c2 <<< 24) ||| c3 ||| (len <<< 8)
    let bitflip := sec32 0 ^^^ sec32 4
    xxh64Avalanche (combined ^^^ bitflip)
  else if len ≤ 8 then
    let i1 := rd inp 0 4
    let i2 := rd inp (len - 4) 4
    let bitflip := sec64 8 ^^^ sec64 16
    let input64 := i2 + (i1 <<< 32)
    rrmxmx (input64 ^^^ bitflip) len
  else if len ≤ 16 then
    let bf1 := sec64 24 ^^^ sec64 32
    let bf2 := sec64 40 ^^^ sec64 48
    let lo := rd inp 0 8 ^^^ bf1
    let hi := rd inp (len - 8) 8 ^^^ bf2
    avalanche ((len + bswap 8 lo + hi + mulFold lo hi) % M)
  else if len ≤ 128 then Id.run do
    let mut acc := len * P64_1 % M
    if len > 32 then
      if len > 64 then
        if len > 96 then
          acc := acc + mix16 inp 48 96 + mix16 inp (len - 64) 112
        acc := acc + mix16 inp 32 64 + mix16 inp (len - 48) 80
      acc := acc + mix16 inp 16 32 + mix16 inp (len - 32) 48
    acc := acc + mix16 inp 0 0 + mix16 inp (len - 16) 16
    return avalanche (acc % M)
  else if len ≤ 240 then Id.run do
    let mut acc := len * P64_1 % M
    for i in [0:8] do
      acc := (acc + mix16 inp (16 * i) (16 * i)) % M
    acc := avalanche acc
    for i in [8:len / 16] do
      acc := (acc + mix16 inp (16 * i) (16 * (i - 8) + 3)) % M
    acc := (acc + mix16 inp (len - 16) (136 - 17)) % M
    return avalanche acc
  else hashLong inp

end Eps.XXH3
