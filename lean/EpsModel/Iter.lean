/-
  Serialization-only wrappers: slice references and `SerIter` (exact-size iterators), which are
  written — header included — as the corresponding vector.
-/
import EpsModel.Header
namespace Eps

/-- Errors of serialization that are not write errors. -/
inductive SerErr where
  | lengthMismatch (actual expected : Nat)
  deriving Repr, DecidableEq

/-- The item-by-item writer of `SerIter<T, I>` for zero-copy `T` (impls/iter.rs): the announced
    length, alignment, then each item yielded as its memory; afterwards the count is compared with
    the announced length. Returns the bytes written and the result. -/
def encIter (t : Ty) (items : List Val) (announced pos : Nat) : B × Except SerErr Unit :=
  (leBytes 8 announced ++ zeros (pad (pos + 8) t.maxSizeOf) ++ Ty.toMemList t items,
   if items.length != announced then .error (.lengthMismatch items.length announced) else .ok ())

mutual
/-- Replace every slice reference / iterator wrapper by the vector it is written as. -/
def Ty.vecify : Ty → Ty
  | .sliceRef t => .vec t.vecify
  | .serIter t => .vec t.vecify
  | .vec t => .vec t.vecify
  | .boxSlice t => .boxSlice t.vecify
  | .array t n => .array t.vecify n
  | .tuple t n => .tuple t.vecify n
  | .option t => .option t.vecify
  | .bound t => .bound t.vecify
  | .controlFlow b c => .controlFlow b.vecify c.vecify
  | .range k t => .range k t.vecify
  | .phantom t => .phantom t.vecify
  | .adt m vs => .adt m vs.vecify
  | t => t
def Fields.vecify : Fields → Fields
  | .nil => .nil
  | .cons n e t r => .cons n e t.vecify r.vecify
def Variants.vecify : Variants → Variants
  | .nil => .nil
  | .cons n fs r => .cons n fs.vecify r.vecify
end

end Eps
