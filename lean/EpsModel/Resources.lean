/-
  The resource discipline of the loaders (`load_mem`, `load_mmap`, `mmap`), as the traces of
  acquire / release events on every path, and the lifetimes the API attaches to the handles a
  client can obtain.
-/
import EpsModel.Loaders
namespace Eps

/-- Events on the backing memory of one load, followed by the life of the returned case. -/
inductive REv where
  | acquire          -- alloc / mmap of the backing region
  | use              -- the region is read (filled from the file, deserialized from, dereferenced)
  | release          -- dealloc / munmap
  deriving DecidableEq, Repr

/-- How one load goes. -/
structure LoadPath where
  openOk : Bool      -- metadata / open succeed
  mapOk : Bool       -- the allocation / mapping succeeds
  readOk : Bool      -- read_exact of the file into the region succeeds (copying loaders)
  deser : Nat        -- 0 = deserialize_eps returns Ok, 1 = returns Err, 2 = panics
  uses : Nat         -- how many times the client dereferences the case before dropping it
  deriving DecidableEq, Repr

/-- The trace of events for a loader along a path (the code as it stands: the backend is owned by a
    `Vec`/`MmapMut` until it is moved into the partially initialized case, then by a drop guard
    until deserialization has succeeded, then by the `MemCase`). -/
def loadTrace (l : Loader) (p : LoadPath) : List REv :=
  if l = .full then [] else
  if !p.openOk then [] else
  if !p.mapOk then [] else
  let fill := if l = .map then [] else [REv.use]            -- read_exact + zero fill
  if (l != .map) && !p.readOk then [.acquire] ++ fill ++ [.release]   -- `?` drops the Vec / MmapMut
  else
    match p.deser with
    | 0 => [.acquire] ++ fill ++ [.use] ++ List.replicate p.uses .use ++ [.release]   -- returned, used, dropped
    | _ => [.acquire] ++ fill ++ [.use] ++ [.release]                                     -- guard drops the backend

def countEv (e : REv) (t : List REv) : Nat := (t.filter (· == e)).length

/-- no `use` after the `release`, and nothing before the `acquire` -/
def wellBracketed : List REv → Bool
  | [] => true
  | .acquire :: rest => (rest.getLast? == some .release) && !(rest.dropLast.contains .release) && !(rest.contains .acquire)
  | _ => false

/-! ### Lifetimes of the handles a client can obtain -/

/-- `'static`, the lifetime of a borrow of the `MemCase`, the lifetime of the input buffer. -/
inductive Lt where
  | static | case | buf
  deriving DecidableEq, Repr

/-- Ways to obtain a handle on deserialized data. -/
inductive Path where
  | epsResult          -- the value returned by `deserialize_eps(&'buf [u8])`
  | caseDerefRef       -- `&*case` / `case.as_ref()`: a reference to the structure inside the case
  | caseDerefCopy      -- `*case` / a `Copy` field of it copied out: the structure itself, e.g. `&'a [T]`
  deriving DecidableEq, Repr

/-- The lifetime the signatures attach to the handle (`load_*<'a>` lets the caller choose the
    parameter of `DeserType<'a>`, in particular `'static`). -/
def handleLt : Path → Lt
  | .epsResult => .buf
  | .caseDerefRef => .case
  | .caseDerefCopy => .static

/-- the owner whose life bounds the validity of the data behind the handle -/
def ownerLt : Path → Lt
  | .epsResult => .buf
  | .caseDerefRef => .case
  | .caseDerefCopy => .case

/-- a handle is bounded if its lifetime is not longer than its owner's -/
def bounded (p : Path) : Bool := handleLt p == ownerLt p


/-! ### Partially built values: the item-by-item construction of `[T; N]` (impls/array.rs)

    Each item either is built (owning `heap` bytes of its own), or its deserializer returns an
    error, or it panics. The array under construction lives in a `MaybeUninit`; the initialised
    prefix is owned by a drop guard (`PartialArray`) that is forgotten only when all items are built. -/

inductive ItemOutcome where
  | built (heap : Nat)
  | failed
  | panicked
  deriving Repr, DecidableEq

inductive BuildResult where
  | ok | err | unwound
  deriving Repr, DecidableEq

/-- Live heap bytes owned by what remains after the construction, and how it ended.
    `acc` is what the guard owns so far. -/
def buildArray : List ItemOutcome → Nat → Nat × BuildResult
  | [], acc => (acc, .ok)                       -- guard forgotten: the array owns its items
  | .built h :: rest, acc => buildArray rest (acc + h)
  | .failed :: _, _ => (0, .err)                -- `?` returns: the guard drops the prefix
  | .panicked :: _, _ => (0, .unwound)          -- unwinding: the guard drops the prefix

/-- The construction without the guard (the code before the fixes 471234f / 728085c): the prefix
    is never dropped. -/
def buildArrayNoGuard : List ItemOutcome → Nat → Nat × BuildResult
  | [], acc => (acc, .ok)
  | .built h :: rest, acc => buildArrayNoGuard rest (acc + h)
  | .failed :: _, acc => (acc, .err)
  | .panicked :: _, acc => (acc, .unwound)

end Eps
