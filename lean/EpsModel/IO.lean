/-
  Fault models for writers and readers.

  * `std::io::Write::write_all` and `Read::read_exact` as the loops they are, over a raw device that
    answers each call according to a schedule (short transfers, `Interrupted`, failures);
  * a `Sink` as anything obeying the `write_all` contract: of each chunk it is handed it takes a
    prefix, and reports success only if it took all of it.
-/
import EpsModel.Basic
namespace Eps.IO

/-- Answer of a raw `write`/`read` call. -/
inductive Resp where
  | take (n : Nat)      -- transfer at most `n` bytes (0 = `Ok(0)`)
  | interrupted          -- `Err(ErrorKind::Interrupted)`: the loop retries
  | fail                 -- any other error
  deriving Repr, DecidableEq

/-- `Write::write_all(buf)` against a schedule of answers (when the schedule is exhausted the
    device takes everything). Returns the bytes the device accepted, the rest of the schedule, and
    whether `write_all` returned `Ok`. -/
def writeAll : List Resp → B → B × List Resp × Bool
  | rs, [] => ([], rs, true)
  | [], b :: bs => (b :: bs, [], true)
  | .interrupted :: rs, b :: bs => writeAll rs (b :: bs)
  | .fail :: rs, _ :: _ => ([], rs, false)
  | .take 0 :: rs, _ :: _ => ([], rs, false)      -- WriteZero
  | .take (n+1) :: rs, b :: bs =>
      if (b :: bs).length ≤ n + 1 then (b :: bs, rs, true)
      else
        let r := writeAll rs ((b :: bs).drop (n + 1))
        ((b :: bs).take (n + 1) ++ r.1, r.2.1, r.2.2)
termination_by rs buf => rs.length + buf.length
decreasing_by all_goals simp_wf <;> omega

/-- A sink obeying the `write_all` contract: given what it accepted so far and the next chunk, how
    many bytes of the chunk it takes; and whether `flush` succeeds. -/
structure Sink where
  accept : B → B → Nat
  flushOk : B → Bool

/-- Result of serializing through a sink. -/
inductive WRes where
  | ok (count : Nat)
  | writeError
  deriving Repr, DecidableEq

/-- The serializer hands the chunks to the sink one `write_all` at a time, stops at the first
    failure, flushes at the end. Returns the bytes the sink accepted and the result. -/
def runSink (sk : Sink) : B → List B → B × WRes
  | acc, [] => (acc, if sk.flushOk acc then .ok acc.length else .writeError)
  | acc, c :: cs =>
      let k := min (sk.accept acc c) c.length
      if k < c.length then (acc ++ c.take k, .writeError)
      else runSink sk (acc ++ c) cs

/-- The sink that accepts `k` bytes in total and then fails every write. -/
def budgetSink (k : Nat) (flushFails : Bool) : Sink :=
  { accept := fun acc c => min c.length (k - acc.length), flushOk := fun _ => !flushFails }

/-- `Read::read_exact(n)` against a schedule, over the bytes `data` still available: the bytes
    read, the rest of the data and schedule, success. -/
def readExactSched : List Resp → B → Nat → B × B × List Resp × Bool
  | rs, data, 0 => ([], data, rs, true)
  | [], data, n+1 => if n + 1 ≤ data.length then (data.take (n+1), data.drop (n+1), [], true) else (data, [], [], false)
  | .interrupted :: rs, data, n+1 => readExactSched rs data (n+1)
  | .fail :: rs, data, _+1 => ([], data, rs, false)
  | .take 0 :: rs, data, _+1 => ([], data, rs, false)       -- UnexpectedEof
  | .take (_+1) :: rs, [], _+1 => ([], [], rs, false)       -- end of data: Ok(0)
  | .take (m+1) :: rs, d :: ds, n+1 =>
      let k := min (min (m + 1) (n + 1)) (d :: ds).length
      let r := readExactSched rs ((d :: ds).drop k) (n + 1 - k)
      ((d :: ds).take k ++ r.1, r.2.1, r.2.2.1, r.2.2.2)
termination_by rs _ n => rs.length + n
decreasing_by all_goals simp_wf <;> omega

end Eps.IO
