/-
  The schema recorded by `SchemaWriter` (`serialize_with_schema`): one row per `write` (inserted
  before the rows of what it writes, hence pre-order), one per non-empty padding, one per
  `write_bytes`. Field names are abstracted to the *depth* of the dotted path (padding rows, whose
  name is the bare `PADDING`, have depth 0): offsets, sizes, alignments and nesting are what the
  property speaks about.
-/
import EpsModel.Header
namespace Eps

structure Row where
  depth : Nat
  off : Nat
  size : Nat
  align : Nat
  deriving Repr, DecidableEq

/-- `SchemaWriter::align` for unit `u` at position `pos`. -/
def padRows (pos u : Nat) : List Row :=
  if pad pos u != 0 then [⟨0, pos, pad pos u, 1⟩] else []

/-- `align` + `write_bytes` of `size` bytes with unit `u`, inside a value at path depth `d`. -/
def zeroRows (d pos size u : Nat) : List Row :=
  padRows pos u ++ [⟨d + 1, pos + pad pos u, size, u⟩]

mutual
/-- Rows recorded while `_serialize_inner` runs for `v : T` at path depth `d`, position `pos`. -/
def Ty.rows : Ty → Val → Nat → Nat → List Row
  | .string, .str b, d, pos => ⟨d + 1, pos, 8, 0⟩ :: zeroRows d (pos + 8) b.length 1
  | .boxStr, .str b, d, pos => ⟨d + 1, pos, 8, 0⟩ :: zeroRows d (pos + 8) b.length 1
  | .vec t, .seq vs, d, pos => Ty.rowsSeq t vs d pos
  | .boxSlice t, .seq vs, d, pos => Ty.rowsSeq t vs d pos
  | .sliceRef t, .seq vs, d, pos => Ty.rowsSeq t vs d pos
  | .array t _, .seq vs, d, pos =>
      if t.isZC then zeroRows d pos (Ty.toMemList t vs).length t.maxSizeOf
      else Ty.rowsList t vs d pos
  | .tuple t _, .seq vs, d, pos => zeroRows d pos (Ty.toMemList t vs).length t.maxSizeOf
  | .option _, .variant 0 [], d, pos => [⟨d + 1, pos, 1, 0⟩]
  | .option t, .variant 1 [v], d, pos => ⟨d + 1, pos, 1, 0⟩ :: Ty.rowsW t v d (pos + 1)
  | .bound _, .variant 0 [], d, pos => [⟨d + 1, pos, 1, 0⟩]
  | .bound t, .variant 1 [v], d, pos => ⟨d + 1, pos, 1, 0⟩ :: Ty.rowsW t v d (pos + 1)
  | .bound t, .variant 2 [v], d, pos => ⟨d + 1, pos, 1, 0⟩ :: Ty.rowsW t v d (pos + 1)
  | .controlFlow b _, .variant 0 [v], d, pos => ⟨d + 1, pos, 1, 0⟩ :: Ty.rowsW b v d (pos + 1)
  | .controlFlow _ c, .variant 1 [v], d, pos => ⟨d + 1, pos, 1, 0⟩ :: Ty.rowsW c v d (pos + 1)
  | .range .range t, .record [a, b], d, pos =>
      Ty.rowsW t a d pos ++ Ty.rowsW t b d (pos + (t.enc a pos).length)
  | .range .incl t, .record [a, b], d, pos =>
      let p2 := pos + (t.enc a pos).length
      let p3 := p2 + (t.enc b p2).length
      Ty.rowsW t a d pos ++ Ty.rowsW t b d p2 ++ [⟨d + 1, p3, 1, 0⟩]
  | .range .from t, .record [a], d, pos => Ty.rowsW t a d pos
  | .range .to t, .record [a], d, pos => Ty.rowsW t a d pos
  | .range .toIncl t, .record [a], d, pos => Ty.rowsW t a d pos
  | .adt m vs, .record fs, d, pos =>
      if m.zero then zeroRows d pos (Ty.sizeOf (.adt m vs)) (Ty.maxSizeOf (.adt m vs))
      else match vs with
        | .cons _ fds .nil => Fields.rows fds fs d pos
        | _ => []
  | .adt m vs, .variant i fs, d, pos =>
      if m.zero then zeroRows d pos (Ty.sizeOf (.adt m vs)) (Ty.maxSizeOf (.adt m vs))
      else ⟨d + 1, pos, 8, 0⟩ :: Variants.rows vs i fs d (pos + 8)
  | _, _, _, _ => []
/-- `backend.write(name, v)`: the row of the field, then what the value records one level deeper. -/
def Ty.rowsW : Ty → Val → Nat → Nat → List Row
  | t, v, d, pos => ⟨d + 1, pos, (t.enc v pos).length, 0⟩ :: t.rows v (d + 1) pos
def Ty.rowsSeq : Ty → List Val → Nat → Nat → List Row
  | t, vs, d, pos =>
      if t.isZC then ⟨d + 1, pos, 8, 0⟩ :: zeroRows d (pos + 8) (Ty.toMemList t vs).length t.maxSizeOf
      else ⟨d + 1, pos, 8, 0⟩ :: Ty.rowsList t vs d (pos + 8)
def Ty.rowsList : Ty → List Val → Nat → Nat → List Row
  | _, [], _, _ => []
  | t, v :: vs, d, pos => Ty.rowsW t v d pos ++ Ty.rowsList t vs d (pos + (t.enc v pos).length)
def Fields.rows : Fields → List Val → Nat → Nat → List Row
  | .cons _ _ t r, v :: vs, d, pos => Ty.rowsW t v d pos ++ r.rows vs d (pos + (t.enc v pos).length)
  | _, _, _, _ => []
def Variants.rows : Variants → Nat → List Val → Nat → Nat → List Row
  | .nil, _, _, _, _ => []
  | .cons _ fs _, 0, vals, d, pos => fs.rows vals d pos
  | .cons _ _ r, i+1, vals, d, pos => r.rows i vals d pos
end

/-- The whole schema of `serialize_with_schema`: header rows, then `ROOT`. -/
def Ty.schema (t : Ty) (name : B) (v : Val) : List Row :=
  let hl := 37 + name.length
  [⟨1, 0, 8, 0⟩, ⟨1, 8, 2, 0⟩, ⟨1, 10, 2, 0⟩, ⟨1, 12, 1, 0⟩, ⟨1, 13, 8, 0⟩, ⟨1, 21, 8, 0⟩,
   ⟨1, 29, 8 + name.length, 0⟩, ⟨2, 29, 8, 0⟩, ⟨2, 37, name.length, 1⟩] ++
  Ty.rowsW t v 0 hl

end Eps
