/-
  The schema recorded by `SchemaWriter` (`serialize_with_schema`), as a forest: one node per
  `write` (whose children are what the written value records), one per non-empty padding, one per
  `write_bytes`. The recorded `Schema` is the pre-order traversal of the forest (`write` inserts
  its row *before* the rows of what it writes). Field names are abstracted to the depth of the
  dotted path (padding rows, whose name is the bare `PADDING`, get depth 0).
-/
import EpsModel.Header
namespace Eps

/-- A node of the schema: offset, size, recorded alignment, whether it is a padding row, children. -/
inductive Tree where
  | node (off size align : Nat) (isPad : Bool) (kids : List Tree)

def Tree.off : Tree → Nat | .node o _ _ _ _ => o
def Tree.size : Tree → Nat | .node _ s _ _ _ => s
def Tree.align : Tree → Nat | .node _ _ a _ _ => a
def Tree.isPad : Tree → Bool | .node _ _ _ p _ => p
def Tree.kids : Tree → List Tree | .node _ _ _ _ k => k

structure Row where
  depth : Nat
  off : Nat
  size : Nat
  align : Nat
  deriving Repr, DecidableEq

mutual
/-- pre-order traversal: the rows of the recorded schema -/
def Tree.rows : Tree → Nat → List Row
  | .node o s a p kids, d => ⟨if p then 0 else d, o, s, a⟩ :: Tree.rowsList kids (d + 1)
def Tree.rowsList : List Tree → Nat → List Row
  | [], _ => []
  | t :: ts, d => t.rows d ++ Tree.rowsList ts d
end

/-- `SchemaWriter::align` for unit `u` at position `pos`. -/
def padTrees (pos u : Nat) : List Tree :=
  if pad pos u != 0 then [.node pos (pad pos u) 1 true []] else []

/-- `align` + `write_bytes` of `size` bytes with unit `u`. -/
def zeroTrees (pos size u : Nat) : List Tree :=
  padTrees pos u ++ [.node (pos + pad pos u) size u false []]

mutual
/-- Nodes recorded while `_serialize_inner` runs for `v : T` at position `pos` (siblings). -/
def Ty.trees : Ty → Val → Nat → List Tree
  | .string, .str b, pos => .node pos 8 0 false [] :: zeroTrees (pos + 8) b.length 1
  | .boxStr, .str b, pos => .node pos 8 0 false [] :: zeroTrees (pos + 8) b.length 1
  | .vec t, .seq vs, pos => Ty.treesSeq t vs pos
  | .boxSlice t, .seq vs, pos => Ty.treesSeq t vs pos
  | .sliceRef t, .seq vs, pos => Ty.treesSeq t vs pos
  | .array t _, .seq vs, pos =>
      if t.isZC then zeroTrees pos (Ty.toMemList t vs).length t.maxSizeOf
      else Ty.treesList t vs pos
  | .tuple t _, .seq vs, pos => zeroTrees pos (Ty.toMemList t vs).length t.maxSizeOf
  | .option _, .variant 0 [], pos => [.node pos 1 0 false []]
  | .option t, .variant 1 [v], pos => [.node pos 1 0 false [], Ty.treeW t v (pos + 1)]
  | .bound _, .variant 0 [], pos => [.node pos 1 0 false []]
  | .bound t, .variant 1 [v], pos => [.node pos 1 0 false [], Ty.treeW t v (pos + 1)]
  | .bound t, .variant 2 [v], pos => [.node pos 1 0 false [], Ty.treeW t v (pos + 1)]
  | .controlFlow b _, .variant 0 [v], pos => [.node pos 1 0 false [], Ty.treeW b v (pos + 1)]
  | .controlFlow _ c, .variant 1 [v], pos => [.node pos 1 0 false [], Ty.treeW c v (pos + 1)]
  | .range .range t, .record [a, b], pos =>
      [Ty.treeW t a pos, Ty.treeW t b (pos + (t.enc a pos).length)]
  | .range .incl t, .record [a, b], pos =>
      let p2 := pos + (t.enc a pos).length
      let p3 := p2 + (t.enc b p2).length
      [Ty.treeW t a pos, Ty.treeW t b p2, .node p3 1 0 false []]
  | .range .from t, .record [a], pos => [Ty.treeW t a pos]
  | .range .to t, .record [a], pos => [Ty.treeW t a pos]
  | .range .toIncl t, .record [a], pos => [Ty.treeW t a pos]
  | .adt m vs, .record fs, pos =>
      if m.zero then zeroTrees pos (Ty.toMem (.adt m vs) (.record fs)).length (Ty.maxSizeOf (.adt m vs))
      else match vs with
        | .cons _ fds .nil => Fields.trees fds fs pos
        | _ => []
  | .adt m vs, .variant i fs, pos =>
      if m.zero then zeroTrees pos (Ty.toMem (.adt m vs) (.variant i fs)).length (Ty.maxSizeOf (.adt m vs))
      else .node pos 8 0 false [] :: Variants.trees vs i fs (pos + 8)
  | _, _, _ => []
/-- `backend.write(name, v)`: the node of the field, whose children are what the value records. -/
def Ty.treeW : Ty → Val → Nat → Tree
  | t, v, pos => .node pos (t.enc v pos).length 0 false (t.trees v pos)
def Ty.treesSeq : Ty → List Val → Nat → List Tree
  | t, vs, pos =>
      if t.isZC then .node pos 8 0 false [] :: zeroTrees (pos + 8) (Ty.toMemList t vs).length t.maxSizeOf
      else .node pos 8 0 false [] :: Ty.treesList t vs (pos + 8)
def Ty.treesList : Ty → List Val → Nat → List Tree
  | _, [], _ => []
  | t, v :: vs, pos => Ty.treeW t v pos :: Ty.treesList t vs (pos + (t.enc v pos).length)
def Fields.trees : Fields → List Val → Nat → List Tree
  | .cons _ _ t r, v :: vs, pos => Ty.treeW t v pos :: r.trees vs (pos + (t.enc v pos).length)
  | _, _, _ => []
def Variants.trees : Variants → Nat → List Val → Nat → List Tree
  | .nil, _, _, _ => []
  | .cons _ fs _, 0, vals, pos => fs.trees vals pos
  | .cons _ _ r, i+1, vals, pos => r.trees i vals pos
end

/-- The header fields (each a leaf `write`, the type name a string) and `ROOT`. -/
def Ty.schemaTrees (t : Ty) (name : B) (v : Val) : List Tree :=
  let hl := 37 + name.length
  [.node 0 8 0 false [], .node 8 2 0 false [], .node 10 2 0 false [], .node 12 1 0 false [],
   .node 13 8 0 false [], .node 21 8 0 false [],
   .node 29 (8 + name.length) 0 false [.node 29 8 0 false [], .node 37 name.length 1 false []],
   Ty.treeW t v hl]

/-- The same when `k` bytes have been written before (`serialize_on_field_write` on a writer at position `k`). -/
def Ty.schemaTreesAt (t : Ty) (name : B) (v : Val) (k : Nat) : List Tree :=
  let hl := 37 + name.length
  [.node k 8 0 false [], .node (k + 8) 2 0 false [], .node (k + 10) 2 0 false [], .node (k + 12) 1 0 false [],
   .node (k + 13) 8 0 false [], .node (k + 21) 8 0 false [],
   .node (k + 29) (8 + name.length) 0 false [.node (k + 29) 8 0 false [], .node (k + 37) name.length 1 false []],
   Ty.treeW t v (k + hl)]

theorem Ty.schemaTreesAt_zero (t : Ty) (name : B) (v : Val) : t.schemaTreesAt name v 0 = t.schemaTrees name v := by
  simp [Ty.schemaTreesAt, Ty.schemaTrees]

/-- The recorded schema: pre-order traversal, top-level fields at depth 1. -/
def Ty.schema (t : Ty) (name : B) (v : Val) : List Row := Tree.rowsList (t.schemaTrees name v) 1

end Eps
