/-
  C14 — Reader fragmentation does not change the value; reader failure is an error.

  The full-copy reader touches its source only through `read_exact`; `read_exact` is the standard
  loop over a raw device. `readExact_chunk_invariant` shows that loop delivers exactly what a
  single read of the flat bytes delivers, for every fragmentation / interruption schedule, so the
  model's reader over flat bytes is the reader over any fragmenting source. A source that fails at
  position `k` delivers exactly the first `k` bytes, i.e. it is the truncated stream of C11.
-/
import EpsModel.IO
import EpsModel.Props.C11
namespace Eps.C14
open Eps Eps.IO

/-- A schedule that makes progress: short reads of at least one byte and interruptions, in any
    order (one byte at a time, prime sizes, random sizes, interleaved `Interrupted`, …). -/
def Progress (rs : List Resp) : Prop := ∀ r ∈ rs, r = .interrupted ∨ ∃ m, r = .take (m + 1)

theorem Progress.tail {r : Resp} {rs : List Resp} (h : Progress (r :: rs)) : Progress rs :=
  fun x hx => h x (List.mem_cons_of_mem _ hx)

/-- **Chunking invariance of `read_exact`**: under every progressing schedule it returns the next
    `n` bytes and leaves the rest, exactly like one read of the flat bytes, when `n` bytes are
    available; and fails when they are not. -/
theorem readExact_chunk_invariant : ∀ (rs : List Resp) (data : B) (n : Nat), Progress rs →
    (n ≤ data.length →
      (readExactSched rs data n).1 = data.take n ∧ (readExactSched rs data n).2.1 = data.drop n ∧
      (readExactSched rs data n).2.2.2 = true) ∧
    (data.length < n → (readExactSched rs data n).2.2.2 = false)
  | rs, data, 0, _ => by simp [readExactSched]
  | [], data, n+1, _ => by
      rw [readExactSched]
      constructor
      · intro h; simp [h]
      · intro h
        have : ¬ (n + 1 ≤ data.length) := by omega
        simp [this]
  | .interrupted :: rs, data, n+1, hp => by
      rw [readExactSched]; exact readExact_chunk_invariant rs data (n+1) hp.tail
  | .fail :: rs, data, n+1, hp => by
      have := hp .fail (by simp); simp at this
  | .take 0 :: rs, data, n+1, hp => by
      have := hp (.take 0) (by simp); simp at this
  | .take (m+1) :: rs, [], n+1, _ => by
      rw [readExactSched]; simp
  | .take (m+1) :: rs, d :: ds, n+1, hp => by
      rw [readExactSched]
      have ih := readExact_chunk_invariant rs ((d :: ds).drop (min (min (m + 1) (n + 1)) (d :: ds).length))
        (n + 1 - min (min (m + 1) (n + 1)) (d :: ds).length) hp.tail
      simp only []
      generalize hk : min (min (m + 1) (n + 1)) (d :: ds).length = k at ih ⊢
      have hk1 : k ≤ n + 1 := by omega
      have hk2 : k ≤ (d :: ds).length := by omega
      constructor
      · intro hle
        have hl : ((d :: ds).drop k).length = (d :: ds).length - k := List.length_drop
        have h' : n + 1 - k ≤ ((d :: ds).drop k).length := by rw [hl]; omega
        obtain ⟨e1, e2, e3⟩ := ih.1 h'
        refine ⟨?_, ?_, e3⟩
        · rw [e1, List.take_drop]
          have : k + (n + 1 - k) = n + 1 := by omega
          rw [this]
          -- take k l ++ (drop k (take (n+1) l)) = take (n+1) l
          have h2 : List.take k (d :: ds) = List.take k (List.take (n + 1) (d :: ds)) := by
            rw [List.take_take]; congr 1; omega
          rw [h2]
          exact List.take_append_drop k _
        · rw [e2, List.drop_drop]; congr 1; omega
      · intro hlt
        have hl : ((d :: ds).drop k).length = (d :: ds).length - k := List.length_drop
        have h' : ((d :: ds).drop k).length < n + 1 - k := by rw [hl]; omega
        exact ih.2 h'
termination_by rs _ n => rs.length + n
decreasing_by all_goals simp_wf <;> omega

/-- the bytes a source delivers before failing at position `k` -/
theorem take_spre (s : B) (k : Nat) (h : k < s.length) : SPre (s.take k) s :=
  ⟨s.drop k, by
    intro hnil
    have : (s.drop k).length = 0 := by rw [hnil]; rfl
    simp at this; omega, (List.take_append_drop k s).symm⟩

/-- **Reader failure**: a source failing (or ending) at any position `k` before the end of a
    serialized stream makes `deserialize_full` return a read error — never a value, never a panic. -/
theorem rfail_result (H : B → Nat) (hH : ∀ b, H b < 2^64) (T : Ty) (name : B) (v : Val) (k : Nat)
    (hT : T.wf = true) (hv : T.wt v = true) (hname : validUtf8 name = true) (hlen : name.length < 2^63)
    (hk : k < (T.ser H name v).length) :
    T.deFull H ((T.ser H name v).take k) = .err .readError :=
  C11.prefix_full H hH T name v _ hT hv hname hlen (take_spre _ k hk)

/-- **Fragmentation**: whatever the fragmentation, the value is the one of the flat stream (C01). -/
theorem chunk_value (H : B → Nat) (hH : ∀ b, H b < 2^64) (T : Ty) (name : B) (v : Val)
    (hT : T.wf = true) (hv : T.wt v = true) (hname : validUtf8 name = true) (hlen : name.length < 2^63) :
    T.deFull H (T.ser H name v) = .ok (v, (T.ser H name v).length) := by
  have := Ty.deFull_ser_append H hH T name v [] hT hv hname hlen
  simpa using this

/-- Non-vacuity: one byte at a time with interruptions is a progressing schedule. -/
example : Progress [.take 1, .interrupted, .take 1, .take 3] := by
  intro r hr; simp at hr; rcases hr with rfl | rfl | rfl | rfl <;> simp

example : (readExactSched [.take 1, .interrupted, .take 1, .take 3] [1, 2, 3, 4, 5] 4).1 = [1, 2, 3, 4] := by
  simp [readExactSched]

end Eps.C14
