/-
  C07 — Zero-copy blocks are padded to their alignment unit; byte counts are exact.
-/
import EpsModel.Lemmas.BlocksL
import EpsModel.Lemmas.HeaderL
import EpsModel.Lemmas.TopLevel
namespace Eps.C07
open Eps

/-! ### The padding formula, for all (offset, power-of-two unit) pairs -/

/-- `pad` is literally the crate's formula `value.wrapping_neg() & (align_to - 1)` on 64-bit words. -/
theorem pad_is_bit_formula (pos u : Nat) (hu : 0 < u) (hu2 : u < 2^64) :
    ((-(BitVec.ofNat 64 pos)) &&& (BitVec.ofNat 64 u - 1#64)).toNat = pad pos u := by
  unfold pad
  rw [BitVec.toNat_and, BitVec.toNat_neg, BitVec.toNat_sub]
  simp only [BitVec.toNat_ofNat]
  have h1 : (2 ^ 64 - 1 % 2 ^ 64 + u % 2 ^ 64) % 2 ^ 64 = u - 1 := by
    rw [Nat.mod_eq_of_lt hu2]
    have : 2 ^ 64 - 1 % 2 ^ 64 + u = 2 ^ 64 + (u - 1) := by omega
    rw [this, Nat.add_mod_left, Nat.mod_eq_of_lt (by omega)]
  rw [h1]

/-- For every offset and every power-of-two unit (up to 2^63): the padded offset is a multiple of the
    unit, the gap is smaller than the unit, and no smaller gap reaches a multiple. -/
theorem pad_spec (pos k : Nat) (hk : k ≤ 63) :
    (pos + pad pos (2^k)) % 2^k = 0 ∧ pad pos (2^k) < 2^k ∧
    ∀ g, (pos + g) % 2^k = 0 → pad pos (2^k) ≤ g := by
  rw [pad_eq_padNat pos k (by omega)]
  have hp := Nat.two_pow_pos k
  exact ⟨padNat_spec hp, padNat_lt hp, fun g hg => padNat_min hp hg⟩

/-! ### Units -/

/-- The alignment unit of every zero-copy type of the well-formed universe is a power of two, no
    smaller than the native alignment (which is a power of two as well). -/
theorem unit_pow2 (T : Ty) (hz : T.isZC = true) (hw : T.wf = true) :
    (∃ k, k ≤ 63 ∧ T.maxSizeOf = 2^k) ∧ T.alignOf ≤ T.maxSizeOf :=
  ⟨(Ty.units T hz hw).2.1, (Ty.units T hz hw).2.2⟩

/-- … and no smaller than the unit of any field (structures), resp. equal to the unit of the
    element (arrays, tuples). -/
theorem unit_ge_field (m : AdtMeta) (vn : B) (fds : Fields) (n : B) (e : Bool) (t : Ty)
    (h : Fields.mem n e t fds) : t.maxSizeOf ≤ (Ty.adt m (.cons vn fds .nil)).maxSizeOf := by
  have := Fields.unit_le fds n e t h
  simp only [Ty.maxSizeOf, Variants.maxUnit]; omega
theorem unit_array (t : Ty) (n : Nat) : (Ty.array t n).maxSizeOf = t.maxSizeOf := rfl
theorem unit_tuple (t : Ty) (n : Nat) : (Ty.tuple t n).maxSizeOf = t.maxSizeOf := rfl

/-! ### Blocks -/

/-- In every serialized body, wherever it starts, each block of zero-copy data (strings included)
    starts at a stream offset that is a multiple of its unit. -/
theorem blocks_aligned (T : Ty) (hw : T.wf = true) (v : Val) (pos : Nat) :
    ∀ b ∈ T.blocks v pos, b.off % b.unit = 0 :=
  Ty.blocks_ok T hw v pos

/-- What the writer emits for a zero-copy structure / tuple / array and for a sequence of zero-copy
    elements: the length (sequences), then exactly `pad` zero bytes, then the memory of the data. With
    `pad_spec`: the gap consists of zero bytes only and is the smallest that reaches a multiple. -/
theorem zero_block_shape_struct (m : AdtMeta) (vs : Variants) (fs : List Val) (pos : Nat) (h : m.zero = true) :
    (Ty.adt m vs).enc (.record fs) pos
      = zeros (pad pos (Ty.adt m vs).maxSizeOf) ++ (Ty.adt m vs).toMem (.record fs) :=
  Ty.enc_adt_zero m vs fs pos h
theorem zero_block_shape_tuple (t : Ty) (n : Nat) (vs : List Val) (pos : Nat) :
    (Ty.tuple t n).enc (.seq vs) pos = zeros (pad pos t.maxSizeOf) ++ Ty.toMemList t vs := by
  simp [Ty.enc]
theorem zero_block_shape_array (t : Ty) (n : Nat) (vs : List Val) (pos : Nat) (h : t.isZC = true) :
    (Ty.array t n).enc (.seq vs) pos = zeros (pad pos t.maxSizeOf) ++ Ty.toMemList t vs := by
  simp [Ty.enc, h]
theorem zero_block_shape_vec (t : Ty) (vs : List Val) (pos : Nat) (h : t.isZC = true) :
    (Ty.vec t).enc (.seq vs) pos
      = leBytes 8 vs.length ++ zeros (pad (pos + 8) t.maxSizeOf) ++ Ty.toMemList t vs := by
  simp [Ty.enc, Ty.encSeq, h]

/-! ### Byte counts -/

/-- The count returned by `serialize` is the number of bytes handed to the writer (in the model:
    the length of the stream), and the full-copy deserializer consumes exactly that many bytes.
    (The ε-copy counterpart is `C02.deEps_ser`.) -/
theorem count_exact_full (H : B → Nat) (hH : ∀ b, H b < 2^64) (T : Ty) (name : B) (v : Val)
    (hT : T.wf = true) (hv : T.wt v = true) (hname : validUtf8 name = true) (hlen : name.length < 2^63) :
    ∃ x, T.deFull H (T.ser H name v) = .ok (x, (T.ser H name v).length) := by
  refine ⟨v, ?_⟩
  unfold Ty.deFull Ty.ser Ty.header
  simp only []
  have h1 : T.typeHash H < 2^64 := hH _
  have h2 : T.alignHash H < 2^64 := hH _
  rw [checkHeader_wHeader _ _ name _ h1 h2 hname hlen]
  simp only [Res.bind_ok]
  have := Ty.framedFull .reader T hT v hv (wHeader (T.typeHash H) (T.alignHash H) name).length [] (AlignedAll_reader _)
  simp only [List.append_nil] at this
  rw [this]; simp

/-- The ε-copy deserializer likewise consumes exactly the bytes written, from any buffer whose base
    address is a multiple of the unit of every block of the stream. -/
theorem count_exact_eps (H : B → Nat) (hH : ∀ b, H b < 2^64) (T : Ty) (name : B) (v : Val) (base : Nat)
    (hT : T.wf = true) (hv : T.wt v = true) (hname : validUtf8 name = true) (hlen : name.length < 2^63)
    (hb : ∀ b ∈ T.blocks v (T.header H name).length, base % b.unit = 0) :
    ∃ e, T.deEps H base (T.ser H name v) = .ok (e, (T.ser H name v).length) := by
  obtain ⟨e, he, _, _⟩ := Ty.deEps_ser_append H hH T name v base [] hT hv hname hlen (aligned_of_base base T hT v _ hb)
  simp only [List.append_nil] at he
  exact ⟨e, he⟩

/-! Non-vacuity -/
example : (Ty.vec (.prim (.int .u64))).wf = true := by simp [Ty.wf, Ty.isZC]
example : pad 37 8 = 3 ∧ pad 40 8 = 0 ∧ pad 41 16 = 7 := by decide

end Eps.C07
