import EpsModel.Header
namespace Eps.C07
theorem placeholder : (1 : Nat) = 1 := rfl
end Eps.C07
