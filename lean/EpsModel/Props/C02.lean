import EpsModel.Header
namespace Eps.C02
theorem placeholder : (1 : Nat) = 1 := rfl
end Eps.C02
