/-
  C02 — ε-copy round trip equals the original and agrees with full copy.
-/
import EpsModel.Lemmas.TopLevel
namespace Eps.C02
open Eps

/-- Body level: wherever the value was serialized, if the buffer is placed so that every
    zero-copy block is on a multiple of its unit, the ε-copy reader returns a result that describes
    exactly the value written (`erase` forgets only where the data lives), leaves the rest of the
    buffer alone, consumes exactly the bytes written, and borrows only at blocks of the writer. -/
theorem decEps_enc (base : Nat) (T : Ty) (v : Val) (hT : T.wf = true) (hv : T.wt v = true)
    (pos : Nat) (rest : B) (ha : AlignedAll (.slice base) (T.blocks v pos)) :
    ∃ e, T.decEps base (T.enc v pos ++ rest) pos = .ok (e, rest, pos + (T.enc v pos).length)
      ∧ e.erase = v ∧ ∀ b ∈ e.borrows, b.toBlock ∈ T.blocks v pos :=
  Ty.framedEps base T hT v hv pos rest ha

/-- A base address that is a multiple of the unit of every block aligns every block (blocks start
    at multiples of their units in the stream, `C07.blocks_aligned`) — in particular any multiple of
    the largest unit, units being powers of two (`C07.unit_pow2`). -/
theorem aligned_of_base_multiple (base : Nat) (T : Ty) (hT : T.wf = true) (v : Val) (pos : Nat)
    (hb : ∀ b ∈ T.blocks v pos, base % b.unit = 0) : AlignedAll (.slice base) (T.blocks v pos) :=
  aligned_of_base base T hT v pos hb

/-- `deserialize_eps(serialize(v))` from a suitably aligned buffer: a result describing `v`, all
    bytes consumed — every well-formed type, value, name, digest function. -/
theorem deEps_ser (H : B → Nat) (hH : ∀ b, H b < 2^64) (T : Ty) (name : B) (v : Val) (base : Nat)
    (hT : T.wf = true) (hv : T.wt v = true) (hname : validUtf8 name = true) (hlen : name.length < 2^63)
    (hb : ∀ b ∈ T.blocks v (T.header H name).length, base % b.unit = 0) :
    ∃ e, T.deEps H base (T.ser H name v) = .ok (e, (T.ser H name v).length) ∧ e.erase = v := by
  obtain ⟨e, he, her, _⟩ := Ty.deEps_ser_append H hH T name v base [] hT hv hname hlen (aligned_of_base base T hT v _ hb)
  simp only [List.append_nil] at he
  exact ⟨e, he, her⟩

/-- On the serialized stream both modes describe the same value and consume the same bytes. -/
theorem eps_full_agree_on_ser (H : B → Nat) (hH : ∀ b, H b < 2^64) (T : Ty) (name : B) (v : Val) (base : Nat)
    (hT : T.wf = true) (hv : T.wt v = true) (hname : validUtf8 name = true) (hlen : name.length < 2^63)
    (hb : ∀ b ∈ T.blocks v (T.header H name).length, base % b.unit = 0) :
    ∃ e n, T.deEps H base (T.ser H name v) = .ok (e, n) ∧ T.deFull H (T.ser H name v) = .ok (e.erase, n) := by
  obtain ⟨e, he, her⟩ := deEps_ser H hH T name v base hT hv hname hlen hb
  have hf := Ty.deFull_ser_append H hH T name v [] hT hv hname hlen
  simp only [List.append_nil] at hf
  exact ⟨e, _, he, by rw [her]; exact hf⟩

/-! Non-vacuity: a buffer at address 0 mod 8 aligns `Vec<u64>` wherever the body starts. -/
example (pos : Nat) (vs : List Val) (base : Nat) (h : base % 8 = 0) :
    ∀ b ∈ (Ty.vec (.prim (.int .u64))).blocks (.seq vs) pos, base % b.unit = 0 := by
  intro b hb
  simp [Ty.blocks, Ty.blocksSeq, Ty.isZC, Ty.maxSizeOf, Prim.size, IntK.size] at hb
  subst hb; simpa using h

end Eps.C02
