/-
  C02 — ε-copy round trip equals the original and agrees with full copy.
-/
import EpsModel.Lemmas.TopLevel
import EpsModel.Lemmas.Agree
namespace Eps.C02
open Eps

/-- Body level: wherever the value was serialized, if the buffer is placed so that every
    zero-copy block is on a multiple of its unit, the ε-copy reader returns a result that describes
    exactly the value written (`erase` forgets only where the data lives), leaves the rest of the
    buffer alone, consumes exactly the bytes written, and borrows only at blocks of the writer. -/
theorem decEps_enc (base : Nat) (T : Ty) (v : Val) (hT : T.wf = true) (hv : T.wt v = true)
    (pos : Nat) (rest : B) (ha : AlignedAll (.slice base) (T.blocks v pos)) :
    ∃ e, T.decEps base (T.enc v pos ++ rest) pos = .ok (e, rest, pos + (T.enc v pos).length)
      ∧ e.erase = v ∧ ∀ b ∈ e.borrows, b.toBlock ∈ T.blocks v pos :=
  Ty.framedEps base T hT v hv pos rest ha

/-- A base address that is a multiple of the unit of every block aligns every block (blocks start
    at multiples of their units in the stream, `C07.blocks_aligned`) — in particular any multiple of
    the largest unit, units being powers of two (`C07.unit_pow2`). -/
theorem aligned_of_base_multiple (base : Nat) (T : Ty) (hT : T.wf = true) (v : Val) (pos : Nat)
    (hb : ∀ b ∈ T.blocks v pos, base % b.unit = 0) : AlignedAll (.slice base) (T.blocks v pos) :=
  aligned_of_base base T hT v pos hb

/-- `deserialize_eps(serialize(v))` from a suitably aligned buffer: a result describing `v`, all
    bytes consumed — every well-formed type, value, name, digest function. -/
theorem deEps_ser (H : B → Nat) (hH : ∀ b, H b < 2^64) (T : Ty) (name : B) (v : Val) (base : Nat)
    (hT : T.wf = true) (hv : T.wt v = true) (hname : validUtf8 name = true) (hlen : name.length < 2^63)
    (hb : ∀ b ∈ T.blocks v (T.header H name).length, base % b.unit = 0) :
    ∃ e, T.deEps H base (T.ser H name v) = .ok (e, (T.ser H name v).length) ∧ e.erase = v := by
  obtain ⟨e, he, her, _⟩ := Ty.deEps_ser_append H hH T name v base [] hT hv hname hlen (aligned_of_base base T hT v _ hb)
  simp only [List.append_nil] at he
  exact ⟨e, he, her⟩

/-- On the serialized stream both modes describe the same value and consume the same bytes. -/
theorem eps_full_agree_on_ser (H : B → Nat) (hH : ∀ b, H b < 2^64) (T : Ty) (name : B) (v : Val) (base : Nat)
    (hT : T.wf = true) (hv : T.wt v = true) (hname : validUtf8 name = true) (hlen : name.length < 2^63)
    (hb : ∀ b ∈ T.blocks v (T.header H name).length, base % b.unit = 0) :
    ∃ e n, T.deEps H base (T.ser H name v) = .ok (e, n) ∧ T.deFull H (T.ser H name v) = .ok (e.erase, n) := by
  obtain ⟨e, he, her⟩ := deEps_ser H hH T name v base hT hv hname hlen hb
  have hf := Ty.deFull_ser_append H hH T name v [] hT hv hname hlen
  simp only [List.append_nil] at hf
  exact ⟨e, _, he, by rw [her]; exact hf⟩

/-! ### Agreement of the two modes on arbitrary bytes -/

/-- Body level, **any bytes** (not only serialized streams), any type, any base address: whenever
    the ε-copy reader returns a result whose borrowed strings hold valid UTF-8, the full-copy reader
    returns the value that result describes, leaves the same rest and reaches the same position.
    (`d.length ≤ isize::MAX` holds of every Rust slice.) -/
theorem eps_full_agree_any_bytes (base : Nat) (T : Ty) (d : B) (pos : Nat) (e : EVal) (d' : B) (p' : Nat)
    (hd : d.length ≤ isizeMax) (h : T.decEps base d pos = .ok (e, d', p')) (hs : e.strsValid) :
    T.decFull .reader d pos = .ok (e.erase, d', p') :=
  (Ty.eps_full base T d pos e d' p' hd h hs).1

/-- The same for the entry points, header check included. -/
theorem deEps_deFull_agree_any_bytes (H : B → Nat) (T : Ty) (base : Nat) (s : B) (e : EVal) (n : Nat)
    (hd : s.length ≤ isizeMax) (h : T.deEps H base s = .ok (e, n)) (hs : e.strsValid) :
    T.deFull H s = .ok (e.erase, n) := by
  simp only [Ty.deEps] at h
  obtain ⟨⟨_, d1, p1⟩, h1, h2⟩ := Res.bind_eq_ok h
  obtain ⟨⟨e', d2, p2⟩, h3, h4⟩ := Res.bind_eq_ok h2
  simp at h4; obtain ⟨rfl, rfl⟩ := h4
  have hl := Shr.checkHeader _ _ s 0 _ _ _ h1
  have := (Ty.eps_full base T d1 p1 e' d2 p2 (by omega) h3 hs).1
  simp only [Ty.deFull, h1, Res.bind_ok, this]

/-- The fields that the derived ε-copy code reads with the full-copy methods (on the slice) get the
    value the plain full-copy reader gets: the slice reader only adds failure cases. -/
theorem full_on_slice_agrees (base : Nat) (T : Ty) (d : B) (pos : Nat) (x : Val × B × Nat)
    (h : T.decFull (.slice base) d pos = .ok x) : T.decFull .reader d pos = .ok x :=
  Ty.decFull_mode base T d pos x h

/-- The UTF-8 hypothesis cannot be dropped: the ε-copy reader borrows a string without validating it
    (it transmutes the bytes), the full-copy reader panics on the same bytes. Length 1, byte 0xff. -/
theorem eps_accepts_invalid_utf8 :
    ∃ e, Ty.string.decEps 0 [1, 0, 0, 0, 0, 0, 0, 0, 0xff] 0 = .ok (e, [], 9) ∧
      Ty.string.decFull .reader [1, 0, 0, 0, 0, 0, 0, 0, 0xff] 0 = .panic := by
  refine ⟨.bStr 8 [0xff], ?_, ?_⟩
  · simp [Ty.decEps, decEpsSliceZero, readWord, readExact, leVal, Ty.sizeOf, Prim.size, IntK.size, alignRead, takeOrPanic, pad,
      Ty.maxSizeOf, Ty.fromMemList]
  · simp [Ty.decFull, decFullStr, readWord, readExact, leVal, isizeMax, validUtf8]

/-! Non-vacuity: a buffer at address 0 mod 8 aligns `Vec<u64>` wherever the body starts. -/
example (pos : Nat) (vs : List Val) (base : Nat) (h : base % 8 = 0) :
    ∀ b ∈ (Ty.vec (.prim (.int .u64))).blocks (.seq vs) pos, base % b.unit = 0 := by
  intro b hb
  simp [Ty.blocks, Ty.blocksSeq, Ty.isZC, Ty.maxSizeOf, Prim.size, IntK.size] at hb
  subst hb; simpa using h

end Eps.C02
