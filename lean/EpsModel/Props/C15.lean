/-
  C15 — Variant tags map back to the variant written; foreign tags are rejected.
-/
import EpsModel.Lemmas.HeaderL
import EpsModel.Lemmas.FrameEps2
import EpsModel.Lemmas.ManyErr
namespace Eps.C15
open Eps

/-! ### Written tags map back (round trip of every variant, full-copy reader; the ε-copy
    counterpart is `C02.decEps_enc`, which covers every sum type as well) -/

/-- Every variant of every sum type (options, bounds, control-flow, derived enums of any arity),
    with any payload, is read back as the same variant with the same payload. -/
theorem tag_roundtrip (T : Ty) (i : Nat) (fs : List Val) (hT : T.wf = true) (hv : T.wt (.variant i fs) = true)
    (pos : Nat) (rest : B) :
    T.decFull .reader (T.enc (.variant i fs) pos ++ rest) pos
      = .ok (.variant i fs, rest, pos + (T.enc (.variant i fs) pos).length) :=
  Ty.framedFull .reader T hT _ hv pos rest (AlignedAll_reader _)

/-! ### Foreign one-byte tags (all 256 byte values are covered: `g` is any byte) -/

theorem option_foreign_full (m : Mode) (t : Ty) (g : UInt8) (hg : 2 ≤ g.toNat) (rest : B) (pos : Nat) :
    (Ty.option t).decFull m (g :: rest) pos = .err (.invalidTag g.toNat) := by
  simp only [Ty.decFull]
  rw [readWord_byte]
  simp only [Res.bind_ok]
  obtain ⟨k, hk⟩ : ∃ k, g.toNat = k + 2 := ⟨g.toNat - 2, by omega⟩
  rw [hk]; rfl

theorem option_foreign_eps (base : Nat) (t : Ty) (g : UInt8) (hg : 2 ≤ g.toNat) (rest : B) (pos : Nat) :
    (Ty.option t).decEps base (g :: rest) pos = .err (.invalidTag g.toNat) := by
  simp only [Ty.decEps]
  rw [readWord_byte]
  simp only [Res.bind_ok]
  obtain ⟨k, hk⟩ : ∃ k, g.toNat = k + 2 := ⟨g.toNat - 2, by omega⟩
  rw [hk]; rfl

theorem bound_foreign_full (m : Mode) (t : Ty) (g : UInt8) (hg : 3 ≤ g.toNat) (rest : B) (pos : Nat) :
    (Ty.bound t).decFull m (g :: rest) pos = .err (.invalidTag g.toNat) := by
  simp only [Ty.decFull]
  rw [readWord_byte]
  simp only [Res.bind_ok]
  obtain ⟨k, hk⟩ : ∃ k, g.toNat = k + 3 := ⟨g.toNat - 3, by omega⟩
  rw [hk]; rfl

theorem bound_foreign_eps (base : Nat) (t : Ty) (g : UInt8) (hg : 3 ≤ g.toNat) (rest : B) (pos : Nat) :
    (Ty.bound t).decEps base (g :: rest) pos = .err (.invalidTag g.toNat) := by
  simp only [Ty.decEps]
  rw [readWord_byte]
  simp only [Res.bind_ok]
  obtain ⟨k, hk⟩ : ∃ k, g.toNat = k + 3 := ⟨g.toNat - 3, by omega⟩
  rw [hk]; rfl

theorem controlFlow_foreign_full (m : Mode) (b c : Ty) (g : UInt8) (hg : 2 ≤ g.toNat) (rest : B) (pos : Nat) :
    (Ty.controlFlow b c).decFull m (g :: rest) pos = .err (.invalidTag g.toNat) := by
  simp only [Ty.decFull]
  rw [readWord_byte]
  simp only [Res.bind_ok]
  obtain ⟨k, hk⟩ : ∃ k, g.toNat = k + 2 := ⟨g.toNat - 2, by omega⟩
  rw [hk]; rfl

theorem controlFlow_foreign_eps (base : Nat) (b c : Ty) (g : UInt8) (hg : 2 ≤ g.toNat) (rest : B) (pos : Nat) :
    (Ty.controlFlow b c).decEps base (g :: rest) pos = .err (.invalidTag g.toNat) := by
  simp only [Ty.decEps]
  rw [readWord_byte]
  simp only [Res.bind_ok]
  obtain ⟨k, hk⟩ : ∃ k, g.toNat = k + 2 := ⟨g.toNat - 2, by omega⟩
  rw [hk]; rfl

/-- The tags the writer emits are exactly the complement of the foreign ones: 0/1 for options,
    0/1/2 for bounds, 0/1 for control-flow (so `w = r⁻¹`: no written tag is foreign, no foreign tag
    is written). -/
theorem written_tags (t b c : Ty) (v : Val) (pos : Nat) :
    (Ty.option t).enc (.variant 0 []) pos = [0] ∧
    ((Ty.option t).enc (.variant 1 [v]) pos).head? = some 1 ∧
    (Ty.bound t).enc (.variant 0 []) pos = [0] ∧
    ((Ty.bound t).enc (.variant 1 [v]) pos).head? = some 1 ∧
    ((Ty.bound t).enc (.variant 2 [v]) pos).head? = some 2 ∧
    ((Ty.controlFlow b c).enc (.variant 0 [v]) pos).head? = some 0 ∧
    ((Ty.controlFlow b c).enc (.variant 1 [v]) pos).head? = some 1 := by
  simp [Ty.enc]

/-! ### Foreign pointer-width tags of derived enums -/

theorem variants_foreign_full (m : Mode) : ∀ (vs : Variants) (orig i : Nat) (d : B) (pos : Nat),
    vs.length ≤ i → vs.decFull m orig i d pos = .err (.invalidTag orig)
  | .nil, _, _, _, _, _ => by simp [Variants.decFull]
  | .cons _ _ r, orig, 0, _, _, h => by simp [Variants.length] at h
  | .cons _ _ r, orig, i+1, d, pos, h => by
      simp only [Variants.length] at h
      simp only [Variants.decFull]
      exact variants_foreign_full m r orig i d pos (by omega)

theorem variants_foreign_eps (base : Nat) : ∀ (vs : Variants) (orig i : Nat) (d : B) (pos : Nat),
    vs.length ≤ i → vs.decEps base orig i d pos = .err (.invalidTag orig)
  | .nil, _, _, _, _, _ => by simp [Variants.decEps]
  | .cons _ _ r, orig, 0, _, _, h => by simp [Variants.length] at h
  | .cons _ _ r, orig, i+1, d, pos, h => by
      simp only [Variants.length] at h
      simp only [Variants.decEps]
      exact variants_foreign_eps base r orig i d pos (by omega)

/-- A derived (deep-copy) enum with `n` variants rejects every tag word `w ≥ n` (any 64-bit
    value) with `InvalidTag(w)`, whatever follows, in full-copy mode … -/
theorem enum_foreign_full (m : Mode) (mt : AdtMeta) (vs : Variants) (w : Nat) (rest : B) (pos : Nat)
    (hz : mt.zero = false) (he : mt.isEnum = true) (hw : w < 2^64) (hf : vs.length ≤ w) :
    (Ty.adt mt vs).decFull m (leBytes 8 w ++ rest) pos = .err (.invalidTag w) := by
  rw [Ty.decFull_adt_enum m mt vs _ pos hz he, readWord_leBytes 8 w rest pos (by omega)]
  simp only [Res.bind_ok]
  exact variants_foreign_full m vs w w rest (pos + 8) hf

theorem Ty.decEps_adt_enum (base : Nat) (m : AdtMeta) (vs : Variants) (d : B) (pos : Nat)
    (h : m.zero = false) (he : m.isEnum = true) :
    Ty.decEps base (.adt m vs) d pos
      = (readWord 8 d pos).bind fun (tag, d, pos) => Variants.decEps base vs tag tag d pos := by
  cases vs with
  | nil => simp [Ty.decEps, h, he]
  | cons n f r => cases r <;> simp [Ty.decEps, h, he]

/-- … and in ε-copy mode. -/
theorem enum_foreign_eps (base : Nat) (mt : AdtMeta) (vs : Variants) (w : Nat) (rest : B) (pos : Nat)
    (hz : mt.zero = false) (he : mt.isEnum = true) (hw : w < 2^64) (hf : vs.length ≤ w) :
    (Ty.adt mt vs).decEps base (leBytes 8 w ++ rest) pos = .err (.invalidTag w) := by
  rw [Ty.decEps_adt_enum base mt vs _ pos hz he, readWord_leBytes 8 w rest pos (by omega)]
  simp only [Res.bind_ok]
  exact variants_foreign_eps base vs w w rest (pos + 8) hf

/-- The enum writer emits the variant index as the tag word, and indices of well-typed values are
    below the number of variants: written tags are never foreign. -/
theorem enum_written_tag (mt : AdtMeta) (vs : Variants) (i : Nat) (fs : List Val) (pos : Nat)
    (hz : mt.zero = false) (hv : (Ty.adt mt vs).wt (.variant i fs) = true) :
    (Ty.adt mt vs).enc (.variant i fs) pos = leBytes 8 i ++ vs.enc i fs (pos + 8) ∧ i < vs.length := by
  refine ⟨Ty.enc_adt_enum mt vs i fs pos hz, ?_⟩
  simp only [Ty.wt, Bool.and_eq_true] at hv
  exact Variants.wt_lt vs i fs hv.2

/-! ### A foreign tag in any item of a sequence of sums (round 10: arrays of sums)

    The loop `for _ in 0..n { res.push(read()?) }` stops at the first item that is refused: a foreign
    tag in an item that is *not the last one* is reported exactly like one in the last item. -/

/-- **Arrays of deep-copy items**: after any number `vs.length < n` of well-formed items, an item that the item
    reader refuses with `e` makes the whole array refused with `e` (full-copy reader). -/
theorem array_item_error_full (t : Ty) (n : Nat) (hz : t.isZC = false) (ht : t.wf = true)
    (vs : List Val) (hwt : ∀ v ∈ vs, t.wt v = true) (hlen : vs.length < n) (pos : Nat) (rest : B) (e : Err)
    (herr : t.decFull .reader rest (pos + (Ty.encList t vs pos).length) = .err e) :
    (Ty.array t n).decFull .reader (Ty.encList t vs pos ++ rest) pos = .err e := by
  have hok := decMany_encList .reader t vs
    (fun v hv pos rest ha => Ty.framedFull .reader t ht v (hwt v hv) pos rest ha) pos rest (AlignedAll_reader _)
  obtain ⟨k, hk⟩ : ∃ k, n = vs.length + (k + 1) := ⟨n - vs.length - 1, by omega⟩
  have := Eps.decMany_err_after (t.decFull .reader) e vs k _ pos _ _ hok herr
  simp only [Ty.decFull, hz, Bool.false_eq_true, if_false]
  rw [hk, this]
  rfl

/-- The same for the ε-copy reader, on a buffer whose base makes the items already read well placed. -/
theorem array_item_error_eps (base : Nat) (t : Ty) (n : Nat) (hz : t.isZC = false) (ht : t.wf = true)
    (vs : List Val) (hwt : ∀ v ∈ vs, t.wt v = true) (hlen : vs.length < n) (pos : Nat) (rest : B) (e : Err)
    (ha : AlignedAll (.slice base) (Ty.blocksList t vs pos))
    (herr : t.decEps base rest (pos + (Ty.encList t vs pos).length) = .err e) :
    (Ty.array t n).decEps base (Ty.encList t vs pos ++ rest) pos = .err e := by
  obtain ⟨es, hok, her, _⟩ := decMany_eps base t vs (fun v hv => Ty.framedEps base t ht v (hwt v hv)) pos rest ha
  have hl : es.length = vs.length := by rw [← Eps.eraseList_length es, her]
  obtain ⟨k, hk⟩ : ∃ k, n = es.length + (k + 1) := ⟨n - vs.length - 1, by omega⟩
  rw [← hl] at hok
  have := Eps.decMany_err_after (t.decEps base) e es k _ pos _ _ hok herr
  simp only [Ty.decEps, hz, Bool.false_eq_true, if_false]
  rw [hk, this]
  rfl

/-- An array of options: a foreign tag byte in item number `vs.length` (any item, not only the last). -/
theorem array_option_foreign_full (t : Ty) (n : Nat) (ht : (Ty.option t).wf = true)
    (vs : List Val) (hwt : ∀ v ∈ vs, (Ty.option t).wt v = true) (hlen : vs.length < n)
    (g : UInt8) (hg : 2 ≤ g.toNat) (pos : Nat) (rest : B) :
    (Ty.array (.option t) n).decFull .reader (Ty.encList (.option t) vs pos ++ g :: rest) pos = .err (.invalidTag g.toNat) :=
  array_item_error_full (.option t) n rfl ht vs hwt hlen pos (g :: rest) _ (option_foreign_full .reader t g hg rest _)

theorem array_option_foreign_eps (base : Nat) (t : Ty) (n : Nat) (ht : (Ty.option t).wf = true)
    (vs : List Val) (hwt : ∀ v ∈ vs, (Ty.option t).wt v = true) (hlen : vs.length < n)
    (g : UInt8) (hg : 2 ≤ g.toNat) (pos : Nat) (rest : B)
    (ha : AlignedAll (.slice base) (Ty.blocksList (.option t) vs pos)) :
    (Ty.array (.option t) n).decEps base (Ty.encList (.option t) vs pos ++ g :: rest) pos = .err (.invalidTag g.toNat) :=
  array_item_error_eps base (.option t) n rfl ht vs hwt hlen pos (g :: rest) _ ha (option_foreign_eps base t g hg rest _)

/-- Non-vacuity: `[Option<u8>; 3]`, two well-formed items (`None`, `Some(7)`), then the tag byte 2. -/
example :
    (Ty.array (.option (.prim (.int .u8))) 3).decFull .reader
      (Ty.encList (.option (.prim (.int .u8))) [.variant 0 [], .variant 1 [.bits 7]] 0 ++ [2, 9]) 0 = .err (.invalidTag 2) :=
  array_option_foreign_full (.prim (.int .u8)) 3 (by decide) [.variant 0 [], .variant 1 [.bits 7]]
    (by intro v hv; simp only [List.mem_cons, List.not_mem_nil, or_false] at hv; rcases hv with rfl | rfl <;> simp [Ty.wt, Prim.wt, IntK.size])
    (by decide) 2 (by decide) 0 [9]

/-- Non-vacuity: a two-variant enum and a foreign tag. -/
example : (Variants.cons [65] .nil (.cons [66] (.cons [48] false (.prim (.int .u8)) .nil) .nil)).length ≤ 2 := by
  simp [Variants.length]

end Eps.C15
