import EpsModel.Header
namespace Eps.C15
theorem placeholder : (1 : Nat) = 1 := rfl
end Eps.C15
