/-
  C15 — Variant tags map back to the variant written; foreign tags are rejected.
-/
import EpsModel.Lemmas.HeaderL
namespace Eps.C15
open Eps

/-! ### Written tags map back (round trip of every variant, full-copy reader; the ε-copy
    counterpart is `C02.decEps_enc`, which covers every sum type as well) -/

/-- Every variant of every sum type (options, bounds, control-flow, derived enums of any arity),
    with any payload, is read back as the same variant with the same payload. -/
theorem tag_roundtrip (T : Ty) (i : Nat) (fs : List Val) (hT : T.wf = true) (hv : T.wt (.variant i fs) = true)
    (pos : Nat) (rest : B) :
    T.decFull .reader (T.enc (.variant i fs) pos ++ rest) pos
      = .ok (.variant i fs, rest, pos + (T.enc (.variant i fs) pos).length) :=
  Ty.framedFull .reader T hT _ hv pos rest (AlignedAll_reader _)

/-! ### Foreign one-byte tags (all 256 byte values are covered: `g` is any byte) -/

theorem option_foreign_full (m : Mode) (t : Ty) (g : UInt8) (hg : 2 ≤ g.toNat) (rest : B) (pos : Nat) :
    (Ty.option t).decFull m (g :: rest) pos = .err (.invalidTag g.toNat) := by
  simp only [Ty.decFull]
  rw [readWord_byte]
  simp only [Res.bind_ok]
  obtain ⟨k, hk⟩ : ∃ k, g.toNat = k + 2 := ⟨g.toNat - 2, by omega⟩
  rw [hk]; rfl

theorem option_foreign_eps (base : Nat) (t : Ty) (g : UInt8) (hg : 2 ≤ g.toNat) (rest : B) (pos : Nat) :
    (Ty.option t).decEps base (g :: rest) pos = .err (.invalidTag g.toNat) := by
  simp only [Ty.decEps]
  rw [readWord_byte]
  simp only [Res.bind_ok]
  obtain ⟨k, hk⟩ : ∃ k, g.toNat = k + 2 := ⟨g.toNat - 2, by omega⟩
  rw [hk]; rfl

theorem bound_foreign_full (m : Mode) (t : Ty) (g : UInt8) (hg : 3 ≤ g.toNat) (rest : B) (pos : Nat) :
    (Ty.bound t).decFull m (g :: rest) pos = .err (.invalidTag g.toNat) := by
  simp only [Ty.decFull]
  rw [readWord_byte]
  simp only [Res.bind_ok]
  obtain ⟨k, hk⟩ : ∃ k, g.toNat = k + 3 := ⟨g.toNat - 3, by omega⟩
  rw [hk]; rfl

theorem bound_foreign_eps (base : Nat) (t : Ty) (g : UInt8) (hg : 3 ≤ g.toNat) (rest : B) (pos : Nat) :
    (Ty.bound t).decEps base (g :: rest) pos = .err (.invalidTag g.toNat) := by
  simp only [Ty.decEps]
  rw [readWord_byte]
  simp only [Res.bind_ok]
  obtain ⟨k, hk⟩ : ∃ k, g.toNat = k + 3 := ⟨g.toNat - 3, by omega⟩
  rw [hk]; rfl

theorem controlFlow_foreign_full (m : Mode) (b c : Ty) (g : UInt8) (hg : 2 ≤ g.toNat) (rest : B) (pos : Nat) :
    (Ty.controlFlow b c).decFull m (g :: rest) pos = .err (.invalidTag g.toNat) := by
  simp only [Ty.decFull]
  rw [readWord_byte]
  simp only [Res.bind_ok]
  obtain ⟨k, hk⟩ : ∃ k, g.toNat = k + 2 := ⟨g.toNat - 2, by omega⟩
  rw [hk]; rfl

theorem controlFlow_foreign_eps (base : Nat) (b c : Ty) (g : UInt8) (hg : 2 ≤ g.toNat) (rest : B) (pos : Nat) :
    (Ty.controlFlow b c).decEps base (g :: rest) pos = .err (.invalidTag g.toNat) := by
  simp only [Ty.decEps]
  rw [readWord_byte]
  simp only [Res.bind_ok]
  obtain ⟨k, hk⟩ : ∃ k, g.toNat = k + 2 := ⟨g.toNat - 2, by omega⟩
  rw [hk]; rfl

/-- The tags the writer emits are exactly the complement of the foreign ones: 0/1 for options,
    0/1/2 for bounds, 0/1 for control-flow (so `w = r⁻¹`: no written tag is foreign, no foreign tag
    is written). -/
theorem written_tags (t b c : Ty) (v : Val) (pos : Nat) :
    (Ty.option t).enc (.variant 0 []) pos = [0] ∧
    ((Ty.option t).enc (.variant 1 [v]) pos).head? = some 1 ∧
    (Ty.bound t).enc (.variant 0 []) pos = [0] ∧
    ((Ty.bound t).enc (.variant 1 [v]) pos).head? = some 1 ∧
    ((Ty.bound t).enc (.variant 2 [v]) pos).head? = some 2 ∧
    ((Ty.controlFlow b c).enc (.variant 0 [v]) pos).head? = some 0 ∧
    ((Ty.controlFlow b c).enc (.variant 1 [v]) pos).head? = some 1 := by
  simp [Ty.enc]

/-! ### Foreign pointer-width tags of derived enums -/

theorem variants_foreign_full (m : Mode) : ∀ (vs : Variants) (orig i : Nat) (d : B) (pos : Nat),
    vs.length ≤ i → vs.decFull m orig i d pos = .err (.invalidTag orig)
  | .nil, _, _, _, _, _ => by simp [Variants.decFull]
  | .cons _ _ r, orig, 0, _, _, h => by simp [Variants.length] at h
  | .cons _ _ r, orig, i+1, d, pos, h => by
      simp only [Variants.length] at h
      simp only [Variants.decFull]
      exact variants_foreign_full m r orig i d pos (by omega)

theorem variants_foreign_eps (base : Nat) : ∀ (vs : Variants) (orig i : Nat) (d : B) (pos : Nat),
    vs.length ≤ i → vs.decEps base orig i d pos = .err (.invalidTag orig)
  | .nil, _, _, _, _, _ => by simp [Variants.decEps]
  | .cons _ _ r, orig, 0, _, _, h => by simp [Variants.length] at h
  | .cons _ _ r, orig, i+1, d, pos, h => by
      simp only [Variants.length] at h
      simp only [Variants.decEps]
      exact variants_foreign_eps base r orig i d pos (by omega)

/-- A derived (deep-copy) enum with `n` variants rejects every tag word `w ≥ n` (any 64-bit
    value) with `InvalidTag(w)`, whatever follows, in full-copy mode … -/
theorem enum_foreign_full (m : Mode) (mt : AdtMeta) (vs : Variants) (w : Nat) (rest : B) (pos : Nat)
    (hz : mt.zero = false) (he : mt.isEnum = true) (hw : w < 2^64) (hf : vs.length ≤ w) :
    (Ty.adt mt vs).decFull m (leBytes 8 w ++ rest) pos = .err (.invalidTag w) := by
  rw [Ty.decFull_adt_enum m mt vs _ pos hz he, readWord_leBytes 8 w rest pos (by omega)]
  simp only [Res.bind_ok]
  exact variants_foreign_full m vs w w rest (pos + 8) hf

theorem Ty.decEps_adt_enum (base : Nat) (m : AdtMeta) (vs : Variants) (d : B) (pos : Nat)
    (h : m.zero = false) (he : m.isEnum = true) :
    Ty.decEps base (.adt m vs) d pos
      = (readWord 8 d pos).bind fun (tag, d, pos) => Variants.decEps base vs tag tag d pos := by
  cases vs with
  | nil => simp [Ty.decEps, h, he]
  | cons n f r => cases r <;> simp [Ty.decEps, h, he]

/-- … and in ε-copy mode. -/
theorem enum_foreign_eps (base : Nat) (mt : AdtMeta) (vs : Variants) (w : Nat) (rest : B) (pos : Nat)
    (hz : mt.zero = false) (he : mt.isEnum = true) (hw : w < 2^64) (hf : vs.length ≤ w) :
    (Ty.adt mt vs).decEps base (leBytes 8 w ++ rest) pos = .err (.invalidTag w) := by
  rw [Ty.decEps_adt_enum base mt vs _ pos hz he, readWord_leBytes 8 w rest pos (by omega)]
  simp only [Res.bind_ok]
  exact variants_foreign_eps base vs w w rest (pos + 8) hf

/-- The enum writer emits the variant index as the tag word, and indices of well-typed values are
    below the number of variants: written tags are never foreign. -/
theorem enum_written_tag (mt : AdtMeta) (vs : Variants) (i : Nat) (fs : List Val) (pos : Nat)
    (hz : mt.zero = false) (hv : (Ty.adt mt vs).wt (.variant i fs) = true) :
    (Ty.adt mt vs).enc (.variant i fs) pos = leBytes 8 i ++ vs.enc i fs (pos + 8) ∧ i < vs.length := by
  refine ⟨Ty.enc_adt_enum mt vs i fs pos hz, ?_⟩
  simp only [Ty.wt, Bool.and_eq_true] at hv
  exact Variants.wt_lt vs i fs hv.2

/-- Non-vacuity: a two-variant enum and a foreign tag. -/
example : (Variants.cons [65] .nil (.cons [66] (.cons [48] false (.prim (.int .u8)) .nil) .nil)).length ≤ 2 := by
  simp [Variants.length]

end Eps.C15
