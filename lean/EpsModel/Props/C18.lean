/-
  C18 — The recorded schema describes exactly the bytes that were written.

  The model of `SchemaWriter` is a forest (`Ty.schemaTrees`); the recorded `Schema` is its
  pre-order traversal (`Ty.schema`, by definition: `write` inserts its row before the rows of what
  it writes). That the recording writer hands the sink the same bytes as the plain writer is
  checked by the correspondence (the `schema` operation compares them); the theorems below are
  about the rows.
-/
import EpsModel.Lemmas.SchemaL2
import EpsModel.Lemmas.SchemaPad
import EpsModel.Lemmas.TopLevel
namespace Eps.C18
open Eps

/-- Rows are in pre-order: the schema is the pre-order traversal of the forest, top level at depth 1. -/
theorem rows_preorder (T : Ty) (name : B) (v : Val) :
    T.schema name v = Tree.rowsList (T.schemaTrees name v) 1 := rfl

theorem ser_length (H : B → Nat) (T : Ty) (name : B) (v : Val) :
    (T.ser H name v).length = 37 + name.length + (T.enc v (37 + name.length)).length := by
  unfold Ty.ser; simp only [List.length_append, Ty.header_length]

/-- the forest of the whole file is well formed -/
theorem schema_forest_ok (T : Ty) (name : B) (v : Val) (hT : T.wf = true) (hv : T.wt v = true) :
    ForestOK (T.schemaTrees name v) 0 (37 + name.length + (T.enc v (37 + name.length)).length) := by
  have hroot := treeW_ok T v (37 + name.length) (Ty.trees_ok T hT v hv _)
  simp only [Ty.treeW, Tree.tiled, Tree.alignedAll, Bool.and_eq_true] at hroot
  obtain ⟨⟨hk, htl⟩, ⟨_, hal⟩⟩ := hroot
  have e1 : 29 + (8 + name.length) = 37 + name.length := by omega
  refine ⟨?_, ?_, ?_⟩
  · simp only [Ty.schemaTrees, Ty.treeW, contig, Tree.off, Tree.size]
    simp [e1]
  · simp only [Ty.schemaTrees, Ty.treeW, Tree.tiledList, Tree.tiled, contig, Tree.off, Tree.size, htl, hk]
    simp
    omega
  · simp only [Ty.schemaTrees, Ty.treeW, Tree.alignedList, Tree.alignedAll, hal]
    simp [Nat.mod_one]

/-- The same in the middle of a stream: when `k` bytes have been written before (`serialize_on_field_write` on a
    position-tracking writer at position `k`, wrapped in a `SchemaWriter`), the rows tile `[k, k + |header| + |body|)`, the
    children of every composite row tile it, and zero-copy rows are aligned — for every `k`. -/
theorem schema_forest_ok_at (T : Ty) (name : B) (v : Val) (k : Nat) (hT : T.wf = true) (hv : T.wt v = true) :
    ForestOK (T.schemaTreesAt name v k) k (37 + name.length + (T.enc v (k + (37 + name.length))).length) := by
  have hroot := treeW_ok T v (k + (37 + name.length)) (Ty.trees_ok T hT v hv _)
  simp only [Ty.treeW, Tree.tiled, Tree.alignedAll, Bool.and_eq_true] at hroot
  obtain ⟨⟨hk, htl⟩, ⟨_, hal⟩⟩ := hroot
  refine ⟨?_, ?_, ?_⟩
  · have e : k + (37 + name.length) = k + 8 + 2 + 2 + 1 + 8 + 8 + (8 + name.length) := by omega
    simp only [Ty.schemaTreesAt, Ty.treeW, contig, Tree.off, Tree.size]
    simp only [if_true, e]
    simp
    omega
  · have e : k + (37 + name.length) = k + 8 + 2 + 2 + 1 + 8 + 8 + (8 + name.length) := by omega
    simp only [Ty.schemaTreesAt, Ty.treeW, Tree.tiledList, Tree.tiled, contig, Tree.off, Tree.size, htl, hk]
    simp
    omega
  · simp only [Ty.schemaTreesAt, Ty.treeW, Tree.alignedList, Tree.alignedAll, hal]
    simp [Nat.mod_one]

/-- **Top-level rows tile the whole stream**: contiguous from offset 0 to the end of the stream. -/
theorem top_tile (H : B → Nat) (T : Ty) (name : B) (v : Val) (hT : T.wf = true) (hv : T.wt v = true) :
    contig (T.schemaTrees name v) 0 = some (T.ser H name v).length := by
  rw [ser_length, (schema_forest_ok T name v hT hv).cover]; simp

/-- **The children of every composite row tile it** without gaps or overlaps, at every depth. -/
theorem children_tile (T : Ty) (name : B) (v : Val) (hT : T.wf = true) (hv : T.wt v = true) :
    Tree.tiledList (T.schemaTrees name v) = true :=
  (schema_forest_ok T name v hT hv).tiled

/-- **Each block of zero-copy data starts at a multiple of its recorded alignment** (rows whose
    alignment is not applicable record 0; padding rows record 1). -/
theorem zero_rows_aligned (T : Ty) (name : B) (v : Val) (hT : T.wf = true) (hv : T.wt v = true) :
    Tree.alignedList (T.schemaTrees name v) = true :=
  (schema_forest_ok T name v hT hv).aligned

mutual
theorem rows_within : ∀ (t : Tree) (d lo hi : Nat), t.tiled = true → lo ≤ t.off → t.off + t.size ≤ hi →
    ∀ r ∈ t.rows d, lo ≤ r.off ∧ r.off + r.size ≤ hi
  | .node o s a p kids, d, lo, hi, ht, hlo, hhi => by
      intro r hr
      simp only [Tree.rows, List.mem_cons] at hr
      simp only [Tree.off, Tree.size] at hlo hhi
      rcases hr with rfl | hr
      · exact ⟨hlo, hhi⟩
      · simp only [Tree.tiled, Bool.and_eq_true, Bool.or_eq_true, beq_iff_eq] at ht
        rcases ht.1 with he | hc
        · have : kids = [] := by simpa using he
          subst this; simp [Tree.rowsList] at hr
        · exact rowsList_within kids (d + 1) o (o + s) lo hi hc ht.2 hlo hhi r hr
theorem rowsList_within : ∀ (ts : List Tree) (d p q lo hi : Nat), contig ts p = some q → Tree.tiledList ts = true →
    lo ≤ p → q ≤ hi → ∀ r ∈ Tree.rowsList ts d, lo ≤ r.off ∧ r.off + r.size ≤ hi
  | [], _, _, _, _, _, _, _, _, _ => by intro r hr; simp [Tree.rowsList] at hr
  | t :: ts, d, p, q, lo, hi, hc, ht, hlo, hhi => by
      intro r hr
      simp only [contig] at hc
      split at hc
      · rename_i hoff
        simp only [Tree.tiledList, Bool.and_eq_true] at ht
        simp only [Tree.rowsList, List.mem_append] at hr
        have hq : p + t.size ≤ q := contig_ge ts (p + t.size) q hc
        rcases hr with hr | hr
        · exact rows_within t d lo hi ht.1 (by omega) (by omega) r hr
        · exact rowsList_within ts d (p + t.size) q lo hi hc ht.2 (by omega) hhi r hr
      · cases hc
end

/-- **Every row lies within the stream** — so rendering the schema as an annotated dump of that
    stream (`debug`, which slices `data[offset .. offset + size]`) or as CSV indexes only inside
    the stream and cannot fail. -/
theorem rows_in_stream (H : B → Nat) (T : Ty) (name : B) (v : Val) (hT : T.wf = true) (hv : T.wt v = true) :
    ∀ r ∈ T.schema name v, r.off + r.size ≤ (T.ser H name v).length := by
  intro r hr
  have hok := schema_forest_ok T name v hT hv
  have := rowsList_within (T.schemaTrees name v) 1 0 _ 0 (T.ser H name v).length hok.cover hok.tiled (Nat.le_refl _)
    (by rw [ser_length]; omega) r hr
  exact this.2

/-- **Padding rows cover zero bytes**: every `PADDING` node of the recorded forest, at any depth,
    lies inside the stream and the bytes of the stream in its range are all zero — for every type,
    every well-typed value, every name and digest function. (Stated on the forest: a padding row is
    a node with `isPad = true`; `Tree.padsZeroL` walks all nodes.) -/
theorem padding_rows_zero (H : B → Nat) (T : Ty) (name : B) (v : Val) (hv : T.wt v = true) :
    Tree.padsZeroL (T.ser H name v) 0 (T.schemaTrees name v) := by
  have hroot := Ty.pads T v hv (37 + name.length)
  have hl : (T.header H name).length = 37 + name.length := Ty.header_length H T name
  simp only [Ty.schemaTrees, Tree.padsZeroL, and_true]
  refine ⟨leaf_pads _ _ _ _ _, leaf_pads _ _ _ _ _, leaf_pads _ _ _ _ _, leaf_pads _ _ _ _ _, leaf_pads _ _ _ _ _,
    leaf_pads _ _ _ _ _, ?_, ?_⟩
  · simp [Tree.padsZero, Tree.padsZeroL]
  · rw [treeW_pads]
    unfold Ty.ser
    simp only []
    have := Tree.embedL_pre (T.enc v (T.header H name).length) (T.header H name) 0 (T.trees v (T.header H name).length)
      (by rw [Nat.zero_add]; rw [hl]; exact hroot)
    rw [hl] at this ⊢
    exact this

/-- the body-level statement: wherever the value is written -/
theorem padding_rows_zero_body (T : Ty) (v : Val) (hv : T.wt v = true) (pos : Nat) :
    Tree.padsZeroL (T.enc v pos) pos (T.trees v pos) := Ty.pads T v hv pos

/-- Non-vacuity: a padding node really is constrained — the forest of `Vec<u32>` written at position 1
    has a `PADDING` node of 3 bytes at offset 9. -/
example : (Ty.vec (.prim (.int .u32))).trees (.seq [.bits 5]) 1 =
    [.node 1 8 0 false [], .node 9 3 1 true [], .node 12 4 4 false []] := by
  simp [Ty.trees, Ty.treesSeq, Ty.isZC, zeroTrees, padTrees, pad, Ty.maxSizeOf, Prim.size, IntK.size, Ty.toMemList, Ty.toMem, leBytes]

/-- Non-vacuity: the forest of `Option<u8>::Some(7)` at position 0. -/
example : (Ty.option (.prim (.int .u8))).trees (.variant 1 [.bits 7]) 0
    = [.node 0 1 0 false [], .node 1 1 0 false []] := by
  simp [Ty.trees, Ty.treeW, Ty.enc, Prim.size, IntK.size]

end Eps.C18
