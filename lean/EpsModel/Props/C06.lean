/-
  C06 — Emitted bytes conform to the published format (version 1.1) and stay readable.

  The model's writer *is* a declarative description of the format; the theorems below pin, clause
  by clause, what the published description says, so that a symmetric change of writer and reader
  (which C01/C02 would not notice) cannot be followed silently by the model: the constants are
  literals here. The stability half of the property is the golden corpus of the correspondence.
-/
import EpsModel.Lemmas.TopLevel
namespace Eps.C06
open Eps

/-- Header: magic cookie `b"epserde "`, major 1, minor 1, pointer width 8, type hash, alignment
    hash (little-endian words), then the length-prefixed type name. -/
theorem header_layout (th ah : Nat) (name : B) :
    wHeader th ah name =
      [0x65, 0x70, 0x73, 0x65, 0x72, 0x64, 0x65, 0x20] ++ [1, 0] ++ [1, 0] ++ [8] ++
      leBytes 8 th ++ leBytes 8 ah ++ (leBytes 8 name.length ++ name) := by
  simp [wHeader, magicBytes, versionMajor, versionMinor, usizeSize, leBytes]

/-- The stream is the header followed by the value; the hash words are the digests of the two
    published feeds of the (serialization) type. -/
theorem stream_layout (H : B → Nat) (T : Ty) (name : B) (v : Val) :
    T.ser H name v = wHeader (H T.typeFeed) (H (T.alignFeed 0).1) name ++ T.enc v (37 + name.length) := by
  unfold Ty.ser Ty.header Ty.typeHash Ty.alignHash
  simp [wHeader_length]

/-- Primitives: native-endian (little-endian) bytes of their width, no padding. -/
theorem prim_le (p : Prim) (n pos : Nat) : (Ty.prim p).enc (.bits n) pos = leBytes p.size n := by simp [Ty.enc]

/-- Lengths are pointer-width (8-byte) prefixes; strings are their UTF-8 bytes. -/
theorem string_layout (b : B) (pos : Nat) : Ty.string.enc (.str b) pos = leBytes 8 b.length ++ b := by simp [Ty.enc]
theorem vec_deep_layout (t : Ty) (vs : List Val) (pos : Nat) (h : t.isZC = false) :
    (Ty.vec t).enc (.seq vs) pos = leBytes 8 vs.length ++ Ty.encList t vs (pos + 8) := by
  simp [Ty.enc, Ty.encSeq, h]
/-- Zero-copy data: after zero padding to the unit, the in-memory representation. -/
theorem vec_zero_layout (t : Ty) (vs : List Val) (pos : Nat) (h : t.isZC = true) :
    (Ty.vec t).enc (.seq vs) pos = leBytes 8 vs.length ++ zeros (pad (pos + 8) t.maxSizeOf) ++ Ty.toMemList t vs := by
  simp [Ty.enc, Ty.encSeq, h]
theorem struct_zero_layout (m : AdtMeta) (vs : Variants) (fs : List Val) (pos : Nat) (h : m.zero = true) :
    (Ty.adt m vs).enc (.record fs) pos = zeros (pad pos (Ty.adt m vs).maxSizeOf) ++ (Ty.adt m vs).toMem (.record fs) :=
  Ty.enc_adt_zero m vs fs pos h

/-- One-byte tags: options 0/1, bounds 0/1/2, control-flow 0 (Break) / 1 (Continue). -/
theorem option_tags (t : Ty) (v : Val) (pos : Nat) :
    (Ty.option t).enc (.variant 0 []) pos = [0] ∧ (Ty.option t).enc (.variant 1 [v]) pos = 1 :: t.enc v (pos + 1) := by
  simp [Ty.enc]
theorem bound_tags (t : Ty) (v : Val) (pos : Nat) :
    (Ty.bound t).enc (.variant 0 []) pos = [0] ∧ (Ty.bound t).enc (.variant 1 [v]) pos = 1 :: t.enc v (pos + 1) ∧
    (Ty.bound t).enc (.variant 2 [v]) pos = 2 :: t.enc v (pos + 1) := by
  simp [Ty.enc]
theorem controlFlow_tags (b c : Ty) (v : Val) (pos : Nat) :
    (Ty.controlFlow b c).enc (.variant 0 [v]) pos = 0 :: b.enc v (pos + 1) ∧
    (Ty.controlFlow b c).enc (.variant 1 [v]) pos = 1 :: c.enc v (pos + 1) := by
  simp [Ty.enc]

/-- Derived enums: a pointer-width variant index, then the fields in declaration order;
    derived structs: the fields in declaration order. -/
theorem enum_layout (m : AdtMeta) (vs : Variants) (i : Nat) (fs : List Val) (pos : Nat) (h : m.zero = false) :
    (Ty.adt m vs).enc (.variant i fs) pos = leBytes 8 i ++ vs.enc i fs (pos + 8) :=
  Ty.enc_adt_enum m vs i fs pos h
theorem fields_in_order (n : B) (e : Bool) (t : Ty) (r : Fields) (v : Val) (vs : List Val) (pos : Nat) :
    (Fields.cons n e t r).enc (v :: vs) pos = t.enc v pos ++ r.enc vs (pos + (t.enc v pos).length) := by
  simp [Fields.enc]

/-- The hash recipes (what is fed to the hasher), for the building blocks: -/
theorem typeFeed_vec (t : Ty) : (Ty.vec t).typeFeed = [0x56, 0x65, 0x63] ++ [0xff] ++ t.typeFeed := by
  simp [Ty.typeFeed, hStr]

end Eps.C06
