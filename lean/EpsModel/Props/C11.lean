/-
  C11 — A truncated file (crash while storing) is never deserialized into a value.
-/
import EpsModel.Lemmas.Prefix3
import EpsModel.Lemmas.TopLevel
import EpsModel.Loaders
namespace Eps.C11
open Eps

/-- A strict prefix of the header makes `check_header` fail with a read error. -/
theorem checkHeader_prefix (th ah : Nat) (name p : B) (hth : th < 2^64) (hah : ah < 2^64)
    (hl : name.length < 2^63) (h : SPre p (wHeader th ah name)) :
    checkHeader th ah p 0 = .err .readError := by
  simp only [wHeader, List.append_assoc] at h
  simp only [checkHeader]
  rcases spre_append h with h1 | ⟨q1, rfl, g1⟩
  · rw [readWord_short 8 p 0 (by simpa [magicBytes_length] using h1.length_lt)]; rfl
  rw [readWord_magic]; simp only [Res.bind_ok, bne_self_eq_false, Bool.false_eq_true, if_false]
  rcases spre_append g1 with h1 | ⟨q2, rfl, g2⟩
  · rw [readWord_short 2 q1 _ (by simpa using h1.length_lt)]; rfl
  rw [readWord_leBytes 2 versionMajor _ _ (by decide)]
  simp only [Res.bind_ok, bne_self_eq_false, Bool.false_eq_true, if_false]
  rcases spre_append g2 with h1 | ⟨q3, rfl, g3⟩
  · rw [readWord_short 2 q2 _ (by simpa using h1.length_lt)]; rfl
  rw [readWord_leBytes 2 versionMinor _ _ (by decide)]
  simp only [Res.bind_ok, gt_iff_lt, Nat.lt_irrefl, if_false]
  rcases spre_append g3 with h1 | ⟨q4, rfl, g4⟩
  · rw [readWord_short 1 q3 _ (by simpa using h1.length_lt)]; rfl
  rw [readWord_leBytes 1 usizeSize _ _ (by decide)]
  simp only [Res.bind_ok, bne_self_eq_false, Bool.false_eq_true, if_false]
  rcases spre_append g4 with h1 | ⟨q5, rfl, g5⟩
  · rw [readWord_short 8 q4 _ (by simpa using h1.length_lt)]; rfl
  rw [readWord_leBytes 8 th _ _ (by omega)]
  simp only [Res.bind_ok]
  rcases spre_append g5 with h1 | ⟨q6, rfl, g6⟩
  · rw [readWord_short 8 q5 _ (by simpa using h1.length_lt)]; rfl
  rw [readWord_leBytes 8 ah _ _ (by omega)]
  simp only [Res.bind_ok, decFullStr]
  rcases spre_append g6 with h1 | ⟨q7, rfl, g7⟩
  · rw [readWord_short 8 q6 _ (by simpa using h1.length_lt)]; rfl
  rw [readWord_leBytes 8 name.length _ _ (by omega)]
  simp only [Res.bind_ok]
  have hnot : ¬ (name.length > isizeMax) := by unfold isizeMax; omega
  rw [if_neg hnot, readExact_short _ q7 _ g7.length_lt]; rfl

/-- **Full copy**: every strict prefix of a serialized stream — every cut point, every type, value,
    name, digest function — is refused with a read error. -/
theorem prefix_full (H : B → Nat) (hH : ∀ b, H b < 2^64) (T : Ty) (name : B) (v : Val) (p : B)
    (hT : T.wf = true) (hv : T.wt v = true) (hname : validUtf8 name = true) (hlen : name.length < 2^63)
    (h : SPre p (T.ser H name v)) : T.deFull H p = .err .readError := by
  have h1 : T.typeHash H < 2^64 := hH _
  have h2 : T.alignHash H < 2^64 := hH _
  unfold Ty.ser Ty.header at h
  simp only [] at h
  unfold Ty.deFull
  rcases spre_append h with hh | ⟨q, rfl, hq⟩
  · rw [checkHeader_prefix _ _ name p h1 h2 hlen hh]; rfl
  · rw [checkHeader_wHeader _ _ name q h1 h2 hname hlen]
    simp only [Res.bind_ok]
    rw [(Ty.trunc 0 T hT v hv).1 _ q hq]; rfl

/-- **ε-copy**: every strict prefix, at every base address, fails: an error or a bounds-check
    panic, never a value. -/
theorem prefix_eps (H : B → Nat) (hH : ∀ b, H b < 2^64) (T : Ty) (name : B) (v : Val) (p : B) (base : Nat)
    (hT : T.wf = true) (hv : T.wt v = true) (hname : validUtf8 name = true) (hlen : name.length < 2^63)
    (h : SPre p (T.ser H name v)) : ∀ x, T.deEps H base p ≠ .ok x := by
  have h1 : T.typeHash H < 2^64 := hH _
  have h2 : T.alignHash H < 2^64 := hH _
  unfold Ty.ser Ty.header at h
  simp only [] at h
  unfold Ty.deEps
  rcases spre_append h with hh | ⟨q, rfl, hq⟩
  · rw [checkHeader_prefix _ _ name p h1 h2 hlen hh]; exact NotOk.err _
  · rw [checkHeader_wHeader _ _ name q h1 h2 hname hlen]
    simp only [Res.bind_ok]
    exact NotOk.bind _ ((Ty.trunc base T hT v hv).2.2 _ q hq)

/-- The model readers only ever look at the bytes they are given (`p`): by construction nothing
    outside the prefix is read. Body-level versions, at any stream position: -/
theorem prefix_body_full (T : Ty) (v : Val) (hT : T.wf = true) (hv : T.wt v = true) (pos : Nat) (p : B)
    (h : SPre p (T.enc v pos)) : T.decFull .reader p pos = .err .readError :=
  (Ty.trunc 0 T hT v hv).1 pos p h
theorem prefix_body_eps (base : Nat) (T : Ty) (v : Val) (hT : T.wf = true) (hv : T.wt v = true) (pos : Nat) (p : B)
    (h : SPre p (T.enc v pos)) : ∀ x, T.decEps base p pos ≠ .ok x :=
  (Ty.trunc base T hT v hv).2.2 pos p h

/-! ### The file-backed entry points that do not zero-extend -/

/-- `load_full` reads the file through a `BufReader`: a file cut at any point gives a read error. -/
theorem file_prefix_load_full (H : B → Nat) (hH : ∀ b, H b < 2^64) (T : Ty) (name : B) (v : Val) (file : B)
    (hT : T.wf = true) (hv : T.wt v = true) (hname : validUtf8 name = true) (hlen : name.length < 2^63)
    (h : SPre file (T.ser H name v)) : T.deFull H file = .err .readError :=
  prefix_full H hH T name v file hT hv hname hlen h

/-- `mmap` of a truncated file: the backing region is the file itself (no zero extension), and
    ε-copy deserialization of it, wherever the mapping is placed, never returns a structure. -/
theorem file_prefix_mmap (H : B → Nat) (hH : ∀ b, H b < 2^64) (T : Ty) (name : B) (v : Val) (file : B) (base : Nat)
    (hT : T.wf = true) (hv : T.wt v = true) (hname : validUtf8 name = true) (hlen : name.length < 2^63)
    (h : SPre file (T.ser H name v)) : ∀ x, T.deEps H base (regionOf .map file) ≠ .ok x :=
  prefix_eps H hH T name v (regionOf .map file) base hT hv hname hlen h

/-- Non-vacuity: a 3-byte cut of a 4-byte integer is a strict prefix. -/
example : SPre [1, 0, 0] ((Ty.prim (.int .u32)).enc (.bits 1) 0) := ⟨[0], by simp, by simp [Ty.enc, leBytes, Prim.size, IntK.size]⟩

end Eps.C11
