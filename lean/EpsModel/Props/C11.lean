import EpsModel.Header
namespace Eps.C11
theorem placeholder : (1 : Nat) = 1 := rfl
end Eps.C11
