import EpsModel.Header
namespace Eps.C12
theorem placeholder : (1 : Nat) = 1 := rfl
end Eps.C12
