/-
  C12 — Misplaced buffers are refused with an alignment error, never misread.
-/
import EpsModel.Lemmas.Misaligned2
import EpsModel.Lemmas.TopLevel
namespace Eps.C12
open Eps

/-- Body level, both directions: on what the writer wrote, the ε-copy reader succeeds when every
    block is on a multiple of its unit, and returns `AlignmentError` otherwise. -/
theorem decEps_iff (base : Nat) (T : Ty) (v : Val) (hT : T.wf = true) (hv : T.wt v = true) (pos : Nat) (rest : B) :
    (AlignedAll (.slice base) (T.blocks v pos) →
       ∃ e, T.decEps base (T.enc v pos ++ rest) pos = .ok (e, rest, pos + (T.enc v pos).length) ∧ e.erase = v) ∧
    (¬ AlignedAll (.slice base) (T.blocks v pos) →
       T.decEps base (T.enc v pos ++ rest) pos = .err .alignment) := by
  constructor
  · intro ha
    obtain ⟨e, he, her, _⟩ := Ty.framedEps base T hT v hv pos rest ha
    exact ⟨e, he, her⟩
  · exact (Ty.mis base T hT v hv).2 pos rest

/-- Top level: `deserialize_eps` of a serialized stream placed at address `base` returns a value
    exactly when every zero-copy block lands on a multiple of its unit, and `AlignmentError`
    otherwise — for every placement, type, value, name and digest function. -/
theorem eps_align_iff (H : B → Nat) (hH : ∀ b, H b < 2^64) (T : Ty) (name : B) (v : Val) (base : Nat)
    (hT : T.wf = true) (hv : T.wt v = true) (hname : validUtf8 name = true) (hlen : name.length < 2^63) :
    (AlignedAll (.slice base) (T.blocks v (T.header H name).length) →
       ∃ e, T.deEps H base (T.ser H name v) = .ok (e, (T.ser H name v).length) ∧ e.erase = v) ∧
    (¬ AlignedAll (.slice base) (T.blocks v (T.header H name).length) →
       T.deEps H base (T.ser H name v) = .err .alignment) := by
  constructor
  · intro ha
    obtain ⟨e, he, her, _⟩ := Ty.deEps_ser_append H hH T name v base [] hT hv hname hlen ha
    simp only [List.append_nil] at he
    exact ⟨e, he, her⟩
  · intro ha
    unfold Ty.deEps Ty.ser
    simp only []
    have h1 : T.typeHash H < 2^64 := hH _
    have h2 : T.alignHash H < 2^64 := hH _
    unfold Ty.header at ha ⊢
    rw [checkHeader_wHeader _ _ name _ h1 h2 hname hlen]
    simp only [Res.bind_ok]
    have := (Ty.mis base T hT v hv).2 _ [] ha
    simp only [List.append_nil] at this
    rw [this]; rfl

/-- A value returned is never built on a misplaced block: if `deserialize_eps` returns a value,
    every borrowed node of it sits at an address that is a multiple of its unit (hence of the
    native alignment of its type, which divides the unit, `unit_implies_align`). -/
theorem no_misaligned_ref (H : B → Nat) (hH : ∀ b, H b < 2^64) (T : Ty) (name : B) (v : Val) (base : Nat)
    (hT : T.wf = true) (hv : T.wt v = true) (hname : validUtf8 name = true) (hlen : name.length < 2^63)
    (e : EVal) (n : Nat) (hok : T.deEps H base (T.ser H name v) = .ok (e, n)) :
    ∀ b ∈ e.borrows, (base + b.off) % b.unit = 0 := by
  by_cases ha : AlignedAll (.slice base) (T.blocks v (T.header H name).length)
  · obtain ⟨e', he', _, heb⟩ := Ty.deEps_ser_append H hH T name v base [] hT hv hname hlen ha
    simp only [List.append_nil] at he'
    rw [he'] at hok
    injection hok with hok
    injection hok with h1 _
    subst h1
    intro b hb
    have := ha _ (heb b hb)
    simpa [ModeOK, Borrow.toBlock] using this
  · have := (eps_align_iff H hH T name v base hT hv hname hlen).2 ha
    rw [this] at hok; cases hok

/-- Powers of two: the unit is a multiple of the native alignment. -/
theorem unit_implies_align (T : Ty) (hz : T.isZC = true) (hw : T.wf = true) (x : Nat)
    (h : x % T.maxSizeOf = 0) : x % T.alignOf = 0 := by
  obtain ⟨⟨i, _, hi⟩, ⟨j, _, hj⟩, hle⟩ := Ty.units T hz hw
  rw [hi] at hle ⊢; rw [hj] at hle h
  have hij : i ≤ j := by
    by_cases hc : i ≤ j
    · exact hc
    · have : 2 ^ j < 2 ^ i := Nat.pow_lt_pow_right (by omega) (by omega)
      omega
  have hd : 2 ^ i ∣ 2 ^ j := Nat.pow_dvd_pow 2 hij
  exact Nat.mod_eq_zero_of_dvd (Nat.dvd_trans hd (Nat.dvd_of_mod_eq_zero h))

/-- Streams containing only byte-aligned data deserialize at any address. -/
theorem byte_aligned_anywhere (H : B → Nat) (hH : ∀ b, H b < 2^64) (T : Ty) (name : B) (v : Val) (base : Nat)
    (hT : T.wf = true) (hv : T.wt v = true) (hname : validUtf8 name = true) (hlen : name.length < 2^63)
    (h1 : ∀ b ∈ T.blocks v (T.header H name).length, b.unit = 1) :
    ∃ e, T.deEps H base (T.ser H name v) = .ok (e, (T.ser H name v).length) ∧ e.erase = v := by
  apply (eps_align_iff H hH T name v base hT hv hname hlen).1
  intro b hb
  simp [ModeOK, h1 b hb, Nat.mod_one]

/-! Non-vacuity: `Vec<u32>` has one block of unit 4; a string only unit-1 blocks. -/
example (pos : Nat) : (Ty.vec (.prim (.int .u32))).blocks (.seq [.bits 1]) pos
    = [⟨pos + 8 + pad (pos + 8) 4, 4, 4⟩] := by
  simp [Ty.blocks, Ty.blocksSeq, Ty.isZC, Ty.maxSizeOf, Prim.size, IntK.size, Ty.toMemList, Ty.toMem]
example (pos : Nat) (b : B) : ∀ x ∈ Ty.string.blocks (.str b) pos, x.unit = 1 := by
  intro x hx; simp [Ty.blocks] at hx; subst hx; rfl

end Eps.C12
