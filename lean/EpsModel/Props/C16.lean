/-
  C16 — Slices and exact-size iterators serialize exactly like the vector.
-/
import EpsModel.Iter
import EpsModel.Lemmas.Basic
import EpsModel.Lemmas.Vecify
namespace Eps.C16
open Eps

/-! ### Standalone: body bytes and both hash feeds coincide with those of the vector -/

theorem slice_enc_eq_vec (t : Ty) (v : Val) (pos : Nat) : (Ty.sliceRef t).enc v pos = (Ty.vec t).enc v pos := by
  cases v <;> simp [Ty.enc]
theorem iter_enc_eq_vec (t : Ty) (v : Val) (pos : Nat) : (Ty.serIter t).enc v pos = (Ty.vec t).enc v pos := by
  cases v <;> simp [Ty.enc]
theorem slice_feeds (t : Ty) (off : Nat) :
    (Ty.sliceRef t).typeFeed = (Ty.vec t).typeFeed ∧ (Ty.sliceRef t).alignFeed off = (Ty.vec t).alignFeed off := by
  simp [Ty.typeFeed, Ty.alignFeed]
theorem iter_feeds (t : Ty) (off : Nat) :
    (Ty.serIter t).typeFeed = (Ty.vec t).typeFeed ∧ (Ty.serIter t).alignFeed off = (Ty.vec t).alignFeed off := by
  simp [Ty.typeFeed, Ty.alignFeed]

/-- The whole stream — header (magic, versions, both hash words, type name of the vector) and
    body — of a slice reference is that of the vector. -/
theorem slice_ser_eq_vec (H : B → Nat) (t : Ty) (name : B) (v : Val) :
    (Ty.sliceRef t).ser H name v = (Ty.vec t).ser H name v := by
  unfold Ty.ser Ty.header Ty.typeHash Ty.alignHash
  simp only [(slice_feeds t 0).1, (slice_feeds t 0).2, slice_enc_eq_vec]
theorem iter_ser_eq_vec (H : B → Nat) (t : Ty) (name : B) (v : Val) :
    (Ty.serIter t).ser H name v = (Ty.vec t).ser H name v := by
  unfold Ty.ser Ty.header Ty.typeHash Ty.alignHash
  simp only [(iter_feeds t 0).1, (iter_feeds t 0).2, iter_enc_eq_vec]

/-- The item-by-item iterator writer, when the iterator yields as many items as it announced,
    writes exactly the bytes of the vector writer and succeeds. -/
theorem iter_writer_eq_vec (t : Ty) (vs : List Val) (pos : Nat) (hz : t.isZC = true) :
    encIter t vs vs.length pos = ((Ty.vec t).enc (.seq vs) pos, .ok ()) := by
  simp [encIter, Ty.enc, Ty.encSeq, hz]

/-- A lying iterator: the result is the length-mismatch error carrying both counts, never success
    — for every announced / actual pair. -/
theorem iter_mismatch (t : Ty) (vs : List Val) (a pos : Nat) (h : a ≠ vs.length) :
    (encIter t vs a pos).2 = .error (.lengthMismatch vs.length a) := by
  have : (vs.length != a) = true := by simpa [bne_iff_ne] using (Ne.symm h)
  simp [encIter, this]
theorem iter_ok_iff (t : Ty) (vs : List Val) (a pos : Nat) :
    (encIter t vs a pos).2 = .ok () ↔ a = vs.length := by
  unfold encIter
  by_cases h : vs.length = a
  · simp [h]
  · have : (vs.length != a) = true := by simpa [bne_iff_ne] using h
    simp [this]; exact fun h' => h h'.symm

/-! ### Nested anywhere (in particular in type-parameter fields of derived structures):
    replacing every slice reference / iterator wrapper by the vector changes neither the bytes nor
    the hash feeds -/

mutual
theorem Ty.isZC_vecify : ∀ t : Ty, t.vecify.isZC = t.isZC
  | .prim _ | .string | .boxStr | .rangeFull => by simp [Ty.vecify]
  | .phantom t => by simp [Ty.vecify, Ty.isZC]
  | .vec t | .boxSlice t | .sliceRef t | .serIter t | .option t | .bound t => by simp [Ty.vecify, Ty.isZC]
  | .controlFlow _ _ => by simp [Ty.vecify, Ty.isZC]
  | .array t n => by simp only [Ty.vecify, Ty.isZC]; exact Ty.isZC_vecify t
  | .tuple t n => by simp only [Ty.vecify, Ty.isZC]; rw [Ty.isZC_vecify t]
  | .range k t => by cases k <;> simp only [Ty.vecify, Ty.isZC] <;> exact Ty.isZC_vecify t
  | .adt m vs => by simp only [Ty.vecify, Ty.isZC]; rw [Variants.allZC_vecify vs]
theorem Fields.allZC_vecify : ∀ f : Fields, f.vecify.allZC = f.allZC
  | .nil => by simp [Fields.vecify]
  | .cons _ _ t r => by simp only [Fields.vecify, Fields.allZC]; rw [Ty.isZC_vecify t, Fields.allZC_vecify r]
theorem Variants.allZC_vecify : ∀ v : Variants, v.vecify.allZC = v.allZC
  | .nil => by simp [Variants.vecify]
  | .cons _ fs r => by simp only [Variants.vecify, Variants.allZC]; rw [Fields.allZC_vecify fs, Variants.allZC_vecify r]
end

mutual
theorem Ty.typeFeed_vecify : ∀ t : Ty, t.vecify.typeFeed = t.typeFeed
  | .prim _ | .string | .boxStr | .rangeFull => by simp [Ty.vecify]
  | .phantom t => by simp only [Ty.vecify, Ty.typeFeed]; rw [Ty.typeFeed_vecify t]
  | .vec t => by simp only [Ty.vecify, Ty.typeFeed]; rw [Ty.typeFeed_vecify t]
  | .sliceRef t => by simp only [Ty.vecify, Ty.typeFeed]; rw [Ty.typeFeed_vecify t]
  | .serIter t => by simp only [Ty.vecify, Ty.typeFeed]; rw [Ty.typeFeed_vecify t]
  | .boxSlice t => by simp only [Ty.vecify, Ty.typeFeed]; rw [Ty.typeFeed_vecify t]
  | .option t => by simp only [Ty.vecify, Ty.typeFeed]; rw [Ty.typeFeed_vecify t]
  | .bound t => by simp only [Ty.vecify, Ty.typeFeed]; rw [Ty.typeFeed_vecify t]
  | .controlFlow b c => by simp only [Ty.vecify, Ty.typeFeed]; rw [Ty.typeFeed_vecify b, Ty.typeFeed_vecify c]
  | .array t n => by simp only [Ty.vecify, Ty.typeFeed]; rw [Ty.typeFeed_vecify t]
  | .tuple t n => by simp only [Ty.vecify, Ty.typeFeed]; rw [Ty.typeFeedRep_vecify t n]
  | .range k t => by simp only [Ty.vecify, Ty.typeFeed]; rw [Ty.typeFeed_vecify t]
  | .adt m vs => by
      simp only [Ty.vecify]
      cases vs with
      | nil => simp [Ty.typeFeed, Variants.vecify, Variants.typeFeed]
      | cons n f r =>
        cases r with
        | nil =>
          simp only [Variants.vecify, Ty.typeFeed, Variants.typeFeed]
          rw [Fields.namesFeed_vecify f, Fields.typesFeed_vecify f, Fields.interFeed_vecify f]
        | cons n' f' r' =>
          simp only [Variants.vecify, Ty.typeFeed, Variants.typeFeed]
          rw [Fields.interFeed_vecify f, Fields.interFeed_vecify f', Variants.typeFeed_vecify r']
theorem Ty.typeFeedRep_vecify : ∀ (t : Ty) (n : Nat), Ty.typeFeedRep t.vecify n = Ty.typeFeedRep t n
  | _, 0 => by simp [Ty.typeFeedRep]
  | t, n+1 => by simp only [Ty.typeFeedRep]; rw [Ty.typeFeed_vecify t, Ty.typeFeedRep_vecify t n]
theorem Fields.namesFeed_vecify : ∀ f : Fields, f.vecify.namesFeed = f.namesFeed
  | .nil => by simp [Fields.vecify]
  | .cons _ _ _ r => by simp only [Fields.vecify, Fields.namesFeed]; rw [Fields.namesFeed_vecify r]
theorem Fields.typesFeed_vecify : ∀ f : Fields, f.vecify.typesFeed = f.typesFeed
  | .nil => by simp [Fields.vecify]
  | .cons _ _ t r => by simp only [Fields.vecify, Fields.typesFeed]; rw [Ty.typeFeed_vecify t, Fields.typesFeed_vecify r]
theorem Fields.interFeed_vecify : ∀ f : Fields, f.vecify.interFeed = f.interFeed
  | .nil => by simp [Fields.vecify]
  | .cons _ _ t r => by simp only [Fields.vecify, Fields.interFeed]; rw [Ty.typeFeed_vecify t, Fields.interFeed_vecify r]
theorem Variants.typeFeed_vecify : ∀ v : Variants, v.vecify.typeFeed = v.typeFeed
  | .nil => by simp [Variants.vecify]
  | .cons _ fs r => by simp only [Variants.vecify, Variants.typeFeed]; rw [Fields.interFeed_vecify fs, Variants.typeFeed_vecify r]
end

/-- The type hash of a structure holding slices / iterators anywhere is the type hash of the
    structure holding vectors. -/
theorem typeHash_vecify (H : B → Nat) (T : Ty) : T.vecify.typeHash H = T.typeHash H := by
  unfold Ty.typeHash; rw [Ty.typeFeed_vecify]

/-- The alignment hash likewise. -/
theorem alignHash_vecify (H : B → Nat) (T : Ty) : T.vecify.alignHash H = T.alignHash H := by
  unfold Ty.alignHash; rw [Eps.Ty.alignFeed_vecify]

/-- **Bytes through arbitrary nesting**: at any stream position, a value is written at a type holding
    slice references / iterator wrappers anywhere — under vectors, options, arrays, in fields of
    derived structures and enums, at any depth — exactly as at the type holding vectors. -/
theorem enc_vecify (T : Ty) (v : Val) (pos : Nat) : T.vecify.enc v pos = T.enc v pos :=
  Eps.Ty.enc_vecify T v pos

/-- **The whole stream**, header included: same hash words, same name, same bytes. -/
theorem ser_vecify (H : B → Nat) (T : Ty) (name : B) (v : Val) : T.vecify.ser H name v = T.ser H name v := by
  simp only [Ty.ser, Ty.header, typeHash_vecify, alignHash_vecify, Eps.Ty.enc_vecify]

/-- Non-vacuity: the wrapper `Wrap<&[u32]>` becomes `Wrap<Vec<u32>>`. -/
example :
    (Ty.adt ⟨[87], false, false, false, [], 1, []⟩
      (.cons [87] (.cons [97] true (.sliceRef (.prim (.int .u32))) (.cons [98] false (.prim (.int .u16)) .nil)) .nil)).vecify
    = Ty.adt ⟨[87], false, false, false, [], 1, []⟩
      (.cons [87] (.cons [97] true (.vec (.prim (.int .u32))) (.cons [98] false (.prim (.int .u16)) .nil)) .nil) := by
  simp [Ty.vecify, Variants.vecify, Fields.vecify]

end Eps.C16
