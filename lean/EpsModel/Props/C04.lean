/-
  C04 — Bytes written as one type are never accepted as a different type.

  Full injectivity of the hashed byte stream is **false** for the code as it stands
  (`feed_collision_witness`, `bound_alignFeed_noop`: recorded findings). What is proved, for every
  type of the universe, is: (i) the header check rejects whenever a hash word differs; (ii) type
  feeds are compositional (context cancellation), so a difference at one place of a type is a
  difference of the whole feed; (iii) every near-miss operator of the property changes the feed at
  the place it is applied. The step from "feeds differ" to "64-bit digests differ" is not provable
  (XXH3 is not injective): it is computed for every pair of the explored universe on every run.
-/
import EpsModel.Lemmas.Feeds
import EpsModel.Props.C10
namespace Eps.C04
open Eps

/-! ### (i) A differing hash word is always an error, the type hash first -/

theorem header_rejects_type (th ah sth sah : Nat) (name rest : B)
    (hsth : sth < 2^64) (hsah : sah < 2^64) (hu : validUtf8 name = true) (hl : name.length < 2^63) (h : sth ≠ th) :
    checkHeader th ah (wHeader sth sah name ++ rest) 0 = .err (.wrongTypeHash sth) := by
  have e : wHeader sth sah name = C10.fixedHdr magic versionMajor versionMinor usizeSize sth sah ++ (leBytes 8 name.length ++ name) := by
    simp [wHeader, C10.fixedHdr, magic, leBytes, magicBytes, leVal, versionMajor, versionMinor, usizeSize]
  rw [e, C10.checkHeader_decision th ah magic versionMajor versionMinor usizeSize sth sah name rest
        (by decide) (by decide) (by decide) (by decide) hsth hsah hu hl,
      C10.err_typeHash th ah versionMinor sth sah (Nat.le_refl _) h]

theorem header_rejects_align (th ah sah : Nat) (name rest : B)
    (hth : th < 2^64) (hsah : sah < 2^64) (hu : validUtf8 name = true) (hl : name.length < 2^63) (h : sah ≠ ah) :
    checkHeader th ah (wHeader th sah name ++ rest) 0 = .err (.wrongAlignHash sah) := by
  have e : wHeader th sah name = C10.fixedHdr magic versionMajor versionMinor usizeSize th sah ++ (leBytes 8 name.length ++ name) := by
    simp [wHeader, C10.fixedHdr, magic, leBytes, magicBytes, leVal, versionMajor, versionMinor, usizeSize]
  rw [e, C10.checkHeader_decision th ah magic versionMajor versionMinor usizeSize th sah name rest
        (by decide) (by decide) (by decide) (by decide) hth hsah hu hl,
      C10.err_alignHash th ah versionMinor sah (Nat.le_refl _) h]

/-- The same for every header the reader accepts at all: whatever minor version `mn ≤ versionMinor` the stream
    announces, a differing type-hash word is the type-hash error and (the type hashes being equal) a differing
    alignment-hash word is the alignment-hash error. No accepted version is checked less strictly. -/
theorem header_rejects_any_accepted_minor (th ah mn sth sah : Nat) (name rest : B)
    (hmn : mn ≤ versionMinor) (hsth : sth < 2^64) (hsah : sah < 2^64)
    (hu : validUtf8 name = true) (hl : name.length < 2^63) :
    (sth ≠ th → checkHeader th ah (C10.fixedHdr magic versionMajor mn usizeSize sth sah ++ (leBytes 8 name.length ++ name) ++ rest) 0
        = .err (.wrongTypeHash sth)) ∧
    (sth = th → sah ≠ ah → checkHeader th ah (C10.fixedHdr magic versionMajor mn usizeSize sth sah ++ (leBytes 8 name.length ++ name) ++ rest) 0
        = .err (.wrongAlignHash sah)) := by
  have hmn' : mn < 2^16 := by simp [versionMinor] at hmn; omega
  constructor
  · intro h
    rw [C10.checkHeader_decision th ah magic versionMajor mn usizeSize sth sah name rest
          (by decide) (by decide) hmn' (by decide) hsth hsah hu hl, C10.err_typeHash th ah mn sth sah hmn h]
  · intro e h
    subst e
    rw [C10.checkHeader_decision sth ah magic versionMajor mn usizeSize sth sah name rest
          (by decide) (by decide) hmn' (by decide) hsth hsah hu hl, C10.err_alignHash sth ah mn sah hmn h]

/-- Bytes serialized as `T`, read as `U`, in either mode: if the digests of the type feeds differ
    the result is the type-hash error, never a value. -/
theorem cross_type_rejected (H : B → Nat) (hH : ∀ b, H b < 2^64) (T U : Ty) (name : B) (v : Val) (base : Nat)
    (hu : validUtf8 name = true) (hl : name.length < 2^63) (h : H T.typeFeed ≠ H U.typeFeed) :
    U.deFull H (T.ser H name v) = .err (.wrongTypeHash (H T.typeFeed)) ∧
    U.deEps H base (T.ser H name v) = .err (.wrongTypeHash (H T.typeFeed)) := by
  have hc := header_rejects_type (U.typeHash H) (U.alignHash H) (T.typeHash H) (T.alignHash H) name
    (T.enc v (T.header H name).length) (hH _) (hH _) hu hl h
  constructor
  · exact C10.deFull_corrupt H U _ _ hc
  · exact C10.deEps_corrupt H U base _ _ hc

/-! ### (ii) Context cancellation -/

/-- For every one-hole context (vectors, boxed slices, options, bounds, control-flow, arrays,
    ranges, phantom data, a field of a derived struct — nested to any depth): the feeds of the
    filled contexts are equal iff the feeds of the fillers are. -/
theorem typeFeed_ctx_cancel (c : Ctx) (t u : Ty) :
    (c.plug t).typeFeed = (c.plug u).typeFeed ↔ t.typeFeed = u.typeFeed := by
  obtain ⟨pre, post, h⟩ := typeFeed_plug c
  rw [h t, h u]
  constructor
  · intro e
    rw [List.append_assoc, List.append_assoc] at e
    exact List.append_cancel_right (List.append_cancel_left e)
  · intro e; rw [e]

/-! ### (iii) The near-miss operators change the feed where they are applied -/

theorem noFF_of_all {a : B} (h : a.all (fun x => x != 0xff) = true) : NoFF a := by
  intro x hx
  have := List.all_eq_true.mp h x hx
  simpa using this

theorem prim_name_noFF (p : Prim) : NoFF p.tyName := by
  apply noFF_of_all
  cases p with
  | int k => cases k <;> decide
  | nz k => cases k <;> decide
  | _ => decide

/-- distinct primitives have distinct names -/
theorem prim_name_inj (p q : Prim) (h : p.tyName = q.tyName) : p = q := by
  cases p with
  | int k => cases k <;> cases q <;> (try rename_i k'; cases k') <;> simp [Prim.tyName] at h ⊢
  | nz k => cases k <;> cases q <;> (try rename_i k'; cases k') <;> simp [Prim.tyName] at h ⊢
  | _ => cases q <;> (try rename_i k'; cases k') <;> simp [Prim.tyName] at h ⊢

/-- **A primitive replaced by a different primitive** (same size or not) changes the feed — and,
    by context cancellation, the feed of every type containing it. -/
theorem prim_feeds_distinct (p q : Prim) (h : p ≠ q) : (Ty.prim p).typeFeed ≠ (Ty.prim q).typeFeed := by
  intro e
  simp only [Ty.typeFeed] at e
  have := hStr_inj p.tyName q.tyName [] [] (prim_name_noFF p) (prim_name_noFF q) (by simpa using e)
  exact h (prim_name_inj p q this.1)

theorem field_retyped (c : Ctx) (p q : Prim) (h : p ≠ q) :
    (c.plug (.prim p)).typeFeed ≠ (c.plug (.prim q)).typeFeed :=
  fun e => prim_feeds_distinct p q h ((typeFeed_ctx_cancel c _ _).mp e)

/-- **Sequence kind**: vector, boxed slice and array are told apart. -/
theorem seq_kinds_distinct (t u : Ty) (n : Nat) :
    (Ty.vec t).typeFeed ≠ (Ty.boxSlice u).typeFeed ∧ (Ty.vec t).typeFeed ≠ (Ty.array u n).typeFeed ∧
    (Ty.boxSlice t).typeFeed ≠ (Ty.array u n).typeFeed := by
  simp [Ty.typeFeed, hStr]

/-- **Array length** -/
theorem array_len_distinct (t : Ty) (n m : Nat) (hn : n < 2^64) (hm : m < 2^64) (h : n ≠ m) :
    (Ty.array t n).typeFeed ≠ (Ty.array t m).typeFeed := by
  intro e
  simp only [Ty.typeFeed, List.append_assoc] at e
  have e1 := List.append_cancel_left e
  have e2 : leBytes 8 n = leBytes 8 m := List.append_inj_left e1 (by simp)
  have := congrArg leVal e2
  rw [leVal_leBytes 8 n (by omega), leVal_leBytes 8 m (by omega)] at this
  exact h this

/-- **Copy kind toggled** -/
theorem copy_kind_distinct (m m' : AdtMeta) (vs vs' : Variants) (h : m.zero ≠ m'.zero) :
    (Ty.adt m vs).typeFeed ≠ (Ty.adt m' vs').typeFeed := by
  intro e
  rw [Ty.typeFeed_adt, Ty.typeFeed_adt] at e
  simp only [List.append_assoc] at e
  cases hz : m.zero <;> cases hz' : m'.zero <;> simp [hz, hz', hStr, copyTag] at e h

/-- **Type renamed** (definitions without const parameters) -/
theorem type_name_distinct (m m' : AdtMeta) (vs vs' : Variants) (hc : m.consts = []) (hc' : m'.consts = [])
    (hz : m.zero = m'.zero) (hn : NoFF m.name) (hn' : NoFF m'.name) (h : m.name ≠ m'.name) :
    (Ty.adt m vs).typeFeed ≠ (Ty.adt m' vs').typeFeed := by
  intro e
  rw [Ty.typeFeed_adt, Ty.typeFeed_adt] at e
  have hcp : copyTag m = copyTag m' := by simp [copyTag, hz]
  simp only [hc, hc', constValsFeed, constNamesFeed, List.append_nil, List.append_assoc, hcp] at e
  have e1 := List.append_cancel_left e
  exact h (hStr_inj _ _ _ _ hn hn' e1).1

/-- **Const value changed** (same const type): the values are hashed first, at a fixed place. -/
theorem const_value_distinct (m : AdtMeta) (vs : Variants) (n : B) (p : Prim) (v v' : Nat) (rest : List (B × Prim × Nat))
    (hv : v < 2 ^ (8 * p.size)) (hv' : v' < 2 ^ (8 * p.size)) (h : v ≠ v') :
    (Ty.adt { m with consts := (n, p, v) :: rest } vs).typeFeed ≠ (Ty.adt { m with consts := (n, p, v') :: rest } vs).typeFeed := by
  intro e
  rw [Ty.typeFeed_adt, Ty.typeFeed_adt] at e
  simp only [constValsFeed, List.append_assoc, copyTag] at e
  have e1 := List.append_cancel_left e
  have e2 : leBytes p.size v = leBytes p.size v' := List.append_inj_left e1 (by simp)
  have := congrArg leVal e2
  rw [leVal_leBytes _ v hv, leVal_leBytes _ v' hv'] at this
  exact h this

/-! ### Field and variant names, and their order -/

/-- names of the fields, in order -/
def fieldNames : Fields → List B
  | .nil => []
  | .cons n _ _ r => n :: fieldNames r

/-- The names part of a struct feed determines the list of names (among lists of the same length,
    names being identifiers: no 0xff byte). -/
theorem namesFeed_inj : ∀ (f g : Fields) (x y : B), (fieldNames f).length = (fieldNames g).length →
    (∀ n ∈ fieldNames f, NoFF n) → (∀ n ∈ fieldNames g, NoFF n) →
    f.namesFeed ++ x = g.namesFeed ++ y → fieldNames f = fieldNames g ∧ x = y
  | .nil, .nil, x, y, _, _, _, h => by simpa [Fields.namesFeed, fieldNames] using h
  | .nil, .cons _ _ _ _, _, _, hl, _, _, _ => by simp [fieldNames] at hl
  | .cons _ _ _ _, .nil, _, _, hl, _, _, _ => by simp [fieldNames] at hl
  | .cons n _ _ r, .cons n' _ _ r', x, y, hl, hf, hg, h => by
    simp only [Fields.namesFeed, List.append_assoc] at h
    have h1 := hStr_inj n n' _ _ (hf n (by simp [fieldNames])) (hg n' (by simp [fieldNames])) h
    have ih := namesFeed_inj r r' x y (by simpa [fieldNames] using hl)
      (fun m hm => hf m (by simp [fieldNames, hm])) (fun m hm => hg m (by simp [fieldNames, hm])) h1.2
    exact ⟨by simp [fieldNames, h1.1, ih.1], ih.2⟩

/-- **A field renamed, or two fields swapped** (any change of the list of field names that keeps
    their number): the feeds of the two structures differ, whatever the field types. -/
theorem field_names_distinct (m : AdtMeta) (vn vn' : B) (f g : Fields) (he : m.isEnum = false)
    (hl : (fieldNames f).length = (fieldNames g).length)
    (hf : ∀ n ∈ fieldNames f, NoFF n) (hg : ∀ n ∈ fieldNames g, NoFF n) (h : fieldNames f ≠ fieldNames g) :
    (Ty.adt m (.cons vn f .nil)).typeFeed ≠ (Ty.adt m (.cons vn' g .nil)).typeFeed := by
  intro e
  rw [Ty.typeFeed_adt, Ty.typeFeed_adt] at e
  simp only [adtBody, he, Bool.false_eq_true, if_false] at e
  have e1 := List.append_cancel_left e
  exact h (namesFeed_inj f g _ _ hl hf hg e1).1

/-- append a variant list to another -/
def vappend : Variants → Variants → Variants
  | .nil, w => w
  | .cons n f r, w => .cons n f (vappend r w)

theorem typeFeed_vappend : ∀ (v w : Variants), (vappend v w).typeFeed = v.typeFeed ++ w.typeFeed
  | .nil, w => by simp [vappend, Variants.typeFeed]
  | .cons n f r, w => by simp [vappend, Variants.typeFeed, typeFeed_vappend r w]

/-- **A variant renamed, or variants reordered**: at the first position where the variant names
    differ (after any common prefix `pre` of identical variants), the feeds differ — whatever the
    fields of the two variants and whatever follows. -/
theorem variant_names_distinct (m : AdtMeta) (pre : Variants) (n n' : B) (f f' : Fields) (r r' : Variants)
    (he : m.isEnum = true) (hn : NoFF n) (hn' : NoFF n') (h : n ≠ n') :
    (Ty.adt m (vappend pre (.cons n f r))).typeFeed ≠ (Ty.adt m (vappend pre (.cons n' f' r'))).typeFeed := by
  intro e
  rw [Ty.typeFeed_adt, Ty.typeFeed_adt] at e
  simp only [adtBody, he, if_true, typeFeed_vappend, Variants.typeFeed, List.append_assoc] at e
  have e1 := List.append_cancel_left (List.append_cancel_left (List.append_cancel_left (List.append_cancel_left e)))
  have e2 := List.append_cancel_left e1
  exact h (hStr_inj n n' _ _ hn hn' e2).1

/-- Non-vacuity: `struct S { a: u8, b: u8 }` versus `struct S { b: u8, a: u8 }`. -/
example : fieldNames (.cons [0x61] false (.prim (.int .u8)) (.cons [0x62] false (.prim (.int .u8)) .nil)) ≠
    fieldNames (.cons [0x62] false (.prim (.int .u8)) (.cons [0x61] false (.prim (.int .u8)) .nil)) := by
  simp [fieldNames]

/-! ### Recorded findings, as theorems about the model (replayed on the real code by the check) -/

/-- the witness pair of the known collision -/
def collA : Ty := .adt ⟨[0x61], false, false, false, [], 1, [([0x4e], .int .u16, 0xff53)]⟩
  (.cons [0x61] (.cons [0x62] false (.tuple (.prim (.int .u8)) 3) .nil) .nil)
def collS : Ty := .adt ⟨[0x53], false, false, false, [], 1, []⟩
  (.cons [0x53] (.cons [0x4e] false (.tuple (.prim (.int .u8)) 1)
    (.cons [0x61] false (.prim (.int .u8)) (.cons [0x62] false (.prim (.int .u8)) .nil))) .nil)

/-- `struct a<const N: u16 = 0xff53> { b: (u8,u8,u8) }` and `struct S { N: (u8,), a: u8, b: u8 }` have
    the same type feed and the same alignment feed: the two hashes cannot tell them apart. -/
theorem feed_collision_witness : collA.typeFeed = collS.typeFeed ∧ (collA.alignFeed 0).1 = (collS.alignFeed 0).1 := by
  constructor
  · simp [collA, collS, Ty.typeFeed, Ty.typeFeedRep, constValsFeed, constNamesFeed, Fields.namesFeed, Fields.typesFeed,
      hStr, leBytes, Prim.size, IntK.size, Prim.tyName]
  · simp [collA, collS, Ty.alignFeed, Ty.alignFeedRep, Fields.alignFeedDeep, stdAlignFeed, Prim.size, Prim.align, IntK.size, pad]

/-- `AlignHash for Bound<T>` feeds nothing, whatever `T` is: the layout of a zero-copy type stored
    under `Bound<..>` is invisible to the alignment hash (`Option`, `Vec`, … do recurse). -/
theorem bound_alignFeed_noop (t : Ty) (off : Nat) : (Ty.bound t).alignFeed off = ([], off) := by
  simp [Ty.alignFeed]
theorem option_alignFeed_recurses (t : Ty) (off : Nat) : (Ty.option t).alignFeed off = ((t.alignFeed 0).1, off) := by
  simp [Ty.alignFeed]

/-- Non-vacuity: a context two levels deep. -/
example : (Ctx.vec (Ctx.option Ctx.hole)).plug (.prim (.int .u8)) = .vec (.option (.prim (.int .u8))) := rfl

end Eps.C04
