/-
  C03 — ε-copy borrows in place: in-bounds, aligned, allocation-free payload.
-/
import EpsModel.Lemmas.Shapes
import EpsModel.Lemmas.BlocksIn
import EpsModel.Lemmas.TopLevel
namespace Eps.C03
open Eps

/-- **Borrow soundness**: every borrowed node (slice, string slice, reference) of the ε-copy
    result of a serialized stream
    * is one of the blocks of the writer: same offset, same length in bytes, same unit — it points
      exactly where the serializer wrote that data and has the written length;
    * covers only bytes of the stream (in fact of the body: after the header, before the end);
    * sits at an address that is a multiple of its unit (hence of the alignment of its element
      type, `C12.unit_implies_align`). -/
theorem borrow_sound (H : B → Nat) (hH : ∀ b, H b < 2^64) (T : Ty) (name : B) (v : Val) (base : Nat) (rest : B)
    (hT : T.wf = true) (hv : T.wt v = true) (hname : validUtf8 name = true) (hlen : name.length < 2^63)
    (ha : AlignedAll (.slice base) (T.blocks v (T.header H name).length)) :
    ∃ e, T.deEps H base (T.ser H name v ++ rest) = .ok (e, (T.ser H name v).length) ∧
      ∀ b ∈ e.borrows,
        b.toBlock ∈ T.blocks v (T.header H name).length ∧
        (T.header H name).length ≤ b.off ∧ b.off + b.len ≤ (T.ser H name v).length ∧
        (base + b.off) % b.unit = 0 := by
  obtain ⟨e, he, _, heb⟩ := Ty.deEps_ser_append H hH T name v base rest hT hv hname hlen ha
  refine ⟨e, he, fun b hb => ?_⟩
  have hmem := heb b hb
  have hin := Ty.blocks_in T v (T.header H name).length _ hmem
  have hal := ha _ hmem
  refine ⟨hmem, ?_, ?_, ?_⟩
  · simpa [Borrow.toBlock] using hin.1
  · have : (T.ser H name v).length = (T.header H name).length + (T.enc v (T.header H name).length).length := by
      unfold Ty.ser; simp
    rw [this]; simpa [Borrow.toBlock] using hin.2
  · simpa [ModeOK, Borrow.toBlock] using hal

/-- A sequence of zero-copy elements comes back as a slice *into the buffer* at the block the
    writer emitted, for every length: the payload is referenced, not copied. Its in-memory elements
    (`vs`) are carried only to describe the value. -/
theorem vec_borrowed_in_place (base : Nat) (t : Ty) (vs : List Val) (pos : Nat) (rest : B)
    (hz : t.isZC = true) (hw : t.wf = true) (hwt : (Ty.vec t).wt (.seq vs) = true)
    (ha : ModeOK (.slice base) (pos + 8 + pad (pos + 8) t.maxSizeOf) t.maxSizeOf) :
    ∃ n, (Ty.vec t).decEps base ((Ty.vec t).enc (.seq vs) pos ++ rest) pos
      = .ok (.bSlice (pos + 8 + pad (pos + 8) t.maxSizeOf) t vs, rest, n) :=
  ⟨_, eps_vec_zero_shape base t vs pos rest hz hw hwt ha⟩

theorem string_borrowed_in_place (base : Nat) (b rest : B) (pos : Nat) (hl : b.length < 2^63) :
    Ty.string.decEps base (Ty.string.enc (.str b) pos ++ rest) pos
      = .ok (.bStr (pos + 8) b, rest, pos + (8 + b.length)) :=
  eps_string_shape base b rest pos hl

mutual
/-- Heap allocations needed to own a fully deserialized value (one per non-empty string or
    sequence; an upper bound for arrays, which are stored inline). -/
def heapAllocs : Val → Nat
  | .str b => if b.isEmpty then 0 else 1
  | .seq vs => (if vs.isEmpty then 0 else 1) + heapAllocsList vs
  | .variant _ fs => heapAllocsList fs
  | .record fs => heapAllocsList fs
  | _ => 0
def heapAllocsList : List Val → Nat
  | [] => 0
  | v :: vs => heapAllocs v + heapAllocsList vs
end

mutual
/-- Allocations performed while building an ε-copy result: the rebuilt deep sequences and the
    fields that are by design fully copied; borrowed nodes contribute nothing, whatever their length. -/
def epsAllocs : EVal → Nat
  | .seq es => (if es.isEmpty then 0 else 1) + epsAllocsList es
  | .variant _ es => epsAllocsList es
  | .record es => epsAllocsList es
  | .full v => heapAllocs v
  | _ => 0
def epsAllocsList : List EVal → Nat
  | [] => 0
  | e :: es => epsAllocs e + epsAllocsList es
end

/-- **Allocation independent of borrowed payloads** (model level): replacing the payload of any
    borrowed node by any other payload — longer or shorter — does not change the allocation count. -/
theorem alloc_payload_independent (off off' : Nat) (t : Ty) (vs vs' : List Val) (b b' : B) (v v' : Val) :
    epsAllocs (.bSlice off t vs) = epsAllocs (.bSlice off' t vs') ∧
    epsAllocs (.bStr off b) = epsAllocs (.bStr off' b') ∧
    epsAllocs (.bRef off t v) = epsAllocs (.bRef off' t v') := by
  simp [epsAllocs]

/-- Non-vacuity: `Vec<u32>` with one block. -/
example : AlignedAll (.slice 0) ((Ty.vec (.prim (.int .u32))).blocks (.seq [.bits 1]) 60) := by
  intro b hb
  simp [Ty.blocks, Ty.blocksSeq, Ty.isZC, Ty.maxSizeOf, Prim.size, IntK.size] at hb
  subst hb
  simp [ModeOK, pad]

end Eps.C03
