/-
  C03 — ε-copy borrows in place: in-bounds, aligned, allocation-free payload.
-/
import EpsModel.Lemmas.Shapes
import EpsModel.Lemmas.BlocksIn
import EpsModel.Lemmas.TopLevel
import EpsModel.Alloc
import EpsModel.Lemmas.AllocL
import EpsModel.Props.C02
namespace Eps.C03
open Eps

/-- **Borrow soundness**: every borrowed node (slice, string slice, reference) of the ε-copy
    result of a serialized stream
    * is one of the blocks of the writer: same offset, same length in bytes, same unit — it points
      exactly where the serializer wrote that data and has the written length;
    * covers only bytes of the stream (in fact of the body: after the header, before the end);
    * sits at an address that is a multiple of its unit (hence of the alignment of its element
      type, `C12.unit_implies_align`). -/
theorem borrow_sound (H : B → Nat) (hH : ∀ b, H b < 2^64) (T : Ty) (name : B) (v : Val) (base : Nat) (rest : B)
    (hT : T.wf = true) (hv : T.wt v = true) (hname : validUtf8 name = true) (hlen : name.length < 2^63)
    (ha : AlignedAll (.slice base) (T.blocks v (T.header H name).length)) :
    ∃ e, T.deEps H base (T.ser H name v ++ rest) = .ok (e, (T.ser H name v).length) ∧
      ∀ b ∈ e.borrows,
        b.toBlock ∈ T.blocks v (T.header H name).length ∧
        (T.header H name).length ≤ b.off ∧ b.off + b.len ≤ (T.ser H name v).length ∧
        (base + b.off) % b.unit = 0 := by
  obtain ⟨e, he, _, heb⟩ := Ty.deEps_ser_append H hH T name v base rest hT hv hname hlen ha
  refine ⟨e, he, fun b hb => ?_⟩
  have hmem := heb b hb
  have hin := Ty.blocks_in T v (T.header H name).length _ hmem
  have hal := ha _ hmem
  refine ⟨hmem, ?_, ?_, ?_⟩
  · simpa [Borrow.toBlock] using hin.1
  · have : (T.ser H name v).length = (T.header H name).length + (T.enc v (T.header H name).length).length := by
      unfold Ty.ser; simp
    rw [this]; simpa [Borrow.toBlock] using hin.2
  · simpa [ModeOK, Borrow.toBlock] using hal

/-- A sequence of zero-copy elements comes back as a slice *into the buffer* at the block the
    writer emitted, for every length: the payload is referenced, not copied. Its in-memory elements
    (`vs`) are carried only to describe the value. -/
theorem vec_borrowed_in_place (base : Nat) (t : Ty) (vs : List Val) (pos : Nat) (rest : B)
    (hz : t.isZC = true) (hw : t.wf = true) (hwt : (Ty.vec t).wt (.seq vs) = true)
    (ha : ModeOK (.slice base) (pos + 8 + pad (pos + 8) t.maxSizeOf) t.maxSizeOf) :
    ∃ n, (Ty.vec t).decEps base ((Ty.vec t).enc (.seq vs) pos ++ rest) pos
      = .ok (.bSlice (pos + 8 + pad (pos + 8) t.maxSizeOf) t vs, rest, n) :=
  ⟨_, eps_vec_zero_shape base t vs pos rest hz hw hwt ha⟩

theorem string_borrowed_in_place (base : Nat) (b rest : B) (pos : Nat) (hl : b.length < 2^63) :
    Ty.string.decEps base (Ty.string.enc (.str b) pos ++ rest) pos
      = .ok (.bStr (pos + 8) b, rest, pos + (8 + b.length)) :=
  eps_string_shape base b rest pos hl

/-- **Allocation independent of borrowed payloads** (model level): replacing the payload of any
    borrowed node by any other payload — longer or shorter — does not change the allocation count. -/
theorem alloc_payload_independent (off off' : Nat) (t : Ty) (vs vs' : List Val) (b b' : B) (v v' : Val) :
    epsAllocs (.bSlice off t vs) = epsAllocs (.bSlice off' t vs') ∧
    epsAllocs (.bStr off b) = epsAllocs (.bStr off' b') ∧
    epsAllocs (.bRef off t v) = epsAllocs (.bRef off' t v') := by
  simp [epsAllocs]

/-- **What the ε-copy reader allocates is determined by the type and by the deep-copy skeleton of its result**, for
    every input (valid stream or not), base address and position: `Ty.allocOf` looks only at the nodes the type makes
    rebuilt (deep sequences and arrays: one allocation when non-empty, plus their items) and at the fields that are fully
    copied by design; strings, sequences of zero-copy items, zero-copy arrays / tuples / structures contribute nothing
    whatever they contain (`Ty.allocOf_string`, `Ty.allocOf_vec_zero`, … hold for *every* value). -/
theorem eps_alloc_determined (base : Nat) (T : Ty) (d : B) (pos : Nat) (e : EVal) (d' : B) (p' : Nat)
    (h : T.decEps base d pos = .ok (e, d', p')) : epsAllocs e = T.allocOf e.erase :=
  Ty.eps_alloc base T d pos e d' p' h

/-- **Allocation independent of the borrowed payloads** (the second sentence of the property, at full strength on the
    model's reader): two values of one type with the same deep-copy skeleton (`Ty.skel`: they differ only in what is
    borrowed — contents and lengths of strings and zero-copy sequences, zero-copy data) cost the ε-copy reader the same
    allocations, wherever their streams are placed. -/
theorem alloc_independent_of_borrowed_payloads (base base' : Nat) (T : Ty) (v w : Val) (hT : T.wf = true)
    (hv : T.wt v = true) (hw : T.wt w = true) (pos pos' : Nat) (rest rest' : B)
    (ha : AlignedAll (.slice base) (T.blocks v pos)) (ha' : AlignedAll (.slice base') (T.blocks w pos'))
    (hs : T.skel v = T.skel w) :
    ∃ e e', T.decEps base (T.enc v pos ++ rest) pos = .ok (e, rest, pos + (T.enc v pos).length) ∧
      T.decEps base' (T.enc w pos' ++ rest') pos' = .ok (e', rest', pos' + (T.enc w pos').length) ∧
      epsAllocs e = epsAllocs e' := by
  obtain ⟨e, he, hev, _⟩ := C02.decEps_enc base T v hT hv pos rest ha
  obtain ⟨e', he', hew, _⟩ := C02.decEps_enc base' T w hT hw pos' rest' ha'
  refine ⟨e, e', he, he', ?_⟩
  rw [Ty.eps_alloc base T _ pos e _ _ he, Ty.eps_alloc base' T _ pos' e' _ _ he', hev, hew]
  exact Ty.allocOf_of_skel_eq T v w hs

/-- Non-vacuity of the skeleton hypothesis: a structure `{ a: A = Vec<u8> (a type parameter), n: u16 }` holding three
    bytes and one holding none have the same skeleton; so have two vectors of strings of the same length. -/
example :
    let T : Ty := .adt ⟨[0x57], false, false, false, [], 1, []⟩ (.cons [0x57] (.cons [0x61] true (.vec (.prim (.int .u8))) (.cons [0x6e] false (.prim (.int .u16)) .nil)) .nil)
    T.skel (.record [.seq [.bits 1, .bits 2, .bits 3], .bits 7]) = T.skel (.record [.seq [], .bits 7]) := by
  simp [Ty.skel, Fields.skel, Ty.isZC]
example : (Ty.vec .string).skel (.seq [.str [1, 2, 3], .str []]) = (Ty.vec .string).skel (.seq [.str [], .str [9]]) := by
  simp [Ty.skel, Ty.skelList, Ty.isZC]
/-- … and a longer vector of strings has a different one (the rebuilt sequence keeps its length). -/
example : (Ty.vec .string).skel (.seq [.str [1]]) ≠ (Ty.vec .string).skel (.seq [.str [1], .str [2]]) := by
  simp [Ty.skel, Ty.skelList, Ty.isZC]

/-- Non-vacuity: `Vec<u32>` with one block. -/
example : AlignedAll (.slice 0) ((Ty.vec (.prim (.int .u32))).blocks (.seq [.bits 1]) 60) := by
  intro b hb
  simp [Ty.blocks, Ty.blocksSeq, Ty.isZC, Ty.maxSizeOf, Prim.size, IntK.size] at hb
  subst hb
  simp [ModeOK, pad]

end Eps.C03
