/-
  C01 — Full-copy round trip returns the value that was serialized.

  Property theorems only; helper lemmas are in `EpsModel/Lemmas`. `H` is the digest function of
  the header (XXH3-64 in the crate): the theorems hold for every `H` with 64-bit values.
-/
import EpsModel.Lemmas.TopLevel
namespace Eps.C01
open Eps

/-- Body level, any stream position, any trailing bytes: the full-copy reader returns exactly the
    value written, leaves the trailing bytes alone and advances by the number of bytes written.
    Every type of the well-formed universe (all built-in implementations, derived structs and
    enums at any nesting), every well-typed value. -/
theorem decFull_enc (T : Ty) (v : Val) (hT : T.wf = true) (hv : T.wt v = true) (pos : Nat) (rest : B) :
    T.decFull .reader (T.enc v pos ++ rest) pos = .ok (v, rest, pos + (T.enc v pos).length) :=
  Ty.framedFull .reader T hT v hv pos rest (AlignedAll_reader _)

/-- `deserialize_full(serialize(v)) = Ok(v)` and the bytes consumed are the bytes written — for
    every well-formed type, every well-typed value, every type name, every digest function. -/
theorem deFull_ser (H : B → Nat) (hH : ∀ b, H b < 2^64) (T : Ty) (name : B) (v : Val)
    (hT : T.wf = true) (hv : T.wt v = true)
    (hname : validUtf8 name = true) (hlen : name.length < 2^63) :
    T.deFull H (T.ser H name v) = .ok (v, (T.ser H name v).length) := by
  unfold Ty.deFull Ty.ser Ty.header
  simp only []
  have h1 : T.typeHash H < 2^64 := hH _
  have h2 : T.alignHash H < 2^64 := hH _
  rw [checkHeader_wHeader _ _ name _ h1 h2 hname hlen]
  simp only [Res.bind_ok]
  have := decFull_enc T v hT hv (wHeader (T.typeHash H) (T.alignHash H) name).length []
  simp only [List.append_nil] at this
  rw [this]
  simp

/-- Trailing bytes after a serialized value are not looked at (streams can be concatenated). -/
theorem deFull_ser_append (H : B → Nat) (hH : ∀ b, H b < 2^64) (T : Ty) (name : B) (v : Val) (rest : B)
    (hT : T.wf = true) (hv : T.wt v = true)
    (hname : validUtf8 name = true) (hlen : name.length < 2^63) :
    T.deFull H (T.ser H name v ++ rest) = .ok (v, (T.ser H name v).length) := by
  unfold Ty.deFull Ty.ser Ty.header
  simp only [List.append_assoc]
  have h1 : T.typeHash H < 2^64 := hH _
  have h2 : T.alignHash H < 2^64 := hH _
  rw [checkHeader_wHeader _ _ name _ h1 h2 hname hlen]
  simp only [Res.bind_ok]
  rw [decFull_enc T v hT hv (wHeader (T.typeHash H) (T.alignHash H) name).length rest]
  simp

/-- The one excluded class of values: an exhausted inclusive range is refused by the documented
    assertion (a panic), not silently turned into another value. -/
theorem decFull_exhausted (T : Ty) (a b : Val) (hT : T.wf = true) (ha : T.wt a = true) (hb : T.wt b = true)
    (pos : Nat) (rest : B) :
    (Ty.range .incl T).decFull .reader
      (T.enc a pos ++ T.enc b (pos + (T.enc a pos).length) ++ [1] ++ rest) pos = .panic := by
  simp only [Ty.decFull, List.append_assoc]
  rw [decFull_enc T a hT ha pos]
  simp only [Res.bind_ok]
  rw [decFull_enc T b hT hb]
  simp only [Res.bind_ok, List.cons_append, List.nil_append]
  rw [readWord_byte]
  simp

/-! Non-vacuity: concrete types and values meet the hypotheses. -/

example : (Ty.vec (.prim (.int .u32))).wf = true ∧
    (Ty.vec (.prim (.int .u32))).wt (.seq [.bits 1, .bits 2, .bits 4294967295]) = true := by
  simp [Ty.wf, Ty.wt, Ty.wtList, Prim.wt, Ty.isZC, IntK.size, Ty.sizeOf, Prim.size]

example : (Ty.controlFlow (.prim (.int .u8)) .string).wf = true ∧
    (Ty.controlFlow (.prim (.int .u8)) .string).wt (.variant 1 [.str [0x68, 0x69]]) = true := by
  simp [Ty.wf, Ty.wt, validUtf8]

example : (Ty.vec (.prim .unit)).wf = true ∧ (Ty.vec (.prim .unit)).wt (.seq [.unit, .unit]) = true := by
  simp [Ty.wf, Ty.wt, Ty.wtList, Ty.isZC, Ty.sizeOf, Prim.size]

/-- a deep-copy struct `S { a: Option<Vec<u16>>, b: [String; 1] }` whose first field is read ε-copy -/
example :
    let T := Ty.adt { name := [83], isEnum := false, zero := false, deepAttr := false, reprs := [],
                      alignAttr := 1, consts := [] }
              (.cons [83] (.cons [97] true (.option (.vec (.prim (.int .u16))))
                          (.cons [98] false (.array .string 1) .nil)) .nil)
    T.wf = true ∧ T.wt (.record [.variant 1 [.seq [.bits 7]], .seq [.str []]]) = true := by
  simp [Ty.wf, Ty.wt, Ty.wtList, Fields.wt, Fields.wf, Variants.wf, Variants.length, Prim.wt, Ty.isZC,
    Ty.isDeep, Ty.copyKind, IntK.size, Ty.sizeOf, Prim.size, validUtf8, pow2b, List.range, List.range.loop]

/-- a zero-copy enum `#[repr(C)] #[zero_copy] enum E { A, B(u16) }` (a 4-byte tag followed by the union
    of the variants) is in the well-formed universe, and so is a vector of it -/
example :
    let T := Ty.adt { name := [69], isEnum := true, zero := true, deepAttr := false, reprs := [[0x43]],
                      alignAttr := 1, consts := [] }
              (.cons [65] .nil (.cons [66] (.cons [48] false (.prim (.int .u16)) .nil) .nil))
    T.wf = true ∧ T.wt (.variant 1 [.bits 7]) = true ∧ (Ty.vec T).wf = true := by
  simp [Ty.wf, Ty.wt, Fields.wt, Fields.wf, Variants.wt, Variants.wf, Variants.length, Variants.allZC, Fields.allZC, Prim.wt,
    Ty.isZC, IntK.size, pow2b, List.range, List.range.loop]

end Eps.C01
