import EpsModel.Header
namespace Eps.C01
theorem placeholder : (1 : Nat) = 1 := rfl
end Eps.C01
