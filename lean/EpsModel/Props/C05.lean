/-
  C05 — Derived implementations are correct for every user type in the grammar.

  The derive macro is modelled at the level it works at: a definition (`Def`) with type and const
  parameters whose field types are expressions over the parameters, and `Def.derive`, the
  instantiated type together with the per-field decision "ε-copy method or full-copy method". The
  theorems: (i) the decision is exactly "the declared type is literally a type parameter";
  (ii) consequently, whatever bytes are read, the ε-copy result of a derived deep-copy structure has
  the ε-copy shape at the literal-parameter fields and an owned, fully deserialized value at all
  others (including those that merely mention a parameter), and a derived zero-copy structure
  becomes a reference; (iii) derived types round-trip in both modes (instances of C01/C02 at
  `Def.derive`); (iv) the attribute check. That `Def.derive` is what the macro generates is the
  correspondence (the generated universe: `derive`, `dtype` and round-trip lines) — the macro's
  token manipulation itself is not modelled.
-/
import EpsModel.Derive
import EpsModel.Lemmas.ConformL
import EpsModel.Props.C01
import EpsModel.Props.C02
namespace Eps.C05
open Eps

/-! ### (i) Classification of fields -/

def flags : Fields → List Bool
  | .nil => []
  | .cons _ f _ r => f :: flags r

def types : Fields → List Ty
  | .nil => []
  | .cons _ _ t r => t :: types r

def names : Fields → List B
  | .nil => []
  | .cons n _ _ r => n :: names r

theorem isParam_iff (e : TyExpr) : e.isParam = true ↔ ∃ i, e = .param i := by
  cases e <;> simp [TyExpr.isParam]

/-- The generated code calls the ε-copy method for a field iff its declared type is literally a
    type parameter; names, order and instantiated types are those of the definition. -/
theorem instFields_spec (ta : List Ty) (ca : List Nat) (fs : List FieldDef) :
    flags (instFields ta ca fs) = fs.map (·.te.isParam) ∧
    types (instFields ta ca fs) = fs.map (·.te.inst ta ca) ∧
    names (instFields ta ca fs) = fs.map (·.name) := by
  induction fs with
  | nil => simp [instFields, flags, types, names]
  | cons f fs ih => simp [instFields, flags, types, names, ih.1, ih.2.1, ih.2.2]

/-- A field that merely mentions a parameter (`Vec<T>`, `[T; N]`, `Option<T>`, …) is not
    parameter-typed. -/
theorem mentions_not_literal (e : TyExpr) (h : ∀ i, e ≠ .param i) : e.isParam = false := by
  cases e <;> simp [TyExpr.isParam] at h ⊢

/-- The replaced parameters are exactly those that are the type of some field. -/
theorem mem_replacedParams (d : Def) (i : Nat) :
    i ∈ d.replacedParams ↔ i < d.nTypeParams ∧ ∃ v ∈ d.variants, ∃ f ∈ v.fields, f.te = .param i := by
  unfold Def.replacedParams
  rw [List.mem_filter, List.mem_range]
  constructor
  · rintro ⟨hi, h⟩
    refine ⟨hi, ?_⟩
    rw [List.any_eq_true] at h
    obtain ⟨v, hv, h⟩ := h
    rw [List.any_eq_true] at h
    obtain ⟨f, hf, h⟩ := h
    refine ⟨v, hv, f, hf, ?_⟩
    cases hte : f.te <;> simp [hte] at h
    rw [h]
  · rintro ⟨hi, v, hv, f, hf, h⟩
    refine ⟨hi, ?_⟩
    rw [List.any_eq_true]
    refine ⟨v, hv, ?_⟩
    rw [List.any_eq_true]
    exact ⟨f, hf, by simp [h]⟩

/-! ### (ii) The ε-copy type -/

/-- Field by field, for *any* result of the ε-copy reader over the fields of a definition: a
    field whose declared type is the parameter `i` has the ε-copy shape of the argument; every
    other field is an owned, fully deserialized value. -/
theorem fields_shape (ta : List Ty) (ca : List Nat) : ∀ (fs : List FieldDef) (es : List EVal),
    Fields.Conforms (instFields ta ca fs) es →
    es.length = fs.length ∧
    ∀ (k : Nat) (f : FieldDef) (e : EVal), fs[k]? = some f → es[k]? = some e →
      (∀ i, f.te = .param i → (ta.getD i (.prim .unit)).Conforms e) ∧
      ((∀ i, f.te ≠ .param i) → ∃ v, e = .full v)
  | [], es, h => by
    simp only [instFields, Fields.Conforms] at h
    subst h
    exact ⟨rfl, fun k f e hf => by simp at hf⟩
  | f :: fs, es, h => by
    simp only [instFields, Fields.Conforms] at h
    obtain ⟨e, rest, hes, hhead, hrest⟩ := h
    subst hes
    obtain ⟨hl, ih⟩ := fields_shape ta ca fs rest hrest
    refine ⟨by simp [hl], ?_⟩
    intro k g x hg hx
    cases k with
    | zero =>
      simp only [List.getElem?_cons_zero, Option.some.injEq] at hg hx
      subst hg; subst hx
      constructor
      · intro i hi
        simp only [hi, TyExpr.isParam, if_true, TyExpr.inst] at hhead
        exact hhead
      · intro hn
        rw [mentions_not_literal _ hn] at hhead
        simpa using hhead
    | succ k =>
      simp only [List.getElem?_cons_succ] at hg hx
      exact ih k g x hg hx

/-- **Deep-copy structures.** Whatever the bytes, if the ε-copy reader of a derived deep-copy
    struct returns, it returns a structure with one component per field, parameter-typed fields
    replaced by the ε-copy form of the argument, all other fields owned. -/
theorem derived_struct_eps_shape (d : Def) (vname : B) (fs : List FieldDef) (ta : List Ty) (ca : List Nat) (base : Nat)
    (hz : d.zero = false) (he : d.isEnum = false) (hv : d.variants = [⟨vname, fs⟩])
    (data : B) (pos : Nat) (e : EVal) (data' : B) (pos' : Nat)
    (h : (d.derive ta ca).decEps base data pos = .ok (e, data', pos')) :
    ∃ es, e = .record es ∧ es.length = fs.length ∧
      ∀ (k : Nat) (f : FieldDef) (x : EVal), fs[k]? = some f → es[k]? = some x →
        (∀ i, f.te = .param i → (ta.getD i (.prim .unit)).Conforms x) ∧
        ((∀ i, f.te ≠ .param i) → ∃ v, x = .full v) := by
  have hc := Ty.decEps_conforms base _ _ _ _ _ _ h
  simp only [Def.derive, hv, instVariants, Ty.Conforms, hz, he] at hc
  obtain ⟨es, hes, hf⟩ := by simpa using hc
  obtain ⟨hl, hk⟩ := fields_shape ta ca fs es hf
  exact ⟨es, hes, hl, hk⟩

/-- **Deep-copy enums**: the same, for the fields of the variant that was read. -/
theorem derived_enum_eps_shape (d : Def) (ta : List Ty) (ca : List Nat) (base : Nat)
    (hz : d.zero = false) (he : d.isEnum = true)
    (data : B) (pos : Nat) (e : EVal) (data' : B) (pos' : Nat)
    (h : (d.derive ta ca).decEps base data pos = .ok (e, data', pos')) :
    ∃ i es vd, e = .variant i es ∧ d.variants[i]? = some vd ∧ es.length = vd.fields.length ∧
      ∀ (k : Nat) (f : FieldDef) (x : EVal), vd.fields[k]? = some f → es[k]? = some x →
        (∀ j, f.te = .param j → (ta.getD j (.prim .unit)).Conforms x) ∧
        ((∀ j, f.te ≠ .param j) → ∃ v, x = .full v) := by
  have hc := Ty.decEps_conforms base _ _ _ _ _ _ h
  simp only [Def.derive, Ty.Conforms, hz, he] at hc
  obtain ⟨i, es, hes, hv⟩ := by simpa using hc
  refine ⟨i, es, ?_⟩
  have key : ∀ (vs : List VariantDef) (i : Nat), Variants.Conforms (instVariants ta ca vs) i es →
      ∃ vd, vs[i]? = some vd ∧ Fields.Conforms (instFields ta ca vd.fields) es := by
    intro vs
    induction vs with
    | nil => intro i h; simp [instVariants, Variants.Conforms] at h
    | cons v vs ih =>
      intro i h
      cases i with
      | zero => simp only [instVariants, Variants.Conforms] at h; exact ⟨v, rfl, h⟩
      | succ i => simp only [instVariants, Variants.Conforms] at h; simpa using ih i h
  obtain ⟨vd, hvd, hf⟩ := key d.variants i hv
  obtain ⟨hl, hk⟩ := fields_shape ta ca vd.fields es hf
  exact ⟨vd, hes, hvd, hl, hk⟩

/-- **Zero-copy types** become a reference to the type (into the buffer, or — for types of size
    zero — a dangling-but-aligned one), whatever their parameters. -/
theorem derived_zero_eps_is_ref (d : Def) (ta : List Ty) (ca : List Nat) (base : Nat) (hz : d.zero = true)
    (data : B) (pos : Nat) (e : EVal) (data' : B) (pos' : Nat)
    (h : (d.derive ta ca).decEps base data pos = .ok (e, data', pos')) :
    (∃ off v, e = .bRef off (d.derive ta ca) v) ∨ (∃ v, e = .zRef (d.derive ta ca) v) := by
  have hc := Ty.decEps_conforms base _ _ _ _ _ _ h
  simp only [Def.derive, Ty.Conforms, hz, if_true] at hc
  simpa only [Def.derive, hz] using hc

/-! ### (iii) Round trips of derived types -/

theorem derived_roundtrip_full (H : B → Nat) (hH : ∀ b, H b < 2^64) (d : Def) (ta : List Ty) (ca : List Nat)
    (name : B) (v : Val) (hT : (d.derive ta ca).wf = true) (hv : (d.derive ta ca).wt v = true)
    (hname : validUtf8 name = true) (hlen : name.length < 2^63) :
    (d.derive ta ca).deFull H ((d.derive ta ca).ser H name v) = .ok (v, ((d.derive ta ca).ser H name v).length) :=
  C01.deFull_ser H hH _ name v hT hv hname hlen

theorem derived_roundtrip_eps (H : B → Nat) (hH : ∀ b, H b < 2^64) (d : Def) (ta : List Ty) (ca : List Nat)
    (name : B) (v : Val) (base : Nat) (hT : (d.derive ta ca).wf = true) (hv : (d.derive ta ca).wt v = true)
    (hname : validUtf8 name = true) (hlen : name.length < 2^63)
    (hb : ∀ b ∈ (d.derive ta ca).blocks v ((d.derive ta ca).header H name).length, base % b.unit = 0) :
    ∃ e, (d.derive ta ca).deEps H base ((d.derive ta ca).ser H name v) = .ok (e, ((d.derive ta ca).ser H name v).length)
      ∧ e.erase = v :=
  C02.deEps_ser H hH _ name v base hT hv hname hlen hb

/-! ### Well-formedness at definition level -/

/-- The conditions, stated on the definition and its arguments, under which the derived type is in
    the universe the round-trip theorems cover: a power-of-two `align(N)`, every field type
    well formed at the arguments, fewer than 2^64 variants (2^32 for a zero-copy enum, whose tag is
    a C `int`), a struct has exactly one field list, and — for a zero-copy declaration — every field
    type `ZeroCopy` at the arguments (what the derived code demands at compile time, C17). -/
def okAt (d : Def) (ta : List Ty) (ca : List Nat) : Bool :=
  pow2b d.alignAttr &&
  d.variants.all (fun v => v.fields.all fun f => (f.te.inst ta ca).wf) &&
  decide (d.variants.length < 2^64) &&
  (if d.zero then d.variants.all (fun v => v.fields.all fun f => (f.te.inst ta ca).isZC) && decide (d.variants.length < 2^32) else true) &&
  (d.isEnum || d.variants.length == 1)

theorem instFields_wf (ta : List Ty) (ca : List Nat) : ∀ fs : List FieldDef,
    (instFields ta ca fs).wf = fs.all fun f => (f.te.inst ta ca).wf
  | [] => by simp [instFields, Fields.wf]
  | f :: fs => by simp [instFields, Fields.wf, instFields_wf ta ca fs]

theorem instFields_allZC (ta : List Ty) (ca : List Nat) : ∀ fs : List FieldDef,
    (instFields ta ca fs).allZC = fs.all fun f => (f.te.inst ta ca).isZC
  | [] => by simp [instFields, Fields.allZC]
  | f :: fs => by simp [instFields, Fields.allZC, instFields_allZC ta ca fs]

theorem instVariants_wf (ta : List Ty) (ca : List Nat) : ∀ vs : List VariantDef,
    (instVariants ta ca vs).wf = vs.all fun v => v.fields.all fun f => (f.te.inst ta ca).wf
  | [] => by simp [instVariants, Variants.wf]
  | v :: vs => by simp [instVariants, Variants.wf, instFields_wf, instVariants_wf ta ca vs]

theorem instVariants_allZC (ta : List Ty) (ca : List Nat) : ∀ vs : List VariantDef,
    (instVariants ta ca vs).allZC = vs.all fun v => v.fields.all fun f => (f.te.inst ta ca).isZC
  | [] => by simp [instVariants, Variants.allZC]
  | v :: vs => by simp [instVariants, Variants.allZC, instFields_allZC, instVariants_allZC ta ca vs]

theorem instVariants_length (ta : List Ty) (ca : List Nat) : ∀ vs : List VariantDef,
    (instVariants ta ca vs).length = vs.length
  | [] => by simp [instVariants, Variants.length]
  | v :: vs => by simp [instVariants, Variants.length, instVariants_length ta ca vs]

/-- The derived type is well formed exactly when the definition is, at the arguments. -/
theorem derive_wf_iff (d : Def) (ta : List Ty) (ca : List Nat) : (d.derive ta ca).wf = okAt d ta ca := by
  simp only [Def.derive, Ty.wf, okAt, instVariants_wf, instVariants_allZC, instVariants_length]

/-- **Every definition of the grammar, every instantiation, every value, both modes**: stated on
    the definition. -/
theorem grammar_roundtrip (H : B → Nat) (hH : ∀ b, H b < 2^64) (d : Def) (ta : List Ty) (ca : List Nat)
    (name : B) (v : Val) (base : Nat) (hd : okAt d ta ca = true) (hv : (d.derive ta ca).wt v = true)
    (hname : validUtf8 name = true) (hlen : name.length < 2^63)
    (hb : ∀ b ∈ (d.derive ta ca).blocks v ((d.derive ta ca).header H name).length, base % b.unit = 0) :
    (d.derive ta ca).deFull H ((d.derive ta ca).ser H name v) = .ok (v, ((d.derive ta ca).ser H name v).length) ∧
    ∃ e, (d.derive ta ca).deEps H base ((d.derive ta ca).ser H name v) = .ok (e, ((d.derive ta ca).ser H name v).length) ∧ e.erase = v := by
  have hT : (d.derive ta ca).wf = true := by rw [derive_wf_iff]; exact hd
  exact ⟨C01.deFull_ser H hH _ name v hT hv hname hlen, C02.deEps_ser H hH _ name v base hT hv hname hlen hb⟩

/-! ### (iv) Attribute coherence -/

/-- `check_attrs` refuses exactly: zero-copy without `repr(C)`, and zero-copy together with
    deep-copy. -/
theorem attrsOk_iff (d : Def) :
    d.attrsOk = true ↔ (d.zero = true → [0x43] ∈ d.reprs ∧ d.deepAttr = false) := by
  unfold Def.attrsOk
  cases d.zero <;> cases d.deepAttr <;> simp

/-! ### Non-vacuity: `struct S<T, const N: usize> { a: T, b: Vec<T>, c: [u8; N] }` at `T = Vec<u32>`, `N = 3` -/

def exDef : Def :=
  { name := [0x53], isEnum := false, zero := false, deepAttr := false, reprs := [], alignAttr := 1,
    nTypeParams := 1, constParams := [([0x4e], .int .usize)],
    variants := [⟨[0x53], [⟨[0x61], .param 0⟩, ⟨[0x62], .vec (.param 0)⟩, ⟨[0x63], .constArray (.ty (.prim (.int .u8))) 0⟩]⟩] }

example : exDef.replacedParams = [0] := by decide
example : okAt exDef [.vec (.prim (.int .u32))] [3] = true := by
  simp [exDef, okAt, TyExpr.inst, Ty.wf, Ty.isZC, Ty.isDeep, Ty.copyKind, pow2b]
  decide
example : (exDef.derive [.vec (.prim (.int .u32))] [3]).wf = true := by
  simp [exDef, Def.derive, instVariants, instFields, TyExpr.inst, TyExpr.isParam, zipConsts, Ty.wf, Variants.wf, Fields.wf,
    Variants.length, Ty.isZC, Ty.isDeep, Ty.copyKind, pow2b]
  decide

end Eps.C05
