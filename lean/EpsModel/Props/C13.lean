/-
  C13 — Writer failures yield an error, a clean prefix, and an intact source value.

  The statements quantify over *every* sink obeying the `write_all` contract, every fault schedule
  and every way the serializer may chunk its output (`chunks.flatten` is the fault-free output).
-/
import EpsModel.IO
import EpsModel.Lemmas.Basic
namespace Eps.C13
open Eps Eps.IO

/-- `Write::write_all` over any device and schedule (short writes, `Interrupted`, failures at any
    point) obeys the contract: what was accepted is a prefix of the buffer, and `Ok` is returned
    only if all of it was accepted. -/
theorem writeAll_contract : ∀ (rs : List Resp) (buf : B),
    (writeAll rs buf).1 <+: buf ∧ ((writeAll rs buf).2.2 = true → (writeAll rs buf).1 = buf)
  | rs, [] => by simp [writeAll]
  | [], b :: bs => by simp [writeAll]
  | .interrupted :: rs, b :: bs => by
      rw [writeAll]; exact writeAll_contract rs (b :: bs)
  | .fail :: rs, b :: bs => by simp [writeAll]
  | .take 0 :: rs, b :: bs => by simp [writeAll]
  | .take (n+1) :: rs, b :: bs => by
      rw [writeAll]
      split
      · simp
      · have ih := writeAll_contract rs ((b :: bs).drop (n + 1))
        simp only []
        constructor
        · obtain ⟨t, ht⟩ := ih.1
          refine ⟨t, ?_⟩
          rw [List.append_assoc, ht, List.take_append_drop]
        · intro hok
          rw [ih.2 hok, List.take_append_drop]
termination_by rs buf => rs.length + buf.length
decreasing_by all_goals simp_wf <;> omega

/-- **Prefix**: whatever the sink does, the bytes it accepted are a prefix of the fault-free output
    (here: of what was accepted before followed by all the chunks). -/
theorem runSink_prefix (sk : Sink) : ∀ (cs : List B) (acc : B),
    acc <+: (runSink sk acc cs).1 ∧ (runSink sk acc cs).1 <+: acc ++ cs.flatten
  | [], acc => by simp [runSink]
  | c :: cs, acc => by
      simp only [runSink]
      split
      · refine ⟨List.prefix_append _ _, ?_⟩
        simp only [List.flatten_cons]
        rw [← List.append_assoc]
        refine List.IsPrefix.trans ?_ (List.prefix_append _ _)
        exact (List.prefix_append_right_inj acc).mpr (List.take_prefix _ c)
      · have ih := runSink_prefix sk cs (acc ++ c)
        refine ⟨List.IsPrefix.trans (List.prefix_append _ _) ih.1, ?_⟩
        simpa [List.flatten_cons, List.append_assoc] using ih.2

/-- **Result**: success is reported only if every byte was accepted (and flush succeeded); the
    count is then the number of bytes handed to the sink. Never success on a failing sink. -/
theorem runSink_ok (sk : Sink) : ∀ (cs : List B) (acc : B) (n : Nat),
    (runSink sk acc cs).2 = .ok n →
      (runSink sk acc cs).1 = acc ++ cs.flatten ∧ n = (acc ++ cs.flatten).length ∧ sk.flushOk (acc ++ cs.flatten) = true
  | [], acc, n => by
      simp only [runSink, List.flatten_nil, List.append_nil]
      split <;> simp_all
  | c :: cs, acc, n => by
      simp only [runSink]
      split
      · intro h; cases h
      · intro h
        have := runSink_ok sk cs (acc ++ c) n h
        simpa [List.flatten_cons, List.append_assoc] using this

/-- A sink that merely splits or retries writes, i.e. ends up taking every chunk entirely, receives
    exactly the fault-free bytes, and serialization succeeds with the exact count. -/
theorem split_ok (sk : Sink) (hacc : ∀ acc c, c.length ≤ sk.accept acc c) (hfl : ∀ acc, sk.flushOk acc = true) :
    ∀ (cs : List B) (acc : B), runSink sk acc cs = (acc ++ cs.flatten, .ok (acc ++ cs.flatten).length)
  | [], acc => by simp [runSink, hfl]
  | c :: cs, acc => by
      simp only [runSink]
      have : ¬ (min (sk.accept acc c) c.length < c.length) := by have := hacc acc c; omega
      rw [if_neg this, split_ok sk hacc hfl cs (acc ++ c)]
      simp [List.flatten_cons, List.append_assoc]

/-- **Failure at every position**: a sink that accepts `k` bytes in total and then refuses — for
    every `k`, every chunking — has accepted exactly the first `k` bytes of the output, and the
    result is a write error iff `k` is less than the length of the output (or flush fails). -/
theorem budget_run (k : Nat) (ff : Bool) : ∀ (cs : List B) (acc : B), acc.length ≤ k →
    runSink (budgetSink k ff) acc cs =
      ((acc ++ cs.flatten).take k,
       if k < (acc ++ cs.flatten).length then .writeError
       else if ff then .writeError else .ok (acc ++ cs.flatten).length)
  | [], acc, h => by
      have h1 : ¬ (k < acc.length) := by omega
      simp only [runSink, budgetSink, List.flatten_nil, List.append_nil, h1, if_false]
      rw [List.take_of_length_le h]
      cases ff <;> simp
  | c :: cs, acc, h => by
      have hacc : (budgetSink k ff).accept acc c = min c.length (k - acc.length) := rfl
      rw [runSink]
      rw [hacc]
      by_cases hfit : acc.length + c.length ≤ k
      · have h1 : ¬ (min (min c.length (k - acc.length)) c.length < c.length) := by omega
        rw [if_neg h1]
        rw [budget_run k ff cs (acc ++ c) (by simp; omega)]
        simp [List.flatten_cons, List.append_assoc]
      · have h1 : min (min c.length (k - acc.length)) c.length < c.length := by omega
        rw [if_pos h1]
        have hlt : k < (acc ++ (c :: cs).flatten).length := by simp [List.flatten_cons]; omega
        rw [if_pos hlt]
        congr 1
        have hm : min (min c.length (k - acc.length)) c.length = k - acc.length := by omega
        rw [hm, List.flatten_cons, ← List.append_assoc, List.take_append_of_le_length (by simp; omega)]
        rw [List.take_append, List.take_of_length_le h]

/-- **A failing flush is reported wherever the structure starts**: whatever the sink had accepted before (`acc`: the
    structure need not be the first thing on the stream — `serialize_on_field_write` at any position), if the final
    `flush` fails the result is a write error. -/
theorem flush_fail_any_offset (sk : Sink) (cs : List B) (acc : B) (hfl : ∀ a, sk.flushOk a = false) :
    (runSink sk acc cs).2 = .writeError := by
  cases h : (runSink sk acc cs).2 with
  | writeError => rfl
  | ok n =>
    have := (runSink_ok sk cs acc n h).2.2
    rw [hfl] at this
    cases this

example : (runSink (budgetSink 100 true) [0, 0, 0] [[1, 2], [3]]).2 = .writeError := by decide

/-! ### The borrowed buffer of a slice reference

    `impl SerializeInner for &[T]` builds a `Vec` aliasing the slice and keeps it in a
    `ManuallyDrop`; the ownership ledger of that function on both outcomes of the inner writer. -/

inductive Ev where
  | alias (p : Nat)      -- Vec::from_raw_parts on the caller's buffer
  | inner (ok : Bool)    -- the vector serializer ran, with this outcome
  | free (p : Nat)       -- the allocator is asked to free the buffer
  deriving Repr, DecidableEq

/-- events of serializing `&[T]` whose buffer is `p` (the aliasing vector is never dropped) -/
def sliceSerEvents (p : Nat) (innerOk : Bool) : List Ev := [.alias p, .inner innerOk]

/-- On no path — success or failure of the writer — is the caller's buffer freed. -/
theorem slice_no_free (p : Nat) (innerOk : Bool) : Ev.free p ∉ sliceSerEvents p innerOk := by
  cases innerOk <;> simp [sliceSerEvents]

/-- Non-vacuity: a budget of 3 bytes on the chunks `[1,2],[3,4,5]`. -/
example : runSink (budgetSink 3 false) [] [[1, 2], [3, 4, 5]] = ([1, 2, 3], .writeError) := by
  simp [runSink, budgetSink]

end Eps.C13
