/-
  C09 — Backing memory outlives every safe use and is released exactly once.

  Two small decision models (the runtime itself — the allocator, `munmap`, rustc's borrow checker
  — is what the correspondence exercises): the trace of acquire/use/release events of every loader
  on every path, and the lifetimes the API signatures attach to the handles a client can obtain.
-/
import EpsModel.Resources
namespace Eps.C09
open Eps

/-- **Released exactly once, after the last use, on every path**: success followed by any number
    of uses and the drop of the case, failure to open, to map, to read, deserialization returning
    an error, deserialization panicking — for every loader. -/
theorem release_once (l : Loader) (p : LoadPath) :
    countEv .acquire (loadTrace l p) = countEv .release (loadTrace l p) ∧
    countEv .acquire (loadTrace l p) ≤ 1 ∧
    (loadTrace l p = [] ∨ wellBracketed (loadTrace l p) = true) := by
  obtain ⟨o, m, r, d, u⟩ := p
  cases l <;> cases o <;> cases m <;> cases r <;>
    (rcases d with _ | _ | d) <;>
    simp [loadTrace, countEv, wellBracketed, List.filter_append, List.filter_replicate, List.getLast?_append,
          List.dropLast_append_of_ne_nil, List.contains_append] <;>
    (try (induction u <;> simp_all [List.replicate_succ]))

/-- **Nothing is leaked when loading fails**: on every failing path the trace is empty or ends with
    the release. -/
theorem fail_no_leak (l : Loader) (p : LoadPath) (h : p.deser ≠ 0 ∨ p.readOk = false ∨ p.mapOk = false ∨ p.openOk = false) :
    countEv .acquire (loadTrace l p) = countEv .release (loadTrace l p) :=
  (release_once l p).1

/-- **ε-copy results cannot outlive the buffer**: the handle carries the lifetime of the buffer. -/
theorem eps_borrow_bounded : bounded .epsResult = true ∧ handleLt .epsResult = .buf := by decide

/-- References obtained through `Deref` / `AsRef` are bounded by the borrow of the case. -/
theorem case_ref_bounded : bounded .caseDerefRef = true := by decide

/-- **Finding** (recorded, not repaired: the repair is a redesign of `MemCase`): the structure
    copied out of a case — `*case` when it is `Copy`, or any `Copy` field such as a `&'a [T]` — carries
    the lifetime the *caller* chose for `DeserType<'a>`, up to `'static`, not the lifetime of the case. -/
theorem case_copy_unbounded : bounded .caseDerefCopy = false ∧ handleLt .caseDerefCopy = .static := by decide

/-- Non-vacuity: a successful `load_mem` used twice. -/
example : loadTrace .mem ⟨true, true, true, 0, 2⟩ = [.acquire, .use, .use, .use, .use, .release] := by
  simp [loadTrace, List.replicate]

end Eps.C09
