/-
  C09 — Backing memory outlives every safe use and is released exactly once.

  Two small decision models (the runtime itself — the allocator, `munmap`, rustc's borrow checker
  — is what the correspondence exercises): the trace of acquire/use/release events of every loader
  on every path, and the lifetimes the API signatures attach to the handles a client can obtain.
-/
import EpsModel.Resources
namespace Eps.C09
open Eps

/-- **Released exactly once, after the last use, on every path**: success followed by any number
    of uses and the drop of the case, failure to open, to map, to read, deserialization returning
    an error, deserialization panicking — for every loader. -/
theorem release_once (l : Loader) (p : LoadPath) :
    countEv .acquire (loadTrace l p) = countEv .release (loadTrace l p) ∧
    countEv .acquire (loadTrace l p) ≤ 1 ∧
    (loadTrace l p = [] ∨ wellBracketed (loadTrace l p) = true) := by
  obtain ⟨o, m, r, d, u⟩ := p
  cases l <;> cases o <;> cases m <;> cases r <;>
    (rcases d with _ | _ | d) <;>
    simp [loadTrace, countEv, wellBracketed, List.filter_append, List.filter_replicate, List.getLast?_append,
          List.dropLast_append_of_ne_nil, List.contains_append] <;>
    (try (induction u <;> simp_all [List.replicate_succ]))

/-- **Nothing is leaked when loading fails**: on every failing path the trace is empty or ends with
    the release. -/
theorem fail_no_leak (l : Loader) (p : LoadPath) (h : p.deser ≠ 0 ∨ p.readOk = false ∨ p.mapOk = false ∨ p.openOk = false) :
    countEv .acquire (loadTrace l p) = countEv .release (loadTrace l p) :=
  (release_once l p).1

/-- **ε-copy results cannot outlive the buffer**: the handle carries the lifetime of the buffer. -/
theorem eps_borrow_bounded : bounded .epsResult = true ∧ handleLt .epsResult = .buf := by decide

/-- References obtained through `Deref` / `AsRef` are bounded by the borrow of the case. -/
theorem case_ref_bounded : bounded .caseDerefRef = true := by decide

/-- **Finding** (recorded, not repaired: the repair is a redesign of `MemCase`): the structure
    copied out of a case — `*case` when it is `Copy`, or any `Copy` field such as a `&'a [T]` — carries
    the lifetime the *caller* chose for `DeserType<'a>`, up to `'static`, not the lifetime of the case. -/
theorem case_copy_unbounded : bounded .caseDerefCopy = false ∧ handleLt .caseDerefCopy = .static := by decide

/-- Non-vacuity: a successful `load_mem` used twice. -/
example : loadTrace .mem ⟨true, true, true, 0, 2⟩ = [.acquire, .use, .use, .use, .use, .release] := by
  simp [loadTrace, List.replicate]


/-! ### Partially built arrays are released on every failing path -/

/-- Whatever the items do, a construction that does not succeed leaves nothing alive, whether the
    failing item returned an error or panicked, and wherever it sits in the array. -/
theorem partial_array_released : ∀ (items : List ItemOutcome) (acc : Nat),
    (buildArray items acc).2 ≠ .ok → (buildArray items acc).1 = 0
  | [], acc, h => by simp [buildArray] at h
  | .built hp :: rest, acc, h => by
      simp only [buildArray] at h ⊢
      exact partial_array_released rest (acc + hp) h
  | .failed :: _, _, _ => by simp [buildArray]
  | .panicked :: _, _, _ => by simp [buildArray]

/-- A successful construction owns exactly what its items own. -/
theorem array_ok_owns_items : ∀ (items : List ItemOutcome) (acc : Nat),
    (buildArray items acc).2 = .ok → (buildArray items acc).1 = acc + (items.map fun | .built h => h | _ => 0).sum
  | [], acc, _ => by simp [buildArray]
  | .built hp :: rest, acc, h => by
      simp only [buildArray] at h ⊢
      rw [array_ok_owns_items rest (acc + hp) h]
      simp [Nat.add_assoc]
  | .failed :: _, _, h => by simp [buildArray] at h
  | .panicked :: _, _, h => by simp [buildArray] at h

/-- The defect that was repaired, as a theorem about the unguarded construction: a `[String; 2]` whose
    second item fails keeps the first alive. -/
theorem unguarded_array_leaks : buildArrayNoGuard [.built 15, .failed] 0 = (15, .err) ∧
    buildArrayNoGuard [.built 40, .built 40, .panicked] 0 = (80, .unwound) := by decide

end Eps.C09
