/-
  C08 — File loaders agree with ε-copy of the file bytes and own a sound region.

  Runtime facts the model cannot exhibit (named in the manifest): that `mmap` / the allocator
  deliver the bytes of the file at an address with the stated alignment, and thread interleavings
  (the loaded structure is immutable after construction; the model has no shared mutable state).
-/
import EpsModel.Loaders
import EpsModel.Props.C03
import EpsModel.Props.C07
namespace Eps.C08
open Eps

/-- The region of the copying loaders is the file followed by zeros only, up to the next multiple
    of 64 (heap) resp. 16 (anonymous mapping): length, tail, minimality. -/
theorem region_mem (file : B) :
    regionOf .mem file = file ++ zeros (pad file.length 64) ∧
    (regionOf .mem file).length % 64 = 0 ∧ (regionOf .mem file).length < file.length + 64 := by
  have h := (C07.pad_spec file.length 6 (by omega))
  refine ⟨rfl, ?_, ?_⟩
  · simpa [regionOf] using h.1
  · have := h.2.1; simp [regionOf]; omega
theorem region_mmap (file : B) :
    regionOf .mmap file = file ++ zeros (pad file.length 16) ∧
    (regionOf .mmap file).length % 16 = 0 ∧ (regionOf .mmap file).length < file.length + 16 := by
  have h := (C07.pad_spec file.length 4 (by omega))
  refine ⟨rfl, ?_, ?_⟩
  · simpa [regionOf] using h.1
  · have := h.2.1; simp [regionOf]; omega
theorem region_map (file : B) : regionOf .map file = file := rfl

/-- **Zero extension is irrelevant, all loaders agree**: ε-copy deserialization of the region of
    any loader describes the value that was stored, consumes exactly the bytes of the file, and
    every borrowed part lies inside the file part of the region (so inside the region), on its unit —
    provided the region is placed on a multiple of every block unit, which the loaders guarantee for
    units up to 64 (heap: `A64`; mappings: page-aligned). -/
theorem loaders_agree (H : B → Nat) (hH : ∀ b, H b < 2^64) (T : Ty) (name : B) (v : Val) (l : Loader) (base : Nat)
    (hT : T.wf = true) (hv : T.wt v = true) (hname : validUtf8 name = true) (hlen : name.length < 2^63)
    (hb : ∀ b ∈ T.blocks v (T.header H name).length, base % b.unit = 0) :
    ∃ e, T.deEps H base (regionOf l (T.ser H name v)) = .ok (e, (T.ser H name v).length) ∧ e.erase = v ∧
      ∀ b ∈ e.borrows, (T.header H name).length ≤ b.off ∧ b.off + b.len ≤ (T.ser H name v).length ∧
        b.off + b.len ≤ (regionOf l (T.ser H name v)).length ∧ (base + b.off) % b.unit = 0 := by
  have ha := aligned_of_base base T hT v _ hb
  have key : ∀ rest, ∃ e, T.deEps H base (T.ser H name v ++ rest) = .ok (e, (T.ser H name v).length) ∧ e.erase = v ∧
      ∀ b ∈ e.borrows, (T.header H name).length ≤ b.off ∧ b.off + b.len ≤ (T.ser H name v).length ∧
        b.off + b.len ≤ (T.ser H name v ++ rest).length ∧ (base + b.off) % b.unit = 0 := by
    intro rest
    obtain ⟨e, he, hb'⟩ := C03.borrow_sound H hH T name v base rest hT hv hname hlen ha
    obtain ⟨e', he', her, _⟩ := Ty.deEps_ser_append H hH T name v base rest hT hv hname hlen ha
    rw [he] at he'; injection he' with he'; injection he' with h1 _; subst h1
    refine ⟨e, he, her, fun b hbm => ?_⟩
    obtain ⟨_, h1, h2, h3⟩ := hb' b hbm
    exact ⟨h1, h2, by simp; omega, h3⟩
  cases l with
  | full => simpa [regionOf] using key []
  | mem => exact key _
  | mmap => exact key _
  | map => simpa [regionOf] using key []

/-- `load_full` is full-copy deserialization of the file. -/
theorem load_full_agrees (H : B → Nat) (hH : ∀ b, H b < 2^64) (T : Ty) (name : B) (v : Val)
    (hT : T.wf = true) (hv : T.wt v = true) (hname : validUtf8 name = true) (hlen : name.length < 2^63) :
    T.deFull H (regionOf .full (T.ser H name v)) = .ok (v, (T.ser H name v).length) := by
  have := Ty.deFull_ser_append H hH T name v [] hT hv hname hlen
  simpa [regionOf] using this

/-- The flag translation is injective on the 8 flag sets (and total: every set has an image). -/
theorem flags_injective : ∀ a b : Fin 8, mmapFlags a.val = mmapFlags b.val → a = b := by decide

end Eps.C08
