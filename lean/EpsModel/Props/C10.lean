import EpsModel.Header
namespace Eps.C10
theorem placeholder : (1 : Nat) = 1 := rfl
end Eps.C10
