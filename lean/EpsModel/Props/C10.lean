/-
  C10 — Any corruption of the header's checked fields yields the specific error.

  The 29 fixed bytes of a header are six little-endian fields; *every* content of those bytes is
  `fixedHdr m maj min us sth sah` for the field values it decodes to, so the decision theorem below
  covers every single-bit flip, and every other corruption, of the fixed bytes at once.
  `check_header` is one function shared by both deserializers, so the statements about
  `checkHeader` hold for both modes; `deFull_corrupt` / `deEps_corrupt` lift them.
-/
import EpsModel.Lemmas.HeaderL
namespace Eps.C10
open Eps

/-- The 29 fixed bytes holding the given field values. -/
def fixedHdr (m maj min us sth sah : Nat) : B :=
  leBytes 8 m ++ leBytes 2 maj ++ leBytes 2 min ++ leBytes 1 us ++ leBytes 8 sth ++ leBytes 8 sah

/-- What `check_header` must answer for given field values, in the published order of the checks. -/
def expected (th ah m maj min us sth sah : Nat) : Option Err :=
  if m ≠ magic then (if m = magicRev then some .endianness else some (.magic m))
  else if maj ≠ versionMajor then some (.major maj)
  else if min > versionMinor then some (.minor min)
  else if us ≠ usizeSize then some (.usizeSize us)
  else if sth ≠ th then some (.wrongTypeHash sth)
  else if sah ≠ ah then some (.wrongAlignHash sah)
  else none

/-- Decision theorem: for every content of the fixed bytes (field values in range), followed by
    an intact type name, `check_header` returns exactly the expected error, carrying the offending
    value, or accepts; it never panics. -/
theorem checkHeader_decision (th ah m maj min us sth sah : Nat) (name rest : B)
    (hm : m < 2^64) (hmaj : maj < 2^16) (hmin : min < 2^16) (hus : us < 2^8)
    (hsth : sth < 2^64) (hsah : sah < 2^64)
    (hu : validUtf8 name = true) (hl : name.length < 2^63) :
    checkHeader th ah (fixedHdr m maj min us sth sah ++ (leBytes 8 name.length ++ name) ++ rest) 0 =
      match expected th ah m maj min us sth sah with
      | some e => .err e
      | none => .ok ((), rest, 37 + name.length) := by
  simp only [checkHeader, fixedHdr, expected, List.append_assoc]
  rw [readWord_leBytes 8 m _ _ (by omega)]
  simp only [Res.bind_ok]
  by_cases h1 : m = magic
  · subst h1
    simp only [bne_self_eq_false, Bool.false_eq_true, if_false, ne_eq, not_true_eq_false]
    rw [readWord_leBytes 2 maj _ _ (by omega)]
    simp only [Res.bind_ok]
    by_cases h2 : maj = versionMajor
    · subst h2
      simp only [bne_self_eq_false, Bool.false_eq_true, if_false, not_true_eq_false]
      rw [readWord_leBytes 2 min _ _ (by omega)]
      simp only [Res.bind_ok]
      by_cases h3 : min > versionMinor
      · simp [h3]
      · simp only [h3, if_false]
        rw [readWord_leBytes 1 us _ _ (by omega)]
        simp only [Res.bind_ok]
        by_cases h4 : us = usizeSize
        · subst h4
          simp only [bne_self_eq_false, Bool.false_eq_true, if_false, not_true_eq_false]
          rw [readWord_leBytes 8 sth _ _ (by omega)]
          simp only [Res.bind_ok]
          rw [readWord_leBytes 8 sah _ _ (by omega)]
          simp only [Res.bind_ok]
          have := decFullStr_ok name rest (0 + 8 + 2 + 2 + 1 + 8 + 8) hu hl
          simp only [List.append_assoc] at this
          rw [this]
          simp only [Res.bind_ok]
          by_cases h5 : sth = th
          · subst h5
            by_cases h6 : sah = ah
            · subst h6; simp; omega
            · simp [h6]
          · simp [h5]
        · simp [h4]
    · simp [h2]
  · by_cases h1' : m = magicRev
    · subst h1'
      have : magicRev ≠ magic := by decide
      simp [this]
    · simp [h1, h1']

/-- A valid header (the fields `write_header` writes) is accepted. -/
theorem expected_valid (th ah : Nat) : expected th ah magic versionMajor versionMinor usizeSize th ah = none := by
  simp [expected]

/-- Acceptance is *only* possible when every field but the minor version is intact, and the minor
    version is not above the supported one: any other content of the fixed bytes is an error. -/
theorem expected_none_iff (th ah m maj min us sth sah : Nat) :
    expected th ah m maj min us sth sah = none ↔
      m = magic ∧ maj = versionMajor ∧ min ≤ versionMinor ∧ us = usizeSize ∧ sth = th ∧ sah = ah := by
  unfold expected
  constructor
  · intro h
    by_cases h1 : m = magic <;> by_cases h2 : maj = versionMajor <;> by_cases h3 : min > versionMinor <;>
      by_cases h4 : us = usizeSize <;> by_cases h5 : sth = th <;> by_cases h6 : sah = ah <;>
      simp_all <;> (try split at h <;> simp_all) <;> omega
  · rintro ⟨rfl, rfl, h3, rfl, rfl, rfl⟩
    have : ¬ (min > versionMinor) := by omega
    simp [this]

/-- One altered field: the specific error with the offending value (the cases of the property). -/
theorem err_magic (th ah m maj min us sth sah : Nat) (h : m ≠ magic) (h' : m ≠ magicRev) :
    expected th ah m maj min us sth sah = some (.magic m) := by simp [expected, h, h']
theorem err_endianness (th ah maj min us sth sah : Nat) :
    expected th ah magicRev maj min us sth sah = some .endianness := by
  have : magicRev ≠ magic := by decide
  simp [expected, this]
theorem err_major (th ah maj min us sth sah : Nat) (h : maj ≠ versionMajor) :
    expected th ah magic maj min us sth sah = some (.major maj) := by simp [expected, h]
theorem err_minor (th ah min us sth sah : Nat) (h : min > versionMinor) :
    expected th ah magic versionMajor min us sth sah = some (.minor min) := by simp [expected, h]
theorem err_usize (th ah min us sth sah : Nat) (hmin : min ≤ versionMinor) (h : us ≠ usizeSize) :
    expected th ah magic versionMajor min us sth sah = some (.usizeSize us) := by
  have : ¬ (min > versionMinor) := by omega
  simp [expected, this, h]
theorem err_typeHash (th ah min sth sah : Nat) (hmin : min ≤ versionMinor) (h : sth ≠ th) :
    expected th ah magic versionMajor min usizeSize sth sah = some (.wrongTypeHash sth) := by
  have : ¬ (min > versionMinor) := by omega
  simp [expected, this, h]
theorem err_alignHash (th ah min sah : Nat) (hmin : min ≤ versionMinor) (h : sah ≠ ah) :
    expected th ah magic versionMajor min usizeSize th sah = some (.wrongAlignHash sah) := by
  have : ¬ (min > versionMinor) := by omega
  simp [expected, this, h]

/-- A lower minor version is accepted exactly like the current one. -/
theorem minor_lower_ok (th ah min : Nat) (h : min ≤ versionMinor) :
    expected th ah magic versionMajor min usizeSize th ah = none := by
  have : ¬ (min > versionMinor) := by omega
  simp [expected, this]

/-- Both deserializers run `check_header` first and propagate its error: whatever follows the
    header, a header error is the result of `deserialize_full` and of `deserialize_eps`. -/
theorem deFull_corrupt (H : B → Nat) (T : Ty) (s : B) (e : Err)
    (h : checkHeader (T.typeHash H) (T.alignHash H) s 0 = .err e) : T.deFull H s = .err e := by
  simp [Ty.deFull, h]
theorem deEps_corrupt (H : B → Nat) (T : Ty) (base : Nat) (s : B) (e : Err)
    (h : checkHeader (T.typeHash H) (T.alignHash H) s 0 = .err e) : T.deEps H base s = .err e := by
  simp [Ty.deEps, h]

/-- With a lowered minor version the value returned is the one of the intact file (both modes):
    the header check leaves the same state. -/
theorem minor_lower_same_state (th ah min : Nat) (name rest : B) (hmin : min ≤ versionMinor)
    (hth : th < 2^64) (hah : ah < 2^64) (hu : validUtf8 name = true) (hl : name.length < 2^63) :
    checkHeader th ah (fixedHdr magic versionMajor min usizeSize th ah ++ (leBytes 8 name.length ++ name) ++ rest) 0
      = checkHeader th ah (wHeader th ah name ++ rest) 0 := by
  have hmin' : min < 2^16 := by unfold versionMinor at hmin; omega
  rw [checkHeader_decision th ah magic versionMajor min usizeSize th ah name rest (by decide) (by decide) hmin'
        (by decide) hth hah hu hl, minor_lower_ok th ah min hmin,
      checkHeader_wHeader th ah name rest hth hah hu hl, wHeader_length]

/-- Non-vacuity: the header `write_header` writes is `fixedHdr` of the valid fields plus the name. -/
example (th ah : Nat) (name : B) :
    wHeader th ah name = fixedHdr magic versionMajor versionMinor usizeSize th ah ++ (leBytes 8 name.length ++ name) := by
  simp [wHeader, fixedHdr, magic, leBytes, magicBytes, leVal, versionMajor, versionMinor, usizeSize]

end Eps.C10

namespace Eps.C10
open Eps

/-- Every content of the 29 fixed bytes is `fixedHdr` of in-range field values: the decision
    theorem therefore speaks about every single-bit flip (and every other corruption) of them. -/
theorem fixedHdr_surjective (h : B) (hl : h.length = 29) :
    ∃ m maj min us sth sah, m < 2^64 ∧ maj < 2^16 ∧ min < 2^16 ∧ us < 2^8 ∧ sth < 2^64 ∧ sah < 2^64 ∧
      h = fixedHdr m maj min us sth sah := by
  refine ⟨leVal (h.take 8), leVal ((h.drop 8).take 2), leVal ((h.drop 10).take 2), leVal ((h.drop 12).take 1),
    leVal ((h.drop 13).take 8), leVal ((h.drop 21).take 8), ?_, ?_, ?_, ?_, ?_, ?_, ?_⟩
  · have := leVal_lt (h.take 8); simpa [hl] using this
  · have := leVal_lt ((h.drop 8).take 2); simpa [hl] using this
  · have := leVal_lt ((h.drop 10).take 2); simpa [hl] using this
  · have := leVal_lt ((h.drop 12).take 1); simpa [hl] using this
  · have := leVal_lt ((h.drop 13).take 8); simpa [hl] using this
  · have := leVal_lt ((h.drop 21).take 8); simpa [hl] using this
  · unfold fixedHdr
    have e1 := leBytes_leVal (h.take 8)
    have e2 := leBytes_leVal ((h.drop 8).take 2)
    have e3 := leBytes_leVal ((h.drop 10).take 2)
    have e4 := leBytes_leVal ((h.drop 12).take 1)
    have e5 := leBytes_leVal ((h.drop 13).take 8)
    have e6 := leBytes_leVal ((h.drop 21).take 8)
    simp only [List.length_take, List.length_drop, hl] at e1 e2 e3 e4 e5 e6
    rw [show min 8 29 = 8 by decide] at e1
    rw [show min 2 (29 - 8) = 2 by decide] at e2
    rw [show min 2 (29 - 10) = 2 by decide] at e3
    rw [show min 1 (29 - 12) = 1 by decide] at e4
    rw [show min 8 (29 - 13) = 8 by decide] at e5
    rw [show min 8 (29 - 21) = 8 by decide] at e6
    rw [e1, e2, e3, e4, e5, e6]
    have t1 : h = h.take 8 ++ h.drop 8 := (List.take_append_drop 8 h).symm
    have t2 : h.drop 8 = (h.drop 8).take 2 ++ h.drop 10 := by
      have := (List.take_append_drop 2 (h.drop 8)).symm
      simpa [List.drop_drop] using this
    have t3 : h.drop 10 = (h.drop 10).take 2 ++ h.drop 12 := by
      have := (List.take_append_drop 2 (h.drop 10)).symm
      simpa [List.drop_drop] using this
    have t4 : h.drop 12 = (h.drop 12).take 1 ++ h.drop 13 := by
      have := (List.take_append_drop 1 (h.drop 12)).symm
      simpa [List.drop_drop] using this
    have t5 : h.drop 13 = (h.drop 13).take 8 ++ h.drop 21 := by
      have := (List.take_append_drop 8 (h.drop 13)).symm
      simpa [List.drop_drop] using this
    have t6 : h.drop 21 = (h.drop 21).take 8 := by
      rw [List.take_of_length_le]; simp [hl]
    conv => lhs; rw [t1, t2, t3, t4, t5, t6]
    simp only [List.append_assoc]

end Eps.C10
