/-
  C19 — The aligned cursor behaves like the standard in-memory cursor.

  Refinement, unbounded in the history: every operation of `AlignedCursor` returns what
  `Cursor<Vec<u8>>` returns and leaves a state related by `R` (same position, same length, same
  contents, zeros beyond the length, storage a whole number of alignment units that covers the
  length). Positions and sizes below 2^62 are the explicit guard for the `usize::MAX` corners,
  where the two differ by design (`u64` versus `usize` positions).
-/
import EpsModel.Cursor
import EpsModel.Lemmas.Basic
namespace Eps.C19
open Eps Eps.Cur

/-- The refinement relation. -/
structure R (al : Nat) (a : ACur) (s : SCur) : Prop where
  pos : a.pos = s.pos
  len : a.len = s.buf.length
  data : ∀ i, a.get i = (s.buf[i]?).getD 0
  cap : a.len ≤ a.cap
  units : al ∣ a.cap

/-- The guard: positions and lengths far from `usize::MAX`. -/
def Guard (s : SCur) : Prop := s.pos < 2^62 ∧ s.buf.length < 2^62

def SmallOp : Op → Prop
  | .write b => b.length < 2^62
  | .read _ => True
  | .seek (.start n) => n < 2^62
  | .seek (.end i) => -(2^62 : Int) < i ∧ i < 2^62
  | .seek (.current i) => -(2^62 : Int) < i ∧ i < 2^62
  | .setPos n => n < 2^62
  | .flush => True
  | .readToEnd => True
  | .readExact _ => True
  | .writeAll b => b.length < 2^62
  | .writeV bufs => bufs.flatten.length < 2^62
  | .readV _ => True

theorem R_init (al : Nat) : R al ACur.init SCur.init :=
  ⟨rfl, rfl, fun i => by simp [ACur.init, SCur.init], Nat.le_refl _, ⟨0, by simp [ACur.init]⟩⟩

/-- … and so is a cursor created by `with_capacity(c)`, for every `c` (also `default()`, which is `new()`). -/
theorem R_withCapacity (al c : Nat) : R al (ACur.withCapacity al c) SCur.init :=
  ⟨rfl, rfl, fun i => by simp [ACur.withCapacity, SCur.init], Nat.zero_le _, ⟨ceilDiv c al, Nat.mul_comm _ _⟩⟩

theorem ceilDiv_mul_ge (n al : Nat) (h : 0 < al) : n ≤ ceilDiv n al * al := by
  unfold ceilDiv
  have h1 := Nat.div_add_mod (n + (al - 1)) al
  have h2 := Nat.mod_lt (n + (al - 1)) h
  have : al * ((n + (al - 1)) / al) = (n + (al - 1)) / al * al := Nat.mul_comm _ _
  omega

/-- the padded buffer of the standard cursor, pointwise -/
theorem padded_get (buf : B) (pos i : Nat) :
    ((if pos > buf.length then buf ++ zeros (pos - buf.length) else buf)[i]?).getD 0 = (buf[i]?).getD 0 := by
  split
  · rename_i h
    by_cases hi : i < buf.length
    · rw [List.getElem?_append_left hi]
    · rw [List.getElem?_append_right (by omega)]
      have : buf[i]? = none := List.getElem?_eq_none (by omega)
      rw [this]
      simp only [zeros, List.getElem?_replicate]
      split <;> simp
  · rfl

theorem padded_length (buf : B) (pos : Nat) :
    (if pos > buf.length then buf ++ zeros (pos - buf.length) else buf).length = max buf.length pos := by
  split
  · simp [zeros]; omega
  · omega

/-- `write`: same result, related states. -/
theorem write_refines_gen (al : Nat) (hal : 0 < al) (a : ACur) (s : SCur) (b : B)
    (hR : R al a s) (hle : s.pos + b.length ≤ Cur.isizeMax) :
    (a.write al b).2 = (s.write b).2 ∧ (a.write al b).2 = .wrote b.length ∧ R al (a.write al b).1 (s.write b).1 := by
  obtain ⟨hpos, hlen, hdata, hcap, hunits⟩ := hR
  have hmin : min b.length (usizeMax - a.pos) = b.length := by
    rw [hpos]; unfold usizeMax; unfold Cur.isizeMax at hle; omega
  simp only [ACur.write, SCur.write, hmin]
  have h1 : ¬ (b.length ≠ 0 ∧ b.length = 0) := by omega
  have h2 : ¬ (Cur.isizeMax < a.pos + b.length) := by rw [hpos]; omega
  have h3 : ¬ (Cur.isizeMax < s.pos + b.length) := by omega
  rw [if_neg h1, if_neg h2, if_neg (Nat.lt_irrefl _), if_neg h3]
  refine ⟨rfl, rfl, ?_⟩
  have hvl := padded_length s.buf s.pos
  refine ⟨by simp [hpos], ?_, ?_, ?_, ?_⟩
  · simp only [List.length_append, List.length_take, List.length_drop, hvl, hlen, hpos]; omega
  · intro i
    simp only []
    rw [hpos]
    by_cases h1 : i < s.pos
    · have : ¬ (s.pos ≤ i ∧ i < s.pos + b.length) := by omega
      rw [if_neg this, List.append_assoc, List.getElem?_append_left (by simp [hvl]; omega)]
      rw [List.getElem?_take_of_lt h1, padded_get]; exact hdata i
    · by_cases h2 : i < s.pos + b.length
      · rw [if_pos ⟨by omega, h2⟩]
        rw [List.append_assoc, List.getElem?_append_right (by simp [hvl]; omega)]
        have hl : (List.take s.pos (if s.pos > s.buf.length then s.buf ++ zeros (s.pos - s.buf.length) else s.buf)).length = s.pos := by
          simp [hvl]; omega
        rw [hl, List.getElem?_append_left (by omega)]
        simp [List.getD_eq_getElem?_getD]
      · have : ¬ (s.pos ≤ i ∧ i < s.pos + b.length) := by omega
        rw [if_neg this]
        have hl : (List.take s.pos (if s.pos > s.buf.length then s.buf ++ zeros (s.pos - s.buf.length) else s.buf) ++ b).length = s.pos + b.length := by
          simp [hvl]; omega
        rw [List.getElem?_append_right (by omega), hl, List.getElem?_drop]
        have : s.pos + b.length + (i - (s.pos + b.length)) = i := by omega
        rw [this, padded_get]; exact hdata i
  · simp only []
    split
    · have := ceilDiv_mul_ge (a.pos + b.length) al hal
      omega
    · omega
  · simp only []
    split
    · exact ⟨ceilDiv (a.pos + b.length) al, Nat.mul_comm _ _⟩
    · exact hunits

theorem write_refines (al : Nat) (hal : 0 < al) (a : ACur) (s : SCur) (b : B)
    (hR : R al a s) (hg : Guard s) (ho : b.length < 2^62) :
    (a.write al b).2 = (s.write b).2 ∧ (a.write al b).2 = .wrote b.length ∧ R al (a.write al b).1 (s.write b).1 :=
  write_refines_gen al hal a s b hR (by have := hg.1; unfold Cur.isizeMax; omega)

/-- the loop of `write_vectored`: same count, related states, as long as the end stays below `usize::MAX` -/
theorem writeMany_refines (al : Nat) (hal : 0 < al) : ∀ (bufs : List B) (a : ACur) (s : SCur) (acc : Nat),
    R al a s → s.pos + bufs.flatten.length ≤ Cur.isizeMax →
    (ACur.writeMany al a bufs acc).2 = (SCur.writeMany s bufs acc).2
      ∧ R al (ACur.writeMany al a bufs acc).1 (SCur.writeMany s bufs acc).1
  | [], a, s, acc, hR, _ => ⟨rfl, hR⟩
  | b :: bs, a, s, acc, hR, hle => by
      simp only [List.flatten_cons, List.length_append] at hle
      obtain ⟨h1, h2, h3⟩ := write_refines_gen al hal a s b hR (by omega)
      have hs : (s.write b).2 = .wrote b.length := by rw [← h1, h2]
      have hp : (s.write b).1.pos = s.pos + b.length := by
        have : ¬ (Cur.isizeMax < s.pos + b.length) := by omega
        simp only [SCur.write, if_neg this]
      simp only [ACur.writeMany, SCur.writeMany]
      generalize hwa : a.write al b = wa at h1 h2 h3
      generalize hws : s.write b = ws at h1 hs h3 hp
      obtain ⟨a', oa⟩ := wa
      obtain ⟨s', os⟩ := ws
      simp only at h2 hs h3 hp
      subst h2; subst hs
      exact writeMany_refines al hal bs a' s' _ h3 (by omega)

/-- `read`: same bytes, related states. -/
theorem read_refines (al : Nat) (a : ACur) (s : SCur) (n : Nat) (hR : R al a s) :
    (a.read n).2 = (s.read n).2 ∧ R al (a.read n).1 (s.read n).1 := by
  obtain ⟨hpos, hlen, hdata, hcap, hunits⟩ := hR
  simp only [ACur.read, SCur.read]
  by_cases hp : a.pos ≥ a.len
  · rw [if_pos hp]
    have h0 : (s.buf.drop (min s.pos s.buf.length)).length = 0 := by
      simp; omega
    have hnil : s.buf.drop (min s.pos s.buf.length) = [] := List.eq_nil_of_length_eq_zero h0
    simp only [hnil, List.length_nil, Nat.min_zero, List.take_nil, Nat.add_zero]
    exact ⟨trivial, ⟨hpos, hlen, hdata, hcap, hunits⟩⟩
  · rw [if_neg hp]
    have hmin : min s.pos s.buf.length = s.pos := by omega
    have hk : min n (s.buf.drop s.pos).length = min n (a.len - a.pos) := by simp; omega
    simp only [hmin, hk]
    refine ⟨?_, ⟨by simp [hpos], hlen, hdata, hcap, hunits⟩⟩
    congr 1
    apply List.ext_getElem?
    intro i
    by_cases hi : i < min n (a.len - a.pos)
    · rw [List.getElem?_map, List.getElem?_range hi, List.getElem?_take_of_lt hi, List.getElem?_drop]
      simp only [Option.map_some]
      rw [hdata, hpos]
      have : s.pos + i < s.buf.length := by omega
      rw [List.getElem?_eq_getElem this]; simp
    · rw [List.getElem?_eq_none (by simp; omega), List.getElem?_eq_none (by simp; omega)]

/-- the loop of `read_vectored`: same bytes, related states -/
theorem readMany_refines (al : Nat) : ∀ (ns : List Nat) (a : ACur) (s : SCur) (acc : B),
    R al a s →
    (ACur.readMany a ns acc).2 = (SCur.readMany s ns acc).2 ∧ R al (ACur.readMany a ns acc).1 (SCur.readMany s ns acc).1
  | [], a, s, acc, hR => ⟨rfl, hR⟩
  | n :: ns, a, s, acc, hR => by
      obtain ⟨h1, h3⟩ := read_refines al a s n hR
      have hs : ∃ b, (s.read n).2 = .bytes b := ⟨_, rfl⟩
      obtain ⟨b, hb⟩ := hs
      simp only [ACur.readMany, SCur.readMany]
      generalize hra : a.read n = ra at h1 h3
      generalize hrs : s.read n = rs at h1 hb h3
      obtain ⟨a', oa⟩ := ra
      obtain ⟨s', os⟩ := rs
      simp only at h1 hb h3
      subst hb; subst h1
      simp only
      split
      · exact ⟨rfl, h3⟩
      · exact readMany_refines al ns a' s' _ h3

/-- **One step**: same output, related states. -/
theorem step_refines (al : Nat) (hal : 0 < al) (a : ACur) (s : SCur) (op : Op)
    (hR : R al a s) (hg : Guard s) (ho : SmallOp op) :
    (a.step al op).2 = (s.step op).2 ∧ R al (a.step al op).1 (s.step op).1 := by
  have hR0 := hR
  obtain ⟨hpos, hlen, hdata, hcap, hunits⟩ := hR
  cases op with
  | write b =>
    simp only [SmallOp] at ho
    obtain ⟨h1, _, h3⟩ := write_refines al hal a s b hR0 hg ho
    exact ⟨h1, h3⟩
  | read n => exact read_refines al a s n hR0
  | seek sk =>
    obtain ⟨hg1, hg2⟩ := hg
    cases sk with
    | start n =>
      simp only [SmallOp] at ho
      have : ¬ (n > usizeMax) := by unfold usizeMax; omega
      simp only [ACur.step, SCur.step, if_neg this]
      exact ⟨trivial, ⟨rfl, hlen, hdata, hcap, hunits⟩⟩
    | «end» i =>
      simp only [ACur.step, SCur.step]
      rw [hlen]
      cases addSigned s.buf.length i with
      | none => dsimp only; exact ⟨rfl, ⟨hpos, hlen, hdata, hcap, hunits⟩⟩
      | some m => dsimp only; exact ⟨rfl, ⟨rfl, rfl, hdata, hlen ▸ hcap, hunits⟩⟩
    | current i =>
      simp only [ACur.step, SCur.step, hpos]
      cases addSigned s.pos i with
      | none => dsimp only; exact ⟨rfl, ⟨hpos, hlen, hdata, hcap, hunits⟩⟩
      | some m => dsimp only; exact ⟨rfl, ⟨rfl, hlen, hdata, hcap, hunits⟩⟩
  | setPos n => exact ⟨rfl, ⟨rfl, hlen, hdata, hcap, hunits⟩⟩
  | flush => exact ⟨rfl, ⟨hpos, hlen, hdata, hcap, hunits⟩⟩
  | readToEnd =>
    simp only [ACur.step, SCur.step, hpos, hlen]
    exact read_refines al a s _ hR0
  | readExact n =>
    simp only [ACur.step, SCur.step, hpos, hlen]
    split
    · exact read_refines al a s n hR0
    · exact ⟨rfl, ⟨rfl, rfl, hdata, hlen ▸ hcap, hunits⟩⟩
  | writeAll b =>
    simp only [SmallOp] at ho
    obtain ⟨h1, h2, h3⟩ := write_refines al hal a s b hR0 hg ho
    have hs : (s.write b).2 = .wrote b.length := by rw [← h1, h2]
    simp only [ACur.step, SCur.step]
    generalize hw : a.write al b = w at h2 h3
    generalize hws : s.write b = ws at hs h3
    obtain ⟨a', o⟩ := w
    obtain ⟨s', os⟩ := ws
    simp only at h2 h3 hs
    subst h2; subst hs
    exact ⟨rfl, h3⟩
  | writeV bufs =>
    simp only [SmallOp] at ho
    obtain ⟨h1, h2, h3⟩ := write_refines al hal a s [] hR0 hg (by simp)
    have hs : (s.write []).2 = .wrote 0 := by rw [← h1, h2]; rfl
    have hp : (s.write []).1.pos = s.pos := by
      have : ¬ (Cur.isizeMax < s.pos + ([] : B).length) := by have := hg.1; unfold Cur.isizeMax; simp; omega
      simp only [SCur.write, if_neg this]; simp
    simp only [ACur.step, SCur.step]
    generalize hw : a.write al [] = w at h2 h3
    generalize hws : s.write [] = ws at hs h3 hp
    obtain ⟨a', o⟩ := w
    obtain ⟨s', os⟩ := ws
    simp only at h2 h3 hs hp
    subst h2; subst hs
    simp only [List.length_nil]
    exact writeMany_refines al hal bufs a' s' 0 h3 (by rw [hp]; have := hg.1; unfold Cur.isizeMax; omega)
  | readV ns => exact readMany_refines al ns a s [] hR0

/-- the guard holds at every state the specification goes through -/
def GuardAlong (s : SCur) : List Op → Prop
  | [] => True
  | op :: ops => Guard s ∧ SmallOp op ∧ GuardAlong (s.step op).1 ops

/-- **Every history**: same outputs, related final states — by induction on the history, no bound
    on its length. -/
theorem run_refines (al : Nat) (hal : 0 < al) (ops : List Op) : ∀ (a : ACur) (s : SCur),
    R al a s → GuardAlong s ops →
    (ACur.run al a ops).2 = (SCur.run s ops).2 ∧ R al (ACur.run al a ops).1 (SCur.run s ops).1 := by
  induction ops with
  | nil => intro a s hR _; exact ⟨rfl, hR⟩
  | cons op ops ih =>
    intro a s hR hg
    obtain ⟨hg1, hs, hg2⟩ := hg
    obtain ⟨ho, hR'⟩ := step_refines al hal a s op hR hg1 hs
    obtain ⟨hos, hR''⟩ := ih _ _ hR' hg2
    simp only [ACur.run, SCur.run]
    exact ⟨by rw [ho, hos], hR''⟩

/-- What a related state means for the observers: `as_bytes()`, `len()`, `position()`. -/
theorem observers (al : Nat) (a : ACur) (s : SCur) (h : R al a s) :
    a.asBytes = s.buf ∧ a.len = s.buf.length ∧ a.pos = s.pos := by
  refine ⟨?_, h.len, h.pos⟩
  apply List.ext_getElem?
  intro i
  unfold ACur.asBytes
  by_cases hi : i < a.len
  · rw [List.getElem?_map, List.getElem?_range hi]
    simp only [Option.map_some]
    rw [h.data i, List.getElem?_eq_getElem (by rw [← h.len]; exact hi)]; simp
  · rw [List.getElem?_eq_none (by simp; omega), List.getElem?_eq_none (by rw [← h.len]; omega)]

/-- From the empty cursors: the complete statement. -/
theorem cursor_refines (al : Nat) (hal : 0 < al) (ops : List Op) (hg : GuardAlong SCur.init ops) :
    (ACur.run al ACur.init ops).2 = (SCur.run SCur.init ops).2 ∧
    (ACur.run al ACur.init ops).1.asBytes = (SCur.run SCur.init ops).1.buf ∧
    (ACur.run al ACur.init ops).1.len = (SCur.run SCur.init ops).1.buf.length ∧
    (ACur.run al ACur.init ops).1.pos = (SCur.run SCur.init ops).1.pos := by
  obtain ⟨h1, h2⟩ := run_refines al hal ops _ _ (R_init al) hg
  exact ⟨h1, observers al _ _ h2⟩

/-- The same from a cursor created with any capacity. -/
theorem cursor_refines_withCapacity (al c : Nat) (hal : 0 < al) (ops : List Op) (hg : GuardAlong SCur.init ops) :
    (ACur.run al (ACur.withCapacity al c) ops).2 = (SCur.run SCur.init ops).2 ∧
    (ACur.run al (ACur.withCapacity al c) ops).1.asBytes = (SCur.run SCur.init ops).1.buf ∧
    (ACur.run al (ACur.withCapacity al c) ops).1.len = (SCur.run SCur.init ops).1.buf.length ∧
    (ACur.run al (ACur.withCapacity al c) ops).1.pos = (SCur.run SCur.init ops).1.pos := by
  obtain ⟨h1, h2⟩ := run_refines al hal ops _ _ (R_withCapacity al c) hg
  exact ⟨h1, observers al _ _ h2⟩

/-- Writing past the end zero-fills the gap (the case the property singles out), as a direct
    consequence: after `set_position(p)` and a write of `b` on an empty cursor the contents are
    `p` zeros followed by `b`. -/
theorem gap_zero_filled (al : Nat) (hal : 0 < al) (p : Nat) (b : B) (hp : p < 2^62) (hb : b.length < 2^62) :
    (ACur.run al ACur.init [.setPos p, .write b]).1.asBytes = zeros p ++ b := by
  have hg : GuardAlong SCur.init [.setPos p, .write b] := by
    refine ⟨⟨by simp [SCur.init], by simp [SCur.init]⟩, hp, ⟨by simpa [SCur.step, SCur.init] using hp, by simp [SCur.step, SCur.init]⟩, hb, trivial⟩
  have := (cursor_refines al hal _ hg).2.1
  rw [this]
  have hni : ¬ (Cur.isizeMax < p + b.length) := by unfold Cur.isizeMax; omega
  simp only [SCur.run, SCur.step, SCur.write, SCur.init]
  by_cases h0 : p = 0
  · subst h0; simp only [Nat.zero_add] at hni; simp [zeros, hni]
  · have hp0 : 0 < p := by omega
    simp [zeros, hp0, hni]

/-- The two corners in which the provided methods of `Read` / `Write` would differ from the standard cursor (and did,
    before `5b3f044`): a failed `read_exact` moves the position to the end of the data even from beyond it, and
    `write_all` of nothing still fills the gap up to the position. -/
theorem readExact_eof_moves_to_end (al : Nat) (a : ACur) (n : Nat) (h : a.len - a.pos < n) :
    a.step al (.readExact n) = ({ a with pos := a.len }, .eof) := by
  have : ¬ n ≤ a.len - a.pos := by omega
  simp [ACur.step, this]

theorem writeAll_empty_fills_gap (al : Nat) (hal : 0 < al) (p : Nat) (hp : p < 2^62) :
    (ACur.run al ACur.init [.setPos p, .writeAll []]).1.asBytes = zeros p := by
  have hg : GuardAlong SCur.init [.setPos p, .writeAll []] := by
    refine ⟨⟨by simp [SCur.init], by simp [SCur.init]⟩, hp, ⟨by simpa [SCur.step, SCur.init] using hp, by simp [SCur.step, SCur.init]⟩, by simp [SmallOp], trivial⟩
  have := (cursor_refines al hal _ hg).2.1
  rw [this]
  have hni : ¬ (Cur.isizeMax < p) := by unfold Cur.isizeMax; omega
  simp only [SCur.run, SCur.step, SCur.write, SCur.init]
  by_cases h0 : p = 0
  · subst h0; simp [zeros, hni]
  · have hp0 : 0 < p := by omega
    simp [zeros, hp0, hni]

/-! ### `write_vectored` of the standard cursor is one `write` of the concatenation

    `vec_write_vectored` pads the vector up to the position once and copies the buffers one behind the other; the
    model states it as one `write` per buffer (`SCur.writeMany`). The two descriptions are the same function. -/

/-- two consecutive writes are one write of the concatenation -/
theorem SCur.write_append (s : SCur) (a b : B) (h : s.pos + a.length + b.length ≤ Cur.isizeMax) :
    ((s.write a).1.write b).1 = (s.write (a ++ b)).1 := by
  have h1 : ¬ (Cur.isizeMax < s.pos + a.length) := by omega
  have h3 : ¬ (Cur.isizeMax < s.pos + (a ++ b).length) := by simp only [List.length_append]; omega
  have hvl := padded_length s.buf s.pos
  generalize hv : (if s.pos > s.buf.length then s.buf ++ zeros (s.pos - s.buf.length) else s.buf) = v at hvl
  have hpv : s.pos ≤ v.length := by omega
  have hs1 : s.write a = ({ buf := v.take s.pos ++ a ++ v.drop (s.pos + a.length), pos := s.pos + a.length }, .wrote a.length) := by
    simp only [SCur.write, if_neg h1, hv]
  have hl1 : (v.take s.pos ++ a ++ v.drop (s.pos + a.length)).length ≥ s.pos + a.length := by
    simp only [List.length_append, List.length_take, List.length_drop]; omega
  rw [hs1]
  have h2 : ¬ (Cur.isizeMax < (s.pos + a.length) + b.length) := by omega
  have hnp : ¬ (s.pos + a.length > (v.take s.pos ++ a ++ v.drop (s.pos + a.length)).length) := by omega
  simp only [SCur.write, if_neg h2, if_neg hnp, if_neg h3, hv]
  have ht : (v.take s.pos ++ a ++ v.drop (s.pos + a.length)).take (s.pos + a.length) = v.take s.pos ++ a := by
    rw [List.take_append_of_le_length (by simp only [List.length_append, List.length_take]; omega)]
    rw [List.take_of_length_le (by simp only [List.length_append, List.length_take]; omega)]
  have hd : (v.take s.pos ++ a ++ v.drop (s.pos + a.length)).drop (s.pos + a.length + b.length) = v.drop (s.pos + (a ++ b).length) := by
    have hla : (v.take s.pos ++ a).length = s.pos + a.length := by simp only [List.length_append, List.length_take]; omega
    rw [List.drop_append, List.drop_of_length_le (by omega), hla, List.nil_append, List.drop_drop]
    congr 1; simp only [List.length_append]; omega
  rw [ht, hd]
  simp only [List.append_assoc, List.length_append, Nat.add_assoc]

/-- after a write the position is inside the data, and the result is `wrote` -/
theorem SCur.write_ok (s : SCur) (b : B) (h : s.pos + b.length ≤ Cur.isizeMax) :
    (s.write b).2 = .wrote b.length ∧ (s.write b).1.pos = s.pos + b.length ∧ (s.write b).1.pos ≤ (s.write b).1.buf.length := by
  have h1 : ¬ (Cur.isizeMax < s.pos + b.length) := by omega
  have hvl := padded_length s.buf s.pos
  simp only [SCur.write, if_neg h1]
  refine ⟨trivial, trivial, ?_⟩
  simp only [List.length_append, List.length_take, List.length_drop, hvl]; omega

/-- a write of nothing at a position inside the data changes nothing -/
theorem SCur.write_nil_inside (s : SCur) (hp : s.pos ≤ s.buf.length) (h : s.pos ≤ Cur.isizeMax) : (s.write []).1 = s := by
  have h1 : ¬ (Cur.isizeMax < s.pos) := by omega
  have h2 : ¬ (s.pos > s.buf.length) := by omega
  simp only [SCur.write, if_neg h2, List.length_nil, Nat.add_zero, List.append_nil, List.take_append_drop, if_neg h1]

/-- the loop over the buffers is one `write` of their concatenation -/
theorem SCur.writeMany_eq_flatten : ∀ (bufs : List B) (s : SCur) (acc : Nat),
    s.pos ≤ s.buf.length → s.pos + bufs.flatten.length ≤ Cur.isizeMax →
    SCur.writeMany s bufs acc = ((s.write bufs.flatten).1, .wrote (acc + bufs.flatten.length))
  | [], s, acc, hp, h => by
      simp only [List.flatten_nil, List.length_nil, Nat.add_zero] at h ⊢
      rw [SCur.write_nil_inside s hp h]; rfl
  | b :: bs, s, acc, hp, h => by
      simp only [List.flatten_cons, List.length_append] at h ⊢
      obtain ⟨ho, hpos, hin⟩ := SCur.write_ok s b (by omega)
      have happ := SCur.write_append s b bs.flatten (by omega)
      simp only [SCur.writeMany]
      generalize hw : s.write b = w at ho hpos hin happ
      obtain ⟨s1, o1⟩ := w
      simp only at ho hpos hin happ
      subst ho
      simp only
      rw [SCur.writeMany_eq_flatten bs s1 _ hin (by omega), happ, Nat.add_assoc]

/-- **`write_vectored` of the standard cursor, as the library implements it**: the vector is padded up to the position
    and the buffers are copied one behind the other — one `write` of the concatenation, returning the total. -/
theorem SCur.writeV_is_write_of_concatenation (s : SCur) (bufs : List B) (h : s.pos + bufs.flatten.length ≤ Cur.isizeMax) :
    s.step (.writeV bufs) = ((s.write bufs.flatten).1, .wrote bufs.flatten.length) := by
  obtain ⟨ho, hpos, hin⟩ := SCur.write_ok s [] (by simp only [List.length_nil]; omega)
  have happ := SCur.write_append s [] bufs.flatten (by simp only [List.length_nil]; omega)
  simp only [SCur.step]
  generalize hw : s.write [] = w at ho hpos hin happ
  obtain ⟨s1, o1⟩ := w
  simp only [List.length_nil, Nat.add_zero] at ho hpos hin happ
  subst ho
  simp only
  rw [SCur.writeMany_eq_flatten bufs s1 0 hin (by omega), happ]
  simp

example : (SCur.step { buf := [1, 2], pos := 4 } (.writeV [[7], [], [8, 9]])).2 = .wrote 3 ∧
    (SCur.step { buf := [1, 2], pos := 4 } (.writeV [[7], [], [8, 9]])).1.buf = [1, 2, 0, 0, 7, 8, 9] := by decide

/-- **Beyond `isize::MAX`** (round 11): a write that would end above `isize::MAX` bytes panics in both cursors ("capacity
    overflow") and leaves both exactly as they were — nothing is updated before the storage has grown. -/
theorem write_beyond_isize_max (al : Nat) (a : ACur) (s : SCur) (b : B) (hR : R al a s)
    (hbig : Cur.isizeMax < s.pos + b.length) (hfit : s.pos + b.length ≤ usizeMax) :
    a.write al b = (a, .panic) ∧ s.write b = (s, .panic) := by
  have hpos := hR.pos
  have hmin : min b.length (usizeMax - a.pos) = b.length := by rw [hpos]; omega
  constructor
  · simp only [ACur.write, hmin]
    by_cases h0 : b.length ≠ 0 ∧ b.length = 0
    · omega
    · rw [if_neg h0, if_pos (by rw [hpos]; exact hbig)]
  · simp only [SCur.write, if_pos hbig]

example : (ACur.run 16 ACur.init [.write [1, 2, 3], .setPos 9, .readExact 1, .writeAll [], .setPos 1, .readToEnd]).2 =
    [.wrote 3, .unit, .eof, .unit, .unit, .bytes [2, 3]] := by decide

end Eps.C19
