/-
  C17 — A type wrongly declared zero-copy can never be serialized as raw memory.

  Decision logic stated outright, over every definition (`Def`), every instantiation and every
  type of the universe: (i) what the compile-time layer refuses; (ii) the run-time constant is
  sound — `IS_ZERO_COPY = true` implies plain old data, by structural induction, so the guard of
  `serialize_zero` lets only pointer-free memory through; (iii) a definition declared zero-copy that
  the compile-time layer accepts and the guard lets through has a C representation, only zero-copy
  fields and a pointer-free image; otherwise nothing of the value is written.
-/
import EpsModel.ZeroGuard
namespace Eps.C17
open Eps

/-! ### (i) The compile-time layer -/

/-- Declared zero-copy without `repr(C)`: refused by the macro. -/
theorem no_reprC_rejected (d : Def) (ta : List Ty) (ca : List Nat) (hz : d.zero = true) (hc : [0x43] ∉ d.reprs) :
    d.compileOK ta ca = false := by
  simp [Def.compileOK, Def.attrsOk, hz, hc]

/-- Declared both zero-copy and deep-copy: refused by the macro. -/
theorem both_attrs_rejected (d : Def) (ta : List Ty) (ca : List Nat) (hz : d.zero = true) (hd : d.deepAttr = true) :
    d.compileOK ta ca = false := by
  simp [Def.compileOK, Def.attrsOk, hz, hd]

/-- `t` is the type of some field -/
def hasField : Fields → Ty → Prop
  | .nil, _ => False
  | .cons _ _ u r, t => u = t ∨ hasField r t

/-- every field of every variant -/
def fieldOf : Variants → Ty → Prop
  | .nil, _ => False
  | .cons _ fs r, t => hasField fs t ∨ fieldOf r t

theorem allZC_field {t : Ty} : ∀ (fs : Fields), fs.allZC = true → hasField fs t → t.isZC = true
  | .nil, _, hm => by simp [hasField] at hm
  | .cons _ _ u r, h, hm => by
    simp only [Fields.allZC, Bool.and_eq_true] at h
    simp only [hasField] at hm
    rcases hm with hm | hm
    · subst hm; exact h.1
    · exact allZC_field r h.2 hm

theorem allZC_variants {t : Ty} : ∀ (vs : Variants), vs.allZC = true → fieldOf vs t → t.isZC = true
  | .nil, _, hm => by simp [fieldOf] at hm
  | .cons _ fs r, h, hm => by
    simp only [Variants.allZC, Bool.and_eq_true] at h
    simp only [fieldOf] at hm
    rcases hm with hm | hm
    · exact allZC_field fs h.1 hm
    · exact allZC_variants r h.2 hm

/-- Declared zero-copy with a field (of any variant) whose instantiated type is not `ZeroCopy` —
    a vector, a string, a boxed slice, an option, a deep structure, a type holding a reference …:
    refused at compile time by the `ZeroCopy` bound. -/
theorem non_zero_field_rejected (d : Def) (ta : List Ty) (ca : List Nat) (t : Ty) (hz : d.zero = true)
    (hf : fieldOf (instVariants ta ca d.variants) t) (ht : t.isZC = false) :
    d.compileOK ta ca = false := by
  cases hc : d.compileOK ta ca with
  | false => rfl
  | true =>
    simp only [Def.compileOK, hz, Bool.not_true, Bool.false_or, Bool.and_eq_true] at hc
    have := allZC_variants _ hc.2 hf
    rw [ht] at this; cases this

/-- The types the property lists are not `ZeroCopy`, whatever they contain. -/
theorem heap_types_not_zero (t u : Ty) (m : AdtMeta) (vs : Variants) (hm : m.zero = false) :
    (Ty.vec t).isZC = false ∧ Ty.string.isZC = false ∧ Ty.boxStr.isZC = false ∧ (Ty.boxSlice t).isZC = false ∧
    (Ty.option t).isZC = false ∧ (Ty.bound t).isZC = false ∧ (Ty.controlFlow t u).isZC = false ∧
    (Ty.sliceRef t).isZC = false ∧ (Ty.adt m vs).isZC = false := by
  simp [Ty.isZC, hm]

/-! ### (ii) The run-time constant is sound -/

mutual
/-- `IS_ZERO_COPY = true` implies plain old data: no type that owns heap memory or holds a
    reference computes the constant to `true`, at any nesting depth. -/
theorem Ty.zcConst_plain : ∀ (t : Ty), t.zcConst = true → t.plain = true
  | .prim _, _ => by simp [Ty.plain]
  | .phantom _, _ => by simp [Ty.plain]
  | .string, h => by simp [Ty.zcConst] at h
  | .boxStr, h => by simp [Ty.zcConst] at h
  | .vec _, h => by simp [Ty.zcConst] at h
  | .boxSlice _, h => by simp [Ty.zcConst] at h
  | .array t _, h => by
    simp only [Ty.zcConst] at h; simp only [Ty.plain]; exact Ty.zcConst_plain t h
  | .tuple t _, h => by
    simp only [Ty.zcConst] at h; simp only [Ty.plain]; exact Ty.zcConst_plain t h
  | .option _, h => by simp [Ty.zcConst] at h
  | .bound _, h => by simp [Ty.zcConst] at h
  | .controlFlow _ _, h => by simp [Ty.zcConst] at h
  | .range _ t, h => by
    simp only [Ty.zcConst] at h; simp only [Ty.plain]; exact Ty.zcConst_plain t h
  | .rangeFull, _ => by simp [Ty.plain]
  | .adt _ vs, h => by
    simp only [Ty.zcConst, Bool.and_eq_true] at h; simp only [Ty.plain]; exact Variants.allConst_plain vs h.2
  | .sliceRef _, h => by simp [Ty.zcConst] at h
  | .serIter _, h => by simp [Ty.zcConst] at h
theorem Fields.allConst_plain : ∀ (fs : Fields), fs.allConst = true → fs.allPlain = true
  | .nil, _ => by simp [Fields.allPlain]
  | .cons _ _ t r, h => by
    simp only [Fields.allConst, Bool.and_eq_true] at h
    simp only [Fields.allPlain, Bool.and_eq_true]
    exact ⟨Ty.zcConst_plain t h.1, Fields.allConst_plain r h.2⟩
theorem Variants.allConst_plain : ∀ (vs : Variants), vs.allConst = true → vs.allPlain = true
  | .nil, _ => by simp [Variants.allPlain]
  | .cons _ fs r, h => by
    simp only [Variants.allConst, Bool.and_eq_true] at h
    simp only [Variants.allPlain, Bool.and_eq_true]
    exact ⟨Fields.allConst_plain fs h.1, Variants.allConst_plain r h.2⟩
end

theorem allConst_false_field {t : Ty} (ht : t.zcConst = false) : ∀ (fs : Fields), hasField fs t → fs.allConst = false
  | .nil, h => by simp [hasField] at h
  | .cons _ _ u r, h => by
    simp only [hasField] at h
    simp only [Fields.allConst]
    rcases h with h | h
    · subst h; simp [ht]
    · simp [allConst_false_field ht r h]

theorem allConst_false_variants {t : Ty} (ht : t.zcConst = false) : ∀ (vs : Variants), fieldOf vs t → vs.allConst = false
  | .nil, h => by simp [fieldOf] at h
  | .cons _ fs r, h => by
    simp only [fieldOf] at h
    simp only [Variants.allConst]
    rcases h with h | h
    · simp [allConst_false_field ht fs h]
    · simp [allConst_false_variants ht r h]

/-- The constant of a structure is false as soon as the C representation is missing or one field's
    constant is false — in particular for a field wrapped in arrays, tuples or ranges. -/
theorem zcConst_false_of_field (m : AdtMeta) (vs : Variants) (t : Ty) (hf : fieldOf vs t) (ht : t.zcConst = false) :
    (Ty.adt m vs).zcConst = false := by
  simp [Ty.zcConst, allConst_false_variants ht vs hf]

theorem zcConst_false_no_reprC (m : AdtMeta) (vs : Variants) (h : [0x43] ∉ m.reprs) : (Ty.adt m vs).zcConst = false := by
  simp [Ty.zcConst, h]

/-- Wrappers do not hide a false constant (arrays, tuples, ranges — at any depth, by iteration). -/
theorem wrappers_propagate (t : Ty) (n : Nat) (k : RangeK) (h : t.zcConst = false) :
    (Ty.array t n).zcConst = false ∧ (Ty.tuple t n).zcConst = false ∧ (Ty.range k t).zcConst = false := by
  simp [Ty.zcConst, h]

/-- **The guard.** `serialize_zero` / `serialize_slice_zero` write the memory of a value only if
    the type is plain old data; otherwise they panic and the output is untouched (the result
    carries no bytes). -/
theorem guard_sound (t : Ty) (bytes out : B) (h : guardedZero t bytes = .ok out) : t.plain = true ∧ out = bytes := by
  unfold guardedZero at h
  split at h
  · rename_i hc
    exact ⟨Ty.zcConst_plain t hc, by cases h; rfl⟩
  · cases h

theorem guard_panics (t : Ty) (bytes : B) (h : t.zcConst = false) : guardedZero t bytes = .panic := by
  simp [guardedZero, h]

/-! ### (iii) Both layers together, for derived definitions -/

/-- A definition declared zero-copy, at any arguments: either the compile-time layer refuses it,
    or the run-time guard panics before anything of the value is written, or the type has a C
    representation, is not also declared deep-copy, all its field types are `ZeroCopy` and its
    memory image is pointer-free. -/
theorem wrongly_declared_never_written (d : Def) (ta : List Ty) (ca : List Nat) (bytes : B) (hz : d.zero = true) :
    d.compileOK ta ca = false ∨ guardedZero (d.derive ta ca) bytes = .panic ∨
    (guardedZero (d.derive ta ca) bytes = .ok bytes ∧ [0x43] ∈ d.reprs ∧ d.deepAttr = false ∧
      (∀ t, fieldOf (instVariants ta ca d.variants) t → t.isZC = true) ∧ (d.derive ta ca).plain = true) := by
  cases hc : d.compileOK ta ca with
  | false => exact .inl rfl
  | true =>
    right
    cases hk : (d.derive ta ca).zcConst with
    | false => exact .inl (guard_panics _ _ hk)
    | true =>
      right
      simp only [Def.compileOK, hz, Bool.not_true, Bool.false_or, Bool.and_eq_true] at hc
      have ha := hc.1
      simp only [Def.attrsOk, hz, Bool.true_and, Bool.and_eq_true, Bool.not_eq_true', Bool.not_eq_false] at ha
      refine ⟨by simp [guardedZero, hk], ?_, ?_, fun t ht => allZC_variants _ hc.2 ht, Ty.zcConst_plain _ hk⟩
      · have := ha.1; simpa using this
      · have := ha.2; simpa using this

/-! ### Non-vacuity -/

/-- `#[zero_copy] #[repr(C)] struct W { a: Vec<u8> }`: refused at compile time; and were the bound
    removed, the guard would panic. -/
def wrong : Def :=
  { name := [0x57], isEnum := false, zero := true, deepAttr := false, reprs := [[0x43]], alignAttr := 1,
    nTypeParams := 0, constParams := [], variants := [⟨[0x57], [⟨[0x61], .vec (.ty (.prim (.int .u8)))⟩]⟩] }
example : wrong.compileOK [] [] = false := by
  simp [wrong, Def.compileOK, Def.attrsOk, instVariants, instFields, TyExpr.inst, Variants.allZC, Fields.allZC, Ty.isZC]
example : guardedZero (wrong.derive [] []) [1, 2, 3] = .panic := by
  simp [wrong, guardedZero, Def.derive, instVariants, instFields, TyExpr.inst, Ty.zcConst, Variants.allConst, Fields.allConst]

/-- `#[zero_copy] #[repr(C)] struct G { a: u8 }`: accepted and written. -/
def good : Def :=
  { name := [0x47], isEnum := false, zero := true, deepAttr := false, reprs := [[0x43]], alignAttr := 1,
    nTypeParams := 0, constParams := [], variants := [⟨[0x47], [⟨[0x61], .ty (.prim (.int .u8))⟩]⟩] }
example : good.compileOK [] [] = true ∧ guardedZero (good.derive [] []) [7] = .ok [7] := by
  simp [good, Def.compileOK, Def.attrsOk, guardedZero, Def.derive, instVariants, instFields, TyExpr.inst, Variants.allZC, Fields.allZC,
    Ty.isZC, Ty.zcConst, Variants.allConst, Fields.allConst]

end Eps.C17
