/-
  The codec: the writer (`enc`), the full-copy reader (`decFull`, in its two incarnations: over a
  generic reader and over a `SliceWithPos`) and the ε-copy reader (`decEps`). Each clause mirrors
  one `SerializeInner` / `DeserializeInner` implementation or helper of the crate.
-/
import EpsModel.Val
namespace Eps

/-! ### Writer -/

mutual
/-- Bytes written by `_serialize_inner` for a value of type `T` when the stream position is `pos`. -/
def Ty.enc : Ty → Val → Nat → B
  | .prim p, .bits n, _ => leBytes p.size n
  | .string, .str b, _ => leBytes 8 b.length ++ b
  | .boxStr, .str b, _ => leBytes 8 b.length ++ b
  | .vec t, .seq vs, pos => Ty.encSeq t vs pos
  | .boxSlice t, .seq vs, pos => Ty.encSeq t vs pos
  | .sliceRef t, .seq vs, pos => Ty.encSeq t vs pos
  | .serIter t, .seq vs, pos => Ty.encSeq t vs pos
  | .array t _, .seq vs, pos =>
      if t.isZC then zeros (pad pos t.maxSizeOf) ++ Ty.toMemList t vs
      else Ty.encList t vs pos
  | .tuple t _, .seq vs, pos => zeros (pad pos t.maxSizeOf) ++ Ty.toMemList t vs
  | .option _, .variant 0 [], _ => [0]
  | .option t, .variant 1 [v], pos => 1 :: t.enc v (pos + 1)
  | .bound _, .variant 0 [], _ => [0]
  | .bound t, .variant 1 [v], pos => 1 :: t.enc v (pos + 1)
  | .bound t, .variant 2 [v], pos => 2 :: t.enc v (pos + 1)
  | .controlFlow b _, .variant 0 [v], pos => 0 :: b.enc v (pos + 1)
  | .controlFlow _ c, .variant 1 [v], pos => 1 :: c.enc v (pos + 1)
  | .range .range t, .record [a, b], pos =>
      let ea := t.enc a pos
      ea ++ t.enc b (pos + ea.length)
  | .range .incl t, .record [a, b], pos =>
      let ea := t.enc a pos
      ea ++ t.enc b (pos + ea.length) ++ [0]
  | .range .from t, .record [a], pos => t.enc a pos
  | .range .to t, .record [a], pos => t.enc a pos
  | .range .toIncl t, .record [a], pos => t.enc a pos
  | .adt m vs, .record fs, pos =>
      if m.zero then zeros (pad pos (Ty.maxSizeOf (.adt m vs))) ++ Ty.toMem (.adt m vs) (.record fs)
      else match vs with
        | .cons _ fds .nil => Fields.enc fds fs pos
        | _ => []
  | .adt m vs, .variant i fs, pos =>
      if m.zero then zeros (pad pos (Ty.maxSizeOf (.adt m vs))) ++ Ty.toMem (.adt m vs) (.variant i fs)
      else leBytes 8 i ++ Variants.enc vs i fs (pos + 8)
  | _, _, _ => []
/-- `serialize_slice_zero` / `serialize_slice_deep`. -/
def Ty.encSeq : Ty → List Val → Nat → B
  | t, vs, pos =>
      if t.isZC then leBytes 8 vs.length ++ zeros (pad (pos + 8) t.maxSizeOf) ++ Ty.toMemList t vs
      else leBytes 8 vs.length ++ Ty.encList t vs (pos + 8)
def Ty.encList : Ty → List Val → Nat → B
  | _, [], _ => []
  | t, v :: vs, pos =>
      let e := t.enc v pos
      e ++ Ty.encList t vs (pos + e.length)
def Fields.enc : Fields → List Val → Nat → B
  | .cons _ _ t r, v :: vs, pos =>
      let e := t.enc v pos
      e ++ r.enc vs (pos + e.length)
  | _, _, _ => []
def Variants.enc : Variants → Nat → List Val → Nat → B
  | .nil, _, _, _ => []
  | .cons _ fs _, 0, vals, pos => fs.enc vals pos
  | .cons _ _ r, i+1, vals, pos => r.enc i vals pos
end

/-! ### Readers -/

/-- Reader state and result: value, remaining bytes, position. -/
abbrev RRes (α : Type) := Res (α × B × Nat)

/-- The two implementations of `ReadWithPos`: `ReaderWithPos` over any `ReadNoStd`, and
    `SliceWithPos` whose first byte lives at address `base`. They differ in `align`. -/
inductive Mode where
  | reader
  | slice (base : Nat)
  deriving DecidableEq, Repr

/-- `read_exact` of `n` bytes (same behaviour for both implementations). -/
def readExact (n : Nat) (d : B) (pos : Nat) : RRes B :=
  if n ≤ d.length then .ok (d.take n, d.drop n, pos + n) else .err .readError

/-- `SliceWithPos::skip` / direct indexing `data[..n]`: panics when short. -/
def takeOrPanic (n : Nat) (d : B) (pos : Nat) : RRes B :=
  if n ≤ d.length then .ok (d.take n, d.drop n, pos + n) else .panic

/-- `ReadWithPos::align::<T>()` for unit `u`. -/
def alignRead (m : Mode) (u : Nat) (d : B) (pos : Nat) : RRes Unit :=
  match m with
  | .reader => (readExact (pad pos u) d pos).bind fun (_, d, pos) => .ok ((), d, pos)
  | .slice base =>
      (takeOrPanic (pad pos u) d pos).bind fun (_, d, pos) =>
        if (base + pos) % u != 0 then .err .alignment else .ok ((), d, pos)

/-- `usize::_deserialize_full_inner` and the other fixed-width words. -/
def readWord (w : Nat) (d : B) (pos : Nat) : RRes Nat :=
  (readExact w d pos).bind fun (b, d, pos) => .ok (leVal b, d, pos)

/-- A loop `for _ in 0..n { res.push(read()?) }`. -/
def decMany (rd : B → Nat → RRes α) : Nat → B → Nat → RRes (List α)
  | 0, d, pos => .ok ([], d, pos)
  | n+1, d, pos =>
      (rd d pos).bind fun (v, d, pos) =>
        (decMany rd n d pos).bind fun (vs, d, pos) => .ok (v :: vs, d, pos)

/-- Full-copy reader of a primitive. -/
def Prim.decFull (p : Prim) (d : B) (pos : Nat) : RRes Val :=
  match p with
  | .unit => .ok (.unit, d, pos)
  | .bool => (readWord 1 d pos).bind fun (n, d, pos) => .ok (.bits (if n != 0 then 1 else 0), d, pos)
  | .char => (readWord 4 d pos).bind fun (n, d, pos) => if isScalar n then .ok (.bits n, d, pos) else .panic
  | .nz k => (readWord k.size d pos).bind fun (n, d, pos) => if n == 0 then .panic else .ok (.bits n, d, pos)
  | p => (readWord p.size d pos).bind fun (n, d, pos) => .ok (.bits n, d, pos)

/-- ε-copy reader of a primitive: indexes the slice directly, so it panics on short input. -/
def Prim.decEps (p : Prim) (d : B) (pos : Nat) : RRes Val :=
  match p with
  | .unit => .ok (.unit, d, pos)
  | .bool => (takeOrPanic 1 d pos).bind fun (b, d, pos) => .ok (.bits (if leVal b != 0 then 1 else 0), d, pos)
  | .char => (takeOrPanic 4 d pos).bind fun (b, d, pos) => if isScalar (leVal b) then .ok (.bits (leVal b), d, pos) else .panic
  | .nz k => (takeOrPanic k.size d pos).bind fun (b, d, pos) => if leVal b == 0 then .panic else .ok (.bits (leVal b), d, pos)
  | p => (takeOrPanic p.size d pos).bind fun (b, d, pos) => .ok (.bits (leVal b), d, pos)

/-- `isize::MAX`: `Vec::with_capacity` panics with "capacity overflow" beyond it. -/
def isizeMax : Nat := 2^63 - 1

/-- `deserialize_full_vec_zero::<T>`: length, alignment, capacity check, one `read_exact`. -/
def decFullVecZero (m : Mode) (t : Ty) (d : B) (pos : Nat) : RRes (List Val) :=
  (readWord 8 d pos).bind fun (len, d, pos) =>
    (alignRead m t.maxSizeOf d pos).bind fun (_, d, pos) =>
      if len * t.sizeOf > isizeMax then .panic
      else (readExact (len * t.sizeOf) d pos).bind fun (b, d, pos) =>
        .ok (Ty.fromMemList t len b, d, pos)

/-- `deserialize_full_zero::<T>`. -/
def decFullZero (m : Mode) (t : Ty) (d : B) (pos : Nat) : RRes Val :=
  (alignRead m t.maxSizeOf d pos).bind fun (_, d, pos) =>
    (readExact t.sizeOf d pos).bind fun (b, d, pos) => .ok (t.fromMem b, d, pos)

/-- A string: `deserialize_full_vec_zero::<u8>` then `String::from_utf8(..).unwrap()`. -/
def decFullStr (d : B) (pos : Nat) : RRes Val :=
  (readWord 8 d pos).bind fun (len, d, pos) =>
    if len > isizeMax then .panic
    else (readExact len d pos).bind fun (b, d, pos) =>
      if validUtf8 b then .ok (.str b, d, pos) else .panic

mutual
/-- `_deserialize_full_inner` on a `ReadWithPos` of kind `m`. -/
def Ty.decFull (m : Mode) : Ty → B → Nat → RRes Val
  | .prim p, d, pos => p.decFull d pos
  | .phantom _, d, pos => .ok (.unit, d, pos)
  | .string, d, pos => decFullStr d pos
  | .boxStr, d, pos => decFullStr d pos
  | .vec t, d, pos =>
      if t.isZC then (decFullVecZero m t d pos).bind fun (vs, d, pos) => .ok (.seq vs, d, pos)
      else (readWord 8 d pos).bind fun (len, d, pos) =>
        (decMany (Ty.decFull m t) len d pos).bind fun (vs, d, pos) => .ok (.seq vs, d, pos)
  | .boxSlice t, d, pos =>
      if t.isZC then (decFullVecZero m t d pos).bind fun (vs, d, pos) => .ok (.seq vs, d, pos)
      else (readWord 8 d pos).bind fun (len, d, pos) =>
        (decMany (Ty.decFull m t) len d pos).bind fun (vs, d, pos) => .ok (.seq vs, d, pos)
  | .array t n, d, pos =>
      if t.isZC then decFullZero m (.array t n) d pos
      else (decMany (Ty.decFull m t) n d pos).bind fun (vs, d, pos) => .ok (.seq vs, d, pos)
  | .tuple t n, d, pos => decFullZero m (.tuple t n) d pos
  | .option t, d, pos =>
      (readWord 1 d pos).bind fun (tag, d, pos) =>
        match tag with
        | 0 => .ok (.variant 0 [], d, pos)
        | 1 => (Ty.decFull m t d pos).bind fun (v, d, pos) => .ok (.variant 1 [v], d, pos)
        | t => .err (.invalidTag t)
  | .bound t, d, pos =>
      (readWord 1 d pos).bind fun (tag, d, pos) =>
        match tag with
        | 0 => .ok (.variant 0 [], d, pos)
        | 1 => (Ty.decFull m t d pos).bind fun (v, d, pos) => .ok (.variant 1 [v], d, pos)
        | 2 => (Ty.decFull m t d pos).bind fun (v, d, pos) => .ok (.variant 2 [v], d, pos)
        | t => .err (.invalidTag t)
  | .controlFlow b c, d, pos =>
      (readWord 1 d pos).bind fun (tag, d, pos) =>
        match tag with
        | 0 => (Ty.decFull m b d pos).bind fun (v, d, pos) => .ok (.variant 0 [v], d, pos)
        | 1 => (Ty.decFull m c d pos).bind fun (v, d, pos) => .ok (.variant 1 [v], d, pos)
        | t => .err (.invalidTag t)
  | .range .range t, d, pos =>
      (Ty.decFull m t d pos).bind fun (a, d, pos) =>
        (Ty.decFull m t d pos).bind fun (b, d, pos) => .ok (.record [a, b], d, pos)
  | .range .incl t, d, pos =>
      (Ty.decFull m t d pos).bind fun (a, d, pos) =>
        (Ty.decFull m t d pos).bind fun (b, d, pos) =>
          (readWord 1 d pos).bind fun (ex, d, pos) =>
            if ex != 0 then .panic else .ok (.record [a, b], d, pos)
  | .range .from t, d, pos => (Ty.decFull m t d pos).bind fun (a, d, pos) => .ok (.record [a], d, pos)
  | .range .to t, d, pos => (Ty.decFull m t d pos).bind fun (a, d, pos) => .ok (.record [a], d, pos)
  | .range .toIncl t, d, pos => (Ty.decFull m t d pos).bind fun (a, d, pos) => .ok (.record [a], d, pos)
  | .rangeFull, d, pos => .ok (.record [], d, pos)
  | .adt mt vs, d, pos =>
      if mt.zero then decFullZero m (.adt mt vs) d pos
      else if mt.isEnum then
        (readWord 8 d pos).bind fun (tag, d, pos) => Variants.decFull m vs tag tag d pos
      else match vs with
        | .cons _ fds .nil => (Fields.decFull m fds d pos).bind fun (fs, d, pos) => .ok (.record fs, d, pos)
        | _ => .panic
  | .sliceRef _, _, _ => .panic
  | .serIter _, _, _ => .panic
def Fields.decFull (m : Mode) : Fields → B → Nat → RRes (List Val)
  | .nil, d, pos => .ok ([], d, pos)
  | .cons _ _ t r, d, pos =>
      (Ty.decFull m t d pos).bind fun (v, d, pos) =>
        (Fields.decFull m r d pos).bind fun (vs, d, pos) => .ok (v :: vs, d, pos)
/-- `match tag { 0 => …, 1 => …, tag => Err(InvalidTag(tag)) }`; `orig` is the tag read. -/
def Variants.decFull (m : Mode) : Variants → Nat → Nat → B → Nat → RRes Val
  | .nil, orig, _, _, _ => .err (.invalidTag orig)
  | .cons _ fs _, orig, 0, d, pos =>
      (Fields.decFull m fs d pos).bind fun (vals, d, pos) => .ok (.variant orig vals, d, pos)
  | .cons _ _ r, orig, i+1, d, pos => Variants.decFull m r orig i d pos
end

/-- `deserialize_eps_zero::<T>`. -/
def decEpsZero (base : Nat) (t : Ty) (d : B) (pos : Nat) : RRes EVal :=
  (alignRead (.slice base) t.maxSizeOf d pos).bind fun (_, d, pos) =>
    if t.sizeOf == 0 then .ok (.zRef t (t.fromMem []), d, pos)
    else (takeOrPanic t.sizeOf d pos).bind fun (b, d, pos') => .ok (.bRef pos t (t.fromMem b), d, pos')

/-- `deserialize_eps_slice_zero::<T>` (debug profile: the multiplication panics on overflow). -/
def decEpsSliceZero (base : Nat) (t : Ty) (d : B) (pos : Nat) : RRes (Nat × B × List Val) :=
  (readWord 8 d pos).bind fun (len, d, pos) =>
    if len * t.sizeOf ≥ 2^64 then .panic
    else (alignRead (.slice base) t.maxSizeOf d pos).bind fun (_, d, pos) =>
      (takeOrPanic (len * t.sizeOf) d pos).bind fun (b, d, pos') =>
        .ok ((pos, b, Ty.fromMemList t len b), d, pos')

mutual
/-- `_deserialize_eps_inner` on a `SliceWithPos` whose first byte lives at address `base`
    (positions are relative to the start of the slice). -/
def Ty.decEps (base : Nat) : Ty → B → Nat → RRes EVal
  | .prim p, d, pos => (p.decEps d pos).bind fun (v, d, pos) =>
      .ok ((match v with | .bits n => EVal.bits n | _ => EVal.unit), d, pos)
  | .phantom _, d, pos => .ok (.unit, d, pos)
  | .string, d, pos => (decEpsSliceZero base (.prim (.int .u8)) d pos).bind fun ((off, b, _), d, pos) => .ok (.bStr off b, d, pos)
  | .boxStr, d, pos => (decEpsSliceZero base (.prim (.int .u8)) d pos).bind fun ((off, b, _), d, pos) => .ok (.bStr off b, d, pos)
  | .vec t, d, pos =>
      if t.isZC then (decEpsSliceZero base t d pos).bind fun ((off, _, vs), d, pos) => .ok (.bSlice off t vs, d, pos)
      else (readWord 8 d pos).bind fun (len, d, pos) =>
        (decMany (Ty.decEps base t) len d pos).bind fun (vs, d, pos) => .ok (.seq vs, d, pos)
  | .boxSlice t, d, pos =>
      if t.isZC then (decEpsSliceZero base t d pos).bind fun ((off, _, vs), d, pos) => .ok (.bSlice off t vs, d, pos)
      else (readWord 8 d pos).bind fun (len, d, pos) =>
        (decMany (Ty.decEps base t) len d pos).bind fun (vs, d, pos) => .ok (.seq vs, d, pos)
  | .array t n, d, pos =>
      if t.isZC then
        (alignRead (.slice base) t.maxSizeOf d pos).bind fun (_, d, pos) =>
          (takeOrPanic (n * t.sizeOf) d pos).bind fun (b, d, pos') =>
            .ok (.bRef pos (.array t n) (.seq (Ty.fromMemList t n b)), d, pos')
      else (decMany (Ty.decEps base t) n d pos).bind fun (vs, d, pos) => .ok (.seq vs, d, pos)
  | .tuple t n, d, pos => decEpsZero base (.tuple t n) d pos
  | .option t, d, pos =>
      (readWord 1 d pos).bind fun (tag, d, pos) =>
        match tag with
        | 0 => .ok (.variant 0 [], d, pos)
        | 1 => (Ty.decEps base t d pos).bind fun (v, d, pos) => .ok (.variant 1 [v], d, pos)
        | t => .err (.invalidTag t)
  | .bound t, d, pos =>
      (readWord 1 d pos).bind fun (tag, d, pos) =>
        match tag with
        | 0 => .ok (.variant 0 [], d, pos)
        | 1 => (Ty.decEps base t d pos).bind fun (v, d, pos) => .ok (.variant 1 [v], d, pos)
        | 2 => (Ty.decEps base t d pos).bind fun (v, d, pos) => .ok (.variant 2 [v], d, pos)
        | t => .err (.invalidTag t)
  | .controlFlow b c, d, pos =>
      (readWord 1 d pos).bind fun (tag, d, pos) =>
        match tag with
        | 0 => (Ty.decEps base b d pos).bind fun (v, d, pos) => .ok (.variant 0 [v], d, pos)
        | 1 => (Ty.decEps base c d pos).bind fun (v, d, pos) => .ok (.variant 1 [v], d, pos)
        | t => .err (.invalidTag t)
  | .range .range t, d, pos =>
      (Ty.decEps base t d pos).bind fun (a, d, pos) =>
        (Ty.decEps base t d pos).bind fun (b, d, pos) => .ok (.record [a, b], d, pos)
  | .range .incl t, d, pos =>
      (Ty.decEps base t d pos).bind fun (a, d, pos) =>
        (Ty.decEps base t d pos).bind fun (b, d, pos) =>
          (readWord 1 d pos).bind fun (ex, d, pos) =>
            if ex != 0 then .panic else .ok (.record [a, b], d, pos)
  | .range .from t, d, pos => (Ty.decEps base t d pos).bind fun (a, d, pos) => .ok (.record [a], d, pos)
  | .range .to t, d, pos => (Ty.decEps base t d pos).bind fun (a, d, pos) => .ok (.record [a], d, pos)
  | .range .toIncl t, d, pos => (Ty.decEps base t d pos).bind fun (a, d, pos) => .ok (.record [a], d, pos)
  | .rangeFull, d, pos => .ok (.record [], d, pos)
  | .adt mt vs, d, pos =>
      if mt.zero then decEpsZero base (.adt mt vs) d pos
      else if mt.isEnum then
        (readWord 8 d pos).bind fun (tag, d, pos) => Variants.decEps base vs tag tag d pos
      else match vs with
        | .cons _ fds .nil => (Fields.decEps base fds d pos).bind fun (fs, d, pos) => .ok (.record fs, d, pos)
        | _ => .panic
  | .sliceRef _, _, _ => .panic
  | .serIter _, _, _ => .panic
/-- Per field: the ε-copy reader iff the field's declared type is a type parameter, otherwise the
    full-copy reader *on the slice* (which still checks alignment). -/
def Fields.decEps (base : Nat) : Fields → B → Nat → RRes (List EVal)
  | .nil, d, pos => .ok ([], d, pos)
  | .cons _ viaEps t r, d, pos =>
      (if viaEps then Ty.decEps base t d pos
       else (Ty.decFull (.slice base) t d pos).bind fun (v, d, pos) => .ok (.full v, d, pos)).bind
        fun (v, d, pos) =>
          (Fields.decEps base r d pos).bind fun (vs, d, pos) => .ok (v :: vs, d, pos)
def Variants.decEps (base : Nat) : Variants → Nat → Nat → B → Nat → RRes EVal
  | .nil, orig, _, _, _ => .err (.invalidTag orig)
  | .cons _ fs _, orig, 0, d, pos =>
      (Fields.decEps base fs d pos).bind fun (vals, d, pos) => .ok (.variant orig vals, d, pos)
  | .cons _ _ r, orig, i+1, d, pos => Variants.decEps base r orig i d pos
end

end Eps
