/-
  The file header (`write_header` / `check_header`) and the top-level entry points
  `serialize`, `deserialize_full`, `deserialize_eps`.
-/
import EpsModel.Codec
import EpsModel.Hash
namespace Eps

/-- `MAGIC = u64::from_ne_bytes(*b"epserde ")`, as the bytes written. -/
def magicBytes : B := [0x65, 0x70, 0x73, 0x65, 0x72, 0x64, 0x65, 0x20]  -- b"epserde "
def magic : Nat := leVal magicBytes
/-- `MAGIC_REV`: what a reader of the opposite endianness sees. -/
def magicRev : Nat := leVal magicBytes.reverse
def versionMajor : Nat := 1
def versionMinor : Nat := 1
def usizeSize : Nat := 8

/-- The 29 fixed bytes, then the length-prefixed type name. `th`, `ah` are the two hash words. -/
def wHeader (th ah : Nat) (name : B) : B :=
  magicBytes ++ leBytes 2 versionMajor ++ leBytes 2 versionMinor ++ leBytes 1 usizeSize ++
  leBytes 8 th ++ leBytes 8 ah ++ (leBytes 8 name.length ++ name)

/-- `check_header::<T>` for a type whose hash words are `th`, `ah` (the same code for both modes). -/
def checkHeader (th ah : Nat) (d : B) (pos : Nat) : RRes Unit :=
  (readWord 8 d pos).bind fun (m, d, pos) =>
    if m != magic then (if m == magicRev then .err .endianness else .err (.magic m))
    else (readWord 2 d pos).bind fun (major, d, pos) =>
      if major != versionMajor then .err (.major major)
      else (readWord 2 d pos).bind fun (minor, d, pos) =>
        if minor > versionMinor then .err (.minor minor)
        else (readWord 1 d pos).bind fun (us, d, pos) =>
          if us != usizeSize then .err (.usizeSize us)
          else (readWord 8 d pos).bind fun (sth, d, pos) =>
            (readWord 8 d pos).bind fun (sah, d, pos) =>
              (decFullStr d pos).bind fun (_, d, pos) =>
                if sth != th then .err (.wrongTypeHash sth)
                else if sah != ah then .err (.wrongAlignHash sah)
                else .ok ((), d, pos)

section
variable (H : B → Nat)

def Ty.typeHash (t : Ty) : Nat := H t.typeFeed
def Ty.alignHash (t : Ty) : Nat := H (t.alignFeed 0).1

/-- Header written when serializing a value of type `T` (the hashes are those of `SerType`;
    slice/iterator wrappers share the feeds of `Vec`, so no mapping is needed here). -/
def Ty.header (t : Ty) (name : B) : B := wHeader (t.typeHash H) (t.alignHash H) name

/-- `Serialize::serialize`: all the bytes written; the returned count is their number. -/
def Ty.ser (t : Ty) (name : B) (v : Val) : B :=
  let h := t.header H name
  h ++ t.enc v h.length

/-- `Deserialize::deserialize_full` from a reader delivering `d`: value and bytes consumed. -/
def Ty.deFull (t : Ty) (d : B) : Res (Val × Nat) :=
  (checkHeader (t.typeHash H) (t.alignHash H) d 0).bind fun (_, d, pos) =>
    (t.decFull .reader d pos).bind fun (v, _, pos) => .ok (v, pos)

/-- `Deserialize::deserialize_eps` of a slice `d` whose first byte lives at address `base`. -/
def Ty.deEps (t : Ty) (base : Nat) (d : B) : Res (EVal × Nat) :=
  (checkHeader (t.typeHash H) (t.alignHash H) d 0).bind fun (_, d, pos) =>
    (t.decEps base d pos).bind fun (v, _, pos) => .ok (v, pos)
end

end Eps
