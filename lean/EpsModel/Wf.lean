/-
  Well-formed types: the part of the universe rustc and the derive macro accept, on which the
  property theorems are stated. Explicit, decidable, and satisfied by concrete types (see the
  examples next to each theorem).
-/
import EpsModel.Codec
namespace Eps

/-- `u` is a power of two not exceeding 2^63. -/
def pow2b (u : Nat) : Bool := (List.range 64).any (fun k => u == 2 ^ k)

theorem pow2b_spec {u : Nat} (h : pow2b u = true) : ∃ k, k ≤ 63 ∧ u = 2 ^ k := by
  unfold pow2b at h
  rw [List.any_eq_true] at h
  obtain ⟨k, hk, he⟩ := h
  rw [List.mem_range] at hk
  exact ⟨k, by omega, by simpa using he⟩

mutual
/-- The type is serializable and deserializable by the crate as the code stands, and all its
    alignment units are powers of two (which excludes ranges over index types whose size is not a
    power of two — recorded as a known finding — and nothing else). Zero-copy enums (`repr(C)`: a
    4-byte tag followed by the union of the variants) are included. -/
def Ty.wf : Ty → Bool
  | .prim _ => true
  | .phantom _ => true
  | .string => true
  | .boxStr => true
  | .vec t => t.wf && (t.isZC || t.isDeep)
  | .boxSlice t => t.wf && (t.isZC || t.isDeep)
  | .array t _ => t.wf && (t.isZC || t.isDeep)
  | .tuple t n => t.wf && t.isZC && decide (1 ≤ n) && decide (n ≤ 12)
  | .option t => t.wf
  | .bound t => t.wf
  | .controlFlow b c => b.wf && c.wf
  | .range _ t => t.wf && t.isZC && pow2b t.sizeOf && decide (t.alignOf ≤ t.sizeOf)
  | .rangeFull => true
  | .adt m vs =>
      pow2b m.alignAttr && Variants.wf vs && decide (vs.length < 2^64) &&
      (if m.zero then Variants.allZC vs && decide (vs.length < 2^32) else true) &&
      (m.isEnum || vs.length == 1)
  | .sliceRef _ => false
  | .serIter _ => false
def Fields.wf : Fields → Bool
  | .nil => true
  | .cons _ _ t r => t.wf && r.wf
def Variants.wf : Variants → Bool
  | .nil => true
  | .cons _ fs r => fs.wf && r.wf
end

end Eps
