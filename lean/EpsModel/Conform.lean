/-
  The documented substitution, as a predicate on ε-copy results: which shape the result of
  `deserialize_eps` has for each type (the value-level counterpart of `DeserType<'a>`).
-/
import EpsModel.Codec
namespace Eps

mutual
/-- `e` has the shape of the ε-copy type of `T`. -/
def Ty.Conforms : Ty → EVal → Prop
  | .prim _, e => (∃ n, e = .bits n) ∨ e = .unit                      -- primitives stay values
  | .phantom _, e => e = .unit
  | .string, e => ∃ off b, e = .bStr off b                            -- strings become borrowed `&str`
  | .boxStr, e => ∃ off b, e = .bStr off b
  | .vec t, e =>                                                      -- sequences of zero-copy elements become
      (t.isZC = true ∧ ∃ off vs, e = .bSlice off t vs) ∨               -- borrowed slices; deep sequences are
      (t.isZC = false ∧ ∃ es, e = .seq es ∧ ∀ x ∈ es, t.Conforms x)    -- rebuilt with substituted elements
  | .boxSlice t, e =>
      (t.isZC = true ∧ ∃ off vs, e = .bSlice off t vs) ∨
      (t.isZC = false ∧ ∃ es, e = .seq es ∧ ∀ x ∈ es, t.Conforms x)
  | .array t n, e =>
      (t.isZC = true ∧ ∃ off v, e = .bRef off (.array t n) v) ∨
      (t.isZC = false ∧ ∃ es, e = .seq es ∧ ∀ x ∈ es, t.Conforms x)
  | .tuple t n, e => (∃ off v, e = .bRef off (.tuple t n) v) ∨ (∃ v, e = .zRef (.tuple t n) v)
  | .option t, e => e = .variant 0 [] ∨ ∃ x, e = .variant 1 [x] ∧ t.Conforms x
  | .bound t, e => e = .variant 0 [] ∨ (∃ x, e = .variant 1 [x] ∧ t.Conforms x) ∨ (∃ x, e = .variant 2 [x] ∧ t.Conforms x)
  | .controlFlow b c, e => (∃ x, e = .variant 0 [x] ∧ b.Conforms x) ∨ (∃ x, e = .variant 1 [x] ∧ c.Conforms x)
  | .range _ t, e => (∃ a b, e = .record [a, b] ∧ t.Conforms a ∧ t.Conforms b) ∨ (∃ a, e = .record [a] ∧ t.Conforms a)
  | .rangeFull, e => e = .record []
  | .adt m vs, e =>
      if m.zero then (∃ off v, e = .bRef off (.adt m vs) v) ∨ (∃ v, e = .zRef (.adt m vs) v)   -- zero-copy structures become references
      else if m.isEnum then ∃ i es, e = .variant i es ∧ Variants.Conforms vs i es
      else ∃ es, e = .record es ∧ (match vs with | .cons _ fds .nil => Fields.Conforms fds es | _ => False)
  | .sliceRef _, _ => False
  | .serIter _, _ => False
/-- field by field: the ε-copy shape for fields whose declared type is a type parameter, a fully
    deserialized (owned) value for all the others -/
def Fields.Conforms : Fields → List EVal → Prop
  | .nil, es => es = []
  | .cons _ viaEps t r, es => ∃ e rest, es = e :: rest ∧ (if viaEps then t.Conforms e else ∃ v, e = .full v) ∧ r.Conforms rest
def Variants.Conforms : Variants → Nat → List EVal → Prop
  | .nil, _, _ => False
  | .cons _ fs _, 0, es => fs.Conforms es
  | .cons _ _ r, i+1, es => r.Conforms i es
end

end Eps
