/-
  The zero-copy blocks of a serialized value: where the writer aligns and calls `write_bytes`, and
  where the readers align (and, on a slice, check the address). Mirrors `enc`.
-/
import EpsModel.Codec
namespace Eps

/-- A zero-copy block: stream offset of its first byte, length in bytes, alignment unit. -/
structure Block where
  off : Nat
  len : Nat
  unit : Nat
  deriving Repr, DecidableEq

mutual
/-- Blocks of the value `v : T` serialized at stream position `pos`, in stream order. -/
def Ty.blocks : Ty → Val → Nat → List Block
  | .string, .str b, pos => [⟨pos + 8, b.length, 1⟩]
  | .boxStr, .str b, pos => [⟨pos + 8, b.length, 1⟩]
  | .vec t, .seq vs, pos => Ty.blocksSeq t vs pos
  | .boxSlice t, .seq vs, pos => Ty.blocksSeq t vs pos
  | .sliceRef t, .seq vs, pos => Ty.blocksSeq t vs pos
  | .serIter t, .seq vs, pos => Ty.blocksSeq t vs pos
  | .array t _, .seq vs, pos =>
      if t.isZC then [⟨pos + pad pos t.maxSizeOf, (Ty.toMemList t vs).length, t.maxSizeOf⟩]
      else Ty.blocksList t vs pos
  | .tuple t _, .seq vs, pos => [⟨pos + pad pos t.maxSizeOf, (Ty.toMemList t vs).length, t.maxSizeOf⟩]
  | .option t, .variant 1 [v], pos => t.blocks v (pos + 1)
  | .bound t, .variant 1 [v], pos => t.blocks v (pos + 1)
  | .bound t, .variant 2 [v], pos => t.blocks v (pos + 1)
  | .controlFlow b _, .variant 0 [v], pos => b.blocks v (pos + 1)
  | .controlFlow _ c, .variant 1 [v], pos => c.blocks v (pos + 1)
  | .range .range t, .record [a, b], pos => t.blocks a pos ++ t.blocks b (pos + (t.enc a pos).length)
  | .range .incl t, .record [a, b], pos => t.blocks a pos ++ t.blocks b (pos + (t.enc a pos).length)
  | .range .from t, .record [a], pos => t.blocks a pos
  | .range .to t, .record [a], pos => t.blocks a pos
  | .range .toIncl t, .record [a], pos => t.blocks a pos
  | .adt m vs, .record fs, pos =>
      if m.zero then
        [⟨pos + pad pos (Ty.maxSizeOf (.adt m vs)), (Ty.toMem (.adt m vs) (.record fs)).length, Ty.maxSizeOf (.adt m vs)⟩]
      else match vs with
        | .cons _ fds .nil => Fields.blocks fds fs pos
        | _ => []
  | .adt m vs, .variant i fs, pos =>
      if m.zero then
        [⟨pos + pad pos (Ty.maxSizeOf (.adt m vs)), (Ty.toMem (.adt m vs) (.variant i fs)).length, Ty.maxSizeOf (.adt m vs)⟩]
      else Variants.blocks vs i fs (pos + 8)
  | _, _, _ => []
def Ty.blocksSeq : Ty → List Val → Nat → List Block
  | t, vs, pos =>
      if t.isZC then [⟨pos + 8 + pad (pos + 8) t.maxSizeOf, (Ty.toMemList t vs).length, t.maxSizeOf⟩]
      else Ty.blocksList t vs (pos + 8)
def Ty.blocksList : Ty → List Val → Nat → List Block
  | _, [], _ => []
  | t, v :: vs, pos => t.blocks v pos ++ Ty.blocksList t vs (pos + (t.enc v pos).length)
def Fields.blocks : Fields → List Val → Nat → List Block
  | .cons _ _ t r, v :: vs, pos => t.blocks v pos ++ r.blocks vs (pos + (t.enc v pos).length)
  | _, _, _ => []
def Variants.blocks : Variants → Nat → List Val → Nat → List Block
  | .nil, _, _, _ => []
  | .cons _ fs _, 0, vals, pos => fs.blocks vals pos
  | .cons _ _ r, i+1, vals, pos => r.blocks i vals pos
end

/-- The address condition of `SliceWithPos::align` for a block at offset `off` of unit `u`;
    a generic reader makes no address check. -/
def ModeOK : Mode → Nat → Nat → Prop
  | .reader, _, _ => True
  | .slice base, off, u => (base + off) % u = 0

/-- Every block is placed on a multiple of its unit (always true for a generic reader). -/
def AlignedAll (m : Mode) (bs : List Block) : Prop := ∀ b ∈ bs, ModeOK m b.off b.unit

theorem AlignedAll_append {m : Mode} {a b : List Block} :
    AlignedAll m (a ++ b) ↔ AlignedAll m a ∧ AlignedAll m b := by
  simp [AlignedAll, List.mem_append, or_imp, forall_and]

theorem AlignedAll_reader (bs : List Block) : AlignedAll .reader bs := fun _ _ => trivial

theorem AlignedAll_nil (m : Mode) : AlignedAll m [] := fun _ h => by simp at h

end Eps
