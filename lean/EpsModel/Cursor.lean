/-
  `AlignedCursor<A>` (utils/aligned_cursor.rs) and the specification it is meant to refine,
  `std::io::Cursor<Vec<u8>>`, as two small state machines over the same operations.
-/
import EpsModel.Basic
namespace Eps.Cur

inductive SeekFrom where
  | start (n : Nat)
  | «end» (i : Int)
  | current (i : Int)
  deriving Repr, DecidableEq

inductive Op where
  | write (buf : B)
  | read (n : Nat)
  | seek (s : SeekFrom)
  | setPos (n : Nat)
  | flush
  -- provided methods of `Read` / `Write` (overridden by both cursors, or built from `read` / `write`)
  | readToEnd
  | readExact (n : Nat)
  | writeAll (buf : B)
  -- vectored I/O (overridden by both cursors): any number of buffers, empty ones included
  | writeV (bufs : List B)
  | readV (ns : List Nat)
  deriving Repr, DecidableEq

inductive Out where
  | wrote (n : Nat)
  | bytes (b : B)
  | pos (n : Nat)
  | unit
  | invalidInput
  | eof            -- `UnexpectedEof` of `read_exact`
  | panic
  deriving Repr, DecidableEq

def usizeMax : Nat := 2^64 - 1

/-- `isize::MAX`: no allocation may be larger (a `Vec` asked for more panics with "capacity overflow"). -/
def isizeMax : Nat := 2^63 - 1

/-- `base.checked_add_signed(off)` on `u64`, then the `<= usize::MAX` test. -/
def addSigned (base : Nat) (off : Int) : Option Nat :=
  let r := (base : Int) + off
  if r < 0 then none else if r.toNat > usizeMax then none else some r.toNat

/-! ### The aligned cursor -/

/-- Storage as a capacity (in bytes, a multiple of the alignment) and a total byte function; only
    indices below `cap` are backed by memory, and everything not yet written is zero. -/
structure ACur where
  cap : Nat
  get : Nat → UInt8
  pos : Nat
  len : Nat

def ACur.init : ACur := { cap := 0, get := fun _ => 0, pos := 0, len := 0 }

def ACur.asBytes (a : ACur) : B := (List.range a.len).map a.get

def ceilDiv (n a : Nat) : Nat := (n + (a - 1)) / a

/-- `with_capacity(c)`: storage for `c` bytes rounded up to whole units, nothing written -/
def ACur.withCapacity (al c : Nat) : ACur := { cap := ceilDiv c al * al, get := fun _ => 0, pos := 0, len := 0 }

/-- `write` -/
def ACur.write (al : Nat) (a : ACur) (buf : B) : ACur × Out :=
  let len := min buf.length (usizeMax - a.pos)
  if buf.length ≠ 0 ∧ len = 0 then (a, .invalidInput)
  else if isizeMax < a.pos + len then (a, .panic)   -- the storage cannot grow beyond `isize::MAX` bytes: capacity overflow, nothing changed yet
  else if len < buf.length then (a, .panic)   -- copy_from_slice length mismatch
  else
    let cap' := if a.cap < a.pos + len then ceilDiv (a.pos + len) al * al else a.cap
    let get' := fun i => if a.pos ≤ i ∧ i < a.pos + len then buf.getD (i - a.pos) 0 else a.get i
    ({ cap := cap', get := get', pos := a.pos + len, len := max a.len (a.pos + len) }, .wrote len)

/-- The same with the written bytes held in an array (constant-time indexing): what the compiled driver runs, so that
    writes of hundreds of kilobytes stay linear. Proved equal to `ACur.write`, which the theorems are about. -/
def ACur.writeImpl (al : Nat) (a : ACur) (buf : B) : ACur × Out :=
  let len := min buf.length (usizeMax - a.pos)
  if buf.length ≠ 0 ∧ len = 0 then (a, .invalidInput)
  else if isizeMax < a.pos + len then (a, .panic)
  else if len < buf.length then (a, .panic)
  else
    let cap' := if a.cap < a.pos + len then ceilDiv (a.pos + len) al * al else a.cap
    let arr := buf.toArray
    let get' := fun i => if a.pos ≤ i ∧ i < a.pos + len then arr.getD (i - a.pos) 0 else a.get i
    ({ cap := cap', get := get', pos := a.pos + len, len := max a.len (a.pos + len) }, .wrote len)

@[csimp] theorem ACur.write_eq_writeImpl : @ACur.write = @ACur.writeImpl := by
  funext al a buf
  simp only [ACur.write, ACur.writeImpl]
  split
  · rfl
  · split
    · rfl
    · split
      · rfl
      · congr 2
        funext i
        split
        · simp only [Array.getD, List.getD, List.size_toArray]
          by_cases h : i - a.pos < buf.length
          · simp [h, List.getElem?_eq_getElem h]
          · have : buf.length ≤ i - a.pos := by omega
            simp [h, List.getElem?_eq_none this]
        · rfl

/-- `read` into a buffer of `n` bytes -/
def ACur.read (a : ACur) (n : Nat) : ACur × Out :=
  if a.pos ≥ a.len then (a, .bytes [])
  else
    let k := min n (a.len - a.pos)
    ({ a with pos := a.pos + k }, .bytes ((List.range k).map fun i => a.get (a.pos + i)))

/-- the loop of `write_vectored`: one `write` per buffer, the counts added up; the first failure ends it -/
def ACur.writeMany (al : Nat) : ACur → List B → Nat → ACur × Out
  | a, [], acc => (a, .wrote acc)
  | a, b :: bs, acc =>
      match a.write al b with
      | (a', .wrote n) => ACur.writeMany al a' bs (acc + n)
      | r => r

/-- the loop of `read_vectored`: the buffers (of these lengths) are filled in order; a short read ends it -/
def ACur.readMany : ACur → List Nat → B → ACur × Out
  | a, [], acc => (a, .bytes acc)
  | a, n :: ns, acc =>
      match a.read n with
      | (a', .bytes b) => if b.length < n then (a', .bytes (acc ++ b)) else ACur.readMany a' ns (acc ++ b)
      | r => r

/-- one operation of `AlignedCursor<A>` where `A` has `al` bytes -/
def ACur.step (al : Nat) (a : ACur) : Op → ACur × Out
  | .write buf => a.write al buf
  | .read n => a.read n
  | .seek (.start n) => if n > usizeMax then (a, .invalidInput) else ({ a with pos := n }, .pos n)
  | .seek (.end i) =>
      match addSigned a.len i with
      | some n => ({ a with pos := n }, .pos n)
      | none => (a, .invalidInput)
  | .seek (.current i) =>
      match addSigned a.pos i with
      | some n => ({ a with pos := n }, .pos n)
      | none => (a, .invalidInput)
  | .setPos n => ({ a with pos := n }, .unit)
  | .flush => (a, .unit)
  -- the provided `read_to_end` calls `read` until it returns nothing: one `read` of everything that is left
  | .readToEnd => a.read (a.len - a.pos)
  -- `read_exact` (overridden): all `n` bytes, or `UnexpectedEof` with the position moved to the end
  | .readExact n =>
      if n ≤ a.len - a.pos then a.read n else ({ a with pos := a.len }, .eof)
  -- `write_all` (overridden): one `write`, which takes everything or fails
  | .writeAll buf =>
      match a.write al buf with
      | (a', .wrote _) => (a', .unit)
      | r => r
  -- `write_vectored` (overridden): an empty `write` first (the gap is filled even with no buffer), then every buffer
  | .writeV bufs =>
      match a.write al [] with
      | (a', .wrote n) => ACur.writeMany al a' bufs n
      | r => r
  -- `read_vectored` (overridden)
  | .readV ns => a.readMany ns []

/-! ### The standard cursor over a byte vector -/

structure SCur where
  buf : B
  pos : Nat

def SCur.init : SCur := { buf := [], pos := 0 }

/-- `write` (`vec_write`): zeros up to the position (also for an empty write), then overwrite / extend -/
def SCur.write (s : SCur) (b : B) : SCur × Out :=
  if isizeMax < s.pos + b.length then (s, .panic) else   -- `reserve` beyond `isize::MAX`: capacity overflow, nothing changed
  let v := if s.pos > s.buf.length then s.buf ++ zeros (s.pos - s.buf.length) else s.buf
  let v' := v.take s.pos ++ b ++ v.drop (s.pos + b.length)
  ({ buf := v', pos := s.pos + b.length }, .wrote b.length)

def SCur.read (s : SCur) (n : Nat) : SCur × Out :=
  let rem := s.buf.drop (min s.pos s.buf.length)
  let k := min n rem.length
  ({ s with pos := s.pos + k }, .bytes (rem.take k))

/-- `vec_write_vectored`: the vector is padded up to the position once, then every buffer is copied behind the
    previous one — the same as one `write` per buffer after an empty `write` -/
def SCur.writeMany : SCur → List B → Nat → SCur × Out
  | s, [], acc => (s, .wrote acc)
  | s, b :: bs, acc =>
      match s.write b with
      | (s', .wrote n) => SCur.writeMany s' bs (acc + n)
      | r => r

/-- `Cursor::read_vectored`: `read` into each buffer in turn, stopping after a short one -/
def SCur.readMany : SCur → List Nat → B → SCur × Out
  | s, [], acc => (s, .bytes acc)
  | s, n :: ns, acc =>
      match s.read n with
      | (s', .bytes b) => if b.length < n then (s', .bytes (acc ++ b)) else SCur.readMany s' ns (acc ++ b)
      | r => r

def SCur.step (s : SCur) : Op → SCur × Out
  | .write b => s.write b
  | .read n => s.read n
  | .seek (.start n) => ({ s with pos := n }, .pos n)
  | .seek (.end i) =>
      match addSigned s.buf.length i with
      | some n => ({ s with pos := n }, .pos n)
      | none => (s, .invalidInput)
  | .seek (.current i) =>
      match addSigned s.pos i with
      | some n => ({ s with pos := n }, .pos n)
      | none => (s, .invalidInput)
  | .setPos n => ({ s with pos := n }, .unit)
  | .flush => (s, .unit)
  -- `read_to_end`: the remaining slice is appended, the position advanced by its length
  | .readToEnd => s.read (s.buf.length - s.pos)
  -- `read_exact`: `Ok` advances by `n`; the only error is EOF, "so place the cursor at EOF"
  | .readExact n =>
      if n ≤ s.buf.length - s.pos then s.read n else ({ s with pos := s.buf.length }, .eof)
  -- `write_all` (`vec_write_all`): the same padding and copy as `write`
  | .writeAll b =>
      match s.write b with
      | (s', .wrote _) => (s', .unit)
      | r => r
  | .writeV bufs =>
      match s.write [] with
      | (s', .wrote n) => SCur.writeMany s' bufs n
      | r => r
  | .readV ns => s.readMany ns []

/-- run a history, collecting the outputs -/
def ACur.run (al : Nat) (a : ACur) : List Op → ACur × List Out
  | [] => (a, [])
  | op :: ops => let (a', o) := a.step al op; let (a'', os) := ACur.run al a' ops; (a'', o :: os)

def SCur.run (s : SCur) : List Op → SCur × List Out
  | [] => (s, [])
  | op :: ops => let (s', o) := s.step op; let (s'', os) := SCur.run s' ops; (s'', o :: os)

end Eps.Cur
