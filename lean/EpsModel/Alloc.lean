/-
  Allocation accounting for ε-copy results (C03, second sentence): what the reader allocates while
  it rebuilds the deep-copy skeleton, as a function of the ε-copy result (`epsAllocs`) and as a
  function of the type and of the value described (`Ty.allocOf`), in which the nodes that the type
  makes borrowed contribute nothing whatever they contain.
-/
import EpsModel.Codec
namespace Eps.C03
open Eps

mutual
/-- Heap allocations needed to own a fully deserialized value (one per non-empty string or
    sequence; an upper bound for arrays, which are stored inline). -/
def heapAllocs : Val → Nat
  | .str b => if b.isEmpty then 0 else 1
  | .seq vs => (if vs.isEmpty then 0 else 1) + heapAllocsList vs
  | .variant _ fs => heapAllocsList fs
  | .record fs => heapAllocsList fs
  | _ => 0
def heapAllocsList : List Val → Nat
  | [] => 0
  | v :: vs => heapAllocs v + heapAllocsList vs
end

mutual
/-- Allocations performed while building an ε-copy result: the rebuilt deep sequences and the
    fields that are by design fully copied; borrowed nodes contribute nothing, whatever their length. -/
def epsAllocs : EVal → Nat
  | .seq es => (if es.isEmpty then 0 else 1) + epsAllocsList es
  | .variant _ es => epsAllocsList es
  | .record es => epsAllocsList es
  | .full v => heapAllocs v
  | _ => 0
def epsAllocsList : List EVal → Nat
  | [] => 0
  | e :: es => epsAllocs e + epsAllocsList es
end

end Eps.C03

namespace Eps
open Eps.C03

mutual
/-- The allocations of the ε-copy reader of type `t` as a function of the value it describes: determined by the
    type (which nodes are borrowed) and by the deep-copy skeleton of the value only. Strings, sequences of
    zero-copy items, zero-copy arrays / tuples / structures contribute 0 whatever their contents and length. -/
def Ty.allocOf : Ty → Val → Nat
  | .vec t, v => if t.isZC then 0 else match v with
      | .seq vs => (if vs.isEmpty then 0 else 1) + Ty.allocOfList t vs
      | _ => 0
  | .boxSlice t, v => if t.isZC then 0 else match v with
      | .seq vs => (if vs.isEmpty then 0 else 1) + Ty.allocOfList t vs
      | _ => 0
  | .array t _, v => if t.isZC then 0 else match v with
      | .seq vs => (if vs.isEmpty then 0 else 1) + Ty.allocOfList t vs
      | _ => 0
  | .option t, v => match v with
      | .variant _ [x] => t.allocOf x
      | _ => 0
  | .bound t, v => match v with
      | .variant _ [x] => t.allocOf x
      | _ => 0
  | .controlFlow b c, v => match v with
      | .variant 0 [x] => b.allocOf x
      | .variant _ [x] => c.allocOf x
      | _ => 0
  | .range _ t, v => match v with
      | .record [a, b] => t.allocOf a + t.allocOf b
      | .record [a] => t.allocOf a
      | _ => 0
  | .adt m vs, v =>
      if m.zero then 0
      else if m.isEnum then match v with
        | .variant i fs => Variants.allocOf vs i fs
        | _ => 0
      else match vs, v with
        | .cons _ fds .nil, .record fs => Fields.allocOf fds fs
        | _, _ => 0
  | _, _ => 0
def Ty.allocOfList : Ty → List Val → Nat
  | _, [] => 0
  | t, v :: vs => t.allocOf v + Ty.allocOfList t vs
/-- a field whose declared type is a type parameter is read by the ε-copy reader; any other field is fully copied -/
def Fields.allocOf : Fields → List Val → Nat
  | .cons _ viaEps t r, v :: vs => (if viaEps then t.allocOf v else heapAllocs v) + r.allocOf vs
  | _, _ => 0
def Variants.allocOf : Variants → Nat → List Val → Nat
  | .nil, _, _ => 0
  | .cons _ fs _, 0, vals => fs.allocOf vals
  | .cons _ _ r, i+1, vals => r.allocOf i vals
end

end Eps

namespace Eps
open Eps.C03

mutual
/-- The deep-copy skeleton of a value of type `t`: everything the ε-copy reader borrows — strings, sequences of
    zero-copy items, zero-copy arrays, tuples, structures and enums, primitives — is forgotten (`unit`), the rebuilt
    sequences keep their length, sums keep their tag, and fields that are fully copied by design are kept whole. -/
def Ty.skel : Ty → Val → Val
  | .vec t, v => if t.isZC then .unit else match v with
      | .seq vs => .seq (Ty.skelList t vs)
      | _ => .unit
  | .boxSlice t, v => if t.isZC then .unit else match v with
      | .seq vs => .seq (Ty.skelList t vs)
      | _ => .unit
  | .array t _, v => if t.isZC then .unit else match v with
      | .seq vs => .seq (Ty.skelList t vs)
      | _ => .unit
  | .option t, v => match v with
      | .variant i [x] => .variant i [t.skel x]
      | _ => .unit
  | .bound t, v => match v with
      | .variant i [x] => .variant i [t.skel x]
      | _ => .unit
  | .controlFlow b c, v => match v with
      | .variant 0 [x] => .variant 0 [b.skel x]
      | .variant (i+1) [x] => .variant (i+1) [c.skel x]
      | _ => .unit
  | .range _ t, v => match v with
      | .record [a, b] => .record [t.skel a, t.skel b]
      | .record [a] => .record [t.skel a]
      | _ => .unit
  | .adt m vs, v =>
      if m.zero then .unit
      else if m.isEnum then match v with
        | .variant i fs => .variant i (Variants.skel vs i fs)
        | _ => .unit
      else match vs, v with
        | .cons _ fds .nil, .record fs => .record (Fields.skel fds fs)
        | _, _ => .unit
  | _, _ => .unit
def Ty.skelList : Ty → List Val → List Val
  | _, [] => []
  | t, v :: vs => t.skel v :: Ty.skelList t vs
def Fields.skel : Fields → List Val → List Val
  | .cons _ viaEps t r, v :: vs => (if viaEps then t.skel v else v) :: r.skel vs
  | _, _ => []
def Variants.skel : Variants → Nat → List Val → List Val
  | .nil, _, _ => []
  | .cons _ fs _, 0, vals => fs.skel vals
  | .cons _ _ r, i+1, vals => r.skel i vals
end

end Eps
