/-
  The file loaders of `Deserialize` (`load_full`, `load_mem`, `load_mmap`, `mmap`): which bytes
  the backing region holds, and the flag translation. The region of the copying loaders is the
  file followed by zeros up to a multiple of the alignment they round to.
-/
import EpsModel.Header
namespace Eps

inductive Loader where
  | full | mem | mmap | map
  deriving DecidableEq, Repr

/-- the bytes of the backing region for a file -/
def regionOf : Loader → B → B
  | .mem, file => file ++ zeros (pad file.length 64)     -- Vec<A64>, rounded up to 64
  | .mmap, file => file ++ zeros (pad file.length 16)    -- anonymous mapping, rounded up to 16
  | _, file => file

/-- `Flags::mmap_flags`: our three flags onto the bits of `mmap_rs::MmapFlags`. -/
def mmapFlags (f : Nat) : Nat :=
  (if f % 2 = 1 then 128 else 0) + (if (f / 2) % 2 = 1 then 256 else 0) + (if (f / 4) % 2 = 1 then 512 else 0)

end Eps
