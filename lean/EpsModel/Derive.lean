/-
  The un-instantiated level: a definition as the derive macro sees it (type / const parameters, field
  types as expressions over the parameters) and what `#[derive(Epserde)]` makes of it for given
  arguments: the instantiated type of the universe, with the decision — per field — of which
  ε-copy method the generated code calls.
-/
import EpsModel.Ty
namespace Eps

/-- Field type expressions over the parameters of a definition. -/
inductive TyExpr where
  | param (i : Nat)                      -- a type parameter, literally
  | ty (t : Ty)                          -- a closed type
  | vec (e : TyExpr) | boxSlice (e : TyExpr) | option (e : TyExpr) | bound (e : TyExpr) | phantom (e : TyExpr)
  | array (e : TyExpr) (n : Nat)
  | constArray (e : TyExpr) (ci : Nat)   -- `[T; N]` for the `ci`-th const parameter
  deriving Inhabited

structure FieldDef where
  name : B
  te : TyExpr

structure VariantDef where
  name : B
  fields : List FieldDef

structure Def where
  name : B
  isEnum : Bool
  zero : Bool
  deepAttr : Bool
  reprs : List B
  alignAttr : Nat
  nTypeParams : Nat
  constParams : List (B × Prim)
  variants : List VariantDef

/-- instantiate a field type expression -/
def TyExpr.inst (targs : List Ty) (cargs : List Nat) : TyExpr → Ty
  | .param i => targs.getD i (.prim .unit)
  | .ty t => t
  | .vec e => .vec (e.inst targs cargs)
  | .boxSlice e => .boxSlice (e.inst targs cargs)
  | .option e => .option (e.inst targs cargs)
  | .bound e => .bound (e.inst targs cargs)
  | .phantom e => .phantom (e.inst targs cargs)
  | .array e n => .array (e.inst targs cargs) n
  | .constArray e ci => .array (e.inst targs cargs) (cargs.getD ci 0)

/-- the derive's test `generics_names_raw.contains(&ty.to_token_stream().to_string())`: the declared
    type of the field is literally one of the type parameters -/
def TyExpr.isParam : TyExpr → Bool
  | .param _ => true
  | _ => false

/-- does the expression mention the parameter `i` (the derive's `is_subtype`)? -/
def TyExpr.mentions (i : Nat) : TyExpr → Bool
  | .param j => i == j
  | .ty _ => false
  | .vec e | .boxSlice e | .option e | .bound e | .phantom e => e.mentions i
  | .array e _ | .constArray e _ => e.mentions i

def instFields (targs : List Ty) (cargs : List Nat) : List FieldDef → Fields
  | [] => .nil
  | f :: fs => .cons f.name f.te.isParam (f.te.inst targs cargs) (instFields targs cargs fs)

def instVariants (targs : List Ty) (cargs : List Nat) : List VariantDef → Variants
  | [] => .nil
  | v :: vs => .cons v.name (instFields targs cargs v.fields) (instVariants targs cargs vs)

def zipConsts : List (B × Prim) → List Nat → List (B × Prim × Nat)
  | (n, p) :: r, v :: vs => (n, p, v) :: zipConsts r vs
  | _, _ => []

/-- What the derived implementations amount to for given arguments. -/
def Def.derive (d : Def) (targs : List Ty) (cargs : List Nat) : Ty :=
  .adt { name := d.name, isEnum := d.isEnum, zero := d.zero, deepAttr := d.deepAttr, reprs := d.reprs,
         alignAttr := d.alignAttr, consts := zipConsts d.constParams cargs }
       (instVariants targs cargs d.variants)

/-- the parameters that are the literal type of some field: exactly those the generated
    `DeserType<'a>` replaces by their own ε-copy type -/
def Def.replacedParams (d : Def) : List Nat :=
  (List.range d.nTypeParams).filter fun i => d.variants.any fun v => v.fields.any fun f =>
    match f.te with | .param j => i == j | _ => false

/-- `check_attrs`: the attribute combinations the macro refuses (it panics, i.e. a compile error) -/
def Def.attrsOk (d : Def) : Bool :=
  !(d.zero && !(d.reprs.contains [0x43])) && !(d.zero && d.deepAttr)     -- "C"

end Eps
