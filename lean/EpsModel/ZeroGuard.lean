/-
  The two defence layers against wrongly declared zero-copy types.

  * compile time: `check_attrs` (attribute coherence) and the no-op `fn test<T: ZeroCopy>() {}`
    instantiated for every field type by the derived `_serialize_inner` of a zero-copy type;
  * run time: the constant `IS_ZERO_COPY` (`repr(C)` and all fields `IS_ZERO_COPY`), checked by
    `serialize_zero` / `serialize_slice_zero`, and by the writer of `SerIter` (which writes its items itself, through
    `serialize_zero_unchecked`), before anything of the value is written. That every writer with a zero-copy path calls the
    check is a fact about the code, exercised by probe `c17_lying_leaf` through every container.
-/
import EpsModel.Derive
namespace Eps

mutual
/-- `<T as SerializeInner>::IS_ZERO_COPY` as the implementations compute it. -/
def Ty.zcConst : Ty → Bool
  | .prim _ => true
  | .phantom _ => true
  | .array t _ => t.zcConst
  | .tuple t _ => t.zcConst
  | .range _ t => t.zcConst
  | .rangeFull => true
  | .adt m vs => m.reprs.contains [0x43] && Variants.allConst vs      -- `#is_repr_c && fields…`
  | _ => false
def Fields.allConst : Fields → Bool
  | .nil => true
  | .cons _ _ t r => t.zcConst && r.allConst
def Variants.allConst : Variants → Bool
  | .nil => true
  | .cons _ fs r => fs.allConst && r.allConst
end

/-- `<T as SerializeInner>::ZERO_COPY_MISMATCH`: could be zero-copy, is not declared so, and lacks
    `#[deep_copy]` (a warning on serialization). -/
def Ty.mismatch : Ty → Bool
  | .array t _ => t.mismatch
  | .adt m vs => !m.zero && !m.deepAttr && Variants.allConst vs
  | _ => false

mutual
/-- Plain old data: the memory image of a value holds no heap handle, pointer or reference —
    primitives, phantom data, arrays / tuples / ranges of plain data, structures and enums all of
    whose fields are plain. -/
def Ty.plain : Ty → Bool
  | .prim _ => true
  | .phantom _ => true
  | .array t _ => t.plain
  | .tuple t _ => t.plain
  | .range _ t => t.plain
  | .rangeFull => true
  | .adt _ vs => Variants.allPlain vs
  | _ => false
def Fields.allPlain : Fields → Bool
  | .nil => true
  | .cons _ _ t r => t.plain && r.allPlain
def Variants.allPlain : Variants → Bool
  | .nil => true
  | .cons _ fs r => fs.allPlain && r.allPlain
end

/-- `serialize_zero` / `serialize_slice_zero`: `check_zero_copy::<V>()` comes first; the panic
    precedes the padding, the length and the data. `bytes` is what would be written. -/
def guardedZero (t : Ty) (bytes : B) : Res B := if t.zcConst then .ok bytes else .panic

/-- Compile-time acceptance of a definition at given arguments: the attribute check of the macro
    and, for a declared zero-copy type, the `ZeroCopy` bound instantiated for every field type. -/
def Def.compileOK (d : Def) (ta : List Ty) (ca : List Nat) : Bool :=
  d.attrsOk && (!d.zero || Variants.allZC (instVariants ta ca d.variants))

end Eps
