/-
  `encMask`: which bytes of `enc` are defined by the format (true) and which are interior padding
  of zero-copy structures (false), whose content the crate copies from memory as it is. Used by
  the driver only, to print wildcards at those positions.
-/
import EpsModel.Codec
namespace Eps

def trues (n : Nat) : List Bool := List.replicate n true

mutual
def Ty.encMask : Ty → Val → Nat → List Bool
  | .array t _, .seq vs, pos =>
      if t.isZC then trues (pad pos t.maxSizeOf) ++ Ty.memMaskList t vs
      else Ty.encMaskList t vs pos
  | .tuple t _, .seq vs, pos => trues (pad pos t.maxSizeOf) ++ Ty.memMaskList t vs
  | .vec t, .seq vs, pos => Ty.encMaskSeq t vs pos
  | .boxSlice t, .seq vs, pos => Ty.encMaskSeq t vs pos
  | .sliceRef t, .seq vs, pos => Ty.encMaskSeq t vs pos
  | .serIter t, .seq vs, pos => Ty.encMaskSeq t vs pos
  | .option t, .variant 1 [v], pos => true :: t.encMask v (pos + 1)
  | .bound t, .variant 1 [v], pos => true :: t.encMask v (pos + 1)
  | .bound t, .variant 2 [v], pos => true :: t.encMask v (pos + 1)
  | .controlFlow b _, .variant 0 [v], pos => true :: b.encMask v (pos + 1)
  | .controlFlow _ c, .variant 1 [v], pos => true :: c.encMask v (pos + 1)
  | .range .range t, .record [a, b], pos =>
      let ea := t.encMask a pos
      ea ++ t.encMask b (pos + ea.length)
  | .range .incl t, .record [a, b], pos =>
      let ea := t.encMask a pos
      ea ++ t.encMask b (pos + ea.length) ++ [true]
  | .range .from t, .record [a], pos => t.encMask a pos
  | .range .to t, .record [a], pos => t.encMask a pos
  | .range .toIncl t, .record [a], pos => t.encMask a pos
  | .adt m vs, .record fs, pos =>
      if m.zero then trues (pad pos (Ty.maxSizeOf (.adt m vs))) ++ Ty.memMask (.adt m vs) (.record fs)
      else match vs with
        | .cons _ fds .nil => Fields.encMask fds fs pos
        | _ => []
  | .adt m vs, .variant i fs, pos =>
      if m.zero then trues (pad pos (Ty.maxSizeOf (.adt m vs))) ++ Ty.memMask (.adt m vs) (.variant i fs)
      else trues 8 ++ Variants.encMask vs i fs (pos + 8)
  | t, v, pos => trues (t.enc v pos).length
def Ty.encMaskSeq : Ty → List Val → Nat → List Bool
  | t, vs, pos =>
      if t.isZC then trues 8 ++ trues (pad (pos + 8) t.maxSizeOf) ++ Ty.memMaskList t vs
      else trues 8 ++ Ty.encMaskList t vs (pos + 8)
def Ty.encMaskList : Ty → List Val → Nat → List Bool
  | _, [], _ => []
  | t, v :: vs, pos =>
      let e := t.encMask v pos
      e ++ Ty.encMaskList t vs (pos + e.length)
def Fields.encMask : Fields → List Val → Nat → List Bool
  | .cons _ _ t r, v :: vs, pos =>
      let e := t.encMask v pos
      e ++ r.encMask vs (pos + e.length)
  | _, _, _ => []
def Variants.encMask : Variants → Nat → List Val → Nat → List Bool
  | .nil, _, _, _ => []
  | .cons _ fs _, 0, vals, pos => fs.encMask vals pos
  | .cons _ _ r, i+1, vals, pos => r.encMask i vals pos
end

end Eps
