/-
  Protocol driver: reads one operation per line on stdin, answers one line per operation on stdout.
  The Rust harness answers the same lines by running the real crate; `bin/check` diffs the two.
-/
import Std.Data.HashMap
import EpsModel.ZeroGuard
import EpsModel.Show
import EpsModel.Mask
import EpsModel.Schema
import EpsModel.Cursor
import EpsModel.Iter
import EpsModel.Loaders
import EpsModel.XXH3
import EpsModel.Alloc
open Eps

structure St where
  types : Std.HashMap Nat Ty := {}
  names : Std.HashMap Nat B := {}
  stypes : Std.HashMap Nat Ty := {}
  snames : Std.HashMap Nat (B × B × B × B) := {}

def H : B → Nat := XXH3.xxh3

def parseTy (s : String) : Option Ty :=
  match pTy s.toList with
  | some (t, []) => some t
  | _ => none

def parseVal (s : String) : Option Val :=
  match pVal s.toList with
  | some (v, []) => some v
  | _ => none

def maskedHex (b : B) (m : List Bool) : String :=
  String.join ((b.zip (m ++ List.replicate (b.length - m.length) true)).map fun (x, k) => if k then hexByte x else "..")

/-- apply a mutation to a stream; `hl` is the header length -/
def applyMut1 (mu : String) (hl : Nat) (s : B) : Option B :=
  let off (t : String) : Option Nat :=
    if t.startsWith "b+" then (t.drop 2).toString.toNat?.map (· + hl)
    else if t.startsWith "e-" then (t.drop 2).toString.toNat?.map (s.length - ·)
    else t.toNat?
  match mu.splitOn ":" with
  | ["-"] => some s
  | ["trunc", k] => (off k).map fun k => s.take k
  | ["flip", k] => (off k).map fun k => s.set (k / 8) ((s.getD (k / 8) 0) ^^^ (1 <<< UInt8.ofNat (k % 8)))
  | ["set", o, v] => do
      let o ← off o; let v ← v.toNat?
      if o < s.length then some (s.set o (UInt8.ofNat v)) else some s
  | ["setw", o, w, v] => do
      let o ← off o; let w ← w.toNat?; let v ← v.toNat?
      if o + w ≤ s.length then some (s.take o ++ leBytes w v ++ s.drop (o + w)) else some s
  | ["append", h] => some (s ++ unhex h.toList)
  | _ => none

/-- `a+b`: one perturbation after the other -/
def applyMut (mu : String) (hl : Nat) (s : B) : Option B :=
  (mu.splitOn "+").foldl (fun acc one => acc.bind (applyMut1 one hl)) (some s)

def doCase (st : St) (i r : Nat) (mu val : String) : String :=
  match st.types[i]?, parseVal val with
  | some t, some v =>
    if !t.wt v then "illtyped" else
    let name := st.names.getD i []
    let hdr := t.header H name
    let s := t.ser H name v
    let m := trues hdr.length ++ t.encMask v hdr.length
    match applyMut mu hdr.length s with
    | none => "badmut"
    | some s' =>
      let sLine := "S ok " ++ toString s.length ++ " " ++ maskedHex s m
      let dt := t.serTypeTop
      let fLine := "F " ++ showRes (fun (v, n) => showVal v ++ " " ++ toString n) (dt.deFull H s')
      let eLine := "E " ++ showRes (fun (v, n) => showEVal v ++ " " ++ toString n) (dt.deEps H r s')
      sLine ++ " | " ++ fLine ++ " | " ++ eLine
  | none, _ => "notype"
  | _, none => "badval"

open Eps.Cur in
def parseCOps (s : String) : Option (List Op) :=
  (s.splitOn ";").filter (· ≠ "") |>.mapM fun t =>
    match t.splitOn ":" with
    | ["w", h] => some (.write (unhex h.toList))
    | ["w"] => some (.write [])
    | ["wz", n, seed] => match n.toNat?, seed.toNat? with
        | some n, some sd => some (.write ((List.range n).map fun k => UInt8.ofNat ((k * 31 + sd) % 251 + 1)))
        | _, _ => none
    | ["r", n] => n.toNat?.map .read
    | ["ss", n] => n.toNat?.map fun n => .seek (.start n)
    | ["se", i] => i.toInt?.map fun i => .seek (.end i)
    | ["sc", i] => i.toInt?.map fun i => .seek (.current i)
    | ["p", n] => n.toNat?.map .setPos
    | ["f"] => some .flush
    | ["ra"] => some .readToEnd
    | ["rx", n] => n.toNat?.map .readExact
    | ["wa", h] => some (.writeAll (unhex h.toList))
    | ["wa"] => some (.writeAll [])
    -- `write_vectored` / `read_vectored` with any number of buffers (`|`-separated; an empty hex string is an empty buffer)
    | ["wv"] => some (.writeV [])
    | ["wv", h] => some (.writeV ((h.splitOn "|").map fun x => unhex x.toList))
    | ["rv"] => some (.readV [])
    | ["rv", a] => ((a.splitOn "|").mapM fun (x : String) => x.toNat?).map .readV
    | _ => none

open Eps.Cur in
def showOut : Out → String
  | .wrote n => "w" ++ toString n
  | .bytes b => "b" ++ hexOf b
  | .pos n => "p" ++ toString n
  | .unit => "u"
  | .invalidInput => "einv"
  | .eof => "eUnexpectedEof"
  | .panic => "panic"

/-- outputs up to and including the first panic -/
def cutAtPanic : List String → List String
  | [] => []
  | "panic" :: _ => ["panic"]
  | x :: xs => x :: cutAtPanic xs

/-- a history up to and including its first panic (the harness stops there and reports the state it finds) -/
def runUntilPanic {σ : Type} (step : σ → Eps.Cur.Op → σ × Eps.Cur.Out) : σ → List Eps.Cur.Op → σ × List Eps.Cur.Out
  | s, [] => (s, [])
  | s, op :: ops =>
      let (s', o) := step s op
      if o == .panic then (s', [o])
      else let (s'', os) := runUntilPanic step s' ops; (s'', o :: os)

open Eps.Cur in
def cursorLine (al : Nat) (cap : Nat) (ops : List Op) : String :=
  let (a, ao) := runUntilPanic (ACur.step al) (ACur.withCapacity al cap) ops
  let (s, so) := runUntilPanic SCur.step SCur.init ops
  "cursor " ++ ",".intercalate (cutAtPanic (ao.map showOut)) ++ " | " ++ hexOf a.asBytes ++ " " ++ toString a.len ++ " " ++ toString a.pos ++ " ptrok || " ++
    ",".intercalate (so.map showOut) ++ " | " ++ hexOf s.buf ++ " " ++ toString s.buf.length ++ " " ++ toString s.pos ++ " ptrok"

def wrapTy (a : Ty) : Ty :=
  .adt { name := ascii "Wrap", isEnum := false, zero := false, deepAttr := false, reprs := [], alignAttr := 1, consts := [] }
    (.cons (ascii "Wrap") (.cons (ascii "a") true a (.cons (ascii "tail") false (.prim (.int .u16)) .nil)) .nil)

/-- `struct WrapM<A> { a: A, tail: u16 }` of the harness, stamped out by a `macro_rules!` (same shape as `Wrap`) -/
def wrapTyM (a : Ty) : Ty :=
  .adt { name := ascii "WrapM", isEnum := false, zero := false, deepAttr := false, reprs := [], alignAttr := 1, consts := [] }
    (.cons (ascii "WrapM") (.cons (ascii "a") true a (.cons (ascii "tail") false (.prim (.int .u16)) .nil)) .nil)

def serHex (t : Ty) (name : B) (v : Val) : String :=
  let hdr := t.header H name
  let s := t.ser H name v
  maskedHex s (trues hdr.length ++ t.encMask v hdr.length)

/-- `enum WrapE<A> { Held(u8, A), Empty }` of the harness -/
def wrapTyE (a : Ty) : Ty :=
  .adt { name := ascii "WrapE", isEnum := true, zero := false, deepAttr := false, reprs := [], alignAttr := 1, consts := [] }
    (.cons (ascii "Held") (.cons (ascii "0") false (.prim (.int .u8)) (.cons (ascii "1") true a .nil))
      (.cons (ascii "Empty") .nil .nil))

def doSer3 (t : Ty) (vn wn en mn : B) (v : Val) : String :=
  let wv := Val.record [v, .bits 0xBEEF]
  let ev := Val.variant 0 [.bits 7, v]
  let eu := Val.variant 1 []
  let z := t.isZC
  "ser3 V:" ++ serHex (.vec t) vn v ++ " S:" ++ serHex (.sliceRef t) vn v ++
  " I:" ++ (if z then serHex (.serIter t) vn v else "-") ++
  " WV:" ++ serHex (wrapTy (.vec t)) wn wv ++ " WS:" ++ serHex (wrapTy (.sliceRef t)) wn wv ++
  " WI:" ++ (if z then serHex (wrapTy (.serIter t)) wn wv else "-") ++
  " EV:" ++ serHex (wrapTyE (.vec t)) en ev ++ " ES:" ++ serHex (wrapTyE (.sliceRef t)) en ev ++
  " EI:" ++ (if z then serHex (wrapTyE (.serIter t)) en ev else "-") ++
  " EU:" ++ serHex (wrapTyE (.sliceRef t)) en eu ++ " EUV:" ++ serHex (wrapTyE (.vec t)) en eu ++
  " MV:" ++ serHex (wrapTyM (.vec t)) mn wv ++ " MS:" ++ serHex (wrapTyM (.sliceRef t)) mn wv ++
  " MI:" ++ (if z then serHex (wrapTyM (.serIter t)) mn wv else "-") ++ " intact=true"

def doIter (t : Ty) (vn : B) (v : Val) (a : Nat) : String :=
  match v with
  | .seq items =>
    if !t.isZC then "iter -" else
    let hdr := (Ty.vec t).header H vn
    let (body, r) := encIter t items a hdr.length
    let all := hdr ++ body
    -- interior padding of the items is uninitialised memory in the implementation: masked
    let mask := trues (hdr.length + 8 + pad (hdr.length + 8) t.maxSizeOf) ++ Ty.memMaskList t items
    match r with
    | .ok () => "iter ok " ++ toString all.length ++ " " ++ maskedHex all mask
    | .error (.lengthMismatch act exp) => "iter mismatch " ++ toString act ++ " " ++ toString exp ++ " " ++ maskedHex all mask
  | _ => "badval"

/-- parse `k=..,m=..,int=..,ff=..` : (budget, flush fails) -/
def parseWSpec (spec : String) : Option Nat × Bool :=
  (spec.splitOn ",").foldl (fun (acc : Option Nat × Bool) kv =>
    match kv.splitOn "=" with
    | ["k", v] => (v.toNat?, acc.2)
    | ["ff", v] => (acc.1, v != "0")       -- whatever the kind of error the failing flush reports
    | _ => acc) (none, false)

def wfailLine (t : Ty) (name : B) (v : Val) (spec : String) : String :=
  if spec == "devfull" || spec == "storefull" then "wfail err -" else
  let (k, ff) := parseWSpec spec
  -- `at=K`: K bytes (zeros) are on the stream already; the structure is written at position K
  let atK : Nat := ((spec.splitOn ",").filterMap fun kv => match kv.splitOn "=" with | ["at", v] => v.toNat? | _ => none).headD 0
  let hdr := t.header H name
  let s := zeros atK ++ hdr ++ t.enc v (atK + hdr.length)
  let m := trues (atK + hdr.length) ++ t.encMask v (atK + hdr.length)
  let kk := k.getD s.length
  let acc := s.take kk
  let r := if kk < s.length then "err" else if ff then "err" else "ok:" ++ toString s.length
  "wfail " ++ r ++ " " ++ maskedHex acc (m.take kk)

/-- one load of a file through a file-backed entry point; the mapping flags (`map:1`) never change the outcome -/
def floadLine (t : Ty) (loaderSpec : String) (bytes : B) : String :=
  let loader := (loaderSpec.splitOn ":").headD ""
  let status : String := match loader with
    | "full" => showRes (fun _ => "") (t.deFull H bytes)
    | _ =>
      let l := match loader with | "mem" => Loader.mem | "mmap" => Loader.mmap | _ => Loader.map
      -- mmap-rs refuses to create a mapping of length zero (both mapping loaders, before any byte is read)
      if bytes.isEmpty && loader != "mem" then "err other invalid_size"
      else showRes (fun _ => "") (t.deEps H 0 (regionOf l bytes))
  "fload " ++ status.trimAscii.toString

def step (st : St) (line : String) : St × Option String :=
  match line.trimAscii.toString.splitOn " " with
  | ["name", i, h] =>
      match i.toNat? with
      | some i => ({ st with names := st.names.insert i (unhex h.toList) }, none)
      | none => (st, some "bad-op")
  | ["sname", i, a, b, c, d] =>
      match i.toNat? with
      | some i => ({ st with snames := st.snames.insert i (unhex a.toList, unhex b.toList, unhex c.toList, unhex d.toList) }, none)
      | none => (st, some "bad-op")
  | ["stype", i, ty] =>
      match i.toNat?, parseTy ty with
      | some i, some t => ({ st with stypes := st.stypes.insert i t }, some ("stype " ++ toString i))
      | _, _ => (st, some "bad-type")
  | ["ser3", i, val] =>
      match i.toNat?.bind (st.stypes[·]?), parseVal val with
      | some t, some v =>
        let (vn, wn, en, mn) := st.snames.getD i.toNat! ([], [], [], [])
        if !(Ty.vec t).wt v then (st, some "illtyped") else (st, some (doSer3 t vn wn en mn v))
      | _, _ => (st, some "badval")
  | ["iter", i, val, a] =>
      match i.toNat?.bind (st.stypes[·]?), parseVal val, a.toNat? with
      | some t, some v, some a =>
        let (vn, _, _, _) := st.snames.getD i.toNat! ([], [], [], [])
        (st, some (doIter t vn v a))
      | _, _, _ => (st, some "badval")
  | ["type", i, ty] =>
      match i.toNat?, parseTy ty with
      | some i, some t => ({ st with types := st.types.insert i t }, some ("type " ++ toString i))
      | _, _ => (st, some "bad-type")
  | ["case", i, r, mu, val] =>
      match i.toNat?, r.toNat? with
      | some i, some r => (st, some (doCase st i r mu val))
      | _, _ => (st, some "bad-op")
  | ["feed", i] =>
      match i.toNat?.bind (st.types[·]?) with
      | some t => (st, some ("feed " ++ hexOf t.typeFeed ++ " " ++ hexOf (t.alignFeed 0).1))
      | none => (st, some "notype")
  | ["hash", i] =>
      match i.toNat?.bind (st.types[·]?) with
      | some t => (st, some ("hash " ++ toString (t.typeHash H) ++ " " ++ toString (t.alignHash H)))
      | none => (st, some "notype")
  | ["layout", i] =>
      match i.toNat?.bind (st.types[·]?) with
      | some t => (st, some ("layout " ++ (if t.isZC then toString t.sizeOf ++ " " ++ toString t.alignOf ++ " " ++ toString t.maxSizeOf else "deep")))
      | none => (st, some "notype")
  | ["schema", i, val] =>
      match i.toNat?.bind (st.types[·]?), parseVal val with
      | some t, some v =>
        if !t.wt v then (st, some "illtyped") else
        let name := st.names.getD i.toNat! []
        let hdr := t.header H name
        let s := t.ser H name v
        let m := trues hdr.length ++ t.encMask v hdr.length
        let rows := t.schema name v
        (st, some ("schema ok " ++ maskedHex s m ++ " " ++
          String.join (rows.map fun r => toString r.depth ++ "," ++ toString r.off ++ "," ++ toString r.size ++ "," ++ toString r.align ++ ";")))
      | _, _ => (st, some "badval")
  | ["schemaat", i, k, val] =>
      match i.toNat?.bind (st.types[·]?), k.toNat?, parseVal val with
      | some t, some k, some v =>
        if !t.wt v then (st, some "illtyped") else
        let name := st.names.getD i.toNat! []
        let hdr := t.header H name
        let s := zeros k ++ hdr ++ t.enc v (k + hdr.length)
        let m := trues (k + hdr.length) ++ t.encMask v (k + hdr.length)
        let rows := Tree.rowsList (t.schemaTreesAt name v k) 1
        (st, some ("schema ok " ++ maskedHex s m ++ " " ++
          String.join (rows.map fun r => toString r.depth ++ "," ++ toString r.off ++ "," ++ toString r.size ++ "," ++ toString r.align ++ ";")))
      | _, _, _ => (st, some "badval")
  | ["dtype", _] => (st, some "dtype same *")
  | ["zcc", i] =>
      match i.toNat?.bind (st.types[·]?) with
      | some t => (st, some s!"zcc {t.zcConst} {t.mismatch}")
      | none => (st, some "zcc badtype")
  | ["derive", i, dterm, targs, cargs] =>
      match i.toNat?.bind (st.types[·]?), pDef dterm.toList with
      | some t, some (d, []) =>
        let tas := ((targs.splitOn "|").filter (· ≠ "-")).filterMap parseTy
        let cas := ((cargs.splitOn "|").filter (· ≠ "-")).filterMap (·.toNat?)
        let t' := d.derive tas cas
        (st, some ("derive " ++ (if Ty.beq t t' then "same" else "differs") ++ " replaced=" ++
          ",".intercalate (d.replacedParams.map toString) ++ " attrs=" ++ toString d.attrsOk))
      | _, _ => (st, some "derive badterm")
  | ["xdeser", i, j, val] =>
      match i.toNat?.bind (st.types[·]?), j.toNat?.bind (st.types[·]?), parseVal val with
      | some t, some u, some v =>
        if !t.wt v then (st, some "illtyped") else
        let s := t.ser H (st.names.getD i.toNat! []) v
        (st, some ("xdeser | F " ++ showRes (fun (x : Val × Nat) => showVal x.1 ++ " " ++ toString x.2) (u.deFull H s) ++
                   " | E " ++ showRes (fun (x : EVal × Nat) => showEVal x.1 ++ " " ++ toString x.2) (u.deEps H 0 s)))
      | _, _, _ => (st, some "badval")
  | ["xdeserm", i, j, minor, val] =>
      match i.toNat?.bind (st.types[·]?), j.toNat?.bind (st.types[·]?), minor.toNat?, parseVal val with
      | some t, some u, some m, some v =>
        if !t.wt v then (st, some "illtyped") else
        let s0 := t.ser H (st.names.getD i.toNat! []) v
        let s := if s0.length ≥ 12 then s0.take 10 ++ leBytes 2 m ++ s0.drop 12 else s0
        (st, some ("xdeser | F " ++ showRes (fun (x : Val × Nat) => showVal x.1 ++ " " ++ toString x.2) (u.deFull H s) ++
                   " | E " ++ showRes (fun (x : EVal × Nat) => showEVal x.1 ++ " " ++ toString x.2) (u.deEps H 0 s)))
      | _, _, _, _ => (st, some "badval")
  | ["fromhex", i, r, h] =>
      match i.toNat?.bind (st.types[·]?), r.toNat? with
      | some t, some r =>
        let s := unhex h.toList
        (st, some ("fromhex | F " ++ showRes (fun (x : Val × Nat) => showVal x.1 ++ " " ++ toString x.2) (t.deFull H s) ++
                   " | E " ++ showRes (fun (x : EVal × Nat) => showEVal x.1 ++ " " ++ toString x.2) (t.deEps H r s)))
      | _, _ => (st, some "badval")
  -- a type with a unit above the alignment of the loaders' regions: whether the load succeeds depends on the address of the
  -- region (the oracle demands an alignment error or a value without any misaligned reference)
  | ["loadu", _, _, _, _] => (st, some "ANY")
  | ["load", i, loader, flags, val] =>
      match i.toNat?.bind (st.types[·]?), flags.toNat?, parseVal val with
      | some t, some fl, some v =>
        if !t.wt v then (st, some "illtyped") else
        let name := st.names.getD i.toNat! []
        let hdr := t.header H name
        let file := t.ser H name v
        let m := trues hdr.length ++ t.encMask v hdr.length
        let tailStr := " store=true file=" ++ maskedHex file m ++ " mflags=" ++ toString (mmapFlags fl)
        match loader with
        | "full" =>
          (st, some ("load " ++ showRes (fun (x : Val × Nat) => showVal x.1 ++ " region=0 basemod=0 tailzero=true moved=true kind=0") (t.deFull H file) ++ tailStr))
        | _ =>
          let (l, kind) := match loader with
            | "mem" => (Loader.mem, 1) | "mmap" => (Loader.mmap, 2) | _ => (Loader.map, 2)
          let region := regionOf l file
          (st, some ("load " ++ showRes (fun (x : EVal × Nat) => showEVal x.1 ++ " region=" ++ toString region.length ++
              " basemod=0 tailzero=true moved=true kind=" ++ toString kind) (t.deEps H 0 region) ++ tailStr))
      | _, _, _ => (st, some "badval")
  -- a type with a unit above the alignment of the region (64 for the heap, a page for the mappings): whether a load succeeds
  -- depends on where the region happens to be; what does not depend on it is that nothing is left behind
  | ["leaku", _, _, _, _] => (st, some "leak first=* oks=* panics=* heap=0 maps=0 layouts=0")
  | ["leak", i, loader, reps, h] =>
      match i.toNat?.bind (st.types[·]?), reps.toNat? with
      | some t, some n =>
        let bytes := unhex h.toList
        let status : String := if h == "DIR" then "err" else match loader with     -- a path that cannot be read: every loader fails
          | "full" => (match t.deFull H bytes with | .ok _ => "ok" | .err _ => "err" | .panic => "panic")
          | _ =>
            let l := match loader with | "mem" => Loader.mem | "mmap" => Loader.mmap | _ => Loader.map
            (match t.deEps H 0 (regionOf l bytes) with | .ok _ => "ok" | .err _ => "err" | .panic => "panic")
        (st, some ("leak first=" ++ status ++ " oks=" ++ toString (if status == "ok" then n else 0) ++
                   " panics=" ++ toString (if status == "panic" then n else 0) ++ " heap=0 maps=0 layouts=0"))
      | _, _ => (st, some "badval")
  -- very large files: whatever the size, the whole stream is accepted by every entry point (C01 / C02 / C08) and a strict
  -- prefix is refused with a read error by the full-copy ones (C11); what the others answer on a prefix is left to the oracle
  | ["bigfile", _, _, loader, pre] =>
      let l := (loader.splitOn ":").headD ""
      if pre == "-" then (st, some "bigfile ok -")
      else if l == "dfull" || l == "full" then (st, some "bigfile err read")
      else (st, some "bigfile * *")
  -- a byte vector of n zero bytes (gigabytes: never built here) written to a counting sink: the outcome is that of
  -- `C13.budget_run` / `C13.split_ok` on a stream of 29 + 8 + 19 + 8 + n bytes (the name is `alloc::vec::Vec<u8>`)
  | ["bigser", n, sink] =>
      let total := 64 + n.toNat!
      if sink == "none" then (st, some ("bigser ok:" ++ toString total ++ " accepted=" ++ toString total ++ " refused=0 after=0"))
      else if sink == "once" then
        (st, some (if n.toNat! < 1048576 then "bigser ok:" ++ toString total ++ " accepted=" ++ toString total ++ " refused=0 after=0"
                   else "bigser err accepted=64 refused=1 after=0"))
      else
        let k := (sink.drop 4).toString.toNat!
        (st, some (if total ≤ k then "bigser ok:" ++ toString total ++ " accepted=" ++ toString total ++ " refused=0 after=0"
                   else "bigser err accepted=* refused=1 after=0"))
  -- the wrapper stays usable after a failed call (the second call returns); whether the first call fails is the sink's affair
  | ["iterretry", i, _, _] =>
      match i.toNat?.bind (st.stypes[·]?) with
      | some t => (st, some (if t.isZC then "iterretry first=* second=returned" else "iterretry -"))
      | none => (st, some "badval")
  -- a sequence of n zero-sized items is a header and a length word, for every n < 2^64 (C01.roundtrip has no bound on lengths)
  | ["zstvec", _] => (st, some "zstvec ok")
  -- minor version 0 with an unwritable stderr: what is read does not depend on the environment
  | ["quietminor", i, val] =>
      match i.toNat?.bind (st.types[·]?), parseVal val with
      | some t, some v =>
        if !t.wt v then (st, some "illtyped") else
        let s0 := t.ser H (st.names.getD i.toNat! []) v
        let s := if s0.length ≥ 12 then s0.take 10 ++ leBytes 2 0 ++ s0.drop 12 else s0
        (st, some ("xdeser | F " ++ showRes (fun (x : Val × Nat) => showVal x.1 ++ " " ++ toString x.2) (t.deFull H s) ++
                   " | E " ++ showRes (fun (x : EVal × Nat) => showEVal x.1 ++ " " ++ toString x.2) (t.deEps H 0 s)))
      | _, _ => (st, some "badval")
  | ["dropcheck", _, _] => (st, some "dropcheck ok")     -- the region outlives the structure (Resources.loadTrace: release after the last use)
  | ["floadc", i, loader, cut, val] =>
      match i.toNat?.bind (st.types[·]?), cut.toNat?, parseVal val with
      | some t, some c, some v =>
        if !t.wt v then (st, some "illtyped") else
        let s := t.ser H (st.names.getD i.toNat! []) v
        (st, some (floadLine t loader (s.take (s.length - c))))
      | _, _, _ => (st, some "badval")
  | ["fload", i, loader, h] =>
      match i.toNat?.bind (st.types[·]?) with
      | some t => (st, some (floadLine t loader (unhex h.toList)))
      | none => (st, some "badval")
  | ["alloc", i, r, val] =>
      match i.toNat?.bind (st.types[·]?), r.toNat?, parseVal val with
      | some t, some r, some v =>
        if !t.wt v then (st, some "illtyped") else
        let s := t.ser H (st.names.getD i.toNat! []) v
        -- the number of allocator calls is bounded by the model's count (`C03.epsAllocs`: one per non-empty rebuilt
        -- sequence and per non-empty string / sequence of a fully copied field); the number of bytes is not modelled
        let res := t.deEps H r s
        -- (+ 2: `check_header` builds the type name of `Self` and reads the one in the header, two strings)
        let bound := match res with | .ok (e, _) => "<=" ++ toString (2 + C03.epsAllocs e) | _ => "*"
        (st, some ("alloc " ++ bound ++ " * | E " ++ showRes (fun (x : EVal × Nat) => showEVal x.1) res))
      | _, _, _ => (st, some "badval")
  | ["wfail", i, spec, val] =>
      match i.toNat?.bind (st.types[·]?), parseVal val with
      | some t, some v =>
        if !t.wt v then (st, some "illtyped") else
        (st, some (wfailLine t (st.names.getD i.toNat! []) v spec ++ " intact=true"))
      | _, _ => (st, some "badval")
  | ["wfails", i, spec, val] =>
      match i.toNat?.bind (st.stypes[·]?), parseVal val with
      | some t, some v =>
        let (vn, wn, _, _) := st.snames.getD i.toNat! ([], [], [], [])
        if !(Ty.vec t).wt v then (st, some "illtyped") else
        (st, some (wfailLine (.sliceRef t) vn v spec ++ " | " ++
                   wfailLine (wrapTy (.sliceRef t)) wn (.record [v, .bits 0xBEEF]) spec ++ " frees=0 intact=true"))
      | _, _ => (st, some "badval")
  | ["rchunk", i, _pat, k, val] =>
      match i.toNat?.bind (st.types[·]?), parseVal val with
      | some t, some v =>
        if !t.wt v then (st, some "illtyped") else
        let s := t.ser H (st.names.getD i.toNat! []) v
        let kk : Option Nat := if k == "-" then none else if k.startsWith "eof" then (k.drop 3).toString.toNat? else k.toNat?
        let data := match kk with | some n => s.take n | none => s
        (st, some ("rchunk " ++ showRes (fun (x : Val × Nat) => showVal x.1) (t.deFull H data)))
      | _, _ => (st, some "badval")
  | ["cursor", a, ops] =>
      -- `16`, `16d` (default()), `16c100` (with_capacity(100))
      let digits := String.ofList (a.toList.takeWhile Char.isDigit)
      let init := String.ofList (a.toList.dropWhile Char.isDigit)
      let cap := if init.startsWith "c" then (init.drop 1).toString.toNat?.getD 0 else 0
      match digits.toNat?, parseCOps ops with
      | some al, some ops => (st, some (cursorLine al cap ops))
      | _, _ => (st, some "badops")
  | ["xxh", h] => (st, some ("xxh " ++ toString (H (unhex h.toList))))
  | [""] => (st, none)
  | _ => (st, some "bad-op")

partial def loop (h : IO.FS.Stream) (out : IO.FS.Stream) (st : St) : IO Unit := do
  let line ← h.getLine
  if line.isEmpty then return ()
  let (st', o) := step st line
  match o with
  | some s => out.putStrLn s
  | none => pure ()
  loop h out st'

def main : IO Unit := do
  let out ← IO.getStdout
  loop (← IO.getStdin) out {}
  out.flush
