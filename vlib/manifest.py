#!/usr/bin/env python3
"""Regenerate MANIFEST.json from the table below (run after claiming a property)."""
import json, os
VERIF = os.path.dirname(os.path.dirname(os.path.abspath(__file__)))

CLAIMED = {
 'C01': dict(
   technique='Lean 4 proof: framing theorem by mutual structural induction on the type universe (decFull ∘ enc = id, header accepted), tied to the code by differential correspondence',
   text='Kernel-checked theorem deFull_ser: for every well-formed type of the modelled universe (all built-in implementations, derived structs/enums, any nesting), every well-typed value, every type name and digest function, full-copy deserialization of the serialized bytes returns the value and consumes exactly the bytes written; decFull_exhausted covers the refused exhausted range. The model is tied to /repo on every run by running generated types/values through the real crate and the compiled model and comparing bytes, values and counts.',
   note='Model faithfulness is differential (generator-bounded); zero-copy enums are in the correspondence but outside Ty.wf (theorems partial there); rustc layout modelled; debug-profile semantics.',
   design='5/C01'),
}

NOT_YET = {
}

ALL = ['C%02d' % i for i in range(1, 20)]

def main():
    checks = []
    for p in ALL:
        if p in CLAIMED:
            c = CLAIMED[p]
            checks.append({
                'property_id': p,
                'quick_cmd': './bin/check %s --tier quick' % p,
                'thorough_cmd': './bin/check %s --tier thorough' % p,
                'evidence_file': 'evidence/%s.json' % p,
                'replay_cmd_template': './bin/check %s --replay {path}' % p,
                'engine': 'lean-model+correspondence',
                'level_claimed': {'category': 'proof', 'text': c['text'], 'design_ref': c['design']},
                'level_note': c['note'],
                'technique': c['technique'],
            })
    na = [{'property_id': p, 'reason': NOT_YET.get(p, 'not claimed yet: the Lean theorems and the correspondence for this property are still being built (see DESIGN.md section 5); proof in Lean 4 is applicable')}
          for p in ALL if p not in CLAIMED]
    m = {
        'version': 1,
        'setup_cmd': './bin/setup',
        'hooks': {
            'guard': 'epserde_verif',
            'enable': 'RUSTFLAGS="--cfg epserde_verif" (set for the harness in harness/.cargo/config.toml)',
            'baseline_off_cmd': 'cd /repo && cargo test --workspace --no-fail-fast --offline',
            'source_commits': ['cc9aa60'],
            'add_only': True,
        },
        'engines': [{'name': 'lean-model+correspondence', 'path': 'lean/ harness/ gen/ vlib/',
                     'serves_properties': sorted(CLAIMED.keys()),
                     'kind_free_text': 'Lean 4 model with kernel-checked property theorems; Rust harness running the real crate and compiled Lean driver answering the same line protocol; Python generator/oracles'}],
        'checks': checks,
        'not_applicable': na,
        'notes': 'Every check: lake build of Props/<id> + axiom audit, regenerate types (seeded), cargo build of the harness against /repo working tree (hooks on), run implementation and model on the same protocol lines, compare, evaluate the property oracle on the implementation output.',
    }
    json.dump(m, open(os.path.join(VERIF, 'MANIFEST.json'), 'w'), indent=1)

if __name__ == '__main__':
    main()
