#!/usr/bin/env python3
"""Regenerate MANIFEST.json from the table below (run after claiming a property)."""
import json, os
VERIF = os.path.dirname(os.path.dirname(os.path.abspath(__file__)))

CLAIMED = {
 'C01': dict(
   technique='Lean 4 proof: framing theorem by mutual structural induction on the type universe (decFull ∘ enc = id, header accepted), tied to the code by differential correspondence',
   text='Kernel-checked theorem deFull_ser: for every well-formed type of the modelled universe (all built-in implementations, derived structs/enums, any nesting), every well-typed value, every type name and digest function, full-copy deserialization of the serialized bytes returns the value and consumes exactly the bytes written; decFull_exhausted covers the refused exhausted range. The model is tied to /repo on every run by running generated types/values through the real crate and the compiled model and comparing bytes, values and counts.',
   note='Model faithfulness is differential (generator-bounded); zero-copy enums (repr(C): 4-byte tag + union) are inside Ty.wf since the memory round trip for enums was proved; rustc layout modelled; debug-profile semantics.',
   design='5/C01'),
}

CLAIMED.update({
 'C07': dict(
   technique='Lean 4 proof: arithmetic of the 64-bit padding formula (BitVec link + minimality), power-of-two units and block alignment by mutual structural induction; correspondence on real schema rows',
   text='Kernel-checked: pad_is_bit_formula (the model formula is the crate\'s wrapping_neg & (u-1) on 64-bit words), pad_spec (for every offset and power-of-two unit: aligned, smaller than the unit, minimal), unit_pow2 / unit_ge_field (units are powers of two, >= native alignment and field units), blocks_aligned (every zero-copy block of every serialized value starts at a multiple of its unit), zero_block_shape_* (exactly pad zero bytes precede the data), count_exact_full, count_exact_eps. The implementation is compared with the model on layouts (size_of/align_of/max_size_of), on the schema rows recorded by the real serialize_with_schema (block offsets, padding rows) and on byte counts. Probe c07_packed_units (real code only: the model has no packed layout): packed zero-copy structures, whose unit exceeds their native alignment, alone and inside zero-copy enums, structures, arrays and tuples — unit relations, block offsets after strings of every length 0..64, byte counts, both deserializers.',
   note='unit theorems exclude ranges over index types whose size is not a power of two (Ty.wf): there the property is false of the code (known finding KF-C07-1, witness RangeTo<[u8; 3]>, unit 3, replayed on every run); rustc layout is modelled and validated per run.',
   design='5/C07'),
 'C10': dict(
   technique='Lean 4 proof: complete decision table of check_header over every content of the 29 fixed bytes (surjectivity of the field decoding), tied by exhaustive bit flips on the real code',
   text='Kernel-checked: checkHeader_decision gives, for every content of the 29 fixed bytes followed by an intact name, the exact result of check_header (specific error with the offending value, in the published order; never a panic); fixedHdr_surjective shows every 29-byte content is covered (hence every single-bit flip); expected_none_iff characterises acceptance; minor_lower_ok/minor_lower_same_state; deFull_corrupt/deEps_corrupt lift to both deserializers. The run flips header bits of real streams and compares error kind and payload with the model and with the decision logic.',
   note='the type name after the fixed bytes is assumed intact (a corrupted name can make check_header panic: outside the 29 bytes the property speaks of).',
   design='5/C10'),
 'C15': dict(
   technique='Lean 4 proof: decision logic of the tag tables for all byte values / all 64-bit tag words, both readers; tag positions located through the real schema in the correspondence',
   text='Kernel-checked: tag_roundtrip (every variant of every sum type is read back), *_foreign_full / *_foreign_eps (every byte value that no variant writes is rejected with InvalidTag carrying exactly that value, for Option, Bound, ControlFlow, in both readers), enum_foreign_full/eps (every 64-bit tag word >= number of variants, any derived enum), written_tags / enum_written_tag (written tags are never foreign). The run sets every tag byte/word of real streams (positions taken from the real serialize_with_schema) to foreign values and compares with the model and the oracle. Probe c15_zero_enum_discriminants (real code only: the model numbers the variants of a zero-copy enum by position): zero-copy enums with negative, sparse, descending and extreme explicit discriminants and with fields, every variant at top level, as a field, in a vector and in an option, both modes; deep-copy enums with repr(u8 / u16 / i8) and enums with 260 variants are in the universe.',
   note='only foreign tag values are injected in the correspondence (switching to another valid variant re-interprets following bytes as lengths and can abort the process in the allocator).',
   design='5/C15'),
})

CLAIMED.update({
 'C02': dict(
   technique='Lean 4 proof: ε-copy framing theorem by mutual structural induction (decEps ∘ enc describes the value, consumes exactly the bytes, borrows only at writer blocks); agreement of the two readers on arbitrary bytes by a second mutual induction (ε-copy result ⇒ full-copy value), with the exact hypothesis under which it holds; differential correspondence on ε-copy results printed from the real DeserType',
   text='Kernel-checked: decEps_enc / deEps_ser (for every well-formed type, well-typed value, name and digest: from a buffer whose base is a multiple of every block unit, deserialize_eps returns a result whose erasure is the value and consumes exactly the bytes written), eps_full_agree_on_ser (both modes describe the same value and consume the same bytes on serialized streams), eps_full_agree_any_bytes / deEps_deFull_agree_any_bytes (for ANY byte string, type and base address: whenever deserialize_eps returns a result whose borrowed strings are valid UTF-8, deserialize_full returns the value that result describes and consumes the same bytes), full_on_slice_agrees (fields read with the full-copy methods inside an ε-copy read get the value the plain full-copy reader gets), eps_accepts_invalid_utf8 (the UTF-8 hypothesis cannot be dropped: a witness where ε-copy returns a &str and full-copy panics — confirmed on the real code). The correspondence prints ε-copy results through a Show trait implemented on the ε types themselves (borrowed slices/strs/refs with their offsets, rebuilt vectors, fully copied fields), so the substitution actually performed by rustc is compared with the model.',
   note='the ε-copy reader does not validate UTF-8 (it transmutes the bytes): on corrupted input it returns an invalid &str where the full-copy reader panics; this is outside the property (which speaks of serialized bytes) and recorded as an observation in DESIGN 10.4.',
   design='5/C02'),
 'C12': dict(
   technique='Lean 4 proof: both directions of placement by mutual structural induction (aligned ⇒ value, any misplaced block ⇒ AlignmentError at the first one), tied by running the real deserialize_eps at all 128 base residues',
   text='Kernel-checked: eps_align_iff (deserialize_eps of a serialized stream at address base returns a value iff every zero-copy block lands on a multiple of its unit, AlignmentError otherwise), no_misaligned_ref (a returned value never contains a borrowed node off its unit), unit_implies_align, byte_aligned_anywhere. The run places real streams at every residue modulo 128 in a 128-aligned arena and compares outcome with the model and with the arithmetic on the real schema blocks.',
   note='real addresses are modelled as base + offset; the harness measures real pointers. Known finding KF-C12-1 (byte-aligned data under RangeTo<[u8; 3]> refused at addresses that are not multiples of 3) is replayed on every run.',
   design='5/C12'),
})

CLAIMED.update({
 'C11': dict(
   technique='Lean 4 proof: prefix-failure theorem by mutual structural induction for the three readers (generic reader: ReadError; slice full reader and ε-copy reader: error or panic, never a value), header included; tied by cutting real streams at every byte',
   text='Kernel-checked: prefix_full (every strict prefix of every serialized stream makes deserialize_full return ReadError), prefix_eps (deserialize_eps of the prefix at any base address is an error or a bounds-check panic, never a value), checkHeader_prefix, body-level versions at any stream position, file_prefix_load_full / file_prefix_mmap (the file-backed entry points that do not zero-extend: the region of mmap is the file itself). The run truncates real streams at every cut point and compares both modes with the model and the oracle, and stores files cut at sampled points and loads them through load_full, mmap, load_mem, load_mmap (error kind compared with the model; load_full must give a read error, mmap must not return a structure). Op bigfile: payloads of exactly one and two blocks of 16 MiB cut in the header, in the first and in the last block, through deserialize_full, load_full, mmap and deserialize_eps.',
   note='"does not read outside the prefix" holds in the model by construction (readers only see the prefix); at run time it is exercised on exact-length heap copies and on files of exactly the prefix length, not proved. The two zero-extending loaders are outside the clause: their outcome on truncated files is compared with the model only.',
   design='5/C11'),
})

CLAIMED.update({
 'C19': dict(
   technique='Lean 4 proof: refinement of AlignedCursor to Cursor<Vec<u8>> (step theorem + induction over every history), storage as a total byte function; both state machines tied to the real types on the same histories',
   text='Kernel-checked: step_refines (every operation returns what the standard cursor returns and preserves the refinement relation: same position, length, contents, zeros beyond the length, storage a whole number of alignment units covering the length), run_refines / cursor_refines (every history, no bound on its length), observers, gap_zero_filled. Both models are compared with AlignedCursor<A16/A32/A64> and std::io::Cursor<Vec<u8>> on exhaustive short histories and long random ones; the oracle also compares the two real cursors with each other and checks the storage address.',
   note='guard: positions and sizes below 2^62 (the usize::MAX corners differ by design); the address of the storage is the allocator contract for Vec<A>, measured by the harness (partial).',
   design='5/C19'),
})

CLAIMED.update({
 'C16': dict(
   technique='Lean 4 proof: equality of the slice/iterator writers with the vector writer (bytes, both hash feeds, whole stream), hash feeds through arbitrary nesting by mutual structural induction, decision logic of the length check; correspondence on real &[T], SerIter and generic structures',
   text='Kernel-checked: slice_ser_eq_vec / iter_ser_eq_vec (whole stream, header included), iter_writer_eq_vec (the item-by-item iterator writer emits exactly the vector bytes), iter_mismatch / iter_ok_iff (a lying iterator yields the length-mismatch error with both counts, for every announced/actual pair, never success), typeFeed_vecify / typeHash_vecify / alignHash_vecify / enc_vecify / ser_vecify (replacing slices/iterators by vectors anywhere in a type — under vectors, options, arrays, in fields of derived structures and enums, at any depth — preserves both hashes, every byte written at every stream position, hence the whole stream). The run serializes real Vec<T>, &[T], SerIter and Wrap<_> of each for zero-copy and deep element types and compares the six streams with each other and with the model; lying iterators for all pairs.',
   note='the iterator writer of the model is the item-by-item writer of impls/iter.rs (iter_writer_eq_vec ties it to the vector bytes); the serialization-only types have no readers (deserializing the stream as the vector type is C01/C02).',
   design='5/C16'),
})

CLAIMED.update({
 'C13': dict(
   technique='Lean 4 proof: invariants over every sink obeying the write_all contract, every fault schedule and every chunking (prefix, result, exact count), the std write_all loop against arbitrary schedules, the budget sink for every failure position; correspondence with a faulty std::io::Write and a buffer-protecting allocator',
   text='Kernel-checked: writeAll_contract (std write_all over any schedule of short writes / Interrupted / failures takes a prefix and succeeds only if it took everything), runSink_prefix (for every sink, schedule and chunking the accepted bytes are a prefix of the fault-free output), runSink_ok (success only if everything was accepted and flushed, with the exact count), split_ok (sinks that split or retry receive exactly the fault-free bytes), budget_run (failure after k accepted bytes, for every k and chunking: exactly the first k bytes, write error iff k < len or flush fails), slice_no_free (ownership ledger of the &[T] serializer). The run drives the real serializer through a faulty Write (failure at k, per-call caps, Interrupted, flush failure, BufWriter over /dev/full), compares result and accepted bytes with the model, checks the source afterwards, and serializes &[T] / Wrap<&[T]> while the global allocator protects the borrowed buffer and records any attempt to free it. The same sinks under serialize_with_schema; eight kinds of write error, once or for good.',
   note='memory safety is represented by the ledger and measured by the protecting allocator (partial); sinks are assumed to obey the Write contract.',
   design='5/C13'),
 'C14': dict(
   technique='Lean 4 proof: chunking invariance of the std read_exact loop for every progressing schedule (well-founded induction), reader failure reduced to the truncation theorem; correspondence with fragmenting / failing std::io::Read implementations',
   text='Kernel-checked: readExact_chunk_invariant (read_exact over any schedule of short reads and Interrupted delivers exactly the next n bytes, or fails when they are not available), rfail_result (a source failing at any position k before the end makes deserialize_full return ReadError: it delivers exactly the k-byte prefix, C11), chunk_value. The run deserializes real streams through readers that fragment (1-byte, prime, mixed, pseudo-random sizes, Interrupted, BufReader) and fail (error or EOF) at every/sampled position.',
   note='the full-copy reader is assumed to touch its source only through read_exact (true of the modelled code: ReaderWithPos); partially built values on the failure path are runtime behaviour exercised, not proved.',
   design='5/C14'),
})

CLAIMED.update({
 'C18': dict(
   technique='Lean 4 proof: the schema as a forest, tiling / alignment / in-stream invariants by mutual structural induction on the type universe and on the forest; rows compared with the real serialize_with_schema',
   text='Kernel-checked: rows_preorder (the schema is the pre-order traversal of the forest), top_tile (top-level rows are contiguous from 0 to the end of the stream), children_tile (the children of every composite row tile it, at every depth), zero_rows_aligned (each zero-copy block starts at a multiple of its recorded alignment), rows_in_stream (every row lies within the stream, hence debug/to_csv index only inside it), padding_rows_zero (every PADDING node, at any depth, covers bytes of the stream that are all zero — for every type and well-typed value). The run compares the rows recorded by the real SchemaWriter with the model forest for every generated value, the bytes with the plain writer, and evaluates the invariants (incl. zero padding bytes, debug/to_csv not panicking) on the real rows. Op schemaat: serialize_on_field_write after k bytes already written, plain and through a SchemaWriter (same stream, rows with absolute offsets), against the model writing at position k.',
   note='that the recording writer hands the sink the same bytes as the plain writer is checked by the correspondence (one encoder in the model); field names are abstracted to path depth in the model.',
   design='5/C18'),
})

CLAIMED.update({
 'C03': dict(
   technique='Lean 4 proof: borrowed nodes of the ε-copy result are writer blocks (framing theorem), blocks lie inside the stream (mutual structural induction), and are on their units; allocation measured on the real code under payload scaling',
   text='Kernel-checked: borrow_sound (every borrowed slice / str / reference of the ε-copy result of a serialized stream is one of the writer blocks — same offset, length and unit — lies between the end of the header and the end of the stream, and its address is a multiple of its unit), vec_borrowed_in_place / string_borrowed_in_place (the result holds the block offset, not a copy, for every length), eps_alloc_determined (for EVERY input, valid stream or not, base address and position: the allocation count of the result of the ε-copy reader of type T is Ty.allocOf T of the value it describes — a function of the type and of the deep-copy skeleton in which strings, sequences of zero-copy items and zero-copy data contribute nothing whatever they contain; by induction on the type over the reader itself), alloc_independent_of_borrowed_payloads (two well-typed values of one type with the same skeleton Ty.skel — differing only in what is borrowed — cost the same allocations wherever their streams are placed), alloc_payload_independent. The run prints, from the real ε-copy types, pointer − buffer start of every borrowed part and compares with the model offsets; a counting global allocator measures calls and bytes during deserialize_eps for each value and for the same value with every borrowed payload repeated x4, x16, which must be equal; the number of allocator calls must also stay within the model bound 2 + epsAllocs (the two type-name strings of check_header plus one per non-empty rebuilt sequence and fully copied string / sequence).',
   note='real addresses and allocator bytes are runtime facts: the theorem speaks of offsets and of a model-level count, the harness measures pointers and bytes (partial).',
   design='5/C03'),
 'C06': dict(
   technique='Lean 4 proof: format clauses pinned as theorems over the model writer (header constants, tag tables, widths, layouts) plus an independent reference encoder (Lean model + XXH3 port) compared byte-for-byte; golden corpus read and re-written on every run',
   text='Kernel-checked clause by clause: header_layout (cookie, 1.1, pointer width 8, hash words, length-prefixed name), stream_layout, prim_le, string/vec layouts, zero-copy layouts, option/bound/control-flow tag tables, enum_layout (pointer-width variant index), fields_in_order. The run compares every generated stream, both hash feeds (recorded from the real type_hash/align_hash with a recording Hasher) and digests (XXH3 port vs xxhash-rust on 58 lengths) with the model, and for the committed golden corpus (NCORPUS files for a fixed universe of definitions) checks that re-serialization reproduces the stored bytes, both deserializers return the stored values and the hash words are unchanged.',
   note='the corpus was written by the tree at claim time (pinned tree + reader-side fix commits, which do not change written bytes); XXH3 collision-freedom is not claimed.',
   design='5/C06'),
})

CLAIMED.update({
 'C08': dict(
   technique='Lean 4 proof: zero-extension irrelevance and agreement of all loaders (corollary of the ε-copy framing theorem with trailing bytes), region arithmetic, injectivity of the flag translation; correspondence on real store/load_full/load_mem/load_mmap/mmap with the region observed through the hook',
   text='Kernel-checked: region_mem / region_mmap / region_map (the backing region is the file followed by zeros only up to the next multiple of 64 resp. 16; or the file itself), loaders_agree (ε-copy deserialization of the region of any loader describes the stored value, consumes exactly the file, and every borrowed part lies inside the file part of the region on its unit), load_full_agrees, flags_injective (decide over the 8 flag sets). The run stores real values, loads them with the four loaders and all 8 flag sets, compares the loaded structure (printed through Deref) with the model, reads back the region range (hook verif_backend_range) and its tail bytes, checks the flag translation (hook verif_mmap_flags), then moves, boxes, shares with 4 threads and sends the case to another thread and re-reads it; the load_full / load_mem cases are run again against the crate built without the mmap feature. Op bigfile: values built by the harness from a size (file lengths 2^k + p up to 32 MiB, payloads of exactly 16 MiB), every loader; the answer of the model does not depend on the size.',
   note='mmap-rs, the kernel, std::alloc and File are assumed to deliver the file bytes at the stated alignment; thread interleavings are not modelled (the structure is immutable after construction: an argument, not a theorem); the loaders exist in two feature configurations (default, and std + derive without mmap): both are built and run; the alloc-only / no_std configurations of the crate do not compile at the pinned commit (129 errors) and have no file loaders.',
   design='5/C08'),
 'C09': dict(
   technique='Lean 4 proof: invariant over all paths of the load resource machine (release exactly once, after the last use), lifetime algebra of the API signatures; correspondence by leak measurement (counting allocator, /proc/self/maps) and compile outcomes of probe programs',
   text='Kernel-checked: release_once (for every loader and every path — open/map/read failure, deserialization returning an error or panicking, success followed by any number of uses and the drop — the backing region is acquired at most once, released exactly as many times, never used after release), fail_no_leak, partial_array_released / array_ok_owns_items (ownership ledger of the item-by-item construction of arrays under the drop guard: nothing stays alive on an error or a panic in any item; unguarded_array_leaks states the repaired defect), eps_borrow_bounded, case_ref_bounded, and case_copy_unbounded (the recorded finding: a structure copied out of a MemCase carries a caller-chosen lifetime). The run repeats failing loads (truncations, corrupted header, foreign type, garbage) and succeeding loads per loader under a counting global allocator and a mapping count, and compiles 9 probe programs, one per access path, against the working tree.',
   note='rustc\'s borrow checker is the implementation of the lifetime rules: "all safe client programs" is covered by one probe per access path, not by a theorem about rustc (partial). Two known findings (probes that should be rejected compile) are listed in known_findings.json.',
   design='5/C09'),
})

CLAIMED.update({
 'C04': dict(
   technique='Lean 4 proof: header decision (a differing hash word is always the hash error), prefix-freeness of string hashing, context cancellation of the type feed by induction on one-hole contexts, one inequation per near-miss operator; digests of differing feeds are computed, not proved; all near-miss pairs and thousands of ordered pairs run on the real code',
   text='Kernel-checked: header_rejects_type / header_rejects_align / cross_type_rejected (bytes of T read as U give the type-hash error in both modes whenever the digests differ; type word compared first), header_rejects_any_accepted_minor (every minor version the reader accepts is checked as strictly as the current one), typeFeed_ctx_cancel (for every one-hole context — vec, boxed slice, option, bound, control-flow, array, range, phantom, a field of a derived struct, nested to any depth — the feeds of the filled contexts are equal iff the feeds of the fillers are), prim_feeds_distinct / field_retyped, field_names_distinct (a field renamed or two fields swapped), variant_names_distinct (a variant renamed or variants reordered, after any common prefix), seq_kinds_distinct, array_len_distinct, copy_kind_distinct, type_name_distinct, const_value_distinct; and the two recorded findings as theorems: feed_collision_witness (two different definitions with identical type and alignment feeds) and bound_alignFeed_noop. The run records both feeds of every type from the real type_hash/align_hash with a recording Hasher and compares them and the digests with the model, and deserializes the bytes of every type as each of its near-miss mutants (generated in sub-modules under the same identifier) and as thousands of other types, both modes; the near-miss pairs again with the minor version word of the header lowered to 0 (accepted by the reader) and raised (refused); probe c04_marker_tuples (real code only: the model has homogeneous tuples) computes the type hash of 40 PhantomData<(T1, …, Tk)> markers of different component types — every arity 1..12, two components swapped, one component replaced at every position of the 7- and 12-tuples, nestings — which must be pairwise distinct, and reads a structure tagged with one marker as the structure tagged with another (recorded finding KF-C04-3: nestings that flatten to the same sequence collide).',
   note='injectivity of the hashed stream across unrelated definitions is false (known findings KF-C04-1, KF-C04-2, replayed on every run); "feeds differ => 64-bit digests differ" is computed on the explored universe, XXH3 collision-freedom is not claimed.',
   design='5/C04'),
})

CLAIMED.update({
 'C05': dict(
   technique='Lean 4 proof: the derive macro modelled at definition level (field type expressions over parameters, Def.derive), classification theorem (ε-copy method iff the declared type is literally a parameter), ε-copy shape of derived types for arbitrary input bytes (conformance theorem by mutual structural induction), round trips as instances of the framing theorems; tied to the real macro by compiling a generated program of definitions drawn from the grammar and comparing core::any::type_name of the real DeserType, bytes and values',
   text='Kernel-checked: instFields_spec / mem_replacedParams (the generated code uses the ε-copy method for a field iff its declared type is literally a type parameter; the replaced parameters are exactly those), derived_struct_eps_shape / derived_enum_eps_shape (whatever the input bytes, a returned ε-copy result of a derived deep-copy type has the ε-copy shape of the argument at literal-parameter fields and an owned fully deserialized value at every other field, including fields that merely mention a parameter), derived_zero_eps_is_ref (a zero-copy type becomes a reference), derived_roundtrip_full / derived_roundtrip_eps, derive_wf_iff and grammar_roundtrip (well-formedness stated on the definition and its arguments — power-of-two align(N), well-formed field types, variant count, ZeroCopy fields for a zero-copy declaration — is exactly well-formedness of the derived type; every such definition, instantiation and value round-trips in both modes), attrsOk_iff. The run generates definitions from the grammar (all struct and variant styles, type / const / defaulted / phantom parameters, bounds, where-clauses, attributes, nesting), compiles them with the working tree\'s derive macro, compares the real DeserType name of every instantiation with the documented substitution, the model derive with the registered type, and round-trips values in both modes; accept / reject probe programs per grammar feature.',
   note='the macro\'s token manipulation is not modelled: Def.derive is what it is observed to generate on the explored definitions (generator-bounded); the three definitions the macro did not handle were repaired (fix commits 2589d3a, 8779dbe, 2989fc5).',
   design='5/C05'),
})

CLAIMED.update({
 'C17': dict(
   technique='Lean 4 proof: decision logic of both defence layers over every definition, instantiation and type (attribute check, ZeroCopy bound per field, the IS_ZERO_COPY constant by mutual structural induction: true implies plain old data), the guard of serialize_zero; tied by comparing the real constants of every generated type with the model and by compiling / running probe programs',
   text='Kernel-checked: no_reprC_rejected, both_attrs_rejected, non_zero_field_rejected (a definition declared zero-copy with a field, in any variant, whose instantiated type is not ZeroCopy is refused at compile time; heap_types_not_zero lists vector, string, boxed slice, option, bound, control-flow, slice reference, deep structure), Ty.zcConst_plain (IS_ZERO_COPY = true implies that no vector, string, box, option or reference occurs at any depth), zcConst_false_of_field / zcConst_false_no_reprC / wrappers_propagate (a false constant is not hidden by structures, arrays, tuples, ranges), guard_sound / guard_panics (serialize_zero and serialize_slice_zero write only plain old data, and panic before padding, length and data otherwise), wrongly_declared_never_written (for every definition declared zero-copy: refused at compile time, or panic with nothing of the value written, or a C representation, only ZeroCopy fields and a pointer-free image). The run compares IS_ZERO_COPY and ZERO_COPY_MISMATCH of every generated type with the model, builds 15 wrongly declared definitions (each must be rejected for the ZeroCopy bound or by the macro), runs a hand-written lying type through 18 containers (each attempt must panic with no byte of the value written) and a valid control. The lying-leaf probe is built and run a second time with --release (no debug assertions): the run-time layer must stand in every profile.',
   note='rustc is the implementation of the compile-time layer: the probes cover one definition per replacement listed by the property, not all programs (partial); hand-written impls that lie about IS_ZERO_COPY itself are outside the property; the fix e98eccd (tuples and ranges propagate the constant) is what makes wrappers_propagate true of the code.',
   design='5/C17'),
})

NOT_YET = {
}

ALL = ['C%02d' % i for i in range(1, 20)]

def main():
    ncorpus = sum(1 for _ in open(os.path.join(VERIF, 'corpus', 'v1', 'corpus.jsonl')))
    for c in CLAIMED.values():
        c['text'] = c['text'].replace('NCORPUS', str(ncorpus))
    checks = []
    for p in ALL:
        if p in CLAIMED:
            c = CLAIMED[p]
            checks.append({
                'property_id': p,
                'quick_cmd': './bin/check %s --tier quick' % p,
                'thorough_cmd': './bin/check %s --tier thorough' % p,
                'evidence_file': 'evidence/%s.json' % p,
                'replay_cmd_template': './bin/check %s --replay {path}' % p,
                'engine': 'lean-model+correspondence',
                'level_claimed': {'category': 'proof', 'text': c['text'], 'design_ref': c['design']},
                'level_note': c['note'],
                'technique': c['technique'],
            })
    na = [{'property_id': p, 'reason': NOT_YET.get(p, 'not claimed yet: the Lean theorems and the correspondence for this property are still being built (see DESIGN.md section 5); proof in Lean 4 is applicable')}
          for p in ALL if p not in CLAIMED]
    m = {
        'version': 1,
        'setup_cmd': './bin/setup',
        'hooks': {
            'guard': 'epserde_verif',
            'enable': 'RUSTFLAGS="--cfg epserde_verif" (set for the harness in harness/.cargo/config.toml)',
            'baseline_off_cmd': 'cd /repo && cargo test --workspace --no-fail-fast --offline',
            'source_commits': ['cc9aa60'],
            'add_only': True,
        },
        'engines': [{'name': 'lean-model+correspondence', 'path': 'lean/ harness/ gen/ vlib/',
                     'serves_properties': sorted(CLAIMED.keys()),
                     'kind_free_text': 'Lean 4 model with kernel-checked property theorems; Rust harness running the real crate and compiled Lean driver answering the same line protocol; Python generator/oracles'}],
        'checks': checks,
        'not_applicable': na,
        'notes': 'Every check: lake build of Props/<id> + axiom audit, regenerate types (seeded), cargo build of the harness against /repo working tree (hooks on), run implementation and model on the same protocol lines, compare, evaluate the property oracle on the implementation output.',
    }
    json.dump(m, open(os.path.join(VERIF, 'MANIFEST.json'), 'w'), indent=1)

if __name__ == '__main__':
    main()
