"""bin/check <prop> [--tier quick|thorough] [--seed N] [--replay file]"""

import argparse, json, os, re, sys, time
from core import *
import core
import oracles


def shape_of(term):
    """type shape: the Ty term with names, numbers and hex payloads abstracted"""
    s = re.sub(r'adt\(([0-9a-f]*),', 'adt(_,', term)
    s = re.sub(r'[0-9a-f]{2,}(?=[:{;])', '_', s)
    s = re.sub(r'\d+', 'n', s)
    return s[:200]


def run_check(prop, tier, seed, replay=None):
    t0 = time.time()
    spec = oracles.SPECS[prop]
    rd = os.path.join(core.VERIF, 'replays')
    if os.path.isdir(rd) and not replay:
        for f in os.listdir(rd):
            if f.startswith(prop + '-'):
                os.remove(os.path.join(rd, f))
    failures = []        # oracle failures on the implementation: (sig, detail)
    disagreements = []   # model vs implementation
    proof_problems = []  # theorems that no longer check

    # 1. proof obligations -----------------------------------------------------------------
    ok, out = lean_build(['EpsModel.Props.' + prop, 'driver'])
    theorems, bad, forbidden = {}, [], []
    if not ok:
        proof_problems.append('lake build EpsModel.Props.%s failed:\n%s' % (prop, out[-3000:]))
        # the driver may still be buildable on its own
        ok_d, out_d = lean_build(['driver'])
        if not ok_d:
            proof_problems.append('lake build driver failed:\n' + out_d[-2000:])
    else:
        theorems, bad, forbidden, rc, text = lean_audit(prop)
        if bad:
            proof_problems.append('theorems with missing or disallowed axioms: %s' % bad)
        if forbidden:
            proof_problems.append('forbidden constructs: %s' % forbidden)
    obligations = max(len(theorems), 1)
    discharged = len([t for t in theorems if t not in bad]) if ok else 0

    # thorough tier: the compiled module is re-checked by the independent checker
    leanchecker = None
    if ok and tier == 'thorough':
        rc_lc, out_lc, err_lc = run(['lake', 'env', 'leanchecker', 'EpsModel.Props.' + prop], cwd=LEAN, timeout=3600)
        leanchecker = 'ok' if rc_lc == 0 else 'failed'
        if rc_lc != 0:
            proof_problems.append('leanchecker EpsModel.Props.%s failed:\n%s' % (prop, (out_lc + err_lc)[-2000:]))

    # 2. correspondence ----------------------------------------------------------------------
    # the thorough tier explores several universes (each: its own generated definitions, types, values and cases)
    seeds = [seed] if (tier != 'thorough' or replay) else [seed, seed + 101, seed + 202, seed + 303]
    result = None
    for sd in seeds:
        r = spec.run(prop, tier, sd, replay)
        for _, detail in r['failures'] + r['disagreements']:
            detail.setdefault('universe_seed', sd)
        if result is None:
            result = r
            result['coverage']['universe_seeds'] = [sd]
        else:
            result['failures'] += r['failures']
            result['disagreements'] += r['disagreements']
            c, c2 = result['coverage'], r['coverage']
            c['universe_seeds'].append(sd)
            c['evaluations'] += c2.get('evaluations', 0)
            c['traces_validated_against_impl'] = c.get('traces_validated_against_impl', 0) + c2.get('traces_validated_against_impl', 0)
            c['distinct_set'] = sorted(set(map(tuple, c.get('distinct_set', []))) | set(map(tuple, c2.get('distinct_set', []))))
            c['distinct_nontrivial'] = len(c['distinct_set']) or max(c['distinct_nontrivial'], c2['distinct_nontrivial'])
            d1, d2 = c.get('input_distribution', {}), c2.get('input_distribution', {})
            for key in ('families', 'outcomes'):
                for k, v in d2.get(key, {}).items():
                    d1.setdefault(key, {})[k] = d1.get(key, {}).get(k, 0) + v
            for key in ('types', 'derived_definitions'):
                if key in d2: d1[key] = d1.get(key, 0) + d2[key]
    result['coverage'].pop('distinct_set', None)
    if leanchecker: result['coverage']['leanchecker'] = leanchecker
    failures, disagreements = result['failures'], result['disagreements']

    # 3. verdict ---------------------------------------------------------------------------
    known_lines, violations = [], []
    n = 0
    for sig, detail in failures:
        kf = match_known(prop, sig)
        if kf:
            line = 'KNOWN-FINDING: property=%s %s' % (prop, kf['what'])
            if line not in known_lines:
                known_lines.append(line)
            continue
        n += 1
        if n <= 5:
            path = write_replay(prop, seed, n, {'property': prop, 'tier': tier, 'seed': detail.get('universe_seed', seed), 'kind': 'oracle-failure',
                                                'signature': sig, 'detail': detail})
            violations.append('VIOLATION property=%s replay=%s' % (prop, path))
    if not violations and (disagreements or proof_problems):
        # the proof or the correspondence no longer checks and the search found no failing input
        dis_unknown = []
        for sig, detail in disagreements:
            kf = match_known(prop, sig)
            if kf:
                line = 'KNOWN-FINDING: property=%s %s' % (prop, kf['what'])
                if line not in known_lines:
                    known_lines.append(line)
            else:
                dis_unknown.append((sig, detail))
        if dis_unknown or proof_problems:
            path = write_replay(prop, seed, 0, {'property': prop, 'tier': tier, 'seed': seed,
                                                'kind': 'no-failing-input-found',
                                                'theorems_not_checking': proof_problems,
                                                'correspondence_disagreements': [d for _, d in dis_unknown[:10]],
                                                'n_disagreements': len(dis_unknown),
                                                'search': result.get('search', 'oracles evaluated on every generated case of this run')})
            violations.append('VIOLATION property=%s replay=%s no-failing-input-found' % (prop, path))

    cov = result['coverage']
    cov.update({'obligations': obligations, 'discharged': discharged,
                'checker_cmd': 'cd lean && lake build EpsModel.Props.%s && lake env lean <#print axioms of every theorem>' % prop,
                'trusted_base': TRUSTED_BASE + spec.trusted_extra,
                'theorems': {k: v for k, v in theorems.items()},
                'disagreements_checked': cov.get('traces_validated_against_impl', 0),
                'disagreements_found': len(disagreements),
                'oracle_failures': len(failures),
                'known_findings_seen': known_lines})
    write_evidence(prop, tier, seed, cov, time.time() - t0, len(violations), spec.assumptions)
    for l in known_lines:
        print(l)
    for v in violations:
        print(v)
    log('%s: %d evaluations, %d oracle failures, %d disagreements, %d/%d theorems, %.1fs'
        % (prop, cov.get('evaluations', 0), len(failures), len(disagreements), discharged, obligations, time.time() - t0))
    return 1 if violations else 0


def main():
    ap = argparse.ArgumentParser()
    ap.add_argument('prop')
    ap.add_argument('--tier', default=os.environ.get('VERIF_TIER', 'quick'))
    ap.add_argument('--seed', type=int, default=int(os.environ.get('VERIF_SEED', '1')))
    ap.add_argument('--replay', default=None)
    a = ap.parse_args()
    if a.tier not in ('quick', 'thorough'):
        a.tier = 'quick'
    if a.replay:
        # a replay re-runs its lines in the universe they were generated in
        try:
            rp = json.load(open(a.replay))
            a.seed, a.tier = int(rp.get('seed', a.seed)), rp.get('tier', a.tier)
        except (OSError, ValueError):
            pass
    sys.exit(run_check(a.prop, a.tier, a.seed, a.replay))


if __name__ == '__main__':
    main()
