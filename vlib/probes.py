"""Compile the probe programs (/verif/probes/src/bin/*.rs) against /repo's working tree with `cargo check`
and report, per program, whether it compiled and with which error codes it was rejected."""
import json, os, subprocess
from core import VERIF, env_offline

PROBES = os.path.join(VERIF, 'probes')


def run_probes(prefix):
    from core import point_at_repo
    point_at_repo()
    return _run_probes(prefix)


def _run_probes(prefix):
    """returns {bin name: {'compiled': bool, 'codes': [...], 'messages': [...]}} for bins starting with prefix"""
    expect = json.load(open(os.path.join(PROBES, 'expect.json')))
    names = sorted(n for n in expect if n.startswith(prefix))
    cmd = ['cargo', 'check', '--offline', '--keep-going', '--message-format=json']
    for n in names:
        cmd += ['--bin', n]
    p = subprocess.run(cmd, cwd=PROBES, capture_output=True, text=True, env=env_offline(), timeout=3600)
    res = {n: {'compiled': True, 'codes': [], 'messages': []} for n in names}
    dep_failed = False
    for line in p.stdout.splitlines():
        try:
            m = json.loads(line)
        except ValueError:
            continue
        if m.get('reason') != 'compiler-message':
            continue
        tgt = m.get('target', {}).get('name')
        msg = m.get('message', {})
        if msg.get('level') != 'error':
            continue
        if tgt in res:
            res[tgt]['compiled'] = False
            code = (msg.get('code') or {}).get('code')
            if code: res[tgt]['codes'].append(code)
            res[tgt]['messages'].append(msg.get('message', '')[:200])
        elif tgt and tgt not in ('probes',):
            dep_failed = True
    if dep_failed or (p.returncode != 0 and all(r['compiled'] for r in res.values())):
        for r in res.values():
            r['compiled'] = False; r['messages'].append('a dependency failed to build: ' + p.stderr[-400:])
            r['dep_failed'] = True
    return expect, res


def run_probe_bins(prefix, release=False):
    from core import point_at_repo
    point_at_repo()
    return _run_probe_bins(prefix, release)


def _run_probe_bins(prefix, release=False):
    """`cargo build` the probe programs starting with prefix; run those expected to run.
    returns (expect, {name: {'compiled', 'codes', 'messages', 'ran', 'rc', 'stdout'}})"""
    expect = json.load(open(os.path.join(PROBES, 'expect.json')))
    names = sorted(n for n in expect if n.startswith(prefix))
    cmd = ['cargo', 'build', '--offline', '--keep-going', '--message-format=json'] + (['--release'] if release else [])
    for n in names:
        cmd += ['--bin', n]
    p = subprocess.run(cmd, cwd=PROBES, capture_output=True, text=True, env=env_offline(), timeout=3600)
    res = {n: {'compiled': True, 'codes': [], 'messages': [], 'ran': False, 'rc': None, 'stdout': ''} for n in names}
    exes, dep_failed = {}, False
    for line in p.stdout.splitlines():
        try:
            m = json.loads(line)
        except ValueError:
            continue
        tgt = m.get('target', {}).get('name')
        if m.get('reason') == 'compiler-artifact' and tgt in res and m.get('executable'):
            exes[tgt] = m['executable']
        if m.get('reason') != 'compiler-message':
            continue
        msg = m.get('message', {})
        if msg.get('level') != 'error':
            continue
        if tgt in res:
            res[tgt]['compiled'] = False
            code = (msg.get('code') or {}).get('code')
            if code: res[tgt]['codes'].append(code)
            res[tgt]['messages'].append(msg.get('message', '')[:200])
        elif tgt and tgt not in ('probes',):
            dep_failed = True
    if dep_failed or (p.returncode != 0 and all(r['compiled'] for r in res.values())):
        for r in res.values():
            r['compiled'] = False; r['messages'].append('a dependency failed to build: ' + p.stderr[-400:])
            r['dep_failed'] = True
        return expect, res
    for n in names:
        if res[n]['compiled'] and n not in exes:
            res[n]['compiled'] = False; res[n]['messages'].append('no executable produced')
        if res[n]['compiled']:
            try:
                q = subprocess.run([exes[n]], capture_output=True, text=True, timeout=120)
                res[n].update(ran=True, rc=q.returncode, stdout=q.stdout[-4000:], stderr=q.stderr[-1000:])
            except subprocess.TimeoutExpired:
                res[n].update(ran=True, rc=-1, stdout='', stderr='timeout')
    return expect, res
